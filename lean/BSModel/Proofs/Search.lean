import BSModel.Model.Search
/-! Helper lemmas for C10 (core Lean only). -/
namespace BS.Search

/-! ### the limit loop -/

/-- what the loop keeps of one element -/
def keeps (m : Elem → Bool × List Call) (e : Elem) : Bool := e.truthy && (m e).1

theorem filterLoop_none_fst (m : Elem → Bool × List Call) (ax : List Elem) (n : Nat) :
    (filterLoop m none ax n).1 = ax.filter (keeps m) := by
  induction ax generalizing n with
  | nil => simp [filterLoop]
  | cons e rest ih =>
    unfold filterLoop
    by_cases ht : e.truthy = true
    · by_cases hm : (m e).1 = true
      · simp [ht, hm, limitReached, keeps, ih]
      · simp [ht, hm, keeps, ih]
    · simp [ht, keeps, ih]

theorem filterLoop_some_fst (m : Elem → Bool × List Call) (k : Nat) (ax : List Elem) (n : Nat) :
    (filterLoop m (some k) ax n).1 = (ax.filter (keeps m)).take (max 1 (k - n)) := by
  induction ax generalizing n with
  | nil => simp [filterLoop]
  | cons e rest ih =>
    unfold filterLoop
    by_cases ht : e.truthy = true
    · by_cases hm : (m e).1 = true
      · have hk : keeps m e = true := by simp [keeps, ht, hm]
        by_cases hr : n + 1 ≥ k
        · have h1 : max 1 (k - n) = 1 := by omega
          simp [ht, hm, limitReached, hr, hk, h1]
        · have h1 : max 1 (k - n) = max 1 (k - (n + 1)) + 1 := by omega
          simp [ht, hm, limitReached, hr, hk, h1, ih]
      · have hk : keeps m e = false := by simp [keeps, hm]
        simp [ht, hm, hk, ih]
    · have hk : keeps m e = false := by simp [keeps, ht]
      simp [ht, hk, ih]

theorem filterLoop_none_snd (m : Elem → Bool × List Call) (ax : List Elem) (n : Nat) :
    (filterLoop m none ax n).2 = (ax.filter (·.truthy)).flatMap (fun e => (m e).2) := by
  induction ax generalizing n with
  | nil => simp [filterLoop]
  | cons e rest ih =>
    unfold filterLoop
    by_cases ht : e.truthy = true
    · by_cases hm : (m e).1 = true
      · simp [ht, hm, limitReached, ih]
      · simp [ht, hm, ih]
    · simp [ht, ih]

/-! ### rules from criteria -/

theorem makeRules_eq (c : Crit) : makeRules c = c.atoms.flatMap Atom.rules := by
  cases c with
  | atom a => simp [makeRules, Crit.atoms]
  | list l =>
    simp only [makeRules, Crit.atoms]
    induction l with
    | nil => simp
    | cons it rest ih =>
      cases it with
      | atom a => simp [List.flatMap_cons, Item.rules, ih]
      | nested => simp [List.flatMap_cons, Item.rules, ih]

theorem any_makeRules (c : Crit) (P : Rule → Bool) :
    (makeRules c).any P = c.atoms.any (fun a => a.rules.any P) := by
  rw [makeRules_eq]; simp [List.any_flatMap]

/-- one atom's rule against a string value = the atom's documented meaning -/
theorem atom_rules_matchesString (O : Oracle) (a : Atom) (v : Option PStr) :
    a.rules.any (fun r => r.matchesString O v) = a.sat O none v := by
  cases a with
  | none => simp [Atom.rules, Atom.sat]
  | str s => simp [Atom.rules, Atom.sat, Rule.matchesString, Rule.baseMatch]
  | bytes s => simp [Atom.rules, Atom.sat, Rule.matchesString, Rule.baseMatch]
  | bool b => cases b <;> simp [Atom.rules, Atom.sat, Rule.matchesString, Rule.baseMatch]
  | fn i => simp [Atom.rules, Atom.sat, Rule.matchesString]
  | regex i => cases v <;> simp [Atom.rules, Atom.sat, Rule.matchesString, Rule.baseMatch]
  | other r t => simp [Atom.rules, Atom.sat, Rule.matchesString, Rule.baseMatch]

theorem makeRules_matchesString (O : Oracle) (c : Crit) (v : Option PStr) :
    (makeRules c).any (fun r => r.matchesString O v) = c.sat O v := by
  rw [any_makeRules]; simp [Crit.sat, atom_rules_matchesString]

/-! ### name rules -/

theorem nameRulesEval_fst (O : Oracle) (v : Variant) (e : Elem) (rs : List Rule) :
    (nameRulesEval O v e rs).1 = rs.any (fun r => (nameRuleEval O v e r).1) := by
  induction rs with
  | nil => simp [nameRulesEval]
  | cons r rest ih =>
    unfold nameRulesEval
    by_cases h : (nameRuleEval O v e r).1 = true
    · simp [h]
    · simp [h, ih]

/-- repaired variant: one atom's name rule on a tag = the documented meaning of the atom as a name criterion -/
theorem atom_rules_nameEval (O : Oracle) (v : Variant) (hr : v.retryFn = false) (e : Elem) (a : Atom) :
    a.rules.any (fun r => (nameRuleEval O v e r).1)
      = (a.sat O (some e.id) (some e.name) ||
          (!a.isFn && (match prefixedName e with
                       | some p => a.sat O none (some p)
                       | none => false))) := by
  cases a with
  | none => simp [Atom.rules, Atom.sat, Atom.isFn]; cases prefixedName e <;> simp
  | fn i =>
    simp only [Atom.rules, List.any_cons, List.any_nil, Bool.or_false, nameRuleEval, Atom.sat, Atom.isFn]
    by_cases h : O.fnTag i e.id = true
    · simp [h]
    · cases hp : prefixedName e <;> simp [h, hr]
  | str s =>
    simp only [Atom.rules, List.any_cons, List.any_nil, Bool.or_false, nameRuleEval, Atom.sat, Atom.isFn,
      Rule.baseMatch, Rule.matchesString]
    by_cases h : (some e.name == some s) = true
    · simp [h]
    · cases hp : prefixedName e <;> simp [h]
  | bytes s =>
    simp only [Atom.rules, List.any_cons, List.any_nil, Bool.or_false, nameRuleEval, Atom.sat, Atom.isFn,
      Rule.baseMatch, Rule.matchesString]
    by_cases h : (some e.name == some s) = true
    · simp [h]
    · cases hp : prefixedName e <;> simp [h]
  | other s t =>
    simp only [Atom.rules, List.any_cons, List.any_nil, Bool.or_false, nameRuleEval, Atom.sat, Atom.isFn,
      Rule.baseMatch, Rule.matchesString]
    by_cases h : (some e.name == some s) = true
    · simp [h]
    · cases hp : prefixedName e <;> simp [h]
  | bool b =>
    cases b <;>
    · simp only [Atom.rules, List.any_cons, List.any_nil, Bool.or_false, nameRuleEval, Atom.sat, Atom.isFn,
        Rule.baseMatch, Rule.matchesString]
      cases hp : prefixedName e <;> simp
  | regex i =>
    simp only [Atom.rules, List.any_cons, List.any_nil, Bool.or_false, nameRuleEval, Atom.sat, Atom.isFn,
      Rule.baseMatch, Rule.matchesString]
    by_cases h : O.re i e.name = true
    · simp [h]
    · cases hp : prefixedName e <;> simp [h]

theorem nameRules_satName (O : Oracle) (v : Variant) (hr : v.retryFn = false) (e : Elem) (c : Crit) :
    (nameRulesEval O v e (makeRules c)).1 = c.satName O e := by
  rw [nameRulesEval_fst, any_makeRules]
  simp only [Crit.satName]
  congr 1
  funext a
  exact atom_rules_nameEval O v hr e a

/-! ### attribute rules -/

theorem any_swap {α β : Type} (l : List α) (m : List β) (P : α → β → Bool) :
    l.any (fun a => m.any (fun b => P a b)) = m.any (fun b => l.any (fun a => P a b)) := by
  rw [Bool.eq_iff_iff]
  simp only [List.any_eq_true]
  constructor
  · rintro ⟨a, ha, b, hb, h⟩; exact ⟨b, hb, a, ha, h⟩
  · rintro ⟨b, hb, a, ha, h⟩; exact ⟨a, ha, b, hb, h⟩

theorem helperMatch_makeRules (O : Oracle) (c : Crit) (vals : List (Option PStr)) :
    helperMatch O (makeRules c) vals = vals.any (fun x => c.sat O x) := by
  unfold helperMatch
  rw [any_swap]
  congr 1
  funext x
  exact makeRules_matchesString O c x

theorem attributeMatch_makeRules (O : Oracle) (c : Crit) (v : Option AttrVal) :
    attributeMatch O v (makeRules c) = c.satAttr O v := by
  simp only [attributeMatch, Crit.satAttr, helperMatch_makeRules]
  simp

theorem helperMatch_flatMap {α : Type} (O : Oracle) (l : List α) (f : α → List Rule) (vals : List (Option PStr)) :
    helperMatch O (l.flatMap f) vals = l.any (fun x => helperMatch O (f x) vals) := by
  simp [helperMatch, List.any_flatMap]

theorem attributeMatch_flatMap {α : Type} (O : Oracle) (l : List α) (f : α → List Rule) (v : Option AttrVal) :
    attributeMatch O v (l.flatMap f) = l.any (fun x => attributeMatch O v (f x)) := by
  simp only [attributeMatch, helperMatch_flatMap]
  generalize decide ((attrValues v).length ≠ 1) = b
  induction l with
  | nil => simp
  | cons x rest ih =>
    simp only [List.any_cons]
    rw [← ih]
    cases helperMatch O (f x) (attrValues v) <;> cases b <;>
      cases helperMatch O (f x) [some (joinedValue v)] <;> simp

theorem filter_flatMap_key (pairs : List (PStr × Crit)) (a : PStr) :
    ((pairs.flatMap (fun p => (makeRules p.2).map (fun r => (p.1, r)))).filter (·.1 == a)).map (·.2)
      = (pairs.filter (·.1 == a)).flatMap (fun p => makeRules p.2) := by
  induction pairs with
  | nil => simp
  | cons p rest ih =>
    simp only [List.flatMap_cons, List.filter_append, List.map_append, ih]
    by_cases h : (p.1 == a) = true
    · simp [h, List.filter_map, Function.comp_def]
    · simp [h, List.filter_map, Function.comp_def]

theorem rulesFor_mk (q : Query) (a : PStr) :
    (mkStrainer q).rulesFor a = (q.attrPairs.filter (·.1 == a)).flatMap (fun p => makeRules p.2) := by
  simp only [Strainer.rulesFor, mkStrainer]
  exact filter_flatMap_key q.attrPairs a

theorem all_flat (pairs : List (PStr × Crit)) (F : PStr → Bool)
    (hy : ∀ p ∈ pairs, makeRules p.2 ≠ []) :
    (pairs.flatMap (fun p => (makeRules p.2).map (fun r => (p.1, r)))).all (fun p => F p.1)
      = pairs.all (fun p => F p.1) := by
  induction pairs with
  | nil => simp
  | cons p rest ih =>
    have hr := ih (fun p' hp' => hy p' (List.mem_cons_of_mem _ hp'))
    have hp := hy p (List.mem_cons_self ..)
    simp only [List.flatMap_cons, List.all_append, List.all_cons, hr]
    congr 1
    cases hm : makeRules p.2 with
    | nil => exact absurd hm hp
    | cons r rs => cases h : F p.1 <;> simp [h]

/-- the attribute part of `matches_tag` = the documented meaning, when every attribute criterion yields a rule -/
theorem attrs_ok (O : Oracle) (q : Query) (e : Elem) (hy : ∀ p ∈ q.attrPairs, makeRules p.2 ≠ []) :
    (mkStrainer q).attrFlat.all (fun p => attributeMatch O (getAttr e p.1) ((mkStrainer q).rulesFor p.1))
      = q.attrPairs.all (fun p => (q.attrPairs.filter (·.1 == p.1)).any (fun p' => p'.2.satAttr O (getAttr e p.1))) := by
  have h1 : (mkStrainer q).attrFlat = q.attrPairs.flatMap (fun p => (makeRules p.2).map (fun r => (p.1, r))) := rfl
  rw [h1, all_flat q.attrPairs (fun a => attributeMatch O (getAttr e a) ((mkStrainer q).rulesFor a)) hy]
  congr 1
  funext p
  rw [rulesFor_mk, attributeMatch_flatMap]
  congr 1
  funext p'
  exact attributeMatch_makeRules O p'.2 (getAttr e p.1)

theorem attrFlat_isEmpty (q : Query) (hy : ∀ p ∈ q.attrPairs, makeRules p.2 ≠ []) :
    (mkStrainer q).attrFlat.isEmpty = q.attrPairs.isEmpty := by
  have h1 : (mkStrainer q).attrFlat = q.attrPairs.flatMap (fun p => (makeRules p.2).map (fun r => (p.1, r))) := rfl
  rw [h1]
  cases hq : q.attrPairs with
  | nil => simp
  | cons p rest =>
    have := hy p (by rw [hq]; exact List.mem_cons_self ..)
    cases hm : makeRules p.2 with
    | nil => exact absurd hm this
    | cons r rs => simp [List.flatMap_cons, hm]

/-! ### the whole match = the documented meaning -/

/-- the criterion yields at least one match rule (it is not an empty list / a list of nested lists and `None`s) -/
def Crit.Yields (c : Crit) : Prop := makeRules c ≠ []

/-- every criterion that is given yields a rule — exactly the strainers with `matches_nothing = False` -/
structure Query.AllYield (q : Query) : Prop where
  name : q.name.isNone = true ∨ q.name.Yields
  attrs : ∀ p ∈ q.attrPairs, p.2.Yields
  string : q.string.isNone = true ∨ q.string.Yields

theorem isEmpty_noAlternative (c : Crit) : (makeRules c).isEmpty = c.noAlternative := by
  rw [makeRules_eq, Crit.noAlternative]
  induction c.atoms with
  | nil => simp
  | cons a rest ih =>
    simp only [List.flatMap_cons, List.all_cons, ← ih]
    cases a <;> simp [Atom.rules, Atom.isNoneB]

theorem dead_eq_unsat (q : Query) : (mkStrainer q).dead = q.unsatisfiable := by
  simp only [mkStrainer, Query.unsatisfiable, isEmpty_noAlternative]

theorem allYield_of_not_dead (q : Query) (h : (mkStrainer q).dead = false) : q.AllYield := by
  simp only [mkStrainer, Bool.or_eq_false_iff, Bool.and_eq_false_iff, Bool.not_eq_false'] at h
  obtain ⟨⟨h1, h2⟩, h3⟩ := h
  have yields_of : ∀ c : Crit, (makeRules c).isEmpty = false → c.Yields := by
    intro c hc hn; simp [hn] at hc
  refine ⟨?_, ?_, ?_⟩
  · rcases h1 with h1 | h1
    · exact Or.inl h1
    · exact Or.inr (yields_of _ h1)
  · intro p hp
    apply yields_of
    have := List.any_eq_false.mp h2 p hp
    simpa using this
  · rcases h3 with h3 | h3
    · exact Or.inl h3
    · exact Or.inr (yields_of _ h3)

theorem rules_isEmpty (c : Crit) (h : c.isNone = true ∨ c.Yields) : (makeRules c).isEmpty = c.isNone := by
  rcases h with h | h
  · have : c = .atom .none := by simpa [Crit.isNone] using h
    subst this; simp [makeRules, Atom.rules, Crit.isNone]
  · have h2 : c.isNone = false := by
      cases hc : c.isNone
      · rfl
      · have : c = .atom .none := by simpa [Crit.isNone] using hc
        subst this; exact absurd (by simp [makeRules, Atom.rules]) h
    rw [h2]
    cases hm : makeRules c with
    | nil => exact absurd hm h
    | cons r rs => rfl

theorem shortcut_sound (O : Oracle) (q : Query) (e : Elem)
    (h : shortcutReject (mkStrainer q) e = true) : q.name.satName O e = false := by
  rw [← nameRules_satName O .repaired rfl]
  simp only [shortcutReject, Bool.and_eq_true, Bool.not_eq_true'] at h
  obtain ⟨hp, hm⟩ := h
  have hn : (mkStrainer q).nameRules = makeRules q.name := rfl
  rw [hn] at hm
  have hpn : prefixedName e = none := by
    unfold prefixedName
    cases hpp : e.pfx with
    | none => rfl
    | some p => cases p with
      | nil => rfl
      | cons c p => simp [truthyPfx, hpp] at hp
  split at hm
  · rename_i n heq
    rw [heq]
    have : (some e.name == some n) = false := by
      cases h' : (some e.name == some n)
      · rfl
      · simp at h'; simp [h'] at hm
    simp [nameRulesEval, nameRuleEval, Rule.baseMatch, hpn, this]
  · exact absurd hm (by simp)

theorem not_dead_of_allYield (q : Query) (hq : q.AllYield) : (mkStrainer q).dead = false := by
  have em : ∀ c : Crit, c.isNone = true ∨ c.Yields → (!c.isNone && (makeRules c).isEmpty) = false := by
    intro c h
    rw [rules_isEmpty c h]; cases c.isNone <;> rfl
  simp only [mkStrainer, em _ hq.name, em _ hq.string, Bool.false_or, Bool.or_false]
  apply List.any_eq_false.mpr
  intro p hp
  have := hq.attrs p hp
  cases hm : makeRules p.2 with
  | nil => exact absurd hm this
  | cons r rs => simp

/-- the `SoupStrainer` match = the documented meaning when every given criterion yields a rule — for every variant
    of the code in which a name function is not retried with the prefixed string -/
theorem matchElem_sat_yield (O : Oracle) (v : Variant) (hr : v.retryFn = false) (q : Query) (e : Elem)
    (hq : q.AllYield) (hnc : q.noCriteria = false) :
    keeps (matchElem O v (mkStrainer q)) e = sat O q e := by
  have hd := not_dead_of_allYield q hq
  have hun : q.unsatisfiable = false := by rw [← dead_eq_unsat]; exact hd
  have hN : (mkStrainer q).nameRules.isEmpty = q.name.isNone := rules_isEmpty q.name hq.name
  have hS : (mkStrainer q).stringRules.isEmpty = q.string.isNone := rules_isEmpty q.string hq.string
  have hA := attrFlat_isEmpty q hq.attrs
  have hAt := attrs_ok O q e hq.attrs
  have hNm : (nameRulesEval O v e (mkStrainer q).nameRules).1 = q.name.satName O e :=
    nameRules_satName O v hr e q.name
  have hSr : ∀ x, (mkStrainer q).stringRules.any (fun r => r.matchesString O x) = q.string.sat O x :=
    fun x => makeRules_matchesString O q.string x
  unfold sat keeps matchElem
  simp only [hnc, hun, hd, Bool.and_false, Bool.false_eq_true, if_false]
  by_cases ht : e.isTag = true
  · simp only [ht, if_true, Elem.truthy, Bool.true_or, Bool.true_and]
    unfold matchesTag Query.hasTagCriteria
    rw [hN, hA]
    by_cases hn : q.name.isNone = true
    · by_cases ha : q.attrPairs.isEmpty = true
      · simp [hn, ha]
      · have hsc : shortcutReject (mkStrainer q) e = false := by
          have h0 : (mkStrainer q).nameRules = [] := by simpa using hN.trans hn
          simp [shortcutReject, h0]
        simp only [hn, ha, hsc, Bool.true_and, Bool.false_eq_true, if_false, if_true, Bool.not_true,
          Bool.not_false, Bool.or_true, Bool.true_or]
        rw [hAt]
        simp only [stringRulesOK, hS]
        cases hs : e.str <;> simp [hSr]
    · simp only [hn, Bool.false_and, Bool.false_eq_true, if_false, Bool.not_false, Bool.true_or, Bool.true_and,
        Bool.false_or]
      by_cases hsc : shortcutReject (mkStrainer q) e = true
      · simp [hsc, shortcut_sound O q e hsc]
      · simp only [hsc, Bool.false_eq_true, if_false, hNm]
        by_cases hm : q.name.satName O e = true
        · simp only [hm, Bool.not_true, Bool.false_eq_true, if_false, Bool.true_and]
          rw [hAt]
          simp only [stringRulesOK, hS]
          cases hs : e.str <;> simp [hSr]
        · simp [hm]
  · simp only [ht, Bool.false_eq_true, if_false, Elem.truthy, Bool.false_or]
    unfold Query.hasTagCriteria
    rw [hN, hA]
    by_cases hn : q.name.isNone = true
    · by_cases ha : q.attrPairs.isEmpty = true
      · simp [hn, ha, hSr]
      · simp [hn, ha]
    · simp [hn]

/-- **the `SoupStrainer` match = the documented meaning**, for every query with at least one criterion, every
    element and every oracle — provided the code consults `matches_nothing` (proposed patch d) or every given
    criterion yields a rule -/
theorem matchElem_sat (O : Oracle) (v : Variant) (hr : v.retryFn = false) (q : Query) (e : Elem)
    (hd : v.deadCheck = true ∨ q.AllYield) (hnc : q.noCriteria = false) :
    keeps (matchElem O v (mkStrainer q)) e = sat O q e := by
  cases hdd : (mkStrainer q).dead with
  | false => exact matchElem_sat_yield O v hr q e (allYield_of_not_dead q hdd) hnc
  | true =>
    rcases hd with hdc | hq
    · have hun : q.unsatisfiable = true := by rw [← dead_eq_unsat]; exact hdd
      unfold sat keeps matchElem matchesTag
      simp only [hnc, hun, hdd, hdc, Bool.and_self, Bool.false_eq_true, if_false, if_true]
      by_cases ht : e.isTag = true <;> simp [ht]
    · rw [not_dead_of_allYield q hq] at hdd; cases hdd

/-! ### the fast paths of `_find_all` -/

/-- Namespace prefixes as XML has them: absent, or a non-empty colon-free prefix on a colon-free local name.
    (Unprefixed names may contain colons — html.parser produces them.) -/
def Elem.WFPrefix (e : Elem) : Prop :=
  match e.pfx with
  | none => True
  | some p => p ≠ [] ∧ colon ∉ p ∧ colon ∉ e.name

instance (e : Elem) : Decidable e.WFPrefix := by
  unfold Elem.WFPrefix
  split <;> infer_instance

instance (c : Crit) : Decidable c.Yields := inferInstanceAs (Decidable (makeRules c ≠ []))

theorem takeWhile_colon (p nm : PStr) (h : colon ∉ p) :
    (p ++ colon :: nm).takeWhile (· != colon) = p := by
  induction p with
  | nil => simp
  | cons c p ih =>
    have hc : c ≠ colon := fun h' => h (by simp [h'])
    have hp : colon ∉ p := fun h' => h (List.mem_cons_of_mem _ h')
    simp [hc, ih hp]

theorem dropWhile_colon (p nm : PStr) (h : colon ∉ p) :
    (p ++ colon :: nm).dropWhile (· != colon) = colon :: nm := by
  induction p with
  | nil => simp
  | cons c p ih =>
    have hc : c ≠ colon := fun h' => h (by simp [h'])
    have hp : colon ∉ p := fun h' => h (List.mem_cons_of_mem _ h')
    simp [hc, ih hp]

theorem splitColon_append (p nm : PStr) (h : colon ∉ p) : splitColon (p ++ colon :: nm) = (p, nm) := by
  simp [splitColon, takeWhile_colon p nm h, dropWhile_colon p nm h]

theorem countColon_append (p nm : PStr) (h : colon ∉ p) (h2 : colon ∉ nm) : countColon (p ++ colon :: nm) = 1 := by
  simp [countColon, List.count_append, List.count_eq_zero_of_not_mem h,
    List.count_eq_zero_of_not_mem h2]

theorem splitColon_join (n : PStr) (h : colon ∈ n) :
    n = (splitColon n).1 ++ colon :: (splitColon n).2 := by
  induction n with
  | nil => simp at h
  | cons c n ih =>
    by_cases hc : c = colon
    · subst hc; simp [splitColon]
    · have h' : colon ∈ n := by
        rcases List.mem_cons.mp h with h1 | h1
        · exact absurd h1.symm hc
        · exact h1
      have := ih h'
      simp only [splitColon, List.takeWhile_cons, List.dropWhile_cons] at this ⊢
      have hcb : (c != colon) = true := by simpa using hc
      simp only [hcb, if_true]
      simp only [List.cons_append]
      congr 1

/-- the plain-name fast path tests exactly what the SoupStrainer path tests (well-formed prefixes) -/
theorem fastName_eq (n : PStr) (e : Elem) (hw : e.WFPrefix) (ht : e.isTag = true) :
    fastNameTest n e = (e.name == n || prefixedName e == some n) := by
  unfold fastNameTest
  simp only [ht, Bool.true_and]
  cases hp : e.pfx with
  | none =>
    have : prefixedName e = none := by simp [prefixedName, hp]
    simp only [this]
    by_cases hc : countColon n = 1
    · simp [hc]
    · simp [hc]
  | some p =>
    simp only [Elem.WFPrefix, hp] at hw
    obtain ⟨hne, hcp, hcn⟩ := hw
    obtain ⟨c, p', rfl⟩ : ∃ c p', p = c :: p' := by
      cases p with
      | nil => exact absurd rfl hne
      | cons c p' => exact ⟨c, p', rfl⟩
    have hpn : prefixedName e = some ((c :: p') ++ colon :: e.name) := by simp [prefixedName, hp]
    rw [hpn]
    by_cases hc : countColon n = 1
    · simp only [hc, if_true]
      by_cases hx : (c :: p') ++ colon :: e.name = n
      · have hs := splitColon_append (c :: p') e.name hcp
        rw [hx] at hs
        simp [hs, hx]
      · have hj := splitColon_join n (List.count_pos_iff.mp (by unfold countColon at hc; omega))
        have hx2 : ¬ c :: (p' ++ colon :: e.name) = n := by simpa using hx
        have : ¬ (e.name = (splitColon n).2 ∧ (c :: p') = (splitColon n).1) := by
          rintro ⟨h1, h2⟩
          apply hx
          rw [h1, h2]; exact hj.symm
        have hx' : ((c :: p') ++ colon :: e.name == n) = false := by simpa using hx
        by_cases h1 : e.name = (splitColon n).2
        · have h2 : ¬ (c :: p') = (splitColon n).1 := fun h2 => this ⟨h1, h2⟩
          have h2' : (some (c :: p') == some (splitColon n).1) = false := by simpa using h2
          simp only [Option.isNone_some, h2', Bool.and_false, Bool.or_false]
          simp [hx2]
        · have h1' : (e.name == (splitColon n).2) = false := by simpa using h1
          simp only [h1', Bool.false_and, Bool.or_false]
          simp [hx2]
    · have hx : ¬ ((c :: p') ++ colon :: e.name = n) := by
        intro hx
        apply hc
        rw [← hx]; exact countColon_append _ _ hcp hcn
      have hx2 : ¬ c :: (p' ++ colon :: e.name) = n := by simpa using hx
      simp [hc, hx2]

/-- a query whose only criterion is the name -/
def nameOnly (c : Crit) : Query := { name := c }

theorem general_true (O : Oracle) (v : Variant) (e : Elem) :
    matchElem O v (mkStrainer (nameOnly (.atom (.bool true)))) e = (e.isTag, []) := by
  have hs : mkStrainer (nameOnly (.atom (.bool true))) = ⟨[.present true], [], [], false⟩ := by
    simp [mkStrainer, nameOnly, Query.attrPairs, makeRules, Atom.rules, Crit.isNone]
  rw [hs]
  unfold matchElem
  by_cases ht : e.isTag = true
  · simp [ht, matchesTag, shortcutReject, nameRulesEval, nameRuleEval, Rule.baseMatch, stringRulesOK]
  · simp [ht]

theorem general_strName (O : Oracle) (v : Variant) (n : PStr) (e : Elem) :
    matchElem O v (mkStrainer (nameOnly (.atom (.str n)))) e
      = (e.isTag && (e.name == n || prefixedName e == some n), []) := by
  have hs : mkStrainer (nameOnly (.atom (.str n))) = ⟨[.string n], [], [], false⟩ := by
    simp [mkStrainer, nameOnly, Query.attrPairs, makeRules, Atom.rules, Crit.isNone]
  rw [hs]
  unfold matchElem
  by_cases ht : e.isTag = true
  · simp only [ht, if_true, Bool.true_and]
    unfold matchesTag
    simp only [Bool.and_false, List.isEmpty_cons, Bool.false_and, Bool.false_eq_true, if_false]
    by_cases hsc : shortcutReject ⟨[.string n], [], [], false⟩ e = true
    · simp only [hsc, if_true]
      simp only [shortcutReject, Bool.and_eq_true, Bool.not_eq_true'] at hsc
      obtain ⟨hp, hne⟩ := hsc
      have hpn : prefixedName e = none := by
        unfold prefixedName
        cases hpp : e.pfx with
        | none => rfl
        | some p => cases p with
          | nil => rfl
          | cons c p => simp [truthyPfx, hpp] at hp
      have : (e.name == n) = false := by simpa using hne
      simp [hpn, this]
    · have hev : nameRuleEval O v e (.string n) = ((e.name == n || prefixedName e == some n), []) := by
        unfold nameRuleEval
        by_cases hn : e.name = n
        · simp [hn, Rule.baseMatch]
        · have hn' : (e.name == n) = false := by simpa using hn
          simp only [Rule.baseMatch, Option.getD_some, hn', Bool.false_or]
          have : (some e.name == some n) = false := by simpa using hn
          simp only [this, Bool.false_eq_true, if_false]
          split
          · rename_i p hp; simp [Rule.matchesString, Rule.baseMatch, hp]
          · rename_i hp; simp [hp]
      have hnr : nameRulesEval O v e [.string n] = ((e.name == n || prefixedName e == some n), []) := by
        simp only [nameRulesEval, hev]
        cases hb : (e.name == n || prefixedName e == some n) <;> simp
      simp only [hsc, Bool.false_eq_true, if_false, hnr, stringRulesOK]
      cases hb : (e.name == n || prefixedName e == some n) <;> simp
  · simp [ht, mkStrainer, nameOnly, makeRules, Atom.rules]

theorem filterLoop_none_pure (f : Elem → Bool) (hf : ∀ e, f e = true → e.isTag = true) (ax : List Elem) :
    filterLoop (fun e => (f e, [])) none ax 0 = (ax.filter f, []) := by
  apply Prod.ext
  · rw [filterLoop_none_fst]
    apply List.filter_congr
    intro e _
    simp only [keeps, Elem.truthy]
    cases h : f e
    · simp
    · simp [hf e h]
  · rw [filterLoop_none_snd]; simp

theorem flatMap_tag_calls (i : Nat) (ax : List Elem) :
    (ax.filter (·.truthy)).flatMap (fun e => if e.isTag then [Call.tag i e.id] else [])
      = (ax.filter (·.isTag)).map (fun e => Call.tag i e.id) := by
  induction ax with
  | nil => simp
  | cons e rest ih =>
    by_cases ht : e.isTag = true
    · have htr : e.truthy = true := by simp [Elem.truthy, ht]
      simp only [List.filter_cons, htr, ht, if_true, List.flatMap_cons, List.map_cons, ih]
      simp
    · by_cases htr : e.truthy = true
      · simp only [List.filter_cons, htr, ht, if_true, Bool.false_eq_true, if_false, List.flatMap_cons, ih]
        simp
      · simp only [List.filter_cons, htr, ht, Bool.false_eq_true, if_false, ih]

/-! ### assembling `_find_all` -/

/-- the condition of `_find_all`'s shortcuts (repaired: `attrs` is an empty dict) -/
def Query.basic (q : Query) : Bool := q.string.isNone && q.attrs.isEmptyDict && q.kwargs.isEmpty

theorem basic_shape (q : Query) (hb : q.basic = true) : q = nameOnly q.name := by
  obtain ⟨name, attrs, string, kwargs⟩ := q
  simp only [Query.basic, Bool.and_eq_true, Crit.isNone, decide_eq_true_eq, List.isEmpty_iff] at hb
  obtain ⟨⟨h1, h2⟩, h3⟩ := hb
  have ha : attrs = .dict [] := by
    cases attrs with
    | dict d => cases d with
      | nil => rfl
      | cons p d => simp [AttrsArg.isEmptyDict] at h2
    | sugar c => simp [AttrsArg.isEmptyDict] at h2
  subst h1 h3 ha
  rfl

/-- `attrs` is a dict, or a non-dict value that is truthy (else: known finding `C10-falsy-attrs-ignored`) -/
def Query.AttrsArgOK (q : Query) : Prop :=
  match q.attrs with
  | .dict _ => True
  | .sugar c => c.truthy = true

instance (q : Query) : Decidable q.AttrsArgOK := by
  unfold Query.AttrsArgOK; split <;> infer_instance

/-- the variants of the code the refinement theorems are about: the two repairs committed to /repo are in force -/
structure Variant.Sound (v : Variant) : Prop where
  retry : v.retryFn = false
  noCrit : v.noCritBranch = true

theorem Variant.repaired_sound : Variant.repaired.Sound := ⟨rfl, rfl⟩
theorem Variant.proposed_sound : Variant.proposed.Sound := ⟨rfl, rfl⟩

theorem noAttrs_eq (v : Variant) (q : Query) (ha : v.attrsDict = true ∨ q.AttrsArgOK) :
    (if v.attrsDict then q.attrs.isEmptyDict else !q.attrs.truthy) = q.attrs.isEmptyDict := by
  rcases ha with ha | ha
  · simp [ha]
  · cases hv : v.attrsDict
    · simp only [Bool.false_eq_true, if_false]
      unfold Query.AttrsArgOK at ha
      cases hq : q.attrs with
      | dict d => simp [AttrsArg.truthy, AttrsArg.isEmptyDict]
      | sugar c => rw [hq] at ha; simp [AttrsArg.truthy, AttrsArg.isEmptyDict, ha]
    · simp

theorem general_eq_spec (O : Oracle) (v : Variant) (hr : v.retryFn = false) (q : Query) (ax : List Elem)
    (hd : v.deadCheck = true ∨ q.AllYield) (hnc : q.noCriteria = false) :
    (generalPath O v q none ax).1 = findAllSpec O q ax := by
  unfold generalPath findAllSpec
  rw [filterLoop_none_fst]
  apply List.filter_congr
  intro e _
  exact matchElem_sat O v hr q e hd hnc

theorem noCriteria_of_basic (q : Query) (hb : q.basic = true) : q.noCriteria = q.name.isNone := by
  have := basic_shape q hb
  rw [this]
  simp [Query.noCriteria, nameOnly, Query.attrPairs, Crit.isNone]

theorem noCriteria_false_of_not_basic (q : Query) (hb : q.basic = false) : q.noCriteria = false := by
  obtain ⟨name, attrs, string, kwargs⟩ := q
  simp only [Query.noCriteria, Query.attrPairs]
  cases hs : Crit.isNone string
  · simp
  · cases kwargs with
    | cons p k => simp
    | nil =>
      cases attrs with
      | sugar c => simp
      | dict d =>
        cases d with
        | cons p d => simp
        | nil => simp [Query.basic, hs, AttrsArg.isEmptyDict] at hb

/-- how `findAllImpl` starts when the no-criteria branch exists and `attrs` is a dict / truthy (or the shortcuts
    test for an empty dict): its `basic` test is `Query.basic` -/
theorem findAllImpl_sound (O : Oracle) (v : Variant) (hn : v.noCritBranch = true) (q : Query)
    (ha : v.attrsDict = true ∨ q.AttrsArgOK) (limit : Option Nat) (ax : List Elem) :
    findAllImpl O v q limit ax =
      if q.basic && q.name.isNone then
        (match limit with
         | some k => if k = 0 then ax.filter (·.isTag) else (ax.filter (·.isTag)).take k
         | none => ax.filter (·.isTag), [])
      else if q.basic && !limitTruthy limit then
        match q.name with
        | .atom (.bool true) => (ax.filter (·.isTag), [])
        | .atom .none => (ax.filter (·.isTag), [])
        | .atom (.str n) => (ax.filter (fastNameTest n), [])
        | _ => generalPath O v q limit ax
      else generalPath O v q limit ax := by
  simp only [findAllImpl, hn, noAttrs_eq v q ha, Query.basic, Bool.true_and]
  rfl

theorem fn_calls_elem (O : Oracle) (v : Variant) (hr : v.retryFn = false) (q : Query) (i : Nat)
    (hn : q.name = .atom (.fn i)) (hd : v.deadCheck = false ∨ (mkStrainer q).dead = false) (e : Elem) :
    (matchElem O v (mkStrainer q) e).2 = if e.isTag then [.tag i e.id] else [] := by
  have hr' : (mkStrainer q).nameRules = [.function i] := by simp [mkStrainer, hn, makeRules, Atom.rules]
  have hdd : (v.deadCheck && (mkStrainer q).dead) = false := by
    rcases hd with h | h <;> simp [h]
  unfold matchElem
  by_cases ht : e.isTag = true
  · simp only [ht, if_true]
    unfold matchesTag
    simp only [hdd, hr', List.isEmpty_cons, Bool.false_and, Bool.false_eq_true, if_false, shortcutReject, Bool.and_false,
      nameRulesEval, nameRuleEval, hr]
    by_cases hf : O.fnTag i e.id = true
    · simp [hf]
    · cases hp : prefixedName e <;> simp [hf]
  · simp only [ht, hdd, hr', List.isEmpty_cons, Bool.false_and, Bool.false_eq_true, if_false]

/-- with the proposed `matches_nothing` check an unsatisfiable query never calls the name function -/
theorem dead_no_calls (O : Oracle) (v : Variant) (hdc : v.deadCheck = true) (q : Query)
    (hd : (mkStrainer q).dead = true) (e : Elem) :
    matchElem O v (mkStrainer q) e = (false, []) := by
  unfold matchElem matchesTag
  by_cases ht : e.isTag = true <;> simp [ht, hd, hdc]

/-! ### the CSS fragment -/

theorem space_mem_joinSp (l : List PStr) (h : l.length > 1) : space ∈ joinSp l := by
  match l, h with
  | x :: y :: r, _ => simp [joinSp]

theorem prefixedName_has_colon (e : Elem) (p : PStr) (h : prefixedName e = some p) : colon ∈ p := by
  unfold prefixedName at h
  split at h
  · simp at h; subst h; simp
  · simp at h

theorem any_some_eq (l : List PStr) (c : PStr) : l.any ((fun x => x == some c) ∘ some) = decide (c ∈ l) := by
  induction l with
  | nil => simp
  | cons x r ih =>
    simp only [List.any_cons, ih, Function.comp, List.mem_cons]
    by_cases hx : x = c
    · simp [hx]
    · have : ¬ c = x := fun h => hx h.symm
      simp [hx, this]

/-- where a simple selector and its `find_all` form are comparable on an element -/
def Simple.Comparable (s : Simple) (e : Elem) : Prop :=
  match s with
  | .type n => colon ∉ n
  | .cls c => c ≠ [] ∧ space ∉ c ∧ ∀ x, getAttr e classKey ≠ some (.one x)
  | .ident _ => ∀ l, getAttr e idKey ≠ some (.many l)
  | .hasAttr _ => True
  | .attrEq a _ => ∀ l, getAttr e a ≠ some (.many l)

theorem toQuery_unsat (s : Simple) : s.toQuery.unsatisfiable = false := by
  cases s <;> simp [Simple.toQuery, Query.unsatisfiable, Query.attrPairs, Crit.noAlternative, Crit.atoms,
    Atom.isNoneB, Crit.isNone]

theorem css_elem (O : Oracle) (s : Simple) (e : Elem) (h : s.Comparable e) : s.holds e = sat O s.toQuery e := by
  have hu := toQuery_unsat s
  cases s with
  | type n =>
    simp only [Simple.Comparable] at h
    simp only [Simple.toQuery] at hu
    by_cases ht : e.isTag = true
    · cases hpe : prefixedName e with
      | none =>
        simp [Simple.holds, sat, hu, Simple.toQuery, Query.noCriteria, Query.attrPairs, Query.hasTagCriteria, Crit.isNone,
          ht, Crit.satName, Crit.atoms, Atom.isFn, Atom.sat, hpe]
      | some p =>
        have := prefixedName_has_colon e p hpe
        have hne : p ≠ n := fun hh => h (hh ▸ this)
        simp [Simple.holds, sat, hu, Simple.toQuery, Query.noCriteria, Query.attrPairs, Query.hasTagCriteria, Crit.isNone,
          ht, Crit.satName, Crit.atoms, Atom.isFn, Atom.sat, hpe, hne]
    · simp [Simple.holds, sat, hu, Simple.toQuery, Query.noCriteria, Query.attrPairs, Query.hasTagCriteria, Crit.isNone, ht]
  | cls c =>
    simp only [Simple.Comparable] at h
    simp only [Simple.toQuery] at hu
    obtain ⟨hce, hsp, hone⟩ := h
    by_cases ht : e.isTag = true
    · simp only [Simple.holds, sat, hu, Simple.toQuery, Query.noCriteria, Query.attrPairs, Query.hasTagCriteria, Crit.isNone,
        ht, List.map_nil, List.nil_append, List.map_cons]
      cases hg : getAttr e classKey with
      | none => simp [classList, hg, Crit.satAttr, attrValues, Crit.sat, Crit.atoms, Atom.sat]
      | some av =>
        cases av with
        | one x => exact absurd hg (hone x)
        | many l =>
          have hj : l.length ≠ 1 → (joinSp l == c) = false := by
            intro hl
            have : joinSp l ≠ c := by
              intro hh
              cases l with
              | nil => exact hce (by simpa [joinSp] using hh.symm)
              | cons x r =>
                cases r with
                | nil => simp at hl
                | cons y r' => exact hsp (hh ▸ space_mem_joinSp (x :: y :: r') (by simp))
            simpa using this
          by_cases hl : l.length = 1
          · simp [classList, hg, Crit.satAttr, attrValues, Crit.sat, Crit.atoms, Atom.sat, joinedValue, hl]
            exact (any_some_eq l c).symm
          · simp [classList, hg, Crit.satAttr, attrValues, Crit.sat, Crit.atoms, Atom.sat, joinedValue, hl, hj hl]
            exact (any_some_eq l c).symm
    · simp [Simple.holds, sat, hu, Simple.toQuery, Query.noCriteria, Query.attrPairs, Query.hasTagCriteria, Crit.isNone, ht]
  | ident i =>
    simp only [Simple.Comparable] at h
    simp only [Simple.toQuery] at hu
    by_cases ht : e.isTag = true
    · have hk : (if idKey = classUKey then classKey else idKey) = idKey := by decide
      simp only [Simple.holds, sat, hu, Simple.toQuery, Query.noCriteria, Query.attrPairs, Query.hasTagCriteria, Crit.isNone,
        ht, List.map_nil, List.nil_append, List.map_cons, hk]
      cases hg : getAttr e idKey with
      | none => simp [attrString, hg, Crit.satAttr, attrValues, Crit.sat, Crit.atoms, Atom.sat]
      | some av =>
        cases av with
        | one x => simp [attrString, hg, Crit.satAttr, attrValues, Crit.sat, Crit.atoms, Atom.sat]
        | many l => exact absurd hg (h l)
    · simp [Simple.holds, sat, hu, Simple.toQuery, Query.noCriteria, Query.attrPairs, Query.hasTagCriteria, Crit.isNone, ht]
  | hasAttr a =>
    simp only [Simple.toQuery] at hu
    by_cases ht : e.isTag = true
    · simp only [Simple.holds, sat, hu, Simple.toQuery, Query.noCriteria, Query.attrPairs, Query.hasTagCriteria, Crit.isNone,
        ht, List.map_nil, List.append_nil, List.map_cons]
      cases hg : getAttr e a with
      | none => simp [hg, Crit.satAttr, attrValues, Crit.sat, Crit.atoms, Atom.sat]
      | some av =>
        cases av with
        | one x => simp [hg, Crit.satAttr, attrValues, Crit.sat, Crit.atoms, Atom.sat]
        | many l =>
          cases l with
          | nil => simp [hg, Crit.satAttr, attrValues, Crit.sat, Crit.atoms, Atom.sat, joinedValue]
          | cons x r => simp [hg, Crit.satAttr, attrValues, Crit.sat, Crit.atoms, Atom.sat]
    · simp [Simple.holds, sat, hu, Simple.toQuery, Query.noCriteria, Query.attrPairs, Query.hasTagCriteria, Crit.isNone, ht]
  | attrEq a v =>
    simp only [Simple.Comparable] at h
    simp only [Simple.toQuery] at hu
    by_cases ht : e.isTag = true
    · simp only [Simple.holds, sat, hu, Simple.toQuery, Query.noCriteria, Query.attrPairs, Query.hasTagCriteria, Crit.isNone,
        ht, List.map_nil, List.append_nil, List.map_cons]
      cases hg : getAttr e a with
      | none => simp [attrString, hg, Crit.satAttr, attrValues, Crit.sat, Crit.atoms, Atom.sat]
      | some av =>
        cases av with
        | one x => simp [attrString, hg, Crit.satAttr, attrValues, Crit.sat, Crit.atoms, Atom.sat]
        | many l => exact absurd hg (h l)
    · simp [Simple.holds, sat, hu, Simple.toQuery, Query.noCriteria, Query.attrPairs, Query.hasTagCriteria, Crit.isNone, ht]

end BS.Search
