import BSModel.Model.SearchHeap
import BSModel.Proofs.Search
import BSModel.Proofs.HeapIter
/-! Helper lemmas: the heap-level generators of the `find_*` methods are slices of the `.contents` pre-order
(by `Proofs/HeapIter.lean`), so every heap-level search is the `findAllImpl` of `Model/Search.lean` on such a slice. -/
namespace BS.SearchHeap
open BS.Heap BS.Search

/-- prefixes as XML has them (see `Elem.WFPrefix`) -/
def Labels.WF (L : Labels) : Prop :=
  ∀ n, match L.pfx n with
    | none => True
    | some p => p ≠ [] ∧ colon ∉ p ∧ colon ∉ L.name n

theorem view_wfprefix (h : Heap) (L : Labels) (hL : L.WF) (n : Nat) : (view h L n).WFPrefix := by
  unfold view
  by_cases ht : (h.kind n).isTag = true
  · simp only [ht, if_true, Elem.WFPrefix]
    exact hL n
  · simp [ht, Elem.WFPrefix]

theorem view_id (h : Heap) (L : Labels) (n : Nat) : (view h L n).id = n := by
  unfold view; split <;> rfl

theorem view_isTag (h : Heap) (L : Labels) (n : Nat) : (view h L n).isTag = (h.kind n).isTag := by
  unfold view; split <;> simp_all

theorem map_view_wf (h : Heap) (L : Labels) (hL : L.WF) (ids : List Nat) :
    ∀ e ∈ ids.map (view h L), e.WFPrefix := by
  intro e he
  obtain ⟨n, _, rfl⟩ := List.mem_map.mp he
  exact view_wfprefix h L hL n

/-- on a well-formed heap no generator fails (in particular `_last_descendant` inside `descendants`) -/
theorem axisH_ok {h : Heap} {w : Wit} (hwf : WF h w) (x : Nat) (f : Family) : ∃ ids, axisH h x f = .ok ids := by
  cases f with
  | descendants => exact ⟨_, descendants_eq hwf x⟩
  | children => exact ⟨_, rfl⟩
  | nextElements => exact ⟨_, rfl⟩
  | previousElements => exact ⟨_, rfl⟩
  | nextSiblings => exact ⟨_, rfl⟩
  | previousSiblings => exact ⟨_, rfl⟩
  | parents => exact ⟨_, rfl⟩

theorem axisH_descendants {h : Heap} {w : Wit} (hwf : WF h w) (x : Nat) :
    axisH h x .descendants = .ok (docOrder h x).tail := descendants_eq hwf x

end BS.SearchHeap
