import BSModel.Model.SourcePos
/-! C18 helper lemmas -/
namespace BS.SourcePos
open BS.Adapter BS.Builder

/-- the start infos the adapter produces are, in order, exactly the positions of the start-tag callbacks
    (`<x>` and `<x/>` alike) when line numbers are stored, and `none` for every tag otherwise -/
def startPositions : List SEv → List (Nat × Nat)
  | [] => []
  | .starttag _ _ l c :: es => (l, c) :: startPositions es
  | .startendtag _ _ l c :: es => (l, c) :: startPositions es
  | _ :: es => startPositions es

theorem astep_infos (cfg : ACfg) (st : ASt) (e : SEv) :
    (astep cfg st e).2.2.map (·.pos) = (startPositions [e]).map (fun p => if cfg.storeLines then some p else none) := by
  cases e with
  | starttag n a l c => simp only [astep]; split <;> simp [startPositions, mkInfo]
  | startendtag n a l c => simp [astep, startPositions, mkInfo]
  | endtag n => simp only [astep]; split <;> simp [startPositions]
  | unknownDecl s => simp only [astep]; split <;> simp [startPositions]
  | data s => simp [astep, startPositions]
  | charref s => simp [astep, startPositions]
  | entityref s => simp [astep, startPositions]
  | comment s => simp [astep, startPositions]
  | decl s => simp [astep, startPositions]
  | pi s => simp [astep, startPositions]

theorem startPositions_cons (e : SEv) (es : List SEv) :
    startPositions (e :: es) = startPositions [e] ++ startPositions es := by
  cases e <;> simp [startPositions]

theorem pos_pass_through_aux (cfg : ACfg) : ∀ (sevs : List SEv) (st : ASt),
    ((arun (astep cfg) st sevs).2.map (·.pos)) =
      (startPositions sevs).map (fun p => if cfg.storeLines then some p else none) := by
  intro sevs
  induction sevs with
  | nil => intro st; simp [arun, startPositions]
  | cons e es ih =>
    intro st
    rw [startPositions_cons, List.map_append, ← astep_infos cfg st e, ← ih (astep cfg st e).1]
    simp only [arun, List.map_append]


theorem takeWhile_reverse_append (a b : PStr) (hb : b.count 10 = 0) :
    ((a ++ b).reverse.takeWhile (· ≠ 10)).length = (a.reverse.takeWhile (· ≠ 10)).length + b.length := by
  have hall : ∀ x ∈ b.reverse, (decide (x ≠ 10)) = true := by
    intro x hx
    have hx' : x ∈ b := List.mem_reverse.mp hx
    have : x ≠ 10 := by
      intro h; subst h
      have := List.count_pos_iff.mpr hx'
      omega
    simpa using this
  rw [List.reverse_append, List.takeWhile_append_of_pos hall]
  simp; omega

theorem takeWhile_reverse_append_nl (a b : PStr) (hb : b.count 10 ≠ 0) :
    ((a ++ b).reverse.takeWhile (· ≠ 10)) = (b.reverse.takeWhile (· ≠ 10)) := by
  have hmem : 10 ∈ b.reverse := List.mem_reverse.mpr (List.count_pos_iff.mp (by omega))
  rw [List.reverse_append]
  -- the scan stops inside b.reverse
  generalize b.reverse = rb at hmem
  induction rb with
  | nil => cases hmem
  | cons x xs ih =>
    by_cases hx : x = 10
    · subst hx; simp [List.takeWhile]
    · have : 10 ∈ xs := by
        rcases List.mem_cons.mp hmem with h | h
        · exact absurd h.symm hx
        · exact h
      have hd : decide (x ≠ 10) = true := by simpa using hx
      simp only [List.cons_append, List.takeWhile_cons, hd, if_true]
      rw [ih this]

/-- one more chunk: `updatepos` applied to the position of the prefix gives the position of the longer prefix -/
theorem updatepos_step (a b : PStr) :
    updatepos (lineCol a a.length) b = lineCol (a ++ b) (a ++ b).length := by
  simp only [lineCol, List.take_length, updatepos]
  by_cases hb : b.count 10 = 0
  · simp only [hb, if_true, List.count_append, takeWhile_reverse_append a b hb]
    simp
  · simp only [hb, if_false, List.count_append, takeWhile_reverse_append_nl a b hb]
    congr 1; omega


end BS.SourcePos
