import BSModel.Model.StrainerParse
/-! parse-time filter = search-time filter on elements whose attributes are single strings -/
namespace BS.StrainerParse
open BS BS.Search

def Rule.isFunction : Rule → Bool
  | .function _ => true
  | _ => false

theorem matchesString_of_base (O : Oracle) (r : Rule) (hf : Rule.isFunction r = false) (v : PStr) :
    (r.baseMatch O (some v)).getD false = r.matchesString O (some v) := by
  cases r with
  | function i => simp [Rule.isFunction] at hf
  | string s => simp [Rule.baseMatch, Rule.matchesString]
  | pattern i => simp [Rule.baseMatch, Rule.matchesString]
  | present b => cases b <;> simp [Rule.baseMatch, Rule.matchesString]

theorem nameRuleEval_fst (O : Oracle) (v : Variant) (e : Elem) (r : Rule) (hf : Rule.isFunction r = false) :
    (nameRuleEval O v e r).1 = (r.matchesString O (some e.name) || pnMatch O r (prefixedName e)) := by
  have hb := matchesString_of_base O r hf e.name
  cases r with
  | function i => simp [Rule.isFunction] at hf
  | string s =>
    simp only [nameRuleEval]
    rw [hb]
    cases hm : Rule.matchesString O (Rule.string s) (some e.name) <;> cases prefixedName e <;> simp [pnMatch]
  | pattern i =>
    simp only [nameRuleEval]
    rw [hb]
    cases hm : Rule.matchesString O (Rule.pattern i) (some e.name) <;> cases prefixedName e <;> simp [pnMatch]
  | present b =>
    simp only [nameRuleEval]
    rw [hb]
    cases hm : Rule.matchesString O (Rule.present b) (some e.name) <;> cases prefixedName e <;> simp [pnMatch]

theorem nameRulesEval_fst (O : Oracle) (v : Variant) (e : Elem) : ∀ (rs : List Rule), (∀ r ∈ rs, Rule.isFunction r = false) →
    (nameRulesEval O v e rs).1 = nameLoop O e.name (prefixedName e) rs := by
  intro rs
  induction rs with
  | nil => intro _; rfl
  | cons r rs ih =>
    intro hf
    have h1 := nameRuleEval_fst O v e r (hf r (by simp))
    have h2 := ih (fun r' hr' => hf r' (by simp [hr']))
    simp only [nameRulesEval, nameLoop]
    by_cases hx : (nameRuleEval O v e r).1 = true
    · simp only [hx, if_true]; rw [h1] at hx; simp [hx]
    · simp only [hx, Bool.false_eq_true, if_false]
      have hx' : (nameRuleEval O v e r).1 = false := by simpa using hx
      rw [h1] at hx'
      rw [h2, hx']; simp

theorem prefixed_eq (e : Elem) : prefixed e.pfx e.name = prefixedName e := by
  unfold prefixed prefixedName
  cases e.pfx with
  | none => rfl
  | some l => cases l <;> rfl

theorem rawGet_eq (raw : List (PStr × PStr)) (a : PStr) :
    rawGet raw a = (((raw.map (fun p => (p.1, AttrVal.one p.2))).find? (·.1 == a)).map (·.2)) := by
  unfold rawGet
  induction raw with
  | nil => rfl
  | cons p ps ih =>
    simp only [List.map_cons, List.find?_cons]
    cases p.1 == a <;> simp_all

end BS.StrainerParse
