import BSModel.Model.Text
/-! helper lemmas for C13 (text extraction). Core Lean only. -/
namespace BS.Text

/-! ### the worklist walk is the pre-order flattening -/

mutual
/-- pre-order listing of a node and everything beneath it -/
def preN : Node → List Node
  | .str c v => [.str c v]
  | .tag n i ks => .tag n i ks :: preL ks
def preL : List Node → List Node
  | [] => []
  | k :: ks => preN k ++ preL ks
end

theorem walk_nil : walk [] = [] := by rw [walk]
theorem walk_cons (n : Node) (rest : List Node) : walk (n :: rest) = n :: walk (kidsOf n ++ rest) := by rw [walk]

mutual
theorem walk_node (n : Node) (rest : List Node) : walk (n :: rest) = preN n ++ walk rest := by
  cases n with
  | str c v => rw [walk_cons]; simp [kidsOf, preN]
  | tag nm i ks =>
    rw [walk_cons]; simp only [kidsOf, preN]
    rw [walk_list ks rest]; simp
theorem walk_list (l rest : List Node) : walk (l ++ rest) = preL l ++ walk rest := by
  cases l with
  | nil => simp [preL]
  | cons k ks =>
    simp only [List.cons_append, preL]
    rw [walk_node k (ks ++ rest), walk_list ks rest]; simp
end

theorem walk_eq_pre (l : List Node) : walk l = preL l := by
  have := walk_list l []
  simpa [walk_nil] using this

/-! ### filtering the flattening = the recursive evaluator -/

/-- what happens to the value of a string that passed the class test -/
def piece (strp : Bool) (v : PStr) : Option PStr :=
  if strp then (if (strip v).length == 0 then none else some (strip v)) else some v

theorem tagKeep_str (t : Types) (strp : Bool) (c : StrClass) (v : PStr) :
    tagKeep t strp (.str c v) = if t.keeps c then piece strp v else none := by
  unfold tagKeep piece
  cases h : t.keeps c <;> cases strp <;> simp [h]

mutual
theorem filterMap_preN (t : Types) (strp : Bool) (n : Node) :
    (preN n).filterMap (tagKeep t strp) = (textOf t.keeps n).filterMap (piece strp) := by
  cases n with
  | str c v =>
    simp only [preN, textOf, List.filterMap_cons, List.filterMap_nil, tagKeep_str]
    cases h : t.keeps c
    · simp
    · cases hp : piece strp v <;> simp [hp]
  | tag nm i ks =>
    simp only [preN, textOf, List.filterMap_cons, tagKeep]
    exact filterMap_preL t strp ks
theorem filterMap_preL (t : Types) (strp : Bool) (l : List Node) :
    (preL l).filterMap (tagKeep t strp) = (textOfL t.keeps l).filterMap (piece strp) := by
  cases l with
  | nil => simp [preL, textOfL]
  | cons k ks =>
    simp only [preL, textOfL, List.filterMap_append]
    rw [filterMap_preN t strp k, filterMap_preL t strp ks]
end

theorem filterMap_piece_false (l : List PStr) : l.filterMap (piece false) = l := by
  induction l with
  | nil => rfl
  | cons a l ih => simp [piece, ih]

theorem filterMap_piece_true (l : List PStr) :
    l.filterMap (piece true) = (l.map strip).filter (fun s => !s.isEmpty) := by
  induction l with
  | nil => rfl
  | cons a l ih =>
    simp only [List.filterMap_cons, List.map_cons, List.filter_cons, piece, if_true, ih]
    cases h : strip a <;> simp

/-! ### laws of the evaluator -/

theorem textOfL_append (sel : StrClass → Bool) (a b : List Node) :
    textOfL sel (a ++ b) = textOfL sel a ++ textOfL sel b := by
  induction a with
  | nil => simp [textOfL]
  | cons k ks ih => simp [textOfL, ih]

mutual
theorem textOf_congr (s1 s2 : StrClass → Bool) (h : ∀ c, s1 c = s2 c) (n : Node) : textOf s1 n = textOf s2 n := by
  cases n with
  | str c v => simp [textOf, h]
  | tag nm i ks => simp only [textOf]; exact textOfL_congr s1 s2 h ks
theorem textOfL_congr (s1 s2 : StrClass → Bool) (h : ∀ c, s1 c = s2 c) (l : List Node) : textOfL s1 l = textOfL s2 l := by
  cases l with
  | nil => simp [textOfL]
  | cons k ks => simp only [textOfL]; rw [textOf_congr s1 s2 h k, textOfL_congr s1 s2 h ks]
end

mutual
theorem textOf_eq_filter (sel : StrClass → Bool) (n : Node) :
    textOf sel n = ((strNodes n).filter (fun p => sel p.1)).map (·.2) := by
  cases n with
  | str c v => cases h : sel c <;> simp [textOf, strNodes, h]
  | tag nm i ks => simp only [textOf, strNodes]; exact textOfL_eq_filter sel ks
theorem textOfL_eq_filter (sel : StrClass → Bool) (l : List Node) :
    textOfL sel l = ((strNodesL l).filter (fun p => sel p.1)).map (·.2) := by
  cases l with
  | nil => simp [textOfL, strNodesL]
  | cons k ks =>
    simp only [textOfL, strNodesL, List.filter_append, List.map_append]
    rw [textOf_eq_filter sel k, textOfL_eq_filter sel ks]
end

mutual
theorem mem_textOf (sel : StrClass → Bool) (n : Node) (p : PStr) :
    p ∈ textOf sel n ↔ ∃ c, Occurs n c p ∧ sel c = true := by
  cases n with
  | str c v =>
    simp only [textOf]
    constructor
    · intro h
      by_cases hs : sel c = true
      · simp [hs] at h; subst h; exact ⟨c, .here c p, hs⟩
      · simp [hs] at h
    · rintro ⟨c', ho, hs⟩
      cases ho; simp [hs]
  | tag nm i ks =>
    simp only [textOf]
    rw [mem_textOfL sel ks p]
    constructor
    · rintro ⟨c, ho, hs⟩; exact ⟨c, .inTag ho, hs⟩
    · rintro ⟨c, ho, hs⟩; cases ho with | inTag h => exact ⟨c, h, hs⟩
theorem mem_textOfL (sel : StrClass → Bool) (l : List Node) (p : PStr) :
    p ∈ textOfL sel l ↔ ∃ c, OccursL l c p ∧ sel c = true := by
  cases l with
  | nil =>
    simp only [textOfL, List.not_mem_nil, false_iff]
    rintro ⟨c, ho, _⟩; cases ho
  | cons k ks =>
    simp only [textOfL, List.mem_append]
    rw [mem_textOf sel k p, mem_textOfL sel ks p]
    constructor
    · rintro (⟨c, ho, hs⟩ | ⟨c, ho, hs⟩)
      · exact ⟨c, .head ho, hs⟩
      · exact ⟨c, .tail ho, hs⟩
    · rintro ⟨c, ho, hs⟩
      cases ho with
      | head h => exact Or.inl ⟨c, h, hs⟩
      | tail h => exact Or.inr ⟨c, h, hs⟩
end

mutual
theorem textOf_prune (keep sel : StrClass → Bool) (n : Node) :
    textOfL sel (prune keep n) = textOf (fun c => keep c && sel c) n := by
  cases n with
  | str c v =>
    simp only [prune, textOf]
    by_cases hk : keep c = true
    · simp [hk, textOfL, textOf]
    · simp [hk, textOfL]
  | tag nm i ks =>
    simp only [prune, textOfL, textOf, List.append_nil]
    exact textOfL_pruneL keep sel ks
theorem textOfL_pruneL (keep sel : StrClass → Bool) (l : List Node) :
    textOfL sel (pruneL keep l) = textOfL (fun c => keep c && sel c) l := by
  cases l with
  | nil => simp [pruneL, textOfL]
  | cons k ks =>
    simp only [pruneL, textOfL, textOfL_append]
    rw [textOf_prune keep sel k, textOfL_pruneL keep sel ks]
end

/-! ### join -/

theorem foldl_join (sep : PStr) (ps : List PStr) (p : PStr) :
    ps.foldl (fun acc q => acc ++ sep ++ q) p = p ++ (ps.map (fun q => sep ++ q)).flatten := by
  induction ps generalizing p with
  | nil => simp
  | cons q qs _ => simp [List.append_assoc]

theorem joinSpec_cons (sep : PStr) (p : PStr) (ps : List PStr) :
    joinSpec sep (p :: ps) = p ++ (ps.map (fun q => sep ++ q)).flatten := by
  induction ps generalizing p with
  | nil => simp [joinSpec]
  | cons q qs ih => simp [joinSpec, ih]

theorem joinImpl_eq_joinSpec (sep : PStr) (l : List PStr) : joinImpl sep l = joinSpec sep l := by
  cases l with
  | nil => rfl
  | cons p ps => rw [joinSpec_cons]; simp only [joinImpl]; exact foldl_join sep ps p

theorem joinSpec_eq_intercalate (sep : PStr) (l : List PStr) : joinSpec sep l = List.intercalate sep l := by
  unfold List.intercalate
  match l with
  | [] => rfl
  | [p] => simp [joinSpec]
  | p :: q :: r =>
    have ih := joinSpec_eq_intercalate sep (q :: r)
    unfold List.intercalate at ih
    simp only [joinSpec, List.intersperse_cons_cons, List.flatten_cons, ih, List.append_assoc]

theorem length_flatten_sep (sep : PStr) (ps : List PStr) :
    ((ps.map (fun q => sep ++ q)).flatten).length = ps.length * sep.length + ps.flatten.length := by
  induction ps with
  | nil => simp
  | cons q qs ih =>
    simp only [List.map_cons, List.flatten_cons, List.length_append, ih, List.length_cons, Nat.add_mul]
    omega

/-! ### strip -/

theorem mem_takeWhile_imp (p : Nat → Bool) (l : List Nat) (c : Nat) (h : c ∈ l.takeWhile p) : p c = true := by
  induction l with
  | nil => simp at h
  | cons a l ih =>
    by_cases ha : p a = true
    · simp only [List.takeWhile_cons, ha, if_true, List.mem_cons] at h
      rcases h with rfl | h
      · exact ha
      · exact ih h
    · simp [ha] at h

theorem dropWhile_head_not (p : Nat → Bool) (l : List Nat) (c : Nat) (h : (l.dropWhile p).head? = some c) :
    p c = false := by
  have := List.head?_dropWhile_not p l
  rw [h] at this; exact this

/-- `rstrip` removes a whitespace suffix -/
theorem rstrip_decomp (s : PStr) :
    s = rstrip s ++ (s.reverse.takeWhile isSpace).reverse ∧ ∀ c ∈ (s.reverse.takeWhile isSpace).reverse, isSpace c = true := by
  constructor
  · unfold rstrip
    rw [← List.reverse_append, List.takeWhile_append_dropWhile, List.reverse_reverse]
  · intro c hc
    rw [List.mem_reverse] at hc
    exact mem_takeWhile_imp _ _ _ hc

theorem lstrip_decomp (s : PStr) :
    s = s.takeWhile isSpace ++ lstrip s ∧ ∀ c ∈ s.takeWhile isSpace, isSpace c = true := by
  constructor
  · unfold lstrip; rw [List.takeWhile_append_dropWhile]
  · intro c hc; exact mem_takeWhile_imp _ _ _ hc

theorem rstrip_last (s : PStr) (c : Nat) (h : (rstrip s).getLast? = some c) : isSpace c = false := by
  unfold rstrip at h
  rw [List.getLast?_reverse] at h
  exact dropWhile_head_not _ _ _ h

theorem lstrip_head (s : PStr) (c : Nat) (h : (lstrip s).head? = some c) : isSpace c = false :=
  dropWhile_head_not _ _ _ h

theorem rstrip_head (s : PStr) (c : Nat) (h : (rstrip s).head? = some c) : s.head? = some c := by
  have hd := (rstrip_decomp s).1
  rw [hd, List.head?_append, h]; rfl

theorem strip_head (s : PStr) (c : Nat) (h : (strip s).head? = some c) : isSpace c = false :=
  lstrip_head s c (rstrip_head _ c h)

theorem strip_last (s : PStr) (c : Nat) (h : (strip s).getLast? = some c) : isSpace c = false :=
  rstrip_last _ c h

/-- `strip s` is `s` minus a whitespace prefix and a whitespace suffix -/
theorem strip_decomp (s : PStr) :
    ∃ a b, s = a ++ strip s ++ b ∧ (∀ c ∈ a, isSpace c = true) ∧ (∀ c ∈ b, isSpace c = true) := by
  refine ⟨s.takeWhile isSpace, ((lstrip s).reverse.takeWhile isSpace).reverse, ?_, (lstrip_decomp s).2,
    (rstrip_decomp (lstrip s)).2⟩
  have h1 := (lstrip_decomp s).1
  have h2 := (rstrip_decomp (lstrip s)).1
  unfold strip
  rw [List.append_assoc, ← h2, ← h1]

theorem dropWhile_id_of_head (p : Nat → Bool) (l : List Nat) (h : ∀ c, l.head? = some c → p c = false) :
    l.dropWhile p = l := by
  cases l with
  | nil => rfl
  | cons a l => simp [h a rfl]

/-- a string without leading and trailing whitespace is left alone -/
theorem strip_fixed (s : PStr) (hh : ∀ c, s.head? = some c → isSpace c = false)
    (hl : ∀ c, s.getLast? = some c → isSpace c = false) : strip s = s := by
  unfold strip lstrip rstrip
  rw [dropWhile_id_of_head isSpace s hh, dropWhile_id_of_head isSpace s.reverse (by simpa using hl)]
  simp

theorem strip_idem (s : PStr) : strip (strip s) = strip s :=
  strip_fixed _ (strip_head s) (strip_last s)

theorem dropWhile_append_all (p : Nat → Bool) (a r : List Nat) (ha : ∀ c ∈ a, p c = true) :
    (a ++ r).dropWhile p = r.dropWhile p := by
  induction a with
  | nil => rfl
  | cons x xs ih =>
    have hx := ha x (by simp)
    simp only [List.cons_append, List.dropWhile_cons, hx, if_true]
    exact ih (fun c hc => ha c (by simp [hc]))

/-- uniqueness: whatever way `s` is written as whitespace ++ `m` ++ whitespace with `m` free of leading and
    trailing whitespace, `m` is `strip s` -/
theorem strip_unique (s a m b : PStr) (hs : s = a ++ m ++ b) (ha : ∀ c ∈ a, isSpace c = true)
    (hb : ∀ c ∈ b, isSpace c = true) (hh : ∀ c, m.head? = some c → isSpace c = false)
    (hl : ∀ c, m.getLast? = some c → isSpace c = false) : strip s = m := by
  subst hs
  unfold strip lstrip rstrip
  rw [List.append_assoc, dropWhile_append_all isSpace a (m ++ b) ha]
  cases m with
  | nil =>
    simp only [List.nil_append]
    have : b.dropWhile isSpace = [] := by
      have := dropWhile_append_all isSpace b [] hb
      simpa using this
    rw [this]; rfl
  | cons x xs =>
    have hx := hh x rfl
    have h1 : ((x :: xs) ++ b).dropWhile isSpace = (x :: xs) ++ b := by
      simp [hx]
    rw [h1, List.reverse_append, dropWhile_append_all isSpace b.reverse (x :: xs).reverse
      (fun c hc => hb c (List.mem_reverse.mp hc))]
    have h2 : ((x :: xs).reverse).dropWhile isSpace = (x :: xs).reverse := by
      apply dropWhile_id_of_head
      intro c hc
      rw [List.head?_reverse] at hc
      exact hl c hc
    rw [h2, List.reverse_reverse]

/-! ### `.string` -/

mutual
theorem stringProp_sound (n : Node) (c : StrClass) (v : PStr) (h : stringProp n = some (c, v)) : SoleChain n c v := by
  cases n with
  | str c' v' => simp only [stringProp, Option.some.injEq, Prod.mk.injEq] at h; obtain ⟨rfl, rfl⟩ := h; exact .here _ _
  | tag nm i ks =>
    simp only [stringProp] at h
    exact stringPropL_sound nm i ks c v h
theorem stringPropL_sound (nm : PStr) (i : Interesting) (l : List Node) (c : StrClass) (v : PStr)
    (h : stringPropL l = some (c, v)) : SoleChain (.tag nm i l) c v := by
  match l, h with
  | [k], h =>
    simp only [stringPropL] at h
    exact .down (stringProp_sound k c v h)
end

theorem stringProp_complete (n : Node) (c : StrClass) (v : PStr) (h : SoleChain n c v) : stringProp n = some (c, v) := by
  induction h with
  | here c v => simp [stringProp]
  | down _ ih => simp [stringProp, stringPropL, ih]

/-! ### one-shot iterators -/

theorem iterIn_spec (c : StrClass) : ∀ (it : List StrClass),
    ((iterIn c it).1 = true → c ∈ it) ∧ (∀ d ∈ (iterIn c it).2, d ∈ it) := by
  intro it
  induction it with
  | nil => simp [iterIn]
  | cons d ds ih =>
    by_cases h : (d == c) = true
    · have : d = c := by simpa using h
      simp only [iterIn, h, if_true]
      exact ⟨fun _ => by simp [this], fun x hx => List.mem_cons_of_mem _ hx⟩
    · simp only [iterIn, h]
      exact ⟨fun hf => List.mem_cons_of_mem _ (ih.1 hf), fun x hx => List.mem_cons_of_mem _ (ih.2 x hx)⟩

theorem tagKeep_all_of_many (cs : List StrClass) (strp : Bool) (c : StrClass) (v : PStr) (hc : c ∈ cs) :
    tagKeep (.many cs) strp (.str c v) = tagKeep .all strp (.str c v) := by
  simp [tagKeep, Types.keeps, hc]

/-- with a one-shot iterator the loop yields a sublist of what the same classes as a tuple would yield -/
theorem iterWalk_sublist (strp : Bool) (cs : List StrClass) : ∀ (l : List Node) (it : List StrClass),
    (∀ d ∈ it, d ∈ cs) → (iterWalk strp it l).Sublist (l.filterMap (tagKeep (.many cs) strp)) := by
  intro l
  induction l with
  | nil => intro it _; simp [iterWalk]
  | cons n ns ih =>
    intro it hit
    cases n with
    | tag nm i ks =>
      simp only [iterWalk, List.filterMap_cons, tagKeep]
      exact ih it hit
    | str c v =>
      have hsp := iterIn_spec c it
      simp only [iterWalk, List.filterMap_cons]
      cases hr : iterIn c it with
      | mk found it' =>
        rw [hr] at hsp
        have hsub : ∀ d ∈ it', d ∈ cs := fun d hd => hit d (hsp.2 d hd)
        cases found with
        | true =>
          simp only
          rw [tagKeep_all_of_many cs strp c v (hit c (hsp.1 rfl))]
          cases tagKeep .all strp (.str c v) with
          | none => simpa using ih it' hsub
          | some x => simpa using (ih it' hsub).cons_cons x
        | false =>
          simp only
          cases tagKeep (.many cs) strp (.str c v) with
          | none => exact ih it' hsub
          | some x => exact (ih it' hsub).cons x

/-! ### copies, class numbering -/

mutual
theorem copyNode_id (main : List StrClass) (n : Node) : copyNode main n = n := by
  cases n with
  | str c v => simp [copyNode]
  | tag nm i ks =>
    simp only [copyNode, copySelfInteresting, tagInitInteresting]
    rw [copyNodeL_id main ks]
theorem copyNodeL_id (main : List StrClass) (l : List Node) : copyNodeL main l = l := by
  cases l with
  | nil => simp [copyNodeL]
  | cons k ks => simp only [copyNodeL]; rw [copyNode_id main k, copyNodeL_id main ks]
end

theorem ofCode_code (c : StrClass) : StrClass.ofCode c.code = c := by
  cases c with
  | other k => simp only [StrClass.code]; rw [Nat.add_comm]; rfl
  | _ => rfl

theorem code_eq_zero (c : StrClass) : c.code = 0 ↔ c = .navigableString := by
  cases c <;> simp [StrClass.code]

theorem code_inj (a b : StrClass) (h : a.code = b.code) : a = b := by
  rw [← ofCode_code a, ← ofCode_code b, h]

theorem lookup_mem {α : Type} [BEq α] [LawfulBEq α] {β : Type} (k : α) (v : β) :
    ∀ (l : List (α × β)), l.lookup k = some v → (k, v) ∈ l := by
  intro l
  induction l with
  | nil => intro h; simp [List.lookup] at h
  | cons a l ih =>
    obtain ⟨k', d⟩ := a
    intro h
    simp only [List.lookup] at h
    split at h
    · rename_i heq
      have : k = k' := by simpa using heq
      simp_all
    · exact List.mem_cons_of_mem _ (ih h)

/-- the innermost open container element, found through a split of the list of open names -/
theorem containerStackTop_split (cont : List (PStr × StrClass)) (pre : List PStr) (nm : PStr) (post : List PStr)
    (c : StrClass) (hpre : ∀ g ∈ pre, cont.lookup g = none) (hnm : cont.lookup nm = some c) :
    containerStackTop cont (pre ++ nm :: post) = some nm := by
  unfold containerStackTop
  induction pre with
  | nil => simp [hnm]
  | cons g gs ih =>
    have hg := hpre g (by simp)
    simp only [List.cons_append, List.find?, hg, Option.isSome_none]
    exact ih (fun x hx => hpre x (by simp [hx]))

theorem containerStackTop_none (cont : List (PStr × StrClass)) (names : List PStr)
    (h : ∀ g ∈ names, cont.lookup g = none) : containerStackTop cont names = none := by
  unfold containerStackTop
  induction names with
  | nil => rfl
  | cons g gs ih =>
    have hg := h g (by simp)
    simp only [List.find?, hg, Option.isSome_none]
    exact ih (fun x hx => h x (by simp [hx]))

end BS.Text
