import BSModel.Proofs.Text
import BSModel.Model.TextHeap
import BSModel.Proofs.HeapIter
/-! C13: text extraction over the pointer heap equals text extraction over the abstracted tree. Core Lean only. -/
namespace BS.Text
open BS.Heap

theorem preL_map (g : Nat → Node) (l : List Nat) : preL (l.map g) = l.flatMap (fun k => preN (g k)) := by
  induction l with
  | nil => simp [preL]
  | cons k ks ih => simp [preL, ih]

theorem filterMap_flatMap' {α β γ : Type} (f : β → Option γ) (g : α → List β) (l : List α) :
    (l.flatMap g).filterMap f = l.flatMap (fun a => (g a).filterMap f) := by
  induction l with
  | nil => rfl
  | cons a l ih => simp [List.flatMap_cons, List.filterMap_append, ih]

theorem tagKeep_shallow_tag (h : Heap) (L : Labels) (t : Types) (s : Bool) (n : Nat) (hn : (h.kind n).isTag = true) :
    tagKeep t s (shallow h L n) = none := by
  simp [shallow, hn, tagKeep]

theorem preN_shallow (h : Heap) (L : Labels) (n : Nat) : preN (shallow h L n) = [shallow h L n] := by
  by_cases hn : (h.kind n).isTag = true <;> simp [shallow, hn, preN, preL]

theorem tagKeep_tag (t : Types) (s : Bool) (nm : PStr) (i : Interesting) (ks : List Node) :
    tagKeep t s (.tag nm i ks) = none := rfl

/-- the strings the loop body keeps, over the tree and over the heap walk, agree (any fuel) -/
theorem filterMap_pre_toNode (h : Heap) (L : Labels) (hleaf : ∀ n, (h.kind n).isTag = false → h.kids n = [])
    (t : Types) (s : Bool) : ∀ (f n : Nat),
    (preN (toNode h L f n)).filterMap (tagKeep t s) =
      (pre h.kids f n).filterMap (fun e => tagKeep t s (shallow h L e)) := by
  intro f
  induction f with
  | zero =>
    intro n
    show (preN (shallow h L n)).filterMap (tagKeep t s) = [n].filterMap (fun e => tagKeep t s (shallow h L e))
    rw [preN_shallow]
    simp only [List.filterMap_cons, List.filterMap_nil]
  | succ f ih =>
    intro n
    by_cases hn : (h.kind n).isTag = true
    · have h1 : toNode h L (f + 1) n = .tag (L.name n) (L.interesting n) ((h.kids n).map (toNode h L f)) := by
        simp [toNode, hn]
      have h2 : pre h.kids (f + 1) n = n :: (h.kids n).flatMap (pre h.kids f) := rfl
      rw [h1, h2, preN, List.filterMap_cons, tagKeep_tag, List.filterMap_cons, tagKeep_shallow_tag h L t s n hn]
      rw [preL_map, filterMap_flatMap', filterMap_flatMap']
      show List.flatMap _ _ = List.flatMap _ _
      congr 1
      funext k
      exact ih k
    · have hn' : (h.kind n).isTag = false := by simpa using hn
      have hk := hleaf n hn'
      have h1 : toNode h L (f + 1) n = shallow h L n := by simp [toNode, shallow, hn']
      have h2 : pre h.kids (f + 1) n = [n] := by simp [pre, hk]
      rw [h1, h2, preN_shallow]
      simp only [List.filterMap_cons, List.filterMap_nil]

/-- **the tie**: on a consistent heap, `_all_strings` run over the `next_element` chase never fails and yields what
    the tree-level code-mirror yields on the tree read off the children lists -/
theorem allStringsHeap_eq_tree {h : Heap} {w : Wit} (hwf : WF h w) (main : List StrClass) (L : Labels) (strp : Bool)
    (types : TypesArg) (x : Nat) :
    allStringsHeap main h L strp types x = .ok (allStringsImpl main strp types (toNode h L h.cap x)) := by
  have hcap : 1 ≤ h.cap := Nat.le_trans (hwf.size_pos x) (hwf.size_cap x)
  obtain ⟨c, hc⟩ : ∃ c, h.cap = c + 1 := ⟨h.cap - 1, by omega⟩
  unfold allStringsHeap
  by_cases hx : (h.kind x).isTag = true
  · simp only [hx, if_true, descendants_eq hwf x]
    rw [hc]
    simp only [toNode, hx, if_true, allStringsImpl, walk_eq_pre, pre, List.tail_cons]
    rw [preL_map, filterMap_flatMap', filterMap_flatMap']
    congr 2
    funext k
    exact (filterMap_pre_toNode h L hwf.str_leaf _ strp c k).symm
  · simp only [hx]
    rw [hc]
    simp [toNode, hx]

/-- fuel irrelevance of the abstraction: any bound ≥ the size of the subtree gives the same tree -/
theorem toNode_fuel {h : Heap} {w : Wit} (hwf : WF h w) (L : Labels) :
    ∀ (f g n : Nat), w.size n ≤ f + 1 → w.size n ≤ g + 1 → toNode h L f n = toNode h L g n := by
  intro f
  induction f with
  | zero =>
    intro g n hf _
    have hk := wf_size_one_kids hwf (n := n) (by omega)
    cases g with
    | zero => rfl
    | succ g => by_cases hn : (h.kind n).isTag = true <;> simp [toNode, shallow, hn, hk]
  | succ f ih =>
    intro g n hf hg
    cases g with
    | zero =>
      have hk := wf_size_one_kids hwf (n := n) (by omega)
      by_cases hn : (h.kind n).isTag = true <;> simp [toNode, shallow, hn, hk]
    | succ g =>
      by_cases hn : (h.kind n).isTag = true
      · simp only [toNode, hn, if_true]
        congr 1
        apply List.map_congr_left
        intro k hk
        have := wf_kid_lt hwf hk
        exact ih g k (by omega) (by omega)
      · simp [toNode, hn]

/-- the abstraction is a fixed point: the tree of a tag is the tag over the trees of its children -/
theorem toNode_unfold {h : Heap} {w : Wit} (hwf : WF h w) (L : Labels) (x : Nat) (hx : (h.kind x).isTag = true) :
    toNode h L h.cap x = .tag (L.name x) (L.interesting x) ((h.kids x).map (toNode h L h.cap)) := by
  have hcap : 1 ≤ h.cap := Nat.le_trans (hwf.size_pos x) (hwf.size_cap x)
  obtain ⟨c, hc⟩ : ∃ c, h.cap = c + 1 := ⟨h.cap - 1, by omega⟩
  rw [hc]
  simp only [toNode, hx, if_true]
  congr 1
  apply List.map_congr_left
  intro k hk
  have := wf_kid_lt hwf hk
  have := hwf.size_cap x
  exact toNode_fuel hwf L c (c + 1) k (by omega) (by omega)

theorem toNode_str {h : Heap} (L : Labels) (f x : Nat) (hx : (h.kind x).isTag = false) :
    toNode h L f x = .str (L.cls x) (h.val x) := by
  cases f <;> simp [toNode, shallow, hx]

/-! ### `.string` -/

theorem stringProp_toNode (h : Heap) (L : Labels) : ∀ (f n : Nat),
    stringProp (toNode h L f n) = (stringPropHeap h f n).map (fun s => (L.cls s, h.val s)) := by
  intro f
  induction f with
  | zero =>
    intro n
    by_cases hn : (h.kind n).isTag = true
    · simp [toNode, shallow, hn, stringProp, stringPropL, stringPropHeap]
    · simp [toNode, shallow, hn, stringProp, stringPropHeap]
  | succ f ih =>
    intro n
    by_cases hn : (h.kind n).isTag = true
    · simp only [toNode, hn, if_true, stringProp]
      rw [stringPropHeap.eq_def]
      simp only [hn, Bool.not_true, Bool.false_eq_true, if_false]
      match hk : h.kids n with
      | [] => simp [stringPropL]
      | [k] => simp [stringPropL, ih k]
      | _ :: _ :: _ => simp [stringPropL]
    · simp [toNode, hn, stringProp, stringPropHeap]

theorem stringPropHeap_sound (h : Heap) : ∀ (f n s : Nat), stringPropHeap h f n = some s → HeapSoleChain h n s := by
  intro f
  induction f with
  | zero =>
    intro n s hs
    rw [stringPropHeap.eq_def] at hs
    by_cases hn : (h.kind n).isTag = true
    · simp [hn] at hs
    · simp [hn] at hs; subst hs; exact .here (by simpa using hn)
  | succ f ih =>
    intro n s hs
    rw [stringPropHeap.eq_def] at hs
    by_cases hn : (h.kind n).isTag = true
    · simp only [hn, Bool.not_true, Bool.false_eq_true, if_false] at hs
      match hk : h.kids n with
      | [] => simp [hk] at hs
      | [k] => simp only [hk] at hs; exact .down hn hk (ih k s hs)
      | _ :: _ :: _ => simp [hk] at hs
    · simp [hn] at hs; subst hs; exact .here (by simpa using hn)

theorem stringPropHeap_complete {h : Heap} {w : Wit} (hwf : WF h w) {n s : Nat} (hc : HeapSoleChain h n s) :
    ∀ f, w.size n ≤ f + 1 → stringPropHeap h f n = some s := by
  induction hc with
  | here hs => intro f _; rw [stringPropHeap.eq_def]; simp [hs]
  | @down n k s hn hk _ ih =>
    intro f hf
    have hkm : k ∈ h.kids n := by simp [hk]
    have hlt := wf_kid_lt hwf hkm
    have hpos := hwf.size_pos k
    cases f with
    | zero => omega
    | succ f =>
      rw [stringPropHeap.eq_def]
      simp only [hn, Bool.not_true, Bool.false_eq_true, if_false, hk]
      exact ih f (by omega)

end BS.Text
