import BSModel.Proofs.Text
import BSModel.Model.TextHeap
import BSModel.Proofs.HeapIter
/-! C13: text extraction over the pointer heap equals text extraction over the abstracted tree. Core Lean only. -/
namespace BS.Text
open BS.Heap

theorem preL_map (g : Nat → Node) (l : List Nat) : preL (l.map g) = l.flatMap (fun k => preN (g k)) := by
  induction l with
  | nil => simp [preL]
  | cons k ks ih => simp [preL, ih]

theorem filterMap_flatMap' {α β γ : Type} (f : β → Option γ) (g : α → List β) (l : List α) :
    (l.flatMap g).filterMap f = l.flatMap (fun a => (g a).filterMap f) := by
  induction l with
  | nil => rfl
  | cons a l ih => simp [List.flatMap_cons, List.filterMap_append, ih]

theorem tagKeep_shallow_tag (h : Heap) (L : Labels) (t : Types) (s : Bool) (n : Nat) (hn : (h.kind n).isTag = true) :
    tagKeep t s (shallow h L n) = none := by
  simp [shallow, hn, tagKeep]

theorem preN_shallow (h : Heap) (L : Labels) (n : Nat) : preN (shallow h L n) = [shallow h L n] := by
  by_cases hn : (h.kind n).isTag = true <;> simp [shallow, hn, preN, preL]

theorem tagKeep_tag (t : Types) (s : Bool) (nm : PStr) (i : Interesting) (ks : List Node) :
    tagKeep t s (.tag nm i ks) = none := rfl

/-- the strings the loop body keeps, over the tree and over the heap walk, agree (any fuel) -/
theorem filterMap_pre_toNode (h : Heap) (L : Labels) (hleaf : ∀ n, (h.kind n).isTag = false → h.kids n = [])
    (t : Types) (s : Bool) : ∀ (f n : Nat),
    (preN (toNode h L f n)).filterMap (tagKeep t s) =
      (pre h.kids f n).filterMap (fun e => tagKeep t s (shallow h L e)) := by
  intro f
  induction f with
  | zero =>
    intro n
    show (preN (shallow h L n)).filterMap (tagKeep t s) = [n].filterMap (fun e => tagKeep t s (shallow h L e))
    rw [preN_shallow]
    simp only [List.filterMap_cons, List.filterMap_nil]
  | succ f ih =>
    intro n
    by_cases hn : (h.kind n).isTag = true
    · have h1 : toNode h L (f + 1) n = .tag (L.name n) (L.interesting n) ((h.kids n).map (toNode h L f)) := by
        simp [toNode, hn]
      have h2 : pre h.kids (f + 1) n = n :: (h.kids n).flatMap (pre h.kids f) := rfl
      rw [h1, h2, preN, List.filterMap_cons, tagKeep_tag, List.filterMap_cons, tagKeep_shallow_tag h L t s n hn]
      rw [preL_map, filterMap_flatMap', filterMap_flatMap']
      show List.flatMap _ _ = List.flatMap _ _
      congr 1
      funext k
      exact ih k
    · have hn' : (h.kind n).isTag = false := by simpa using hn
      have hk := hleaf n hn'
      have h1 : toNode h L (f + 1) n = shallow h L n := by simp [toNode, shallow, hn']
      have h2 : pre h.kids (f + 1) n = [n] := by simp [pre, hk]
      rw [h1, h2, preN_shallow]
      simp only [List.filterMap_cons, List.filterMap_nil]

/-- **the tie**: on a consistent heap, `_all_strings` run over the `next_element` chase never fails and yields what
    the tree-level code-mirror yields on the tree read off the children lists -/
theorem allStringsHeap_eq_tree {h : Heap} {w : Wit} (hwf : WF h w) (main : List StrClass) (L : Labels) (strp : Bool)
    (types : TypesArg) (x : Nat) :
    allStringsHeap main h L strp types x = .ok (allStringsImpl main strp types (toNode h L h.cap x)) := by
  have hcap : 1 ≤ h.cap := Nat.le_trans (hwf.size_pos x) (hwf.size_cap x)
  obtain ⟨c, hc⟩ : ∃ c, h.cap = c + 1 := ⟨h.cap - 1, by omega⟩
  unfold allStringsHeap
  by_cases hx : (h.kind x).isTag = true
  · simp only [hx, if_true, descendants_eq hwf x]
    rw [hc]
    simp only [toNode, hx, if_true, allStringsImpl, walk_eq_pre, pre, List.tail_cons]
    rw [preL_map, filterMap_flatMap', filterMap_flatMap']
    congr 2
    funext k
    exact (filterMap_pre_toNode h L hwf.str_leaf _ strp c k).symm
  · simp only [hx]
    rw [hc]
    simp [toNode, hx]

/-- fuel irrelevance of the abstraction: any bound ≥ the size of the subtree gives the same tree -/
theorem toNode_fuel {h : Heap} {w : Wit} (hwf : WF h w) (L : Labels) :
    ∀ (f g n : Nat), w.size n ≤ f + 1 → w.size n ≤ g + 1 → toNode h L f n = toNode h L g n := by
  intro f
  induction f with
  | zero =>
    intro g n hf _
    have hk := wf_size_one_kids hwf (n := n) (by omega)
    cases g with
    | zero => rfl
    | succ g => by_cases hn : (h.kind n).isTag = true <;> simp [toNode, shallow, hn, hk]
  | succ f ih =>
    intro g n hf hg
    cases g with
    | zero =>
      have hk := wf_size_one_kids hwf (n := n) (by omega)
      by_cases hn : (h.kind n).isTag = true <;> simp [toNode, shallow, hn, hk]
    | succ g =>
      by_cases hn : (h.kind n).isTag = true
      · simp only [toNode, hn, if_true]
        congr 1
        apply List.map_congr_left
        intro k hk
        have := wf_kid_lt hwf hk
        exact ih g k (by omega) (by omega)
      · simp [toNode, hn]

/-- the abstraction is a fixed point: the tree of a tag is the tag over the trees of its children -/
theorem toNode_unfold {h : Heap} {w : Wit} (hwf : WF h w) (L : Labels) (x : Nat) (hx : (h.kind x).isTag = true) :
    toNode h L h.cap x = .tag (L.name x) (L.interesting x) ((h.kids x).map (toNode h L h.cap)) := by
  have hcap : 1 ≤ h.cap := Nat.le_trans (hwf.size_pos x) (hwf.size_cap x)
  obtain ⟨c, hc⟩ : ∃ c, h.cap = c + 1 := ⟨h.cap - 1, by omega⟩
  rw [hc]
  simp only [toNode, hx, if_true]
  congr 1
  apply List.map_congr_left
  intro k hk
  have := wf_kid_lt hwf hk
  have := hwf.size_cap x
  exact toNode_fuel hwf L c (c + 1) k (by omega) (by omega)

theorem toNode_str {h : Heap} (L : Labels) (f x : Nat) (hx : (h.kind x).isTag = false) :
    toNode h L f x = .str (L.cls x) (h.val x) := by
  cases f <;> simp [toNode, shallow, hx]

/-! ### `.string` -/

theorem stringProp_toNode (h : Heap) (L : Labels) : ∀ (f n : Nat),
    stringProp (toNode h L f n) = (stringPropHeap h f n).map (fun s => (L.cls s, h.val s)) := by
  intro f
  induction f with
  | zero =>
    intro n
    by_cases hn : (h.kind n).isTag = true
    · simp [toNode, shallow, hn, stringProp, stringPropL, stringPropHeap]
    · simp [toNode, shallow, hn, stringProp, stringPropHeap]
  | succ f ih =>
    intro n
    by_cases hn : (h.kind n).isTag = true
    · simp only [toNode, hn, if_true, stringProp]
      rw [stringPropHeap.eq_def]
      simp only [hn, Bool.not_true, Bool.false_eq_true, if_false]
      match hk : h.kids n with
      | [] => simp [stringPropL]
      | [k] => simp [stringPropL, ih k]
      | _ :: _ :: _ => simp [stringPropL]
    · simp [toNode, hn, stringProp, stringPropHeap]

theorem stringPropHeap_sound (h : Heap) : ∀ (f n s : Nat), stringPropHeap h f n = some s → HeapSoleChain h n s := by
  intro f
  induction f with
  | zero =>
    intro n s hs
    rw [stringPropHeap.eq_def] at hs
    by_cases hn : (h.kind n).isTag = true
    · simp [hn] at hs
    · simp [hn] at hs; subst hs; exact .here (by simpa using hn)
  | succ f ih =>
    intro n s hs
    rw [stringPropHeap.eq_def] at hs
    by_cases hn : (h.kind n).isTag = true
    · simp only [hn, Bool.not_true, Bool.false_eq_true, if_false] at hs
      match hk : h.kids n with
      | [] => simp [hk] at hs
      | [k] => simp only [hk] at hs; exact .down hn hk (ih k s hs)
      | _ :: _ :: _ => simp [hk] at hs
    · simp [hn] at hs; subst hs; exact .here (by simpa using hn)

theorem stringPropHeap_complete {h : Heap} {w : Wit} (hwf : WF h w) {n s : Nat} (hc : HeapSoleChain h n s) :
    ∀ f, w.size n ≤ f + 1 → stringPropHeap h f n = some s := by
  induction hc with
  | here hs => intro f _; rw [stringPropHeap.eq_def]; simp [hs]
  | @down n k s hn hk _ ih =>
    intro f hf
    have hkm : k ∈ h.kids n := by simp [hk]
    have hlt := wf_kid_lt hwf hkm
    have hpos := hwf.size_pos k
    cases f with
    | zero => omega
    | succ f =>
      rw [stringPropHeap.eq_def]
      simp only [hn, Bool.not_true, Bool.false_eq_true, if_false, hk]
      exact ih f (by omega)

/-! ### the generator protocol under edits by the consumer -/

/-- an edit `h → h1` made while the generator is suspended in state `st'` (successor already read) leaves the rest of
    the iteration alone: the remaining walk and the filter's verdict on its elements are the same in `h1` as in `h` -/
def EditFrame (keep : Heap → Nat → Bool) (h h1 : Heap) (st' : GenSt) : Prop :=
  ∀ f, genList h1 f st' = genList h f st' ∧ ∀ e ∈ genList h f st', keep h1 e = keep h e

theorem filter_congr_mem {α : Type} (p q : α → Bool) : ∀ (l : List α), (∀ a ∈ l, p a = q a) → l.filter p = l.filter q := by
  intro l
  induction l with
  | nil => intro _; rfl
  | cons a l ih =>
    intro h
    simp only [List.filter_cons, h a (by simp)]
    rw [ih (fun x hx => h x (by simp [hx]))]

/-- If, in every state satisfying an invariant `Inv` (on heap and suspended generator) that plain turns and edits
    preserve, every edit the consumer makes has the frame property, the interleaved iteration hands out exactly what an
    undisturbed iteration of the *initial* heap hands out. -/
theorem stringsIterEdit_eq (keep : Heap → Nat → Bool) (edit : Heap → Nat → Nat → Option Op) (Inv : Heap → GenSt → Prop)
    (hnext : ∀ h st c st', Inv h st → genNext h st = some (c, st') → Inv h st')
    (hedit : ∀ h st c st' k op h1, Inv h st → genNext h st = some (c, st') → keep h c = true → edit h k c = some op →
      step h op = .ok h1 → Inv h1 st' ∧ EditFrame keep h h1 st') :
    ∀ (f : Nat) (h : Heap) (st : GenSt) (k : Nat) (l : List Nat) (h' : Heap), Inv h st →
      stringsIterEdit keep edit f h st k = .ok (l, h') → l = (genList h f st).filter (keep h) := by
  intro f
  induction f with
  | zero => intro h st k l h' _ hr; simp only [stringsIterEdit] at hr; cases hr; rfl
  | succ f ih =>
    intro h st k l h' hI hr
    simp only [stringsIterEdit] at hr
    cases hg : genNext h st with
    | none => simp only [hg] at hr; cases hr; simp [genList, hg]
    | some p =>
      obtain ⟨c, st'⟩ := p
      simp only [hg] at hr
      simp only [genList, hg, List.filter_cons]
      have hI' := hnext h st c st' hI hg
      by_cases hk : keep h c = true
      · simp only [hk, if_true] at hr ⊢
        cases he : edit h k c with
        | none =>
          simp only [he] at hr
          cases hrec : stringsIterEdit keep edit f h st' (k + 1) with
          | error e => simp only [hrec] at hr; cases hr
          | ok r =>
            obtain ⟨l2, h2⟩ := r
            simp only [hrec] at hr; cases hr
            rw [ih h st' (k + 1) l2 h' hI' hrec]
        | some op =>
          simp only [he] at hr
          cases hs : step h op with
          | error e => simp only [hs] at hr; cases hr
          | ok h1 =>
            simp only [hs] at hr
            cases hrec : stringsIterEdit keep edit f h1 st' (k + 1) with
            | error e => simp only [hrec] at hr; cases hr
            | ok r =>
              obtain ⟨l2, h2⟩ := r
              simp only [hrec] at hr; cases hr
              obtain ⟨hI1, hfr⟩ := hedit h st c st' k op h1 hI hg hk he hs
              rw [ih h1 st' (k + 1) l2 h' hI1 hrec, (hfr f).1]
              rw [filter_congr_mem (keep h1) (keep h) _ (hfr f).2]
      · have hk' : keep h c = false := by simpa using hk
        simp only [hk', Bool.false_eq_true, if_false] at hr ⊢
        exact ih h st' k l h' hI' hr

/-- the undisturbed generator is `Tag.descendants` -/
theorem genList_eq_takeWhile (h : Heap) (stop : Option Nat) : ∀ (f : Nat) (cur : Option Nat),
    genList h f ⟨cur, stop⟩ = (chaseNe h f cur).takeWhile (fun e => some e ≠ stop) := by
  intro f
  induction f with
  | zero => intro cur; simp [genList, chaseNe]
  | succ f ih =>
    intro cur
    cases cur with
    | none => simp [genList, genNext, chaseNe]
    | some c =>
      by_cases hc : some c = stop
      · simp [genList, genNext, chaseNe, hc, List.takeWhile_cons]
      · simp [genList, genNext, chaseNe, hc, List.takeWhile_cons, ih]

theorem genStart_descendants (h : Heap) (x : Nat) :
    (∀ st, genStart h x = .ok (some st) → descendants h x = .ok (genList h h.cap st)) ∧
    (genStart h x = .ok none → descendants h x = .ok []) := by
  unfold genStart descendants
  cases (h.kids x).head? with
  | none => simp
  | some first =>
    cases lastDescendant h x true with
    | error e => simp
    | ok last =>
      simp only [Except.ok.injEq, Option.some.injEq, reduceCtorEq, false_implies, and_true]
      intro st hst
      subst hst
      rw [genList_eq_takeWhile]

end BS.Text
