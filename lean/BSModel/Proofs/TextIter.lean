import BSModel.Proofs.TextHeap
import BSModel.Proofs.HeapExtract
/-! C13: the iteration behind `.strings` survives the extraction of the string it just handed out.
    (`PageElement.extract` on the pointer heap, with C01's cut witness.) Core Lean only. -/
namespace BS.Text
open BS.Heap

/-- after cutting the subtree of `x` out of its tree, every element that stood after that subtree in document order
    keeps its `next_element` -/
theorem extract_ne_after {h h' : Heap} {w : Wit} {x p : Nat} (hwf : WF h w) (hwf' : WF h' (cutWit w x))
    (hp : h.parent x = some p) (a : Nat) (hta : w.tree a = w.tree x) (hpa : w.pos x + w.size x ≤ w.pos a) :
    h'.ne a = h.ne a := by
  have hxf := child_pos h w hwf x p hp
  have hua : w.unl a = false := unl_false_of_pos hwf a (by have := hwf.size_pos x; omega)
  have ca := cut_cases hwf x a
  have hsx := hwf.size_pos x
  have hsa := hwf.size_pos a
  apply Option.ext
  intro b
  have e1 := hwf'.chain_ne a b
  have e2 := hwf.chain_ne a b
  have cb := cut_cases hwf x b
  have nb := tree_ne_x hwf hp b
  have na := tree_ne_x hwf hp a
  have hsb := hwf.size_pos b
  have hcu : (cutWit w x).unl a = w.unl a := rfl
  rw [e1, e2, hcu]
  constructor
  · rintro ⟨hu, ht, hpos⟩
    refine ⟨hu, ?_, ?_⟩ <;>
    rcases ca with ca | ca | ca | ca | ca <;> rcases cb with cb | cb | cb | cb | cb <;> simp_all <;> omega
  · rintro ⟨hu, ht, hpos⟩
    refine ⟨hu, ?_, ?_⟩ <;>
    rcases ca with ca | ca | ca | ca | ca <;> rcases cb with cb | cb | cb | cb | cb <;> simp_all <;> omega

/-- a node with a `previous`/`next_element` predecessor is not a root -/
theorem ne_target_has_parent {h : Heap} {w : Wit} (hwf : WF h w) {a b : Nat} (hab : h.ne a = some b) :
    h.parent b ≠ none := by
  intro hb
  have := (hwf.chain_ne a b).mp hab
  have hr := (hwf.root_tree b hb).2
  omega

theorem leaf_size_one {h : Heap} {w : Wit} (hwf : WF h w) {c : Nat} (hk : h.kids c = []) : w.size c = 1 := by
  have := hwf.tiles c
  rw [hk] at this
  simp only [Tiles] at this
  omega

/-- the invariant of the suspended generator: the heap is consistent and the saved successor is not a root -/
def IterInv (h : Heap) (st : GenSt) : Prop :=
  (∃ w, WF h w) ∧ ∀ a, st.current = some a → h.parent a ≠ none

theorem iterInv_next (h : Heap) (st : GenSt) (c : Nat) (st' : GenSt) (hI : IterInv h st)
    (hg : genNext h st = some (c, st')) : IterInv h st' := by
  obtain ⟨⟨w, hwf⟩, _⟩ := hI
  refine ⟨⟨w, hwf⟩, ?_⟩
  intro a ha
  unfold genNext at hg
  cases hc : st.current with
  | none => simp [hc] at hg
  | some c0 =>
    simp only [hc] at hg
    split at hg
    · cases hg
    · simp only [Option.some.injEq, Prod.mk.injEq] at hg
      obtain ⟨rfl, rfl⟩ := hg
      exact ne_target_has_parent hwf ha

/-- the rest of the walk, from any element after `c` in `c`'s tree, is the same before and after extracting the leaf `c` -/
theorem genList_after_extract {h h1 : Heap} {w : Wit} {c p : Nat} (hwf : WF h w) (hwf1 : WF h1 (cutWit w c))
    (hp : h.parent c = some p) (hsz : w.size c = 1) (stop : Option Nat) : ∀ (f : Nat) (cur : Option Nat),
    (∀ a, cur = some a → w.tree a = w.tree c ∧ w.pos c + 1 ≤ w.pos a) →
    genList h1 f ⟨cur, stop⟩ = genList h f ⟨cur, stop⟩ := by
  intro f
  induction f with
  | zero => intro cur _; rfl
  | succ f ih =>
    intro cur hcur
    cases cur with
    | none => simp [genList, genNext]
    | some a =>
      obtain ⟨hta, hpa⟩ := hcur a rfl
      have hne : h1.ne a = h.ne a := extract_ne_after hwf hwf1 hp a hta (by omega)
      by_cases hs : some a = stop
      · simp [genList, genNext, hs]
      · simp only [genList, genNext, hs, if_false, hne]
        congr 1
        apply ih
        intro b hb
        have := (hwf.chain_ne a b).mp hb
        exact ⟨by rw [← this.2.1, hta], by omega⟩

theorem extract_frame (main : List StrClass) (L : Labels) (types : TypesArg) (x : Nat)
    (h : Heap) (st : GenSt) (c : Nat) (st' : GenSt) (h1 : Heap) (hI : IterInv h st)
    (hg : genNext h st = some (c, st')) (hk : heapKeeps main L types x h c = true) (hs : step h (.extract c) = .ok h1) :
    IterInv h1 st' ∧ EditFrame (heapKeeps main L types x) h h1 st' := by
  obtain ⟨⟨w, hwf⟩, hcur⟩ := hI
  -- the state: current = some c, st' = ⟨h.ne c, stop⟩
  have hst : st.current = some c ∧ st' = ⟨h.ne c, st.stop⟩ := by
    unfold genNext at hg
    cases hc : st.current with
    | none => simp [hc] at hg
    | some c0 =>
      simp only [hc] at hg
      split at hg
      · cases hg
      · simp only [Option.some.injEq, Prod.mk.injEq] at hg
        obtain ⟨rfl, rfl⟩ := hg
        exact ⟨rfl, rfl⟩
  obtain ⟨hc, rfl⟩ := hst
  obtain ⟨p, hp⟩ : ∃ p, h.parent c = some p := by
    cases hpc : h.parent c with
    | none => exact absurd hpc (hcur c hc)
    | some p => exact ⟨p, rfl⟩
  -- a kept element is a string, hence a leaf
  have hstr : (h.kind c).isTag = false := by
    cases hkc : (h.kind c).isTag with
    | false => rfl
    | true => simp [heapKeeps, shallow, hkc, tagKeep] at hk
  have hsz := leaf_size_one hwf (hwf.str_leaf c hstr)
  obtain ⟨h', he, hwf', _, hpar, hkind, hval, _, _⟩ := extract_spec h w c hwf
  have : h1 = h' := by
    simp only [step] at hs
    rw [he] at hs
    cases hs; rfl
  subst this
  refine ⟨⟨⟨_, hwf'⟩, ?_⟩, ?_⟩
  · intro b hb
    have hb' : h.ne c = some b := hb
    have hpos := (hwf.chain_ne c b).mp hb'
    have hbc : b ≠ c := by intro e; rw [e] at hpos; omega
    rw [hpar b, if_neg hbc]
    exact ne_target_has_parent hwf hb'
  · intro f
    have hcond : ∀ a, h.ne c = some a → w.tree a = w.tree c ∧ w.pos c + 1 ≤ w.pos a := by
      intro a ha
      have := (hwf.chain_ne c a).mp ha
      exact ⟨this.2.1.symm, by omega⟩
    refine ⟨genList_after_extract hwf hwf' hp hsz st.stop f (h.ne c) hcond, ?_⟩
    intro e _
    simp only [heapKeeps, shallow, hkind, hval]

end BS.Text
