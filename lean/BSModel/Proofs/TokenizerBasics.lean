import BSModel.Model.Tokenizer
import BSModel.Proofs.SourcePos
/-! Tokenizer helper lemmas: scanning primitives, and the bookkeeping predicates of the position/coverage proofs. -/
namespace BS.Tokenizer
open BS.SourcePos

/-! ### scanning primitives -/

theorem spanLen_le (p : Nat → Bool) (s : PStr) : spanLen p s ≤ s.length := by
  induction s with
  | nil => simp [spanLen]
  | cons c t ih => simp only [spanLen]; split <;> simp <;> omega

theorem spanLen_all (p : Nat → Bool) (s : PStr) : ∀ x ∈ s.take (spanLen p s), p x = true := by
  induction s with
  | nil => simp [spanLen]
  | cons c t ih =>
    simp only [spanLen]
    split
    · rename_i h
      intro x hx
      simp only [List.take_succ_cons, List.mem_cons] at hx
      rcases hx with rfl | hx
      · exact h
      · exact ih x hx
    · simp

theorem findCh_mem (c : Nat) (s : PStr) : (∃ g, findCh c s = some g) ↔ c ∈ s := by
  induction s with
  | nil => simp [findCh]
  | cons x t ih =>
    simp only [findCh]
    by_cases h : x = c
    · subst h; simp
    · have h' : (x == c) = false := by simpa using h
      have hc : ¬ c = x := fun e => h e.symm
      simp only [h', Bool.false_eq_true, if_false, List.mem_cons, hc, false_or, ← ih]
      constructor
      · rintro ⟨g, hg⟩
        cases hf : findCh c t with
        | none => simp [hf] at hg
        | some g' => exact ⟨g', rfl⟩
      · rintro ⟨g, hg⟩; exact ⟨g + 1, by simp [hg]⟩

theorem findCh_lt (c : Nat) (s : PStr) (g : Nat) (h : findCh c s = some g) : g < s.length := by
  induction s generalizing g with
  | nil => simp [findCh] at h
  | cons x t ih =>
    simp only [findCh] at h
    split at h
    · simp at h; subst h; simp
    · cases hf : findCh c t with
      | none => simp [hf] at h
      | some g' =>
        simp [hf] at h
        have := ih g' hf
        subst h; simp; omega

/-- a character found in `s` that does not occur among the first `b` characters is found after them -/
theorem findCh_drop (c : Nat) (s : PStr) (b : Nat) (h : ∃ g, findCh c s = some g) (hb : ∀ x ∈ s.take b, x ≠ c) :
    ∃ g, findCh c (s.drop b) = some g := by
  rw [findCh_mem] at h ⊢
  rw [← List.take_append_drop b s] at h
  rcases List.mem_append.mp h with h | h
  · exact absurd rfl (hb c h)
  · exact h

/-! ### sources, well-positioned event lists, faithful data -/

/-- the text consumed for a list of events, in order -/
def srcs (evs : List Ev) : PStr := (evs.map (·.src)).flatten

@[simp] theorem srcs_nil : srcs [] = [] := rfl
@[simp] theorem srcs_cons (e : Ev) (es : List Ev) : srcs (e :: es) = e.src ++ srcs es := by simp [srcs]
@[simp] theorem srcs_append (a b : List Ev) : srcs (a ++ b) = srcs a ++ srcs b := by simp [srcs]

/-- `getpos()` after exactly the text `a` has been consumed -/
abbrev posOf (a : PStr) : Nat × Nat := lineCol a a.length

/-- every event of the list was called back with `getpos()` = line/column of the end of `pre ++ (the sources before it)` -/
def WP (pre : PStr) : List Ev → Prop
  | [] => True
  | e :: es => e.pos = posOf pre ∧ WP (pre ++ e.src) es

theorem WP_append (pre : PStr) (a b : List Ev) : WP pre (a ++ b) ↔ WP pre a ∧ WP (pre ++ srcs a) b := by
  induction a generalizing pre with
  | nil => simp [WP]
  | cons e es ih => simp only [List.cons_append, WP, ih, srcs_cons, List.append_assoc, and_assoc]

/-- every data callback's content is the text of its span -/
def DataOK (evs : List Ev) : Prop := ∀ e ∈ evs, ∀ d, e.tok = .data d → d = e.src

theorem DataOK_append (a b : List Ev) : DataOK (a ++ b) ↔ DataOK a ∧ DataOK b := by
  simp only [DataOK, List.mem_append]
  constructor
  · intro h; exact ⟨fun e he => h e (Or.inl he), fun e he => h e (Or.inr he)⟩
  · rintro ⟨h1, h2⟩ e (he | he)
    · exact h1 e he
    · exact h2 e he

theorem updatepos_posOf (a b : PStr) : updatepos (posOf a) b = posOf (a ++ b) := updatepos_step a b

end BS.Tokenizer
