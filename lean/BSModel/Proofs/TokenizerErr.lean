import BSModel.Proofs.TokenizerTags
/-! Tokenizer: where `error` can come from — only the two assertions of `parse_marked_section` (`<![`…). -/
namespace BS.Tokenizer

theorem search_some (m : PStr → Option Nat) : ∀ (s : PStr) (j l : Nat), search m s = some (j, l) → m (s.drop j) = some l := by
  intro s
  induction s with
  | nil =>
    intro j l h
    simp only [search, Option.map_eq_some_iff, Prod.mk.injEq] at h
    obtain ⟨a, ha, h1, h2⟩ := h
    subst h1 h2; simpa using ha
  | cons c t ih =>
    intro j l h
    simp only [search] at h
    split at h
    · rename_i l' hm
      simp only [Option.some.injEq, Prod.mk.injEq] at h
      obtain ⟨h1, h2⟩ := h
      subst h1 h2; simpa using hm
    · simp only [Option.map_eq_some_iff, Prod.mk.injEq] at h
      obtain ⟨⟨j', l'⟩, hr, h1, h2⟩ := h
      simp only at h1 h2
      subst h1 h2
      simpa using ih j' l' hr

theorem spanLen_stop (p : Nat → Bool) (s : PStr) (c : Nat) (h : (s.drop (spanLen p s)).head? = some c) : p c = false := by
  induction s with
  | nil => simp [spanLen] at h
  | cons x t ih =>
    simp only [spanLen] at h
    split at h
    · exact ih (by simpa using h)
    · rename_i hx
      simp only [List.drop_zero, List.head?_cons, Option.some.injEq] at h
      subst h; simpa using hx

theorem mCdataClose_head (e s : PStr) (l : Nat) (h : mCdataClose e s = some l) : s.head? = some 60 := by
  simp only [mCdataClose] at h
  split at h
  · rename_i hs
    obtain ⟨t, rfl⟩ := sw_lt_slash s hs
    rfl
  · simp at h

/-! ### the `parse_*` functions other than `parse_marked_section` never raise -/

theorem parseStartTag_no_err (P : Params) (cd : Option PStr) (s : PStr)
    (hs : ((s.drop 1).head?.map isAlpha).getD false = true) : parseStartTag P cd s ≠ .err := by
  have htf : ∃ r, tagFind (s.drop 1) = some r := by
    cases hd : s.drop 1 with
    | nil => simp [hd] at hs
    | cons c t =>
      simp only [hd, List.head?_cons, Option.map_some, Option.getD_some] at hs
      simp [tagFind, hs]
  obtain ⟨r, hr⟩ := htf
  simp only [parseStartTag]
  repeat' split
  all_goals first
    | (simp; done)
    | (rename_i h; rw [hr] at h; simp at h)

theorem parseBogusComment_no_err (cd : Option PStr) (s : PStr) : parseBogusComment cd s ≠ .err := by
  simp only [parseBogusComment]; split <;> simp

theorem parsePi_no_err (cd : Option PStr) (s : PStr) : parsePi cd s ≠ .err := by
  simp only [parsePi]; split <;> simp

theorem parseComment_no_err (cd : Option PStr) (s : PStr) : parseComment cd s ≠ .err := by
  simp only [parseComment]; split <;> simp

theorem parseEndTag_no_err (P : Params) (cd : Option PStr) (s : PStr) : parseEndTag P cd s ≠ .err := by
  simp only [parseEndTag]
  repeat' split
  all_goals first
    | (simp; done)
    | exact parseBogusComment_no_err _ _

theorem parseHtmlDeclaration_err (cd : Option PStr) (s : PStr) (h : parseHtmlDeclaration cd s = .err) :
    sw [60, 33, 91] s = true ∧ parseMarkedSection cd s = .err := by
  simp only [parseHtmlDeclaration] at h
  split at h
  · exact absurd h (parseComment_no_err cd s)
  · split at h
    · rename_i hs; exact ⟨hs, h⟩
    · split at h
      · split at h <;> simp at h
      · exact absurd h (parseBogusComment_no_err cd s)

theorem parseLt_err (P : Params) (cd : Option PStr) (s : PStr) (h : parseLt P cd s = some .err) :
    sw [60, 33, 91] s = true ∧ parseMarkedSection cd s = .err := by
  simp only [parseLt] at h
  split at h
  · rename_i hs
    simp only [Option.some.injEq] at h; exact absurd h (parseStartTag_no_err P cd s hs)
  · split at h
    · simp only [Option.some.injEq] at h; exact absurd h (parseEndTag_no_err P cd s)
    · split at h
      · simp only [Option.some.injEq] at h; exact absurd h (parseComment_no_err cd s)
      · split at h
        · simp only [Option.some.injEq] at h; exact absurd h (parsePi_no_err cd s)
        · split at h
          · simp only [Option.some.injEq] at h; exact parseHtmlDeclaration_err cd s h
          · split at h <;> simp at h

theorem actLt_err (P : Params) (end_ : Bool) (cd : Option PStr) (s : PStr) (h : actLt P end_ cd s = .err) :
    sw [60, 33, 91] s = true ∧ parseMarkedSection cd s = .err := by
  simp only [actLt] at h
  split at h
  · simp at h
  · rename_i hr; exact parseLt_err P cd s hr
  · simp at h
  · simp at h
  · split at h <;> simp at h

theorem actCharRef_no_err (cd : Option PStr) (s : PStr) : actCharRef cd s ≠ .err := by
  simp only [actCharRef]
  repeat' split
  all_goals simp

theorem actEntityRef_no_err (end_ : Bool) (cd : Option PStr) (s : PStr) : actEntityRef end_ cd s ≠ .err := by
  simp only [actEntityRef]
  repeat' split
  all_goals simp

/-- on a suffix that begins with `<` or `&` (which is where `interesting.search` stops) an action is an error only
    through `parse_marked_section` -/
theorem chooseAct_err (P : Params) (end_ : Bool) (cd : Option PStr) (s : PStr) (hs : s.head? = some 60 ∨ s.head? = some 38)
    (h : chooseAct P end_ cd s = .err) : sw [60, 33, 91] s = true ∧ parseMarkedSection cd s = .err := by
  simp only [chooseAct] at h
  split at h
  · exact actLt_err P end_ cd s h
  · split at h
    · exact absurd h (actCharRef_no_err cd s)
    · split at h
      · exact absurd h (actEntityRef_no_err end_ cd s)
      · rename_i h1 _ h3
        rcases hs with hs | hs
        · simp [hs] at h1
        · simp [hs] at h3

/-- a loop turn ends in `error` only if, at the index `j` it had reached, the text goes on with `<![` and
    `parse_marked_section` raises there -/
theorem step_err (P : Params) (end_ : Bool) (st : St) (h : (step P end_ st).2.2 = some .err) :
    ∃ j, sw [60, 33, 91] (st.s.drop j) = true ∧ parseMarkedSection st.cd (st.s.drop j) = .err := by
  simp only [step] at h
  split at h
  · simp at h
  · rename_i j hj
    split at h
    · simp at h
    · rename_i hne
      -- the suffix begins with an interesting character
      have hhead : (st.s.drop j).head? = some 60 ∨ (st.s.drop j).head? = some 38 := by
        cases hcd : st.cd with
        | none =>
          simp only [hcd, Option.some.injEq] at hj
          subst hj
          cases hd : (st.s.drop (spanLen isPlain st.s)).head? with
          | none =>
            have : st.s.drop (spanLen isPlain st.s) = [] := by simpa using hd
            simp [this] at hne
          | some c =>
            have := spanLen_stop isPlain st.s c hd
            simp only [isPlain, Bool.not_eq_eq_eq_not, Bool.not_false, Bool.or_eq_true, beq_iff_eq] at this
            rcases this with rfl | rfl
            · right; rfl
            · left; rfl
        | some e =>
          simp only [hcd, Option.map_eq_some_iff] at hj
          obtain ⟨⟨j', l⟩, hsr, hj'⟩ := hj
          simp only at hj'
          subst hj'
          left
          exact mCdataClose_head e _ l (search_some _ _ _ _ hsr)
      cases hact : chooseAct P end_ st.cd (st.s.drop j) with
      | adv tok len cd' cont => rw [hact] at h; simp only [applyAct] at h; split at h <;> simp at h
      | brk => rw [hact] at h; simp [applyAct] at h
      | stuck => rw [hact] at h; simp [applyAct] at h
      | err => exact ⟨j, chooseAct_err P end_ st.cd _ hhead hact⟩

/-! ### lifting to the run: the buffer is always a suffix of the text -/

theorem step_suffix (P : Params) (end_ : Bool) (st : St) : ∃ n, (step P end_ st).2.1.s = st.s.drop n := by
  simp only [step]
  split
  · exact ⟨0, by simp⟩
  · rename_i j _
    split
    · exact ⟨j, rfl⟩
    · cases chooseAct P end_ st.cd (st.s.drop j) with
      | adv tok len cd' cont => exact ⟨j + len, by simp [applyAct]⟩
      | brk => exact ⟨j, rfl⟩
      | err => exact ⟨j, rfl⟩
      | stuck => exact ⟨j, rfl⟩

theorem loop_suffix (P : Params) (end_ : Bool) : ∀ (f : Nat) (st : St), ∃ n, (loop P end_ f st).st.s = st.s.drop n := by
  intro f
  induction f with
  | zero => intro st; exact ⟨0, by simp [loop]⟩
  | succ f ih =>
    intro st
    unfold loop
    split
    · exact ⟨0, by simp⟩
    · obtain ⟨n, hn⟩ := step_suffix P end_ st
      split
      · rename_i evs st' fl heq
        rw [heq] at hn
        exact ⟨n, hn⟩
      · rename_i evs st' heq
        rw [heq] at hn
        obtain ⟨m, hm⟩ := ih st'
        simp only at hn ⊢
        exact ⟨n + m, by rw [hm, hn, List.drop_drop]⟩

theorem goahead_suffix (P : Params) (end_ : Bool) (st : St) : ∃ n, (goahead P end_ st).st.s = st.s.drop n := by
  obtain ⟨n, hn⟩ := loop_suffix P end_ (st.s.length + 1) st
  unfold goahead
  simp only
  split
  · simp only [flush]
    split
    · exact ⟨st.s.length, by simp⟩
    · exact ⟨n, hn⟩
  · exact ⟨n, hn⟩

theorem loop_err (P : Params) (end_ : Bool) : ∀ (f : Nat) (st : St), (loop P end_ f st).flag = .err →
    ∃ j, sw [60, 33, 91] (st.s.drop j) = true := by
  intro f
  induction f with
  | zero => intro st h; simp [loop] at h
  | succ f ih =>
    intro st h
    unfold loop at h
    split at h
    · simp at h
    · have hs := step_err P end_ st
      obtain ⟨n, hn⟩ := step_suffix P end_ st
      split at h
      · rename_i evs st' fl heq
        rw [heq] at hs
        simp only at h hs
        subst h
        obtain ⟨j, hj, _⟩ := hs rfl
        exact ⟨j, hj⟩
      · rename_i evs st' heq
        rw [heq] at hn
        simp only at h hn
        obtain ⟨j, hj⟩ := ih st' h
        rw [hn, List.drop_drop] at hj
        exact ⟨n + j, hj⟩

theorem goahead_err (P : Params) (end_ : Bool) (st : St) (h : (goahead P end_ st).flag = .err) :
    ∃ j, sw [60, 33, 91] (st.s.drop j) = true := by
  unfold goahead at h
  simp only at h
  split at h
  · simp at h
  · exact loop_err P end_ _ st h

theorem run_err (P : Params) (text : PStr) (h : (run P text).flag = .err) : ∃ i, sw [60, 33, 91] (text.drop i) = true := by
  unfold run at h
  cases hf : (goahead P false (init text)).flag with
  | ok =>
    simp only [hf] at h
    obtain ⟨n, hn⟩ := goahead_suffix P false (init text)
    obtain ⟨j, hj⟩ := goahead_err P true _ h
    rw [hn] at hj
    simp only [init, List.drop_drop] at hj
    exact ⟨n + j, hj⟩
  | err =>
    obtain ⟨j, hj⟩ := goahead_err P false (init text) hf
    exact ⟨j, hj⟩
  | stuck => simp only [hf] at h; cases h

end BS.Tokenizer
