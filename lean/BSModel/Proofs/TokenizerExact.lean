import BSModel.Proofs.TokenizerRound
/-! Tokenizer: EXACT round trips of the delimiter-terminated constructs. For each writer shape a decidable predicate on the
written body, the parse result when it holds, and the parse result (the proper prefix up to the first terminator) when it
does not. The reusable part is `search_least` / `search_of_least`: `search` returns the least index at which the anchored
matcher succeeds. -/
namespace BS.Tokenizer
open BS.SourcePos

/-! ### `search` returns the LEAST index at which the matcher matches -/

/-- `pattern.search`: the reported offset `p` is inside the string (or its end), the matcher succeeds there with the
    reported length, and it fails at every smaller offset -/
theorem search_least (m : PStr → Option Nat) : ∀ (s : PStr) (p l : Nat), search m s = some (p, l) →
    p ≤ s.length ∧ m (s.drop p) = some l ∧ ∀ k, k < p → m (s.drop k) = none
  | [], p, l, h => by
    simp only [search, Option.map_eq_some_iff, Prod.mk.injEq] at h
    obtain ⟨a, ha, rfl, rfl⟩ := h
    exact ⟨by simp, by simpa using ha, by intro k hk; omega⟩
  | c :: t, p, l, h => by
    simp only [search] at h
    split at h
    · next l' hl' =>
      simp only [Option.some.injEq, Prod.mk.injEq] at h
      obtain ⟨rfl, rfl⟩ := h
      exact ⟨by simp, by simpa using hl', by intro k hk; omega⟩
    · next hn =>
      simp only [Option.map_eq_some_iff] at h
      obtain ⟨⟨p', l'⟩, hr, he⟩ := h
      simp only [Prod.mk.injEq] at he
      obtain ⟨rfl, rfl⟩ := he
      obtain ⟨h1, h2, h3⟩ := search_least m t p' l' hr
      refine ⟨by simp; omega, by simpa using h2, ?_⟩
      intro k hk
      cases k with
      | zero => simpa using hn
      | succ k => simpa using h3 k (by omega)

/-- the converse: the least matching offset is what `search` reports -/
theorem search_of_least (m : PStr → Option Nat) : ∀ (s : PStr) (p l : Nat), p ≤ s.length → m (s.drop p) = some l →
    (∀ k, k < p → m (s.drop k) = none) → search m s = some (p, l)
  | [], p, l, hp, hm, _ => by
    have : p = 0 := by simpa using hp
    subst this
    simp only [List.drop_nil] at hm
    simp [search, hm]
  | c :: t, 0, l, _, hm, _ => by
    simp only [List.drop_zero] at hm
    simp [search, hm]
  | c :: t, p + 1, l, hp, hm, hk => by
    have h0 : m (c :: t) = none := by simpa using hk 0 (by omega)
    have := search_of_least m t p l (by simpa using hp) (by simpa using hm) (fun k hk' => by simpa using hk (k + 1) (by omega))
    simp [search, h0, this]

/-- `search` fails exactly when the matcher fails at every offset, the end included -/
theorem search_none (m : PStr → Option Nat) : ∀ (s : PStr), search m s = none → ∀ k, k ≤ s.length → m (s.drop k) = none
  | [], h, k, hk => by
    have : k = 0 := by simpa using hk
    subst this
    simpa [search] using h
  | c :: t, h, k, hk => by
    simp only [search] at h
    split at h
    · cases h
    · next hn =>
      have ht : search m t = none := by simpa using h
      cases k with
      | zero => simpa using hn
      | succ k => simpa using search_none m t ht k (by simpa using hk)

theorem search_eq_some_iff (m : PStr → Option Nat) (s : PStr) (p l : Nat) :
    search m s = some (p, l) ↔ p ≤ s.length ∧ m (s.drop p) = some l ∧ ∀ k, k < p → m (s.drop k) = none :=
  ⟨search_least m s p l, fun ⟨h1, h2, h3⟩ => search_of_least m s p l h1 h2 h3⟩

/-! ### a `\s*` run that is stopped by a character of the terminator does not look behind it -/

theorem spanLen_stopped (p : Nat → Bool) (c : Nat) (hc : p c = false) (a X : PStr) : spanLen p (a ++ c :: X) = spanLen p a := by
  induction a with
  | nil => simp [spanLen, hc]
  | cons x t ih => simp only [List.cons_append, spanLen, ih]

theorem head_after_span (p : Nat → Bool) (c : Nat) (a X Y : PStr) :
    ((a ++ c :: X).drop (spanLen p a)).head? = ((a ++ c :: Y).drop (spanLen p a)).head? := by
  induction a with
  | nil => simp [spanLen]
  | cons x t ih =>
    simp only [List.cons_append, spanLen]
    split
    · simpa using ih
    · simp

/-- after the run: either the run ended inside `a`, or it consumed all of `a` and stands on `c` -/
theorem after_span_cases (p : Nat → Bool) (c : Nat) (a X : PStr) :
    (spanLen p a < a.length ∧ (a ++ c :: X).drop (spanLen p a + 1) = a.drop (spanLen p a + 1) ++ c :: X) ∨
    (spanLen p a = a.length ∧ (a ++ c :: X).drop (spanLen p a) = c :: X) := by
  have hle := spanLen_le p a
  rcases Nat.lt_or_ge (spanLen p a) a.length with h | h
  · exact Or.inl ⟨h, List.drop_append_of_le_length (by omega)⟩
  · have : spanLen p a = a.length := by omega
    exact Or.inr ⟨this, by rw [this]; simp⟩

/-! ### comments: `commentclose = --\s*>` -/

theorem mCommentClose_cons2 (x y : Nat) (t : PStr) :
    mCommentClose (x :: y :: t) =
      if x = 45 ∧ y = 45 then
        (if (t.drop (spanLen isWs t)).head? = some 62 then some (2 + spanLen isWs t + 1) else none)
      else none := by
  simp only [mCommentClose, sw, List.length_cons, List.length_nil, List.take_succ_cons, List.take_zero, List.drop_succ_cons,
    List.drop_zero]
  have e : List.drop (2 + spanLen isWs t) (x :: y :: t) = t.drop (spanLen isWs t) := by
    rw [Nat.add_comm]; simp
  rw [e]
  by_cases hx : x = 45 <;> by_cases hy : y = 45 <;> simp [hx, hy]

/-- **locality of `commentclose` in a written comment.** At an offset inside the body, whether (and how far)
    `--\s*>` matches does not depend on what follows the writer's `-->`: the `\s*` run cannot pass the `-`. -/
theorem mCommentClose_local (d rest : PStr) (hd : d ≠ []) :
    mCommentClose (d ++ 45 :: 45 :: 62 :: rest) = mCommentClose (d ++ [45, 45, 62]) := by
  match d, hd with
  | [x], _ => simp [mCommentClose_cons2, spanLen, show isWs 45 = false by decide]
  | x :: y :: d', _ =>
    simp only [List.cons_append, mCommentClose_cons2]
    rw [spanLen_stopped isWs 45 (by decide) d' (45 :: 62 :: rest), spanLen_stopped isWs 45 (by decide) d' [45, 62],
      head_after_span isWs 45 d' (45 :: 62 :: rest) [45, 62]]

/-- the exact well-formedness condition of a comment body: `--\s*>` matches nowhere in `body-->` before the writer's
    own `-->` (stated with the model's matcher; decidable) -/
def CommentBodyOK (body : PStr) : Prop :=
  ∀ k, k < body.length → mCommentClose (body.drop k ++ [45, 45, 62]) = none

instance (body : PStr) : Decidable (CommentBodyOK body) := by unfold CommentBodyOK; infer_instance

theorem mCommentClose_at_end (rest : PStr) : mCommentClose (45 :: 45 :: 62 :: rest) = some 3 := by
  simp [mCommentClose_cons2, spanLen, show isWs 62 = false by decide]

theorem drop_written (body T : PStr) (k : Nat) (hk : k < body.length) :
    (body ++ T).drop k = body.drop k ++ T ∧ body.drop k ≠ [] := by
  refine ⟨List.drop_append_of_le_length (by omega), ?_⟩
  intro h
  have := congrArg List.length h
  simp at this; omega

theorem parseComment_eq (cd : Option PStr) (body rest : PStr) (p l : Nat)
    (hs : search mCommentClose (body ++ 45 :: 45 :: 62 :: rest) = some (p, l)) :
    parseComment cd (writeComment body ++ rest) = .ok (.cm ((body ++ 45 :: 45 :: 62 :: rest).take p)) (4 + p + l) cd := by
  simp only [parseComment, writeComment, List.cons_append, List.nil_append, List.append_assoc, List.drop_succ_cons, List.drop_zero, hs]

/-- a comment whose body satisfies `CommentBodyOK` comes back as its body, ending at the writer's `>` -/
theorem parseComment_write_exact (cd : Option PStr) (body rest : PStr) (hb : CommentBodyOK body) :
    parseComment cd (writeComment body ++ rest) = .ok (.cm body) (writeComment body).length cd := by
  have hs := search_append_first mCommentClose body (45 :: 45 :: 62 :: rest) 3 (by
    intro k hk
    obtain ⟨e, hne⟩ := drop_written body (45 :: 45 :: 62 :: rest) k hk
    rw [e, mCommentClose_local _ _ hne]
    exact hb k hk) (mCommentClose_at_end rest)
  rw [parseComment_eq cd body rest _ _ hs]
  simp [writeComment]; omega

/-- a comment whose body violates `CommentBodyOK` is cut at the FIRST offset `p` of the body at which `--\s*>` matches:
    the callback gets `body[:p]` and the parser continues after that match -/
theorem parseComment_write_first_close (cd : Option PStr) (body rest : PStr) (hb : ¬ CommentBodyOK body) :
    ∃ p l, p < body.length ∧ mCommentClose (body.drop p ++ [45, 45, 62]) = some l ∧
      (∀ k, k < p → mCommentClose (body.drop k ++ [45, 45, 62]) = none) ∧
      parseComment cd (writeComment body ++ rest) = .ok (.cm (body.take p)) (4 + p + l) cd := by
  -- the least match in `body-->`
  cases hsr : search mCommentClose (body ++ [45, 45, 62]) with
  | none =>
    have := search_none _ _ hsr body.length (by simp)
    simp [mCommentClose_at_end] at this
  | some pl =>
    obtain ⟨p, l⟩ := pl
    obtain ⟨_, hm, hleast⟩ := search_least _ _ _ _ hsr
    have hple : p ≤ body.length := by
      rcases Nat.lt_or_ge body.length p with h | h
      · have := hleast body.length h
        simp [mCommentClose_at_end] at this
      · exact h
    have hplt : p < body.length := by
      rcases Nat.lt_or_ge p body.length with h | h
      · exact h
      · exfalso
        apply hb
        intro k hk
        have := hleast k (by omega)
        rwa [(drop_written body [45, 45, 62] k hk).1] at this
    have hm' : mCommentClose (body.drop p ++ [45, 45, 62]) = some l := by
      rwa [(drop_written body [45, 45, 62] p hplt).1] at hm
    have hleast' : ∀ k, k < p → mCommentClose (body.drop k ++ [45, 45, 62]) = none := by
      intro k hk
      have := hleast k hk
      rwa [(drop_written body [45, 45, 62] k (by omega)).1] at this
    refine ⟨p, l, hplt, hm', hleast', ?_⟩
    have hs : search mCommentClose (body ++ 45 :: 45 :: 62 :: rest) = some (p, l) := by
      apply search_of_least
      · simp; omega
      · obtain ⟨e, hne⟩ := drop_written body (45 :: 45 :: 62 :: rest) p hplt
        rw [e, mCommentClose_local _ _ hne]; exact hm'
      · intro k hk
        obtain ⟨e, hne⟩ := drop_written body (45 :: 45 :: 62 :: rest) k (by omega)
        rw [e, mCommentClose_local _ _ hne]; exact hleast' k hk
    rw [parseComment_eq cd body rest _ _ hs, List.take_append_of_le_length (by omega)]

/-! ### `str.find('>')`-terminated constructs: processing instructions and `<!DOCTYPE …>` -/

/-- the body contains no `>` -/
def NoGt (body : PStr) : Prop := ∀ x ∈ body, x ≠ 62

instance (body : PStr) : Decidable (NoGt body) := by unfold NoGt; infer_instance

/-- a string that contains `c` splits at its first `c` -/
theorem split_first (c : Nat) : ∀ (s : PStr), c ∈ s → ∃ a b, s = a ++ c :: b ∧ ∀ x ∈ a, x ≠ c
  | [], h => by simp at h
  | x :: t, h => by
    by_cases hx : x = c
    · exact ⟨[], t, by simp [hx], by simp⟩
    · have ht : c ∈ t := by
        simp only [List.mem_cons] at h
        rcases h with h | h
        · exact absurd h.symm hx
        · exact h
      obtain ⟨a, b, rfl, ha⟩ := split_first c t ht
      refine ⟨x :: a, b, by simp, ?_⟩
      intro y hy
      simp only [List.mem_cons] at hy
      rcases hy with rfl | hy
      · exact hx
      · exact ha y hy

theorem not_noGt_split (body : PStr) (h : ¬ NoGt body) : ∃ a b, body = a ++ 62 :: b ∧ NoGt a := by
  have : 62 ∈ body := by
    simp only [NoGt] at h
    apply Classical.byContradiction
    intro hn
    exact h (fun x hx hx62 => hn (hx62 ▸ hx))
  exact split_first 62 body this

/-- `<?body>` -/
def writePi (body : PStr) : PStr := [60, 63] ++ body ++ [62]

theorem parsePi_write_exact (cd : Option PStr) (body rest : PStr) (hb : NoGt body) :
    parsePi cd (writePi body ++ rest) = .ok (.pi body) (writePi body).length cd := by
  have hfind : findCh 62 (body ++ 62 :: rest) = some body.length := findCh_append_first 62 body rest hb
  simp only [parsePi, writePi, List.cons_append, List.nil_append, List.append_assoc, List.drop_succ_cons, List.drop_zero, hfind,
    List.take_left]
  simp; omega

/-- `<!KWbody>` with `KW` any spelling of `DOCTYPE` (body = everything between the keyword and the `>`) -/
def writeDoctype (kw body : PStr) : PStr := [60, 33] ++ kw ++ body ++ [62]

def kwdoctype : PStr := [100, 111, 99, 116, 121, 112, 101]

theorem asciiLowerC_ne (a v : Nat) (h : asciiLowerC a = v) (hv : 97 ≤ v) : a ≠ 45 ∧ a ≠ 91 ∧ a ≠ 62 := by
  simp only [asciiLowerC, isUpper, Bool.and_eq_true, decide_eq_true_eq] at h
  by_cases hc : 65 ≤ a ∧ a ≤ 90
  · rw [if_pos hc] at h; omega
  · rw [if_neg hc] at h; omega

theorem parseHtmlDeclaration_write_exact (cd : Option PStr) (kw body rest : PStr) (hkw : asciiLower kw = kwdoctype)
    (hb : NoGt body) :
    parseHtmlDeclaration cd (writeDoctype kw body ++ rest) = .ok (.dl (kw ++ body)) (writeDoctype kw body).length cd := by
  have hlen : kw.length = 7 := by
    have := congrArg List.length hkw
    simpa [asciiLower, kwdoctype] using this
  match kw, hlen with
  | [a, b, c, d, e, f, g], _ =>
    simp only [asciiLower, kwdoctype, List.map_cons, List.map_nil, List.cons.injEq, and_true] at hkw
    obtain ⟨ha, hb', hc, hd, he, hf, hg⟩ := hkw
    have hfind : findCh 62 (body ++ 62 :: rest) = some body.length := findCh_append_first 62 body rest hb
    have hane := asciiLowerC_ne a 100 ha (by omega)
    simp only [parseHtmlDeclaration, writeDoctype, sw, List.cons_append, List.nil_append, List.append_assoc, List.length_cons,
      List.length_nil, List.take_succ_cons, List.take_zero, asciiLower, List.map_cons, List.map_nil, ha, hb', hc, hd, he, hf, hg,
      List.drop_succ_cons, List.drop_zero, hfind]
    simp [asciiLowerC, isUpper, hane.1, hane.2.1]
    constructor
    · rw [show 7 + body.length = (a :: b :: c :: d :: e :: f :: g :: body).length by simp; omega]
      rw [show a :: b :: c :: d :: e :: f :: g :: (body ++ 62 :: rest) = (a :: b :: c :: d :: e :: f :: g :: body) ++ 62 :: rest by simp]
      exact List.take_left
    · omega

theorem parsePi_write_first_gt (cd : Option PStr) (body rest : PStr) (hb : ¬ NoGt body) :
    ∃ a b, body = a ++ 62 :: b ∧ NoGt a ∧ parsePi cd (writePi body ++ rest) = .ok (.pi a) (writePi a).length cd := by
  obtain ⟨a, b, rfl, ha⟩ := not_noGt_split body hb
  refine ⟨a, b, rfl, ha, ?_⟩
  have e : writePi (a ++ 62 :: b) ++ rest = writePi a ++ (b ++ 62 :: rest) := by simp [writePi]
  rw [e]
  exact parsePi_write_exact cd a _ ha

theorem parseHtmlDeclaration_write_first_gt (cd : Option PStr) (kw body rest : PStr) (hkw : asciiLower kw = kwdoctype)
    (hb : ¬ NoGt body) :
    ∃ a b, body = a ++ 62 :: b ∧ NoGt a ∧
      parseHtmlDeclaration cd (writeDoctype kw body ++ rest) = .ok (.dl (kw ++ a)) (writeDoctype kw a).length cd := by
  obtain ⟨a, b, rfl, ha⟩ := not_noGt_split body hb
  refine ⟨a, b, rfl, ha, ?_⟩
  have e : writeDoctype kw (a ++ 62 :: b) ++ rest = writeDoctype kw a ++ (b ++ 62 :: rest) := by simp [writeDoctype]
  rw [e]
  exact parseHtmlDeclaration_write_exact cd kw a _ hkw ha

/-! ### CDATA marked sections: `_markedsectionclose = ]\s*]\s*>` -/

theorem drop_cons_add (y : Nat) (t : PStr) (n : Nat) : (y :: t).drop (1 + n) = t.drop n := by
  rw [Nat.add_comm]; simp

theorem mMarkedClose_cons (y : Nat) (t : PStr) :
    mMarkedClose (y :: t) =
      if y = 93 then
        (if (t.drop (spanLen isWs t)).head? = some 93 then
          (if ((t.drop (spanLen isWs t + 1)).drop (spanLen isWs (t.drop (spanLen isWs t + 1)))).head? = some 62
           then some (1 + spanLen isWs t + 1 + spanLen isWs (t.drop (spanLen isWs t + 1)) + 1) else none)
         else none)
      else none := by
  have e1 : (y :: t).drop (1 + spanLen isWs t) = t.drop (spanLen isWs t) := drop_cons_add y t _
  have e2 : (y :: t).drop (1 + spanLen isWs t + 1) = t.drop (spanLen isWs t + 1) := by
    rw [Nat.add_assoc]; exact drop_cons_add y t _
  have e3 : (y :: t).drop (1 + spanLen isWs t + 1 + spanLen isWs (t.drop (spanLen isWs t + 1))) =
      (t.drop (spanLen isWs t + 1)).drop (spanLen isWs (t.drop (spanLen isWs t + 1))) := by
    rw [List.drop_drop]
    generalize spanLen isWs (t.drop (spanLen isWs t + 1)) = w2
    rw [show 1 + spanLen isWs t + 1 + w2 = 1 + (spanLen isWs t + 1 + w2) by omega]
    exact drop_cons_add y t _
  simp only [mMarkedClose, List.head?_cons, List.drop_succ_cons, List.drop_zero, e1, e2, e3]
  by_cases hy : y = 93 <;> simp [hy]

/-- **locality of `]\s*]\s*>` in a written CDATA section**: at an offset inside the body the match does not depend on
    what follows the writer's `]]>` -/
theorem mMarkedClose_local (d rest : PStr) (hd : d ≠ []) :
    mMarkedClose (d ++ 93 :: 93 :: 62 :: rest) = mMarkedClose (d ++ [93, 93, 62]) := by
  match d, hd with
  | y :: d', _ =>
    simp only [List.cons_append, mMarkedClose_cons]
    rw [spanLen_stopped isWs 93 (by decide) d' (93 :: 62 :: rest), spanLen_stopped isWs 93 (by decide) d' [93, 62],
      head_after_span isWs 93 d' (93 :: 62 :: rest) [93, 62]]
    rcases after_span_cases isWs 93 d' (93 :: 62 :: rest) with ⟨_, hA⟩ | ⟨hw, hB⟩
    · have hA' := (after_span_cases isWs 93 d' [93, 62]).elim (fun h => h.2) (fun h => by omega)
      rw [hA, hA', spanLen_stopped isWs 93 (by decide) _ (93 :: 62 :: rest), spanLen_stopped isWs 93 (by decide) _ [93, 62],
        head_after_span isWs 93 _ (93 :: 62 :: rest) [93, 62]]
    · have hB' : (d' ++ [93, 93, 62]).drop (spanLen isWs d') = [93, 93, 62] := by rw [hw]; simp
      have h1 : (d' ++ 93 :: 93 :: 62 :: rest).drop (spanLen isWs d' + 1) = 93 :: 62 :: rest := by
        rw [← List.drop_drop, hB]; rfl
      have h2 : (d' ++ [93, 93, 62]).drop (spanLen isWs d' + 1) = [93, 62] := by
        rw [← List.drop_drop, hB']; rfl
      rw [h1, h2]
      simp [spanLen, show isWs 93 = false by decide]

/-- `<![CDATA[body]]>` -/
def writeCdata (body : PStr) : PStr := [60, 33, 91, 67, 68, 65, 84, 65, 91] ++ body ++ [93, 93, 62]

/-- the exact well-formedness condition of a CDATA body: `]\s*]\s*>` matches nowhere in `body]]>` before the writer's `]]>` -/
def CdataBodyOK (body : PStr) : Prop :=
  ∀ k, k < body.length → mMarkedClose (body.drop k ++ [93, 93, 62]) = none

instance (body : PStr) : Decidable (CdataBodyOK body) := by unfold CdataBodyOK; infer_instance

theorem mMarkedClose_at_end (rest : PStr) : mMarkedClose (93 :: 93 :: 62 :: rest) = some 3 := by
  simp [mMarkedClose_cons, spanLen, show isWs 93 = false by decide, show isWs 62 = false by decide]

def cdataKw : PStr := [67, 68, 65, 84, 65, 91]

theorem mMarkedClose_kw (k : Nat) (hk : k < 6) (t : PStr) : mMarkedClose ((cdataKw ++ t).drop k) = none := by
  have : k = 0 ∨ k = 1 ∨ k = 2 ∨ k = 3 ∨ k = 4 ∨ k = 5 := by omega
  rcases this with rfl | rfl | rfl | rfl | rfl | rfl <;> simp [cdataKw, mMarkedClose]

theorem scanName_cdata (t : PStr) : scanName (cdataKw ++ t) = .ok [99, 100, 97, 116, 97] 5 := by
  simp [scanName, cdataKw, isAlpha, spanLen, isDeclNameCh, isAlnum, isDigit, asciiLower, asciiLowerC, isUpper,
    show isWs 91 = false by decide]

theorem parseMarkedSection_eq (cd : Option PStr) (body rest : PStr) (p l : Nat)
    (hs : search mMarkedClose (cdataKw ++ (body ++ 93 :: 93 :: 62 :: rest)) = some (p, l)) :
    parseMarkedSection cd (writeCdata body ++ rest) =
      .ok (.ud ((cdataKw ++ (body ++ 93 :: 93 :: 62 :: rest)).take p)) (3 + p + l) cd := by
  have e : (writeCdata body ++ rest).drop 3 = cdataKw ++ (body ++ 93 :: 93 :: 62 :: rest) := by simp [writeCdata, cdataKw]
  simp only [parseMarkedSection, e, scanName_cdata, hs]
  simp [sectStd]

/-- the search over `CDATA[` ++ text is the search over text, shifted by 6 -/
theorem search_cdata_shift (t : PStr) (p l : Nat) (hs : search mMarkedClose t = some (p, l)) :
    search mMarkedClose (cdataKw ++ t) = some (6 + p, l) := by
  obtain ⟨h1, h2, h3⟩ := search_least _ _ _ _ hs
  apply search_of_least
  · simp [cdataKw]; omega
  · rw [show 6 + p = cdataKw.length + p by simp [cdataKw], ← List.drop_drop, List.drop_left]; exact h2
  · intro k hk
    rcases Nat.lt_or_ge k 6 with h | h
    · exact mMarkedClose_kw k h t
    · obtain ⟨j, rfl⟩ : ∃ j, k = 6 + j := ⟨k - 6, by omega⟩
      rw [show 6 + j = cdataKw.length + j by simp [cdataKw], ← List.drop_drop, List.drop_left]
      exact h3 j (by omega)

theorem parseMarkedSection_write_exact (cd : Option PStr) (body rest : PStr) (hb : CdataBodyOK body) :
    parseMarkedSection cd (writeCdata body ++ rest) = .ok (.ud (cdataKw ++ body)) (writeCdata body).length cd := by
  have hs := search_append_first mMarkedClose body (93 :: 93 :: 62 :: rest) 3 (by
    intro k hk
    obtain ⟨e, hne⟩ := drop_written body (93 :: 93 :: 62 :: rest) k hk
    rw [e, mMarkedClose_local _ _ hne]
    exact hb k hk) (mMarkedClose_at_end rest)
  rw [parseMarkedSection_eq cd body rest _ _ (search_cdata_shift _ _ _ hs)]
  have : (cdataKw ++ (body ++ 93 :: 93 :: 62 :: rest)).take (6 + body.length) = cdataKw ++ body := by
    rw [← List.append_assoc, show 6 + body.length = (cdataKw ++ body).length by simp [cdataKw]; omega]; exact List.take_left
  rw [this]
  simp [writeCdata]; omega

theorem parseMarkedSection_write_first_close (cd : Option PStr) (body rest : PStr) (hb : ¬ CdataBodyOK body) :
    ∃ p l, p < body.length ∧ mMarkedClose (body.drop p ++ [93, 93, 62]) = some l ∧
      (∀ k, k < p → mMarkedClose (body.drop k ++ [93, 93, 62]) = none) ∧
      parseMarkedSection cd (writeCdata body ++ rest) = .ok (.ud (cdataKw ++ body.take p)) (9 + p + l) cd := by
  cases hsr : search mMarkedClose (body ++ [93, 93, 62]) with
  | none =>
    have := search_none _ _ hsr body.length (by simp)
    simp [mMarkedClose_at_end] at this
  | some pl =>
    obtain ⟨p, l⟩ := pl
    obtain ⟨_, hm, hleast⟩ := search_least _ _ _ _ hsr
    have hple : p ≤ body.length := by
      rcases Nat.lt_or_ge body.length p with h | h
      · have := hleast body.length h
        simp [mMarkedClose_at_end] at this
      · exact h
    have hplt : p < body.length := by
      rcases Nat.lt_or_ge p body.length with h | h
      · exact h
      · exfalso
        apply hb
        intro k hk
        have := hleast k (by omega)
        rwa [(drop_written body [93, 93, 62] k hk).1] at this
    have hm' : mMarkedClose (body.drop p ++ [93, 93, 62]) = some l := by
      rwa [(drop_written body [93, 93, 62] p hplt).1] at hm
    have hleast' : ∀ k, k < p → mMarkedClose (body.drop k ++ [93, 93, 62]) = none := by
      intro k hk
      have := hleast k hk
      rwa [(drop_written body [93, 93, 62] k (by omega)).1] at this
    refine ⟨p, l, hplt, hm', hleast', ?_⟩
    have hs : search mMarkedClose (body ++ 93 :: 93 :: 62 :: rest) = some (p, l) := by
      apply search_of_least
      · simp; omega
      · obtain ⟨e, hne⟩ := drop_written body (93 :: 93 :: 62 :: rest) p hplt
        rw [e, mMarkedClose_local _ _ hne]; exact hm'
      · intro k hk
        obtain ⟨e, hne⟩ := drop_written body (93 :: 93 :: 62 :: rest) k (by omega)
        rw [e, mMarkedClose_local _ _ hne]; exact hleast' k hk
    rw [parseMarkedSection_eq cd body rest _ _ (search_cdata_shift _ _ _ hs)]
    have : (cdataKw ++ (body ++ 93 :: 93 :: 62 :: rest)).take (6 + p) = cdataKw ++ body.take p := by
      rw [show 6 + p = cdataKw.length + p by simp [cdataKw], List.take_length_add_append,
        List.take_append_of_le_length (by omega)]
    rw [this]
    congr 1; omega

/-! ### character data: the `interesting` scan outside CDATA mode (`[&<]`) -/

/-- no `<` and no `&` -/
def TextOK (t : PStr) : Prop := ∀ x ∈ t, isPlain x = true

instance (t : PStr) : Decidable (TextOK t) := by unfold TextOK; infer_instance

theorem applyAct_head (ev : Ev) (s1 : PStr) (pos1 : Nat × Nat) (cd : Option PStr) (a : Act) :
    (applyAct [ev] s1 pos1 cd a).1.head? = some ev := by
  cases a <;> simp [applyAct]

/-- one loop turn on `text ++ rest`, `text` non-empty without `<`/`&`, `rest` empty or starting with `<`/`&`: the turn hands
    out exactly `text` as data (stamped with the position before it) and then acts on `rest` -/
theorem step_text (P : Params) (end_ : Bool) (pos : Nat × Nat) (text rest : PStr) (ht : TextOK text) (hne : text ≠ [])
    (hr : ∀ c, rest.head? = some c → isPlain c = false) :
    step P end_ ⟨text ++ rest, pos, none⟩ =
      if rest.isEmpty then ([⟨.data text, text, pos⟩], ⟨[], updatepos pos text, none⟩, some .ok)
      else applyAct [⟨.data text, text, pos⟩] rest (updatepos pos text) none (chooseAct P end_ none rest) := by
  have hsp : spanLen isPlain (text ++ rest) = text.length := spanLen_append_stop isPlain text rest ht hr
  have hpos : 0 < text.length := by
    cases text with
    | nil => exact absurd rfl hne
    | cons _ _ => simp
  simp only [step, hsp, hpos, if_true, List.take_left, List.drop_left]
  cases rest <;> simp

/-- a text without `<`/`&` is, as a whole document, one data callback at line 1 column 0 -/
theorem run_text (P : Params) (text : PStr) (ht : TextOK text) (hne : text ≠ []) :
    (run P text).evs = [⟨.data text, text, (1, 0)⟩] ∧ (run P text).st = ⟨[], updatepos (1, 0) text, none⟩ ∧
      (run P text).flag = .ok := by
  have hs := step_text P false (1, 0) text [] ht hne (by simp)
  simp only [List.append_nil, List.isEmpty_nil, if_true] at hs
  cases text with
  | nil => exact absurd rfl hne
  | cons c t =>
    simp [run, goahead, init, loop, hs, flush]

end BS.Tokenizer
