import BSModel.Proofs.TokenizerBasics
/-! Tokenizer: positions, coverage and faithful data, for one loop turn, the loop, `goahead` and `run`. -/
namespace BS.Tokenizer
open BS.SourcePos

/-! ### data callbacks of the `parse_*` functions are the text they consume -/

/-- a parse result that is a data callback reports exactly the consumed text -/
def PRDataOK (s : PStr) (r : PR) : Prop := ∀ d len cd, r = .ok (.data d) len cd → d = s.take len

theorem parseBogusComment_data (cd : Option PStr) (s : PStr) : PRDataOK s (parseBogusComment cd s) := by
  intro d len cd' h
  unfold parseBogusComment at h
  split at h <;> simp at h

theorem parsePi_data (cd : Option PStr) (s : PStr) : PRDataOK s (parsePi cd s) := by
  intro d len cd' h
  unfold parsePi at h
  split at h <;> simp at h

theorem parseComment_data (cd : Option PStr) (s : PStr) : PRDataOK s (parseComment cd s) := by
  intro d len cd' h
  unfold parseComment at h
  split at h <;> simp at h

theorem parseMarkedSection_data (cd : Option PStr) (s : PStr) : PRDataOK s (parseMarkedSection cd s) := by
  intro d len cd' h
  unfold parseMarkedSection at h
  repeat' split at h
  all_goals simp at h

theorem parseHtmlDeclaration_data (cd : Option PStr) (s : PStr) : PRDataOK s (parseHtmlDeclaration cd s) := by
  intro d len cd' h
  unfold parseHtmlDeclaration at h
  split at h
  · exact parseComment_data cd s d len cd' h
  · split at h
    · exact parseMarkedSection_data cd s d len cd' h
    · split at h
      · split at h <;> simp at h
      · exact parseBogusComment_data cd s d len cd' h

theorem parseStartTag_data (P : Params) (cd : Option PStr) (s : PStr) : PRDataOK s (parseStartTag P cd s) := by
  intro d len cd' h
  simp only [parseStartTag] at h
  repeat' split at h
  all_goals first
    | (simp at h; done)
    | (simp only [PR.ok.injEq, Tok.data.injEq] at h; obtain ⟨h1, h2, _⟩ := h; subst h1 h2; rfl)

theorem parseEndTag_data (P : Params) (cd : Option PStr) (s : PStr) : PRDataOK s (parseEndTag P cd s) := by
  intro d len cd' h
  simp only [parseEndTag] at h
  repeat' split at h
  all_goals first
    | (simp at h; done)
    | exact parseBogusComment_data _ _ d len cd' h
    | (simp only [PR.ok.injEq, Tok.data.injEq] at h; obtain ⟨h1, h2, _⟩ := h; subst h1 h2; rfl)

/-! ### actions -/

def ActDataOK (s : PStr) (a : Act) : Prop := ∀ d len cd cont, a = .adv (.data d) len cd cont → d = s.take len

theorem take_one_of_head (s : PStr) (c : Nat) (h : s.head? = some c) : s.take 1 = [c] := by
  cases s with
  | nil => simp at h
  | cons x t => simp at h; subst h; simp

theorem parseLt_data (P : Params) (cd : Option PStr) (s : PStr) (hs : s.head? = some 60) (pr : PR)
    (h : parseLt P cd s = some pr) : PRDataOK s pr := by
  simp only [parseLt] at h
  repeat' split at h
  all_goals first
    | (simp at h; done)
    | (simp only [Option.some.injEq] at h; subst h; first
        | exact parseStartTag_data P cd s
        | exact parseEndTag_data P cd s
        | exact parseComment_data cd s
        | exact parsePi_data cd s
        | exact parseHtmlDeclaration_data cd s
        | (intro d len cd' h2
           simp only [PR.ok.injEq, Tok.data.injEq] at h2
           obtain ⟨h1, h2, _⟩ := h2
           subst h1 h2
           exact (take_one_of_head s 60 hs).symm))

theorem actLt_data (P : Params) (end_ : Bool) (cd : Option PStr) (s : PStr) (hs : s.head? = some 60) :
    ActDataOK s (actLt P end_ cd s) := by
  intro d len cd' cont h
  simp only [actLt] at h
  split at h
  · simp at h
  · simp at h
  · simp at h
  · rename_i tok len' cd'' hr
    simp only [Act.adv.injEq] at h
    obtain ⟨h1, h2, h3, _⟩ := h
    subst h1 h2 h3
    exact parseLt_data P cd s hs _ hr d _ _ rfl
  · split at h
    · simp at h
    · simp only [Act.adv.injEq, Tok.data.injEq] at h
      obtain ⟨h1, h2, _⟩ := h
      subst h1 h2; rfl

theorem actCharRef_data (cd : Option PStr) (s : PStr) : ActDataOK s (actCharRef cd s) := by
  intro d len cd' cont h
  unfold actCharRef at h
  split at h
  · simp at h
  · split at h
    · simp only [Act.adv.injEq, Tok.data.injEq] at h
      obtain ⟨h1, h2, _⟩ := h
      subst h1 h2; rfl
    · simp at h

theorem actEntityRef_data (end_ : Bool) (cd : Option PStr) (s : PStr) (hs : s.head? = some 38) :
    ActDataOK s (actEntityRef end_ cd s) := by
  intro d len cd' cont h
  unfold actEntityRef at h
  split at h
  · simp at h
  · split at h
    · split at h
      · split at h <;> simp at h
      · simp only [Act.adv.injEq, Tok.data.injEq] at h
        obtain ⟨h1, h2, _⟩ := h
        subst h1 h2
        exact (take_one_of_head s 38 hs).symm
    · simp at h

theorem chooseAct_data (P : Params) (end_ : Bool) (cd : Option PStr) (s : PStr) :
    ActDataOK s (chooseAct P end_ cd s) := by
  unfold chooseAct
  split
  · rename_i h; exact actLt_data P end_ cd s (by simpa using h)
  · split
    · exact actCharRef_data cd s
    · split
      · rename_i h; exact actEntityRef_data end_ cd s (by simpa using h)
      · intro d len cd' cont h; simp at h

/-! ### one loop turn -/

/-- what every stretch of the run satisfies: consumed text + rest = the text it started on; callbacks well positioned;
    the position afterwards is the position of the end of the consumed text; data callbacks faithful -/
structure Spec (pre : PStr) (s : PStr) (evs : List Ev) (st' : St) : Prop where
  cover : srcs evs ++ st'.s = s
  wp : WP pre evs
  pos : st'.pos = posOf (pre ++ srcs evs)
  data : DataOK evs

theorem applyAct_spec (pre0 : PStr) (preEv : List Ev) (s1 : PStr) (pos1 : Nat × Nat) (cd : Option PStr) (a : Act)
    (hwp : WP pre0 preEv) (hpos : pos1 = posOf (pre0 ++ srcs preEv)) (hd : DataOK preEv) (ha : ActDataOK s1 a) :
    Spec pre0 (srcs preEv ++ s1) (applyAct preEv s1 pos1 cd a).1 (applyAct preEv s1 pos1 cd a).2.1 := by
  cases a with
  | adv tok len cd' cont =>
    simp only [applyAct]
    refine ⟨?_, ?_, ?_, ?_⟩
    · simp [srcs_append, List.append_assoc]
    · rw [WP_append]; exact ⟨hwp, by simp [WP, hpos]⟩
    · simp only [srcs_append, srcs_cons, srcs_nil, List.append_nil, hpos, updatepos_posOf, List.append_assoc]
    · rw [DataOK_append]
      refine ⟨hd, ?_⟩
      intro e he d hd'
      simp only [List.mem_singleton] at he
      subst he
      simp only at hd' ⊢
      exact ha d len cd' cont (by rw [hd'])
  | brk => exact ⟨by simp [applyAct], by simpa [applyAct] using hwp, by simpa [applyAct] using hpos, by simpa [applyAct] using hd⟩
  | err => exact ⟨by simp [applyAct], by simpa [applyAct] using hwp, by simpa [applyAct] using hpos, by simpa [applyAct] using hd⟩
  | stuck => exact ⟨by simp [applyAct], by simpa [applyAct] using hwp, by simpa [applyAct] using hpos, by simpa [applyAct] using hd⟩

theorem step_spec (P : Params) (end_ : Bool) (st : St) (pre : PStr) (hpos : st.pos = posOf pre) :
    Spec pre st.s (step P end_ st).1 (step P end_ st).2.1 := by
  unfold step
  simp only
  split
  · exact ⟨by simp, by simp [WP], by simpa using hpos, by intro e he; simp at he⟩
  · rename_i j _
    -- the data before the interesting character
    have hpre : ∀ (preEv : List Ev), preEv = (if 0 < j then [⟨.data (st.s.take j), st.s.take j, st.pos⟩] else []) →
        srcs preEv = st.s.take j ∧ WP pre preEv ∧ DataOK preEv := by
      intro preEv he
      by_cases hj : 0 < j
      · simp only [hj, if_true] at he
        subst he
        refine ⟨by simp, by simp [WP, hpos], ?_⟩
        intro e he d hd
        simp only [List.mem_singleton] at he
        subst he
        simpa using hd.symm
      · simp only [hj, if_false] at he
        subst he
        have : j = 0 := by omega
        subst this
        exact ⟨by simp, by simp [WP], by intro e he; simp at he⟩
    obtain ⟨hsrc, hwp, hdat⟩ := hpre _ rfl
    have hpos1 : updatepos st.pos (st.s.take j) = posOf (pre ++ srcs (if 0 < j then [⟨.data (st.s.take j), st.s.take j, st.pos⟩] else [])) := by
      rw [hsrc, hpos, updatepos_posOf]
    have hsplit : srcs (if 0 < j then [⟨Tok.data (st.s.take j), st.s.take j, st.pos⟩] else []) ++ st.s.drop j = st.s := by
      rw [hsrc]; exact List.take_append_drop j st.s
    split
    · exact ⟨by simpa using hsplit, hwp, hpos1, hdat⟩
    · have := applyAct_spec pre _ (st.s.drop j) _ st.cd (chooseAct P end_ st.cd (st.s.drop j)) hwp hpos1 hdat
        (chooseAct_data P end_ st.cd (st.s.drop j))
      rw [hsplit] at this
      exact this

/-! ### the loop, `goahead`, `run` -/

theorem Spec.trans {pre s : PStr} {evs1 evs2 : List Ev} {st1 st2 : St}
    (h1 : Spec pre s evs1 st1) (h2 : Spec (pre ++ srcs evs1) st1.s evs2 st2) : Spec pre s (evs1 ++ evs2) st2 := by
  refine ⟨?_, ?_, ?_, ?_⟩
  · rw [srcs_append, List.append_assoc, h2.cover, h1.cover]
  · rw [WP_append]; exact ⟨h1.wp, h2.wp⟩
  · rw [h2.pos, srcs_append, List.append_assoc]
  · rw [DataOK_append]; exact ⟨h1.data, h2.data⟩

theorem Spec.refl (pre : PStr) (st : St) (hpos : st.pos = posOf pre) : Spec pre st.s [] st :=
  ⟨by simp, by simp [WP], by simpa using hpos, by intro e he; simp at he⟩

theorem loop_spec (P : Params) (end_ : Bool) : ∀ (f : Nat) (st : St) (pre : PStr), st.pos = posOf pre →
    Spec pre st.s (loop P end_ f st).evs (loop P end_ f st).st := by
  intro f
  induction f with
  | zero => intro st pre hpos; simpa [loop] using Spec.refl pre st hpos
  | succ f ih =>
    intro st pre hpos
    unfold loop
    split
    · simpa using Spec.refl pre st hpos
    · have hs := step_spec P end_ st pre hpos
      split
      · rename_i evs st' fl heq
        rw [heq] at hs
        exact hs
      · rename_i evs st' heq
        rw [heq] at hs
        simp only at hs ⊢
        exact hs.trans (ih st' (pre ++ srcs evs) hs.pos)

theorem flush_spec (end_ : Bool) (st : St) (pre : PStr) (hpos : st.pos = posOf pre) :
    Spec pre st.s (flush end_ st).1 (flush end_ st).2 := by
  unfold flush
  split
  · refine ⟨by simp, by simp [WP, hpos], by simp [hpos, updatepos_posOf], ?_⟩
    intro e he d hd
    simp only [List.mem_singleton] at he
    subst he
    simpa using hd.symm
  · exact Spec.refl pre st hpos

theorem goahead_spec (P : Params) (end_ : Bool) (st : St) (pre : PStr) (hpos : st.pos = posOf pre) :
    Spec pre st.s (goahead P end_ st).evs (goahead P end_ st).st := by
  have hl := loop_spec P end_ (st.s.length + 1) st pre hpos
  unfold goahead
  simp only
  split
  · exact hl.trans (flush_spec end_ _ _ hl.pos)
  · exact hl

theorem run_spec (P : Params) (text : PStr) : Spec [] text (run P text).evs (run P text).st := by
  have h1 := goahead_spec P false (init text) [] (by simp [init, lineCol])
  unfold run
  simp only
  split
  · have h2 := goahead_spec P true _ _ h1.pos
    exact h1.trans (by simpa using h2)
  · exact h1

end BS.Tokenizer
