import BSModel.Proofs.TokenizerRawText
import BSModel.Proofs.TokenizerWholeEmit
/-! The tokenizer on the token sequence of a `WritableRaw` document: `loop_toks`/`run_toks` extended to sequences in
which a raw-text element (start tag, literal tokens, end tag) may stand wherever a good token may. -/
namespace BS.WriterText
open BS.Writer BS.Tokenizer BS.SourcePos BS.Adapter

/-- a token sequence the tokenizer reads as intended: good tokens, and raw-text elements -/
inductive GoodL (P : Params) : List WTok → Prop
  | nil : GoodL P []
  | tok (t : WTok) (ts : List WTok) : Good P t → GoodL P ts → GoodL P (t :: ts)
  | raw (p : Path) (n : PStr) (a : List (PStr × Option PStr)) (lits ts : List WTok) :
      cdataContentElements.contains n = true → (∀ kv ∈ a, nameOK kv.1 = true) → (∀ t ∈ lits, t.tok = none) →
      rawTextOK n (textOf lits) = true → GoodL P ts → GoodL P (openTok p n a false :: (lits ++ closeTok n :: ts))

theorem GoodL_of_forall (P : Params) : ∀ (ts : List WTok), (∀ t ∈ ts, Good P t) → GoodL P ts
  | [], _ => .nil
  | t :: ts, h => .tok t ts (h t (by simp)) (GoodL_of_forall P ts fun t' ht' => h t' (by simp [ht']))

theorem GoodL_append (P : Params) (xs ys : List WTok) (hx : GoodL P xs) (hy : GoodL P ys) : GoodL P (xs ++ ys) := by
  induction hx with
  | nil => simpa using hy
  | tok t ts ht _ ih => exact .tok t (ts ++ ys) ht ih
  | raw p n a lits ts h1 h2 h3 h4 _ ih =>
    have := GoodL.raw (P := P) p n a lits (ts ++ ys) h1 h2 h3 h4 ih
    simpa [List.append_assoc] using this

theorem runToks_lits : ∀ (lits : List WTok) (pre l : PStr) (ts : List WTok), (∀ t ∈ lits, t.tok = none) →
    runToks pre l (lits ++ ts) = runToks pre (l ++ textOf lits) ts := by
  intro lits
  induction lits with
  | nil => intro pre l ts _; simp [textOf_nil]
  | cons t lits ih =>
    intro pre l ts h
    have ht : t.tok = none := h t (by simp)
    simp only [List.cons_append, runToks, ht, textOf_cons]
    rw [ih pre (l ++ t.text) ts (fun t' ht' => h t' (by simp [ht']))]
    simp [List.append_assoc]

theorem step_raw_open_pending (P : Params) (hP : ParamsOK P) (n : PStr) (a : List (PStr × Option PStr)) (rest pre l : PStr)
    (hcd : cdataContentElements.contains n = true) (ha : ∀ kv ∈ a, nameOK kv.1 = true) (hl : ∀ x ∈ l, isPlain x = true) :
    step P false ⟨l ++ (openText n a false ++ rest), posOf pre, none⟩ =
      (dataEv pre l ++ [⟨.st n a, openText n a false, posOf (pre ++ l)⟩],
        ⟨rest, posOf (pre ++ l ++ openText n a false), some n⟩, none) := by
  have hs1head : (openText n a false ++ rest).head? = some 60 ∨ (openText n a false ++ rest).head? = some 38 :=
    Or.inl (by simp [openText])
  have hsp := spanLen_plain_stop l (openText n a false ++ rest) hl hs1head
  have hs1ne : (openText n a false ++ rest).isEmpty = false := by simp [openText]
  simp only [step, hsp, List.take_left, List.drop_left, hs1ne, Bool.false_eq_true, if_false,
    chooseAct_open_raw P hP n a hcd ha rest, applyAct, updatepos_posOf, if_true, List.append_assoc]
  by_cases hle : l = []
  · subst hle; simp [dataEv]
  · have : 0 < l.length := List.length_pos_iff.mpr hle
    have hemp : l.isEmpty = false := by cases l <;> simp_all
    simp [dataEv, this, hemp]

/-- the loop on a `GoodL` token sequence (`loop_toks` with raw-text elements) -/
theorem loop_toksL (P : Params) (hP : ParamsOK P) (ts : List WTok) (hg : GoodL P ts) : ∀ (pre l : PStr) (f : Nat),
    (∀ x ∈ l, isPlain x = true) → (l ++ textOf ts).length < f →
    loop P false f ⟨l ++ textOf ts, posOf pre, none⟩ =
      ⟨runToks pre l ts, ⟨[], posOf (pre ++ l ++ textOf ts), none⟩, .ok⟩ := by
  induction hg with
  | nil =>
    intro pre l f hl hf
    exact loop_toks P [] pre l f (by simp) hl hf
  | tok t ts hgt _ ih =>
    intro pre l f hl hf
    cases htok : t.tok with
    | none =>
      simp only [Good, htok] at hgt
      have := ih pre (l ++ t.text) f (by
        intro x hx
        rcases List.mem_append.mp hx with h | h
        · exact hl x h
        · exact hgt x h) (by simpa [textOf_cons, List.append_assoc] using hf)
      simp only [textOf_cons, runToks, htok]
      simpa [List.append_assoc] using this
    | some k =>
      simp only [Good, htok] at hgt
      obtain ⟨hhead, hact⟩ := hgt
      obtain ⟨f', rfl⟩ : ∃ f', f = f' + 1 := ⟨f - 1, by omega⟩
      have htne : t.text ≠ [] := by
        intro h; rw [h] at hhead; simp at hhead
      have hs1head : (t.text ++ textOf ts).head? = some 60 ∨ (t.text ++ textOf ts).head? = some 38 := by
        cases htt : t.text with
        | nil => exact absurd htt htne
        | cons a b => rw [htt] at hhead; simpa using hhead
      have hsp := spanLen_plain_stop l (t.text ++ textOf ts) hl hs1head
      have hsne : (⟨l ++ (t.text ++ textOf ts), posOf pre, none⟩ : St).s ≠ [] := by
        cases htt : t.text with
        | nil => exact absurd htt htne
        | cons a b => simp
      have hs1ne : (t.text ++ textOf ts).isEmpty = false := by
        cases htt : t.text with
        | nil => exact absurd htt htne
        | cons a b => simp
      have hlen : 0 < t.text.length := List.length_pos_iff.mpr htne
      have ih' := ih (pre ++ l ++ t.text) [] f' (by simp) (by
        simp only [textOf_cons, List.length_append, List.nil_append] at hf ⊢; omega)
      simp only [List.nil_append, List.append_nil, List.append_assoc] at ih'
      have hstep : step P false ⟨l ++ (t.text ++ textOf ts), posOf pre, none⟩ =
          (dataEv pre l ++ [⟨k, t.text, posOf (pre ++ l)⟩], ⟨textOf ts, posOf (pre ++ l ++ t.text), none⟩, none) := by
        simp only [step, hsp, List.take_left, List.drop_left, hs1ne, Bool.false_eq_true, if_false, hact (textOf ts), applyAct,
          updatepos_posOf, if_true, List.append_assoc]
        by_cases hle : l = []
        · subst hle; simp [dataEv]
        · have : 0 < l.length := List.length_pos_iff.mpr hle
          have hemp : l.isEmpty = false := by cases l <;> simp_all
          simp [dataEv, this, hemp]
      simp only [textOf_cons, runToks, htok]
      rw [loop_step_cont P false f' _ _ _ hsne hstep]
      simp only [List.append_assoc] at ih' ⊢
      simp only [ih', List.append_assoc, List.singleton_append]
  | raw p n a lits ts hcd ha hlits hraw _ ih =>
    intro pre l f hl hf
    have htx : textOf (openTok p n a false :: (lits ++ closeTok n :: ts)) =
        openText n a false ++ (textOf lits ++ (closeText n ++ textOf ts)) := by
      simp [textOf_cons, textOf_append, openTok, closeTok]
    have hclen : 0 < (closeText n).length := by simp [closeText]
    have holen : 0 < (openText n a false).length := by simp [openText]
    obtain ⟨f', rfl⟩ : ∃ f', f = f' + 2 := ⟨f - 2, by
      rw [htx] at hf; simp only [List.length_append] at hf; omega⟩
    have h1 := step_raw_open_pending P hP n a (textOf lits ++ (closeText n ++ textOf ts)) pre l hcd ha hl
    have h2 := step_raw_body P hP n (textOf lits) (textOf ts) (posOf (pre ++ l ++ openText n a false)) hcd
      (search_raw_text n (textOf lits) (textOf ts) hcd hraw)
    have hne1 : (⟨l ++ (openText n a false ++ (textOf lits ++ (closeText n ++ textOf ts))), posOf pre, none⟩ : St).s ≠ [] := by
      simp [openText]
    have hne2 : (⟨textOf lits ++ (closeText n ++ textOf ts), posOf (pre ++ l ++ openText n a false), some n⟩ : St).s ≠ [] := by
      simp [closeText]
    have ih' := ih (pre ++ l ++ openText n a false ++ textOf lits ++ closeText n) [] f' (by simp) (by
      rw [htx] at hf; simp only [List.length_append, List.nil_append] at hf ⊢; omega)
    simp only [List.nil_append, List.append_nil, updatepos_posOf] at ih' h2
    have hrun : runToks pre l (openTok p n a false :: (lits ++ closeTok n :: ts)) =
        dataEv pre l ++ ⟨.st n a, openText n a false, posOf (pre ++ l)⟩ ::
          (rawDataEv (textOf lits) (posOf (pre ++ l ++ openText n a false)) ++
            ⟨.et n, closeText n, posOf (pre ++ l ++ openText n a false ++ textOf lits)⟩ ::
              runToks (pre ++ l ++ openText n a false ++ textOf lits ++ closeText n) [] ts) := by
      simp only [runToks, openTok, runToks_lits lits _ _ _ hlits, closeTok, List.nil_append, dataEv, rawDataEv]
      simp
    rw [htx, hrun, show f' + 2 = (f' + 1) + 1 from rfl, loop_step_cont P false (f' + 1) _ _ _ hne1 h1,
      loop_step_cont P false f' _ _ _ hne2 h2, ih']
    simp [List.append_assoc]

/-- `feed(text); close()` on a `GoodL` token sequence -/
theorem run_toksL (P : Params) (hP : ParamsOK P) (ts : List WTok) (hg : GoodL P ts) :
    (run P (textOf ts)).evs = runToks [] [] ts ∧ (run P (textOf ts)).flag = .ok ∧ (run P (textOf ts)).st.s = [] := by
  have h1 := loop_toksL P hP ts hg [] [] ((textOf ts).length + 1) (by simp) (by simp)
  simp only [List.nil_append] at h1
  have hinit : init (textOf ts) = ⟨textOf ts, posOf [], none⟩ := by simp [init, posOf, lineCol]
  have hg1 : goahead P false (init (textOf ts)) = ⟨runToks [] [] ts, ⟨[], posOf (textOf ts), none⟩, .ok⟩ := by
    simp only [goahead, hinit, h1, flush]
    simp
  have hg2 : goahead P true ⟨[], posOf (textOf ts), none⟩ = ⟨[], ⟨[], posOf (textOf ts), none⟩, .ok⟩ := by
    simp [goahead, loop, flush]
  simp only [run, hg1, hg2]
  simp

/-! ### the tokens of a `WritableRaw` document -/

theorem lits_charToks (sp : Nat → CharSp) : ∀ (s : PStr) (i : Nat) (cur : PStr), allLit sp i s = true →
    (∀ t ∈ charToks sp i cur s, t.tok = none) ∧ textOf (charToks sp i cur s) = cur ++ s := by
  intro s
  induction s with
  | nil =>
    intro i cur _
    simp only [charToks, flushLitTok]
    split <;> simp_all [textOf, litTok]
  | cons ch rest ih =>
    intro i cur h
    simp only [allLit, Bool.and_eq_true] at h
    obtain ⟨h1, h2⟩ := h
    cases hsp : sp i with
    | lit cut =>
      simp only [charToks, hsp]
      cases cut with
      | true =>
        obtain ⟨ia, ib⟩ := ih (i + 1) [ch] h2
        simp only [if_true]
        refine ⟨?_, ?_⟩
        · intro t ht
          rcases List.mem_append.mp ht with h | h
          · simp only [flushLitTok] at h
            split at h
            · simp at h
            · simp only [List.mem_singleton] at h; subst h; rfl
          · exact ia t h
        · rw [textOf_append, ib]
          simp only [flushLitTok]
          split <;> simp_all [textOf, litTok]
      | false =>
        obtain ⟨ia, ib⟩ := ih (i + 1) (cur ++ [ch]) h2
        simp only [Bool.false_eq_true, if_false]
        exact ⟨ia, by simpa [List.append_assoc] using ib⟩
    | dec z => simp [hsp] at h1
    | hex ux ud z => simp [hsp] at h1
    | named nm => simp [hsp] at h1

mutual
theorem goodL_wtoks (P : Params) (hP : ParamsOK P) (iv : BS.Builder.Name → Bool) (c : Choices) : ∀ (d : WDoc) (p : Path),
    writableR iv c p d = true → GoodL P (wtoks iv c p d)
  | .text s, p, hw => by
    simp only [writableR] at hw
    simp only [wtoks]
    exact GoodL_of_forall P _ (good_charToks P (c.char p) s 0 [] (by simp) hw)
  | .special k s, p, hw => by
    simp only [writableR] at hw
    simp only [wtoks]
    exact GoodL_of_forall P _ (by intro t ht; simp only [List.mem_singleton] at ht; subst ht; exact good_special P k _ s hw)
  | .elem n a ks, p, hw => by
    by_cases hcd : cdataContentElements.contains n = true
    · simp only [writableR, hcd, if_true, Bool.and_eq_true, Bool.not_eq_true', List.all_eq_true] at hw
      obtain ⟨⟨hiv, ha⟩, hk⟩ := hw
      match ks, hk with
      | [.text s], hk =>
        simp only [Bool.and_eq_true] at hk
        obtain ⟨il, it⟩ := lits_charToks (c.char (0 :: p)) s 0 [] hk.2
        have := GoodL.raw (P := P) p n a (charToks (c.char (0 :: p)) 0 [] s) [] hcd ha il
          (by rw [it]; simpa using hk.1) .nil
        simpa [wtoks, wtoksL, hiv] using this
    · have hcd' : cdataContentElements.contains n = false := by simpa using hcd
      simp only [writableR, hcd', Bool.false_eq_true, if_false, Bool.and_eq_true, List.all_eq_true, Bool.or_eq_true] at hw
      obtain ⟨⟨hn, ha⟩, hk⟩ := hw
      have hopen : ∀ sl, Good P (openTok p n a sl) := fun sl => good_open P hP p n a sl hn hcd' ha
      have hclose : Good P (closeTok n) := good_close P hP n hn
      simp only [wtoks]
      split
      · split
        · exact .tok _ _ (hopen false) .nil
        · exact .tok _ _ (hopen true) .nil
        · exact .tok _ _ (hopen false) (.tok _ _ hclose .nil)
      · rename_i hv
        have hkids : writableRL iv c p 0 ks = true := by
          rcases hk with h | h
          · exact absurd h hv
          · exact h
        exact .tok _ _ (hopen false) (GoodL_append P _ _ (goodL_wtoksL P hP iv c ks p 0 hkids) (.tok _ _ hclose .nil))
theorem goodL_wtoksL (P : Params) (hP : ParamsOK P) (iv : BS.Builder.Name → Bool) (c : Choices) :
    ∀ (ds : List WDoc) (p : Path) (i : Nat), writableRL iv c p i ds = true → GoodL P (wtoksL iv c p i ds)
  | [], _, _, _ => by simp only [wtoksL]; exact .nil
  | d :: ds, p, i, hw => by
    simp only [writableRL, Bool.and_eq_true] at hw
    simp only [wtoksL]
    exact GoodL_append P _ _ (goodL_wtoks P hP iv c d (i :: p) hw.1) (goodL_wtoksL P hP iv c ds p (i + 1) hw.2)
end

end BS.WriterText
