import BSModel.Proofs.TokenizerWholeToks
/-! The tokenizer on a written raw-text element `<script …>text</script>` / `<style …>text</style>` (CDATA mode:
`set_cdata_mode` parser.py:123-125, the `interesting_cdata` search of `goahead` 153-160, `parse_endtag` in CDATA mode
407-416, `clear_cdata_mode` 127-129): start tag, the text verbatim in ONE `data` callback, end tag. -/
namespace BS.WriterText
open BS.Writer BS.Tokenizer BS.SourcePos

theorem mCdataClose_none_short (n : PStr) (a : Nat) (r : PStr) : mCdataClose n (a :: 60 :: r) = none := by
  simp [mCdataClose, sw]

theorem mCdataClose_none_of_safe (n0 : Nat) (ns : PStr) (a b c : Nat) (r : PStr)
    (h : (!(a == 60 && b == 47) || (!isWs c && !ciEq n0 c)) = true) : mCdataClose (n0 :: ns) (a :: b :: c :: r) = none := by
  by_cases hab : a = 60 ∧ b = 47
  · obtain ⟨rfl, rfl⟩ := hab
    simp only [beq_self_eq_true, Bool.and_self, Bool.not_true, Bool.false_or, Bool.and_eq_true, Bool.not_eq_true'] at h
    simp [mCdataClose, sw, spanLen, ciPrefix, h.1, h.2]
  · have : sw [60, 47] (a :: b :: c :: r) = false := by
      simp only [sw, List.length_cons, List.length_nil, List.take_succ_cons, List.take_zero]
      simp only [beq_eq_false_iff_ne, ne_eq, List.cons.injEq, and_true]
      intro h'; exact hab ⟨h'.1, h'.2⟩
    simp [mCdataClose, this]

/-- the search for the closing tag runs over a safe text and stops at the `<` after it -/
theorem search_raw (n0 : Nat) (ns : PStr) (l : Nat) : ∀ (t tl : PStr), rawSafe n0 (t ++ [60]) = true →
    mCdataClose (n0 :: ns) (60 :: tl) = some l →
    search (mCdataClose (n0 :: ns)) (t ++ 60 :: tl) = some (t.length, l) := by
  intro t
  induction t with
  | nil => intro tl _ hm; simp [search, hm]
  | cons c t ih =>
    intro tl hs hm
    simp only [List.cons_append, rawSafe, Bool.and_eq_true] at hs
    have hnone : mCdataClose (n0 :: ns) (c :: (t ++ 60 :: tl)) = none := by
      cases t with
      | nil => exact mCdataClose_none_short _ _ _
      | cons b t' =>
        cases t' with
        | nil => exact mCdataClose_none_of_safe n0 ns c b 60 tl (by simpa [rawSafeAt] using hs.1)
        | cons d t'' => exact mCdataClose_none_of_safe n0 ns c b d _ (by simpa [rawSafeAt] using hs.1)
    simp only [List.cons_append, search, hnone, ih tl hs.2 hm, Option.map_some, List.length_cons]

theorem cdata_names (n : PStr) (h : cdataContentElements.contains n = true) :
    n = [115, 99, 114, 105, 112, 116] ∨ n = [115, 116, 121, 108, 101] := by
  simpa [cdataContentElements] using h

theorem cdata_nameOK (n : PStr) (h : cdataContentElements.contains n = true) : nameOK n = true := by
  rcases cdata_names n h with rfl | rfl <;> decide

/-- `</name>` is a match of `interesting_cdata` for its own element -/
theorem mCdataClose_close (n : PStr) (h : cdataContentElements.contains n = true) (rest : PStr) :
    mCdataClose n (closeText n ++ rest) = some (closeText n).length := by
  have hw : ∀ c, c ≠ 32 → c ≠ 9 → (c :: rest).head? = some c := fun _ _ _ => rfl
  have h115 : isWs 115 = false := by decide
  have h62 : isWs 62 = false := by decide
  rcases cdata_names n h with rfl | rfl <;>
    simp [mCdataClose, closeText, sw, spanLen, ciPrefix, ciEq, asciiLowerC, isUpper, h115, h62]

/-! ### the two turns of the loop -/

/-- the start tag of a raw-text element switches CDATA mode on -/
theorem chooseAct_open_raw (P : Params) (hP : ParamsOK P) (n : PStr) (a : List (PStr × Option PStr))
    (hcd : cdataContentElements.contains n = true) (ha : ∀ kv ∈ a, nameOK kv.1 = true) (rest : PStr) :
    chooseAct P false none (openText n a false ++ rest) = .adv (.st n a) (openText n a false).length (some n) true := by
  have hn := cdata_nameOK n hcd
  have hN := nameOK_NameOK n hn
  obtain ⟨c, t, hct, hc, _⟩ := hN
  have hAttr : ∀ kv ∈ wAttrs a, AttrOK kv := by
    intro kv hkv
    simp only [wAttrs, List.mem_map] at hkv
    obtain ⟨kv0, h0, rfl⟩ := hkv
    refine ⟨nameOK_NameOK _ (ha kv0 h0), ?_⟩
    intro w hw x hx
    cases hv : kv0.2 with
    | none => simp [hv] at hw
    | some v => simp [hv] at hw; subst hw; exact escAttr_noquote v x hx
  have hLow : ∀ kv ∈ wAttrs a, P.lower kv.1 = kv.1 := by
    intro kv hkv
    simp only [wAttrs, List.mem_map] at hkv
    obtain ⟨kv0, h0, rfl⟩ := hkv
    exact hP.lower _ (ha kv0 h0)
  have hmap : (wAttrs a).map (fun kv => (kv.1, kv.2.map (valOf P))) = a := by
    simp only [wAttrs, List.map_map]
    conv => rhs; rw [← List.map_id a]
    apply List.map_congr_left
    intro kv _
    obtain ⟨k, v⟩ := kv
    cases v <;> simp [valOf_escAttr P hP]
  have hhead : (openText n a false ++ rest).head? = some 60 := by simp [openText]
  have halpha : (((openText n a false ++ rest).drop 1).head?.map isAlpha).getD false = true := by
    simp [openText, hct, (isLower_facts c hc).1]
  have hps := parseStartTag_write P none n rest (wAttrs a) false (nameOK_NameOK n hn) (hP.lower n hn) hAttr hLow
  rw [← openText_eq, hmap] at hps
  rw [chooseAct_lt _ _ _ _ hhead]
  apply actLt_of_parseLt
  simp only [parseLt, halpha, if_true, hps, hcd]
  simp [startTok]

/-- in CDATA mode the end tag of the element itself is an end tag (and switches the mode off) -/
theorem chooseAct_close_raw (P : Params) (hP : ParamsOK P) (n : PStr) (hcd : cdataContentElements.contains n = true)
    (rest : PStr) :
    chooseAct P false (some n) (closeText n ++ rest) = .adv (.et n) (closeText n).length none true := by
  have hn := cdata_nameOK n hcd
  have hhead : (closeText n ++ rest).head? = some 60 := by simp [closeText]
  have hpe := parseEndTag_write P (some n) n rest (nameOK_NameOK n hn) (hP.lower n hn) (Or.inr rfl)
  have htxt : closeText n = writeEndTag n := rfl
  rw [chooseAct_lt _ _ _ _ hhead]
  apply actLt_of_parseLt
  rw [htxt]
  simp only [parseLt, hpe]
  simp [writeEndTag, sw, isAlpha]

/-- the `data` callback for the raw text (none for an empty text) -/
def rawDataEv (t : PStr) (pos : Nat × Nat) : List Ev := if t.isEmpty then [] else [⟨.data t, t, pos⟩]

/-- the turn of the loop that starts in CDATA mode at the raw text: the whole text as one `data`, then the end tag -/
theorem step_raw_body (P : Params) (hP : ParamsOK P) (n t rest : PStr) (pos : Nat × Nat)
    (hcd : cdataContentElements.contains n = true)
    (hs : search (mCdataClose n) (t ++ (closeText n ++ rest)) = some (t.length, (closeText n).length)) :
    step P false ⟨t ++ (closeText n ++ rest), pos, some n⟩ =
      (rawDataEv t pos ++ [⟨.et n, closeText n, updatepos pos t⟩],
        ⟨rest, updatepos (updatepos pos t) (closeText n), none⟩, none) := by
  have hne : (closeText n ++ rest).isEmpty = false := by simp [closeText]
  simp only [step, hs, Option.map_some, List.take_left, List.drop_left, hne, Bool.false_eq_true, if_false,
    chooseAct_close_raw P hP n hcd rest, applyAct, if_true, rawDataEv]
  cases t <;> simp

/-- the turn of the loop at the start tag -/
theorem step_raw_open (P : Params) (hP : ParamsOK P) (n : PStr) (a : List (PStr × Option PStr)) (rest : PStr) (pos : Nat × Nat)
    (hcd : cdataContentElements.contains n = true) (ha : ∀ kv ∈ a, nameOK kv.1 = true) :
    step P false ⟨openText n a false ++ rest, pos, none⟩ =
      ([⟨.st n a, openText n a false, pos⟩], ⟨rest, updatepos pos (openText n a false), some n⟩, none) := by
  have hsp : spanLen isPlain (openText n a false ++ rest) = 0 := by simp [openText, spanLen, isPlain]
  have hne : (openText n a false ++ rest).isEmpty = false := by simp [openText]
  have hup : updatepos pos [] = pos := by simp [updatepos]
  simp only [step, hsp, List.take_zero, List.drop_zero, Nat.lt_irrefl, if_false, hne, Bool.false_eq_true, hup,
    chooseAct_open_raw P hP n a hcd ha rest, applyAct, List.nil_append, List.take_left, List.drop_left, if_true]

theorem search_raw_text (n t rest : PStr) (hcd : cdataContentElements.contains n = true) (ht : rawTextOK n t = true) :
    search (mCdataClose n) (t ++ (closeText n ++ rest)) = some (t.length, (closeText n).length) := by
  have hm := mCdataClose_close n hcd rest
  rcases cdata_names n hcd with rfl | rfl
  · exact search_raw 115 _ _ t _ (by simpa [rawTextOK] using ht) (by simpa [closeText] using hm)
  · exact search_raw 115 _ _ t _ (by simpa [rawTextOK] using ht) (by simpa [closeText] using hm)

/-- a turn of the loop that goes on -/
theorem loop_step_cont (P : Params) (e : Bool) (f : Nat) (st : St) (evs : List Ev) (st' : St) (hne : st.s ≠ [])
    (h : step P e st = (evs, st', none)) :
    loop P e (f + 1) st = ⟨evs ++ (loop P e f st').evs, (loop P e f st').st, (loop P e f st').flag⟩ := by
  conv => lhs; unfold loop
  split
  · rename_i h0; exact absurd h0 hne
  · simp only [h]

/-- **the loop on a raw-text element**, anywhere in `feed` (outside CDATA mode), whatever follows: two turns -/
theorem loop_raw_element (P : Params) (hP : ParamsOK P) (n : PStr) (a : List (PStr × Option PStr)) (t rest : PStr)
    (pos : Nat × Nat) (f : Nat) (hcd : cdataContentElements.contains n = true) (ha : ∀ kv ∈ a, nameOK kv.1 = true)
    (ht : rawTextOK n t = true) :
    loop P false (f + 2) ⟨openText n a false ++ (t ++ (closeText n ++ rest)), pos, none⟩ =
      (let pos1 := updatepos pos (openText n a false)
       let pos2 := updatepos pos1 t
       let r := loop P false f ⟨rest, updatepos pos2 (closeText n), none⟩
       ⟨⟨.st n a, openText n a false, pos⟩ :: (rawDataEv t pos1 ++ ⟨.et n, closeText n, pos2⟩ :: r.evs), r.st, r.flag⟩) := by
  have h1 := step_raw_open P hP n a (t ++ (closeText n ++ rest)) pos hcd ha
  have h2 := step_raw_body P hP n t rest (updatepos pos (openText n a false)) hcd (search_raw_text n t rest hcd ht)
  have hne1 : (⟨openText n a false ++ (t ++ (closeText n ++ rest)), pos, none⟩ : St).s ≠ [] := by simp [openText]
  have hne2 : (⟨t ++ (closeText n ++ rest), updatepos pos (openText n a false), some n⟩ : St).s ≠ [] := by
    simp [closeText]
  rw [show f + 2 = (f + 1) + 1 from rfl, loop_step_cont P false (f + 1) _ _ _ hne1 h1, loop_step_cont P false f _ _ _ hne2 h2]
  simp [List.append_assoc]

end BS.WriterText
