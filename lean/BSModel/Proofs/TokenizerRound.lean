import BSModel.Proofs.TokenizerBasics
/-! Tokenizer: round trips of the `parse_*` functions on a small well-formed grammar (names over `[a-z][a-z0-9]*`). -/
namespace BS.Tokenizer

/-! ### scanning over a concatenation -/

theorem spanLen_append_stop (p : Nat → Bool) (a b : PStr) (ha : ∀ x ∈ a, p x = true)
    (hb : ∀ c, b.head? = some c → p c = false) : spanLen p (a ++ b) = a.length := by
  induction a with
  | nil =>
    cases b with
    | nil => simp [spanLen]
    | cons c t => simp [spanLen, hb c rfl]
  | cons x t ih =>
    have hx : p x = true := ha x (by simp)
    simp only [List.cons_append, spanLen, hx, if_true, List.length_cons]
    rw [ih (fun y hy => ha y (by simp [hy]))]

theorem spanLen_zero (p : Nat → Bool) (b : PStr) (hb : ∀ c, b.head? = some c → p c = false) : spanLen p b = 0 := by
  simpa using spanLen_append_stop p [] b (by simp) hb

theorem findCh_append_first (c : Nat) (a b : PStr) (ha : ∀ x ∈ a, x ≠ c) : findCh c (a ++ c :: b) = some a.length := by
  induction a with
  | nil => simp [findCh]
  | cons x t ih =>
    have hx : (x == c) = false := by simpa using ha x (by simp)
    simp only [List.cons_append, findCh, hx, Bool.false_eq_true, if_false, List.length_cons]
    rw [ih (fun y hy => ha y (by simp [hy]))]
    simp

/-- the search finds the first place where the anchored matcher succeeds -/
theorem search_append_first (m : PStr → Option Nat) (a b : PStr) (l : Nat)
    (ha : ∀ k, k < a.length → m ((a ++ b).drop k) = none) (hb : m b = some l) :
    search m (a ++ b) = some (a.length, l) := by
  induction a with
  | nil => cases b <;> simp [search, hb]
  | cons x t ih =>
    have h0 : m (x :: (t ++ b)) = none := by simpa using ha 0 (by simp)
    simp only [List.cons_append, search, h0]
    rw [ih (fun k hk => by simpa using ha (k + 1) (by simp; omega))]
    simp

/-! ### the grammar -/

def isLower (c : Nat) : Bool := 97 ≤ c && c ≤ 122
/-- `[-.:_a-z0-9]`: what may follow the first letter of a (tag or attribute) name -/
def isNameCh (c : Nat) : Bool := isLower c || isDigit c || c == 45 || c == 46 || c == 58 || c == 95

/-- `[a-z][-.:_a-z0-9]*` -/
def NameOK (n : PStr) : Prop := ∃ c t, n = c :: t ∧ isLower c = true ∧ ∀ x ∈ t, isNameCh x = true

theorem isNameCh_range (x : Nat) (h : isNameCh x = true) :
    (97 ≤ x ∧ x ≤ 122) ∨ (48 ≤ x ∧ x ≤ 57) ∨ x = 45 ∨ x = 46 ∨ x = 58 ∨ x = 95 := by
  simp only [isNameCh, isLower, isDigit, Bool.or_eq_true, Bool.and_eq_true, decide_eq_true_eq, beq_iff_eq] at h
  omega

theorem isNameCh_facts (x : Nat) (h : isNameCh x = true) :
    isEndNameCh x = true ∧ isTagNameCh x = true ∧ isAttrRest x = true ∧ isAttrFirst x = true ∧ x ≠ 62 ∧ isWs x = false := by
  have hr := isNameCh_range x h
  have hws : isWs x = false := by
    simp only [isWs, BS.Gen.pyWhitespace, List.contains_eq_mem, List.mem_cons, List.not_mem_nil, or_false, decide_eq_false_iff_not]
    omega
  refine ⟨?_, ?_, ?_, ?_, by omega, hws⟩
  · simp only [isEndNameCh, isAlnum, isAlpha, isDigit, Bool.or_eq_true, Bool.and_eq_true, decide_eq_true_eq, beq_iff_eq]
    omega
  · simp only [isTagNameCh, Bool.not_eq_true', Bool.or_eq_false_iff, beq_eq_false_iff_ne, ne_eq]
    omega
  · simp only [isAttrRest, hws, Bool.false_or, Bool.not_eq_true', Bool.or_eq_false_iff, beq_eq_false_iff_ne, ne_eq]
    omega
  · simp only [isAttrFirst, hws, Bool.false_or, Bool.not_eq_true', Bool.or_eq_false_iff, beq_eq_false_iff_ne, ne_eq]
    omega

theorem isLower_facts (c : Nat) (h : isLower c = true) : isAlpha c = true ∧ isNameCh c = true := by
  simp only [isLower, Bool.and_eq_true, decide_eq_true_eq] at h
  constructor
  · simp only [isAlpha, Bool.or_eq_true, Bool.and_eq_true, decide_eq_true_eq]; omega
  · simp only [isNameCh, isLower, isDigit, Bool.or_eq_true, Bool.and_eq_true, decide_eq_true_eq, beq_iff_eq]; omega

/-! ### end tags -/

/-- `</name>` -/
def writeEndTag (name : PStr) : PStr := [60, 47] ++ name ++ [62]

theorem parseEndTag_write (P : Params) (cd : Option PStr) (name rest : PStr) (hn : NameOK name)
    (hl : P.lower name = name) (hcd : cd = none ∨ cd = some name) :
    parseEndTag P cd (writeEndTag name ++ rest) = .ok (.et name) (writeEndTag name).length none := by
  obtain ⟨c, t, rfl, hc, ht⟩ := hn
  have hcf := isLower_facts c hc
  have hcl := isNameCh_facts c hcf.2
  have hfind : findCh 62 (47 :: c :: (t ++ 62 :: rest)) = some (2 + t.length) := by
    have := findCh_append_first 62 (47 :: c :: t) rest (by
      intro x hx
      simp only [List.mem_cons] at hx
      rcases hx with rfl | rfl | hx
      · decide
      · exact hcl.2.2.2.2.1
      · exact (isNameCh_facts x (ht x hx)).2.2.2.2.1)
    rw [show 2 + t.length = (47 :: c :: t).length by simp; omega]
    simpa using this
  have hspan : spanLen isEndNameCh (t ++ 62 :: rest) = t.length :=
    spanLen_append_stop _ _ _ (fun x hx => (isNameCh_facts x (ht x hx)).1) (by intro c' h; simp at h; subst h; decide)
  have hw1 : spanLen isWs (c :: (t ++ 62 :: rest)) = 0 := spanLen_zero _ _ (by intro c' h; simp at h; subst h; exact hcl.2.2.2.2.2)
  have hw2 : spanLen isWs (62 :: rest) = 0 := spanLen_zero _ _ (by intro c' h; simp at h; subst h; decide)
  have hetf : endTagFind (60 :: 47 :: c :: (t ++ 62 :: rest)) = some (c :: t) := by
    simp only [endTagFind, sw, List.length_cons, List.length_nil, List.take_succ_cons, List.take_zero, beq_self_eq_true, if_true,
      List.drop_succ_cons, List.drop_zero, hw1, Nat.add_zero, hcf.1, hspan, List.drop_left, hw2, List.head?_cons]
    simp
  simp only [parseEndTag, writeEndTag, List.cons_append, List.nil_append, List.append_assoc, List.drop_succ_cons, List.drop_zero,
    hfind, hetf, hl, List.length_cons, List.length_append, List.length_nil]
  rcases hcd with rfl | rfl
  · simp; omega
  · simp; omega

/-! ### comments -/

/-- `<!--body-->` -/
def writeComment (body : PStr) : PStr := [60, 33, 45, 45] ++ body ++ [45, 45, 62]

theorem mCommentClose_none_of_head (s : PStr) (h : s.head? ≠ some 45) : mCommentClose s = none := by
  cases s with
  | nil => simp [mCommentClose, sw]
  | cons c t =>
    have : c ≠ 45 := by simpa using h
    cases t with
    | nil => simp [mCommentClose, sw]
    | cons d u => simp [mCommentClose, sw, this]

/-- a comment whose body has no `-` (hence no `--` and no trailing `-`) comes back as its body, ending at the `>` -/
theorem parseComment_write_partial (cd : Option PStr) (body rest : PStr) (hb : ∀ x ∈ body, x ≠ 45) :
    parseComment cd (writeComment body ++ rest) = .ok (.cm body) (writeComment body).length cd := by
  have hclose : mCommentClose (45 :: 45 :: 62 :: rest) = some 3 := by
    simp [mCommentClose, sw, spanLen, show isWs 62 = false by decide]
  have hs := search_append_first mCommentClose body (45 :: 45 :: 62 :: rest) 3 (by
    intro k hk
    apply mCommentClose_none_of_head
    rw [List.drop_append_of_le_length (by omega)]
    have hne : body.drop k ≠ [] := by
      intro h
      have := congrArg List.length h
      simp at this; omega
    cases hd : body.drop k with
    | nil => exact absurd hd hne
    | cons y ys =>
      have hy : y ∈ body := List.mem_of_mem_drop (by rw [hd]; simp)
      simpa using hb y hy) hclose
  simp only [parseComment, writeComment, List.cons_append, List.nil_append, List.append_assoc, List.drop_succ_cons, List.drop_zero, hs,
    List.take_left', List.length_cons, List.length_append, List.length_nil]
  simp; omega

theorem no_gt_after_ws (a b : PStr) (ha : ∀ x ∈ a, x ≠ 62) :
    ((a ++ 45 :: b).drop (spanLen isWs (a ++ 45 :: b))).head? ≠ some 62 := by
  induction a with
  | nil => simp [spanLen, show isWs 45 = false by decide]
  | cons x t ih =>
    simp only [List.cons_append, spanLen]
    split
    · simpa using ih (fun y hy => ha y (by simp [hy]))
    · simpa using ha x (by simp)

theorem mCommentClose_none_inside (d rest : PStr) (hd : d ≠ []) (h62 : ∀ x ∈ d, x ≠ 62) :
    mCommentClose (d ++ 45 :: 45 :: 62 :: rest) = none := by
  simp only [mCommentClose]
  split
  · have hform : ∃ a b, (d ++ 45 :: 45 :: 62 :: rest).drop 2 = a ++ 45 :: b ∧ ∀ x ∈ a, x ≠ 62 := by
      match d, hd, h62 with
      | [x], _, _ => exact ⟨[], 62 :: rest, by simp, by simp⟩
      | x :: y :: d', _, h => exact ⟨d', 45 :: 62 :: rest, by simp, fun z hz => h z (by simp [hz])⟩
    obtain ⟨a, b, hab, ha⟩ := hform
    have := no_gt_after_ws a b ha
    rw [← hab, List.drop_drop] at this
    simp only [List.head?_drop] at this
    simp [this]
  · rfl

/-- a comment whose body has no `>` (dashes allowed, also at the end) comes back as its body, ending at the `>` -/
theorem parseComment_write_nogt (cd : Option PStr) (body rest : PStr) (hb : ∀ x ∈ body, x ≠ 62) :
    parseComment cd (writeComment body ++ rest) = .ok (.cm body) (writeComment body).length cd := by
  have hclose : mCommentClose (45 :: 45 :: 62 :: rest) = some 3 := by
    simp [mCommentClose, sw, spanLen, show isWs 62 = false by decide]
  have hs := search_append_first mCommentClose body (45 :: 45 :: 62 :: rest) 3 (by
    intro k hk
    rw [List.drop_append_of_le_length (by omega)]
    apply mCommentClose_none_inside
    · intro h
      have := congrArg List.length h
      simp at this; omega
    · intro x hx; exact hb x (List.mem_of_mem_drop hx)) hclose
  simp only [parseComment, writeComment, List.cons_append, List.nil_append, List.append_assoc, List.drop_succ_cons, List.drop_zero, hs,
    List.take_left', List.length_cons, List.length_append, List.length_nil]
  simp; omega

/-! ### start tags (without attributes) -/

/-- `<name>` -/
def writeStartTag0 (name : PStr) : PStr := [60] ++ name ++ [62]

theorem isNameCh_noLookbehind (x : Nat) (h : isNameCh x = true) : isLookbehind x = false := by
  have hf := isNameCh_facts x h
  have hr := isNameCh_range x h
  simp only [isLookbehind, hf.2.2.2.2.2, Bool.or_false, Bool.or_eq_false_iff, beq_eq_false_iff_ne, ne_eq]
  omega

theorem charBefore_name (c : Nat) (t tail : PStr) (hc : isNameCh c = true) (ht : ∀ x ∈ t, isNameCh x = true) :
    isLookbehind (charBefore 0 (60 :: c :: (t ++ tail)) (2 + t.length)) = false := by
  have htake : (60 :: c :: (t ++ tail)).take (2 + t.length) = 60 :: c :: t := by
    rw [show 2 + t.length = t.length + 1 + 1 by omega]; simp
  have hne : (c :: t) ≠ [] := by simp
  simp only [charBefore, htake, List.getLast?_cons_cons, List.getLast?_eq_some_getLast hne, Option.getD_some]
  apply isNameCh_noLookbehind
  have := List.getLast_mem hne
  simp only [List.mem_cons] at this
  rcases this with h | h
  · rw [h]; exact hc
  · exact ht _ h

/-- a start tag `<name>` without attributes comes back as `handle_starttag(name, [])`, ending just after the `>`;
    `<script>`/`<style>` switch CDATA mode on -/
theorem parseStartTag_write_partial (P : Params) (cd : Option PStr) (name rest : PStr) (hn : NameOK name)
    (hl : P.lower name = name) :
    parseStartTag P cd (writeStartTag0 name ++ rest) =
      .ok (.st name []) (writeStartTag0 name).length (if cdataContentElements.contains name then some name else cd) := by
  obtain ⟨c, t, rfl, hc, ht⟩ := hn
  have hcf := isLower_facts c hc
  have hgt : ∀ (c' : Nat), (62 :: rest).head? = some c' → c' = 62 := by intro c' h; simpa using h.symm
  have hname : spanLen isTagNameCh (t ++ 62 :: rest) = t.length :=
    spanLen_append_stop _ _ _ (fun x hx => (isNameCh_facts x (ht x hx)).2.1) (by intro c' h; rw [hgt c' h]; decide)
  have hwsl : spanLen isWsSlash (62 :: rest) = 0 := spanLen_zero _ _ (by intro c' h; rw [hgt c' h]; decide)
  have hws : spanLen isWs (62 :: rest) = 0 := spanLen_zero _ _ (by intro c' h; rw [hgt c' h]; decide)
  have hlb := charBefore_name c t (62 :: rest) hcf.2 ht
  have hdrop : (60 :: c :: (t ++ 62 :: rest)).drop (2 + t.length) = 62 :: rest := by
    rw [show 2 + t.length = t.length + 1 + 1 by omega]; simp
  have hloc : locateStartTagEnd (60 :: c :: (t ++ 62 :: rest)) = some (2 + t.length) := by
    simp only [locateStartTagEnd, List.drop_succ_cons, List.drop_zero, hname, hdrop, hwsl, Nat.add_zero,
      locAttrs, attrFind, hlb, Bool.false_eq_true, if_false, hws]
  have hchk : checkWholeStartTag (60 :: c :: (t ++ 62 :: rest)) = some (some (2 + t.length + 1)) := by
    simp [checkWholeStartTag, hloc, hdrop]
  have htf : tagFind (c :: (t ++ 62 :: rest)) = some (c :: t, 1 + t.length + 0) := by
    simp [tagFind, hcf.1, hname, wsSlashLen, show isWs 62 = false by decide]
  have hk : 1 + (1 + t.length + 0) = 2 + t.length := by omega
  have hloop : attrLoop P (60 :: c :: (t ++ 62 :: rest)) (2 + t.length + 1) ((60 :: c :: (t ++ 62 :: rest)).length + 1)
      (2 + t.length) [] = some ([], 2 + t.length) := by
    simp only [attrLoop, show 2 + t.length < 2 + t.length + 1 by omega, if_true, attrFind, hlb, Bool.false_eq_true, if_false]
  have htake : ((60 :: c :: (t ++ 62 :: rest)).take (2 + t.length + 1)).drop (2 + t.length) = [62] := by
    rw [List.drop_take, hdrop]; simp
  have hstrip : strip [62] = [62] := by decide
  simp only [parseStartTag, writeStartTag0, List.cons_append, List.nil_append, List.append_assoc, hchk, List.drop_succ_cons,
    List.drop_zero, htf, hk, hloop, htake, hstrip, hl]
  simp; omega

/- The statement with attributes `<name k="v" …>` is proved in `Proofs/TokenizerRoundAttrs.lean` (`parseStartTag_write`). -/

end BS.Tokenizer
