import BSModel.Proofs.TokenizerRound
/-! Tokenizer: the start-tag round trip with attributes, `<name k="v" j …>` and `<name k="v" …/>`. -/
namespace BS.Tokenizer

/-- `k="w"` (the value as written, between double quotes) or just `k` -/
def attrBody (kv : PStr × Option PStr) : PStr :=
  kv.1 ++ (match kv.2 with | none => [] | some w => 61 :: 34 :: (w ++ [34]))

/-- ` k="w"` for every attribute, then the tail `tl` (`>…` or `/>…`) -/
def attrsThenGt (tl : PStr) : List (PStr × Option PStr) → PStr
  | [] => tl
  | kv :: more => 32 :: (attrBody kv ++ attrsThenGt tl more)

/-- length of the ` k="w"` stretch -/
def attrsLen : List (PStr × Option PStr) → Nat
  | [] => 0
  | kv :: more => 1 + (attrBody kv).length + attrsLen more

/-- the end of a start tag: `>` or `/>` -/
def tagEnd (slash : Bool) : PStr := if slash then [47, 62] else [62]

/-- `<name k="w" …>` / `<name k="w" …/>` -/
def writeTag (name : PStr) (attrs : List (PStr × Option PStr)) (slash : Bool) : PStr :=
  60 :: (name ++ attrsThenGt (tagEnd slash) attrs)

/-- attribute names `[a-z][-.:_a-z0-9]*`, written values without `"` -/
def AttrOK (kv : PStr × Option PStr) : Prop := NameOK kv.1 ∧ ∀ w, kv.2 = some w → ∀ x ∈ w, x ≠ 34

/-- what the regular expressions see of a value: the quotes included -/
def rawVal : Option PStr → Option PStr
  | none => none
  | some w => some (34 :: (w ++ [34]))

/-- what may follow the last attribute: nothing `attrfind_tolerant` or the loops of `locatestarttagend_tolerant` take -/
structure TailOK (tl : PStr) : Prop where
  noAttr : ∀ prev, attrFind prev tl = none
  wsSlash : wsSlashLen tl = 0
  ws : spanLen isWs tl = 0
  stop : ∀ c, tl.head? = some c → isAttrRest c = false
  noVal : valueGroup tl = none

theorem tailOK_gt (rest : PStr) : TailOK (62 :: rest) where
  noAttr prev := by simp only [attrFind]; split <;> simp [isAttrFirst]
  wsSlash := by simp [wsSlashLen, show isWs 62 = false by decide]
  ws := by simp [spanLen, show isWs 62 = false by decide]
  stop c h := by simp at h; subst h; decide
  noVal := by simp [valueGroup, spanLen, show isWs 62 = false by decide]

theorem tailOK_slash (rest : PStr) : TailOK (47 :: 62 :: rest) where
  noAttr prev := by simp only [attrFind]; split <;> simp [isAttrFirst]
  wsSlash := by simp [wsSlashLen, show isWs 47 = false by decide]
  ws := by simp [spanLen, show isWs 47 = false by decide]
  stop c h := by simp at h; subst h; decide
  noVal := by simp [valueGroup, spanLen, show isWs 47 = false by decide]

theorem attrsThenGt_append (tl rest : PStr) (attrs : List (PStr × Option PStr)) :
    attrsThenGt tl attrs ++ rest = attrsThenGt (tl ++ rest) attrs := by
  induction attrs with
  | nil => simp [attrsThenGt]
  | cons kv more ih => simp [attrsThenGt, ih]

theorem attrsThenGt_length (tl : PStr) (attrs : List (PStr × Option PStr)) :
    (attrsThenGt tl attrs).length = attrsLen attrs + tl.length := by
  induction attrs with
  | nil => simp [attrsThenGt, attrsLen]
  | cons kv more ih => simp [attrsThenGt, attrsLen, ih]; omega

theorem attrsThenGt_drop (tl : PStr) (attrs : List (PStr × Option PStr)) :
    (attrsThenGt tl attrs).drop (attrsLen attrs) = tl := by
  induction attrs with
  | nil => simp [attrsThenGt, attrsLen]
  | cons kv more ih =>
    simp only [attrsThenGt, attrsLen]
    rw [show 1 + (attrBody kv).length + attrsLen more = ((attrBody kv).length + attrsLen more) + 1 by omega,
      List.drop_succ_cons, ← List.drop_drop, List.drop_left, ih]

theorem lower_range (c : Nat) (h : isLower c = true) : 97 ≤ c ∧ c ≤ 122 := by
  simpa [isLower] using h

/-- what follows an attribute: the tail, or a space and a letter; `(?:\s|/(?!>))*` takes the space only -/
theorem wsSlashLen_attrsThenGt (tl : PStr) (htl : TailOK tl) (more : List (PStr × Option PStr)) (hm : ∀ kv ∈ more, AttrOK kv) :
    wsSlashLen (attrsThenGt tl more) = if more = [] then 0 else 1 := by
  cases more with
  | nil => simpa [attrsThenGt] using htl.wsSlash
  | cons kv more' =>
    obtain ⟨⟨c, t, hk, hc, _⟩, _⟩ := hm kv (by simp)
    have hcl := isNameCh_facts c (isLower_facts c hc).2
    have hr := lower_range c hc
    have hc47 : (c == 47) = false := by simp; omega
    simp [attrsThenGt, attrBody, hk, wsSlashLen, show isWs 32 = true by decide, hcl.2.2.2.2.2, hc47]

theorem attrsThenGt_stop (tl : PStr) (htl : TailOK tl) (more : List (PStr × Option PStr)) :
    ∀ c, (attrsThenGt tl more).head? = some c → isAttrRest c = false := by
  cases more with
  | nil => simpa [attrsThenGt] using htl.stop
  | cons kv more' => intro c h; simp [attrsThenGt] at h; subst h; decide

theorem valueGroup_attrsThenGt (tl : PStr) (htl : TailOK tl) (more : List (PStr × Option PStr)) (hm : ∀ kv ∈ more, AttrOK kv) :
    valueGroup (attrsThenGt tl more) = none := by
  cases more with
  | nil => simpa [attrsThenGt] using htl.noVal
  | cons kv more' =>
    obtain ⟨⟨c, t, hk, hc, _⟩, _⟩ := hm kv (by simp)
    have hcl := isNameCh_facts c (isLower_facts c hc).2
    have hr := lower_range c hc
    have hc61 : (c == 61) = false := by simp; omega
    simp [attrsThenGt, attrBody, hk, valueGroup, spanLen, show isWs 32 = true by decide, hcl.2.2.2.2.2, hc61]

/-- `attrfind_tolerant` on one written attribute -/
theorem attrFind_attrBody (prev : Nat) (tl : PStr) (htl : TailOK tl) (kv : PStr × Option PStr)
    (more : List (PStr × Option PStr)) (hp : isLookbehind prev = true) (hkv : AttrOK kv) (hm : ∀ kv ∈ more, AttrOK kv) :
    attrFind prev (attrBody kv ++ attrsThenGt tl more) =
      some (kv.1, rawVal kv.2, (attrBody kv).length + (if more = [] then 0 else 1)) := by
  obtain ⟨k, v⟩ := kv
  obtain ⟨⟨c, t, hk, hc, ht⟩, hv⟩ := hkv
  simp only at hk hv
  subst hk
  have hcl := isNameCh_facts c (isLower_facts c hc).2
  have hws := wsSlashLen_attrsThenGt tl htl more hm
  cases v with
  | none =>
    have hspan : spanLen isAttrRest (t ++ attrsThenGt tl more) = t.length :=
      spanLen_append_stop _ _ _ (fun x hx => (isNameCh_facts x (ht x hx)).2.2.1) (attrsThenGt_stop tl htl more)
    have hvg := valueGroup_attrsThenGt tl htl more hm
    simp only [attrFind, hp, if_true, attrBody, List.cons_append, List.append_nil, hcl.2.2.2.1, hspan, List.drop_left, hvg, hws,
      rawVal, List.take_left', List.length_cons]
    simp only [Option.some.injEq, Prod.mk.injEq, true_and]
    split <;> omega
  | some v =>
    have hv' : ∀ x ∈ v, x ≠ 34 := hv v rfl
    have hspan : spanLen isAttrRest (t ++ 61 :: 34 :: (v ++ 34 :: attrsThenGt tl more)) = t.length :=
      spanLen_append_stop _ _ _ (fun x hx => (isNameCh_facts x (ht x hx)).2.2.1) (by intro c' h; simp at h; subst h; decide)
    have hfind : findCh 34 (v ++ 34 :: attrsThenGt tl more) = some v.length := findCh_append_first 34 v _ hv'
    have hvg : valueGroup (61 :: 34 :: (v ++ 34 :: attrsThenGt tl more)) = some (1, v.length + 2) := by
      simp [valueGroup, spanLen, show isWs 61 = false by decide, show isWs 34 = false by decide, hfind]
    simp only [attrFind, hp, if_true, attrBody, List.cons_append, List.append_assoc, List.nil_append, hcl.2.2.2.1, hspan, List.drop_left, hvg,
      List.drop_succ_cons, List.drop_zero, rawVal]
    have e1 : List.take (v.length + 2) (34 :: (v ++ 34 :: attrsThenGt tl more)) = 34 :: (v ++ [34]) := by
      rw [show v.length + 2 = (34 :: (v ++ [34])).length by simp]
      rw [show (34 :: (v ++ 34 :: attrsThenGt tl more)) = (34 :: (v ++ [34])) ++ attrsThenGt tl more by simp]
      exact List.take_left
    have e2 : List.drop (1 + (v.length + 2)) (61 :: 34 :: (v ++ 34 :: attrsThenGt tl more)) = attrsThenGt tl more := by
      rw [show 1 + (v.length + 2) = (61 :: 34 :: (v ++ [34])).length by simp; omega]
      rw [show (61 :: 34 :: (v ++ 34 :: attrsThenGt tl more)) = (61 :: 34 :: (v ++ [34])) ++ attrsThenGt tl more by simp]
      exact List.drop_left
    rw [e1, e2, hws]
    simp only [List.take_left', List.length_cons, List.length_append, List.length_nil, Option.some.injEq, Prod.mk.injEq, true_and]
    split <;> omega

theorem drop_append_cons (a : PStr) (x : Nat) (b : PStr) : (a ++ x :: b).drop (a.length + 1) = b := by
  rw [show a ++ x :: b = (a ++ [x]) ++ b by simp, show a.length + 1 = (a ++ [x]).length by simp]
  exact List.drop_left

theorem charBefore_append_cons (d : Nat) (a : PStr) (x : Nat) (b : PStr) : charBefore d (a ++ x :: b) (a.length + 1) = x := by
  have : (a ++ x :: b).take (a.length + 1) = a ++ [x] := by
    rw [show a ++ x :: b = (a ++ [x]) ++ b by simp, show a.length + 1 = (a ++ [x]).length by simp]
    exact List.take_left
  simp [charBefore, this]

/-- the attribute loop of `locatestarttagend_tolerant` runs over all written attributes and stops at the tail -/
theorem locAttrs_attrs (tl : PStr) (htl : TailOK tl) : ∀ (more : List (PStr × Option PStr)) (kv : PStr × Option PStr) (prev f : Nat),
    isLookbehind prev = true → AttrOK kv → (∀ kv ∈ more, AttrOK kv) → more.length + 2 ≤ f →
    locAttrs f prev (attrBody kv ++ attrsThenGt tl more) = some ((attrBody kv).length + attrsLen more) := by
  intro more
  induction more with
  | nil =>
    intro kv prev f hp hkv hm hf
    obtain ⟨f', rfl⟩ : ∃ f', f = f' + 2 := ⟨f - 2, by simp at hf; omega⟩
    have ha := attrFind_attrBody prev tl htl kv [] hp hkv hm
    simp only [if_true, Nat.add_zero, attrsThenGt] at ha
    simp only [locAttrs, attrsThenGt, ha, List.drop_left, htl.noAttr, attrsLen]
    simp
  | cons kv' more' ih =>
    intro kv prev f hp hkv hm hf
    obtain ⟨f', rfl⟩ : ∃ f', f = f' + 1 := ⟨f - 1, by simp at hf; omega⟩
    have ha := attrFind_attrBody prev tl htl kv (kv' :: more') hp hkv hm
    simp only [reduceCtorEq, if_false, attrsThenGt] at ha
    have hih := ih kv' 32 f' (by decide) (hm kv' (by simp)) (fun x hx => hm x (by simp [hx]))
      (by simp only [List.length_cons] at hf; omega)
    simp only [locAttrs, attrsThenGt, ha, drop_append_cons, charBefore_append_cons, hih, attrsLen, Option.map_some]
    congr 1; omega

/-- the value `parse_starttag` stores for a written value: quotes stripped, `unescape` applied unless it is empty -/
def valOf (P : Params) (w : PStr) : PStr := if w.isEmpty then w else P.unescape w

theorem attrValue_rawVal (P : Params) (v : Option PStr) : attrValue P (rawVal v) = v.map (valOf P) := by
  cases v with
  | none => rfl
  | some v =>
    have h1 : (34 :: (v ++ [34])).getLast? = some 34 := by
      show ((34 :: v) ++ [34]).getLast? = some 34
      exact List.getLast?_concat
    simp only [rawVal, attrValue, List.head?_cons, h1, List.drop_succ_cons, List.drop_zero, List.dropLast_concat]
    simp [valOf]

/-- the `while k < endpos` loop of `parse_starttag` collects exactly the written attributes and stops at the tail -/
theorem attrLoop_attrs (P : Params) (tl : PStr) (htl : TailOK tl) (e : Nat) (he : 0 < e) :
    ∀ (more : List (PStr × Option PStr)) (kv : PStr × Option PStr) (pre : PStr)
    (acc : List (PStr × Option PStr)) (f : Nat),
    isLookbehind (pre.getLast?.getD 0) = true → AttrOK kv → (∀ kv ∈ more, AttrOK kv) →
    (∀ x ∈ kv :: more, P.lower x.1 = x.1) → more.length + 2 ≤ f →
    attrLoop P (pre ++ (attrBody kv ++ attrsThenGt tl more)) (pre.length + (attrBody kv).length + attrsLen more + e) f
        pre.length acc =
      some (acc ++ (kv :: more).map (fun x => (x.1, x.2.map (valOf P))), pre.length + (attrBody kv).length + attrsLen more) := by
  intro more
  induction more with
  | nil =>
    intro kv pre acc f hp hkv hm hP hf
    obtain ⟨f', rfl⟩ : ∃ f', f = f' + 2 := ⟨f - 2, by simp at hf; omega⟩
    have ha := attrFind_attrBody (pre.getLast?.getD 0) tl htl kv [] hp hkv hm
    simp only [if_true, Nat.add_zero] at ha
    have hcb : charBefore 0 (pre ++ (attrBody kv ++ attrsThenGt tl [])) pre.length = pre.getLast?.getD 0 := by
      simp [charBefore]
    have hl := hP kv (by simp)
    have hdrop2 : (pre ++ (attrBody kv ++ attrsThenGt tl [])).drop (pre.length + (attrBody kv).length) = tl := by
      rw [← List.drop_drop, List.drop_left, List.drop_left]; rfl
    simp only [attrLoop, attrsLen, Nat.add_zero, show pre.length < pre.length + (attrBody kv).length + e by omega, if_true,
      List.drop_left, hcb, ha, hl, attrValue_rawVal, show pre.length + (attrBody kv).length <
        pre.length + (attrBody kv).length + e by omega, hdrop2, htl.noAttr]
    simp
  | cons kv' more' ih =>
    intro kv pre acc f hp hkv hm hP hf
    obtain ⟨f', rfl⟩ : ∃ f', f = f' + 1 := ⟨f - 1, by simp at hf; omega⟩
    have ha := attrFind_attrBody (pre.getLast?.getD 0) tl htl kv (kv' :: more') hp hkv hm
    simp only [reduceCtorEq, if_false] at ha
    have hcb : charBefore 0 (pre ++ (attrBody kv ++ attrsThenGt tl (kv' :: more'))) pre.length = pre.getLast?.getD 0 := by
      simp [charBefore]
    have hl := hP kv (by simp)
    have hlast : (pre ++ (attrBody kv ++ [32])).getLast? = some 32 := by
      rw [← List.append_assoc]; exact List.getLast?_concat
    have hih := ih kv' (pre ++ (attrBody kv ++ [32])) (acc ++ [(kv.1, kv.2.map (valOf P))]) f' (by rw [hlast]; decide)
      (hm kv' (by simp))
      (fun x hx => hm x (by simp [hx])) (fun x hx => hP x (by simp only [List.mem_cons] at hx ⊢; exact Or.inr hx))
      (by simp only [List.length_cons] at hf; omega)
    have hs : pre ++ (attrBody kv ++ attrsThenGt tl (kv' :: more')) =
        (pre ++ (attrBody kv ++ [32])) ++ (attrBody kv' ++ attrsThenGt tl more') := by simp [attrsThenGt]
    have hlen : (pre ++ (attrBody kv ++ [32])).length = pre.length + ((attrBody kv).length + 1) := by simp
    have hend : pre.length + (attrBody kv).length + attrsLen (kv' :: more') + e =
        (pre ++ (attrBody kv ++ [32])).length + (attrBody kv').length + attrsLen more' + e := by
      simp [attrsLen]; omega
    simp only [attrLoop, show pre.length < pre.length + (attrBody kv).length + attrsLen (kv' :: more') + e by omega, if_true,
      List.drop_left, hcb, ha, hl, attrValue_rawVal]
    rw [hend, ← hlen, hs, hih]
    simp [attrsLen]; omega

theorem attrsLen_ge (attrs : List (PStr × Option PStr)) : attrs.length ≤ attrsLen attrs := by
  induction attrs with
  | nil => simp [attrsLen]
  | cons kv more ih => simp only [attrsLen, List.length_cons]; omega

theorem tagEnd_append (slash : Bool) (rest : PStr) :
    tagEnd slash ++ rest = if slash then 47 :: 62 :: rest else 62 :: rest := by
  cases slash <;> rfl

theorem tailOK_tagEnd (slash : Bool) (rest : PStr) : TailOK (tagEnd slash ++ rest) := by
  cases slash
  · exact tailOK_gt rest
  · exact tailOK_slash rest

/-- what `parse_starttag` reports for a written start tag -/
def startTok (slash : Bool) (name : PStr) (attrs : List (PStr × Option PStr)) : Tok :=
  if slash then .se name attrs else .st name attrs

/-- `<name/>`: the `[\s/]*` of `locatestarttagend_tolerant` takes the slash -/
theorem parseStartTag_write_slash0 (P : Params) (cd : Option PStr) (name rest : PStr) (hn : NameOK name)
    (hl : P.lower name = name) :
    parseStartTag P cd (writeTag name [] true ++ rest) = .ok (.se name []) (writeTag name [] true).length cd := by
  obtain ⟨c, t, rfl, hc, ht⟩ := hn
  have hcf := isLower_facts c hc
  have hs : writeTag (c :: t) [] true ++ rest = 60 :: c :: (t ++ 47 :: 62 :: rest) := by
    simp [writeTag, attrsThenGt, tagEnd]
  have hname : spanLen isTagNameCh (t ++ 47 :: 62 :: rest) = t.length :=
    spanLen_append_stop _ _ _ (fun x hx => (isNameCh_facts x (ht x hx)).2.1) (by intro c' h; simp at h; subst h; decide)
  have hdrop : (60 :: c :: (t ++ 47 :: 62 :: rest)).drop (2 + t.length) = 47 :: 62 :: rest := by
    rw [show 2 + t.length = t.length + 1 + 1 by omega]; simp
  have hdrop1 : (60 :: c :: (t ++ 47 :: 62 :: rest)).drop (2 + t.length + 1) = 62 :: rest := by
    rw [← List.drop_drop, hdrop]; rfl
  have hwsl : spanLen isWsSlash (47 :: 62 :: rest) = 1 := by
    simp [spanLen, isWsSlash, show isWs 47 = false by decide, show isWs 62 = false by decide]
  have hws : spanLen isWs (62 :: rest) = 0 := (tailOK_gt rest).ws
  have hloc : locateStartTagEnd (60 :: c :: (t ++ 47 :: 62 :: rest)) = some (2 + t.length + 1) := by
    simp only [locateStartTagEnd, List.drop_succ_cons, List.drop_zero, hname, hdrop, hwsl, hdrop1, locAttrs,
      (tailOK_gt rest).noAttr, hws, Nat.add_zero]
  have hchk : checkWholeStartTag (60 :: c :: (t ++ 47 :: 62 :: rest)) = some (some (2 + t.length + 1 + 1)) := by
    simp [checkWholeStartTag, hloc, hdrop1]
  have htf : tagFind (c :: (t ++ 47 :: 62 :: rest)) = some (c :: t, 1 + t.length + 0) := by
    simp [tagFind, hcf.1, hname, wsSlashLen, show isWs 47 = false by decide]
  have hk : 1 + (1 + t.length + 0) = 2 + t.length := by omega
  have hlb := charBefore_name c t (47 :: 62 :: rest) hcf.2 ht
  have hloop : attrLoop P (60 :: c :: (t ++ 47 :: 62 :: rest)) (2 + t.length + 1 + 1) ((60 :: c :: (t ++ 47 :: 62 :: rest)).length + 1)
      (2 + t.length) [] = some ([], 2 + t.length) := by
    simp only [attrLoop, show 2 + t.length < 2 + t.length + 1 + 1 by omega, if_true, attrFind, hlb, Bool.false_eq_true, if_false]
  have htake : ((60 :: c :: (t ++ 47 :: 62 :: rest)).take (2 + t.length + 1 + 1)).drop (2 + t.length) = [47, 62] := by
    rw [List.drop_take, hdrop, show 2 + t.length + 1 + 1 - (2 + t.length) = 2 by omega]; rfl
  have hstrip : strip [47, 62] = [47, 62] := by decide
  rw [hs]
  simp only [parseStartTag, hchk, List.drop_succ_cons, List.drop_zero, htf, hk, hloop, htake, hstrip, hl]
  simp [writeTag, attrsThenGt, tagEnd]; omega

/-- **a written start tag** `<name k="w" j …>` or `<name k="w" j …/>` comes back as `handle_starttag` /
    `handle_startendtag` with the name and, in order, the attributes (value: quotes stripped and unescaped, `None`
    where none was written), ending just after the `>`; `<script>`/`<style>` switch CDATA mode on -/
theorem parseStartTag_write (P : Params) (cd : Option PStr) (name rest : PStr) (attrs : List (PStr × Option PStr))
    (slash : Bool) (hn : NameOK name) (hl : P.lower name = name) (ha : ∀ kv ∈ attrs, AttrOK kv)
    (hP : ∀ kv ∈ attrs, P.lower kv.1 = kv.1) :
    parseStartTag P cd (writeTag name attrs slash ++ rest) =
      .ok (startTok slash name (attrs.map fun kv => (kv.1, kv.2.map (valOf P)))) (writeTag name attrs slash).length
        (if slash then cd else if cdataContentElements.contains name then some name else cd) := by
  cases attrs with
  | nil =>
    cases slash
    · have := parseStartTag_write_partial P cd name rest hn hl
      simpa [writeTag, writeStartTag0, attrsThenGt, tagEnd, startTok] using this
    · simpa [startTok] using parseStartTag_write_slash0 P cd name rest hn hl
  | cons kv more =>
    obtain ⟨c, t, rfl, hc, ht⟩ := hn
    have hcf := isLower_facts c hc
    have hkv := ha kv (by simp)
    have hm : ∀ x ∈ more, AttrOK x := fun x hx => ha x (by simp [hx])
    obtain ⟨⟨c', t', hk', hc', _⟩, _⟩ := hkv
    have hc'l := isNameCh_facts c' (isLower_facts c' hc').2
    have hc'r := lower_range c' hc'
    have htl := tailOK_tagEnd slash rest
    generalize htlv : tagEnd slash ++ rest = tl at htl
    let L := (attrBody kv).length + attrsLen more
    let E := (tagEnd slash).length
    have hE : 0 < E := by simp only [E, tagEnd]; cases slash <;> simp
    have hs : writeTag (c :: t) (kv :: more) slash ++ rest =
        60 :: c :: (t ++ 32 :: (attrBody kv ++ attrsThenGt tl more)) := by
      simp [writeTag, attrsThenGt, attrsThenGt_append, htlv]
    have hs2 : (60 :: c :: (t ++ 32 :: (attrBody kv ++ attrsThenGt tl more))) =
        (60 :: c :: (t ++ [32])) ++ (attrBody kv ++ attrsThenGt tl more) := by simp
    have hname : spanLen isTagNameCh (t ++ 32 :: (attrBody kv ++ attrsThenGt tl more)) = t.length :=
      spanLen_append_stop _ _ _ (fun x hx => (isNameCh_facts x (ht x hx)).2.1) (by intro c'' h; simp at h; subst h; decide)
    have hdrop2 : (60 :: c :: (t ++ 32 :: (attrBody kv ++ attrsThenGt tl more))).drop (2 + t.length) =
        32 :: (attrBody kv ++ attrsThenGt tl more) := by
      rw [show 2 + t.length = t.length + 1 + 1 by omega]; simp
    have hc'47 : (c' == 47) = false := by simp; omega
    have hwsl : spanLen isWsSlash (32 :: (attrBody kv ++ attrsThenGt tl more)) = 1 := by
      simp [spanLen, attrBody, hk', isWsSlash, show isWs 32 = true by decide, hc'l.2.2.2.2.2, hc'47]
    have hp : 2 + t.length + 1 = (60 :: c :: (t ++ [32])).length := by simp; omega
    have hcb : charBefore 0 (60 :: c :: (t ++ 32 :: (attrBody kv ++ attrsThenGt tl more))) (2 + t.length + 1) = 32 := by
      have := charBefore_append_cons 0 (60 :: c :: t) 32 (attrBody kv ++ attrsThenGt tl more)
      simpa [show 2 + t.length + 1 = t.length + 1 + 1 + 1 by omega] using this
    have hdrop3 : (60 :: c :: (t ++ 32 :: (attrBody kv ++ attrsThenGt tl more))).drop (2 + t.length + 1) =
        attrBody kv ++ attrsThenGt tl more := by
      rw [hs2, hp]; exact List.drop_left
    have hlen : (60 :: c :: (t ++ 32 :: (attrBody kv ++ attrsThenGt tl more))).length = 2 + t.length + 1 + L + tl.length := by
      simp [attrsThenGt_length, L]; omega
    have hfuel : more.length + 2 ≤ (60 :: c :: (t ++ 32 :: (attrBody kv ++ attrsThenGt tl more))).length + 1 := by
      rw [hlen]; have := attrsLen_ge more; simp only [L]; omega
    have hloc := locAttrs_attrs tl htl more kv 32 _ (by decide) (ha kv (by simp)) hm hfuel
    have hdropL : (60 :: c :: (t ++ 32 :: (attrBody kv ++ attrsThenGt tl more))).drop (2 + t.length + 1 + L) = tl := by
      rw [← List.drop_drop, hdrop3, ← List.drop_drop, List.drop_left, attrsThenGt_drop]
    have hlocate : locateStartTagEnd (60 :: c :: (t ++ 32 :: (attrBody kv ++ attrsThenGt tl more))) = some (2 + t.length + 1 + L) := by
      simp only [locateStartTagEnd, List.drop_succ_cons, List.drop_zero, hname, hdrop2, hwsl, hcb, hdrop3, hloc, hdropL, htl.ws,
        Nat.add_zero, L]
    have hchk : checkWholeStartTag (60 :: c :: (t ++ 32 :: (attrBody kv ++ attrsThenGt tl more))) =
        some (some (2 + t.length + 1 + L + E)) := by
      unfold checkWholeStartTag
      rw [hlocate]
      simp only []
      rw [hdropL]
      subst htlv
      cases slash <;> simp [tagEnd, sw, E]
    have hwss : wsSlashLen (32 :: (attrBody kv ++ attrsThenGt tl more)) = 1 := by
      have := wsSlashLen_attrsThenGt tl htl (kv :: more) ha
      simpa [attrsThenGt] using this
    have htf : tagFind (c :: (t ++ 32 :: (attrBody kv ++ attrsThenGt tl more))) = some (c :: t, 1 + t.length + 1) := by
      simp [tagFind, hcf.1, hname, hwss]
    have hk : 1 + (1 + t.length + 1) = (60 :: c :: (t ++ [32])).length := by simp; omega
    have hlast : (60 :: c :: (t ++ [32])).getLast? = some 32 := by
      show ((60 :: c :: t) ++ [32]).getLast? = some 32
      exact List.getLast?_concat
    have hloop := attrLoop_attrs P tl htl E hE more kv (60 :: c :: (t ++ [32])) [] _ (by rw [hlast]; decide) (ha kv (by simp)) hm hP hfuel
    have hend : 2 + t.length + 1 + L + E = (60 :: c :: (t ++ [32])).length + (attrBody kv).length + attrsLen more + E := by
      simp [L]; omega
    have hkf : (60 :: c :: (t ++ [32])).length + (attrBody kv).length + attrsLen more = 2 + t.length + 1 + L := by
      simp [L]; omega
    have htake : ((60 :: c :: (t ++ 32 :: (attrBody kv ++ attrsThenGt tl more))).take (2 + t.length + 1 + L + E)).drop
        (2 + t.length + 1 + L) = tagEnd slash := by
      rw [List.drop_take, hdropL, ← htlv, show 2 + t.length + 1 + L + E - (2 + t.length + 1 + L) = (tagEnd slash).length by simp [E]]
      exact List.take_left
    rw [← hend, ← hs2] at hloop
    rw [hs]
    simp only [parseStartTag, hchk, List.drop_succ_cons, List.drop_zero, htf, hk, hloop, hkf, htake]
    have hlenw : (writeTag (c :: t) (kv :: more) slash).length = 2 + t.length + 1 + L + E := by
      simp [writeTag, attrsThenGt_length, L, E, attrsThenGt]; omega
    rw [hlenw]
    cases slash
    · simp [tagEnd, show strip [62] = [62] by decide, hl, startTok]
    · simp [tagEnd, show strip [47, 62] = [47, 62] by decide, hl, startTok]

end BS.Tokenizer
