import BSModel.Proofs.TokenizerRound
/-! Tokenizer: the start-tag round trip with attributes, `<name k="v" …>`. -/
namespace BS.Tokenizer

/-- `k="v"` -/
def attrBody (kv : PStr × PStr) : PStr := kv.1 ++ 61 :: 34 :: (kv.2 ++ [34])

/-- ` k="v"` for every attribute, then `>` and the rest of the input -/
def attrsThenGt (rest : PStr) : List (PStr × PStr) → PStr
  | [] => 62 :: rest
  | kv :: more => 32 :: (attrBody kv ++ attrsThenGt rest more)

/-- length of the ` k="v"` stretch -/
def attrsLen : List (PStr × PStr) → Nat
  | [] => 0
  | kv :: more => 1 + (attrBody kv).length + attrsLen more

/-- `<name k="v" …>` -/
def writeTag (name : PStr) (attrs : List (PStr × PStr)) : PStr := 60 :: (name ++ attrsThenGt [] attrs)

/-- attribute names `[a-z][a-z0-9]*`, values without `"` -/
def AttrOK (kv : PStr × PStr) : Prop := NameOK kv.1 ∧ ∀ x ∈ kv.2, x ≠ 34

theorem attrsThenGt_append (rest : PStr) (attrs : List (PStr × PStr)) :
    attrsThenGt [] attrs ++ rest = attrsThenGt rest attrs := by
  induction attrs with
  | nil => simp [attrsThenGt]
  | cons kv more ih => simp [attrsThenGt, ih]

theorem attrsThenGt_length (rest : PStr) (attrs : List (PStr × PStr)) :
    (attrsThenGt rest attrs).length = attrsLen attrs + 1 + rest.length := by
  induction attrs with
  | nil => simp [attrsThenGt, attrsLen]; omega
  | cons kv more ih => simp [attrsThenGt, attrsLen, ih]; omega

theorem attrsThenGt_drop (rest : PStr) (attrs : List (PStr × PStr)) :
    (attrsThenGt rest attrs).drop (attrsLen attrs) = 62 :: rest := by
  induction attrs with
  | nil => simp [attrsThenGt, attrsLen]
  | cons kv more ih =>
    simp only [attrsThenGt, attrsLen]
    rw [show 1 + (attrBody kv).length + attrsLen more = ((attrBody kv).length + attrsLen more) + 1 by omega,
      List.drop_succ_cons, ← List.drop_drop, List.drop_left, ih]

/-- what follows an attribute: `>` or a space and a letter; `(?:\s|/(?!>))*` takes the space only -/
theorem wsSlashLen_attrsThenGt (rest : PStr) (more : List (PStr × PStr)) (hm : ∀ kv ∈ more, AttrOK kv) :
    wsSlashLen (attrsThenGt rest more) = if more = [] then 0 else 1 := by
  cases more with
  | nil => simp [attrsThenGt, wsSlashLen, show isWs 62 = false by decide]
  | cons kv more' =>
    obtain ⟨⟨c, t, hk, hc, _⟩, _⟩ := hm kv (by simp)
    have hcl := isLowerAlnum_facts c (isLower_facts c hc).2
    have hc47 : (c == 47) = false := by
      have : isAttrFirst c = true := hcl.2.2.2.1
      simp only [isAttrFirst, Bool.not_eq_true', Bool.or_eq_false_iff] at this
      exact this.1.2
    simp [attrsThenGt, attrBody, hk, wsSlashLen, show isWs 32 = true by decide, hcl.2.2.2.2.2, hc47]

/-- `attrfind_tolerant` on one written attribute -/
theorem attrFind_attrBody (prev : Nat) (rest : PStr) (kv : PStr × PStr) (more : List (PStr × PStr))
    (hp : isLookbehind prev = true) (hkv : AttrOK kv) (hm : ∀ kv ∈ more, AttrOK kv) :
    attrFind prev (attrBody kv ++ attrsThenGt rest more) =
      some (kv.1, some (34 :: (kv.2 ++ [34])), (attrBody kv).length + (if more = [] then 0 else 1)) := by
  obtain ⟨k, v⟩ := kv
  obtain ⟨⟨c, t, hk, hc, ht⟩, hv⟩ := hkv
  simp only at hk hv
  subst hk
  have hcl := isLowerAlnum_facts c (isLower_facts c hc).2
  have hspan : spanLen isAttrRest (t ++ 61 :: 34 :: (v ++ 34 :: attrsThenGt rest more)) = t.length :=
    spanLen_append_stop _ _ _ (fun x hx => (isLowerAlnum_facts x (ht x hx)).2.2.1) (by intro c' h; simp at h; subst h; decide)
  have hfind : findCh 34 (v ++ 34 :: attrsThenGt rest more) = some v.length := findCh_append_first 34 v _ hv
  have hvg : valueGroup (61 :: 34 :: (v ++ 34 :: attrsThenGt rest more)) = some (1, v.length + 2) := by
    simp [valueGroup, spanLen, show isWs 61 = false by decide, show isWs 34 = false by decide, hfind]
  have hws := wsSlashLen_attrsThenGt rest more hm
  simp only [attrFind, hp, if_true, attrBody, List.cons_append, List.append_assoc, List.nil_append, hcl.2.2.2.1, hspan, List.drop_left, hvg,
    List.drop_succ_cons, List.drop_zero]
  have e1 : List.take (v.length + 2) (34 :: (v ++ 34 :: attrsThenGt rest more)) = 34 :: (v ++ [34]) := by
    rw [show v.length + 2 = (34 :: (v ++ [34])).length by simp]
    rw [show (34 :: (v ++ 34 :: attrsThenGt rest more)) = (34 :: (v ++ [34])) ++ attrsThenGt rest more by simp]
    exact List.take_left
  have e2 : List.drop (1 + (v.length + 2)) (61 :: 34 :: (v ++ 34 :: attrsThenGt rest more)) = attrsThenGt rest more := by
    rw [show 1 + (v.length + 2) = (61 :: 34 :: (v ++ [34])).length by simp; omega]
    rw [show (61 :: 34 :: (v ++ 34 :: attrsThenGt rest more)) = (61 :: 34 :: (v ++ [34])) ++ attrsThenGt rest more by simp]
    exact List.drop_left
  rw [e1, e2, hws]
  simp only [List.take_left', List.length_cons, List.length_append, List.length_nil, Option.some.injEq, Prod.mk.injEq, true_and]
  split <;> omega

theorem attrFind_gt (prev : Nat) (rest : PStr) : attrFind prev (62 :: rest) = none := by
  simp only [attrFind]
  split
  · simp [isAttrFirst]
  · rfl

theorem drop_append_cons (a : PStr) (x : Nat) (b : PStr) : (a ++ x :: b).drop (a.length + 1) = b := by
  rw [show a ++ x :: b = (a ++ [x]) ++ b by simp, show a.length + 1 = (a ++ [x]).length by simp]
  exact List.drop_left

theorem charBefore_append_cons (d : Nat) (a : PStr) (x : Nat) (b : PStr) : charBefore d (a ++ x :: b) (a.length + 1) = x := by
  have : (a ++ x :: b).take (a.length + 1) = a ++ [x] := by
    rw [show a ++ x :: b = (a ++ [x]) ++ b by simp, show a.length + 1 = (a ++ [x]).length by simp]
    exact List.take_left
  simp [charBefore, this]

/-- the attribute loop of `locatestarttagend_tolerant` runs over all written attributes and stops at the `>` -/
theorem locAttrs_attrs (rest : PStr) : ∀ (more : List (PStr × PStr)) (kv : PStr × PStr) (prev f : Nat),
    isLookbehind prev = true → AttrOK kv → (∀ kv ∈ more, AttrOK kv) → more.length + 2 ≤ f →
    locAttrs f prev (attrBody kv ++ attrsThenGt rest more) = some ((attrBody kv).length + attrsLen more) := by
  intro more
  induction more with
  | nil =>
    intro kv prev f hp hkv hm hf
    obtain ⟨f', rfl⟩ : ∃ f', f = f' + 2 := ⟨f - 2, by simp at hf; omega⟩
    have ha := attrFind_attrBody prev rest kv [] hp hkv hm
    simp only [if_true, Nat.add_zero, attrsThenGt] at ha
    simp only [locAttrs, attrsThenGt, ha, List.drop_left, attrFind_gt, attrsLen]
    simp
  | cons kv' more' ih =>
    intro kv prev f hp hkv hm hf
    obtain ⟨f', rfl⟩ : ∃ f', f = f' + 1 := ⟨f - 1, by simp at hf; omega⟩
    have ha := attrFind_attrBody prev rest kv (kv' :: more') hp hkv hm
    simp only [reduceCtorEq, if_false, attrsThenGt] at ha
    have hih := ih kv' 32 f' (by decide) (hm kv' (by simp)) (fun x hx => hm x (by simp [hx]))
      (by simp only [List.length_cons] at hf; omega)
    simp only [locAttrs, attrsThenGt, ha, drop_append_cons, charBefore_append_cons, hih, attrsLen, Option.map_some]
    congr 1; omega

theorem attrValue_quoted (P : Params) (v : PStr) (hu : P.unescape v = v) : attrValue P (some (34 :: (v ++ [34]))) = some v := by
  have h1 : (34 :: (v ++ [34])).getLast? = some 34 := by
    show ((34 :: v) ++ [34]).getLast? = some 34
    exact List.getLast?_concat
  simp only [attrValue, List.head?_cons, h1, List.drop_succ_cons, List.drop_zero, List.dropLast_concat]
  simp [hu]

/-- the `while k < endpos` loop of `parse_starttag` collects exactly the written attributes and stops at the `>` -/
theorem attrLoop_attrs (P : Params) (rest : PStr) : ∀ (more : List (PStr × PStr)) (kv : PStr × PStr) (pre : PStr)
    (acc : List (PStr × Option PStr)) (f : Nat),
    isLookbehind (pre.getLast?.getD 0) = true → AttrOK kv → (∀ kv ∈ more, AttrOK kv) →
    (∀ x ∈ kv :: more, P.lower x.1 = x.1 ∧ P.unescape x.2 = x.2) → more.length + 2 ≤ f →
    attrLoop P (pre ++ (attrBody kv ++ attrsThenGt rest more)) (pre.length + (attrBody kv).length + attrsLen more + 1) f
        pre.length acc =
      some (acc ++ (kv :: more).map (fun x => (x.1, some x.2)), pre.length + (attrBody kv).length + attrsLen more) := by
  intro more
  induction more with
  | nil =>
    intro kv pre acc f hp hkv hm hP hf
    obtain ⟨f', rfl⟩ : ∃ f', f = f' + 2 := ⟨f - 2, by simp at hf; omega⟩
    have ha := attrFind_attrBody (pre.getLast?.getD 0) rest kv [] hp hkv hm
    simp only [if_true, Nat.add_zero] at ha
    have hcb : charBefore 0 (pre ++ (attrBody kv ++ attrsThenGt rest [])) pre.length = pre.getLast?.getD 0 := by
      simp [charBefore]
    obtain ⟨hl, hu⟩ := hP kv (by simp)
    have hdrop2 : (pre ++ (attrBody kv ++ attrsThenGt rest [])).drop (pre.length + (attrBody kv).length) = 62 :: rest := by
      rw [← List.drop_drop, List.drop_left, List.drop_left]; rfl
    simp only [attrLoop, attrsLen, Nat.add_zero, show pre.length < pre.length + (attrBody kv).length + 1 by omega, if_true,
      List.drop_left, hcb, ha, hl, attrValue_quoted P kv.2 hu, show pre.length + (attrBody kv).length <
        pre.length + (attrBody kv).length + 1 by omega, hdrop2, attrFind_gt]
    simp
  | cons kv' more' ih =>
    intro kv pre acc f hp hkv hm hP hf
    obtain ⟨f', rfl⟩ : ∃ f', f = f' + 1 := ⟨f - 1, by simp at hf; omega⟩
    have ha := attrFind_attrBody (pre.getLast?.getD 0) rest kv (kv' :: more') hp hkv hm
    simp only [reduceCtorEq, if_false] at ha
    have hcb : charBefore 0 (pre ++ (attrBody kv ++ attrsThenGt rest (kv' :: more'))) pre.length = pre.getLast?.getD 0 := by
      simp [charBefore]
    obtain ⟨hl, hu⟩ := hP kv (by simp)
    have hih := ih kv' (pre ++ (attrBody kv ++ [32])) (acc ++ [(kv.1, some kv.2)]) f' (by simp; decide) (hm kv' (by simp))
      (fun x hx => hm x (by simp [hx])) (fun x hx => hP x (by simp only [List.mem_cons] at hx ⊢; exact Or.inr hx))
      (by simp at hf ⊢; omega)
    have hs : pre ++ (attrBody kv ++ attrsThenGt rest (kv' :: more')) =
        (pre ++ (attrBody kv ++ [32])) ++ (attrBody kv' ++ attrsThenGt rest more') := by simp [attrsThenGt]
    have hlen : (pre ++ (attrBody kv ++ [32])).length = pre.length + ((attrBody kv).length + 1) := by simp
    have hend : pre.length + (attrBody kv).length + attrsLen (kv' :: more') + 1 =
        (pre ++ (attrBody kv ++ [32])).length + (attrBody kv').length + attrsLen more' + 1 := by
      simp [attrsLen]; omega
    simp only [attrLoop, show pre.length < pre.length + (attrBody kv).length + attrsLen (kv' :: more') + 1 by omega, if_true,
      List.drop_left, hcb, ha, hl, attrValue_quoted P kv.2 hu]
    rw [hend, ← hlen, hs, hih]
    simp [attrsLen]; omega

theorem attrsLen_ge (attrs : List (PStr × PStr)) : attrs.length ≤ attrsLen attrs := by
  induction attrs with
  | nil => simp [attrsLen]
  | cons kv more ih => simp only [attrsLen, List.length_cons]; omega

theorem writeTag_nil (name : PStr) : writeTag name [] = writeStartTag0 name := by
  simp [writeTag, writeStartTag0, attrsThenGt]

/-- a start tag `<name k="v" …>` comes back as `handle_starttag(name, [(k, v), …])`, ending just after the `>` -/
theorem parseStartTag_write (P : Params) (cd : Option PStr) (name rest : PStr) (attrs : List (PStr × PStr))
    (hn : NameOK name) (hl : P.lower name = name) (ha : ∀ kv ∈ attrs, AttrOK kv)
    (hP : ∀ kv ∈ attrs, P.lower kv.1 = kv.1 ∧ P.unescape kv.2 = kv.2) :
    parseStartTag P cd (writeTag name attrs ++ rest) =
      .ok (.st name (attrs.map fun kv => (kv.1, some kv.2))) (writeTag name attrs).length
        (if cdataContentElements.contains name then some name else cd) := by
  cases attrs with
  | nil => rw [writeTag_nil]; simpa using parseStartTag_write_partial P cd name rest hn hl
  | cons kv more =>
    obtain ⟨c, t, rfl, hc, ht⟩ := hn
    have hcf := isLower_facts c hc
    have hkv := ha kv (by simp)
    have hm : ∀ x ∈ more, AttrOK x := fun x hx => ha x (by simp [hx])
    obtain ⟨⟨c', t', hk', hc', _⟩, _⟩ := hkv
    have hc'l := isLowerAlnum_facts c' (isLower_facts c' hc').2
    -- the text
    let L := (attrBody kv).length + attrsLen more
    have hs : writeTag (c :: t) (kv :: more) ++ rest =
        60 :: c :: (t ++ 32 :: (attrBody kv ++ attrsThenGt rest more)) := by
      simp [writeTag, attrsThenGt, attrsThenGt_append]
    have hs2 : (60 :: c :: (t ++ 32 :: (attrBody kv ++ attrsThenGt rest more))) =
        (60 :: c :: (t ++ [32])) ++ (attrBody kv ++ attrsThenGt rest more) := by simp
    have hname : spanLen isTagNameCh (t ++ 32 :: (attrBody kv ++ attrsThenGt rest more)) = t.length :=
      spanLen_append_stop _ _ _ (fun x hx => (isLowerAlnum_facts x (ht x hx)).2.1) (by intro c'' h; simp at h; subst h; decide)
    have hdrop2 : (60 :: c :: (t ++ 32 :: (attrBody kv ++ attrsThenGt rest more))).drop (2 + t.length) =
        32 :: (attrBody kv ++ attrsThenGt rest more) := by
      rw [show 2 + t.length = t.length + 1 + 1 by omega]; simp
    have hc'47 : (c' == 47) = false := by
      have : isAttrFirst c' = true := hc'l.2.2.2.1
      simp only [isAttrFirst, Bool.not_eq_true', Bool.or_eq_false_iff] at this
      exact this.1.2
    have hwsl : spanLen isWsSlash (32 :: (attrBody kv ++ attrsThenGt rest more)) = 1 := by
      simp [spanLen, attrBody, hk', isWsSlash, show isWs 32 = true by decide, hc'l.2.2.2.2.2, hc'47]
    have hp : 2 + t.length + 1 = (60 :: c :: (t ++ [32])).length := by simp; omega
    have hcb : charBefore 0 (60 :: c :: (t ++ 32 :: (attrBody kv ++ attrsThenGt rest more))) (2 + t.length + 1) = 32 := by
      have := charBefore_append_cons 0 (60 :: c :: t) 32 (attrBody kv ++ attrsThenGt rest more)
      simpa [show 2 + t.length + 1 = t.length + 1 + 1 + 1 by omega] using this
    have hdrop3 : (60 :: c :: (t ++ 32 :: (attrBody kv ++ attrsThenGt rest more))).drop (2 + t.length + 1) =
        attrBody kv ++ attrsThenGt rest more := by
      rw [hs2, hp]; exact List.drop_left
    have hlen : (60 :: c :: (t ++ 32 :: (attrBody kv ++ attrsThenGt rest more))).length = 2 + t.length + 1 + L + 1 + rest.length := by
      simp [attrsThenGt_length, L]; omega
    have hfuel : more.length + 2 ≤ (60 :: c :: (t ++ 32 :: (attrBody kv ++ attrsThenGt rest more))).length + 1 := by
      rw [hlen]; have := attrsLen_ge more; simp only [L]; omega
    have hloc := locAttrs_attrs rest more kv 32 _ (by decide) (ha kv (by simp)) hm hfuel
    have hdropL : (60 :: c :: (t ++ 32 :: (attrBody kv ++ attrsThenGt rest more))).drop (2 + t.length + 1 + L) = 62 :: rest := by
      rw [← List.drop_drop, hdrop3, ← List.drop_drop, List.drop_left, attrsThenGt_drop]
    have hws : spanLen isWs (62 :: rest) = 0 := spanLen_zero _ _ (by intro c'' h; simp at h; subst h; decide)
    have hlocate : locateStartTagEnd (60 :: c :: (t ++ 32 :: (attrBody kv ++ attrsThenGt rest more))) = some (2 + t.length + 1 + L) := by
      simp only [locateStartTagEnd, List.drop_succ_cons, List.drop_zero, hname, hdrop2, hwsl, hcb, hdrop3, hloc, hdropL, hws,
        Nat.add_zero, L]
    have hchk : checkWholeStartTag (60 :: c :: (t ++ 32 :: (attrBody kv ++ attrsThenGt rest more))) =
        some (some (2 + t.length + 1 + L + 1)) := by
      simp [checkWholeStartTag, hlocate, hdropL]
    have hwss : wsSlashLen (32 :: (attrBody kv ++ attrsThenGt rest more)) = 1 := by
      have := wsSlashLen_attrsThenGt rest (kv :: more) ha
      simpa [attrsThenGt] using this
    have htf : tagFind (c :: (t ++ 32 :: (attrBody kv ++ attrsThenGt rest more))) = some (c :: t, 1 + t.length + 1) := by
      simp [tagFind, hcf.1, hname, hwss]
    have hk : 1 + (1 + t.length + 1) = (60 :: c :: (t ++ [32])).length := by simp; omega
    have hlast : (60 :: c :: (t ++ [32])).getLast? = some 32 := by
      show ((60 :: c :: t) ++ [32]).getLast? = some 32
      exact List.getLast?_concat
    have hloop := attrLoop_attrs P rest more kv (60 :: c :: (t ++ [32])) [] _ (by rw [hlast]; decide) (ha kv (by simp)) hm hP hfuel
    have hend : 2 + t.length + 1 + L + 1 = (60 :: c :: (t ++ [32])).length + (attrBody kv).length + attrsLen more + 1 := by
      simp [L]; omega
    have hkf : (60 :: c :: (t ++ [32])).length + (attrBody kv).length + attrsLen more = 2 + t.length + 1 + L := by
      simp [L]; omega
    have htake : ((60 :: c :: (t ++ 32 :: (attrBody kv ++ attrsThenGt rest more))).take (2 + t.length + 1 + L + 1)).drop
        (2 + t.length + 1 + L) = [62] := by
      rw [List.drop_take, hdropL]; simp
    have hstrip : strip [62] = [62] := by decide
    rw [← hend, ← hs2] at hloop
    rw [hs]
    simp only [parseStartTag, hchk, List.drop_succ_cons, List.drop_zero, htf, hk, hloop, hkf, htake, hstrip]
    simp only [hl, List.nil_append, beq_self_eq_true, if_true]
    congr 1
    simp [writeTag, attrsThenGt_length, L, attrsThenGt]; omega

end BS.Tokenizer
