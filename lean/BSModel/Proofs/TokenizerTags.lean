import BSModel.Proofs.TokenizerTerm
/-! Tokenizer: facts about single events lifted from one loop turn to the whole run; start-tag callbacks consume a
chunk that begins with `<`; spans. -/
namespace BS.Tokenizer
open BS.SourcePos BS.Adapter

/-! ### lifting a per-event fact from `step`/`flush` to `run` -/

theorem loop_forall (P : Params) (end_ : Bool) (Q : Ev → Prop) (hstep : ∀ st, ∀ e ∈ (step P end_ st).1, Q e) :
    ∀ (f : Nat) (st : St), ∀ e ∈ (loop P end_ f st).evs, Q e := by
  intro f
  induction f with
  | zero => intro st e he; simp [loop] at he
  | succ f ih =>
    intro st e he
    unfold loop at he
    split at he
    · simp at he
    · have hs := hstep st
      split at he
      · rename_i evs st' fl heq
        rw [heq] at hs
        exact hs e he
      · rename_i evs st' heq
        rw [heq] at hs
        simp only [List.mem_append] at he
        rcases he with he | he
        · exact hs e he
        · exact ih st' e he

theorem goahead_forall (P : Params) (end_ : Bool) (Q : Ev → Prop) (hstep : ∀ st, ∀ e ∈ (step P end_ st).1, Q e)
    (hflush : ∀ st, ∀ e ∈ (flush end_ st).1, Q e) (st : St) : ∀ e ∈ (goahead P end_ st).evs, Q e := by
  intro e he
  have hl := loop_forall P end_ Q hstep (st.s.length + 1) st
  unfold goahead at he
  simp only at he
  split at he
  · simp only [List.mem_append] at he
    rcases he with he | he
    · exact hl e he
    · exact hflush _ e he
  · exact hl e he

theorem run_forall (P : Params) (Q : Ev → Prop) (hstep : ∀ end_ st, ∀ e ∈ (step P end_ st).1, Q e)
    (hflush : ∀ end_ st, ∀ e ∈ (flush end_ st).1, Q e) (text : PStr) : ∀ e ∈ (run P text).evs, Q e := by
  intro e he
  unfold run at he
  simp only at he
  split at he
  · simp only [List.mem_append] at he
    rcases he with he | he
    · exact goahead_forall P false Q (hstep false) (hflush false) _ e he
    · exact goahead_forall P true Q (hstep true) (hflush true) _ e he
  · exact goahead_forall P false Q (hstep false) (hflush false) _ e he

/-! ### a start-tag callback's chunk begins with `<` -/

def isStart : Tok → Bool
  | .st .. => true
  | .se .. => true
  | _ => false

/-- the per-event fact: non-empty chunk, and `<` first for start tags -/
def EvOK (e : Ev) : Prop := (isStart e.tok = true → e.src.head? = some 60)

theorem actCharRef_noStart (cd : Option PStr) (s : PStr) (tok : Tok) (len : Nat) (cd' : Option PStr) (cont : Bool)
    (h : actCharRef cd s = .adv tok len cd' cont) : isStart tok = false := by
  simp only [actCharRef] at h
  repeat' split at h
  all_goals first
    | (simp at h; done)
    | (simp only [Act.adv.injEq] at h; obtain ⟨h1, _⟩ := h; subst h1; rfl)

theorem actEntityRef_noStart (end_ : Bool) (cd : Option PStr) (s : PStr) (tok : Tok) (len : Nat) (cd' : Option PStr)
    (cont : Bool) (h : actEntityRef end_ cd s = .adv tok len cd' cont) : isStart tok = false := by
  simp only [actEntityRef] at h
  repeat' split at h
  all_goals first
    | (simp at h; done)
    | (simp only [Act.adv.injEq] at h; obtain ⟨h1, _⟩ := h; subst h1; rfl)

theorem chooseAct_start (P : Params) (end_ : Bool) (cd : Option PStr) (s : PStr) (tok : Tok) (len : Nat)
    (cd' : Option PStr) (cont : Bool) (h : chooseAct P end_ cd s = .adv tok len cd' cont) (hst : isStart tok = true) :
    s.head? = some 60 := by
  simp only [chooseAct] at h
  split at h
  · rename_i hh; simpa using hh
  · split at h
    · rw [actCharRef_noStart cd s tok len cd' cont h] at hst; simp at hst
    · split at h
      · rw [actEntityRef_noStart end_ cd s tok len cd' cont h] at hst; simp at hst
      · simp at h

theorem head_take_pos (s : PStr) (n : Nat) (h : 0 < n) : (s.take n).head? = s.head? := by
  cases s with
  | nil => simp
  | cons c t => cases n with
    | zero => omega
    | succ n => simp

theorem step_evOK (P : Params) (end_ : Bool) (st : St) : ∀ e ∈ (step P end_ st).1, EvOK e := by
  intro e he
  simp only [step] at he
  split at he
  · simp at he
  · rename_i j _
    have hpre : ∀ e ∈ (if 0 < j then [(⟨.data (st.s.take j), st.s.take j, st.pos⟩ : Ev)] else []), EvOK e := by
      intro e he
      split at he
      · simp only [List.mem_singleton] at he; subst he; intro h; simp [isStart] at h
      · simp at he
    split at he
    · exact hpre e he
    · cases hact : chooseAct P end_ st.cd (st.s.drop j) with
      | adv tok len cd' cont =>
        rw [hact] at he
        simp only [applyAct, List.mem_append, List.mem_singleton] at he
        rcases he with he | he
        · exact hpre e he
        · subst he
          intro hst
          have hl := (chooseAct_pos P end_ st.cd (st.s.drop j)).2 tok len cd' cont hact
          simp only at hst ⊢
          rw [head_take_pos _ _ hl]
          exact chooseAct_start P end_ st.cd _ tok len cd' cont hact hst
      | brk => rw [hact] at he; exact hpre e (by simpa [applyAct] using he)
      | err => rw [hact] at he; exact hpre e (by simpa [applyAct] using he)
      | stuck => rw [hact] at he; exact hpre e (by simpa [applyAct] using he)

theorem flush_evOK (end_ : Bool) (st : St) : ∀ e ∈ (flush end_ st).1, EvOK e := by
  intro e he
  unfold flush at he
  split at he
  · simp only [List.mem_singleton] at he; subst he; intro h; simp [isStart] at h
  · simp at he

theorem run_evOK (P : Params) (text : PStr) : ∀ e ∈ (run P text).evs, EvOK e :=
  run_forall P EvOK (step_evOK P) flush_evOK text

/-! ### the end of `close()`: nothing is left unless CDATA mode is still on -/

theorem flush_true_rest (st : St) : (flush true st).2.s = [] ∨ (flush true st).2.cd ≠ none := by
  unfold flush
  split
  · left; rfl
  · rename_i hc
    simp only [Bool.true_and, Bool.and_eq_true, Bool.not_eq_true', List.isEmpty_eq_false_iff,
      Option.isNone_iff_eq_none, not_and] at hc
    by_cases hs : st.s = []
    · left; exact hs
    · right; exact hc hs

theorem goahead_true_rest (P : Params) (st : St) (h : (goahead P true st).flag = .ok) :
    (goahead P true st).st.s = [] ∨ (goahead P true st).st.cd ≠ none := by
  unfold goahead at h ⊢
  simp only at h ⊢
  split
  · exact flush_true_rest _
  · rename_i hne
    split at h
    · rename_i heq; exact absurd heq (by simpa using hne)
    · exact absurd h (by simpa using hne)

theorem run_rest (P : Params) (text : PStr) (h : (run P text).flag = .ok) :
    (run P text).st.s = [] ∨ (run P text).st.cd ≠ none := by
  unfold run at h ⊢
  cases hf : (goahead P false (init text)).flag with
  | ok => simp only [hf] at h ⊢; exact goahead_true_rest P _ h
  | err => simp only [hf] at h; cases h
  | stuck => simp only [hf] at h; cases h

/-! ### spans -/

theorem spans_mem (evs : List Ev) : ∀ (o : Nat) (e : Ev) (lo hi : Nat), (e, lo, hi) ∈ spans o evs →
    ∃ a b, evs = a ++ e :: b ∧ lo = o + (srcs a).length ∧ hi = lo + e.src.length := by
  induction evs with
  | nil => intro o e lo hi h; simp [spans] at h
  | cons x xs ih =>
    intro o e lo hi h
    simp only [spans, List.mem_cons, Prod.mk.injEq] at h
    rcases h with ⟨h1, h2, h3⟩ | h
    · subst h1 h2 h3
      exact ⟨[], xs, by simp, by simp, rfl⟩
    · obtain ⟨a, b, hab, hlo, hhi⟩ := ih _ e lo hi h
      refine ⟨x :: a, b, by simp [hab], ?_, hhi⟩
      simp only [srcs_cons, List.length_append]; omega

/-! ### the start-tag callbacks and their offsets -/

theorem lineCol_prefix (a b : PStr) : lineCol (a ++ b) a.length = lineCol a a.length := by
  simp [lineCol]

/-- offsets of the chunks of the start-tag events, in order (`o` = offset of the first event) -/
def startOffsets : Nat → List Ev → List Nat
  | _, [] => []
  | o, e :: es => (if isStart e.tok then [o] else []) ++ startOffsets (o + e.src.length) es

theorem startOffsets_mem (evs : List Ev) : ∀ (o lo : Nat), lo ∈ startOffsets o evs →
    ∃ e hi, (e, lo, hi) ∈ spans o evs ∧ isStart e.tok = true := by
  induction evs with
  | nil => intro o lo h; simp [startOffsets] at h
  | cons x xs ih =>
    intro o lo h
    simp only [startOffsets, List.mem_append] at h
    rcases h with h | h
    · split at h
      · rename_i hx
        simp only [List.mem_singleton] at h; subst h
        exact ⟨x, lo + x.src.length, by simp [spans], hx⟩
      · simp at h
    · obtain ⟨e, hi, he, hs⟩ := ih _ lo h
      exact ⟨e, hi, by simp [spans, he], hs⟩

theorem startPositions_of_WP (text : PStr) : ∀ (evs : List Ev) (pre rest : PStr), WP pre evs →
    pre ++ srcs evs ++ rest = text →
    startPositions (evs.filterMap toSEv) = (startOffsets pre.length evs).map (lineCol text) := by
  intro evs
  induction evs with
  | nil => intro pre rest _ _; simp [startPositions, startOffsets]
  | cons e es ih =>
    intro pre rest hw hc
    obtain ⟨hp, hw'⟩ := hw
    have hc' : (pre ++ e.src) ++ srcs es ++ rest = text := by simpa [List.append_assoc] using hc
    have ih' := ih (pre ++ e.src) rest hw' hc'
    simp only [List.length_append] at ih'
    have hpos : e.pos = lineCol text pre.length := by
      rw [hp, ← hc, List.append_assoc, lineCol_prefix]
    simp only [startOffsets, List.filterMap_cons]
    cases htok : e.tok <;> simp only [toSEv, htok, isStart] <;>
      first
      | (rw [startPositions_cons, ih']; simp [startPositions, ← hpos])
      | (simpa using ih')

end BS.Tokenizer
