import BSModel.Proofs.TokenizerPos
/-! Tokenizer: every loop turn that continues consumes at least one character, no fuel runs out, and the one
arithmetic dead end of `parse_endtag` is unreachable — `Flag.stuck` never occurs. -/
namespace BS.Tokenizer
open BS.SourcePos

/-! ### the attribute loops never run out of fuel -/

theorem attrFind_pos (prev : Nat) (t : PStr) (n : PStr) (v : Option PStr) (l : Nat)
    (h : attrFind prev t = some (n, v, l)) : 0 < l ∧ t ≠ [] := by
  simp only [attrFind] at h
  repeat' split at h
  all_goals first
    | (simp at h; done)
    | (simp only [Option.some.injEq, Prod.mk.injEq] at h; obtain ⟨_, _, h3⟩ := h; subst h3; exact ⟨by omega, by simp⟩)

theorem locAttrs_fuel : ∀ (f : Nat) (prev : Nat) (t : PStr), t.length < f → locAttrs f prev t ≠ none := by
  intro f
  induction f with
  | zero => intro prev t h; omega
  | succ f ih =>
    intro prev t h
    simp only [locAttrs]
    split
    · simp
    · rename_i n v l heq
      obtain ⟨hl, hne⟩ := attrFind_pos prev t n v l heq
      have hlen : (t.drop l).length < f := by
        have : 0 < t.length := List.length_pos_iff.mpr hne
        simp only [List.length_drop]; omega
      have := ih (charBefore prev t l) (t.drop l) hlen
      cases hr : locAttrs f (charBefore prev t l) (t.drop l) with
      | none => exact absurd hr this
      | some x => simp

theorem locateStartTagEnd_some (s : PStr) : locateStartTagEnd s ≠ none := by
  simp only [locateStartTagEnd]
  split
  · rename_i heq
    exact absurd heq (locAttrs_fuel _ _ _ (by simp only [List.length_drop]; omega))
  · simp

theorem checkWholeStartTag_some (s : PStr) : checkWholeStartTag s ≠ none := by
  simp only [checkWholeStartTag]
  split
  · rename_i heq; exact absurd heq (locateStartTagEnd_some s)
  · simp

theorem checkWholeStartTag_pos (s : PStr) (e : Nat) (h : checkWholeStartTag s = some (some e)) : 0 < e := by
  simp only [checkWholeStartTag] at h
  repeat' split at h
  all_goals first
    | (simp at h; done)
    | (simp only [Option.some.injEq] at h; omega)

theorem attrLoop_fuel (P : Params) (s : PStr) (endpos : Nat) : ∀ (f k : Nat) (acc : List (PStr × Option PStr)),
    s.length < f + k → 0 < f → attrLoop P s endpos f k acc ≠ none := by
  intro f
  induction f with
  | zero => intro k acc _ h; omega
  | succ f ih =>
    intro k acc h _
    simp only [attrLoop]
    split
    · split
      · simp
      · rename_i n v l heq
        obtain ⟨hl, hne⟩ := attrFind_pos _ _ n v l heq
        have hk : k < s.length := by
          have : 0 < (s.drop k).length := List.length_pos_iff.mpr hne
          simp only [List.length_drop] at this; omega
        exact ih (k + l) _ (by omega) (by omega)
    · simp

/-! ### the `parse_*` functions: never stuck, and what they return lies strictly ahead -/

/-- not stuck, and a returned index is past the start -/
def PRPos (r : PR) : Prop := r ≠ .stuck ∧ ∀ tok len cd, r = .ok tok len cd → 0 < len

theorem parseStartTag_pos (P : Params) (cd : Option PStr) (s : PStr) : PRPos (parseStartTag P cd s) := by
  simp only [PRPos, parseStartTag]
  split
  · rename_i heq; exact absurd heq (checkWholeStartTag_some s)
  · simp
  · rename_i endpos heq
    have hpos := checkWholeStartTag_pos s endpos heq
    split
    · simp
    · rename_i name kl _
      split
      · rename_i heq2
        exact absurd heq2 (attrLoop_fuel P s endpos _ _ _ (by omega) (by omega))
      · repeat' split
        all_goals (refine ⟨by simp, ?_⟩; intro tok len cd' h; simp only [PR.ok.injEq] at h; omega)

theorem parseBogusComment_pos (cd : Option PStr) (s : PStr) : PRPos (parseBogusComment cd s) := by
  simp only [PRPos, parseBogusComment]
  split
  · simp
  · refine ⟨by simp, ?_⟩; intro tok len cd' h; simp only [PR.ok.injEq] at h; omega

theorem parsePi_pos (cd : Option PStr) (s : PStr) : PRPos (parsePi cd s) := by
  simp only [PRPos, parsePi]
  split
  · simp
  · refine ⟨by simp, ?_⟩; intro tok len cd' h; simp only [PR.ok.injEq] at h; omega

theorem parseComment_pos (cd : Option PStr) (s : PStr) : PRPos (parseComment cd s) := by
  simp only [PRPos, parseComment]
  split
  · simp
  · refine ⟨by simp, ?_⟩; intro tok len cd' h; simp only [PR.ok.injEq] at h; omega

theorem parseMarkedSection_pos (cd : Option PStr) (s : PStr) : PRPos (parseMarkedSection cd s) := by
  simp only [PRPos, parseMarkedSection]
  repeat' split
  all_goals first
    | (simp; done)
    | (refine ⟨by simp, ?_⟩; intro tok len cd' h; simp only [PR.ok.injEq] at h; omega)

theorem parseHtmlDeclaration_pos (cd : Option PStr) (s : PStr) : PRPos (parseHtmlDeclaration cd s) := by
  simp only [parseHtmlDeclaration]
  split
  · exact parseComment_pos cd s
  · split
    · exact parseMarkedSection_pos cd s
    · split
      · simp only [PRPos]
        split
        · simp
        · refine ⟨by simp, ?_⟩; intro tok len cd' h; simp only [PR.ok.injEq] at h; omega
      · exact parseBogusComment_pos cd s

/-! #### `parse_endtag`: the `>` found by `endendtag.search` lies behind the tolerant tag name -/

theorem isWs_62 : isWs 62 = false := by decide

theorem wsSlashLen_no_gt (u : PStr) : ∀ x ∈ u.take (wsSlashLen u), x ≠ 62 := by
  induction u with
  | nil => simp [wsSlashLen]
  | cons c t ih =>
    simp only [wsSlashLen]
    split
    · rename_i hc
      intro x hx
      simp only [List.take_succ_cons, List.mem_cons] at hx
      rcases hx with rfl | hx
      · intro h; subst h; rw [isWs_62] at hc; exact absurd hc (by simp)
      · exact ih x hx
    · split
      · rename_i hc
        intro x hx
        simp only [List.take_succ_cons, List.mem_cons] at hx
        rcases hx with rfl | hx
        · intro h; subst h; simp at hc
        · exact ih x hx
      · simp

theorem tagFind_no_gt (t : PStr) (name : PStr) (nl : Nat) (h : tagFind t = some (name, nl)) :
    ∀ x ∈ t.take nl, x ≠ 62 := by
  simp only [tagFind] at h
  split at h
  · rename_i c t'
    split at h
    · rename_i hc
      simp only [Option.some.injEq, Prod.mk.injEq] at h
      obtain ⟨_, h2⟩ := h
      subst h2
      intro x hx
      have e1 : 1 + spanLen isTagNameCh t' + wsSlashLen (t'.drop (spanLen isTagNameCh t')) =
          (spanLen isTagNameCh t' + wsSlashLen (t'.drop (spanLen isTagNameCh t'))) + 1 := by omega
      rw [e1, List.take_succ_cons, List.mem_cons] at hx
      rcases hx with rfl | hx
      · intro h; subst h; simp [isAlpha] at hc
      · rw [List.take_add, List.mem_append] at hx
        rcases hx with hx | hx
        · have := spanLen_all isTagNameCh t' x hx
          intro h; subst h; simp [isTagNameCh] at this
        · exact wsSlashLen_no_gt _ x hx
    · simp at h
  · simp at h

theorem sw_lt_slash (s : PStr) (h : sw [60, 47] s = true) : ∃ t, s = 60 :: 47 :: t := by
  match s with
  | [] => simp [sw] at h
  | [_] => simp [sw] at h
  | a :: b :: t =>
    simp only [sw, List.length_cons, List.length_nil, List.take_succ_cons, List.take_zero, beq_iff_eq, List.cons.injEq,
      and_true] at h
    obtain ⟨h1, h2⟩ := h
    subst h1 h2
    exact ⟨t, rfl⟩

theorem parseEndTag_pos (P : Params) (cd : Option PStr) (s : PStr) (hs : sw [60, 47] s = true) :
    PRPos (parseEndTag P cd s) := by
  obtain ⟨t, rfl⟩ := sw_lt_slash s hs
  simp only [PRPos, parseEndTag]
  split
  · simp
  · rename_i g hg
    split
    · split
      · refine ⟨by simp, ?_⟩; intro tok len cd' h; simp only [PR.ok.injEq] at h; omega
      · split
        · split
          · refine ⟨by simp, ?_⟩; intro tok len cd' h; simp only [PR.ok.injEq] at h; omega
          · exact parseBogusComment_pos cd _
        · rename_i name nl htf
          split
          · rename_i hnone
            -- unreachable: the `>` exists behind the name
            exfalso
            have h1 : ∃ g, findCh 62 t = some g := by
              have : ∃ g, findCh 62 (47 :: t) = some g := ⟨g, by simpa using hg⟩
              rw [findCh_mem] at this ⊢
              simpa using this
            have h2 := findCh_drop 62 t nl h1 (tagFind_no_gt t name nl (by simpa using htf))
            obtain ⟨g', hg'⟩ := h2
            have e : List.drop (2 + nl) (60 :: 47 :: t) = t.drop nl := by
              rw [Nat.add_comm]; simp
            rw [e, hg'] at hnone
            simp at hnone
          · refine ⟨by simp, ?_⟩; intro tok len cd' h; simp only [PR.ok.injEq] at h; omega
    · repeat' split
      all_goals (refine ⟨by simp, ?_⟩; intro tok len cd' h; simp only [PR.ok.injEq] at h; omega)

theorem parseLt_pos (P : Params) (cd : Option PStr) (s : PStr) (pr : PR) (h : parseLt P cd s = some pr) : PRPos pr := by
  simp only [parseLt] at h
  split at h
  · simp only [Option.some.injEq] at h; subst h; exact parseStartTag_pos P cd s
  · split at h
    · rename_i hs
      simp only [Option.some.injEq] at h; subst h; exact parseEndTag_pos P cd s hs
    · split at h
      · simp only [Option.some.injEq] at h; subst h; exact parseComment_pos cd s
      · split at h
        · simp only [Option.some.injEq] at h; subst h; exact parsePi_pos cd s
        · split at h
          · simp only [Option.some.injEq] at h; subst h; exact parseHtmlDeclaration_pos cd s
          · split at h
            · simp only [Option.some.injEq] at h; subst h
              exact ⟨by simp, by intro tok len cd' h; simp only [PR.ok.injEq] at h; omega⟩
            · simp at h

/-! ### actions -/

/-- an action is never `stuck`, and one that consumes consumes at least one character -/
def ActPos (a : Act) : Prop := a ≠ .stuck ∧ ∀ tok len cd cont, a = .adv tok len cd cont → 0 < len

theorem forcedEnd_pos (s : PStr) : 0 < forcedEnd s := by
  unfold forcedEnd
  split
  · omega
  · split <;> omega

theorem actLt_pos (P : Params) (end_ : Bool) (cd : Option PStr) (s : PStr) : ActPos (actLt P end_ cd s) := by
  simp only [ActPos, actLt]
  split
  · simp
  · simp
  · rename_i hr; exact absurd rfl (parseLt_pos P cd s _ hr).1
  · rename_i tok len cd' hr
    refine ⟨by simp, ?_⟩
    intro tok' len' cd'' cont h
    simp only [Act.adv.injEq] at h
    obtain ⟨h1, h2, h3, _⟩ := h
    subst h1 h2 h3
    exact (parseLt_pos P cd s _ hr).2 _ _ _ rfl
  · split
    · simp
    · refine ⟨by simp, ?_⟩
      intro tok' len' cd'' cont h
      simp only [Act.adv.injEq] at h
      obtain ⟨_, h2, _⟩ := h
      rw [← h2]; exact forcedEnd_pos s

theorem charRef_len (s : PStr) (name : PStr) (e : Nat) (h : charRef s = some (name, e)) : 2 ≤ e := by
  simp only [charRef] at h
  repeat' split at h
  all_goals first
    | (simp at h; done)
    | (simp only [Option.some.injEq, Prod.mk.injEq] at h; obtain ⟨_, h2⟩ := h; omega)

theorem entityRef_len (s : PStr) (name : PStr) (e : Nat) (h : entityRef s = some (name, e)) : 2 ≤ e := by
  simp only [entityRef] at h
  repeat' split at h
  all_goals first
    | (simp at h; done)
    | (simp only [Option.some.injEq, Prod.mk.injEq] at h; obtain ⟨_, h2⟩ := h; omega)

theorem actCharRef_pos (cd : Option PStr) (s : PStr) : ActPos (actCharRef cd s) := by
  simp only [ActPos, actCharRef]
  split
  · rename_i name e heq
    have := charRef_len s name e heq
    refine ⟨by simp, ?_⟩
    intro tok len cd' cont h
    simp only [Act.adv.injEq] at h
    obtain ⟨_, h2, _⟩ := h
    subst h2
    split <;> omega
  · split
    · refine ⟨by simp, ?_⟩
      intro tok len cd' cont h
      simp only [Act.adv.injEq] at h
      omega
    · simp

theorem actEntityRef_pos (end_ : Bool) (cd : Option PStr) (s : PStr) : ActPos (actEntityRef end_ cd s) := by
  simp only [ActPos, actEntityRef]
  split
  · rename_i name e heq
    have := entityRef_len s name e heq
    refine ⟨by simp, ?_⟩
    intro tok len cd' cont h
    simp only [Act.adv.injEq] at h
    obtain ⟨_, h2, _⟩ := h
    subst h2
    split <;> omega
  · repeat' split
    all_goals first
      | (simp; done)
      | (refine ⟨by simp, ?_⟩; intro tok len cd' cont h; simp only [Act.adv.injEq] at h; omega)

theorem chooseAct_pos (P : Params) (end_ : Bool) (cd : Option PStr) (s : PStr) : ActPos (chooseAct P end_ cd s) := by
  simp only [chooseAct]
  split
  · exact actLt_pos P end_ cd s
  · split
    · exact actCharRef_pos cd s
    · split
      · exact actEntityRef_pos end_ cd s
      · exact ⟨by simp, by intro tok len cd' cont h; simp at h⟩

/-! ### the loop -/

/-- a turn never ends `stuck`, and a turn after which the loop goes on has made the rest strictly shorter -/
theorem step_progress (P : Params) (end_ : Bool) (st : St) :
    (step P end_ st).2.2 ≠ some .stuck ∧ ((step P end_ st).2.2 = none → (step P end_ st).2.1.s.length < st.s.length) := by
  simp only [step]
  split
  · simp
  · rename_i j _
    split
    · simp
    · rename_i hne
      have ha := chooseAct_pos P end_ st.cd (st.s.drop j)
      cases hact : chooseAct P end_ st.cd (st.s.drop j) with
      | adv tok len cd' cont =>
        have hl := ha.2 tok len cd' cont hact
        simp only [applyAct]
        refine ⟨by split <;> simp, ?_⟩
        intro _
        have : 0 < (st.s.drop j).length := by
          cases hd : st.s.drop j with
          | nil => simp [hd] at hne
          | cons _ _ => simp
        simp only [List.length_drop] at this ⊢
        omega
      | brk => simp [applyAct]
      | err => simp [applyAct]
      | stuck => exact absurd hact ha.1

theorem loop_not_stuck (P : Params) (end_ : Bool) : ∀ (f : Nat) (st : St), st.s.length < f →
    (loop P end_ f st).flag ≠ .stuck := by
  intro f
  induction f with
  | zero => intro st h; omega
  | succ f ih =>
    intro st h
    unfold loop
    split
    · simp
    · have hp := step_progress P end_ st
      split
      · rename_i evs st' fl heq
        rw [heq] at hp
        simp only at hp ⊢
        intro hfl; subst hfl; exact hp.1 rfl
      · rename_i evs st' heq
        rw [heq] at hp
        simp only at hp ⊢
        exact ih st' (by have := hp.2 trivial; omega)

theorem goahead_not_stuck (P : Params) (end_ : Bool) (st : St) : (goahead P end_ st).flag ≠ .stuck := by
  have := loop_not_stuck P end_ (st.s.length + 1) st (by omega)
  unfold goahead
  simp only
  split
  · simp
  · exact this

theorem run_not_stuck (P : Params) (text : PStr) : (run P text).flag ≠ .stuck := by
  unfold run
  simp only
  split
  · exact goahead_not_stuck P true _
  · exact goahead_not_stuck P false _

end BS.Tokenizer
