import BSModel.Model.WriterText
import BSModel.Proofs.WriterAdapter
import BSModel.Proofs.BuilderRefine
import BSModel.Proofs.BuilderText
/-! The adapter and the builder cannot tell how character data is cut into `data` callbacks: `adapterBuild` of two
callback streams that agree after `mergeData` is the same. -/
namespace BS.WriterText
open BS.Builder BS.Adapter BS.Writer

theorem adapterBuild_chunk (bcfg : Cfg) (acfg : ACfg) (hc : CfgOK bcfg) (X Y : List SEv) (a b : PStr) :
    adapterBuild bcfg acfg (X ++ .data a :: .data b :: Y) = adapterBuild bcfg acfg (X ++ .data (a ++ b) :: Y) := by
  simp only [adapterBuild, toEvents, arun_append, arun_cons, astep]
  refine Prod.ext ?_ ?_
  · simp only
    rw [build_eq_buildSpec hc, build_eq_buildSpec hc]
    have := buildSpec_chunking bcfg (arun (astep acfg) ⟨[]⟩ X).1 (arun (astep acfg) (afinal acfg ⟨[]⟩ X) Y).1 a b
    simpa [List.append_assoc] using this
  · simp

theorem adapterBuild_mergeData (bcfg : Cfg) (acfg : ACfg) (hc : CfgOK bcfg) : ∀ (ys X : List SEv),
    adapterBuild bcfg acfg (X ++ mergeData ys) = adapterBuild bcfg acfg (X ++ ys) := by
  intro ys
  induction ys with
  | nil => intro X; rfl
  | cons e rest ih =>
    intro X
    have hgen : adapterBuild bcfg acfg (X ++ e :: mergeData rest) = adapterBuild bcfg acfg (X ++ e :: rest) := by
      have := ih (X ++ [e])
      simpa [List.append_assoc] using this
    cases e with
    | data a =>
      cases hm : mergeData rest with
      | nil =>
        have : mergeData (.data a :: rest) = .data a :: mergeData rest := by simp [mergeData, hm]
        rw [this]; exact hgen
      | cons e2 r =>
        cases e2 with
        | data b =>
          have : mergeData (.data a :: rest) = .data (a ++ b) :: r := by simp [mergeData, hm]
          rw [this, ← adapterBuild_chunk bcfg acfg hc X r a b, ← hm]
          exact hgen
        | _ =>
          (have : mergeData (.data a :: rest) = .data a :: mergeData rest := by simp [mergeData, hm]
           rw [this]; exact hgen)
    | _ =>
      (have : ∀ e', mergeData (e' :: rest) = (match e', mergeData rest with
          | .data a, .data b :: r => .data (a ++ b) :: r
          | e, r => e :: r) := fun _ => rfl
       rw [this]; exact hgen)

/-- **the chunking of character data is invisible to adapter and builder** -/
theorem adapterBuild_congr (bcfg : Cfg) (acfg : ACfg) (hc : CfgOK bcfg) (xs ys : List SEv) (h : mergeData xs = mergeData ys) :
    adapterBuild bcfg acfg xs = adapterBuild bcfg acfg ys := by
  have h1 := adapterBuild_mergeData bcfg acfg hc xs []
  have h2 := adapterBuild_mergeData bcfg acfg hc ys []
  simp only [List.nil_append] at h1 h2
  rw [← h1, ← h2, h]

end BS.WriterText
