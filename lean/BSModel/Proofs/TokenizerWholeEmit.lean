import BSModel.Proofs.TokenizerWholeToks
/-! The writer's tokens against `Writer.emit`: all tokens of a `Writable` document are `Good`; the callbacks the
tokenizer makes for them are `emit`'s up to data chunking, with the positions the text gives the start tags. -/
namespace BS.WriterText
open BS.Writer BS.Tokenizer BS.SourcePos BS.Adapter

/-! ### every token of a writable document is good -/

theorem good_flushLit (P : Params) (cur : PStr) (h : ∀ x ∈ cur, isPlain x = true) : ∀ t ∈ flushLitTok cur, Good P t := by
  intro t ht
  simp only [flushLitTok] at ht
  split at ht
  · simp at ht
  · simp only [List.mem_singleton] at ht; subst ht; exact h

theorem good_charToks (P : Params) (sp : Nat → CharSp) : ∀ (s : PStr) (i : Nat) (cur : PStr),
    (∀ x ∈ cur, isPlain x = true) → charsWritable sp i s = true → ∀ t ∈ charToks sp i cur s, Good P t := by
  intro s
  induction s with
  | nil => intro i cur hc _ t ht; exact good_flushLit P cur hc t (by simpa [charToks] using ht)
  | cons ch rest ih =>
    intro i cur hc hw t ht
    simp only [charsWritable, Bool.and_eq_true] at hw
    obtain ⟨hw1, hw2⟩ := hw
    simp only [charToks] at ht
    cases hsp : sp i with
    | lit cut =>
      rw [hsp] at ht hw1
      have hpl : isPlain ch = true := by
        simp only [charWritable, Bool.and_eq_true, bne_iff_ne, ne_eq] at hw1
        simp [isPlain, hw1.1, hw1.2]
      simp only at ht
      split at ht
      · rcases List.mem_append.mp ht with h | h
        · exact good_flushLit P cur hc t h
        · exact ih (i + 1) [ch] (by simpa using hpl) hw2 t h
      · exact ih (i + 1) (cur ++ [ch]) (by
          intro x hx
          rcases List.mem_append.mp hx with h | h
          · exact hc x h
          · simp at h; subst h; exact hpl) hw2 t ht
    | dec z =>
      rw [hsp] at ht
      simp only [List.mem_append, List.mem_cons] at ht
      rcases ht with h | rfl | h
      · exact good_flushLit P cur hc t h
      · exact good_dec P z ch
      · exact ih (i + 1) [] (by simp) hw2 t h
    | hex ux ud z =>
      rw [hsp] at ht
      simp only [List.mem_append, List.mem_cons] at ht
      rcases ht with h | rfl | h
      · exact good_flushLit P cur hc t h
      · exact good_hex P ux ud z ch
      · exact ih (i + 1) [] (by simp) hw2 t h
    | named nm =>
      rw [hsp] at ht hw1
      simp only [List.mem_append, List.mem_cons] at ht
      rcases ht with h | rfl | h
      · exact good_flushLit P cur hc t h
      · exact good_eref P nm (by simpa [charWritable] using hw1)
      · exact ih (i + 1) [] (by simp) hw2 t h

theorem good_special (P : Params) (k : Kind) (up : Nat → Bool) (s : PStr) (h : specialWritable k s = true) :
    Good P (specialWTok k up s) := by
  cases k with
  | comment =>
    simp only [specialWritable, Bool.or_eq_true, Bool.not_eq_true'] at h
    exact good_comment P up s (h.imp (mem_of_contains_false s 62) (mem_of_contains_false s 45))
  | cdata => exact good_cdata P up s (mem_of_contains_false s 62 (by simpa [specialWritable] using h))
  | doctype => exact good_doctype P up s (mem_of_contains_false s 62 (by simpa [specialWritable] using h))
  | decl =>
    simp only [specialWritable, Bool.and_eq_true, Bool.not_eq_true'] at h
    exact good_decl P up s (mem_of_contains_false s 62 h.1) h.2
  | pi => exact good_pi P up s (mem_of_contains_false s 62 (by simpa [specialWritable] using h))

mutual
theorem good_wtoks (P : Params) (hP : ParamsOK P) (iv : BS.Builder.Name → Bool) (c : Choices) : ∀ (d : WDoc) (p : Path),
    writable iv c p d = true → ∀ t ∈ wtoks iv c p d, Good P t
  | .text s, p, hw, t, ht => by
    simp only [writable] at hw
    simp only [wtoks] at ht
    exact good_charToks P (c.char p) s 0 [] (by simp) hw t ht
  | .special k s, p, hw, t, ht => by
    simp only [writable] at hw
    simp only [wtoks, List.mem_singleton] at ht
    subst ht
    exact good_special P k _ s hw
  | .elem n a ks, p, hw, t, ht => by
    simp only [writable, Bool.and_eq_true, Bool.not_eq_true', List.all_eq_true, Bool.or_eq_true] at hw
    obtain ⟨⟨⟨hn, hcd⟩, ha⟩, hk⟩ := hw
    have hopen : ∀ sl, Good P (openTok p n a sl) := fun sl => good_open P hP p n a sl hn hcd ha
    have hclose : Good P (closeTok n) := good_close P hP n hn
    simp only [wtoks] at ht
    split at ht
    · split at ht
      · simp only [List.mem_singleton] at ht; subst ht; exact hopen false
      · simp only [List.mem_singleton] at ht; subst ht; exact hopen true
      · simp only [List.mem_cons, List.not_mem_nil, or_false] at ht
        rcases ht with rfl | rfl
        · exact hopen false
        · exact hclose
    · rename_i hv
      have hkids : writableL iv c p 0 ks = true := by
        rcases hk with h | h
        · exact absurd h hv
        · exact h
      simp only [List.mem_cons, List.mem_append, List.not_mem_nil, or_false] at ht
      rcases ht with rfl | h | rfl
      · exact hopen false
      · exact good_wtoksL P hP iv c ks p 0 hkids t h
      · exact hclose
theorem good_wtoksL (P : Params) (hP : ParamsOK P) (iv : BS.Builder.Name → Bool) (c : Choices) :
    ∀ (ds : List WDoc) (p : Path) (i : Nat), writableL iv c p i ds = true → ∀ t ∈ wtoksL iv c p i ds, Good P t
  | [], _, _, _, t, ht => by simp [wtoksL] at ht
  | d :: ds, p, i, hw, t, ht => by
    simp only [writableL, Bool.and_eq_true] at hw
    simp only [wtoksL, List.mem_append] at ht
    rcases ht with h | h
    · exact good_wtoks P hP iv c d (i :: p) hw.1 t h
    · exact good_wtoksL P hP iv c ds p (i + 1) hw.2 t h
end

/-! ### the callbacks of a token sequence, chunked as the writer thinks of them -/

/-- the adapter-level callback of a tokenizer callback made at `pos` -/
def sevOf (k : Tok) (pos : Nat × Nat) : List SEv := (toSEv ⟨k, [], pos⟩).toList

/-- one callback per markup token (start tags stamped with the position of the text before them), one `data` per
    literal token -/
def tokEvs : PStr → List WTok → List SEv
  | _, [] => []
  | pre, t :: ts =>
    (match t.tok with
     | none => flushLit t.text
     | some k => sevOf k (posOf pre)) ++ tokEvs (pre ++ t.text) ts

theorem tokEvs_append : ∀ (a b : List WTok) (pre : PStr), tokEvs pre (a ++ b) = tokEvs pre a ++ tokEvs (pre ++ textOf a) b := by
  intro a
  induction a with
  | nil => intro b pre; simp [tokEvs, textOf]
  | cons t ts ih => intro b pre; simp only [List.cons_append, tokEvs, ih, textOf_cons, List.append_assoc]

/-- `q` gives every start tag of the sequence the position of the text before it -/
def PosAgree (q : Path → Nat × Nat) : PStr → List WTok → Prop
  | _, [] => True
  | pre, t :: ts => (isOpenTok t = true → q t.path = posOf pre) ∧ PosAgree q (pre ++ t.text) ts

theorem PosAgree_append (q : Path → Nat × Nat) : ∀ (a b : List WTok) (pre : PStr),
    PosAgree q pre (a ++ b) ↔ PosAgree q pre a ∧ PosAgree q (pre ++ textOf a) b := by
  intro a
  induction a with
  | nil => intro b pre; simp [PosAgree, textOf]
  | cons t ts ih => intro b pre; simp only [List.cons_append, PosAgree, ih, textOf_cons, List.append_assoc, and_assoc]

theorem tokEvs_flushLit (pre cur : PStr) : tokEvs pre (flushLitTok cur) = flushLit cur := by
  simp only [flushLitTok, flushLit]
  split <;> simp [tokEvs, litTok, flushLit, *]

theorem tokEvs_charToks (sp : Nat → CharSp) : ∀ (s : PStr) (i : Nat) (cur pre : PStr),
    tokEvs pre (charToks sp i cur s) = emitChars sp i cur s := by
  intro s
  induction s with
  | nil => intro i cur pre; simp [charToks, emitChars, tokEvs_flushLit]
  | cons ch rest ih =>
    intro i cur pre
    simp only [charToks, emitChars]
    cases sp i with
    | lit cut =>
      simp only
      split
      · rw [tokEvs_append, tokEvs_flushLit, ih]
      · rw [ih]
    | dec z => rw [tokEvs_append, tokEvs_flushLit]; simp [tokEvs, crefTok, sevOf, toSEv, ih]
    | hex ux ud z => rw [tokEvs_append, tokEvs_flushLit]; simp [tokEvs, crefTok, sevOf, toSEv, ih]
    | named nm => rw [tokEvs_append, tokEvs_flushLit]; simp [tokEvs, erefTok, sevOf, toSEv, ih]

theorem sevOf_special (k : Kind) (up : Nat → Bool) (s : PStr) (pos : Nat × Nat) :
    sevOf (specialTok k up s) pos = [specialEv k up s] := by
  cases k <;> rfl

mutual
theorem tokEvs_wtoks (iv : BS.Builder.Name → Bool) (c : Choices) (q : Path → Nat × Nat) : ∀ (d : WDoc) (p : Path) (pre : PStr),
    PosAgree q pre (wtoks iv c p d) → tokEvs pre (wtoks iv c p d) = emit iv { c with pos := q } p d
  | .text s, p, pre, _ => by simp only [wtoks, emit]; exact tokEvs_charToks _ s 0 [] pre
  | .special k s, p, pre, _ => by simp [wtoks, emit, tokEvs, specialWTok, sevOf_special]
  | .elem n a ks, p, pre, h => by
    simp only [wtoks] at h
    simp only [wtoks, emit]
    by_cases hiv : iv n = true
    · simp only [hiv, if_true] at h ⊢
      cases hv : c.void p with
      | plain =>
        simp only [hv, PosAgree] at h
        have := h.1 rfl
        simp only [openTok] at this
        simp [tokEvs, openTok, sevOf, toSEv, this]
      | slash =>
        simp only [hv, PosAgree] at h
        have := h.1 rfl
        simp only [openTok] at this
        simp [tokEvs, openTok, sevOf, toSEv, this]
      | pair =>
        simp only [hv, PosAgree] at h
        have := h.1 rfl
        simp only [openTok] at this
        simp [tokEvs, openTok, closeTok, sevOf, toSEv, this]
    · simp only [hiv, Bool.false_eq_true, if_false, PosAgree] at h ⊢
      have hq := h.1 rfl
      simp only [openTok] at hq
      have hk := ((PosAgree_append q _ _ _).mp h.2).1
      have ih := tokEvs_wtoksL iv c q ks p 0 _ hk
      simp only [tokEvs, tokEvs_append, ih]
      simp [openTok, closeTok, sevOf, toSEv, hq, tokEvs]
theorem tokEvs_wtoksL (iv : BS.Builder.Name → Bool) (c : Choices) (q : Path → Nat × Nat) :
    ∀ (ds : List WDoc) (p : Path) (i : Nat) (pre : PStr),
    PosAgree q pre (wtoksL iv c p i ds) → tokEvs pre (wtoksL iv c p i ds) = emitL iv { c with pos := q } p i ds
  | [], _, _, _, _ => by simp [wtoksL, emitL, tokEvs]
  | d :: ds, p, i, pre, h => by
    simp only [wtoksL] at h ⊢
    obtain ⟨h1, h2⟩ := (PosAgree_append q _ _ _).mp h
    simp only [emitL, tokEvs_append, tokEvs_wtoks iv c q d (i :: p) pre h1, tokEvs_wtoksL iv c q ds p (i + 1) _ h2]
end

/-! ### what the tokenizer reports is `tokEvs` up to data chunking -/

theorem mergeData_cons_congr (e : SEv) (x y : List SEv) (h : mergeData x = mergeData y) :
    mergeData (e :: x) = mergeData (e :: y) := by
  simp only [mergeData, h]

theorem mergeData_append_congr : ∀ (xs x y : List SEv), mergeData x = mergeData y → mergeData (xs ++ x) = mergeData (xs ++ y) := by
  intro xs
  induction xs with
  | nil => intro x y h; simpa using h
  | cons e es ih => intro x y h; exact mergeData_cons_congr e _ _ (ih x y h)

theorem mergeData_data_data (a b : PStr) (X : List SEv) :
    mergeData (.data a :: .data b :: X) = mergeData (.data (a ++ b) :: X) := by
  simp only [mergeData]
  cases mergeData X with
  | nil => rfl
  | cons e r => cases e <;> simp [List.append_assoc]

theorem mergeData_flushLit (a b : PStr) (X : List SEv) :
    mergeData (flushLit (a ++ b) ++ X) = mergeData (flushLit a ++ (flushLit b ++ X)) := by
  by_cases ha : a = []
  · subst ha; simp [flushLit]
  · by_cases hb : b = []
    · subst hb; simp [flushLit]
    · have h1 : a.isEmpty = false := by cases a <;> simp_all
      have h2 : b.isEmpty = false := by cases b <;> simp_all
      have h3 : (a ++ b).isEmpty = false := by cases a <;> simp_all
      simp only [flushLit, h1, h2, h3, Bool.false_eq_true, if_false, List.singleton_append]
      exact (mergeData_data_data a b X).symm

theorem toSEv_src (k : Tok) (s : PStr) (pos : Nat × Nat) : toSEv ⟨k, s, pos⟩ = toSEv ⟨k, [], pos⟩ := by
  cases k <;> rfl

theorem filterMap_dataEv (pre l : PStr) : (dataEv pre l).filterMap toSEv = flushLit l := by
  simp only [dataEv, flushLit]
  split <;> simp [toSEv]

theorem filterMap_cons_toList (e : Tokenizer.Ev) (es : List Tokenizer.Ev) :
    (e :: es).filterMap toSEv = (toSEv e).toList ++ es.filterMap toSEv := by
  simp only [List.filterMap_cons]
  cases toSEv e <;> rfl

theorem callbacks_runToks : ∀ (ts : List WTok) (pre l : PStr),
    mergeData ((runToks pre l ts).filterMap toSEv) = mergeData (flushLit l ++ tokEvs (pre ++ l) ts) := by
  intro ts
  induction ts with
  | nil => intro pre l; simp [runToks, tokEvs, filterMap_dataEv]
  | cons t ts ih =>
    intro pre l
    cases htok : t.tok with
    | none =>
      simp only [runToks, htok, tokEvs]
      rw [ih pre (l ++ t.text), mergeData_flushLit, List.append_assoc]
    | some k =>
      simp only [runToks, htok, tokEvs, List.filterMap_append, filterMap_cons_toList, filterMap_dataEv]
      rw [toSEv_src]
      show mergeData (flushLit l ++ (sevOf k (posOf (pre ++ l)) ++ _)) = _
      apply mergeData_append_congr
      apply mergeData_append_congr
      have := ih (pre ++ l ++ t.text) []
      simpa [flushLit] using this

end BS.WriterText
