import BSModel.Proofs.TokenizerWholeEmit
/-! The positions read off the text (`derivedPos`) are the positions the tokenizer reports: no two start tags of a
document belong to the same path, so the lookup by path finds each tag's own offset. -/
namespace BS.WriterText
open BS.Writer BS.Tokenizer BS.SourcePos BS.Adapter

/-- two tokens are not start tags of the same path -/
def Apart (x y : WTok) : Prop := isOpenTok x = true → isOpenTok y = true → x.path ≠ y.path

/-- no two start tags of the sequence belong to the same path -/
def Distinct (ts : List WTok) : Prop := List.Pairwise Apart ts

theorem offsetOf_first (p : Path) : ∀ (a : List WTok) (t : WTok) (b : List WTok) (o : Nat), isOpenTok t = true → t.path = p →
    (∀ t' ∈ a, isOpenTok t' = true → t'.path ≠ p) → offsetOf p o (a ++ t :: b) = some (o + (textOf a).length) := by
  intro a
  induction a with
  | nil => intro t b o ho hp _; simp [offsetOf, ho, hp, textOf]
  | cons x a' ih =>
    intro t b o ho hp ha
    have hx : (isOpenTok x && x.path == p) = false := by
      cases hxo : isOpenTok x with
      | false => rfl
      | true => simpa using ha x (by simp) hxo
    simp only [List.cons_append, offsetOf, hx, Bool.false_eq_true, if_false]
    rw [ih t b _ ho hp (fun t' ht' => ha t' (by simp [ht']))]
    simp only [textOf_cons, List.length_append]
    congr 1; omega

theorem posAgree_of_distinct (ts : List WTok) (hd : Distinct ts) : ∀ (b a : List WTok), ts = a ++ b →
    PosAgree (fun p => match offsetOf p 0 ts with | some o => lineCol (textOf ts) o | none => (0, 0)) (textOf a) b := by
  intro b
  induction b with
  | nil => intro a _; trivial
  | cons t b' ih =>
    intro a hts
    refine ⟨?_, ?_⟩
    · intro ho
      have hap : ∀ t' ∈ a, isOpenTok t' = true → t'.path ≠ t.path := by
        intro t' ht' ho'
        rw [hts] at hd
        have := (List.pairwise_append.mp hd).2.2 t' ht' t (by simp)
        exact this ho' ho
      have hoff := offsetOf_first t.path a t b' 0 ho rfl hap
      rw [← hts] at hoff
      simp only [hoff, Nat.zero_add]
      rw [hts, textOf_append]
      exact lineCol_prefix _ _
    · have := ih (a ++ [t]) (by simp [hts])
      simpa [textOf_append, textOf_cons, textOf_nil] using this

/-! ### where the start tags of a document sit: paths -/

theorem flushLitTok_noOpen (cur : PStr) : ∀ t ∈ flushLitTok cur, isOpenTok t = false := by
  intro t ht
  simp only [flushLitTok] at ht
  split at ht
  · simp at ht
  · simp only [List.mem_singleton] at ht; subst ht; rfl

theorem charToks_noOpen (sp : Nat → CharSp) : ∀ (s : PStr) (i : Nat) (cur : PStr), ∀ t ∈ charToks sp i cur s, isOpenTok t = false := by
  intro s
  induction s with
  | nil => intro i cur t ht; exact flushLitTok_noOpen cur t (by simpa [charToks] using ht)
  | cons ch rest ih =>
    intro i cur t ht
    simp only [charToks] at ht
    cases hsp : sp i with
    | lit cut =>
      rw [hsp] at ht
      simp only at ht
      split at ht
      · rcases List.mem_append.mp ht with h | h
        · exact flushLitTok_noOpen cur t h
        · exact ih _ _ t h
      · exact ih _ _ t ht
    | dec z =>
      rw [hsp] at ht
      simp only [List.mem_append, List.mem_cons] at ht
      rcases ht with h | rfl | h
      · exact flushLitTok_noOpen cur t h
      · rfl
      · exact ih _ _ t h
    | hex ux ud z =>
      rw [hsp] at ht
      simp only [List.mem_append, List.mem_cons] at ht
      rcases ht with h | rfl | h
      · exact flushLitTok_noOpen cur t h
      · rfl
      · exact ih _ _ t h
    | named nm =>
      rw [hsp] at ht
      simp only [List.mem_append, List.mem_cons] at ht
      rcases ht with h | rfl | h
      · exact flushLitTok_noOpen cur t h
      · rfl
      · exact ih _ _ t h

theorem specialWTok_noOpen (k : Kind) (up : Nat → Bool) (s : PStr) : isOpenTok (specialWTok k up s) = false := by
  cases k <;> rfl

theorem distinct_of_noOpen (ts : List WTok) (h : ∀ t ∈ ts, isOpenTok t = false) : Distinct ts := by
  induction ts with
  | nil => exact List.Pairwise.nil
  | cons t ts ih =>
    refine List.Pairwise.cons ?_ (ih (fun t' ht' => h t' (by simp [ht'])))
    intro y _ ho
    rw [h t (by simp)] at ho; cases ho

theorem path_suffix_inj (k k' : Path) (i j : Nat) (p : Path) (h : k ++ i :: p = k' ++ j :: p) : i = j := by
  have h' : (k ++ [i]) ++ p = (k' ++ [j]) ++ p := by simpa using h
  have h2 := List.append_cancel_right h'
  have := (List.append_inj' h2 rfl).2
  simpa using this

mutual
theorem path_wtoks (iv : BS.Builder.Name → Bool) (c : Choices) : ∀ (d : WDoc) (p : Path), ∀ t ∈ wtoks iv c p d,
    isOpenTok t = true → ∃ k, t.path = k ++ p
  | .text s, p, t, ht, ho => by
    simp only [wtoks] at ht
    rw [charToks_noOpen _ s 0 [] t ht] at ho; cases ho
  | .special k s, p, t, ht, ho => by
    simp only [wtoks, List.mem_singleton] at ht
    subst ht
    rw [specialWTok_noOpen] at ho; cases ho
  | .elem n a ks, p, t, ht, ho => by
    simp only [wtoks] at ht
    split at ht
    · split at ht
      · simp only [List.mem_singleton] at ht; subst ht; exact ⟨[], rfl⟩
      · simp only [List.mem_singleton] at ht; subst ht; exact ⟨[], rfl⟩
      · simp only [List.mem_cons, List.not_mem_nil, or_false] at ht
        rcases ht with rfl | rfl
        · exact ⟨[], rfl⟩
        · cases ho
    · simp only [List.mem_cons, List.mem_append, List.not_mem_nil, or_false] at ht
      rcases ht with rfl | h | rfl
      · exact ⟨[], rfl⟩
      · obtain ⟨k, j, hk, _⟩ := path_wtoksL iv c ks p 0 t h ho
        exact ⟨k ++ [j], by simp [hk]⟩
      · cases ho
theorem path_wtoksL (iv : BS.Builder.Name → Bool) (c : Choices) : ∀ (ds : List WDoc) (p : Path) (i : Nat),
    ∀ t ∈ wtoksL iv c p i ds, isOpenTok t = true → ∃ k j, t.path = k ++ j :: p ∧ i ≤ j
  | [], _, _, t, ht, _ => by simp [wtoksL] at ht
  | d :: ds, p, i, t, ht, ho => by
    simp only [wtoksL, List.mem_append] at ht
    rcases ht with h | h
    · obtain ⟨k, hk⟩ := path_wtoks iv c d (i :: p) t h ho
      exact ⟨k, i, hk, Nat.le_refl i⟩
    · obtain ⟨k, j, hk, hj⟩ := path_wtoksL iv c ds p (i + 1) t h ho
      exact ⟨k, j, hk, by omega⟩
end

mutual
theorem distinct_wtoks (iv : BS.Builder.Name → Bool) (c : Choices) : ∀ (d : WDoc) (p : Path), Distinct (wtoks iv c p d)
  | .text s, p => by simp only [wtoks]; exact distinct_of_noOpen _ (charToks_noOpen _ s 0 [])
  | .special k s, p => by
    simp only [wtoks]
    exact distinct_of_noOpen _ (by intro t ht; simp only [List.mem_singleton] at ht; subst ht; exact specialWTok_noOpen k _ s)
  | .elem n a ks, p => by
    have hclose : ∀ x : WTok, Apart x (closeTok n) := by intro x _ ho; cases ho
    simp only [wtoks]
    split
    · split
      · exact List.pairwise_singleton _ _
      · exact List.pairwise_singleton _ _
      · exact List.Pairwise.cons (by intro y hy; simp only [List.mem_singleton] at hy; subst hy; exact hclose _)
          (List.pairwise_singleton _ _)
    · refine List.Pairwise.cons ?_ ?_
      · intro y hy
        simp only [List.mem_append, List.mem_singleton] at hy
        rcases hy with h | rfl
        · intro _ hoy hp
          obtain ⟨k, j, hk, _⟩ := path_wtoksL iv c ks p 0 y h hoy
          have : (openTok p n a false).path = p := rfl
          rw [this, hk] at hp
          have := congrArg List.length hp
          simp at this; omega
        · exact hclose _
      · refine List.pairwise_append.mpr ⟨distinct_wtoksL iv c ks p 0, List.pairwise_singleton _ _, ?_⟩
        intro x _ y hy
        simp only [List.mem_singleton] at hy; subst hy; exact hclose x
theorem distinct_wtoksL (iv : BS.Builder.Name → Bool) (c : Choices) : ∀ (ds : List WDoc) (p : Path) (i : Nat),
    Distinct (wtoksL iv c p i ds)
  | [], _, _ => by simp only [wtoksL]; exact List.Pairwise.nil
  | d :: ds, p, i => by
    simp only [wtoksL]
    refine List.pairwise_append.mpr ⟨distinct_wtoks iv c d (i :: p), distinct_wtoksL iv c ds p (i + 1), ?_⟩
    intro x hx y hy hox hoy hp
    obtain ⟨k, hk⟩ := path_wtoks iv c d (i :: p) x hx hox
    obtain ⟨k', j, hk', hj⟩ := path_wtoksL iv c ds p (i + 1) y hy hoy
    rw [hk, hk'] at hp
    have := path_suffix_inj k k' i j p hp
    omega
end

/-- **the positions read off the text agree with the text**: `derivedPos` gives every start tag the line/column of the
    text written before it -/
theorem derivedPos_agrees (iv : BS.Builder.Name → Bool) (c : Choices) (ds : List WDoc) :
    PosAgree (derivedPos iv c ds) [] (wtoksL iv c [] 0 ds) := by
  have := posAgree_of_distinct (wtoksL iv c [] 0 ds) (distinct_wtoksL iv c ds [] 0) (wtoksL iv c [] 0 ds) [] rfl
  exact this

/-! ### at the derived offsets the text has a `<` -/

theorem offsetOf_some (p : Path) : ∀ (ts : List WTok) (o o' : Nat), offsetOf p o ts = some o' →
    ∃ a t b, ts = a ++ t :: b ∧ isOpenTok t = true ∧ o' = o + (textOf a).length := by
  intro ts
  induction ts with
  | nil => intro o o' h; simp [offsetOf] at h
  | cons x ts ih =>
    intro o o' h
    simp only [offsetOf] at h
    split at h
    · rename_i hc
      simp only [Option.some.injEq] at h
      simp only [Bool.and_eq_true] at hc
      exact ⟨[], x, ts, rfl, hc.1, by simp [textOf, h]⟩
    · obtain ⟨a, t, b, hts, ho, ho'⟩ := ih _ _ h
      exact ⟨x :: a, t, b, by simp [hts], ho, by simp only [textOf_cons, List.length_append]; omega⟩

mutual
theorem open_head_wtoks (iv : BS.Builder.Name → Bool) (c : Choices) : ∀ (d : WDoc) (p : Path), ∀ t ∈ wtoks iv c p d,
    isOpenTok t = true → t.text.head? = some 60
  | .text s, p, t, ht, ho => by
    simp only [wtoks] at ht
    rw [charToks_noOpen _ s 0 [] t ht] at ho; cases ho
  | .special k s, p, t, ht, ho => by
    simp only [wtoks, List.mem_singleton] at ht
    subst ht
    rw [specialWTok_noOpen] at ho; cases ho
  | .elem n a ks, p, t, ht, ho => by
    have hopen : ∀ sl, (openTok p n a sl).text.head? = some 60 := fun sl => by simp [openTok, openText]
    simp only [wtoks] at ht
    split at ht
    · split at ht
      · simp only [List.mem_singleton] at ht; subst ht; exact hopen false
      · simp only [List.mem_singleton] at ht; subst ht; exact hopen true
      · simp only [List.mem_cons, List.not_mem_nil, or_false] at ht
        rcases ht with rfl | rfl
        · exact hopen false
        · cases ho
    · simp only [List.mem_cons, List.mem_append, List.not_mem_nil, or_false] at ht
      rcases ht with rfl | h | rfl
      · exact hopen false
      · exact open_head_wtoksL iv c ks p 0 t h ho
      · cases ho
theorem open_head_wtoksL (iv : BS.Builder.Name → Bool) (c : Choices) : ∀ (ds : List WDoc) (p : Path) (i : Nat),
    ∀ t ∈ wtoksL iv c p i ds, isOpenTok t = true → t.text.head? = some 60
  | [], _, _, t, ht, _ => by simp [wtoksL] at ht
  | d :: ds, p, i, t, ht, ho => by
    simp only [wtoksL, List.mem_append] at ht
    rcases ht with h | h
    · exact open_head_wtoks iv c d (i :: p) t h ho
    · exact open_head_wtoksL iv c ds p (i + 1) t h ho
end

/-- the offset `derivedPos` uses for a path is an offset of the text at which a `<` stands -/
theorem derived_offset_lt (iv : BS.Builder.Name → Bool) (c : Choices) (ds : List WDoc) (p : Path) (o : Nat)
    (h : offsetOf p 0 (wtoksL iv c [] 0 ds) = some o) :
    (writeText iv c ds)[o]? = some 60 ∧ derivedPos iv c ds p = lineCol (writeText iv c ds) o := by
  refine ⟨?_, by simp [derivedPos, h]⟩
  obtain ⟨a, t, b, hts, ho, ho'⟩ := offsetOf_some p _ 0 o h
  have hhead := open_head_wtoksL iv c ds [] 0 t (by rw [hts]; simp) ho
  simp only [writeText, hts, textOf_append, textOf_cons]
  rw [ho', Nat.zero_add, List.getElem?_append_right (Nat.le_refl _), Nat.sub_self]
  cases htt : t.text with
  | nil => rw [htt] at hhead; simp at hhead
  | cons x xs => rw [htt] at hhead; simpa using hhead

/-! ### `ParamsOK` is satisfiable: a concrete inverse of `escAttr`, and ASCII lower-casing -/

/-- `html.unescape` restricted to what the writer's attribute escaping produces -/
def unescSimple : PStr → PStr
  | 38 :: 97 :: 109 :: 112 :: 59 :: t => 38 :: unescSimple t
  | 38 :: 113 :: 117 :: 111 :: 116 :: 59 :: t => 34 :: unescSimple t
  | c :: t => c :: unescSimple t
  | [] => []

theorem unescSimple_escAttr (v : PStr) : unescSimple (escAttr v) = v := by
  induction v with
  | nil => simp [escAttr, unescSimple]
  | cons ch t ih =>
    have hesc : escAttr (ch :: t) = (if ch == 38 then [38, 97, 109, 112, 59] else if ch == 34 then [38, 113, 117, 111, 116, 59] else [ch]) ++ escAttr t := by
      simp [escAttr]
    rw [hesc]
    by_cases h1 : ch = 38
    · subst h1; simp [unescSimple]; exact ih
    · by_cases h2 : ch = 34
      · subst h2; simp [unescSimple]; exact ih
      · have e1 : (ch == 38) = false := by simpa using h1
        have e2 : (ch == 34) = false := by simpa using h2
        simp only [e1, e2, Bool.false_eq_true, if_false, List.singleton_append]
        rw [unescSimple]
        · rw [ih]
        all_goals (intros; first | exact absurd ‹ch = 38› h1 | simp_all)

theorem asciiLower_nameOK (n : PStr) (h : nameOK n = true) : asciiLower n = n := by
  have hall : ∀ x ∈ n, isUpper x = false := by
    cases n with
    | nil => simp [nameOK] at h
    | cons c t =>
      simp only [nameOK, Bool.and_eq_true, List.all_eq_true] at h
      intro x hx
      simp only [List.mem_cons] at hx
      rcases hx with rfl | hx
      · have := h.1; simp [isLowerB] at this; simp [isUpper]; omega
      · have := h.2 x hx
        simp [isNameChB, isLowerB, isDigit] at this
        simp [isUpper]; omega
  simp only [asciiLower]
  conv => rhs; rw [← List.map_id n]
  apply List.map_congr_left
  intro x hx
  simp [asciiLowerC, hall x hx]

/-- ASCII lower-casing and `unescSimple` satisfy `ParamsOK` -/
theorem paramsOK_simple : ParamsOK { unescape := unescSimple, lower := asciiLower } :=
  ⟨asciiLower_nameOK, fun v _ => unescSimple_escAttr v⟩

end BS.WriterText
