import BSModel.Model.WriterText
import BSModel.Proofs.TokenizerTags
import BSModel.Proofs.TokenizerRoundAttrs
/-! The tokenizer on a sequence of well-formed tokens: every token whose `chooseAct` is as intended (`Good`) is consumed
whole and reported by its callback, literal data in between is reported in maximal chunks (`runToks`). -/
namespace BS.WriterText
open BS.Writer BS.Tokenizer BS.SourcePos

/-- a token is good for the tokenizer (outside CDATA mode, during `feed`): literal data contains no `&`/`<`; a markup
    token begins with `<` or `&` and, whatever follows it, is consumed whole with exactly its callback -/
def Good (P : Params) (t : WTok) : Prop :=
  match t.tok with
  | none => ∀ x ∈ t.text, isPlain x = true
  | some k => (t.text.head? = some 60 ∨ t.text.head? = some 38) ∧
      ∀ rest, chooseAct P false none (t.text ++ rest) = .adv k t.text.length none true

def dataEv (pre l : PStr) : List Ev := if l.isEmpty then [] else [⟨.data l, l, posOf pre⟩]

/-- what the tokenizer reports for a token sequence; `l` = literal data already seen but not yet reported -/
def runToks : PStr → PStr → List WTok → List Ev
  | pre, l, [] => dataEv pre l
  | pre, l, t :: ts =>
    match t.tok with
    | none => runToks pre (l ++ t.text) ts
    | some k => dataEv pre l ++ ⟨k, t.text, posOf (pre ++ l)⟩ :: runToks (pre ++ l ++ t.text) [] ts

theorem textOf_cons (t : WTok) (ts : List WTok) : textOf (t :: ts) = t.text ++ textOf ts := by simp [textOf]
theorem textOf_nil : textOf [] = [] := rfl
theorem textOf_append (a b : List WTok) : textOf (a ++ b) = textOf a ++ textOf b := by simp [textOf]

theorem spanLen_plain_stop (l s : PStr) (hl : ∀ x ∈ l, isPlain x = true) (hs : s.head? = some 60 ∨ s.head? = some 38) :
    spanLen isPlain (l ++ s) = l.length := by
  apply spanLen_append_stop _ _ _ hl
  intro c hc
  rcases hs with h | h <;> (rw [h] at hc; simp at hc; subst hc; decide)

theorem spanLen_plain_all (l : PStr) (hl : ∀ x ∈ l, isPlain x = true) : spanLen isPlain l = l.length := by
  simpa using spanLen_append_stop isPlain l [] hl (by simp)

/-- the loop on a good token sequence -/
theorem loop_toks (P : Params) : ∀ (ts : List WTok) (pre l : PStr) (f : Nat), (∀ t ∈ ts, Good P t) →
    (∀ x ∈ l, isPlain x = true) → (l ++ textOf ts).length < f →
    loop P false f ⟨l ++ textOf ts, posOf pre, none⟩ =
      ⟨runToks pre l ts, ⟨[], posOf (pre ++ l ++ textOf ts), none⟩, .ok⟩ := by
  intro ts
  induction ts with
  | nil =>
    intro pre l f _ hl hf
    obtain ⟨f', rfl⟩ : ∃ f', f = f' + 1 := ⟨f - 1, by omega⟩
    simp only [textOf_nil, List.append_nil]
    cases hl0 : l with
    | nil => simp [loop, runToks, dataEv]
    | cons x xs =>
      rw [← hl0]
      have hne : l ≠ [] := by rw [hl0]; simp
      have hsp := spanLen_plain_all l hl
      have hemp : l.isEmpty = false := by cases l <;> simp_all
      have hpos : 0 < l.length := List.length_pos_iff.mpr hne
      unfold loop
      rw [hl0]
      simp only
      rw [← hl0]
      simp only [step, hsp, List.take_length, List.drop_length, List.isEmpty_nil, if_true, hpos, runToks, dataEv, hemp,
        Bool.false_eq_true, if_false, updatepos_posOf]
  | cons t ts ih =>
    intro pre l f hg hl hf
    have hgt := hg t (by simp)
    have hgs : ∀ t' ∈ ts, Good P t' := fun t' h => hg t' (by simp [h])
    cases htok : t.tok with
    | none =>
      simp only [Good, htok] at hgt
      have := ih pre (l ++ t.text) f hgs (by
        intro x hx
        rcases List.mem_append.mp hx with h | h
        · exact hl x h
        · exact hgt x h) (by simpa [textOf_cons, List.append_assoc] using hf)
      simp only [textOf_cons, runToks, htok]
      simpa [List.append_assoc] using this
    | some k =>
      simp only [Good, htok] at hgt
      obtain ⟨hhead, hact⟩ := hgt
      obtain ⟨f', rfl⟩ : ∃ f', f = f' + 1 := ⟨f - 1, by omega⟩
      have htne : t.text ≠ [] := by
        intro h; rw [h] at hhead; simp at hhead
      have hs1head : (t.text ++ textOf ts).head? = some 60 ∨ (t.text ++ textOf ts).head? = some 38 := by
        cases htt : t.text with
        | nil => exact absurd htt htne
        | cons a b => rw [htt] at hhead; simpa using hhead
      have hsp := spanLen_plain_stop l (t.text ++ textOf ts) hl hs1head
      have hsne : l ++ (t.text ++ textOf ts) ≠ [] := by
        cases htt : t.text with
        | nil => exact absurd htt htne
        | cons a b => simp
      have hs1ne : (t.text ++ textOf ts).isEmpty = false := by
        cases htt : t.text with
        | nil => exact absurd htt htne
        | cons a b => simp
      have hlen : 0 < t.text.length := List.length_pos_iff.mpr htne
      have ih' := ih (pre ++ l ++ t.text) [] f' hgs (by simp) (by
        simp only [textOf_cons, List.length_append, List.nil_append] at hf ⊢; omega)
      simp only [List.nil_append, List.append_nil, List.append_assoc] at ih'
      -- one turn of the loop
      have hstep : step P false ⟨l ++ (t.text ++ textOf ts), posOf pre, none⟩ =
          (dataEv pre l ++ [⟨k, t.text, posOf (pre ++ l)⟩], ⟨textOf ts, posOf (pre ++ l ++ t.text), none⟩, none) := by
        simp only [step, hsp, List.take_left, List.drop_left, hs1ne, Bool.false_eq_true, if_false, hact (textOf ts), applyAct,
          updatepos_posOf, if_true, List.append_assoc]
        by_cases hle : l = []
        · subst hle; simp [dataEv]
        · have : 0 < l.length := List.length_pos_iff.mpr hle
          have hemp : l.isEmpty = false := by cases l <;> simp_all
          simp [dataEv, this, hemp]
      simp only [textOf_cons, runToks, htok]
      unfold loop
      cases hss : l ++ (t.text ++ textOf ts) with
      | nil => exact absurd hss hsne
      | cons a b =>
        simp only
        rw [← hss, hstep]
        simp only [ih', List.append_assoc, List.singleton_append]

/-- `feed(text); close()` on a good token sequence: everything is consumed during `feed`, `close()` finds nothing -/
theorem run_toks (P : Params) (ts : List WTok) (hg : ∀ t ∈ ts, Good P t) :
    (run P (textOf ts)).evs = runToks [] [] ts ∧ (run P (textOf ts)).flag = .ok ∧ (run P (textOf ts)).st.s = [] := by
  have h1 := loop_toks P ts [] [] ((textOf ts).length + 1) hg (by simp) (by simp)
  simp only [List.nil_append] at h1
  have hinit : init (textOf ts) = ⟨textOf ts, posOf [], none⟩ := by simp [init, posOf, lineCol]
  have hg1 : goahead P false (init (textOf ts)) = ⟨runToks [] [] ts, ⟨[], posOf (textOf ts), none⟩, .ok⟩ := by
    simp only [goahead, hinit, h1, flush]
    simp
  have hg2 : goahead P true ⟨[], posOf (textOf ts), none⟩ = ⟨[], ⟨[], posOf (textOf ts), none⟩, .ok⟩ := by
    simp [goahead, loop, flush]
  simp only [run, hg1, hg2]
  simp

end BS.WriterText
