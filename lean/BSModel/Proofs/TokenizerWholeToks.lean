import BSModel.Proofs.TokenizerWholeRun
/-! Every token of the writer is `Good`: the tokenizer consumes it whole and reports exactly its callback. -/
namespace BS.WriterText
open BS.Writer BS.Tokenizer BS.SourcePos

/-! ### dispatch -/

theorem actLt_of_parseLt (P : Params) (e : Bool) (cd : Option PStr) (s : PStr) (tok : Tok) (len : Nat) (cd' : Option PStr)
    (h : parseLt P cd s = some (.ok tok len cd')) : actLt P e cd s = .adv tok len cd' true := by
  simp [actLt, h]

theorem chooseAct_lt (P : Params) (e : Bool) (cd : Option PStr) (s : PStr) (h : s.head? = some 60) :
    chooseAct P e cd s = actLt P e cd s := by
  simp [chooseAct, h]

/-! ### bridging the Bool predicates of the model with the predicates of the round-trip lemmas -/

theorem isNameChB_eq (c : Nat) : isNameChB c = isNameCh c := by
  simp [isNameChB, isNameCh, isLowerB, isLower]

theorem nameOK_NameOK (n : PStr) (h : nameOK n = true) : NameOK n := by
  cases n with
  | nil => simp [nameOK] at h
  | cons c t =>
    simp only [nameOK, Bool.and_eq_true, List.all_eq_true] at h
    exact ⟨c, t, rfl, by simpa [isLowerB, isLower] using h.1, fun x hx => by rw [← isNameChB_eq]; exact h.2 x hx⟩

/-- what the proofs need of the two parameters: `str.lower` leaves names of the writer's class alone, and
    `html.unescape` inverts the writer's escaping of attribute values -/
structure ParamsOK (P : Params) : Prop where
  lower : ∀ n, nameOK n = true → P.lower n = n
  unescape : ∀ v : PStr, v ≠ [] → P.unescape (escAttr v) = v

theorem escAttr_nil_iff (v : PStr) : escAttr v = [] ↔ v = [] := by
  cases v with
  | nil => simp [escAttr]
  | cons c t =>
    simp only [escAttr, List.flatMap_cons, reduceCtorEq, iff_false]
    split
    · simp
    · split <;> simp

theorem valOf_escAttr (P : Params) (hP : ParamsOK P) (v : PStr) : valOf P (escAttr v) = v := by
  by_cases hv : v = []
  · subst hv; simp [valOf, escAttr]
  · have : (escAttr v).isEmpty = false := by
      cases h : escAttr v with
      | nil => exact absurd ((escAttr_nil_iff v).mp h) hv
      | cons _ _ => rfl
    simp [valOf, this, hP.unescape v hv]

theorem escAttr_noquote (v : PStr) : ∀ x ∈ escAttr v, x ≠ 34 := by
  induction v with
  | nil => simp [escAttr]
  | cons c t ih =>
    intro x hx
    simp only [escAttr, List.flatMap_cons, List.mem_append] at hx
    rcases hx with hx | hx
    · split at hx
      · simp at hx; omega
      · split at hx
        · simp at hx; omega
        · rename_i h1 h2
          simp at hx; subst hx
          simpa using h2
    · exact ih x hx

/-! ### start tags -/

def wAttrs (a : List (PStr × Option PStr)) : List (PStr × Option PStr) := a.map fun kv => (kv.1, kv.2.map escAttr)

theorem attrsText_eq (tl : PStr) (a : List (PStr × Option PStr)) : attrsText tl a = attrsThenGt tl (wAttrs a) := by
  induction a with
  | nil => rfl
  | cons kv more ih =>
    obtain ⟨k, v⟩ := kv
    cases v <;> simp [attrsText, attrsThenGt, wAttrs, attrBody, ih] <;> rfl

theorem openText_eq (n : PStr) (a : List (PStr × Option PStr)) (slash : Bool) :
    openText n a slash = writeTag n (wAttrs a) slash := by
  simp only [openText, writeTag, attrsText_eq, tagEnd]

theorem good_open (P : Params) (hP : ParamsOK P) (p : Path) (n : PStr) (a : List (PStr × Option PStr)) (slash : Bool)
    (hn : nameOK n = true) (hcd : cdataContentElements.contains n = false) (ha : ∀ kv ∈ a, nameOK kv.1 = true) :
    Good P (openTok p n a slash) := by
  have hN := nameOK_NameOK n hn
  obtain ⟨c, t, hct, hc, _⟩ := hN
  have hAttr : ∀ kv ∈ wAttrs a, AttrOK kv := by
    intro kv hkv
    simp only [wAttrs, List.mem_map] at hkv
    obtain ⟨kv0, h0, rfl⟩ := hkv
    refine ⟨nameOK_NameOK _ (ha kv0 h0), ?_⟩
    intro w hw x hx
    cases hv : kv0.2 with
    | none => simp [hv] at hw
    | some v => simp [hv] at hw; subst hw; exact escAttr_noquote v x hx
  have hLow : ∀ kv ∈ wAttrs a, P.lower kv.1 = kv.1 := by
    intro kv hkv
    simp only [wAttrs, List.mem_map] at hkv
    obtain ⟨kv0, h0, rfl⟩ := hkv
    exact hP.lower _ (ha kv0 h0)
  have hmap : (wAttrs a).map (fun kv => (kv.1, kv.2.map (valOf P))) = a := by
    simp only [wAttrs, List.map_map]
    conv => rhs; rw [← List.map_id a]
    apply List.map_congr_left
    intro kv _
    obtain ⟨k, v⟩ := kv
    cases v <;> simp [valOf_escAttr P hP]
  refine ⟨Or.inl (by simp [openTok, openText]), ?_⟩
  intro rest
  have hhead : (openText n a slash ++ rest).head? = some 60 := by simp [openText]
  have halpha : (((openText n a slash ++ rest).drop 1).head?.map isAlpha).getD false = true := by
    simp [openText, hct, (isLower_facts c hc).1]
  have hps := parseStartTag_write P none n rest (wAttrs a) slash (nameOK_NameOK n hn) (hP.lower n hn) hAttr hLow
  rw [← openText_eq, hmap] at hps
  simp only [openTok]
  rw [chooseAct_lt _ _ _ _ hhead]
  apply actLt_of_parseLt
  simp only [parseLt, halpha, if_true, hps, hcd]
  cases slash <;> simp [startTok]

/-! ### end tags -/

theorem good_close (P : Params) (hP : ParamsOK P) (n : PStr) (hn : nameOK n = true) : Good P (closeTok n) := by
  refine ⟨Or.inl (by simp [closeTok, closeText]), ?_⟩
  intro rest
  obtain ⟨c, t, hct, hc, _⟩ := nameOK_NameOK n hn
  have hhead : (closeText n ++ rest).head? = some 60 := by simp [closeText]
  have hpe := parseEndTag_write P none n rest (nameOK_NameOK n hn) (hP.lower n hn) (Or.inl rfl)
  have htxt : closeText n = writeEndTag n := rfl
  simp only [closeTok]
  rw [chooseAct_lt _ _ _ _ hhead]
  apply actLt_of_parseLt
  rw [htxt]
  simp only [parseLt, hpe]
  simp [writeEndTag, sw, isAlpha]

/-! ### references -/

theorem charRef_dec (nm rest : PStr) (hd : ∀ x ∈ nm, isDigit x = true) (hne : nm ≠ []) :
    charRef (38 :: 35 :: (nm ++ 59 :: rest)) = some (nm, 2 + nm.length + 1) := by
  have hsp : spanLen isDigit (nm ++ 59 :: rest) = nm.length :=
    spanLen_append_stop _ _ _ hd (by intro c h; simp at h; subst h; decide)
  have hpos : 0 < nm.length := List.length_pos_iff.mpr hne
  simp only [charRef, List.drop_succ_cons, List.drop_zero, hsp, hpos, if_true, List.drop_left, List.head?_cons, List.take_left]
  simp [show isHex 59 = false by decide]

theorem charRef_hex (x : Nat) (body rest : PStr) (hx : x = 120 ∨ x = 88) (hh : ∀ c ∈ body, isHex c = true) (hne : body ≠ []) :
    charRef (38 :: 35 :: ((x :: body) ++ 59 :: rest)) = some (x :: body, 2 + 1 + body.length + 1) := by
  have hxd : isDigit x = false := by rcases hx with rfl | rfl <;> decide
  have hsp0 : spanLen isDigit (x :: (body ++ 59 :: rest)) = 0 := by simp [spanLen, hxd]
  have hsp : spanLen isHex (body ++ 59 :: rest) = body.length :=
    spanLen_append_stop _ _ _ hh (by intro c h; simp at h; subst h; decide)
  have hpos : 0 < body.length := List.length_pos_iff.mpr hne
  have hx' : (x == 120 || x == 88) = true := by rcases hx with rfl | rfl <;> decide
  have htake : List.take (1 + body.length) (x :: (body ++ 59 :: rest)) = x :: body := by
    rw [Nat.add_comm, List.take_succ_cons, List.take_left]
  simp only [charRef, List.drop_succ_cons, List.drop_zero, List.cons_append, hsp0, Nat.lt_irrefl, if_false, hx', if_true, hsp, hpos,
    List.drop_left, List.head?_cons, htake]

theorem good_cref (P : Params) (nm : PStr) (h : (∀ x ∈ nm, isDigit x = true) ∧ nm ≠ [] ∨
      ∃ x body, nm = x :: body ∧ (x = 120 ∨ x = 88) ∧ (∀ c ∈ body, isHex c = true) ∧ body ≠ []) :
    Good P (crefTok nm) := by
  refine ⟨Or.inr (by simp [crefTok, crefText]), ?_⟩
  intro rest
  have hcr : charRef (crefText nm ++ rest) = some (nm, 2 + nm.length + 1) := by
    rcases h with ⟨hd, hne⟩ | ⟨x, body, rfl, hx, hh, hne⟩
    · simpa [crefText] using charRef_dec nm rest hd hne
    · have := charRef_hex x body rest hx hh hne
      simp only [crefText, List.cons_append, List.nil_append, List.append_assoc, List.length_cons] at this ⊢
      rw [this]; congr 2; omega
  have hsemi : ((crefText nm ++ rest).drop (2 + nm.length + 1 - 1)).head? = some 59 := by
    have : crefText nm ++ rest = (38 :: 35 :: nm) ++ 59 :: rest := by simp [crefText]
    rw [this, show 2 + nm.length + 1 - 1 = (38 :: 35 :: nm).length by simp; omega, List.drop_left]
    rfl
  simp only [crefTok]
  have hch : chooseAct P false none (crefText nm ++ rest) = actCharRef none (crefText nm ++ rest) := by
    simp [chooseAct, crefText, sw]
  rw [hch]
  simp only [actCharRef, hcr, hsemi]
  simp [crefText]; omega

theorem good_eref (P : Params) (nm : PStr) (h : entNameOK nm = true) : Good P (erefTok nm) := by
  refine ⟨Or.inr (by simp [erefTok, erefText]), ?_⟩
  intro rest
  cases nm with
  | nil => simp [entNameOK] at h
  | cons c t =>
    simp only [entNameOK, Bool.and_eq_true, List.all_eq_true] at h
    obtain ⟨hc, ht⟩ := h
    have hsp : spanLen isEntCh (t ++ 59 :: rest) = t.length :=
      spanLen_append_stop _ _ _ ht (by intro c' h; simp at h; subst h; decide)
    have hc35 : (c == 35) = false := by
      have : 65 ≤ c := by simp [isAlpha] at hc; omega
      simp; omega
    have her : entityRef (38 :: c :: (t ++ 59 :: rest)) = some (c :: t, 1 + 1 + t.length + 1) := by
      simp only [entityRef, List.drop_succ_cons, List.drop_zero, hc, if_true, hsp, List.drop_left, List.head?_cons, List.take_left]
    have hsemi : ((38 :: c :: (t ++ 59 :: rest)).drop (1 + 1 + t.length + 1 - 1)).head? = some 59 := by
      rw [show 1 + 1 + t.length + 1 - 1 = t.length + 1 + 1 by omega]
      simp
    have hch : chooseAct P false none (38 :: c :: (t ++ 59 :: rest)) = actEntityRef false none (38 :: c :: (t ++ 59 :: rest)) := by
      simp [chooseAct, sw, hc35]
    simp only [erefTok, erefText, List.cons_append, List.append_assoc, List.nil_append]
    rw [hch]
    simp only [actEntityRef, her, hsemi]
    simp; omega

/-! ### the spelling of numeric references -/

theorem digits_all (base : Nat) (dig : Nat → Nat) (p : Nat → Bool) (hb : 0 < base) (hd : ∀ k, k < base → p (dig k) = true) :
    ∀ (fuel n : Nat), ∀ x ∈ digits base dig fuel n, p x = true := by
  intro fuel
  induction fuel with
  | zero => intro n x hx; simp [digits] at hx
  | succ f ih =>
    intro n x hx
    simp only [digits] at hx
    split at hx
    · rename_i hlt
      simp only [List.mem_singleton] at hx; subst hx; exact hd n hlt
    · simp only [List.mem_append, List.mem_singleton] at hx
      rcases hx with hx | hx
      · exact ih _ x hx
      · subst hx; exact hd _ (Nat.mod_lt _ hb)

theorem digits_ne (base : Nat) (dig : Nat → Nat) (fuel n : Nat) : digits base dig (fuel + 1) n ≠ [] := by
  simp only [digits]
  split <;> simp

theorem decDig_digit (k : Nat) (h : k < 10) : isDigit (decDig k) = true := by
  have h1 : 48 ≤ 48 + k := by omega
  have h2 : 48 + k ≤ 57 := by omega
  simp [isDigit, decDig, h2]

theorem hexDig_hex (u : Bool) (k : Nat) (h : k < 16) : isHex (hexDig u k) = true := by
  simp only [isHex, isDigit, hexDig]
  split
  · have h2 : 48 + k ≤ 57 := by omega
    simp [h2]
  · cases u
    · have h1 : 97 ≤ 87 + k := by omega
      have h2 : 87 + k ≤ 102 := by omega
      simp [h1, h2]
    · have h1 : 65 ≤ 55 + k := by omega
      have h2 : 55 + k ≤ 70 := by omega
      simp [h1, h2]

theorem good_dec (P : Params) (z ch : Nat) : Good P (crefTok (decName z ch)) := by
  apply good_cref
  left
  constructor
  · intro x hx
    simp only [decName, List.mem_append, List.mem_replicate] at hx
    rcases hx with ⟨_, rfl⟩ | hx
    · decide
    · exact digits_all 10 decDig isDigit (by decide) decDig_digit _ _ x hx
  · simp only [decName]
    intro h
    have := digits_ne 10 decDig ch ch
    simp at h
    exact this h.2

theorem good_hex (P : Params) (ux ud : Bool) (z ch : Nat) : Good P (crefTok (hexName ux ud z ch)) := by
  apply good_cref
  right
  refine ⟨_, _, rfl, by cases ux <;> simp, ?_, ?_⟩
  · intro x hx
    simp only [List.mem_append, List.mem_replicate] at hx
    rcases hx with ⟨_, rfl⟩ | hx
    · decide
    · exact digits_all 16 (hexDig ud) isHex (by decide) (hexDig_hex ud) _ _ x hx
  · intro h
    have := digits_ne 16 (hexDig ud) ch ch
    simp at h
    exact this h.2

/-! ### special strings: the closing patterns are not matched early -/

theorem nogt_after_ws (c : Nat) (hc : isWs c = false) (hc62 : c ≠ 62) (a b : PStr) (ha : ∀ x ∈ a, x ≠ 62) :
    ((a ++ c :: b).drop (spanLen isWs (a ++ c :: b))).head? ≠ some 62 := by
  induction a with
  | nil => simp [spanLen, hc, hc62]
  | cons x t ih =>
    simp only [List.cons_append, spanLen]
    split
    · simpa using ih (fun y hy => ha y (by simp [hy]))
    · simpa using ha x (by simp)

theorem mMsMarkedClose_none_inside (d rest : PStr) (hd : d ≠ []) (h62 : ∀ x ∈ d, x ≠ 62) :
    mMsMarkedClose (d ++ 93 :: 62 :: rest) = none := by
  cases d with
  | nil => exact absurd rfl hd
  | cons y d' =>
    simp only [mMsMarkedClose, List.cons_append, List.head?_cons]
    split
    · have := nogt_after_ws 93 (by decide) (by decide) d' (62 :: rest) (fun x hx => h62 x (by simp [hx]))
      have e : List.drop (1 + spanLen isWs (List.drop 1 (y :: (d' ++ 93 :: 62 :: rest)))) (y :: (d' ++ 93 :: 62 :: rest)) =
          List.drop (spanLen isWs (d' ++ 93 :: 62 :: rest)) (d' ++ 93 :: 62 :: rest) := by
        rw [Nat.add_comm]; simp
      rw [e]
      simp only [List.head?_drop] at this
      simp [this]
    · rfl

/-- after the first `]` and the whitespace behind it, what follows the next character is again free of `>` up to a `]` -/
theorem after_first_bracket (a b0 : PStr) (ha : ∀ x ∈ a, x ≠ 62) :
    ∃ a' b', (a ++ 93 :: 93 :: b0).drop (spanLen isWs (a ++ 93 :: 93 :: b0) + 1) = a' ++ 93 :: b' ∧ ∀ x ∈ a', x ≠ 62 := by
  induction a with
  | nil => exact ⟨[], b0, by simp [spanLen, show isWs 93 = false by decide], by simp⟩
  | cons x t ih =>
    simp only [List.cons_append, spanLen]
    split
    · obtain ⟨a', b', h1, h2⟩ := ih (fun y hy => ha y (by simp [hy]))
      exact ⟨a', b', by simpa using h1, h2⟩
    · exact ⟨t, 93 :: b0, by simp, fun y hy => ha y (by simp [hy])⟩

theorem mMarkedClose_none_inside (d rest : PStr) (hd : d ≠ []) (h62 : ∀ x ∈ d, x ≠ 62) :
    mMarkedClose (d ++ 93 :: 93 :: 62 :: rest) = none := by
  cases d with
  | nil => exact absurd rfl hd
  | cons y d' =>
    obtain ⟨a', b', h1, h2⟩ := after_first_bracket d' (62 :: rest) (fun x hx => h62 x (by simp [hx]))
    have hng := nogt_after_ws 93 (by decide) (by decide) a' b' h2
    simp only [mMarkedClose, List.cons_append, List.head?_cons]
    split
    · split
      · have e : List.drop (1 + spanLen isWs (List.drop 1 (y :: (d' ++ 93 :: 93 :: 62 :: rest))) + 1 +
              spanLen isWs (List.drop (1 + spanLen isWs (List.drop 1 (y :: (d' ++ 93 :: 93 :: 62 :: rest))) + 1)
                (y :: (d' ++ 93 :: 93 :: 62 :: rest)))) (y :: (d' ++ 93 :: 93 :: 62 :: rest)) =
            List.drop (spanLen isWs (a' ++ 93 :: b')) (a' ++ 93 :: b') := by
          have e1 : List.drop (1 + spanLen isWs (List.drop 1 (y :: (d' ++ 93 :: 93 :: 62 :: rest))) + 1)
              (y :: (d' ++ 93 :: 93 :: 62 :: rest)) = a' ++ 93 :: b' := by
            rw [← h1]
            rw [show 1 + spanLen isWs (List.drop 1 (y :: (d' ++ 93 :: 93 :: 62 :: rest))) + 1 =
              (spanLen isWs (d' ++ 93 :: 93 :: 62 :: rest) + 1) + 1 by simp; omega]
            simp
          rw [← List.drop_drop, e1]
        rw [e]
        simp only [List.head?_drop] at hng
        simp [hng]
      · rfl
    · rfl

/-! ### special strings -/

theorem cased_facts (b : Bool) (u : Nat) (h : 65 ≤ u ∧ u ≤ 90) :
    isAlpha (cased b u) = true ∧ isDeclNameCh (cased b u) = true ∧ asciiLowerC (cased b u) = u + 32 := by
  cases b
  · have h1 : 97 ≤ u + 32 := by omega
    have h2 : u + 32 ≤ 122 := by omega
    have h3 : ¬ (u + 32 ≤ 90) := by omega
    simp [cased, isAlpha, isDeclNameCh, isAlnum, asciiLowerC, isUpper, h1, h2, h3]
  · have h1 : 65 ≤ u := h.1
    have h2 : u ≤ 90 := h.2
    simp [cased, isAlpha, isDeclNameCh, isAlnum, asciiLowerC, isUpper, h1, h2]

theorem mem_of_contains_false (s : PStr) (c : Nat) (h : s.contains c = false) : ∀ x ∈ s, x ≠ c := by
  intro x hx hxc
  subst hxc
  have : s.contains x = true := by simpa using hx
  rw [this] at h; cases h

theorem good_comment (P : Params) (up : Nat → Bool) (s : PStr)
    (h : (∀ x ∈ s, x ≠ 62) ∨ (∀ x ∈ s, x ≠ 45)) : Good P (specialWTok .comment up s) := by
  refine ⟨Or.inl (by simp [specialWTok, specialMarkup]), ?_⟩
  intro rest
  have hpc : parseComment none (writeComment s ++ rest) = .ok (.cm s) (writeComment s).length none := by
    rcases h with h | h
    · exact parseComment_write_nogt none s rest h
    · exact parseComment_write_partial none s rest h
  have htxt : specialMarkup .comment up s = writeComment s := rfl
  simp only [specialWTok, specialTok, htxt]
  rw [chooseAct_lt _ _ _ _ (by simp [writeComment])]
  apply actLt_of_parseLt
  simp only [parseLt, hpc]
  simp [writeComment, sw, isAlpha]

theorem good_pi (P : Params) (up : Nat → Bool) (s : PStr) (h : ∀ x ∈ s, x ≠ 62) : Good P (specialWTok .pi up s) := by
  refine ⟨Or.inl (by simp [specialWTok, specialMarkup]), ?_⟩
  intro rest
  have hfind : findCh 62 (s ++ 62 :: rest) = some s.length := findCh_append_first 62 s rest h
  simp only [specialWTok, specialTok, specialMarkup]
  rw [chooseAct_lt _ _ _ _ (by simp)]
  apply actLt_of_parseLt
  have hpp : parsePi none ([60, 63] ++ s ++ [62] ++ rest) = .ok (.pi s) ([60, 63] ++ s ++ [62]).length none := by
    simp only [parsePi, List.cons_append, List.nil_append, List.append_assoc, List.drop_succ_cons, List.drop_zero, hfind, List.take_left]
    simp; omega
  simp only [parseLt, hpp]
  simp [sw, isAlpha]

theorem good_doctype (P : Params) (up : Nat → Bool) (s : PStr) (h : ∀ x ∈ s, x ≠ 62) : Good P (specialWTok .doctype up s) := by
  refine ⟨Or.inl (by simp [specialWTok, specialMarkup]), ?_⟩
  intro rest
  have hfind : findCh 62 (32 :: (s ++ 62 :: rest)) = some (1 + s.length) := by
    have := findCh_append_first 62 (32 :: s) rest (by
      intro x hx; simp only [List.mem_cons] at hx
      rcases hx with rfl | hx
      · decide
      · exact h x hx)
    simpa [Nat.add_comm] using this
  have f0 := cased_facts (up 0) 68 (by decide)
  have f1 := cased_facts (up 1) 79 (by decide)
  have f2 := cased_facts (up 2) 67 (by decide)
  have f3 := cased_facts (up 3) 84 (by decide)
  have f4 := cased_facts (up 4) 89 (by decide)
  have f5 := cased_facts (up 5) 80 (by decide)
  have f6 := cased_facts (up 6) 69 (by decide)
  simp only [specialWTok, specialTok, specialMarkup]
  rw [chooseAct_lt _ _ _ _ (by simp)]
  apply actLt_of_parseLt
  have hne45 : ∀ (b : Bool) (u : Nat), 65 ≤ u ∧ u ≤ 90 → cased b u ≠ 45 ∧ cased b u ≠ 91 := by
    intro b u hu; cases b <;> simp [cased] <;> omega
  have hpd : parseHtmlDeclaration none ([60, 33] ++ (kwDoctype up ++ s) ++ [62] ++ rest) =
      .ok (.dl (kwDoctype up ++ s)) ([60, 33] ++ (kwDoctype up ++ s) ++ [62]).length none := by
    simp only [parseHtmlDeclaration, kwDoctype, sw, List.cons_append, List.nil_append, List.append_assoc, List.length_cons,
      List.length_nil, List.take_succ_cons, List.take_zero, asciiLower, List.map_cons, List.map_nil, f0.2.2, f1.2.2, f2.2.2, f3.2.2, f4.2.2,
      f5.2.2, f6.2.2, List.drop_succ_cons, List.drop_zero, hfind]
    have := (hne45 (up 0) 68 (by decide))
    simp [asciiLowerC, isUpper, this.1, this.2]
    constructor
    · rw [show 7 + (1 + s.length) = (cased (up 0) 68 :: cased (up 1) 79 :: cased (up 2) 67 :: cased (up 3) 84 :: cased (up 4) 89 ::
          cased (up 5) 80 :: cased (up 6) 69 :: 32 :: s).length by simp; omega]
      rw [show cased (up 0) 68 :: cased (up 1) 79 :: cased (up 2) 67 :: cased (up 3) 84 :: cased (up 4) 89 :: cased (up 5) 80 ::
          cased (up 6) 69 :: 32 :: (s ++ 62 :: rest) = (cased (up 0) 68 :: cased (up 1) 79 :: cased (up 2) 67 :: cased (up 3) 84 ::
          cased (up 4) 89 :: cased (up 5) 80 :: cased (up 6) 69 :: 32 :: s) ++ 62 :: rest by simp]
      exact List.take_left
    · omega
  have hsw : ∀ (b : Bool), cased b 68 ≠ 45 := fun b => (hne45 b 68 (by decide)).1
  simp only [parseLt, hpd]
  simp [sw, isAlpha, kwDoctype, hsw]

theorem spanLen_append_of_stop (p : Nat → Bool) (a b : PStr) (hb : ∀ c, b.head? = some c → p c = false) :
    spanLen p (a ++ b) = spanLen p a := by
  induction a with
  | nil => simpa [spanLen] using spanLen_zero p b hb
  | cons x t ih => simp only [List.cons_append, spanLen, ih]

theorem drop_inside (a b : PStr) (k : Nat) (hk : k < a.length) : (a ++ b).drop k = a.drop k ++ b ∧ a.drop k ≠ [] := by
  refine ⟨List.drop_append_of_le_length (by omega), ?_⟩
  intro h
  have := congrArg List.length h
  simp at this; omega

theorem good_cdata (P : Params) (up : Nat → Bool) (s : PStr) (h : ∀ x ∈ s, x ≠ 62) : Good P (specialWTok .cdata up s) := by
  refine ⟨Or.inl (by simp [specialWTok, specialMarkup]), ?_⟩
  intro rest
  have f0 := cased_facts (up 0) 67 (by decide)
  have f1 := cased_facts (up 1) 68 (by decide)
  have f2 := cased_facts (up 2) 65 (by decide)
  have f3 := cased_facts (up 3) 84 (by decide)
  have f4 := cased_facts (up 4) 65 (by decide)
  have hne : ∀ (b : Bool) (u : Nat), 65 ≤ u ∧ u ≤ 90 → cased b u ≠ 62 ∧ cased b u ≠ 45 := by
    intro b u hu; cases b <;> simp [cased] <;> omega
  have hkw62 : ∀ x ∈ kwCData up ++ s, x ≠ 62 := by
    intro x hx
    simp only [kwCData, List.cons_append, List.nil_append, List.mem_cons] at hx
    rcases hx with rfl | rfl | rfl | rfl | rfl | rfl | hx
    · exact (hne _ 67 (by decide)).1
    · exact (hne _ 68 (by decide)).1
    · exact (hne _ 65 (by decide)).1
    · exact (hne _ 84 (by decide)).1
    · exact (hne _ 65 (by decide)).1
    · decide
    · exact h x hx
  have hclose : mMarkedClose (93 :: 93 :: 62 :: rest) = some 3 := by
    simp [mMarkedClose, spanLen, show isWs 93 = false by decide, show isWs 62 = false by decide]
  have hsearch := search_append_first mMarkedClose (kwCData up ++ s) (93 :: 93 :: 62 :: rest) 3 (by
    intro k hk
    obtain ⟨e1, e2⟩ := drop_inside (kwCData up ++ s) (93 :: 93 :: 62 :: rest) k hk
    rw [e1]
    exact mMarkedClose_none_inside _ rest e2 (fun x hx => hkw62 x (List.mem_of_mem_drop hx))) hclose
  have hscan : scanName (kwCData up ++ s ++ 93 :: 93 :: 62 :: rest) = .ok [99, 100, 97, 116, 97] 5 := by
    simp [scanName, kwCData, spanLen, f0.1, f1.2.1, f2.2.1, f3.2.1, f4.2.1, show isDeclNameCh 91 = false by decide,
      show isWs 91 = false by decide, asciiLower, f0.2.2, f1.2.2, f2.2.2, f3.2.2, f4.2.2]
  have hpm : parseMarkedSection none ([60, 33, 91] ++ (kwCData up ++ s) ++ [93, 93, 62] ++ rest) =
      .ok (.ud (kwCData up ++ s)) ([60, 33, 91] ++ (kwCData up ++ s) ++ [93, 93, 62]).length none := by
    have e : List.drop 3 ([60, 33, 91] ++ (kwCData up ++ s) ++ [93, 93, 62] ++ rest) = kwCData up ++ s ++ 93 :: 93 :: 62 :: rest := by
      simp
    simp only [parseMarkedSection, e, hscan, show sectStd.contains [99, 100, 97, 116, 97] = true by decide, if_true]
    rw [show kwCData up ++ s ++ 93 :: 93 :: 62 :: rest = (kwCData up ++ s) ++ 93 :: 93 :: 62 :: rest by simp, hsearch]
    simp only []
    rw [List.take_left]
    simp only [List.length_append, List.length_cons, List.length_nil]
    first | done | (congr 1; omega)
  simp only [specialWTok, specialTok, specialMarkup]
  rw [chooseAct_lt _ _ _ _ (by simp)]
  apply actLt_of_parseLt
  simp only [parseLt, parseHtmlDeclaration, hpm]
  simp [sw, isAlpha]

theorem sectMs_not_std (n : PStr) (h : sectMs.contains n = true) : sectStd.contains n = false := by
  simp only [sectMs, List.contains_eq_mem, List.mem_cons, List.not_mem_nil, or_false, decide_eq_true_eq] at h
  rcases h with rfl | rfl | rfl <;> decide

theorem spanLen_le_of_stop (p : Nat → Bool) (a : PStr) (c : Nat) (b : PStr) (hc : p c = false) :
    spanLen p (a ++ c :: b) ≤ a.length := by
  induction a with
  | nil => simp [spanLen, hc]
  | cons x t ih =>
    simp only [List.cons_append, spanLen, List.length_cons]
    split <;> omega

theorem good_decl (P : Params) (up : Nat → Bool) (s : PStr) (h : ∀ x ∈ s, x ≠ 62) (hk : sectMs.contains (declName s) = true) :
    Good P (specialWTok .decl up s) := by
  refine ⟨Or.inl (by simp [specialWTok, specialMarkup]), ?_⟩
  intro rest
  cases s with
  | nil => simp [declName, sectMs] at hk
  | cons c t =>
    have hc : isAlpha c = true := by
      cases hca : isAlpha c with
      | true => rfl
      | false => simp [declName, hca, sectMs] at hk
    simp only [declName, hc, if_true] at hk
    have hclose : mMsMarkedClose (93 :: 62 :: rest) = some 2 := by
      simp [mMsMarkedClose, spanLen, show isWs 62 = false by decide]
    have hsearch := search_append_first mMsMarkedClose (c :: t) (93 :: 62 :: rest) 2 (by
      intro k hk'
      obtain ⟨e1, e2⟩ := drop_inside (c :: t) (93 :: 62 :: rest) k hk'
      rw [e1]
      exact mMsMarkedClose_none_inside _ rest e2 (fun x hx => h x (List.mem_of_mem_drop hx))) hclose
    have hnl : spanLen isDeclNameCh (t ++ 93 :: 62 :: rest) = spanLen isDeclNameCh t :=
      spanLen_append_of_stop _ _ _ (by intro c' h'; simp at h'; subst h'; decide)
    have hnle : spanLen isDeclNameCh t ≤ t.length := spanLen_le _ _
    have htake : (t ++ 93 :: 62 :: rest).take (spanLen isDeclNameCh t) = t.take (spanLen isDeclNameCh t) :=
      List.take_append_of_le_length hnle
    have hdrop : (t ++ 93 :: 62 :: rest).drop (spanLen isDeclNameCh t) = t.drop (spanLen isDeclNameCh t) ++ 93 :: 62 :: rest :=
      List.drop_append_of_le_length hnle
    have hw := spanLen_le_of_stop isWs (t.drop (spanLen isDeclNameCh t)) 93 (62 :: rest) (by decide)
    simp only [List.length_drop] at hw
    have hnonempty : ((t ++ 93 :: 62 :: rest).drop (spanLen isDeclNameCh t +
        spanLen isWs (t.drop (spanLen isDeclNameCh t) ++ 93 :: 62 :: rest))).isEmpty = false := by
      rw [← List.drop_drop, hdrop]
      cases hd : (t.drop (spanLen isDeclNameCh t) ++ 93 :: 62 :: rest).drop
          (spanLen isWs (t.drop (spanLen isDeclNameCh t) ++ 93 :: 62 :: rest)) with
      | nil =>
        have := congrArg List.length hd
        simp only [List.length_drop, List.length_append, List.length_cons, List.length_nil] at this
        omega
      | cons _ _ => rfl
    have hscan : scanName (c :: t ++ 93 :: 62 :: rest) =
        .ok (asciiLower (c :: t.take (spanLen isDeclNameCh t))) (1 + spanLen isDeclNameCh t +
          spanLen isWs (t.drop (spanLen isDeclNameCh t) ++ 93 :: 62 :: rest)) := by
      simp only [scanName, List.cons_append, hc, if_true, hnl, hdrop, htake, hnonempty, Bool.false_eq_true, if_false]
    have hpm : parseMarkedSection none ([60, 33, 91] ++ (c :: t) ++ [93, 62] ++ rest) =
        .ok (.ud (c :: t)) ([60, 33, 91] ++ (c :: t) ++ [93, 62]).length none := by
      have e : List.drop 3 ([60, 33, 91] ++ (c :: t) ++ [93, 62] ++ rest) = c :: t ++ 93 :: 62 :: rest := by simp
      simp only [parseMarkedSection, e, hscan, sectMs_not_std _ hk, hk, Bool.false_eq_true, if_false, if_true]
      rw [show c :: t ++ 93 :: 62 :: rest = (c :: t) ++ 93 :: 62 :: rest by simp, hsearch]
      simp only []
      rw [List.take_left]
      simp only [List.length_append, List.length_cons, List.length_nil]
      first | done | (congr 1; omega)
    simp only [specialWTok, specialTok, specialMarkup]
    rw [chooseAct_lt _ _ _ _ (by simp)]
    apply actLt_of_parseLt
    simp only [parseLt, parseHtmlDeclaration, hpm]
    simp [sw, isAlpha]

end BS.WriterText
