import BSModel.Model.Writer
import BSModel.Proofs.WriterRefs
/-! C04 (`emit_build`), the adapter half: the builder events `BeautifulSoupHTMLParser` sends for the callback
    stream of a written document do not depend on how the void elements are spelt — `already_closed_empty_element`
    only ever holds void names, so the redundant `</br>` of `<br></br>` is swallowed and the end tag of an ordinary
    element never is -/
namespace BS.Writer
open BS.Builder BS.Adapter

/-- the adapter state after a list of callbacks -/
def afinal (cfg : ACfg) : ASt → List SEv → ASt
  | st, [] => st
  | st, e :: es => afinal cfg (astep cfg st e).1 es

theorem arun_nil (cfg : ACfg) (st : ASt) : arun (astep cfg) st [] = ([], []) := rfl

theorem arun_cons (cfg : ACfg) (st : ASt) (e : SEv) (es : List SEv) :
    arun (astep cfg) st (e :: es) =
      ((astep cfg st e).2.1 ++ (arun (astep cfg) (astep cfg st e).1 es).1,
       (astep cfg st e).2.2 ++ (arun (astep cfg) (astep cfg st e).1 es).2) := rfl

theorem afinal_append (cfg : ACfg) : ∀ (a b : List SEv) (st : ASt),
    afinal cfg st (a ++ b) = afinal cfg (afinal cfg st a) b := by
  intro a
  induction a with
  | nil => intro b st; rfl
  | cons e es ih => intro b st; simp only [List.cons_append, afinal, ih]

theorem arun_append (cfg : ACfg) : ∀ (a b : List SEv) (st : ASt),
    arun (astep cfg) st (a ++ b) =
      ((arun (astep cfg) st a).1 ++ (arun (astep cfg) (afinal cfg st a) b).1,
       (arun (astep cfg) st a).2 ++ (arun (astep cfg) (afinal cfg st a) b).2) := by
  intro a
  induction a with
  | nil => intro b st; simp [arun_nil, afinal]
  | cons e es ih =>
    intro b st
    simp only [List.cons_append, arun_cons, afinal, ih, List.append_assoc]

/-! ### text -/

/-- the callbacks that carry character data -/
def isTexty : SEv → Bool
  | .data _ => true
  | .charref _ => true
  | .entityref _ => true
  | _ => false

/-- the characters such a callback stands for -/
def dataOf (cfg : ACfg) : SEv → PStr
  | .data s => s
  | .charref n => handleCharref cfg n
  | .entityref n => handleEntityref cfg n
  | _ => []

theorem arun_texty (cfg : ACfg) : ∀ (evs : List SEv) (st : ASt), (∀ e ∈ evs, isTexty e = true) →
    arun (astep cfg) st evs = (evs.map (fun e => Ev.data (dataOf cfg e)), []) ∧ afinal cfg st evs = st := by
  intro evs
  induction evs with
  | nil => intro st _; exact ⟨rfl, rfl⟩
  | cons e es ih =>
    intro st h
    have he := h e (by simp)
    have hes := ih
    have step : astep cfg st e = (st, [Ev.data (dataOf cfg e)], []) := by
      cases e <;> simp_all [isTexty, astep, dataOf]
    have := ih st (fun x hx => h x (by simp [hx]))
    rw [arun_cons]
    simp only [afinal, step, this.1, this.2]
    simp

theorem flushLit_texty (cur : PStr) : ∀ e ∈ flushLit cur, isTexty e = true := by
  intro e he
  unfold flushLit at he
  split at he
  · simp at he
  · simp at he; subst he; rfl

theorem emitChars_texty (sp : Nat → CharSp) : ∀ (s : PStr) (i : Nat) (cur : PStr),
    ∀ e ∈ emitChars sp i cur s, isTexty e = true := by
  intro s
  induction s with
  | nil => intro i cur e he; exact flushLit_texty cur e he
  | cons ch rest ih =>
    intro i cur e he
    simp only [emitChars] at he
    split at he
    · split at he
      · rcases List.mem_append.mp he with h | h
        · exact flushLit_texty cur e h
        · exact ih _ _ e h
      · exact ih _ _ e he
    · rcases List.mem_append.mp he with h | h
      · exact flushLit_texty cur e h
      · simp only [List.mem_cons] at h
        rcases h with h | h
        · subst h; rfl
        · exact ih _ _ e h
    · rcases List.mem_append.mp he with h | h
      · exact flushLit_texty cur e h
      · simp only [List.mem_cons] at h
        rcases h with h | h
        · subst h; rfl
        · exact ih _ _ e h
    · rcases List.mem_append.mp he with h | h
      · exact flushLit_texty cur e h
      · simp only [List.mem_cons] at h
        rcases h with h | h
        · subst h; rfl
        · exact ih _ _ e h

/-! ### the builder events of a written document -/

mutual
/-- what the adapter sends the builder for the node at path `p`: a void element is `start, stop` however spelt -/
def bev (cfg : ACfg) (c : Choices) : Path → WDoc → List Ev
  | p, .elem n _ ks =>
    if cfg.isVoid n then [.start n none, .stop n none]
    else .start n none :: (bevL cfg c p 0 ks ++ [.stop n none])
  | p, .text s => (emitChars (c.char p) 0 [] s).map (fun e => Ev.data (dataOf cfg e))
  | _, .special k s => special (specialText k s).2 (specialText k s).1
def bevL (cfg : ACfg) (c : Choices) : Path → Nat → List WDoc → List Ev
  | _, _, [] => []
  | p, i, d :: ds => bev cfg c (i :: p) d ++ bevL cfg c p (i + 1) ds
end

/-- `already_closed_empty_element` holds void names only -/
def AInv (iv : Name → Bool) (st : ASt) : Prop := ∀ m ∈ st.alreadyClosed, iv m = true

theorem removeFirst_subset (n : Name) : ∀ (l : List Name), ∀ m ∈ removeFirst n l, m ∈ l := by
  intro l
  induction l with
  | nil => intro m hm; simp [removeFirst] at hm
  | cons x xs ih =>
    intro m hm
    simp only [removeFirst] at hm
    split at hm
    · simp [hm]
    · simp only [List.mem_cons] at hm ⊢
      rcases hm with h | h
      · exact Or.inl h
      · exact Or.inr (ih m h)

theorem toUpper_cased (up : Bool) (u : Nat) (h : 65 ≤ u ∧ u ≤ 90) : toUpperAscii (cased up u) = u := by
  cases up <;> simp [cased, toUpperAscii] <;> omega

theorem astep_special (cfg : ACfg) (st : ASt) (k : Kind) (up : Nat → Bool) (s : PStr) :
    astep cfg st (specialEv k up s) = (st, special (specialText k s).2 (specialText k s).1, []) := by
  cases k with
  | comment => rfl
  | pi => rfl
  | doctype => simp [specialEv, astep, specialText, kwDoctype]
  | cdata =>
    have h : startsWithUpper cdataPrefix (kwCData up ++ s) = true := by
      have e91 : toUpperAscii 91 = 91 := by decide
      simp [startsWithUpper, cdataPrefix, kwCData, toUpper_cased, e91]
    simp only [specialEv, astep, h, if_true, specialText]
    simp [kwCData]
  | decl =>
    simp only [specialEv, astep, specialText]
    split <;> rfl

theorem endtag_forwarded (cfg : ACfg) (st : ASt) (n : Name) (hi : AInv cfg.isVoid st) (hv : cfg.isVoid n = false) :
    astep cfg st (.endtag n) = (st, [.stop n none], []) := by
  have : st.alreadyClosed.contains n = false := by
    cases h : st.alreadyClosed.contains n with
    | false => rfl
    | true =>
      have := hi n (by simpa using h)
      rw [hv] at this; cases this
  simp only [astep, this]; simp

mutual
theorem arun_emit (cfg : ACfg) (c : Choices) : ∀ (d : WDoc) (p : Path) (st : ASt), AInv cfg.isVoid st →
    arun (astep cfg) st (emit cfg.isVoid c p d) = (bev cfg c p d, infos cfg c p d) ∧
      AInv cfg.isVoid (afinal cfg st (emit cfg.isVoid c p d))
  | .text s, p, st, hi => by
    have := arun_texty cfg (emitChars (c.char p) 0 [] s) st (emitChars_texty _ s 0 [])
    simp only [emit, bev, infos, this.1, this.2]
    exact ⟨trivial, hi⟩
  | .special k s, p, st, hi => by
    simp only [emit, bev, infos, arun_cons, arun_nil, afinal, astep_special]
    exact ⟨by simp, hi⟩
  | .elem n a ks, p, st, hi => by
    by_cases hv : cfg.isVoid n = true
    · simp only [emit, bev, infos, hv, if_true]
      cases hsp : c.void p with
      | plain =>
        simp only [arun_cons, arun_nil, afinal, astep, hv, if_true]
        refine ⟨by simp, ?_⟩
        intro m hm
        simp only [List.mem_append, List.mem_singleton] at hm
        rcases hm with h | h
        · exact hi m h
        · rw [h]; exact hv
      | slash =>
        simp only [arun_cons, arun_nil, afinal, astep]
        exact ⟨by simp, hi⟩
      | pair =>
        have hmem : (st.alreadyClosed ++ [n]).contains n = true := by simp
        simp only [arun_cons, arun_nil, afinal, astep, hv, if_true, hmem]
        refine ⟨by simp, ?_⟩
        intro m hm
        have := removeFirst_subset n _ m hm
        simp only [List.mem_append, List.mem_singleton] at this
        rcases this with h | h
        · exact hi m h
        · rw [h]; exact hv
    · have hv' : cfg.isVoid n = false := by simpa using hv
      have hstart : astep cfg st (.starttag n a (c.pos p).1 (c.pos p).2) =
          (st, [.start n none], [mkInfo cfg a (c.pos p).1 (c.pos p).2]) := by
        simp [astep, hv']
      obtain ⟨hk, hik⟩ := arun_emitL cfg c ks p 0 st hi
      have hend := endtag_forwarded cfg _ n hik hv'
      simp only [emit, bev, infos, hv', Bool.false_eq_true, if_false, arun_cons, hstart, afinal, arun_append,
        afinal_append, hk, hend, arun_nil]
      exact ⟨by simp, hik⟩
theorem arun_emitL (cfg : ACfg) (c : Choices) : ∀ (ds : List WDoc) (p : Path) (i : Nat) (st : ASt), AInv cfg.isVoid st →
    arun (astep cfg) st (emitL cfg.isVoid c p i ds) = (bevL cfg c p i ds, infosL cfg c p i ds) ∧
      AInv cfg.isVoid (afinal cfg st (emitL cfg.isVoid c p i ds))
  | [], p, i, st, hi => ⟨rfl, hi⟩
  | d :: ds, p, i, st, hi => by
    obtain ⟨h1, hi1⟩ := arun_emit cfg c d (i :: p) st hi
    obtain ⟨h2, hi2⟩ := arun_emitL cfg c ds p (i + 1) _ hi1
    simp only [emitL, bevL, infosL, arun_append, afinal_append, h1, h2]
    exact ⟨trivial, hi2⟩
end

/-- **the adapter's view of a written document**: builder events and start infos, whatever the spellings -/
theorem toEvents_emitDoc (cfg : ACfg) (c : Choices) (ds : List WDoc) :
    toEvents cfg (emitDoc cfg.isVoid c ds) = (bevL cfg c [] 0 ds, startInfos cfg c ds) :=
  (arun_emitL cfg c ds [] 0 ⟨[]⟩ (by intro m hm; simp at hm)).1

end BS.Writer
