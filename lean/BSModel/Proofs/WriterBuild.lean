import BSModel.Proofs.WriterAdapter
import BSModel.Proofs.BuilderBal
/-! C04 (`emit_build`), the builder half: the events the adapter sends for a written document differ from the
    events of the intended forest (C03's `eventsL`) only in how text is cut into chunks; C03's machine does not see
    that difference (`SameText`), so `balanced_block`/`build_events` apply, and the normal form `absorb` of the
    intended forest is `normalise` -/
namespace BS.Writer
open BS.Builder BS.Adapter

/-! ### the intended forest in C03's vocabulary -/

mutual
def toDocs : WDoc → List Doc
  | .elem n _ ks => [Doc.elem n none (toDocsL ks)]
  | .text s => if s.isEmpty then [] else [Doc.text 0 s]
  | .special k s => [Doc.text (specialText k s).1 (specialText k s).2]
def toDocsL : List WDoc → List Doc
  | [] => []
  | d :: ds => toDocs d ++ toDocsL ds
end

theorem eventsL_append : ∀ (a b : List Doc), eventsL (a ++ b) = eventsL a ++ eventsL b := by
  intro a
  induction a with
  | nil => intro b; simp [eventsL]
  | cons d ds ih => intro b; simp [eventsL, ih, List.append_assoc]

theorem noRootL_append (cfg : Cfg) : ∀ (a b : List Doc), noRootL cfg (a ++ b) = (noRootL cfg a && noRootL cfg b) := by
  intro a
  induction a with
  | nil => intro b; simp [noRootL]
  | cons d ds ih => intro b; simp [noRootL, ih, Bool.and_assoc]

theorem specialCls_ne_zero (k : Kind) (s : PStr) : (specialText k s).1 ≠ 0 := by
  cases k <;> simp [specialText, clsComment, clsCData, clsDoctype, clsPI, clsDecl]
  split <;> simp

mutual
theorem noRoot_toDocs (cfg : Cfg) (iv : Name → Bool) : ∀ (d : WDoc), representable cfg.rootName iv d = true →
    noRootL cfg (toDocs d) = true
  | .text s, _ => by
    simp only [toDocs]; split <;> simp [noRootL, noRoot]
  | .special k s, _ => by simp [toDocs, noRootL, noRoot]
  | .elem n a ks, h => by
    simp only [representable, Bool.and_eq_true] at h
    simp only [toDocs, noRootL, noRoot, h.1.1, noRootL_toDocsL cfg iv ks h.2, Bool.and_self]
theorem noRootL_toDocsL (cfg : Cfg) (iv : Name → Bool) : ∀ (ds : List WDoc), representableL cfg.rootName iv ds = true →
    noRootL cfg (toDocsL ds) = true
  | [], _ => by simp [toDocsL, noRootL]
  | d :: ds, h => by
    simp only [representableL, Bool.and_eq_true] at h
    simp only [toDocsL, noRootL_append, noRoot_toDocs cfg iv d h.1, noRootL_toDocsL cfg iv ds h.2, Bool.and_self]
end

/-! ### text: the data events of a text, however spelt and cut, carry exactly its characters -/

theorem flushLit_flat (cfg : ACfg) (cur : PStr) : ((flushLit cur).map (dataOf cfg)).flatten = cur := by
  unfold flushLit
  cases cur with
  | nil => rfl
  | cons x xs => simp [dataOf]

theorem emitChars_flat (cfg : ACfg) (sp : Nat → CharSp) : ∀ (s : PStr) (i : Nat) (cur : PStr),
    charsOK cfg sp i s = true → ((emitChars sp i cur s).map (dataOf cfg)).flatten = cur ++ s := by
  intro s
  induction s with
  | nil => intro i cur _; simp [emitChars, flushLit_flat]
  | cons ch rest ih =>
    intro i cur hok
    simp only [charsOK, Bool.and_eq_true] at hok
    obtain ⟨hch, hrest⟩ := hok
    simp only [emitChars]
    cases hsp : sp i with
    | lit cut =>
      cases cut with
      | true => simp [List.map_append, List.flatten_append, flushLit_flat, ih _ _ hrest]
      | false => simp [ih _ _ hrest]
    | dec z =>
      rw [hsp] at hch
      simp only [charOK, Bool.and_eq_true, decide_eq_true_eq] at hch
      simp [List.map_append, List.flatten_append, flushLit_flat, ih _ _ hrest, dataOf, dec_denotes cfg z ch hch.1 hch.2]
    | hex ux ud z =>
      rw [hsp] at hch
      simp only [charOK] at hch
      simp [List.map_append, List.flatten_append, flushLit_flat, ih _ _ hrest, dataOf, hex_denotes cfg ux ud z ch hch]
    | named nm =>
      rw [hsp] at hch
      simp only [charOK, beq_iff_eq] at hch
      simp [List.map_append, List.flatten_append, flushLit_flat, ih _ _ hrest, dataOf, handleEntityref, hch]

theorem emitChars_ne (sp : Nat → CharSp) : ∀ (s : PStr) (i : Nat) (cur : PStr), cur ++ s ≠ [] → emitChars sp i cur s ≠ [] := by
  intro s
  induction s with
  | nil =>
    intro i cur h
    simp only [List.append_nil] at h
    cases cur with
    | nil => exact absurd rfl h
    | cons x xs => simp [emitChars, flushLit]
  | cons ch rest ih =>
    intro i cur _
    simp only [emitChars]
    cases sp i with
    | lit cut =>
      cases cut with
      | true =>
        have := ih (i + 1) [ch] (by simp)
        simp [this]
      | false => exact ih (i + 1) (cur ++ [ch]) (by simp)
    | dec z => simp
    | hex ux ud z => simp
    | named nm => simp

theorem sRun_data (cfg : Cfg) : ∀ (xs : List PStr) (s : SSt), sRun cfg s (xs.map Ev.data) = ⟨s.stack, s.buf ++ xs⟩ := by
  intro xs
  induction xs with
  | nil => intro s; simp [sRun_nil]
  | cons x xs ih => intro s; simp [sRun_cons, sStep, ih]

/-- the data events of a non-empty text leave the machine as the single event `data s` does, up to chunking -/
theorem same_text (bcfg : Cfg) (cfg : ACfg) (sp : Nat → CharSp) (s : PStr) (hs : s ≠ []) (hok : charsOK cfg sp 0 s = true)
    (s1 s2 : SSt) (h : SameText s1 s2) :
    SameText (sRun bcfg s1 ((emitChars sp 0 [] s).map (fun e => Ev.data (dataOf cfg e)))) (sRun bcfg s2 [Ev.data s]) := by
  have hmap : (emitChars sp 0 [] s).map (fun e => Ev.data (dataOf cfg e)) = ((emitChars sp 0 [] s).map (dataOf cfg)).map Ev.data := by
    simp [List.map_map, Function.comp_def]
  have hflat := emitChars_flat cfg sp s 0 [] hok
  have hne := emitChars_ne sp s 0 [] (by simpa using hs)
  rw [hmap, sRun_data]
  obtain ⟨h1, h2, _⟩ := h
  refine ⟨h1, ?_, ?_⟩
  · simp [sRun_cons, sRun_nil, sStep, List.flatten_append, hflat, h2]
  · simp [sRun_cons, sRun_nil, sStep, hne]

/-! ### the machine cannot tell the adapter's events from the events of the intended forest -/

mutual
theorem same_bev (bcfg : Cfg) (cfg : ACfg) (c : Choices) : ∀ (d : WDoc) (p : Path),
    representable bcfg.rootName cfg.isVoid d = true → wellSpelt cfg c.char p d = true →
    ∀ (s1 s2 : SSt), SameText s1 s2 →
      SameText (sRun bcfg s1 (bev cfg c p d)) (sRun bcfg s2 (eventsL (toDocs d)))
  | .text s, p, _, hw, s1, s2, h => by
    simp only [wellSpelt] at hw
    by_cases hs : s = []
    · subst hs
      simpa [bev, toDocs, emitChars, flushLit, eventsL, sRun_nil] using h
    · have hs' : s.isEmpty = false := by cases s <;> simp_all
      simp only [bev, toDocs, hs', Bool.false_eq_true, if_false, eventsL, events, if_true, List.append_nil]
      exact same_text bcfg cfg (c.char p) s hs hw s1 s2 h
  | .special k s, p, _, _, s1, s2, h => by
    have hne := specialCls_ne_zero k s
    simp only [bev, toDocs, eventsL, events, hne, if_false, List.append_nil, special]
    exact sRun_sameText _ h
  | .elem n a ks, p, hr, hw, s1, s2, h => by
    simp only [representable, Bool.and_eq_true, Bool.or_eq_true, Bool.not_eq_true'] at hr
    simp only [wellSpelt] at hw
    by_cases hv : cfg.isVoid n = true
    · have hk : ks = [] := by
        rcases hr.1.2 with h1 | h1
        · rw [hv] at h1; cases h1
        · cases ks <;> simp_all
      subst hk
      simp only [bev, hv, if_true, toDocs, toDocsL, eventsL, events, List.nil_append, List.append_nil]
      exact sRun_sameText _ h
    · have hv' : cfg.isVoid n = false := by simpa using hv
      simp only [bev, hv', Bool.false_eq_true, if_false, toDocs, eventsL, events, List.append_nil, sRun_cons, sRun_append]
      have h1 := sStep_sameText (cfg := bcfg) h (.start n none)
      have h2 := same_bevL bcfg cfg c ks p 0 hr.2 hw _ _ h1
      exact sRun_sameText [] (sStep_sameText h2 _)
theorem same_bevL (bcfg : Cfg) (cfg : ACfg) (c : Choices) : ∀ (ds : List WDoc) (p : Path) (i : Nat),
    representableL bcfg.rootName cfg.isVoid ds = true → wellSpeltL cfg c.char p i ds = true →
    ∀ (s1 s2 : SSt), SameText s1 s2 →
      SameText (sRun bcfg s1 (bevL cfg c p i ds)) (sRun bcfg s2 (eventsL (toDocsL ds)))
  | [], _, _, _, _, s1, s2, h => by simpa [bevL, toDocsL, eventsL, sRun_nil] using h
  | d :: ds, p, i, hr, hw, s1, s2, h => by
    simp only [representableL, Bool.and_eq_true] at hr
    simp only [wellSpeltL, Bool.and_eq_true] at hw
    simp only [bevL, toDocsL, eventsL_append, sRun_append]
    exact same_bevL bcfg cfg c ds p (i + 1) hr.2 hw.2 _ _ (same_bev bcfg cfg c d (i :: p) hr.1 hw.1 s1 s2 h)
end

theorem buildSpec_bev (bcfg : Cfg) (cfg : ACfg) (c : Choices) (ds : List WDoc)
    (hr : representableL bcfg.rootName cfg.isVoid ds = true) (hw : wellSpeltL cfg c.char [] 0 ds = true) :
    buildSpec bcfg (bevL cfg c [] 0 ds) = buildSpec bcfg (eventsL (toDocsL ds)) := by
  have h := same_bevL bcfg cfg c ds [] 0 hr hw _ _ (SameText.refl ⟨[⟨bcfg.rootName, none, []⟩], []⟩)
  simp only [buildSpec, sFlush_sameText h]

/-! ### `normalise` is C03's normal form `absorb` of the intended forest -/

/-- the pending text as `normalise` sees it -/
def pendOf (b : List PStr) : Option PStr :=
  match b with
  | [] => none
  | _ :: _ => some b.flatten

theorem flushP_pendOf (cfg : Cfg) (ctx : List Name) (b : List PStr) : flushP cfg ctx (pendOf b) = txtN cfg ctx b none := by
  cases b with
  | nil => rfl
  | cons x xs => simp [pendOf, flushP, txtN, textCls, classN, wsRule, wsVal]

theorem txtN_special (cfg : Cfg) (ctx : List Name) (s : PStr) (c : Cls) (hc : c ≠ 0) :
    txtN cfg ctx [s] (some c) = [Doc.text c (wsRule cfg ctx s)] := by
  simp [txtN, classN, hc, wsRule, wsVal]

theorem absorb_nil (cfg : Cfg) (ctx : List Name) (b : List PStr) : absorb cfg ctx b [] = ([], b) := by
  simp [absorb]

theorem absorb_cons (cfg : Cfg) (ctx : List Name) (b : List PStr) (d : Doc) (ds : List Doc) :
    absorb cfg ctx b (d :: ds) =
      ((absorb1 cfg ctx b d).1 ++ (absorb cfg ctx (absorb1 cfg ctx b d).2 ds).1, (absorb cfg ctx (absorb1 cfg ctx b d).2 ds).2) := by
  simp [absorb]

theorem absorb_append (cfg : Cfg) (ctx : List Name) : ∀ (xs ys : List Doc) (b : List PStr),
    absorb cfg ctx b (xs ++ ys) =
      ((absorb cfg ctx b xs).1 ++ (absorb cfg ctx (absorb cfg ctx b xs).2 ys).1, (absorb cfg ctx (absorb cfg ctx b xs).2 ys).2) := by
  intro xs
  induction xs with
  | nil => intro ys b; simp [absorb_nil]
  | cons d ds ih => intro ys b; simp only [List.cons_append, absorb_cons, ih, List.append_assoc]

mutual
theorem norm1_absorb (cfg : Cfg) : ∀ (d : WDoc) (ctx : List Name) (b : List PStr),
    norm1 cfg ctx (pendOf b) d = ((absorb cfg ctx b (toDocs d)).1, pendOf (absorb cfg ctx b (toDocs d)).2)
  | .text s, ctx, b => by
    cases s with
    | nil => simp [norm1, toDocs, absorb_nil]
    | cons x xs =>
      simp only [norm1, toDocs, List.isEmpty_cons, Bool.false_eq_true, if_false, absorb_cons, absorb_nil, absorb1, if_true]
      cases b with
      | nil => simp [pendOf]
      | cons y ys => simp [pendOf]
  | .special k s, ctx, b => by
    have hne := specialCls_ne_zero k s
    simp only [norm1, toDocs, absorb_cons, absorb_nil, absorb1, hne, if_false, flushP_pendOf, txtN_special cfg ctx _ _ hne]
    simp [pendOf]
  | .elem n a ks, ctx, b => by
    have ih := normL_absorb cfg ks (n :: ctx) []
    rw [show pendOf ([] : List PStr) = none from rfl] at ih
    simp only [norm1, toDocs, absorb_cons, absorb_nil, absorb1, flushP_pendOf, ih]
    simp [pendOf]
theorem normL_absorb (cfg : Cfg) : ∀ (ds : List WDoc) (ctx : List Name) (b : List PStr),
    normL cfg ctx (pendOf b) ds = ((absorb cfg ctx b (toDocsL ds)).1, pendOf (absorb cfg ctx b (toDocsL ds)).2)
  | [], ctx, b => by simp [normL, toDocsL, absorb_nil]
  | d :: ds, ctx, b => by
    simp only [normL, toDocsL, absorb_append, norm1_absorb cfg d ctx b, normL_absorb cfg ds ctx _]
end

theorem normalise_absorb (cfg : Cfg) (ds : List WDoc) :
    normalise cfg ds =
      (absorb cfg [cfg.rootName] [] (toDocsL ds)).1 ++ txtN cfg [cfg.rootName] (absorb cfg [cfg.rootName] [] (toDocsL ds)).2 none := by
  have h := normL_absorb cfg ds [cfg.rootName] []
  rw [show pendOf ([] : List PStr) = none from rfl] at h
  simp only [normalise, h, flushP_pendOf]

/-- **builder half of `emit_build`** (on the documented fold) -/
theorem buildSpec_bev_normalise (bcfg : Cfg) (cfg : ACfg) (c : Choices) (ds : List WDoc)
    (hr : representableL bcfg.rootName cfg.isVoid ds = true) (hw : wellSpeltL cfg c.char [] 0 ds = true) :
    buildSpec bcfg (bevL cfg c [] 0 ds) = normalise bcfg ds := by
  rw [buildSpec_bev bcfg cfg c ds hr hw, normalise_absorb]
  simp only [buildSpec, run_forest bcfg _ (noRootL_toDocsL bcfg cfg.isVoid ds hr), sFlush_eq, List.map_cons, List.map_nil,
    List.nil_append]
  rfl

end BS.Writer
