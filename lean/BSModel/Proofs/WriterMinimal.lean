import BSModel.Model.WriterText
/-! C05 — the writer's choices that make `writeText` the text the 'minimal' renderer writes, and the structural form of
    that text. Imports C04's writer (Model/WriterText.lean); nothing there is changed.

    `minimalChoices W`: every void element `<br/>`; `&`, `<`, `>` as `&amp;`, `&lt;`, `&gt;`, every other character
    literally (never cut); keywords `DOCTYPE` / `CDATA` in upper case. `wrenderL` is the text these choices give, by
    structural recursion over the document. -/
namespace BS.WriterMin
open BS.Builder BS.Writer BS.Adapter BS.WriterText

def nAmp : PStr := [97, 109, 112]
def nLt : PStr := [108, 116]
def nGt : PStr := [103, 116]

/-- how the 'minimal' formatter spells a character of text -/
def spell (ch : Nat) : CharSp :=
  if ch = 38 then .named nAmp else if ch = 60 then .named nLt else if ch = 62 then .named nGt else .lit false

/-- the text of that spelling -/
def escW (ch : Nat) : PStr :=
  if ch = 38 then erefText nAmp else if ch = 60 then erefText nLt else if ch = 62 then erefText nGt else [ch]

def nth : List WDoc → Nat → Option WDoc
  | [], _ => none
  | d :: _, 0 => some d
  | _ :: ds, i + 1 => nth ds i

/-- the node at a path given outermost index first -/
def lookL : List WDoc → List Nat → Option WDoc
  | _, [] => none
  | ds, i :: rest =>
    match nth ds i with
    | none => none
    | some d =>
      match rest with
      | [] => some d
      | k :: r =>
        match d with
        | .elem _ _ ks => lookL ks (k :: r)
        | _ => none

theorem lookL_zero (d : WDoc) (ds : List WDoc) : lookL (d :: ds) [0] = some d := rfl
theorem lookL_into (n : Name) (a : List (PStr × Option PStr)) (ks ds : List WDoc) (k : Nat) (r : List Nat) :
    lookL (.elem n a ks :: ds) (0 :: k :: r) = lookL ks (k :: r) := rfl
theorem lookL_succ (d : WDoc) (ds : List WDoc) (i : Nat) (rest : List Nat) :
    lookL (d :: ds) ((i + 1) :: rest) = lookL ds (i :: rest) := by
  rw [lookL, lookL]; rfl

/-- the `j`-th character of the text at path `p` (innermost index first, as the writer numbers occurrences) -/
def charAt (W : List WDoc) (p : Path) (j : Nat) : Option Nat :=
  match lookL W p.reverse with
  | some (.text s) => s[j]?
  | _ => none

/-- **the choices of the 'minimal' renderer** for the document `W` -/
def minimalChoices (W : List WDoc) : Choices :=
  { void := fun _ => .slash
    pos := fun _ => (0, 0)
    char := fun p j => match charAt W p j with | some ch => spell ch | none => .lit false
    kwCase := fun _ _ => true }

mutual
/-- the text of the document under those choices, structurally -/
def wrender (iv : Name → Bool) : WDoc → PStr
  | .elem n a ks => if iv n then openText n a true else openText n a false ++ (wrenderL iv ks ++ closeText n)
  | .text s => s.flatMap escW
  | .special k s => specialMarkup k (fun _ => true) s
def wrenderL (iv : Name → Bool) : List WDoc → PStr
  | [] => []
  | d :: ds => wrender iv d ++ wrenderL iv ds
end

/-! ### choices that agree with a sub-document -/

mutual
/-- the choices `c` are the minimal ones for the node `d` standing at path `p` -/
def Agree (c : Choices) : Path → WDoc → Prop
  | p, .elem _ _ ks => c.void p = .slash ∧ AgreeL c p 0 ks
  | p, .text s => ∀ j ch, s[j]? = some ch → c.char p j = spell ch
  | p, .special _ _ => ∀ n, c.kwCase p n = true
def AgreeL (c : Choices) : Path → Nat → List WDoc → Prop
  | _, _, [] => True
  | p, i, d :: ds => Agree c (i :: p) d ∧ AgreeL c p (i + 1) ds
end

theorem textOf_append (a b : List WTok) : textOf (a ++ b) = textOf a ++ textOf b := by simp [textOf]
theorem textOf_cons (a : WTok) (b : List WTok) : textOf (a :: b) = a.text ++ textOf b := by simp [textOf]
theorem textOf_flush (cur : PStr) : textOf (flushLitTok cur) = cur := by
  unfold flushLitTok
  split
  · rename_i h; have : cur = [] := by simpa using h
    simp [textOf, this]
  · simp [textOf, litTok]

theorem charToks_text (sp : Nat → CharSp) : ∀ (s : PStr) (i : Nat) (cur : PStr),
    (∀ j ch, s[j]? = some ch → sp (i + j) = spell ch) → textOf (charToks sp i cur s) = cur ++ s.flatMap escW
  | [], _, cur, _ => by simp [charToks, textOf_flush]
  | ch :: rest, i, cur, h => by
    have h0 : sp i = spell ch := by simpa using h 0 ch (by simp)
    have hr : ∀ j c2, rest[j]? = some c2 → sp (i + 1 + j) = spell c2 := by
      intro j c2 hj
      have := h (j + 1) c2 (by simpa using hj)
      rw [← this]; congr 1; omega
    simp only [charToks, h0, List.flatMap_cons]
    by_cases h38 : ch = 38
    · have e1 : spell ch = .named nAmp := by simp [spell, h38]
      have e2 : escW ch = erefText nAmp := by simp [escW, h38]
      simp [e1, e2, textOf_append, textOf_cons, textOf_flush, erefTok, charToks_text sp rest (i + 1) [] hr]
    · by_cases h60 : ch = 60
      · have e1 : spell ch = .named nLt := by simp [spell, h60]
        have e2 : escW ch = erefText nLt := by simp [escW, h60]
        simp [e1, e2, textOf_append, textOf_cons, textOf_flush, erefTok, charToks_text sp rest (i + 1) [] hr]
      · by_cases h62 : ch = 62
        · have e1 : spell ch = .named nGt := by simp [spell, h62]
          have e2 : escW ch = erefText nGt := by simp [escW, h62]
          simp [e1, e2, textOf_append, textOf_cons, textOf_flush, erefTok, charToks_text sp rest (i + 1) [] hr]
        · have e1 : spell ch = .lit false := by simp [spell, h38, h60, h62]
          have e2 : escW ch = [ch] := by simp [escW, h38, h60, h62]
          simp [e1, e2, charToks_text sp rest (i + 1) (cur ++ [ch]) hr, List.append_assoc]

mutual
/-- under agreeing choices the writer's text is the structural text -/
theorem wtoks_text (iv : Name → Bool) (c : Choices) : ∀ (d : WDoc) (p : Path), Agree c p d →
    textOf (wtoks iv c p d) = wrender iv d
  | .text s, p, h => by
    simp only [wtoks, wrender]
    have := charToks_text (c.char p) s 0 [] (by intro j ch hj; simpa using h j ch hj)
    simpa using this
  | .special k s, p, h => by
    have hk : c.kwCase p = fun _ => true := funext h
    simp [wtoks, wrender, textOf, specialWTok, hk]
  | .elem n a ks, p, h => by
    obtain ⟨hv, hk⟩ := h
    simp only [wtoks, wrender]
    by_cases hn : iv n = true
    · simp [hn, hv, textOf, openTok]
    · simp only [hn, Bool.false_eq_true, if_false, textOf_cons, textOf_append, wtoksL_text iv c ks p 0 hk]
      simp [openTok, closeTok, textOf]
theorem wtoksL_text (iv : Name → Bool) (c : Choices) : ∀ (ds : List WDoc) (p : Path) (i : Nat), AgreeL c p i ds →
    textOf (wtoksL iv c p i ds) = wrenderL iv ds
  | [], _, _, _ => by simp [wtoksL, wrenderL, textOf]
  | d :: ds, p, i, h => by
    simp only [wtoksL, wrenderL, textOf_append, wtoks_text iv c d (i :: p) h.1, wtoksL_text iv c ds p (i + 1) h.2]
end

/-! ### the minimal choices agree with the document they are read off -/

/-- the sub-forest `ds` stands at path `p` of `W`, its first node having index `i` -/
def Located (W : List WDoc) (p : Path) (i : Nat) (ds : List WDoc) : Prop :=
  ∀ j rest, lookL W (p.reverse ++ (i + j) :: rest) = lookL ds (j :: rest)

mutual
theorem agree_min (W : List WDoc) : ∀ (d : WDoc) (p : Path), lookL W p.reverse = some d →
    (∀ ks n a, d = .elem n a ks → Located W p 0 ks) → Agree (minimalChoices W) p d
  | .text s, p, h, _ => by
    intro j ch hj
    simp [minimalChoices, charAt, h, hj]
  | .special _ _, _, _, _ => by intro n; rfl
  | .elem n a ks, p, _, hl => ⟨rfl, agreeL_min W ks p 0 (hl ks n a rfl)⟩
theorem agreeL_min (W : List WDoc) : ∀ (ds : List WDoc) (p : Path) (i : Nat), Located W p i ds →
    AgreeL (minimalChoices W) p i ds
  | [], _, _, _ => trivial
  | d :: ds, p, i, h => by
    refine ⟨agree_min W d (i :: p) ?_ ?_, agreeL_min W ds p (i + 1) ?_⟩
    · have := h 0 []
      rw [lookL_zero] at this
      simpa using this
    · intro ks n a hd j rest
      have := h 0 (j :: rest)
      subst hd
      rw [lookL_into] at this
      simpa [List.append_assoc] using this
    · intro j rest
      have := h (j + 1) rest
      rw [lookL_succ] at this
      have e : i + (j + 1) = i + 1 + j := by omega
      rw [e] at this; exact this
end

theorem located_root (W : List WDoc) : Located W [] 0 W := by
  intro j rest; simp

/-- **the writer's text under the minimal choices is the structural text** -/
theorem writeText_minimal (iv : Name → Bool) (W : List WDoc) :
    writeText iv (minimalChoices W) W = wrenderL iv W :=
  wtoksL_text iv (minimalChoices W) W [] 0 (agreeL_min W W [] 0 (located_root W))

/-! ### every reference of the minimal choices denotes its character -/

/-- the three references the minimal writer uses mean what XML says -/
def EntOK (cfg : ACfg) : Prop :=
  cfg.entity nAmp = some [38] ∧ cfg.entity nLt = some [60] ∧ cfg.entity nGt = some [62]

theorem charsOK_min (cfg : ACfg) (he : EntOK cfg) (sp : Nat → CharSp) : ∀ (s : PStr) (i : Nat),
    (∀ j ch, s[j]? = some ch → sp (i + j) = spell ch) → charsOK cfg sp i s = true
  | [], _, _ => rfl
  | ch :: rest, i, h => by
    have h0 : sp i = spell ch := by simpa using h 0 ch (by simp)
    have hr : ∀ j c2, rest[j]? = some c2 → sp (i + 1 + j) = spell c2 := by
      intro j c2 hj
      have := h (j + 1) c2 (by simpa using hj)
      rw [← this]; congr 1; omega
    simp only [charsOK, h0, charsOK_min cfg he sp rest (i + 1) hr, Bool.and_true]
    by_cases h38 : ch = 38
    · subst h38
      have e1 : spell 38 = .named nAmp := by simp [spell]
      simp [e1, charOK, he.1]
    · by_cases h60 : ch = 60
      · subst h60
        have e1 : spell 60 = .named nLt := by simp [spell]
        simp [e1, charOK, he.2.1]
      · by_cases h62 : ch = 62
        · subst h62
          have e1 : spell 62 = .named nGt := by simp [spell]
          simp [e1, charOK, he.2.2]
        · have e1 : spell ch = .lit false := by simp [spell, h38, h60, h62]
          simp [e1, charOK]

mutual
theorem wellSpelt_agree (cfg : ACfg) (he : EntOK cfg) (c : Choices) : ∀ (d : WDoc) (p : Path), Agree c p d →
    wellSpelt cfg c.char p d = true
  | .text s, p, h => by
    simp only [wellSpelt]
    exact charsOK_min cfg he (c.char p) s 0 (by intro j ch hj; simpa using h j ch hj)
  | .special _ _, _, _ => rfl
  | .elem _ _ ks, p, h => by simp only [wellSpelt]; exact wellSpeltL_agree cfg he c ks p 0 h.2
theorem wellSpeltL_agree (cfg : ACfg) (he : EntOK cfg) (c : Choices) : ∀ (ds : List WDoc) (p : Path) (i : Nat), AgreeL c p i ds →
    wellSpeltL cfg c.char p i ds = true
  | [], _, _, _ => rfl
  | d :: ds, p, i, h => by
    simp only [wellSpeltL, wellSpelt_agree cfg he c d (i :: p) h.1, wellSpeltL_agree cfg he c ds p (i + 1) h.2, Bool.and_self]
end

theorem wellSpelt_minimal (cfg : ACfg) (he : EntOK cfg) (W : List WDoc) : WellSpelt cfg (minimalChoices W).char W :=
  wellSpeltL_agree cfg he (minimalChoices W) W [] 0 (agreeL_min W W [] 0 (located_root W))

end BS.WriterMin
