import BSModel.Model.Writer
/-! C04 (`emit_build`): a numeric reference — decimal or hexadecimal, any number of leading zeros, either case —
    parses back to its number, and `handle_charref` turns it into that character wherever `numericOK` holds -/
namespace BS.Writer
open BS.Builder BS.Adapter

/-- the fold inside `parseDigits` -/
def pfold (base : Nat) (dv : Nat → Option Nat) (acc : Option Nat) (s : PStr) : Option Nat :=
  s.foldl (fun acc c => match acc, dv c with | some a, some d => some (a * base + d) | _, _ => none) acc

theorem pfold_append (base : Nat) (dv : Nat → Option Nat) (acc : Option Nat) (s t : PStr) :
    pfold base dv acc (s ++ t) = pfold base dv (pfold base dv acc s) t := by
  simp [pfold, List.foldl_append]

theorem pfold_single (base : Nat) (dv : Nat → Option Nat) (a d c : Nat) (h : dv c = some d) :
    pfold base dv (some a) [c] = some (a * base + d) := by
  simp [pfold, h]

theorem parseDigits_eq (base : Nat) (dv : Nat → Option Nat) (s : PStr) (h : s ≠ []) :
    parseDigits base dv s = pfold base dv (some 0) s := by
  cases s with
  | nil => exact absurd rfl h
  | cons c cs =>
    simp only [parseDigits, List.isEmpty_cons, Bool.false_eq_true, if_false]
    rfl

theorem pfold_zeros (base : Nat) (dv : Nat → Option Nat) (h0 : dv 48 = some 0) :
    ∀ z, pfold base dv (some 0) (List.replicate z 48) = some 0 := by
  intro z
  induction z with
  | zero => rfl
  | succ z ih =>
    rw [List.replicate_succ']
    rw [pfold_append, ih, pfold_single base dv 0 0 48 h0]; simp

theorem pfold_digits (base : Nat) (dig : Nat → Nat) (hb : 1 < base) (dvo : Nat → Option Nat)
    (hd : ∀ k, k < base → dvo (dig k) = some k) :
    ∀ fuel n, n < base ^ fuel → pfold base dvo (some 0) (digits base dig fuel n) = some n := by
  intro fuel
  induction fuel with
  | zero =>
    intro n hn
    have : n = 0 := by simp at hn; omega
    subst this; rfl
  | succ f ih =>
    intro n hn
    simp only [digits]
    by_cases hlt : n < base
    · simp only [hlt, if_true]
      rw [pfold_single base dvo 0 n (dig n) (hd n hlt)]; simp
    · simp only [hlt, if_false]
      have hq : n / base < base ^ f := by
        rw [Nat.pow_succ] at hn
        exact Nat.div_lt_of_lt_mul (by rw [Nat.mul_comm]; exact hn)
      have hr : n % base < base := Nat.mod_lt _ (by omega)
      rw [pfold_append, ih (n / base) hq, pfold_single base dvo (n / base) (n % base) _ (hd _ hr)]
      congr 1
      exact Nat.div_add_mod' n base

theorem digits_ne_nil (base : Nat) (dig : Nat → Nat) (f n : Nat) : digits base dig (f + 1) n ≠ [] := by
  simp only [digits]
  split <;> simp

theorem digits_mem (base : Nat) (dig : Nat → Nat) (P : Nat → Prop) (hb : 0 < base) (hP : ∀ k, k < base → P (dig k)) :
    ∀ fuel n, ∀ x ∈ digits base dig fuel n, P x := by
  intro fuel
  induction fuel with
  | zero => intro n x hx; simp [digits] at hx
  | succ f ih =>
    intro n x hx
    simp only [digits] at hx
    split at hx
    · simp at hx; subst hx; exact hP n (by assumption)
    · rcases List.mem_append.mp hx with h | h
      · exact ih _ x h
      · simp at h; subst h; exact hP _ (Nat.mod_lt _ hb)

theorem lt_pow_succ_self (base n : Nat) (hb : 1 < base) : n < base ^ (n + 1) := by
  have h1 : n < base ^ n := Nat.lt_pow_self hb
  have h2 : base ^ n ≤ base ^ (n + 1) := Nat.pow_le_pow_right (by omega) (by omega)
  omega

/-! ### decimal -/

theorem decVal_decDig (k : Nat) (h : k < 10) : decVal (decDig k) = some k := by
  simp [decVal, decDig]; omega

theorem decName_mem (z n : Nat) : ∀ x ∈ decName z n, 48 ≤ x ∧ x ≤ 57 := by
  intro x hx
  simp only [decName] at hx
  rcases List.mem_append.mp hx with h | h
  · have := List.eq_of_mem_replicate h; omega
  · exact digits_mem 10 decDig (fun x => 48 ≤ x ∧ x ≤ 57) (by omega) (by intro k hk; simp [decDig]; omega) _ _ x h

theorem decName_ne_nil (z n : Nat) : decName z n ≠ [] := by
  simp only [decName]
  intro h
  have := (List.append_eq_nil_iff.mp h).2
  exact digits_ne_nil 10 decDig n n this

theorem parse_decName (z n : Nat) : parseDigits 10 decVal (decName z n) = some n := by
  rw [parseDigits_eq 10 decVal _ (decName_ne_nil z n)]
  simp only [decName]
  rw [pfold_append, pfold_zeros 10 decVal (by simp [decVal]) z]
  exact pfold_digits 10 decDig (by omega) decVal decVal_decDig (n + 1) n (lt_pow_succ_self 10 n (by omega))

theorem number_decName (cfg : ACfg) (z n : Nat) (hlen : (decName z n).length ≤ cfg.maxDigits) :
    charrefNumber cfg (decName z n) = some n := by
  have hne := decName_ne_nil z n
  have hp := parse_decName z n
  have hm := decName_mem z n
  cases hd : decName z n with
  | nil => exact absurd hd hne
  | cons d ds =>
    rw [hd] at hp hlen hm
    have hdr := hm d (by simp)
    have h1 : d ≠ 120 := by omega
    have h2 : d ≠ 88 := by omega
    have h3 : ¬ (d :: ds).length > cfg.maxDigits := by omega
    unfold charrefNumber
    simp only [List.head?_cons, Option.some.injEq, h1, h2, if_false, h3, hp]

/-! ### hexadecimal -/

theorem hexVal_hexDig (ud : Bool) (k : Nat) (h : k < 16) : hexVal (hexDig ud k) = some k := by
  unfold hexVal hexDig
  by_cases hk : k < 10
  · simp only [hk, if_true]
    have : 48 ≤ 48 + k ∧ 48 + k ≤ 57 := by omega
    simp only [this, and_self, if_true]; congr 1; omega
  · simp only [hk, if_false]
    cases ud
    · simp only [Bool.false_eq_true, if_false]
      have h1 : ¬ (48 ≤ 87 + k ∧ 87 + k ≤ 57) := by omega
      have h2 : 97 ≤ 87 + k ∧ 87 + k ≤ 102 := by omega
      simp only [h1, if_false, h2, and_self, if_true]; congr 1; omega
    · simp only [if_true]
      have h1 : ¬ (48 ≤ 55 + k ∧ 55 + k ≤ 57) := by omega
      have h2 : ¬ (97 ≤ 55 + k ∧ 55 + k ≤ 102) := by omega
      have h3 : 65 ≤ 55 + k ∧ 55 + k ≤ 70 := by omega
      simp only [h1, if_false, h2, h3, and_self, if_true]; congr 1; omega

/-- the part of a hexadecimal reference after the `x` -/
def hexBody (ud : Bool) (z n : Nat) : PStr := List.replicate z 48 ++ digits 16 (hexDig ud) (n + 1) n

theorem hexDig_range (ud : Bool) (k : Nat) (h : k < 16) : 48 ≤ hexDig ud k ∧ hexDig ud k ≤ 102 ∧ hexDig ud k ≠ 88 := by
  unfold hexDig
  by_cases hk : k < 10
  · simp only [hk, if_true]; omega
  · simp only [hk, if_false]
    cases ud <;> simp <;> omega

theorem hexBody_mem (ud : Bool) (z n : Nat) : ∀ x ∈ hexBody ud z n, x ≠ 120 ∧ x ≠ 88 := by
  intro x hx
  simp only [hexBody] at hx
  rcases List.mem_append.mp hx with h | h
  · have := List.eq_of_mem_replicate h; omega
  · have := digits_mem 16 (hexDig ud) (fun x => 48 ≤ x ∧ x ≤ 102 ∧ x ≠ 88) (by omega) (hexDig_range ud) _ _ x h
    omega

theorem hexBody_ne_nil (ud : Bool) (z n : Nat) : hexBody ud z n ≠ [] := by
  simp only [hexBody]
  intro h
  exact digits_ne_nil 16 (hexDig ud) n n (List.append_eq_nil_iff.mp h).2

theorem parse_hexBody (ud : Bool) (z n : Nat) : parseDigits 16 hexVal (hexBody ud z n) = some n := by
  rw [parseDigits_eq 16 hexVal _ (hexBody_ne_nil ud z n)]
  simp only [hexBody]
  rw [pfold_append, pfold_zeros 16 hexVal (by simp [hexVal]) z]
  exact pfold_digits 16 (hexDig ud) (by omega) hexVal (hexVal_hexDig ud) (n + 1) n
    (lt_pow_succ_self 16 n (by omega))

theorem lstrip_body (c : Nat) (s : PStr) (hs : s ≠ []) (h : ∀ x ∈ s, x ≠ c) : lstrip c s = s := by
  cases s with
  | nil => exact absurd rfl hs
  | cons d ds =>
    have : d ≠ c := h d (by simp)
    simp [lstrip, this]

theorem number_hexName (cfg : ACfg) (ux ud : Bool) (z n : Nat) :
    charrefNumber cfg (hexName ux ud z n) = some n := by
  have hb : hexName ux ud z n = (if ux then 88 else 120) :: hexBody ud z n := rfl
  have hne := hexBody_ne_nil ud z n
  have hm := hexBody_mem ud z n
  rw [hb]
  unfold charrefNumber
  cases ux
  · simp only [Bool.false_eq_true, if_false, List.head?_cons, if_true, lstrip]
    rw [lstrip_body 120 _ hne (fun x hx => (hm x hx).1)]
    exact parse_hexBody ud z n
  · have : ¬ ((88 : Nat) = 120) := by omega
    simp only [if_true, List.head?_cons, Option.some.injEq, this, if_false, lstrip]
    rw [lstrip_body 88 _ hne (fun x hx => (hm x hx).2)]
    exact parse_hexBody ud z n

/-! ### `handle_charref` -/

theorem handle_of_number (cfg : ACfg) (name : PStr) (n : Nat) (hnum : charrefNumber cfg name = some n)
    (hok : numericOK cfg n = true) : handleCharref cfg name = [n] := by
  unfold numericOK at hok
  simp only [Bool.and_eq_true, decide_eq_true_eq, Bool.or_eq_true] at hok
  obtain ⟨hmax, hdet⟩ := hok
  have hchr : chrOK n = true := by simp [chrOK]; exact hmax
  unfold handleCharref
  rw [hnum]
  simp only
  by_cases h256 : n < 256
  · have hn : ¬ 256 ≤ n := by omega
    simp only [h256, if_true]
    rcases hdet with hdet | hdet
    · exact absurd hdet hn
    · cases hcp : cfg.cp1252 n with
      | some c =>
        rw [hcp] at hdet
        simp only [beq_iff_eq] at hdet
        simp [hdet]
      | none =>
        rw [hcp] at hdet
        simp only
        cases ho : cfg.origDecode n with
        | none => simp [hchr]
        | some d =>
          rw [ho] at hdet
          simp only [Bool.or_eq_true, beq_iff_eq] at hdet
          simp only
          rcases hdet with hd | hd
          · simp [hd, hchr]
          · subst hd; simp
  · simp [h256, hchr]

/-- **a decimal reference denotes its character** — any number of leading zeros, as long as `int()` accepts the
    digit string — for every code point outside the Windows-1252 detour -/
theorem dec_denotes (cfg : ACfg) (z n : Nat) (hok : numericOK cfg n = true)
    (hlen : (decName z n).length ≤ cfg.maxDigits) : handleCharref cfg (decName z n) = [n] :=
  handle_of_number cfg _ n (number_decName cfg z n hlen) hok

/-- **a hexadecimal reference denotes its character**: `x` or `X`, any number of leading zeros, digits in either
    case, no length limit (`int(s, 16)` has none) -/
theorem hex_denotes (cfg : ACfg) (ux ud : Bool) (z n : Nat) (hok : numericOK cfg n = true) :
    handleCharref cfg (hexName ux ud z n) = [n] :=
  handle_of_number cfg _ n (number_hexName cfg ux ud z n) hok

end BS.Writer
