import BSModel.Model.Writer
/-! C04 (`emit_build`): what can be read off `normalise` — the element skeleton, the tag names in document order,
    the special strings — and the attribute dictionary of a duplicate-free attribute list -/
namespace BS.Writer
open BS.Builder BS.Adapter

/-! ### skeleton -/

theorem skelL_append : ∀ (a b : List Doc), skelL (a ++ b) = skelL a ++ skelL b := by
  intro a
  induction a with
  | nil => intro b; simp [skelL]
  | cons d ds ih => intro b; simp [skelL, ih, List.append_assoc]

theorem skelL_flushP (cfg : Cfg) (ctx : List Name) (pend : Option PStr) : skelL (flushP cfg ctx pend) = [] := by
  cases pend <;> simp [flushP, skelL, skel]

mutual
theorem skel_norm1 (cfg : Cfg) : ∀ (d : WDoc) (ctx : List Name) (pend : Option PStr),
    skelL (norm1 cfg ctx pend d).1 = wskel d
  | .text s, ctx, pend => by simp [norm1, skelL, wskel]
  | .special k s, ctx, pend => by simp [norm1, skelL_append, skelL_flushP, skelL, skel, wskel]
  | .elem n a ks, ctx, pend => by
    simp [norm1, skelL_append, skelL_flushP, skelL, skel, wskel, skel_normL cfg ks (n :: ctx) none]
theorem skel_normL (cfg : Cfg) : ∀ (ds : List WDoc) (ctx : List Name) (pend : Option PStr),
    skelL (normL cfg ctx pend ds).1 = wskelL ds
  | [], ctx, pend => by simp [normL, skelL, wskelL]
  | d :: ds, ctx, pend => by
    simp [normL, skelL_append, wskelL, skel_norm1 cfg d ctx pend, skel_normL cfg ds ctx _]
end

theorem skel_normalise (cfg : Cfg) (ds : List WDoc) : skelL (normalise cfg ds) = wskelL ds := by
  simp [normalise, skelL_append, skelL_flushP, skel_normL]

/-! ### tag names in document order -/

/-- names of the elements of a built tree in document order -/
def namesL (t : List Doc) : List Name := (elemsOfL t).map (·.1)

theorem elemsOfL_append : ∀ (a b : List Doc), elemsOfL (a ++ b) = elemsOfL a ++ elemsOfL b := by
  intro a
  induction a with
  | nil => intro b; simp [elemsOfL]
  | cons d ds ih => intro b; simp [elemsOfL, ih, List.append_assoc]

theorem namesL_append (a b : List Doc) : namesL (a ++ b) = namesL a ++ namesL b := by
  simp [namesL, elemsOfL_append]

theorem namesL_flushP (cfg : Cfg) (ctx : List Name) (pend : Option PStr) : namesL (flushP cfg ctx pend) = [] := by
  cases pend <;> simp [flushP, namesL, elemsOfL, elemsOf]

mutual
theorem names_norm1 (cfg : Cfg) : ∀ (d : WDoc) (ctx : List Name) (pend : Option PStr),
    namesL (norm1 cfg ctx pend d).1 = (wtags d).map (·.1)
  | .text s, ctx, pend => by simp [norm1, namesL, elemsOfL, wtags]
  | .special k s, ctx, pend => by
    simp only [norm1, namesL_append, namesL_flushP, wtags]
    simp [namesL, elemsOfL, elemsOf]
  | .elem n a ks, ctx, pend => by
    have ih := names_normL cfg ks (n :: ctx) none
    simp only [norm1, namesL_append, namesL_flushP, wtags, List.nil_append, List.map_cons]
    simp only [namesL, elemsOfL, elemsOf, List.append_nil, List.map_cons] at ih ⊢
    rw [elemsOfL_append, List.map_append, ih]
    have := namesL_flushP cfg (n :: ctx) (normL cfg (n :: ctx) none ks).2
    simp only [namesL] at this
    simp [this]
theorem names_normL (cfg : Cfg) : ∀ (ds : List WDoc) (ctx : List Name) (pend : Option PStr),
    namesL (normL cfg ctx pend ds).1 = (wtagsL ds).map (·.1)
  | [], ctx, pend => by simp [normL, namesL, elemsOfL, wtagsL]
  | d :: ds, ctx, pend => by
    simp [normL, namesL_append, wtagsL, names_norm1 cfg d ctx pend, names_normL cfg ds ctx _]
end

theorem names_normalise (cfg : Cfg) (ds : List WDoc) : namesL (normalise cfg ds) = (wtagsL ds).map (·.1) := by
  simp [normalise, namesL_append, namesL_flushP, names_normL]

/-! ### special strings -/

/-- the classes string containers give to text are not among the five special-string classes -/
def ContainersApart (cfg : Cfg) : Prop := ∀ n c, cfg.container n = some c → isSpecialCls c = false

theorem textCls_not_special (cfg : Cfg) (h : ContainersApart cfg) (ctx : List Name) :
    isSpecialCls (textCls cfg ctx) = false := by
  unfold textCls
  cases hf : ctx.find? (fun n => (cfg.container n).isSome) with
  | none => simp [isSpecialCls]
  | some n =>
    simp only [Option.bind_some]
    cases hc : cfg.container n with
    | none => simp [isSpecialCls]
    | some c => simpa using h n c hc

theorem specialsL_append : ∀ (a b : List Doc), specialsL (a ++ b) = specialsL a ++ specialsL b := by
  intro a
  induction a with
  | nil => intro b; simp [specialsL]
  | cons d ds ih => intro b; simp [specialsL, ih, List.append_assoc]

theorem specialsL_flushP (cfg : Cfg) (h : ContainersApart cfg) (ctx : List Name) (pend : Option PStr) :
    specialsL (flushP cfg ctx pend) = [] := by
  cases pend with
  | none => simp [flushP, specialsL]
  | some s => simp [flushP, specialsL, specials, textCls_not_special cfg h ctx]

theorem specialCls_special (k : Kind) (s : PStr) : isSpecialCls (specialText k s).1 = true := by
  cases k <;> simp [specialText, isSpecialCls, clsComment, clsCData, clsDoctype, clsPI, clsDecl]
  split <;> simp

mutual
theorem specials_norm1 (cfg : Cfg) (h : ContainersApart cfg) : ∀ (d : WDoc) (ctx : List Name) (pend : Option PStr),
    specialsL (norm1 cfg ctx pend d).1 = wspecials cfg ctx d
  | .text s, ctx, pend => by simp [norm1, specialsL, wspecials]
  | .special k s, ctx, pend => by
    simp [norm1, specialsL_append, specialsL_flushP cfg h, specialsL, specials, wspecials, specialCls_special]
  | .elem n a ks, ctx, pend => by
    simp [norm1, specialsL_append, specialsL_flushP cfg h, specialsL, specials, wspecials,
      specials_normL cfg h ks (n :: ctx) none]
theorem specials_normL (cfg : Cfg) (h : ContainersApart cfg) : ∀ (ds : List WDoc) (ctx : List Name) (pend : Option PStr),
    specialsL (normL cfg ctx pend ds).1 = wspecialsL cfg ctx ds
  | [], ctx, pend => by simp [normL, specialsL, wspecialsL]
  | d :: ds, ctx, pend => by
    simp [normL, specialsL_append, wspecialsL, specials_norm1 cfg h d ctx pend, specials_normL cfg h ds ctx _]
end

theorem specials_normalise (cfg : Cfg) (h : ContainersApart cfg) (ds : List WDoc) :
    specialsL (normalise cfg ds) = wspecialsL cfg [cfg.rootName] ds := by
  simp [normalise, specialsL_append, specialsL_flushP cfg h, specials_normL cfg h]

/-- C03's whitespace rule leaves a string alone unless it consists of ASCII spaces only -/
theorem wsRule_keep (cfg : Cfg) (ctx : List Name) (s : PStr)
    (h : ctx.any cfg.preserve = true ∨ s.all (fun c => cfg.asciiSpaces.contains c) = false) : wsRule cfg ctx s = s := by
  unfold wsRule
  rcases h with h | h
  · simp [h]
  · simp only [h, Bool.and_false, Bool.false_eq_true, if_false]

/-! ### attributes -/

theorem getAttr_cons_none (e : PStr × AVal) (es : List (PStr × AVal)) (k : PStr) :
    getAttr (e :: es) k = none ↔ (e.1 == k) = false ∧ getAttr es k = none := by
  simp only [getAttr, List.find?_cons]
  cases h : e.1 == k <;> simp

theorem setAttr_of_none : ∀ (d : List (PStr × AVal)) (k : PStr) (v : AVal), getAttr d k = none →
    setAttr d k v = d ++ [(k, v)] := by
  intro d
  induction d with
  | nil => intro k v _; rfl
  | cons e es ih =>
    intro k v h
    obtain ⟨h1, h2⟩ := (getAttr_cons_none e es k).mp h
    simp [setAttr, h1, ih k v h2]

theorem getAttr_append_none : ∀ (d : List (PStr × AVal)) (k k' : PStr) (v : AVal), getAttr d k' = none → (k == k') = false →
    getAttr (d ++ [(k, v)]) k' = none := by
  intro d
  induction d with
  | nil => intro k k' v _ hk; simp [getAttr, hk]
  | cons e es ih =>
    intro k k' v h hk
    obtain ⟨h1, h2⟩ := (getAttr_cons_none e es k').mp h
    rw [List.cons_append, getAttr_cons_none]
    exact ⟨h1, ih k k' v h2 hk⟩

theorem addAttr_of_none (pol : DupPolicy) (d : List (PStr × AVal)) (k : PStr) (v : Option PStr) (h : getAttr d k = none) :
    addAttr pol d k v = d ++ [(k, .one (v.getD []))] := by
  simp [addAttr, h, setAttr_of_none d k _ h]

theorem attrDict_fold (pol : DupPolicy) : ∀ (attrs : List (PStr × Option PStr)) (d : List (PStr × AVal)),
    (∀ kv ∈ attrs, getAttr d kv.1 = none) → keysNodup (attrs.map (·.1)) = true →
    attrs.foldl (fun d kv => addAttr pol d kv.1 kv.2) d = d ++ plainAttrs attrs := by
  intro attrs
  induction attrs with
  | nil => intro d _ _; simp [plainAttrs]
  | cons kv rest ih =>
    intro d hd hn
    simp only [List.map_cons, keysNodup, Bool.and_eq_true, Bool.not_eq_true'] at hn
    have h0 := hd kv (by simp)
    simp only [List.foldl_cons, addAttr_of_none pol d kv.1 kv.2 h0]
    rw [ih _ ?_ hn.2]
    · simp [plainAttrs]
    · intro kv' hkv'
      apply getAttr_append_none _ _ _ _ (hd kv' (by simp [hkv']))
      cases hk : kv.1 == kv'.1 with
      | false => rfl
      | true =>
        have : kv.1 = kv'.1 := by simpa using hk
        have hmem : (rest.map (·.1)).contains kv.1 = true := by
          simp only [List.contains_iff_mem, List.mem_map]
          exact ⟨kv', hkv', this.symm⟩
        rw [hmem] at hn; cases hn.1

/-- **no name repeats ⇒ the dictionary is the list**: names, values (a missing value as the empty string) and
    order are kept, under every duplicate policy -/
theorem attrDict_nodup (pol : DupPolicy) (attrs : List (PStr × Option PStr)) (hn : keysNodup (attrs.map (·.1)) = true) :
    attrDict pol attrs = plainAttrs attrs := by
  have := attrDict_fold pol attrs [] (by intro kv _; rfl) hn
  simpa [attrDict] using this

mutual
theorem infos_attrs (bcfg : Cfg) (cfg : ACfg) (c : Choices) : ∀ (d : WDoc) (p : Path),
    representable bcfg.rootName cfg.isVoid d = true →
    (infos cfg c p d).map (·.attrs) = (wtags d).map (fun t => attrDict cfg.dup t.2)
  | .text s, p, _ => by simp [infos, wtags]
  | .special k s, p, _ => by simp [infos, wtags]
  | .elem n a ks, p, hr => by
    simp only [representable, Bool.and_eq_true, Bool.or_eq_true, Bool.not_eq_true'] at hr
    by_cases hv : cfg.isVoid n = true
    · have hk : ks = [] := by
        rcases hr.1.2 with h1 | h1
        · rw [hv] at h1; cases h1
        · cases ks <;> simp_all
      subst hk
      simp [infos, hv, wtags, wtagsL, mkInfo]
    · have hv' : cfg.isVoid n = false := by simpa using hv
      simp [infos, hv', wtags, mkInfo, infosL_attrs bcfg cfg c ks p 0 hr.2]
theorem infosL_attrs (bcfg : Cfg) (cfg : ACfg) (c : Choices) : ∀ (ds : List WDoc) (p : Path) (i : Nat),
    representableL bcfg.rootName cfg.isVoid ds = true →
    (infosL cfg c p i ds).map (·.attrs) = (wtagsL ds).map (fun t => attrDict cfg.dup t.2)
  | [], p, i, _ => by simp [infosL, wtagsL]
  | d :: ds, p, i, hr => by
    simp only [representableL, Bool.and_eq_true] at hr
    simp [infosL, wtagsL, infos_attrs bcfg cfg c d (i :: p) hr.1, infosL_attrs bcfg cfg c ds p (i + 1) hr.2]
end

/-! ### `WellSpelt` and `startInfos` look at their own part of the choices only -/

mutual
theorem infos_congr (cfg : ACfg) (c1 c2 : Choices) (h : c1.pos = c2.pos) : ∀ (d : WDoc) (p : Path),
    infos cfg c1 p d = infos cfg c2 p d
  | .text s, p => rfl
  | .special k s, p => rfl
  | .elem n a ks, p => by simp [infos, h, infosL_congr cfg c1 c2 h ks p 0]
theorem infosL_congr (cfg : ACfg) (c1 c2 : Choices) (h : c1.pos = c2.pos) : ∀ (ds : List WDoc) (p : Path) (i : Nat),
    infosL cfg c1 p i ds = infosL cfg c2 p i ds
  | [], p, i => rfl
  | d :: ds, p, i => by simp [infosL, infos_congr cfg c1 c2 h d (i :: p), infosL_congr cfg c1 c2 h ds p (i + 1)]
end

end BS.Writer
