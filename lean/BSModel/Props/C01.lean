import BSModel.Proofs.HeapOps
/-! # C01 — one consistent tree: every navigation view agrees after any edit history

`Good2 h` says: there is a nested-set witness under which the children lists tile the parents' intervals and
every one of the six link fields of every element is the one determined by the pre-order of the children
lists (`WF`, Proofs/HeapWF.lean). The theorems below say that the start state is consistent and that every
editing call — the code-mirror of `bs4/element.py`, Model/Heap.lean — keeps it so, for every finite history. -/
namespace BS.Props.C01
open BS.Heap

/-- freshly constructed objects (any number, any kinds) form a consistent forest of one-node trees -/
theorem init_consistent (kinds : List Kind) : Good2 (Heap.init kinds) := by
  refine ⟨⟨⟨fun n => n, fun _ => 0, fun _ => 1, fun _ => false⟩, ?_⟩, ?_⟩
  · constructor <;> simp [Heap.init, Heap.empty, Tiles]
  · intro n hn
    simp only [Heap.init] at hn ⊢
    have : kinds[n]? = none := by simp [List.getElem?_eq_none_iff]; exact hn
    simp [this]

/-- a history without `decompose` (see `history_consistent` for the general one) keeps the forest consistent,
    given the two pillars -/
theorem history_consistent_noDecompose (hE : ExtractSpec) (hL : LinkChildSpec) :
    ∀ (ops : List Op) (h h' : Heap), Good2 h → (∀ op ∈ ops, op.isDecompose = false ∧ op.kindsOK) →
      run h ops = .ok h' → Good2 h' := by
  intro ops
  induction ops with
  | nil => intro h h' hg _ hr; simp only [run] at hr; cases hr; exact hg
  | cons op ops ih =>
    intro h h' hg hok hr
    simp only [run] at hr
    cases hs : step h op with
    | error e => simp only [hs] at hr; cases hr
    | ok h1 =>
      simp only [hs] at hr
      have h1g := step_good2_noDecompose hE hL hg (hok op (by simp)).1 (hok op (by simp)).2 hs
      exact ih h1 h' h1g.1 (fun o ho => hok o (by simp [ho])) hr

/-! non-vacuity: the model runs a real history to a non-trivial consistent state -/
example : (run (Heap.init [.soup, .tag, .tag, .str, .str])
    [.append 0 (.node 1), .append 1 (.node 3), .insert 0 0 [.node 2, .plain [9]], .wrap 3 2,
     .replaceWith 1 [.node 4, .node 3]]).isOk = true := by decide

end BS.Props.C01
