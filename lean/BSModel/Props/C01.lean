import BSModel.Proofs.HeapOps
import BSModel.Proofs.HeapExtract
import BSModel.Proofs.HeapLink
import BSModel.Proofs.HeapIter
import BSModel.Proofs.HeapDecompose
import BSModel.Proofs.ParseLinkInv
import BSModel.Proofs.HeapCopySpec
import BSModel.Proofs.HeapCopyIso
/-! # C01 — one consistent tree: every navigation view agrees after any edit history

`Good h` says: there is a nested-set witness under which the children lists tile the parents' intervals and
every one of the six link fields of every element is the one determined by the pre-order of the children
lists (`WF`, Proofs/HeapWF.lean). The theorems below say that the start state is consistent, that every
editing call — the code-mirror of `bs4/element.py` in Model/Heap.lean — keeps it so, for every finite history,
and that in a consistent heap all six link fields and all seven iterators are slices of the pre-order walk
of the children lists (`docOrder`). -/
namespace BS.Props.C01
open BS.Heap

/-- freshly constructed objects (any number, any kinds) form a consistent forest of one-node trees -/
theorem init_consistent (kinds : List Kind) : Good2 (Heap.init kinds) := by
  refine ⟨⟨⟨fun n => n, fun _ => 0, fun _ => 1, fun _ => false⟩, ?_⟩, ?_⟩
  · constructor <;> simp [Heap.init, Heap.empty, Tiles]
  · intro n hn
    simp only [Heap.init] at hn ⊢
    have : kinds[n]? = none := by simp [List.getElem?_eq_none_iff]; exact hn
    simp [this]

/-- **every editing call** (append, insert, extend, insert_before, insert_after, replace_with, wrap, unwrap,
    extract, clear, smooth, `.string=`; single- and multi-argument, arguments anywhere in the forest, plain
    strings, whole BeautifulSoup objects) that returns, returns a consistent forest. Calls that would put an
    element beneath itself are outside the quantifier (the model reports `excluded` for them). -/
theorem call_keeps_consistent {h h' : Heap} {op : Op} (hg : Good2 h) (hd : op.isDecompose = false) (hk : op.kindsOK)
    (hs : step h op = .ok h') : Good2 h' :=
  (step_good2_noDecompose extract_spec linkChild_spec hg hd hk hs).1

/-- **every finite history** of such calls keeps the forest consistent (`decompose` is covered by
    `history_consistent`, which needs the wipe-out lemma) -/
theorem history_consistent_noDecompose :
    ∀ (ops : List Op) (h h' : Heap), Good2 h → (∀ op ∈ ops, op.isDecompose = false ∧ op.kindsOK) →
      run h ops = .ok h' → Good2 h' := by
  intro ops
  induction ops with
  | nil => intro h h' hg _ hr; simp only [run] at hr; cases hr; exact hg
  | cons op ops ih =>
    intro h h' hg hok hr
    simp only [run] at hr
    cases hs : step h op with
    | error e => simp only [hs] at hr; cases hr
    | ok h1 =>
      simp only [hs] at hr
      exact ih h1 h' (call_keeps_consistent hg (hok op (by simp)).1 (hok op (by simp)).2 hs)
        (fun o ho => hok o (by simp [ho])) hr

/-- **every editing call, `decompose` included**, that returns, returns a consistent forest. For `decompose`
    the model's guard excludes one state only: a BeautifulSoup object that has children and stands outside the
    element chain (the state right after parsing), where the Python wipes the object alone and leaves its
    children pointing at it. -/
theorem every_call_keeps_consistent {h h' : Heap} {op : Op} (hg : Good2 h) (hk : op.kindsOK)
    (hs : step h op = .ok h') : Good2 h' :=
  (step_good2 hg hk hs).1

/-- **every finite history of editing calls** — all fourteen of them, `decompose` included — keeps the forest
    consistent -/
theorem history_consistent :
    ∀ (ops : List Op) (h h' : Heap), Good2 h → (∀ op ∈ ops, op.kindsOK) → run h ops = .ok h' → Good2 h' := by
  intro ops
  induction ops with
  | nil => intro h h' hg _ hr; simp only [run] at hr; cases hr; exact hg
  | cons op ops ih =>
    intro h h' hg hok hr
    simp only [run] at hr
    cases hs : step h op with
    | error e => simp only [hs] at hr; cases hr
    | ok h1 =>
      simp only [hs] at hr
      exact ih h1 h' (every_call_keeps_consistent hg (hok op (by simp)) hs)
        (fun o ho => hok o (by simp [ho])) hr

/-- **`decompose` destroys exactly the subtree.** On a consistent forest, a `decompose()` that returns is the
    `extract()` of the element (which never fails) followed by the wipe-out: afterwards every element of the
    subtree of `x` — the elements of the pre-order walk of the children lists from `x` *before* the call — is
    unlinked from everything (no parent, no siblings, no previous or next element, no children), and no other
    element differs in a single link or in its children list from the state the `extract()` alone produces.
    No element changes its class or its text, nothing is allocated, and the result is again consistent. -/
theorem decompose_destroys_subtree {h h' : Heap} {x : Nat} (hg : Good h) (hd : decompose h x = .ok h') :
    ∃ h1, extract h x = .ok h1 ∧ Good h1 ∧ Good h' ∧
      (∀ m, m ∈ docOrder h x →
        h'.parent m = none ∧ h'.ps m = none ∧ h'.ns m = none ∧ h'.pe m = none ∧ h'.ne m = none ∧
        h'.kids m = []) ∧
      (∀ m, m ∉ docOrder h x →
        h'.parent m = h1.parent m ∧ h'.ps m = h1.ps m ∧ h'.ns m = h1.ns m ∧ h'.pe m = h1.pe m ∧
        h'.ne m = h1.ne m ∧ h'.kids m = h1.kids m) ∧
      h'.kind = h.kind ∧ h'.val = h.val ∧ h'.next = h.next := by
  obtain ⟨w, hwf⟩ := hg
  obtain ⟨h1, w1, he, hwf1, _, hkind, hval, hnext, hW, hmem⟩ := decompose_wiped hwf hd
  refine ⟨h1, he, ⟨w1, hwf1⟩, ⟨_, wipe_wf hwf1 hW⟩, ?_, ?_, hW.kind.trans hkind, hW.val.trans hval,
    hW.next.trans hnext⟩
  · intro m hm
    have hm := (hmem m).mpr hm
    exact ⟨by rw [hW.parent m, if_pos hm], by rw [hW.ps m, if_pos hm], by rw [hW.ns m, if_pos hm],
      by rw [hW.pe m, if_pos hm], by rw [hW.ne m, if_pos hm], by rw [hW.kids m, if_pos hm]⟩
  · intro m hm
    have hm : ¬ w1.tree m = x := fun hc => hm ((hmem m).mp hc)
    exact ⟨by rw [hW.parent m, if_neg hm], by rw [hW.ps m, if_neg hm], by rw [hW.ns m, if_neg hm],
      by rw [hW.pe m, if_neg hm], by rw [hW.ne m, if_neg hm], by rw [hW.kids m, if_neg hm]⟩

/-- `extract` never fails on a consistent forest, and the element it returns is a self-contained tree:
    no parent, no siblings, no previous element, and its last element has no next element -/
theorem fragment_detached {h : Heap} (x : Nat) (hg : Good h) :
    ∃ h', extract h x = .ok h' ∧ Good h' ∧ h'.parent x = none ∧ h'.ps x = none ∧ h'.ns x = none ∧ h'.pe x = none ∧
      ∀ l, l ∈ docOrder h' x → (docOrder h' x).getLast? = some l → h'.ne l = none := by
  obtain ⟨w, hwf⟩ := hg
  obtain ⟨h', he, hwf', _⟩ := extract_spec h w x hwf
  obtain ⟨d1, d2, d3, d4⟩ := extract_detached hwf he
  refine ⟨h', he, ⟨_, hwf'⟩, d1, d2, d3, d4, ?_⟩
  intro l hl hlast
  have hrl := root_no_links hwf' d1
  apply hrl.2.2.2 l hl
  -- the last element of the document order sits at position size - 1
  have hlen := docOrder_length hwf' x
  have hne : docOrder h' x ≠ [] := by intro hc; rw [hc] at hl; cases hl
  have hidx : (docOrder h' x)[(docOrder h' x).length - 1]? = some l := by
    rw [← hlast, List.getLast?_eq_getElem?]
  have := (docOrder_getElem? hwf' d1 _ l).mp hidx
  have hsz := (cutWit w x |> fun w' => hwf'.size_pos x)
  omega

/-- **all views are the pre-order of the children lists.** In a consistent heap there are, for every element
    `x`, a root `root x` and an index `idx x` such that `x` is the `idx x`-th element of the duplicate-free
    document order (recursive pre-order of the children lists) of the tree of `root x`, and every link field
    and every iterator of `x` is the corresponding slice of that list / of the parent's children list.
    The only freedom: a BeautifulSoup root may stand outside the element chain (then its `next_element` is
    `None`, its `next_elements` empty, and it is missing from the end of `previous_elements`). -/
theorem views_are_preorder {h : Heap} (hg : Good h) :
    ∃ (root idx : Nat → Nat), ∀ x,
      h.parent (root x) = none ∧ (docOrder h (root x)).Nodup ∧ (docOrder h (root x))[idx x]? = some x ∧
      (∀ m, m ∈ docOrder h (root x) ↔ root m = root x) ∧
      -- next_element / next_elements
      ((h.ne x = (docOrder h (root x))[idx x + 1]? ∧ nextElements h x = (docOrder h (root x)).drop (idx x + 1)) ∨
        (h.kind x = .soup ∧ h.parent x = none ∧ h.ne x = none ∧ nextElements h x = [])) ∧
      -- previous_elements
      (previousElements h x = ((docOrder h (root x)).take (idx x)).reverse ∨
        (h.kind (root x) = .soup ∧
          previousElements h x = (((docOrder h (root x)).take (idx x)).drop 1).reverse)) ∧
      -- descendants
      descendants h x = .ok ((pre h.kids h.cap x).tail) ∧
      (∃ n, pre h.kids h.cap x = ((docOrder h (root x)).drop (idx x)).take n) ∧
      -- siblings and parents
      (∀ p, h.parent x = some p →
        nextSiblings h x = (h.kids p).drop ((h.kids p).idxOf x + 1) ∧
        previousSiblings h x = ((h.kids p).take ((h.kids p).idxOf x)).reverse ∧
        parents h x = p :: parents h p) ∧
      (h.parent x = none → root x = x ∧ idx x = 0 ∧
        nextSiblings h x = [] ∧ previousSiblings h x = [] ∧ parents h x = [] ∧
        h.ps x = none ∧ h.ns x = none ∧ h.pe x = none) := by
  obtain ⟨w, hwf⟩ := hg
  refine ⟨w.tree, w.pos, fun x => ?_⟩
  have hr := hwf.tree_root x
  refine ⟨hr, docOrder_nodup hwf hr, docOrder_self hwf x, fun m => docOrder_mem hwf hr m, ?_, ?_,
    descendants_eq hwf x, ⟨w.size x, pre_slice hwf x⟩, ?_, ?_⟩
  · cases hu : w.unl x with
    | false => exact Or.inl ⟨(next_element_is_successor hwf x).1 hu, (nextElements_eq hwf x).1 hu⟩
    | true =>
      have := hwf.unl_soup x hu
      exact Or.inr ⟨this.1, this.2, (next_element_is_successor hwf x).2 hu, (nextElements_eq hwf x).2 hu⟩
  · cases hu : w.unl (w.tree x) with
    | false => exact Or.inl ((previousElements_eq hwf x).1 hu)
    | true => exact Or.inr ⟨(hwf.unl_soup _ hu).1, (previousElements_eq hwf x).2 hu⟩
  · intro p hp
    exact ⟨nextSiblings_eq hwf hp rfl, previousSiblings_eq hwf hp rfl, (parents_eq hwf x).2.2.2.2 p hp⟩
  · intro hp
    have hs := siblings_root hwf hp
    have hrt := hwf.root_tree x hp
    have hl := root_no_links hwf hp
    exact ⟨hrt.1, hrt.2, hs.2.2.1, hs.2.2.2, (parents_eq hwf x).2.2.2.1 hp, hl.1, hl.2.1, hl.2.2.1⟩

/-- the document root never points at an element that is not the first one -/
theorem soup_root_caveat {h : Heap} (hg : Good h) (r : Nat) (hr : h.parent r = none) :
    h.ne r = none ∨ h.ne r = (h.kids r).head? := by
  obtain ⟨w, hwf⟩ := hg
  cases hne : h.ne r with
  | none => exact Or.inl rfl
  | some b =>
    right
    have hc := (hwf.chain_ne r b).mp hne
    have hrt := hwf.root_tree r hr
    -- b sits at position 1 of r's tree: it is covered by the first child, whose position is 1
    have ht := hwf.tiles r
    cases hk : h.kids r with
    | nil =>
      rw [hk] at ht; simp [Tiles] at ht
      have hb := hwf.bound b
      have hs := hwf.size_pos b
      rw [← hc.2.1, hrt.1] at hb
      omega
    | cons k ks =>
      rw [hk] at ht
      obtain ⟨hkp, _, _⟩ := ht
      have hkt := hwf.kid_tree r k (by rw [hk]; simp)
      have : b = k := hwf.inj b k (by rw [hkt, ← hc.2.1]) (by omega)
      simp [this]

/-! non-vacuity: the model runs a real history to a non-trivial consistent state -/
example : (run (Heap.init [.soup, .tag, .tag, .str, .str])
    [.append 0 (.node 1), .append 1 (.node 3), .insert 0 0 [.node 2, .plain [9]], .wrap 3 2,
     .replaceWith 1 [.node 4, .node 3]]).isOk = true := by decide

/-! non-vacuity for `decompose`: a history that destroys a two-level subtree in the middle of a document and
    keeps editing; the guard of the model fires only for an unlinked BeautifulSoup object with children -/
example : (run (Heap.init [.soup, .tag, .tag, .str, .str])
    [.append 0 (.node 1), .append 1 (.node 2), .append 2 (.node 3), .append 0 (.node 4),
     .decompose 1, .append 0 (.node 3)]).isOk = true := by decide
example : ((decompose (Heap.init [.soup, .tag]) 0).toOption.map (fun h => (h.ne 0, h.kids 0))) = some (none, []) := by
  decide

/-! ## copies (`copy.copy(el)`, `copy.deepcopy(el)`, `el.__copy__()`; Model/HeapCopy.lean)

"The same holds for every fragment that was extracted, replaced, unwrapped, cleared out **or copied**: it is a self-contained tree with
no parent, no siblings and no links into the tree it came from." `copy h x` mirrors `__deepcopy__`: fresh objects are allocated in
document order of the source subtree and each is linked by the model's `append` under the clone of its parent. -/

/-- a constructor call (an object of ANY class at the next unused id) keeps the forest consistent. `Good2`'s clause "ids from `next` on
    are strings" is about the ids that remain unused; `KSame` ("no call turns a string into a tag") is what an allocation of a tag does
    NOT satisfy and does not need: no id in use changes class or text -/
theorem alloc_keeps_consistent {h : Heap} (hg : Good2 h) (k : Kind) (v : PStr) :
    Good2 (alloc h k v).1 ∧ (∀ n, n ≠ h.next → (alloc h k v).1.kind n = h.kind n ∧ (alloc h k v).1.val n = h.val n) ∧
    (alloc h k v).1.kind h.next = k ∧ (alloc h k v).1.val h.next = v ∧ (alloc h k v).1.next = h.next + 1 :=
  alloc_good2_any hg k v

/-- **a copy keeps the forest consistent**: whatever is copied (a string, a tag with its subtree, a whole BeautifulSoup object, an
    element inside an extracted fragment or inside an earlier copy), a copy that returns, returns one consistent forest -/
theorem copy_keeps_consistent {h h' : Heap} {x c : Nat} (hg : Good2 h) (hc : copy h x = .ok (h', c)) : Good2 h' := by
  obtain ⟨_, w', st', inv⟩ := copy_cinv hg hc
  exact (cinv_final inv).1

/-- **the copy is a detached, self-contained tree of fresh objects.** The clone `c` is the first object the call allocates; it has no
    parent, no siblings and no previous element, and the last element of its document order has no next element; its document order
    is exactly the ids allocated by the call, in allocation order (every node of the copy is fresh: none existed before, so it shares
    no node with any tree that existed before — those consist of ids below the old allocation counter); and every link of every node of
    the copy (the five pointers and the children list) leads to a node of the copy: no link into the tree it came from -/
theorem copy_is_detached_and_fresh {h h' : Heap} {x c : Nat} (hg : Good2 h) (hc : copy h x = .ok (h', c)) :
    c = h.next ∧ h'.parent c = none ∧ h'.ps c = none ∧ h'.ns c = none ∧ h'.pe c = none ∧
    (∀ l, (docOrder h' c).getLast? = some l → h'.ne l = none) ∧
    docOrder h' c = List.range' h.next (h'.next - h.next) ∧ h.next < h'.next ∧
    (∀ m, m ∈ docOrder h' c → h.next ≤ m ∧ m < h'.next) ∧
    (∀ r m, r < h.next → m ∈ docOrder h r → m < h.next) ∧
    (∀ m b, m ∈ docOrder h' c →
      (h'.ne m = some b ∨ h'.pe m = some b ∨ h'.ns m = some b ∨ h'.ps m = some b ∨ h'.parent m = some b ∨ b ∈ h'.kids m) →
      b ∈ docOrder h' c) := by
  obtain ⟨rfl, w', st', inv⟩ := copy_cinv hg hc
  obtain ⟨_, hroot, hdoc, _⟩ := cinv_final inv
  have hl := root_no_links inv.wf hroot
  have hmemr : ∀ m, m ∈ docOrder h' h.next → h.next ≤ m ∧ m < h'.next := by
    intro m hm; rw [hdoc, List.mem_range'_1] at hm; have := inv.lt; omega
  refine ⟨rfl, hroot, hl.1, hl.2.1, hl.2.2.1, ?_, hdoc, inv.lt, hmemr, fun r m hr hm => docOrder_old hg.1 hr hm, ?_⟩
  · intro l hlast
    have hmem : l ∈ docOrder h' h.next := List.mem_of_getLast? hlast
    apply hl.2.2.2 l hmem
    have hidx : (docOrder h' h.next)[(docOrder h' h.next).length - 1]? = some l := by
      rw [← hlast, List.getLast?_eq_getElem?]
    have := (docOrder_getElem? inv.wf hroot _ l).mp hidx
    have hlen := docOrder_length inv.wf h.next
    have := inv.wf.size_pos h.next
    omega
  · intro m b hm hlink
    have ht := (docOrder_mem inv.wf hroot m).mp hm
    exact (docOrder_mem inv.wf hroot b).mpr (by rw [tree_closed inv.wf hlink, ht])

/-- **the source is untouched** — and so is everything else that existed: every object allocated before the copy keeps its parent, its
    children list, its four sibling/element links, its class and its text -/
theorem copy_leaves_source_untouched {h h' : Heap} {x c : Nat} (hg : Good2 h) (hc : copy h x = .ok (h', c)) :
    ∀ a, a < h.next → h'.parent a = h.parent a ∧ h'.kids a = h.kids a ∧ h'.ne a = h.ne a ∧ h'.pe a = h.pe a ∧
      h'.ns a = h.ns a ∧ h'.ps a = h.ps a ∧ h'.kind a = h.kind a ∧ h'.val a = h.val a := by
  obtain ⟨_, w', st', inv⟩ := copy_cinv hg hc
  exact inv.frame

/-- **the copy is isomorphic to the source.** There is one map `φ` — "the element at index `j` of the source's document order ↦ the
    `j`-th object the call allocates" — such that the document order of the clone is the document order of the source mapped by `φ`
    (so `φ` is an order-preserving bijection between the two pre-orders: same length, element for element), every element's clone has
    its class and its text, the children list of the clone of `d` is the children list of `d` mapped by `φ`, and the parent of the clone
    of `d` is the clone of the parent of `d` (for every element other than the root of the copied subtree, whose clone has no parent:
    `copy_is_detached_and_fresh`) -/
theorem copy_is_isomorphic {h h' : Heap} {x c : Nat} (hg : Good2 h) (hc : copy h x = .ok (h', c)) :
    ∃ φ : Nat → Nat, (∀ j k, (docOrder h x)[j]? = some k → φ k = h.next + j) ∧
      docOrder h' c = (docOrder h x).map φ ∧
      (∀ d, d ∈ docOrder h x → h'.kind (φ d) = h.kind d ∧ h'.val (φ d) = h.val d ∧ h'.kids (φ d) = (h.kids d).map φ) ∧
      (∀ d, d ∈ docOrder h x → d ≠ x → ∃ π, h.parent d = some π ∧ π ∈ docOrder h x ∧ h'.parent (φ d) = some (φ π)) :=
  copy_iso hg hc

/-- **every finite history of editing calls, copies and constructor calls keeps the forest consistent** — histories may interleave
    them in any way, in particular move elements between an original and its copy -/
theorem history2_consistent :
    ∀ (ops : List Op2) (h h' : Heap), Good2 h → (∀ op ∈ ops, op.kindsOK) → run2 h ops = .ok h' → Good2 h' := by
  intro ops
  induction ops with
  | nil => intro h h' hg _ hr; simp only [run2] at hr; cases hr; exact hg
  | cons op ops ih =>
    intro h h' hg hok hr
    simp only [run2] at hr
    cases hs : step2 h op with
    | error e => simp only [hs] at hr; cases hr
    | ok h1 =>
      simp only [hs] at hr
      exact ih h1 h' (step2_good2 hg (hok op (by simp)) hs) (fun o ho => hok o (by simp [ho])) hr

/-! non-vacuity: the parsed document `<a>x<b>y</b></a>z` (ids: 0 the BeautifulSoup object, 1 `a`, 2 `x`, 3 `b`, 4 `y`, 5 `z`); the
    two-level subtree `b` is copied out of its middle (clone 6 with the string 7), the copied string is moved into the original, the
    original `x` into the copy, the copy is copied again (8) and the whole document as well (10 …) -/
def wParsed : Heap := (BS.ParseLink.prun BS.ParseLink.PSt.init [.newTag, .newStr, .newTag, .newStr, .pop, .pop, .newStr]).heap
example : ((copy wParsed 3).toOption.map fun r => (r.2, docOrder r.1 r.2, r.1.parent 6, r.1.kids 6))
    = some (6, [6, 7], none, [7]) := by decide
example : ((copy wParsed 3).toOption.map fun r => (r.1.ne 7, r.1.kids 3, r.1.next)) = some (none, [4], 8) := by decide
example : ((copy wParsed 0).toOption.map fun r => (docOrder r.1 r.2, r.1.kids 7, r.1.kind 6 == .soup))
    = some ([6, 7, 8, 9, 10, 11], [8, 9], true) := by decide
example : ((copy wParsed 0).toOption.map fun r => (r.1.parent 6, r.1.kids 1, r.1.kids 0)) = some (none, [2, 3], [1, 5]) := by decide
example : ((copy wParsed 0).toOption.map fun r => ((docOrder wParsed 0).map wParsed.parent, (docOrder r.1 r.2).map r.1.parent))
    = some ([none, some 0, some 1, some 1, some 3, some 0], [none, some 6, some 7, some 7, some 9, some 6]) := by decide
example : ((copy wParsed 0).toOption.map fun r => ((docOrder wParsed 0).map wParsed.kids, (docOrder r.1 r.2).map r.1.kids))
    = some ([[1, 5], [2, 3], [], [4], [], []], [[7, 11], [8, 9], [], [10], [], []]) := by decide
example : ((run2 wParsed [.copy 3, .edit (.append 1 (.node 7)), .edit (.insert 6 0 [.node 2]), .copy 6, .alloc .tag [],
    .edit (.append 10 (.node 8)), .copy 0, .edit (.extract 3), .copy 4]).toOption.map
      fun h => (h.kids 1, h.kids 6, docOrder h 10, h.parent 8)) = some ([7], [2], [10, 8, 9], some 10) := by decide

/-- **parse any document, then edit it in any way: still one consistent tree.** The heap the parser leaves
    behind (Model/ParseLink.lean: the pointer writes of `PageElement.setup`, `object_was_parsed`,
    `_linkage_fixer`, for any list of parser actions) is a consistent forest, and so is the result of every
    finite history of editing calls applied to it. -/
theorem parsed_then_edited_consistent :
    ∀ (acts : List BS.ParseLink.Act) (ops : List Op) (h' : Heap),
      run (BS.ParseLink.prun BS.ParseLink.PSt.init acts).heap ops = .ok h' → (∀ op ∈ ops, op.kindsOK) → Good2 h' :=
  fun acts ops h' hr hk => history_consistent ops _ h' (BS.ParseLink.parse_good2 acts) hk hr

/-! non-vacuity: a parsed document (`<a>x<b>y</b></a>z`) edited by a history that moves, wraps and destroys -/
example : (run (BS.ParseLink.prun BS.ParseLink.PSt.init [.newTag, .newStr, .newTag, .newStr, .pop, .pop, .newStr]).heap
    [.append 0 (.node 3), .insert 1 0 [.plain [7]], .extract 5, .decompose 1, .append 3 (.node 5)]).isOk = true := by
  decide

end BS.Props.C01
