import BSModel.Proofs.HeapContig
import BSModel.Proofs.HeapEffects
import BSModel.Proofs.HeapExtract
import BSModel.Proofs.HeapLink
import BSModel.Proofs.HeapSmooth
import BSModel.Proofs.HeapDecomposeEffect
import BSModel.Proofs.HeapCopySpec
import BSModel.Proofs.HeapCopyTotal
/-! # C02 — each editing call has exactly its documented effect on tree shape

The forest is the pair (children lists, parent fields) of the pointer heap. The theorems give the closed form
of the forest after the two primitives every editing call is built from, and after the multi-element loop of
`Tag.insert`; `Good` (C01) supplies "no element occupies two places". -/
namespace BS.Props.C02
open BS.Heap

/-- **extract**: on a consistent forest `extract` always succeeds; `x` leaves its parent's children list,
    becomes parentless; no other children list and no other parent field changes — `x` comes back detached
    with its own subtree intact and nothing else moves. -/
theorem extract_effect {h : Heap} (x : Nat) (hg : Good h) :
    ∃ h', extract h x = .ok h' ∧ Good h' ∧
      (∀ n, h'.kids n = if h.parent x = some n then (h.kids n).erase x else h.kids n) ∧
      (∀ n, h'.parent n = if n = x then none else h.parent n) := by
  obtain ⟨h', he⟩ := extract_total extract_spec x hg
  obtain ⟨hg', hk, hp, _, _⟩ := extract_good extract_spec hg he
  exact ⟨h', he, hg', hk, hp⟩

/-- **_insert** (one element): whenever it returns, `x` has been removed from wherever it was and sits in `p`'s
    children right before the element that was at index `position` (not counting `x` itself; clamped to the
    end); every other children list only loses `x`; only `x`'s parent changes. -/
theorem insert_one_effect {h h' : Heap} {p position x : Nat}
    (hg : Good h) (hp : (h.kind p).isTag = true) (hx : h.kind x ≠ .soup)
    (hi : insertCore h p position x = .ok h') :
    h'.kids p = ((h.kids p).erase x).insertIdx (((h.kids p).take position).erase x).length x ∧
    (∀ n, n ≠ p → h'.kids n = (h.kids n).erase x) ∧
    (∀ n, h'.parent n = if n = x then some p else h.parent n) :=
  insertCore_shape extract_spec linkChild_spec hg hp hx hi

/-- **insert** (several elements): the distinct elements `xs` end up contiguous, in the requested order, right
    before the element that was at index `position`, not counting the inserted elements themselves; the other
    children keep their relative order. -/
theorem insert_many_contiguous {h h' : Heap} {p position pos' : Nat}
    {xs : List Nat} (hg : Good2 h) (hp : (h.kind p).isTag = true) (hnd : xs.Nodup)
    (hk : ∀ x ∈ xs, h.kind x ≠ .soup) (hpos : position ≤ (h.kids p).length)
    (hi : insertElems h p position xs = .ok (h', pos')) :
    h'.kids p = ((h.kids p).take position).filter (fun k => !xs.contains k) ++ xs ++
                ((h.kids p).drop position).filter (fun k => !xs.contains k) := by
  have := insertElems_contiguous extract_spec linkChild_spec xs h position h' pos' ((h.kids p).take position) [] ((h.kids p).drop position)
    hg hp hnd hk (fun _ _ hm => by cases hm) (by simp) (by simp [Nat.min_eq_left hpos]) hi
  simpa using this.1

/-- no element occupies two places: children lists are duplicate-free, and an element is in at most one of them -/
theorem no_two_places {h : Heap} (hg : Good h) :
    (∀ n, (h.kids n).Nodup) ∧ (∀ n m k, k ∈ h.kids n → k ∈ h.kids m → n = m) := by
  refine ⟨good_kids_nodup hg, ?_⟩
  obtain ⟨w, hwf⟩ := hg
  intro n m k hn hm
  have h1 := hwf.kid_parent n k hn
  have h2 := hwf.kid_parent m k hm
  rw [h1] at h2; cases h2; rfl

/-- **clear()**: every child comes back detached (parentless), the tag is left childless, and no other children
    list and no other parent field changes -/
theorem clear_effect {h h' : Heap} {t : Nat} (hg : Good h) (hc : clear h t = .ok h') :
    Good h' ∧ h'.kids t = [] ∧ (∀ n, n ≠ t → h'.kids n = h.kids n) ∧
    (∀ n, h'.parent n = if n ∈ h.kids t then none else h.parent n) :=
  BS.Heap.clear_effect hg hc

/-- **replace_with(y)** (one element that is not a sibling of `x`): `y` takes exactly `x`'s place among its
    siblings, `x` comes back detached, `y` disappears from wherever it was before, nothing else moves -/
theorem replace_with_one_effect {h h' : Heap} {x y p : Nat} (hg : Good2 h) (hp : h.parent x = some p)
    (hy : h.kind y ≠ .soup) (hxy : y ≠ x) (hyp : y ∉ h.kids p) (hr : replaceWith h x [.node y] = .ok h') :
    Good2 h' ∧ h'.kids p = (h.kids p).map (fun k => if k = x then y else k) ∧
    (∀ n, n ≠ p → h'.kids n = ((h.kids n).erase x).erase y) ∧ h'.parent x = none ∧ h'.parent y = some p :=
  replaceWith_one_effect hg hp hy hxy hyp hr

/-- **unwrap()**: the element is replaced by its children, in order, exactly at its slot; it comes back detached and
    childless; every child's parent is now the former parent; nothing else moves -/
theorem unwrap_effect {h h' : Heap} {x p : Nat} {pre post : List Nat} (hg : Good2 h) (hp : h.parent x = some p)
    (hk : h.kids p = pre ++ x :: post) (hu : unwrap h x = .ok h') :
    Good2 h' ∧ h'.kids p = pre ++ h.kids x ++ post ∧ h'.kids x = [] ∧ h'.parent x = none ∧
    (∀ n, n ≠ p → n ≠ x → h'.kids n = h.kids n) ∧ (∀ c ∈ h.kids x, h'.parent c = some p) :=
  BS.Heap.unwrap_effect hg hp hk hu

/-- **insert_before(y)** (one element): `y` is taken out of wherever it was and lands immediately before `x`; the other
    children of `x`'s parent keep their order; every other children list only loses `y` -/
theorem insert_before_one_effect {h h' : Heap} {x y p : Nat} {pre post : List Nat} (hg : Good2 h)
    (hp : h.parent x = some p) (hy : h.kind y ≠ .soup) (hxy : y ≠ x) (hxs : h.kind x ≠ .soup)
    (hk : (h.kids p).erase y = pre ++ x :: post) (hr : insertBefore h x [.node y] = .ok h') :
    Good2 h' ∧ h'.kids p = pre ++ y :: x :: post ∧ (∀ n, n ≠ p → h'.kids n = (h.kids n).erase y) ∧
    h'.parent y = some p :=
  BS.Heap.insertBefore_one_effect hg hp hy hxy hxs hk hr

/-- **insert_after(y)** (one element): `y` lands immediately after `x` -/
theorem insert_after_one_effect {h h' : Heap} {x y p : Nat} {pre post : List Nat} (hg : Good2 h)
    (hp : h.parent x = some p) (hy : h.kind y ≠ .soup) (hxy : y ≠ x) (hxs : h.kind x ≠ .soup)
    (hk : (h.kids p).erase y = pre ++ x :: post) (hr : insertAfter h x [.node y] = .ok h') :
    Good2 h' ∧ h'.kids p = pre ++ x :: y :: post ∧ (∀ n, n ≠ p → h'.kids n = (h.kids n).erase y) ∧
    h'.parent y = some p :=
  BS.Heap.insertAfter_one_effect hg hp hy hxy hxs hk hr

/-- **append(y)** (one element): `y` is taken out of wherever it was (the same tag included) and becomes the last child -/
theorem append_one_effect {h h' : Heap} {p y : Nat} (hg : Good2 h) (hp : (h.kind p).isTag = true)
    (hy : h.kind y ≠ .soup) (ha : append h p (.node y) = .ok h') :
    Good2 h' ∧ h'.kids p = (h.kids p).erase y ++ [y] ∧ (∀ n, n ≠ p → h'.kids n = (h.kids n).erase y) ∧
    h'.parent y = some p :=
  BS.Heap.append_one_effect hg hp hy ha

/-- **wrap(w)**: `w` takes `x`'s place; `x` becomes the last child of `w`; nothing else moves -/
theorem wrap_effect {h h' : Heap} {x w p : Nat} (hg : Good2 h) (hp : h.parent x = some p)
    (hw : (h.kind w).isTag = true) (hws : h.kind w ≠ .soup) (hxw : w ≠ x) (hwp : w ∉ h.kids p)
    (hr : wrap h x w = .ok h') :
    Good2 h' ∧ h'.kids p = (h.kids p).map (fun k => if k = x then w else k) ∧
    h'.kids w = h.kids w ++ [x] ∧ h'.parent x = some w ∧ h'.parent w = some p ∧
    (∀ n, n ≠ p → n ≠ w → h'.kids n = (h.kids n).erase w) :=
  BS.Heap.wrap_effect hg hp hw hws hxw hwp hr

/-- **extend(xs)** (distinct elements, wherever they were — this tag included): they end up at the end of the tag's children in the
    given order; every other children list only loses them; each has the tag as parent -/
theorem extend_effect {h h' : Heap} {p : Nat} {xs : List Nat} (hg : Good2 h) (hp : (h.kind p).isTag = true)
    (hnd : xs.Nodup) (hk : ∀ x ∈ xs, h.kind x ≠ .soup) (he : extendList h p (xs.map Arg.node) = .ok h') :
    Good2 h' ∧ h'.kids p = (h.kids p).filter (fun k => !xs.contains k) ++ xs ∧
    (∀ n, n ≠ p → h'.kids n = (h.kids n).filter (fun k => !xs.contains k)) ∧ (∀ x ∈ xs, h'.parent x = some p) :=
  BS.Heap.appendAll_effect xs h h' p hg hp hnd hk he

/-- **`tag.string = v`**: the former children come back detached, the tag's only child is a NEW string object (the next unused
    identity), no other children list changes -/
theorem set_string_effect {h h' : Heap} {t : Nat} {k : Kind} {v : PStr} (hg : Good2 h) (ht : (h.kind t).isTag = true)
    (hk : k = .str ∨ k = .pre) (hs : setString h t k v = .ok h') :
    Good2 h' ∧ h'.kids t = [h.next] ∧ h'.parent h.next = some t ∧ (∀ n, n ≠ t → h'.kids n = h.kids n) ∧
    (∀ n, n ≠ h.next → h'.parent n = if n ∈ h.kids t then none else h.parent n) :=
  BS.Heap.setString_effect hg ht hk hs

/-- **insert_before(y₁, …, yₙ)** (distinct elements, none of them the target `x`): all are removed from wherever they were and end
    up, in the given order, immediately before `x`; the other children keep their order; other lists only lose them.
    (`insertBefore h x args` is this loop once the guards — not a BeautifulSoup object, has a parent, not among the arguments — pass.) -/
theorem insert_before_many_effect {h h' : Heap} {x p : Nat} {ys pre post : List Nat} (hg : Good2 h)
    (hp : h.parent x = some p) (hnd : ys.Nodup) (hx : x ∉ ys) (hk : ∀ y ∈ ys, h.kind y ≠ .soup) (hxs : h.kind x ≠ .soup)
    (hsplit : (h.kids p).filter (fun k => !ys.contains k) = pre ++ x :: post)
    (hr : insertBeforeLoop h p x (ys.map Arg.node) = .ok h') :
    Good2 h' ∧ h'.kids p = pre ++ ys ++ x :: post ∧
    (∀ n, n ≠ p → h'.kids n = (h.kids n).filter (fun k => !ys.contains k)) ∧ (∀ y ∈ ys, h'.parent y = some p) :=
  BS.Heap.insertBefore_many_effect ys h h' x p pre post hg hp hnd hx hk hxs hsplit hr

/-- **insert_after(y₁, …, yₙ)**: … immediately after `x`, in the given order -/
theorem insert_after_many_effect {h h' : Heap} {x p : Nat} {ys pre post : List Nat} (hg : Good2 h)
    (hp : h.parent x = some p) (hnd : ys.Nodup) (hx : x ∉ ys) (hk : ∀ y ∈ ys, h.kind y ≠ .soup) (hxs : h.kind x ≠ .soup)
    (hsplit : (h.kids p).filter (fun k => !ys.contains k) = pre ++ x :: post)
    (hr : insertAfterLoop h p x (ys.map Arg.node) = .ok h') :
    Good2 h' ∧ h'.kids p = pre ++ x :: ys ++ post ∧
    (∀ n, n ≠ p → h'.kids n = (h.kids n).filter (fun k => !ys.contains k)) ∧ (∀ y ∈ ys, h'.parent y = some p) :=
  BS.Heap.insertAfter_many_effect ys h h' x p pre post hg hp hnd hx hk hxs hsplit hr

/-- **replace_with(y₁, …, yₙ)** (distinct elements, none of them `x` or `x`'s parent): `x` comes back detached and the `yᵢ` stand
    contiguously, in the given order, where `x` stood; the other children keep their order -/
theorem replace_with_many_effect {h h' : Heap} {x p : Nat} {ys pre post : List Nat} (hg : Good2 h) (hp : h.parent x = some p)
    (hnd : ys.Nodup) (hxy : x ∉ ys) (hpy : p ∉ ys) (hk : ∀ y ∈ ys, h.kind y ≠ .soup) (hne : ys ≠ [])
    (hsplit : h.kids p = pre ++ x :: post) (hr : replaceWith h x (ys.map Arg.node) = .ok h') :
    h'.kids p = pre.filter (fun k => !ys.contains k) ++ ys ++ post.filter (fun k => !ys.contains k) ∧ h'.parent x = none :=
  BS.Heap.replaceWith_many_effect hg hp hnd hxy hpy hk hne hsplit hr

/-- **a whole BeautifulSoup object as the argument of `insert`** (element.py:1943-1948: "we don't want one BeautifulSoup object to
    contain another"): its children — all of them, in order — are moved to the slot, contiguously; the object itself stays
    where it was, childless; the other children of the target keep their order -/
theorem insert_soup_effect {h h' : Heap} {p s position : Nat} {ins : List Nat} (hg : Good2 h) (hp : (h.kind p).isTag = true)
    (hs : h.kind s = .soup) (hsp : s ≠ p) (hpos : position ≤ (h.kids p).length)
    (hi : insert h p position [.node s] = .ok (h', ins)) :
    ins = h.kids s ∧
    h'.kids p = ((h.kids p).take position).filter (fun k => !(h.kids s).contains k) ++ h.kids s ++
                ((h.kids p).drop position).filter (fun k => !(h.kids s).contains k) ∧
    h'.kids s = [] :=
  BS.Heap.insert_soup_effect hg hp hs hsp hpos hi

/-! ### `smooth()`

`view h t` is the children list of `t` as the property sees it (a plain string — `NavigableString` and its non-Preformatted
subclasses — by its text, anything else by its identity), `squash` the documented effect on it: every maximal run of
adjacent plain strings becomes ONE string, the concatenation, and nothing else moves (`Model/HeapSmooth.lean`).
`idView` / `squashId` are the same with the identity of every child: a child that is not merged stays the same object,
every merged run is a new one. -/

/-- the two equations that pin `squash` down — a child that is not a plain string separates the list, and a run of plain
    strings becomes the one string that concatenates them — and: a list without two adjacent plain strings is left alone -/
theorem squash_characterised :
    squash [] = [] ∧
    (∀ (l₁ l₂ : List Item) (k : Nat), squash (l₁ ++ .other k :: l₂) = squash l₁ ++ .other k :: squash l₂) ∧
    (∀ (v : PStr) (vs : List PStr), squash ((v :: vs).map Item.str) = [.str (v :: vs).flatten]) ∧
    (∀ l, NoAdjStr l → squash l = l) :=
  ⟨rfl, squash_split, squash_run, squash_of_noAdj⟩

/-- `squashId` is `squash` once the identities are forgotten; every identity in its result is that of an old child (in
    which case the child is unchanged) or one allocated by the call -/
theorem squash_id_refines_squash (n : Nat) (l : List IItem) :
    (squashId n l).1.map Prod.snd = squash (l.map Prod.snd) ∧ n ≤ (squashId n l).2 ∧
    (∀ x ∈ (squashId n l).1, x ∈ l ∨ (n ≤ x.1 ∧ x.1 < (squashId n l).2)) :=
  ⟨squashId_snd n l, squashId_counter n l⟩

/-- **`_smooth_children`** (one tag): afterwards the children of `t` are `squash` of what they were — every maximal run of
    adjacent plain strings has become one string, the concatenation, everything else is where it was; the forest is still
    consistent; no other children list has changed; no existing object has changed class or text; everything allocated is a
    plain string; the only existing objects whose parent changed are plain strings that were children of `t` (the merged
    ones: they come back detached) -/
theorem smooth_children_effect {h h' : Heap} {t : Nat} (hg : Good2 h) (hs : smoothChildren h t = .ok h') :
    view h' t = squash (view h t) ∧ Good2 h' ∧
    (∀ q, q ≠ t → h'.kids q = h.kids q ∧ view h' q = view h q) ∧
    (∀ k, k < h.next → h'.kind k = h.kind k ∧ h'.val k = h.val k) ∧
    (∀ k, h.next ≤ k → k < h'.next → h'.kind k = .str) ∧
    (∀ k, k < h.next → h'.parent k = h.parent k ∨ (h.parent k = some t ∧ h.kind k = .str ∧ h'.parent k = none)) := by
  obtain ⟨e, hg', fr⟩ := smoothChildren_effect hg hs
  refine ⟨e, hg', fun q hq => ⟨fr.others q hq, (fr.view_others hg.1 hq).2⟩, fr.old, fr.newStr, ?_⟩
  intro k hk
  rcases fr.parent k hk with a | ⟨q, rfl, b⟩
  · exact Or.inl a
  · exact Or.inr b

/-- **`_smooth_children`, identities included**: a child that is not part of a run of two or more plain strings is the
    SAME object afterwards, in the same place; every run is replaced by one NEW object (`squashId`, from the allocation
    counter of the heap); the allocation counter ends where `squashId` says -/
theorem smooth_children_exact {h h' : Heap} {t : Nat} (hg : Good2 h) (hs : smoothChildren h t = .ok h') :
    (idView h' t, h'.next) = squashId h.next (idView h t) :=
  (smoothChildren_exact hg hs).1

/-- what one can observe of the result without reading `squash`: no two adjacent children are plain strings any more; the
    text of the plain strings, read in order, is what it was; the children that are not plain strings are the same objects
    in the same order -/
theorem smooth_children_observable {h h' : Heap} {t : Nat} (hg : Good2 h) (hs : smoothChildren h t = .ok h') :
    NoAdjStr (view h' t) ∧ strCat (view h' t) = strCat (view h t) ∧ others (view h' t) = others (view h t) := by
  rw [(smoothChildren_effect hg hs).1]
  exact ⟨squash_noAdj _, squash_strCat _, squash_others _⟩

/-- a tag without two adjacent plain strings among its children is not touched at all: the heap is returned as it is -/
theorem smooth_children_noop {h : Heap} {t : Nat} (hn : NoAdjStr (view h t)) : smoothChildren h t = .ok h :=
  smoothChildren_noop hn

/-- **`smooth()`, the whole call** ("this tag and every tag beneath it"): for every object `q` of the subtree of `t` (the
    pre-order walk from `t` before the call) the children of `q` are `squash` of what they were — with identities,
    `squashId` from some allocation counter at or after the one of the heap; the forest is still consistent; outside the
    subtree no children list has changed; no existing object has changed class or text; everything allocated is a plain
    string; the only existing objects whose parent changed are plain strings directly beneath an object of the subtree -/
theorem smooth_effect {h h' : Heap} {t : Nat} (hg : Good2 h) (hs : smooth h t = .ok h') :
    Good2 h' ∧
    (∀ q ∈ docOrder h t, view h' q = squash (view h q)) ∧
    (∀ q ∈ docOrder h t, ∃ n, h.next ≤ n ∧ idView h' q = (squashId n (idView h q)).1) ∧
    (∀ q, q ∉ docOrder h t → h'.kids q = h.kids q ∧ view h' q = view h q) ∧
    (∀ k, k < h.next → h'.kind k = h.kind k ∧ h'.val k = h.val k) ∧
    (∀ k, h.next ≤ k → k < h'.next → h'.kind k = .str) ∧
    (∀ k, k < h.next → h'.parent k = h.parent k ∨
      (∃ q ∈ docOrder h t, h.parent k = some q ∧ h.kind k = .str ∧ h'.parent k = none)) := by
  obtain ⟨hg', fr, hid, hv⟩ := BS.Heap.smooth_effect hg hs
  exact ⟨hg', hv, hid, fun q hq => ⟨fr.others q hq, (fr.view_others hg.1 hq).2⟩, fr.old, fr.newStr, fr.parent⟩

/-- **on a consistent forest `smooth()` never fails**: none of the model's error outcomes (`IndexError`, `ValueError`,
    `AttributeError` on `None`) can occur, whatever the tag and whatever its subtree -/
theorem smooth_never_fails {h : Heap} (t : Nat) (hg : Good2 h) : ∃ h', smooth h t = .ok h' :=
  smooth_total t hg

/-- **`smooth()` is idempotent**: a second call on the result changes nothing at all — the very same heap comes back (no object
    is allocated, no pointer written) -/
theorem smooth_idempotent {h h' : Heap} {t : Nat} (hg : Good2 h) (hs : smooth h t = .ok h') : smooth h' t = .ok h' :=
  BS.Heap.smooth_idempotent hg hs

/-! ### `decompose()` and `clear(decompose=True)`

The model's mark for a destroyed element is `Isolated`: no parent, no children, no sibling and no element links — the state
the wipe-out loop of `decompose` leaves every element of the subtree in. -/

/-- **decompose()**: the element leaves its parent's children list; every element of its subtree (the pre-order walk from
    it before the call) is destroyed; every other element keeps its parent and its children list (the parent's list only
    loses the element); no element changes class or text; nothing is allocated; the forest stays consistent -/
theorem decompose_effect {h h' : Heap} {x : Nat} (hg : Good2 h) (hd : decompose h x = .ok h') :
    Good2 h' ∧
    (∀ m, m ∈ docOrder h x → Isolated h' m) ∧
    (∀ m, m ∉ docOrder h x →
      h'.parent m = h.parent m ∧ h'.kids m = if h.parent x = some m then (h.kids m).erase x else h.kids m) ∧
    h'.kind = h.kind ∧ h'.val = h.val ∧ h'.next = h.next := by
  obtain ⟨a, b, c, d, e, f, _⟩ := BS.Heap.decompose_effect hg hd
  exact ⟨a, b, c, d, e, f⟩

/-- `decompose()` of anything but a BeautifulSoup object never fails on a consistent forest -/
theorem decompose_never_fails {h : Heap} {x : Nat} (hg : Good h) (hx : h.kind x ≠ .soup) : ∃ h', decompose h x = .ok h' :=
  decompose_total hg hx

/-- **clear(decompose=True)**: the tag is left childless and keeps its own place; every element that was beneath it is
    destroyed; every element outside its subtree keeps its parent and its children list; no element changes class or text;
    nothing is allocated; the forest stays consistent -/
theorem clear_decompose_effect {h h' : Heap} {t : Nat} (hg : Good2 h) (hd : clearDecompose h t = .ok h') :
    Good2 h' ∧ h'.kids t = [] ∧ h'.parent t = h.parent t ∧
    (∀ m, m ∈ docOrder h t → m ≠ t → Isolated h' m) ∧
    (∀ m, m ∉ docOrder h t → h'.parent m = h.parent m ∧ h'.kids m = h.kids m) ∧
    h'.kind = h.kind ∧ h'.val = h.val ∧ h'.next = h.next :=
  clearDecompose_effect hg hd

/-- `clear(decompose=True)` never fails on a consistent forest -/
theorem clear_decompose_never_fails {h : Heap} (t : Nat) (hg : Good2 h) : ∃ h', clearDecompose h t = .ok h' :=
  clearDecompose_total t hg

/-! ### copies (`copy.copy(el)` / `copy.deepcopy(el)` / `el.__copy__()`; Model/HeapCopy.lean) -/

/-- **copy**: the call allocates the clone `c` and nothing else moves: every object that existed keeps its parent and its children
    list (and its class and text) — no element is lost; the objects of the copy are exactly the ids allocated by the call, each occurs
    once in the document order of the clone (no element is duplicated: the copy shares no object with any tree), there are as many as
    in the subtree copied, and the clone has no parent; the forest stays consistent -/
theorem copy_effect {h h' : Heap} {x c : Nat} (hg : Good2 h) (hc : copy h x = .ok (h', c)) :
    Good2 h' ∧ c = h.next ∧ h'.parent c = none ∧
    (∀ n, n < h.next → h'.kids n = h.kids n ∧ h'.parent n = h.parent n ∧ h'.kind n = h.kind n ∧ h'.val n = h.val n) ∧
    (docOrder h' c).Nodup ∧ (∀ m, m ∈ docOrder h' c ↔ (h.next ≤ m ∧ m < h'.next)) ∧
    h'.next - h.next = (docOrder h x).length := by
  obtain ⟨rfl, w', st', inv⟩ := copy_cinv hg hc
  obtain ⟨hg', hroot, hdoc, hlen⟩ := cinv_final inv
  refine ⟨hg', rfl, hroot, ?_, docOrder_nodup inv.wf hroot, ?_, by rw [inv.len]⟩
  · intro n hn
    have := inv.frame n hn
    exact ⟨this.2.1, this.1, this.2.2.2.2.2.2.1, this.2.2.2.2.2.2.2⟩
  · intro m
    rw [hdoc, List.mem_range'_1]
    have := inv.lt
    omega

/-- **copy, element by element**: the copy of the `i`-th element of the subtree (document order) is the `i`-th object the call
    allocates, it stands at index `i` of the document order of the clone, and it has the class and the text of its original (a copy of
    a string is the case of a one-element subtree: one new parentless object of the same class and text) -/
theorem copy_pointwise {h h' : Heap} {x c : Nat} (hg : Good2 h) (hc : copy h x = .ok (h', c)) :
    ∀ i d, (docOrder h x)[i]? = some d → (docOrder h' c)[i]? = some (h.next + i) ∧ h'.kind (h.next + i) = h.kind d ∧
      h'.val (h.next + i) = h.val d := by
  obtain ⟨rfl, w', st', inv⟩ := copy_cinv hg hc
  obtain ⟨_, hroot, hdoc, hlen⟩ := cinv_final inv
  intro i d hi
  have hlt : i < (docOrder h x).length := (List.getElem?_eq_some_iff.mp hi).1
  refine ⟨?_, inv.img i d hi⟩
  rw [hdoc, List.getElem?_range' (by rw [← inv.len]; exact hlt)]
  simp

/-- **on a consistent forest a copy never fails**: none of the model's error outcomes can occur, whatever is copied (a string, a tag with
    any subtree, a BeautifulSoup object, an id that was never allocated) -/
theorem copy_never_fails {h : Heap} (x : Nat) (hg : Good2 h) : ∃ h' c, copy h x = .ok (h', c) :=
  copy_total x hg

/-! non-vacuity: `t0` with children `[t1, s4]`, `t1` with children `[t2, s3]` (`wDeep` below): the copy of `t1` is `5 [6, 7]` -/
example : ((run (Heap.init [.tag, .tag, .tag, .str, .str])
    [.append 0 (.node 1), .append 1 (.node 2), .append 1 (.node 3), .append 0 (.node 4)]).bind fun h =>
      (copy h 1).map (fun r => (r.2, r.1.kids 5, r.1.kids 1, r.1.kids 0))).toOption = some (5, [6, 7], [2, 3], [1, 4]) := by decide

/-! ### negative positions: `insert` reads its position the way `list.insert` does -/

/-- a non-negative position is itself -/
theorem normPos_nonneg (n : Nat) (z : Int) (hz : 0 ≤ z) : normPos n z = z.toNat := by
  unfold normPos; simp [Int.not_lt.mpr hz]

/-- `-k` stands for `len - k`, and for `0` when `k` exceeds the length (never an error) -/
theorem normPos_neg (n k : Nat) (hk : 0 < k) : normPos n (-(k : Int)) = n - k := by
  unfold normPos
  have : (-(k : Int)) < 0 := by omega
  simp only [this, if_true, Int.ofNat_eq_natCast]
  omega

/-- whatever the integer, the slot is one of the `len + 1` slots of the children list once clamped (what `insertCore` does next) -/
theorem normPos_clamped (n : Nat) (z : Int) : min (normPos n z) n ≤ n := Nat.min_le_right _ _

/-- `insert` with any Python integer IS an `insert` with a natural position: every theorem about `insert` (consistency: C01
    `every_call_keeps_consistent`; effect: `insert_one_effect`, `insert_many_contiguous`) applies to it verbatim -/
theorem insertZ_is_insert (h : Heap) (p : Nat) (z : Int) (args : List Arg) :
    insertZ h p z args = insert h p (normPos (h.kids p).length z) args := rfl

/-! non-vacuity: the calls succeed on a concrete tree (`t0` with children `[1,2,3,4]`) and give the stated lists -/
def wFour : Except Err Heap :=
  run (Heap.init [.tag, .tag, .tag, .tag, .tag])
    [.append 0 (.node 1), .append 0 (.node 2), .append 0 (.node 3), .append 0 (.node 4)]
example : (wFour.bind fun h => (insertBefore h 2 [.node 4]).map (·.kids 0)).toOption = some [1, 4, 2, 3] := by decide
example : (wFour.bind fun h => (insertAfter h 2 [.node 1]).map (·.kids 0)).toOption = some [2, 1, 3, 4] := by decide
example : (wFour.bind fun h => (append h 0 (.node 2)).map (·.kids 0)).toOption = some [1, 3, 4, 2] := by decide
example : (wFour.bind fun h => (unwrap h 0).map (·.kids 0)).toOption = none := by decide   -- no parent: ValueError
example : (wFour.bind fun h => (clear h 0).map (·.kids 0)).toOption = some [] := by decide
example : (wFour.bind fun h => (extendList h 0 [.node 3, .node 1]).map (·.kids 0)).toOption = some [2, 4, 3, 1] := by decide
example : (wFour.bind fun h => (setString h 0 .str [120]).map (fun h => (h.kids 0, h.parent 2))).toOption = some ([5], none) := by decide
example : (wFour.bind fun h => (insertBefore h 2 [.node 4, .node 1]).map (·.kids 0)).toOption = some [4, 1, 2, 3] := by decide
example : (wFour.bind fun h => (insertAfter h 2 [.node 4, .node 1]).map (·.kids 0)).toOption = some [2, 4, 1, 3] := by decide
example : (wFour.bind fun h => (replaceWith h 2 [.node 4, .node 1]).map (fun h => (h.kids 0, h.parent 2))).toOption = some ([4, 1, 3], none) := by decide
example : (wFour.bind fun h => (insertZ h 0 (-1) [.node 1]).map (·.1.kids 0)).toOption = some [2, 3, 1, 4] := by decide
example : (wFour.bind fun h => (insertZ h 0 (-4) [.node 4]).map (·.1.kids 0)).toOption = some [4, 1, 2, 3] := by decide
example : (wFour.bind fun h => (insertZ h 0 (-9) [.node 3]).map (·.1.kids 0)).toOption = some [3, 1, 2, 4] := by decide
def wSoup : Except Err Heap :=
  run (Heap.init [.tag, .tag, .tag, .soup, .tag, .tag])
    [.append 0 (.node 1), .append 0 (.node 2), .append 3 (.node 4), .append 3 (.node 5)]
example : (wSoup.bind fun h => (insert h 0 1 [.node 3]).map (fun r => (r.1.kids 0, r.1.kids 3, r.2))).toOption
    = some ([1, 4, 5, 2], [], [4, 5]) := by decide
-- the same element twice in a row (`x.insert_after(y, y)`): once, in place — not an error (repaired; formerly ValueError after `y` had been extracted)
example : (wFour.bind fun h => (insertAfter h 2 [.node 4, .node 4, .node 1]).map (·.kids 0)).toOption = some [2, 4, 1, 3] := by decide
def wFive : Except Err Heap :=
  run (Heap.init [.tag, .tag, .tag, .tag, .tag, .tag])
    [.append 0 (.node 1), .append 0 (.node 2), .append 0 (.node 3), .append 5 (.node 4)]
example : (wFive.bind fun h => (wrap h 2 5).map (fun h => (h.kids 0, h.kids 5))).toOption = some ([1, 5, 3], [4, 2]) := by decide

/-! non-vacuity for `smooth`: `t0` with children `[s1, s2, c3, s4, s5, s6, t7]` (`c3` a Comment), `t7` with children `[s8, s9]`.
    One pass over `t0`: the runs `s1 s2` and `s4 s5 s6` become one string each (the second by two merges from the right: object
    8 = `s5+s6`, discarded again, then 9 = `s4+8`; then 10 = `s1+s2`); the Comment and the tag stay; `t7` is not touched. The whole
    call smooths `t7` as well. -/
def wStr : Except Err Heap :=
  run (Heap.init [.tag, .str, .str, .pre, .str, .str, .str, .tag, .str, .str])
    [.append 0 (.node 1), .append 0 (.node 2), .append 0 (.node 3), .append 0 (.node 4), .append 0 (.node 5),
     .append 0 (.node 6), .append 0 (.node 7), .append 7 (.node 8), .append 7 (.node 9)]
example : (wStr.map fun h => (view h 0, view h 7)).toOption
    = some ([.str [1], .str [2], .other 3, .str [4], .str [5], .str [6], .other 7], [.str [8], .str [9]]) := by decide
example : (wStr.bind fun h => (smoothChildren h 0).map (fun h' => (view h' 0, h'.kids 0, h'.kids 7, h'.next))).toOption
    = some ([.str [1, 2], .other 3, .str [4, 5, 6], .other 7], [12, 3, 11, 7], [8, 9], 13) := by decide
example : (wStr.map fun h => squashId h.next (idView h 0)).toOption
    = some ([(12, .str [1, 2]), (3, .other 3), (11, .str [4, 5, 6]), (7, .other 7)], 13) := by decide
example : (wStr.bind fun h => (smooth h 0).map (fun h' => (view h' 0, view h' 7, h'.parent 1, h'.parent 12))).toOption
    = some ([.str [1, 2], .other 3, .str [4, 5, 6], .other 7], [.str [8, 9]], none, some 0) := by decide
example : (wStr.bind fun h => (smooth h 0).bind fun h' => (smooth h' 0).map (fun h'' => (h''.next, h''.kids 0, h''.kids 7))).toOption
    = some (14, [12, 3, 11, 7], [13]) := by decide
/-! non-vacuity for `decompose` / `clear(decompose=True)`: `t0` with children `[t1, s4]`, `t1` with children `[t2, s3]` -/
def wDeep : Except Err Heap :=
  run (Heap.init [.tag, .tag, .tag, .str, .str])
    [.append 0 (.node 1), .append 1 (.node 2), .append 1 (.node 3), .append 0 (.node 4)]
example : (wDeep.bind fun h => (decompose h 1).map (fun h' => (h'.kids 0, h'.kids 1, h'.parent 1, h'.parent 4))).toOption
    = some ([4], [], none, some 0) := by decide
example : (wDeep.bind fun h => (decompose h 1).map (fun h' => (h'.parent 2, h'.parent 3, h'.ne 2, h'.kids 2))).toOption
    = some (none, none, none, []) := by decide
example : (wDeep.bind fun h => (clearDecompose h 0).map (fun h' => (h'.kids 0, h'.kids 1, h'.parent 2, h'.parent 4))).toOption
    = some ([], [], none, none) := by decide
example : (wDeep.map fun h => docOrder h 1).toOption = some [1, 2, 3] := by decide

/-! ### witness: the slot arithmetic before the repair breaks contiguity

`a = t0` with children `[b,c,d,e] = [1,2,3,4]`; `a.insert(1, e, b, d)`: documented result `[e,b,d,c]`. -/
def wStart : Except Err Heap :=
  run (Heap.init [.tag, .tag, .tag, .tag, .tag])
    [.append 0 (.node 1), .append 0 (.node 2), .append 0 (.node 3), .append 0 (.node 4)]

theorem old_insert_not_contiguous :
    (wStart.bind fun h => (insertElemsOld h 0 1 [4, 1, 3]).map (·.kids 0)).toOption = some [4, 1, 2, 3] := by decide

theorem new_insert_contiguous :
    (wStart.bind fun h => (insertElems h 0 1 [4, 1, 3]).map (·.1.kids 0)).toOption = some [4, 1, 3, 2] := by decide

end BS.Props.C02
