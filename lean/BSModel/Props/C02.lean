import BSModel.Proofs.HeapContig
import BSModel.Proofs.HeapEffects
import BSModel.Proofs.HeapExtract
import BSModel.Proofs.HeapLink
/-! # C02 — each editing call has exactly its documented effect on tree shape

The forest is the pair (children lists, parent fields) of the pointer heap. The theorems give the closed form
of the forest after the two primitives every editing call is built from, and after the multi-element loop of
`Tag.insert`; `Good` (C01) supplies "no element occupies two places". -/
namespace BS.Props.C02
open BS.Heap

/-- **extract**: on a consistent forest `extract` always succeeds; `x` leaves its parent's children list,
    becomes parentless; no other children list and no other parent field changes — `x` comes back detached
    with its own subtree intact and nothing else moves. -/
theorem extract_effect {h : Heap} (x : Nat) (hg : Good h) :
    ∃ h', extract h x = .ok h' ∧ Good h' ∧
      (∀ n, h'.kids n = if h.parent x = some n then (h.kids n).erase x else h.kids n) ∧
      (∀ n, h'.parent n = if n = x then none else h.parent n) := by
  obtain ⟨h', he⟩ := extract_total extract_spec x hg
  obtain ⟨hg', hk, hp, _, _⟩ := extract_good extract_spec hg he
  exact ⟨h', he, hg', hk, hp⟩

/-- **_insert** (one element): whenever it returns, `x` has been removed from wherever it was and sits in `p`'s
    children right before the element that was at index `position` (not counting `x` itself; clamped to the
    end); every other children list only loses `x`; only `x`'s parent changes. -/
theorem insert_one_effect {h h' : Heap} {p position x : Nat}
    (hg : Good h) (hp : (h.kind p).isTag = true) (hx : h.kind x ≠ .soup)
    (hi : insertCore h p position x = .ok h') :
    h'.kids p = ((h.kids p).erase x).insertIdx (((h.kids p).take position).erase x).length x ∧
    (∀ n, n ≠ p → h'.kids n = (h.kids n).erase x) ∧
    (∀ n, h'.parent n = if n = x then some p else h.parent n) :=
  insertCore_shape extract_spec linkChild_spec hg hp hx hi

/-- **insert** (several elements): the distinct elements `xs` end up contiguous, in the requested order, right
    before the element that was at index `position`, not counting the inserted elements themselves; the other
    children keep their relative order. -/
theorem insert_many_contiguous {h h' : Heap} {p position pos' : Nat}
    {xs : List Nat} (hg : Good2 h) (hp : (h.kind p).isTag = true) (hnd : xs.Nodup)
    (hk : ∀ x ∈ xs, h.kind x ≠ .soup) (hpos : position ≤ (h.kids p).length)
    (hi : insertElems h p position xs = .ok (h', pos')) :
    h'.kids p = ((h.kids p).take position).filter (fun k => !xs.contains k) ++ xs ++
                ((h.kids p).drop position).filter (fun k => !xs.contains k) := by
  have := insertElems_contiguous extract_spec linkChild_spec xs h position h' pos' ((h.kids p).take position) [] ((h.kids p).drop position)
    hg hp hnd hk (fun _ _ hm => by cases hm) (by simp) (by simp [Nat.min_eq_left hpos]) hi
  simpa using this.1

/-- no element occupies two places: children lists are duplicate-free, and an element is in at most one of them -/
theorem no_two_places {h : Heap} (hg : Good h) :
    (∀ n, (h.kids n).Nodup) ∧ (∀ n m k, k ∈ h.kids n → k ∈ h.kids m → n = m) := by
  refine ⟨good_kids_nodup hg, ?_⟩
  obtain ⟨w, hwf⟩ := hg
  intro n m k hn hm
  have h1 := hwf.kid_parent n k hn
  have h2 := hwf.kid_parent m k hm
  rw [h1] at h2; cases h2; rfl

/-- **clear()**: every child comes back detached (parentless), the tag is left childless, and no other children
    list and no other parent field changes -/
theorem clear_effect {h h' : Heap} {t : Nat} (hg : Good h) (hc : clear h t = .ok h') :
    Good h' ∧ h'.kids t = [] ∧ (∀ n, n ≠ t → h'.kids n = h.kids n) ∧
    (∀ n, h'.parent n = if n ∈ h.kids t then none else h.parent n) :=
  BS.Heap.clear_effect hg hc

/-- **replace_with(y)** (one element that is not a sibling of `x`): `y` takes exactly `x`'s place among its
    siblings, `x` comes back detached, `y` disappears from wherever it was before, nothing else moves -/
theorem replace_with_one_effect {h h' : Heap} {x y p : Nat} (hg : Good2 h) (hp : h.parent x = some p)
    (hy : h.kind y ≠ .soup) (hxy : y ≠ x) (hyp : y ∉ h.kids p) (hr : replaceWith h x [.node y] = .ok h') :
    Good2 h' ∧ h'.kids p = (h.kids p).map (fun k => if k = x then y else k) ∧
    (∀ n, n ≠ p → h'.kids n = ((h.kids n).erase x).erase y) ∧ h'.parent x = none ∧ h'.parent y = some p :=
  replaceWith_one_effect hg hp hy hxy hyp hr

/-- **unwrap()**: the element is replaced by its children, in order, exactly at its slot; it comes back detached and
    childless; every child's parent is now the former parent; nothing else moves -/
theorem unwrap_effect {h h' : Heap} {x p : Nat} {pre post : List Nat} (hg : Good2 h) (hp : h.parent x = some p)
    (hk : h.kids p = pre ++ x :: post) (hu : unwrap h x = .ok h') :
    Good2 h' ∧ h'.kids p = pre ++ h.kids x ++ post ∧ h'.kids x = [] ∧ h'.parent x = none ∧
    (∀ n, n ≠ p → n ≠ x → h'.kids n = h.kids n) ∧ (∀ c ∈ h.kids x, h'.parent c = some p) :=
  BS.Heap.unwrap_effect hg hp hk hu

/-- **insert_before(y)** (one element): `y` is taken out of wherever it was and lands immediately before `x`; the other
    children of `x`'s parent keep their order; every other children list only loses `y` -/
theorem insert_before_one_effect {h h' : Heap} {x y p : Nat} {pre post : List Nat} (hg : Good2 h)
    (hp : h.parent x = some p) (hy : h.kind y ≠ .soup) (hxy : y ≠ x) (hxs : h.kind x ≠ .soup)
    (hk : (h.kids p).erase y = pre ++ x :: post) (hr : insertBefore h x [.node y] = .ok h') :
    Good2 h' ∧ h'.kids p = pre ++ y :: x :: post ∧ (∀ n, n ≠ p → h'.kids n = (h.kids n).erase y) ∧
    h'.parent y = some p :=
  BS.Heap.insertBefore_one_effect hg hp hy hxy hxs hk hr

/-- **insert_after(y)** (one element): `y` lands immediately after `x` -/
theorem insert_after_one_effect {h h' : Heap} {x y p : Nat} {pre post : List Nat} (hg : Good2 h)
    (hp : h.parent x = some p) (hy : h.kind y ≠ .soup) (hxy : y ≠ x) (hxs : h.kind x ≠ .soup)
    (hk : (h.kids p).erase y = pre ++ x :: post) (hr : insertAfter h x [.node y] = .ok h') :
    Good2 h' ∧ h'.kids p = pre ++ x :: y :: post ∧ (∀ n, n ≠ p → h'.kids n = (h.kids n).erase y) ∧
    h'.parent y = some p :=
  BS.Heap.insertAfter_one_effect hg hp hy hxy hxs hk hr

/-- **append(y)** (one element): `y` is taken out of wherever it was (the same tag included) and becomes the last child -/
theorem append_one_effect {h h' : Heap} {p y : Nat} (hg : Good2 h) (hp : (h.kind p).isTag = true)
    (hy : h.kind y ≠ .soup) (ha : append h p (.node y) = .ok h') :
    Good2 h' ∧ h'.kids p = (h.kids p).erase y ++ [y] ∧ (∀ n, n ≠ p → h'.kids n = (h.kids n).erase y) ∧
    h'.parent y = some p :=
  BS.Heap.append_one_effect hg hp hy ha

/-- **wrap(w)**: `w` takes `x`'s place; `x` becomes the last child of `w`; nothing else moves -/
theorem wrap_effect {h h' : Heap} {x w p : Nat} (hg : Good2 h) (hp : h.parent x = some p)
    (hw : (h.kind w).isTag = true) (hws : h.kind w ≠ .soup) (hxw : w ≠ x) (hwp : w ∉ h.kids p)
    (hr : wrap h x w = .ok h') :
    Good2 h' ∧ h'.kids p = (h.kids p).map (fun k => if k = x then w else k) ∧
    h'.kids w = h.kids w ++ [x] ∧ h'.parent x = some w ∧ h'.parent w = some p ∧
    (∀ n, n ≠ p → n ≠ w → h'.kids n = (h.kids n).erase w) :=
  BS.Heap.wrap_effect hg hp hw hws hxw hwp hr

/-- **extend(xs)** (distinct elements, wherever they were — this tag included): they end up at the end of the tag's children in the
    given order; every other children list only loses them; each has the tag as parent -/
theorem extend_effect {h h' : Heap} {p : Nat} {xs : List Nat} (hg : Good2 h) (hp : (h.kind p).isTag = true)
    (hnd : xs.Nodup) (hk : ∀ x ∈ xs, h.kind x ≠ .soup) (he : extendList h p (xs.map Arg.node) = .ok h') :
    Good2 h' ∧ h'.kids p = (h.kids p).filter (fun k => !xs.contains k) ++ xs ∧
    (∀ n, n ≠ p → h'.kids n = (h.kids n).filter (fun k => !xs.contains k)) ∧ (∀ x ∈ xs, h'.parent x = some p) :=
  BS.Heap.appendAll_effect xs h h' p hg hp hnd hk he

/-- **`tag.string = v`**: the former children come back detached, the tag's only child is a NEW string object (the next unused
    identity), no other children list changes -/
theorem set_string_effect {h h' : Heap} {t : Nat} {k : Kind} {v : PStr} (hg : Good2 h) (ht : (h.kind t).isTag = true)
    (hk : k = .str ∨ k = .pre) (hs : setString h t k v = .ok h') :
    Good2 h' ∧ h'.kids t = [h.next] ∧ h'.parent h.next = some t ∧ (∀ n, n ≠ t → h'.kids n = h.kids n) ∧
    (∀ n, n ≠ h.next → h'.parent n = if n ∈ h.kids t then none else h.parent n) :=
  BS.Heap.setString_effect hg ht hk hs

/-- **insert_before(y₁, …, yₙ)** (distinct elements, none of them the target `x`): all are removed from wherever they were and end
    up, in the given order, immediately before `x`; the other children keep their order; other lists only lose them.
    (`insertBefore h x args` is this loop once the guards — not a BeautifulSoup object, has a parent, not among the arguments — pass.) -/
theorem insert_before_many_effect {h h' : Heap} {x p : Nat} {ys pre post : List Nat} (hg : Good2 h)
    (hp : h.parent x = some p) (hnd : ys.Nodup) (hx : x ∉ ys) (hk : ∀ y ∈ ys, h.kind y ≠ .soup) (hxs : h.kind x ≠ .soup)
    (hsplit : (h.kids p).filter (fun k => !ys.contains k) = pre ++ x :: post)
    (hr : insertBeforeLoop h p x (ys.map Arg.node) = .ok h') :
    Good2 h' ∧ h'.kids p = pre ++ ys ++ x :: post ∧
    (∀ n, n ≠ p → h'.kids n = (h.kids n).filter (fun k => !ys.contains k)) ∧ (∀ y ∈ ys, h'.parent y = some p) :=
  BS.Heap.insertBefore_many_effect ys h h' x p pre post hg hp hnd hx hk hxs hsplit hr

/-- **insert_after(y₁, …, yₙ)**: … immediately after `x`, in the given order -/
theorem insert_after_many_effect {h h' : Heap} {x p : Nat} {ys pre post : List Nat} (hg : Good2 h)
    (hp : h.parent x = some p) (hnd : ys.Nodup) (hx : x ∉ ys) (hk : ∀ y ∈ ys, h.kind y ≠ .soup) (hxs : h.kind x ≠ .soup)
    (hsplit : (h.kids p).filter (fun k => !ys.contains k) = pre ++ x :: post)
    (hr : insertAfterLoop h p x (ys.map Arg.node) = .ok h') :
    Good2 h' ∧ h'.kids p = pre ++ x :: ys ++ post ∧
    (∀ n, n ≠ p → h'.kids n = (h.kids n).filter (fun k => !ys.contains k)) ∧ (∀ y ∈ ys, h'.parent y = some p) :=
  BS.Heap.insertAfter_many_effect ys h h' x p pre post hg hp hnd hx hk hxs hsplit hr

/-- **replace_with(y₁, …, yₙ)** (distinct elements, none of them `x` or `x`'s parent): `x` comes back detached and the `yᵢ` stand
    contiguously, in the given order, where `x` stood; the other children keep their order -/
theorem replace_with_many_effect {h h' : Heap} {x p : Nat} {ys pre post : List Nat} (hg : Good2 h) (hp : h.parent x = some p)
    (hnd : ys.Nodup) (hxy : x ∉ ys) (hpy : p ∉ ys) (hk : ∀ y ∈ ys, h.kind y ≠ .soup) (hne : ys ≠ [])
    (hsplit : h.kids p = pre ++ x :: post) (hr : replaceWith h x (ys.map Arg.node) = .ok h') :
    h'.kids p = pre.filter (fun k => !ys.contains k) ++ ys ++ post.filter (fun k => !ys.contains k) ∧ h'.parent x = none :=
  BS.Heap.replaceWith_many_effect hg hp hnd hxy hpy hk hne hsplit hr

/-- **a whole BeautifulSoup object as the argument of `insert`** (element.py:1943-1948: "we don't want one BeautifulSoup object to
    contain another"): its children — all of them, in order — are moved to the slot, contiguously; the object itself stays
    where it was, childless; the other children of the target keep their order -/
theorem insert_soup_effect {h h' : Heap} {p s position : Nat} {ins : List Nat} (hg : Good2 h) (hp : (h.kind p).isTag = true)
    (hs : h.kind s = .soup) (hsp : s ≠ p) (hpos : position ≤ (h.kids p).length)
    (hi : insert h p position [.node s] = .ok (h', ins)) :
    ins = h.kids s ∧
    h'.kids p = ((h.kids p).take position).filter (fun k => !(h.kids s).contains k) ++ h.kids s ++
                ((h.kids p).drop position).filter (fun k => !(h.kids s).contains k) ∧
    h'.kids s = [] :=
  BS.Heap.insert_soup_effect hg hp hs hsp hpos hi

/-! ### negative positions: `insert` reads its position the way `list.insert` does -/

/-- a non-negative position is itself -/
theorem normPos_nonneg (n : Nat) (z : Int) (hz : 0 ≤ z) : normPos n z = z.toNat := by
  unfold normPos; simp [Int.not_lt.mpr hz]

/-- `-k` stands for `len - k`, and for `0` when `k` exceeds the length (never an error) -/
theorem normPos_neg (n k : Nat) (hk : 0 < k) : normPos n (-(k : Int)) = n - k := by
  unfold normPos
  have : (-(k : Int)) < 0 := by omega
  simp only [this, if_true, Int.ofNat_eq_natCast]
  omega

/-- whatever the integer, the slot is one of the `len + 1` slots of the children list once clamped (what `insertCore` does next) -/
theorem normPos_clamped (n : Nat) (z : Int) : min (normPos n z) n ≤ n := Nat.min_le_right _ _

/-- `insert` with any Python integer IS an `insert` with a natural position: every theorem about `insert` (consistency: C01
    `every_call_keeps_consistent`; effect: `insert_one_effect`, `insert_many_contiguous`) applies to it verbatim -/
theorem insertZ_is_insert (h : Heap) (p : Nat) (z : Int) (args : List Arg) :
    insertZ h p z args = insert h p (normPos (h.kids p).length z) args := rfl

/-! non-vacuity: the calls succeed on a concrete tree (`t0` with children `[1,2,3,4]`) and give the stated lists -/
def wFour : Except Err Heap :=
  run (Heap.init [.tag, .tag, .tag, .tag, .tag])
    [.append 0 (.node 1), .append 0 (.node 2), .append 0 (.node 3), .append 0 (.node 4)]
example : (wFour.bind fun h => (insertBefore h 2 [.node 4]).map (·.kids 0)).toOption = some [1, 4, 2, 3] := by decide
example : (wFour.bind fun h => (insertAfter h 2 [.node 1]).map (·.kids 0)).toOption = some [2, 1, 3, 4] := by decide
example : (wFour.bind fun h => (append h 0 (.node 2)).map (·.kids 0)).toOption = some [1, 3, 4, 2] := by decide
example : (wFour.bind fun h => (unwrap h 0).map (·.kids 0)).toOption = none := by decide   -- no parent: ValueError
example : (wFour.bind fun h => (clear h 0).map (·.kids 0)).toOption = some [] := by decide
example : (wFour.bind fun h => (extendList h 0 [.node 3, .node 1]).map (·.kids 0)).toOption = some [2, 4, 3, 1] := by decide
example : (wFour.bind fun h => (setString h 0 .str [120]).map (fun h => (h.kids 0, h.parent 2))).toOption = some ([5], none) := by decide
example : (wFour.bind fun h => (insertBefore h 2 [.node 4, .node 1]).map (·.kids 0)).toOption = some [4, 1, 2, 3] := by decide
example : (wFour.bind fun h => (insertAfter h 2 [.node 4, .node 1]).map (·.kids 0)).toOption = some [2, 4, 1, 3] := by decide
example : (wFour.bind fun h => (replaceWith h 2 [.node 4, .node 1]).map (fun h => (h.kids 0, h.parent 2))).toOption = some ([4, 1, 3], none) := by decide
example : (wFour.bind fun h => (insertZ h 0 (-1) [.node 1]).map (·.1.kids 0)).toOption = some [2, 3, 1, 4] := by decide
example : (wFour.bind fun h => (insertZ h 0 (-4) [.node 4]).map (·.1.kids 0)).toOption = some [4, 1, 2, 3] := by decide
example : (wFour.bind fun h => (insertZ h 0 (-9) [.node 3]).map (·.1.kids 0)).toOption = some [3, 1, 2, 4] := by decide
def wSoup : Except Err Heap :=
  run (Heap.init [.tag, .tag, .tag, .soup, .tag, .tag])
    [.append 0 (.node 1), .append 0 (.node 2), .append 3 (.node 4), .append 3 (.node 5)]
example : (wSoup.bind fun h => (insert h 0 1 [.node 3]).map (fun r => (r.1.kids 0, r.1.kids 3, r.2))).toOption
    = some ([1, 4, 5, 2], [], [4, 5]) := by decide
-- the same element twice in a row (`x.insert_after(y, y)`): once, in place — not an error (repaired; formerly ValueError after `y` had been extracted)
example : (wFour.bind fun h => (insertAfter h 2 [.node 4, .node 4, .node 1]).map (·.kids 0)).toOption = some [2, 4, 1, 3] := by decide
def wFive : Except Err Heap :=
  run (Heap.init [.tag, .tag, .tag, .tag, .tag, .tag])
    [.append 0 (.node 1), .append 0 (.node 2), .append 0 (.node 3), .append 5 (.node 4)]
example : (wFive.bind fun h => (wrap h 2 5).map (fun h => (h.kids 0, h.kids 5))).toOption = some ([1, 5, 3], [4, 2]) := by decide

/-! ### witness: the slot arithmetic before the repair breaks contiguity

`a = t0` with children `[b,c,d,e] = [1,2,3,4]`; `a.insert(1, e, b, d)`: documented result `[e,b,d,c]`. -/
def wStart : Except Err Heap :=
  run (Heap.init [.tag, .tag, .tag, .tag, .tag])
    [.append 0 (.node 1), .append 0 (.node 2), .append 0 (.node 3), .append 0 (.node 4)]

theorem old_insert_not_contiguous :
    (wStart.bind fun h => (insertElemsOld h 0 1 [4, 1, 3]).map (·.kids 0)).toOption = some [4, 1, 2, 3] := by decide

theorem new_insert_contiguous :
    (wStart.bind fun h => (insertElems h 0 1 [4, 1, 3]).map (·.1.kids 0)).toOption = some [4, 1, 3, 2] := by decide

end BS.Props.C02
