import BSModel.Proofs.BuilderBal
import BSModel.Proofs.ParseLinkClose
/-! # C03 — the tree-construction state machine of `BeautifulSoup`

Property theorems only.  `St`/`step`/`run`/`finish`/`build` mirror `bs4/__init__.py` statement by statement
(`pushTag`, `popTag`, `_popToTag` with its `open_tag_counter` guard, `endData`, `string_container`, the two
context stacks); `SSt`/`sStep`/`sRun`/`buildSpec` are the documented fold that reads everything off the open
elements.  The theorems hold for **every** configuration `cfg` with `CfgOK cfg` (the BeautifulSoup object's own
name is neither whitespace-preserving nor a string container) and **every** event list.

`Inv cfg st` (Proofs/Builder.lean) is the conjunction of the facts 1 and 2 below; it holds in every reachable
state (`reachable_inv`) and is what the statements about a single `_popToTag`/`endData` call assume. -/
namespace BS.Props.C03
open BS BS.Builder

/-! ## sample configuration for the non-vacuity examples
names are code-point lists: `[0]` = the root name, `[1]` whitespace-preserving, `[2]` a string container of class 7 -/

def cfgX : Cfg :=
  { preserve := fun n => n == [1],
    container := fun n => if n == [2] then some 7 else none,
    asciiSpaces := [9, 10, 12, 13, 32],
    rootName := [0] }

example : CfgOK cfgX := by decide

/-! ## 1–2: what the counter and the two context stacks hold -/

/-- Every reachable state satisfies the invariant `Inv` (root frame last, counter = number of open frames per
    name, both context stacks = the depths of the open frames they are about). -/
theorem reachable_inv (cfg : Cfg) (hc : CfgOK cfg) (evs : List Ev) : Inv cfg (run cfg (St.init cfg) evs) :=
  Inv.reachable hc evs

/-- `open_tag_counter[n]` is the number of open elements called `n` (a tag that happens to be called like the
    BeautifulSoup object is never counted, exactly as `pushTag` skips it); the tag stack is never empty and its
    outermost frame is the BeautifulSoup object — `_popToTag` never pops it. -/
theorem counter_inv (cfg : Cfg) (hc : CfgOK cfg) (evs : List Ev) :
    let st := run cfg (St.init cfg) evs
    (∀ n, (cget st.counter n).getD 0 =
        if n == cfg.rootName then 0 else (st.stack.filter (fun f => f.name == n)).length) ∧
    st.stack ≠ [] ∧
    ∃ r, st.stack.getLast? = some r ∧ r.name = cfg.rootName ∧ r.pfx = none := by
  intro st
  have h := Inv.reachable hc evs
  exact ⟨h.counter, h.root.ne_nil, h.root.getLast?⟩

example : (run cfgX (St.init cfgX) [.start [3] none, .start [3] (some [8]), .start [0] none]).counter = [([3], 2)] := by
  decide

/-- `preserve_whitespace_tag_stack` holds exactly the open whitespace-preserving elements and
    `string_container_stack` exactly the open string-container elements (innermost first, identified by depth). -/
theorem context_stacks_inv (cfg : Cfg) (hc : CfgOK cfg) (evs : List Ev) :
    let st := run cfg (St.init cfg) evs
    st.pws = pd cfg st.stack ∧ st.scs = sd cfg st.stack := by
  intro st
  have h := Inv.reachable hc evs
  exact ⟨h.pws, h.scs⟩

/-- What the code reads off the two stacks is what the documented fold reads off the open elements:
    "is a whitespace-preserving element open" and "class given by the nearest enclosing string container". -/
theorem context_reads (cfg : Cfg) (st : St) (h : Inv cfg st) (cls : Option Cls) :
    st.pws.isEmpty = !(preserving cfg st.stack) ∧ stringContainer cfg st cls = classFor cfg st.stack cls :=
  ⟨by rw [h.pws]; exact pd_isEmpty cfg _, stringContainer_eq h.scs cls⟩

example : (run cfgX (St.init cfgX) [.start [1] none, .start [3] none, .start [2] none]).pws = [2] ∧
    (run cfgX (St.init cfgX) [.start [1] none, .start [3] none, .start [2] none]).scs = [(4, [2])] := by decide

/-! ## 3: `_popToTag` -/

/-- The counter-guarded loop of `_popToTag(name, nsprefix)` closes up to and including the most recent open
    element with that name AND prefix; if the name is open only under other prefixes, up to and including the
    OUTERMOST open element of that name; nothing if the name is not open or is the root name.  It keeps the
    pending text and the invariant. -/
theorem popToTag_spec (cfg : Cfg) (st : St) (h : Inv cfg st) (name : Name) (pfx : Option Name) :
    (popToTag cfg st name pfx).stack =
        (if name == cfg.rootName then st.stack
         else sCloseN (closeCount name pfx st.stack.dropLast) st.stack) ∧
    (popToTag cfg st name pfx).buf = st.buf ∧
    Inv cfg (popToTag cfg st name pfx) :=
  ⟨popToTag_stack h name pfx, popToTag_buf cfg st name pfx, h.popToTag name pfx⟩

/-- Without namespace prefixes: an end tag closes up to and including the most recent open element of that
    name, and is ignored if none is open. -/
theorem popToTag_noprefix (cfg : Cfg) (st : St) (h : Inv cfg st) (hp : ∀ f ∈ st.stack, f.pfx = none)
    (name : Name) :
    (popToTag cfg st name none).stack =
      if name == cfg.rootName then st.stack
      else match st.stack.dropLast.findIdx? (fun f => f.name == name) with
        | some i => sCloseN (i + 1) st.stack
        | none => st.stack := by
  rw [popToTag_stack h name none,
    closeCount_noprefix name st.stack.dropLast (fun f hf => hp f (List.dropLast_subset _ hf))]
  split
  · rfl
  · cases st.stack.dropLast.findIdx? (fun f => f.name == name) <;> rfl

/-- the state after `<a:x><b><c:x><d>` (names `[5]`, `[4]`, `[5]`, `[6]`; prefixes `[8]`, none, `[9]`, none) -/
def stX : St :=
  run cfgX (St.init cfgX) [.start [5] (some [8]), .start [4] none, .start [5] (some [9]), .start [6] none]

example : Inv cfgX stX := Inv.reachable (by decide) _
-- matching prefix: the most recent `c:x` and everything above it
example : (popToTag cfgX stX [5] (some [9])).stack.length = 3 := by decide
-- `x` is open only under other prefixes: everything up to the OUTERMOST `x`
example : (popToTag cfgX stX [5] none).stack.length = 1 := by decide
-- not open: ignored
example : (popToTag cfgX stX [7] none).stack.length = 5 := by decide

/-! ## 4–5: the code is the documented fold; everything is closed at the end -/

/-- The code-mirror state machine (counter, context stacks, guarded loops) computes exactly the documented
    fold over the event list. -/
theorem build_refines (cfg : Cfg) (hc : CfgOK cfg) (evs : List Ev) : build cfg evs = buildSpec cfg evs :=
  build_eq_buildSpec hc evs

/-- … and step by step: forgetting the counter and the context stacks commutes with every event. -/
theorem run_refines (cfg : Cfg) (hc : CfgOK cfg) (evs : List Ev) :
    abs (run cfg (St.init cfg) evs) = sRun cfg ⟨[⟨cfg.rootName, none, []⟩], []⟩ evs :=
  abs_run evs (Inv.init hc)

example : build cfgX [.start [3] none, .data [32], .data [10], .stop [4] none, .start [2] none, .data [65]] =
    [.elem [3] none [.text 0 [10], .elem [2] none [.text 7 [65]]]] := by rfl

/-- After the closing phase only the BeautifulSoup object is open, both context stacks are empty and no text
    is pending. -/
theorem all_closed (cfg : Cfg) (hc : CfgOK cfg) (evs : List Ev) :
    let st := finish cfg (run cfg (St.init cfg) evs)
    st.stack.length = 1 ∧ st.pws = [] ∧ st.scs = [] ∧ st.buf = [] :=
  finish_closed hc (Inv.reachable hc evs)

/-! ## 6: what one flush appends -/

/-- One flush with pending chunks `b ≠ []` appends exactly one string to the innermost open element and clears
    the buffer.  Its class is the explicit class if one is given and ≠ 0, else the container class of the
    NEAREST enclosing string-container element, else 0.  Its value is the concatenation of the chunks unless
    no whitespace-preserving element is open and every code point is an ASCII space: then it is `"\n"` if a
    newline occurs and `" "` otherwise. -/
theorem text_rule (cfg : Cfg) (top : Frame) (rest : List Frame) (b : List PStr) (hb : b ≠ [])
    (cls : Option Cls) :
    ∃ c s, sFlush cfg ⟨top :: rest, b⟩ cls =
        ⟨{ top with kids := top.kids ++ [Doc.text c s] } :: rest, []⟩ ∧
      (∀ k, cls = some k → k ≠ 0 → c = k) ∧
      ((cls = none ∨ cls = some 0) → ∀ pre f post k, top :: rest = pre ++ f :: post →
          (∀ g ∈ pre, cfg.container g.name = none) → cfg.container f.name = some k → c = k) ∧
      ((cls = none ∨ cls = some 0) → (∀ g ∈ top :: rest, cfg.container g.name = none) → c = 0) ∧
      (((∃ g ∈ top :: rest, cfg.preserve g.name = true) ∨ ¬ (∀ ch ∈ b.flatten, ch ∈ cfg.asciiSpaces)) →
          s = b.flatten) ∧
      ((∀ g ∈ top :: rest, cfg.preserve g.name = false) → (∀ ch ∈ b.flatten, ch ∈ cfg.asciiSpaces) →
          s = if 10 ∈ b.flatten then [10] else [32]) := by
  refine ⟨classFor cfg (top :: rest) cls, wsVal cfg (preserving cfg (top :: rest)) b.flatten, ?_, ?_, ?_, ?_, ?_, ?_⟩
  · cases b with
    | nil => exact absurd rfl hb
    | cons x xs => simp only [sFlush, wsVal]
  · intro k hk hk0; subst hk; simp [classFor, hk0]
  · intro hcls pre f post k hsplit hpre hf
    have hn := nearest_of_split cfg pre f post k hpre hf
    rw [← hsplit] at hn
    rw [classFor_eq, hn]
    rcases hcls with h | h <;> simp [h]
  · intro hcls hall
    rw [classFor_eq, nearest_none cfg _ hall]
    rcases hcls with h | h <;> simp [h]
  · intro h
    apply wsVal_keep
    rcases h with ⟨g, hg, hpg⟩ | h
    · left; simp only [preserving, List.any_eq_true]; exact ⟨g, hg, hpg⟩
    · right; exact h
  · intro hnp hall
    have : preserving cfg (top :: rest) = false := by
      simp only [preserving, List.any_eq_false]
      intro g hg; simp [hnp g hg]
    rw [this]
    exact wsVal_collapse cfg _ hall

/-- The empty-chunk quirk: `handle_data("")` followed by a flush outside whitespace-preserving elements gives
    a single space (the empty string passes the "only ASCII spaces, no newline" test). -/
theorem empty_chunk_gives_space (cfg : Cfg) (top : Frame) (rest : List Frame)
    (hnp : ∀ g ∈ top :: rest, cfg.preserve g.name = false) (cls : Option Cls) :
    sFlush cfg ⟨top :: rest, [[]]⟩ cls =
      ⟨{ top with kids := top.kids ++ [Doc.text (classFor cfg (top :: rest) cls) [32]] } :: rest, []⟩ := by
  have : preserving cfg (top :: rest) = false := by
    simp only [preserving, List.any_eq_false]
    intro g hg; simp [hnp g hg]
  simp [sFlush, this]

/-- `endData(containerClass)` of the code is that flush (in every state satisfying the invariant). -/
theorem endData_is_flush (cfg : Cfg) (st : St) (h : Inv cfg st) (cls : Option Cls) :
    abs (endData cfg st cls) = sFlush cfg (abs st) cls ∧ Inv cfg (endData cfg st cls) :=
  ⟨abs_endData h cls, h.endData cls⟩

example : build cfgX [.data []] = [.text 0 [32]] := by rfl
example : build cfgX [.start [1] none, .data [32, 10]] = [.elem [1] none [.text 0 [32, 10]]] := by rfl
example : build cfgX [.start [2] none, .start [3] none, .data [65], .endData (some 4), .data [66], .endData (some 0)] =
    [.elem [2] none [.elem [3] none [.text 4 [65], .text 7 [66]]]] := by rfl

/-! ## 7: chunking of `handle_data` calls -/

/-- Splitting a run of character data into several `handle_data` calls does not change the tree. -/
theorem data_chunking_irrelevant (cfg : Cfg) (hc : CfgOK cfg) (pre post : List Ev) (a b : PStr) :
    build cfg (pre ++ [.data a, .data b] ++ post) = build cfg (pre ++ [.data (a ++ b)] ++ post) := by
  rw [build_eq_buildSpec hc, build_eq_buildSpec hc]
  exact buildSpec_chunking cfg pre post a b

/-! ## 8: a balanced block of events -/

/-- Net effect of a balanced block: the events of a forest `ds` (each element = start, its children's events,
    stop with the same name and prefix; a string of class 0 = one data event, of class `c ≠ 0` =
    flush, data, flush-with-class), none of whose elements is named like the BeautifulSoup object, leave every
    open element as it was, append the normal form `absorb` of the forest (text merging, whitespace rule and
    class rule included — these depend only on the names of the enclosing open elements) to the innermost
    one and leave `absorb`'s pending text; each stop event closes exactly the element its start event opened. -/
theorem balanced_block (cfg : Cfg) (ds : List Doc) (hok : noRootL cfg ds = true)
    (top : Frame) (rest : List Frame) (b : List PStr) :
    sRun cfg ⟨top :: rest, b⟩ (eventsL ds) =
      ⟨{ top with kids := top.kids ++ (absorb cfg ((top :: rest).map (·.name)) b ds).1 } :: rest,
        (absorb cfg ((top :: rest).map (·.name)) b ds).2⟩ :=
  run_forest cfg ds hok top rest b

/-- … for a single node. -/
theorem balanced_node (cfg : Cfg) (d : Doc) (hok : noRoot cfg d = true)
    (top : Frame) (rest : List Frame) (b : List PStr) :
    sRun cfg ⟨top :: rest, b⟩ (events d) =
      ⟨{ top with kids := top.kids ++ (absorb1 cfg ((top :: rest).map (·.name)) b d).1 } :: rest,
        (absorb1 cfg ((top :: rest).map (·.name)) b d).2⟩ :=
  run_doc cfg d hok top rest b

/-- Building from the events of a forest gives the forest's normal form (real code, via `build_refines`). -/
theorem build_events (cfg : Cfg) (hc : CfgOK cfg) (ds : List Doc) (hok : noRootL cfg ds = true) :
    build cfg (eventsL ds) =
      (absorb cfg [cfg.rootName] [] ds).1 ++ txtN cfg [cfg.rootName] (absorb cfg [cfg.rootName] [] ds).2 none := by
  rw [build_eq_buildSpec hc]
  simp only [buildSpec, run_forest cfg ds hok, sFlush_eq, List.map_cons, List.map_nil, List.nil_append]
  rfl

example : noRootL cfgX [.elem [3] none [.text 0 [65], .text 0 [66], .elem [1] none [.text 0 [32]], .text 5 [10]]] = true := by
  decide
example : build cfgX (eventsL [.elem [3] none [.text 0 [65], .text 0 [66], .elem [1] none [.text 0 [32]], .text 5 [10, 10]]]) =
    [.elem [3] none [.text 0 [65, 66], .elem [1] none [.text 0 [32]], .text 5 [10]]] := by rfl

/-! ## 9: the tree is always well linked (C01) — parse-time linkage

`ParseLink.prun` (Model/ParseLink.lean) mirrors the pointer writes of `PageElement.setup`, `handle_starttag`,
`object_was_parsed`, `_linkage_fixer` and `pushTag`/`popTag` on the pointer heap of C01; `ParseLink.actions`
replays which objects the machine above creates and when it closes them. The theorems hold for **every**
action list, in particular for the one of every event list. -/

open BS.ParseLink in
/-- **The tree is always well linked.** Every event sequence a builder can send yields a consistently linked
    document: after the actions of any event list — under any configuration — the six link fields of every
    object and the children lists describe one forest (`Good`, the invariant of C01), so every navigation view
    of the parsed document agrees with every other. -/
theorem parsed_document_well_linked (cfg : Cfg) (evs : List Ev) :
    Heap.Good (prun PSt.init (actions cfg (St.init cfg) evs)).heap :=
  parse_wf _

open BS.ParseLink in
/-- … and so does every prefix of the parser's work and every other order of creating and closing objects:
    the heap is consistent after **any** list of parser actions, and ids never handed out are plain strings. -/
theorem parse_actions_well_linked (acts : List Act) : Heap.Good2 (prun PSt.init acts).heap :=
  parse_good2 acts

open BS.ParseLink in
/-- The BeautifulSoup object stands outside the element chain after parsing: its `next_element` is `None`
    (`PageElement.setup` never links it), the first element created has no `previous_element`, and the element
    created last has no `next_element`. -/
theorem parse_root_outside_chain (acts : List Act) :
    (prun PSt.init acts).heap.ne 0 = none ∧ (prun PSt.init acts).heap.pe 1 = none ∧
    (prun PSt.init acts).heap.ne ((prun PSt.init acts).heap.next - 1) = none :=
  ⟨parse_root_ne acts, parse_chain_ends acts⟩

open BS.ParseLink in
/-- **Document order is creation order.** The pre-order walk of the children lists from the BeautifulSoup object
    visits exactly the objects created, each once, in the order of their creation; `next_element` /
    `previous_element` link each created object to the one created right after / before it; and
    `_most_recent_element` is the object created last. -/
theorem parsed_order_is_creation_order (acts : List Act) :
    Heap.docOrder (prun PSt.init acts).heap 0 = List.range (prun PSt.init acts).heap.next ∧
    (∀ n, 1 ≤ n → n + 1 < (prun PSt.init acts).heap.next →
      (prun PSt.init acts).heap.ne n = some (n + 1) ∧ (prun PSt.init acts).heap.pe (n + 1) = some n) ∧
    (prun PSt.init acts).mre =
      if (prun PSt.init acts).heap.next = 1 then none else some ((prun PSt.init acts).heap.next - 1) :=
  ⟨parse_docOrder acts, parse_chain acts, parse_mre acts⟩

open BS.ParseLink in
/-- The open elements are the right spine of the document: the tag stack is never empty, its outermost entry is
    the BeautifulSoup object, every entry is a tag, and the last descendant of every open element is the object
    created last (so no open element has anything after it — which is why `_linkage_fixer` never has anything
    to repair, `ParseLink.newStr_fixer_noop`). -/
theorem open_elements_are_right_spine (acts : List Act) :
    (prun PSt.init acts).stack.getLast? = some 0 ∧
    ∀ c ∈ (prun PSt.init acts).stack,
      ((prun PSt.init acts).heap.kind c).isTag = true ∧
      Heap.lastDown (prun PSt.init acts).heap (prun PSt.init acts).heap.cap c = (prun PSt.init acts).heap.next - 1 :=
  ⟨parse_stack_root acts, parse_open_last acts⟩

open BS.ParseLink in
/-- Everything is closed at the end, on the pointer side too: after the actions of a complete event list only
    the BeautifulSoup object is left on the parser's tag stack. -/
theorem parsed_everything_closed (cfg : Cfg) (hc : CfgOK cfg) (evs : List Ev) :
    (prun PSt.init (actions cfg (St.init cfg) evs)).stack = [0] :=
  actions_closed cfg hc evs

/-! non-vacuity: the action list of a real event list, and the linked document it produces
    (`<3>A<1> </1></3>B`: objects 1 = `<3>`, 2 = "A", 3 = `<1>`, 4 = " ", 5 = "B") -/
open BS.ParseLink in
example : actions cfgX (St.init cfgX)
      [.start [3] none, .data [65], .start [1] none, .data [32], .stop [3] none, .data [66]] =
    [.newTag, .newStr, .newTag, .newStr, .pop, .pop, .newStr] := by decide
open BS.ParseLink in
def parsedX : Heap.Heap := (prun PSt.init [.newTag, .newStr, .newTag, .newStr, .pop, .pop, .newStr]).heap
example : parsedX.kids 0 = [1, 5] ∧ parsedX.kids 1 = [2, 3] ∧ parsedX.kids 3 = [4] ∧ parsedX.ne 0 = none ∧
    parsedX.ne 4 = some 5 ∧ parsedX.pe 1 = none ∧ parsedX.ns 1 = some 5 ∧ parsedX.parent 5 = some 0 ∧
    parsedX.next = 6 := by decide


/-! ## 10: rejected parsing strategies leave nothing behind; the empty-element rule -/

/-- whatever state earlier iterations left in the object, the document is the one built from the events of the first strategy that is
    not rejected: a strategy abandoned with ParserRejectedMarkup after sending events contributes nothing -/
theorem rejected_strategies_leave_no_trace (cfg : Cfg) (st : St) (rej : List Attempt) (hr : ∀ a ∈ rej, a.rejected = true)
    (evs : List Ev) (later : List Attempt) :
    parseLoop cfg st (rej ++ ⟨evs, false⟩ :: later) = some (build cfg evs) := by
  induction rej generalizing st with
  | nil => simp [parseLoop, build]
  | cons a rest ih =>
    have ha : a.rejected = true := hr a (by simp)
    simp only [List.cons_append, parseLoop, ha, if_true]
    exact ih _ (fun b hb => hr b (by simp [hb]))

/-- … and it does not depend on the state the object was in before (a BeautifulSoup object is reset per feed) -/
theorem parse_independent_of_previous_state (cfg : Cfg) (st st' : St) (atts : List Attempt) :
    parseLoop cfg st atts = parseLoop cfg st' atts := by
  cases atts with
  | nil => rfl
  | cons a rest => simp [parseLoop]

/-- all strategies rejected: no tree (the caller sees ParserRejectedMarkup) -/
theorem all_rejected_no_document (cfg : Cfg) (st : St) (rej : List Attempt) (hr : ∀ a ∈ rej, a.rejected = true) :
    parseLoop cfg st rej = none := by
  induction rej generalizing st with
  | nil => rfl
  | cons a rest ih =>
    simp only [parseLoop, hr a (by simp), if_true]
    exact ih _ (fun b hb => hr b (by simp [hb]))

/-- an explicitly EMPTY empty-element rule makes no element void; no rule at all makes every element potentially void -/
theorem empty_rule_no_void (n : Name) : canBeEmptyElement (some []) n = false := by simp [canBeEmptyElement]
theorem no_rule_every_void (n : Name) : canBeEmptyElement none n = true := rfl
theorem rule_is_membership (l : List Name) (n : Name) : canBeEmptyElement (some l) n = true ↔ n ∈ l := by
  simp [canBeEmptyElement]

example : parseLoop sampleCfg (St.init sampleCfg) [⟨[.start [97] none, .data [120]], true⟩, ⟨[.start [98] none], false⟩]
    = some (build sampleCfg [.start [98] none]) :=
  rejected_strategies_leave_no_trace sampleCfg _ [⟨[.start [97] none, .data [120]], true⟩] (by simp) _ []

end BS.Props.C03
