import BSModel.Model.Adapter
import BSModel.Proofs.AdapterVoid
import BSModel.Proofs.AdapterRefs
import BSModel.Props.C03
/-! # C04 — html.parser documents become the tree the markup describes

The adapter `BeautifulSoupHTMLParser` as a function from the standard-library parser's callback stream to builder
events (Model/Adapter.lean), composed with C03's construction machine. CPython's tokenizer is recorded by the
harness, not modelled. -/
namespace BS.Props.C04
open BS.Builder BS.Adapter

/-! ### void elements -/

/-- **void elements are childless siblings of what follows**, for EVERY callback stream the standard-library
    parser can emit, in any mixture of `<br>`, `<br/>`, `<br></br>` and stray end tags: in the tree the construction
    machine (code-mirror) builds from the adapter's events, no element with a void name has a child -/
theorem void_childless (bcfg : Cfg) (cfg : ACfg) (hc : CfgOK bcfg) (hr : cfg.isVoid bcfg.rootName = false)
    (sevs : List SEv) : voidLeafL cfg.isVoid (adapterBuild bcfg cfg sevs).1 = true := by
  simp only [adapterBuild]
  rw [BS.Props.C03.build_refines bcfg hc]
  exact buildSpec_voidLeaf bcfg cfg hr sevs


/-- whichever way a void element is written — `<br>` or `<br/>` — the adapter sends the builder the same two
    events, a start tag immediately followed by its own end tag: nothing can become its child -/
theorem void_start_closes_itself (cfg : ACfg) (st : ASt) (n : Name) (a : List (PStr × Option PStr)) (l c : Nat)
    (hv : cfg.isVoid n = true) :
    (astep cfg st (.starttag n a l c)).2.1 = [.start n none, .stop n none] ∧
    (astep cfg st (.startendtag n a l c)).2.1 = [.start n none, .stop n none] := by
  simp [astep, hv]

/-- `<x/>` closes itself for every name, void or not, and never consults or changes the list of already closed
    empty-element tags (this is what failed before the repair, see `old_startendtag_swallows`) -/
theorem startendtag_closes_itself (cfg : ACfg) (st : ASt) (n : Name) (a : List (PStr × Option PStr)) (l c : Nat) :
    astep cfg st (.startendtag n a l c) = (st, [.start n none, .stop n none], [mkInfo cfg a l c]) := rfl

/-- `<br></br>`: the explicit end tag of a void element is redundant — it produces no builder event and leaves
    the adapter in the state it had before the `<br>` -/
theorem redundant_end_ignored (cfg : ACfg) (st : ASt) (n : Name) (a : List (PStr × Option PStr)) (l c : Nat)
    (hv : cfg.isVoid n = true) (hn : st.alreadyClosed.contains n = false) :
    let r1 := astep cfg st (.starttag n a l c)
    let r2 := astep cfg r1.1 (.endtag n)
    r2.2.1 = [] ∧ r2.1 = st := by
  have hmem : (st.alreadyClosed ++ [n]).contains n = true := by simp
  have hrem : ∀ (L : List Name), L.contains n = false → removeFirst n (L ++ [n]) = L := by
    intro L
    induction L with
    | nil => intro _; simp [removeFirst]
    | cons m ms ih =>
      intro h
      simp only [List.contains_cons, Bool.or_eq_false_iff] at h
      have hmn : (m == n) = false := by
        rw [show (m == n) = (n == m) from by simp [BEq.comm]]; exact h.1
      simp only [List.cons_append, removeFirst, hmn, Bool.false_eq_true, if_false, ih h.2]
  simp only [astep, hv, if_true, hmem]
  exact ⟨trivial, by rw [hrem _ hn]⟩

/-- an end tag that is not the redundant end of a void element goes to the builder unchanged -/
theorem ordinary_end_forwarded (cfg : ACfg) (st : ASt) (n : Name) (hn : st.alreadyClosed.contains n = false) :
    astep cfg st (.endtag n) = (st, [.stop n none], []) := by
  simp only [astep, hn]; simp

/-! ### character and entity references -/

/-- **a decimal reference denotes its character**: `&#N;` for a code point `256 ≤ N ≤ 0x10FFFF` written with at
    most `sys.int_max_str_digits` digits becomes exactly the character `N` -/
theorem charref_denotes_decimal (cfg : ACfg) (fuel n : Nat) (hn : n < 10 ^ fuel) (hf : 0 < fuel) (h256 : 256 ≤ n)
    (hmax : n ≤ 0x10FFFF) (hlen : (decDigits fuel n).length ≤ cfg.maxDigits) :
    handleCharref cfg (decDigits fuel n) = [n] := by
  have hne := decDigits_ne_nil fuel n hn hf
  have hp := parse_decDigits fuel n hn hf
  have hhead : ∀ d ds, decDigits fuel n = d :: ds → d ≠ 120 ∧ d ≠ 88 := by
    intro d ds hd
    -- every digit is an ASCII digit: parsing would fail otherwise … the first digit is 48..57
    have : ∀ (f m : Nat), ∀ x ∈ decDigits f m, 48 ≤ x ∧ x ≤ 57 := by
      intro f
      induction f with
      | zero => intro m x hx; simp [decDigits] at hx
      | succ f ih =>
        intro m x hx
        simp only [decDigits] at hx
        split at hx
        · simp at hx; omega
        · rcases List.mem_append.mp hx with h | h
          · exact ih _ x h
          · simp at h; omega
    have := this fuel n d (by rw [hd]; simp)
    omega
  cases hd : decDigits fuel n with
  | nil => exact absurd hd hne
  | cons d ds =>
    obtain ⟨h1, h2⟩ := hhead d ds hd
    have hlen' : ¬ (d :: ds).length > cfg.maxDigits := by rw [← hd]; omega
    have hpd : parseDigits 10 decVal (d :: ds) = some n := by
      unfold parseDigits
      simp only [List.isEmpty_cons, Bool.false_eq_true, if_false]
      rw [← hd]; exact hp
    have hnum : charrefNumber cfg (d :: ds) = some n := by
      unfold charrefNumber
      simp only [List.head?_cons, Option.some.injEq, h1, h2, if_false, hlen', hpd]
    have : ¬ n < 256 := by omega
    simp [handleCharref, hnum, this, chrOK, hmax]

/-- numeric references below 256 take the Windows-1252 detour (the code's deliberate compensation): where
    Windows-1252 defines the byte, the result is that Windows-1252 character -/
theorem charref_below_256 (cfg : ACfg) (name : PStr) (n c : Nat) (hnum : charrefNumber cfg name = some n)
    (hn : n < 256) (hc : cfg.cp1252 n = some c) : handleCharref cfg name = [c] := by
  simp [handleCharref, hnum, hn, hc]

/-- a reference that cannot be converted (out of range for `chr`, or not parseable) becomes U+FFFD; in
    particular the conversion never fails, whatever the digits and however many there are -/
theorem charref_out_of_range (cfg : ACfg) (name : PStr) (n : Nat) (hnum : charrefNumber cfg name = some n)
    (hn : 0x10FFFF < n) : handleCharref cfg name = [0xFFFD] := by
  have h1 : ¬ n < 256 := by omega
  have h2 : chrOK n = false := by simp [chrOK]; omega
  simp [handleCharref, hnum, h1, h2]

theorem charref_unparseable (cfg : ACfg) (name : PStr) (hnum : charrefNumber cfg name = none) :
    handleCharref cfg name = [0xFFFD] := by
  simp [handleCharref, hnum]

/-- a named reference becomes the character sequence the table gives; an unknown name stays literal `&name` -/
theorem entityref_denotes (cfg : ACfg) (name : PStr) :
    handleEntityref cfg name = match cfg.entity name with | some c => c | none => 38 :: name := rfl

/-! ### special strings keep content and class -/

theorem comment_events (cfg : ACfg) (st : ASt) (s : PStr) :
    astep cfg st (.comment s) = (st, [.endData none, .data s, .endData (some clsComment)], []) := rfl

theorem doctype_events (cfg : ACfg) (st : ASt) (s : PStr) :
    astep cfg st (.decl s) = (st, [.endData none, .data (s.drop 8), .endData (some clsDoctype)], []) := rfl

theorem cdata_events (cfg : ACfg) (st : ASt) (s : PStr) :
    astep cfg st (.unknownDecl (cdataPrefix ++ s)) = (st, [.endData none, .data s, .endData (some clsCData)], []) := by
  have : startsWithUpper cdataPrefix (cdataPrefix ++ s) = true := by
    simp [startsWithUpper, cdataPrefix, toUpperAscii]
  simp only [astep, this, if_true, special]
  simp [cdataPrefix]

theorem pi_events (cfg : ACfg) (st : ASt) (s : PStr) :
    astep cfg st (.pi s) = (st, [.endData none, .data s, .endData (some clsPI)], []) := rfl

/-- the string delimited by `endData(none) … endData(some cls)` keeps exactly its text and gets exactly that
    class, whatever is open, unless it consists of ASCII whitespace only outside whitespace-preserving elements
    (then C03's whitespace rule applies to it as to any other string) -/
theorem special_string_kept (bcfg : Cfg) (top : Frame) (rest : List Frame) (c : List (Name × Nat)) (pws : List Nat)
    (scs : List (Nat × Name)) (s : PStr) (cls : Cls) (hcls : cls ≠ 0)
    (hs : pws ≠ [] ∨ s.all (fun ch => bcfg.asciiSpaces.contains ch) = false) :
    (run bcfg ⟨top :: rest, c, pws, scs, []⟩ [.endData none, .data s, .endData (some cls)]).stack
      = { top with kids := top.kids ++ [Doc.text cls s] } :: rest := by
  have hflat : [s].flatten = s := by simp
  simp only [run, List.foldl, step, endData, List.isEmpty_nil, if_true, List.nil_append, List.isEmpty_cons,
    Bool.false_eq_true, if_false, hflat]
  have hc : stringContainer bcfg ⟨top :: rest, c, pws, scs, [s]⟩ (some cls) = cls := by
    simp only [stringContainer, Option.getD_some]
    split
    · simp [hcls]
    · rfl
  rw [hc]
  rcases hs with h | h
  · have : pws.isEmpty = false := by cases pws <;> simp_all
    simp [this]
  · cases hp : pws.isEmpty
    · simp
    · simp only [if_true, h, Bool.false_eq_true, if_false]

/-! ### duplicate attributes -/

/-- `on_duplicate_attribute='ignore'`: the first value of a repeated attribute survives -/
theorem dup_ignore_first (d : List (PStr × AVal)) (k : PStr) (v : Option PStr) (old : AVal)
    (h : getAttr d k = some old) : addAttr .ignore d k v = d := by
  simp [addAttr, h]

/-- default / `'replace'`: the last value wins; a missing value (`None`) is stored as the empty string -/
theorem dup_replace_last (d : List (PStr × AVal)) (k : PStr) (v : Option PStr) :
    getAttr (addAttr .replace d k v) k = some (.one (v.getD [])) := by
  unfold addAttr
  cases h : getAttr d k <;> simp [getAttr_setAttr]

/-- a callable policy sees every repeated value: the documentation's accumulating handler collects them in order -/
theorem dup_accumulate (d : List (PStr × AVal)) (k : PStr) (v : Option PStr) (o : PStr)
    (h : getAttr d k = some (.one o)) :
    getAttr (addAttr .accumulate d k v) k = some (.many [o, v.getD []]) := by
  simp [addAttr, h, getAttr_setAttr]

/-- an attribute seen for the first time is stored whatever the policy -/
theorem first_occurrence_stored (pol : DupPolicy) (d : List (PStr × AVal)) (k : PStr) (v : Option PStr)
    (h : getAttr d k = none) : getAttr (addAttr pol d k v) k = some (.one (v.getD [])) := by
  simp [addAttr, h, getAttr_setAttr]

/-! ### witness: before the repair `<br>a<br/>b` made the second `br` the parent of `b` -/
def wCfg : ACfg :=
  { isVoid := fun n => n == [98, 114], dup := .replace, storeLines := false, entity := fun _ => none,
    cp1252 := fun _ => none, origDecode := fun _ => none, maxDigits := 4300 }
def wB : Cfg := { preserve := fun _ => false, container := fun _ => none, asciiSpaces := [32, 10, 9, 12, 13], rootName := [91] }
def wDoc : List SEv := [.starttag [98, 114] [] 1 0, .data [97], .startendtag [98, 114] [] 1 5, .data [98]]

theorem old_startendtag_swallows :
    codeL (build wB (toEventsOld wCfg wDoc).1) =
      codeL [.elem [98, 114] none [], .text 0 [97], .elem [98, 114] none [.text 0 [98]]] := by decide

theorem repaired_startendtag_sibling :
    codeL (build wB (toEvents wCfg wDoc).1) =
      codeL [.elem [98, 114] none [], .text 0 [97], .elem [98, 114] none [], .text 0 [98]] := by decide

/-! non-vacuity of `charref_denotes_decimal`: `&#9731;` is the snowman -/
example : handleCharref wCfg (decDigits 4 9731) = [9731] :=
  charref_denotes_decimal wCfg 4 9731 (by decide) (by decide) (by decide) (by decide) (by decide)

end BS.Props.C04
