import BSModel.Model.Adapter
import BSModel.Proofs.AdapterVoid
import BSModel.Proofs.AdapterRefs
import BSModel.Props.C03
import BSModel.Proofs.WriterBuild
import BSModel.Proofs.WriterViews
import BSModel.Gen.Cp1252
import BSModel.Proofs.TokenizerWholePos
import BSModel.Proofs.TokenizerWholeBuild
import BSModel.Proofs.TokenizerRawDoc
/-! # C04 — html.parser documents become the tree the markup describes

The adapter `BeautifulSoupHTMLParser` as a function from the standard-library parser's callback stream to builder
events (Model/Adapter.lean), composed with C03's construction machine. CPython's tokenizer is recorded by the
harness, not modelled. -/
namespace BS.Props.C04
open BS.Builder BS.Adapter

/-! ### void elements -/

/-- **void elements are childless siblings of what follows**, for EVERY callback stream the standard-library
    parser can emit, in any mixture of `<br>`, `<br/>`, `<br></br>` and stray end tags: in the tree the construction
    machine (code-mirror) builds from the adapter's events, no element with a void name has a child -/
theorem void_childless (bcfg : Cfg) (cfg : ACfg) (hc : CfgOK bcfg) (hr : cfg.isVoid bcfg.rootName = false)
    (sevs : List SEv) : voidLeafL cfg.isVoid (adapterBuild bcfg cfg sevs).1 = true := by
  simp only [adapterBuild]
  rw [BS.Props.C03.build_refines bcfg hc]
  exact buildSpec_voidLeaf bcfg cfg hr sevs


/-- whichever way a void element is written — `<br>` or `<br/>` — the adapter sends the builder the same two
    events, a start tag immediately followed by its own end tag: nothing can become its child -/
theorem void_start_closes_itself (cfg : ACfg) (st : ASt) (n : Name) (a : List (PStr × Option PStr)) (l c : Nat)
    (hv : cfg.isVoid n = true) :
    (astep cfg st (.starttag n a l c)).2.1 = [.start n none, .stop n none] ∧
    (astep cfg st (.startendtag n a l c)).2.1 = [.start n none, .stop n none] := by
  simp [astep, hv]

/-- `<x/>` closes itself for every name, void or not, and never consults or changes the list of already closed
    empty-element tags (this is what failed before the repair, see `old_startendtag_swallows`) -/
theorem startendtag_closes_itself (cfg : ACfg) (st : ASt) (n : Name) (a : List (PStr × Option PStr)) (l c : Nat) :
    astep cfg st (.startendtag n a l c) = (st, [.start n none, .stop n none], [mkInfo cfg a l c]) := rfl

/-- `<br></br>`: the explicit end tag of a void element is redundant — it produces no builder event and leaves
    the adapter in the state it had before the `<br>` -/
theorem redundant_end_ignored (cfg : ACfg) (st : ASt) (n : Name) (a : List (PStr × Option PStr)) (l c : Nat)
    (hv : cfg.isVoid n = true) (hn : st.alreadyClosed.contains n = false) :
    let r1 := astep cfg st (.starttag n a l c)
    let r2 := astep cfg r1.1 (.endtag n)
    r2.2.1 = [] ∧ r2.1 = st := by
  have hmem : (st.alreadyClosed ++ [n]).contains n = true := by simp
  have hrem : ∀ (L : List Name), L.contains n = false → removeFirst n (L ++ [n]) = L := by
    intro L
    induction L with
    | nil => intro _; simp [removeFirst]
    | cons m ms ih =>
      intro h
      simp only [List.contains_cons, Bool.or_eq_false_iff] at h
      have hmn : (m == n) = false := by
        rw [show (m == n) = (n == m) from by simp [BEq.comm]]; exact h.1
      simp only [List.cons_append, removeFirst, hmn, Bool.false_eq_true, if_false, ih h.2]
  simp only [astep, hv, if_true, hmem]
  exact ⟨trivial, by rw [hrem _ hn]⟩

/-- an end tag that is not the redundant end of a void element goes to the builder unchanged -/
theorem ordinary_end_forwarded (cfg : ACfg) (st : ASt) (n : Name) (hn : st.alreadyClosed.contains n = false) :
    astep cfg st (.endtag n) = (st, [.stop n none], []) := by
  simp only [astep, hn]; simp

/-! ### character and entity references -/

/-- **a decimal reference denotes its character**: `&#N;` for a code point `256 ≤ N ≤ 0x10FFFF` written with at
    most `sys.int_max_str_digits` digits becomes exactly the character `N` -/
theorem charref_denotes_decimal (cfg : ACfg) (fuel n : Nat) (hn : n < 10 ^ fuel) (hf : 0 < fuel) (h256 : 256 ≤ n)
    (hmax : n ≤ 0x10FFFF) (hlen : (decDigits fuel n).length ≤ cfg.maxDigits) :
    handleCharref cfg (decDigits fuel n) = [n] := by
  have hne := decDigits_ne_nil fuel n hn hf
  have hp := parse_decDigits fuel n hn hf
  have hhead : ∀ d ds, decDigits fuel n = d :: ds → d ≠ 120 ∧ d ≠ 88 := by
    intro d ds hd
    -- every digit is an ASCII digit: parsing would fail otherwise … the first digit is 48..57
    have : ∀ (f m : Nat), ∀ x ∈ decDigits f m, 48 ≤ x ∧ x ≤ 57 := by
      intro f
      induction f with
      | zero => intro m x hx; simp [decDigits] at hx
      | succ f ih =>
        intro m x hx
        simp only [decDigits] at hx
        split at hx
        · simp at hx; omega
        · rcases List.mem_append.mp hx with h | h
          · exact ih _ x h
          · simp at h; omega
    have := this fuel n d (by rw [hd]; simp)
    omega
  cases hd : decDigits fuel n with
  | nil => exact absurd hd hne
  | cons d ds =>
    obtain ⟨h1, h2⟩ := hhead d ds hd
    have hlen' : ¬ (d :: ds).length > cfg.maxDigits := by rw [← hd]; omega
    have hpd : parseDigits 10 decVal (d :: ds) = some n := by
      unfold parseDigits
      simp only [List.isEmpty_cons, Bool.false_eq_true, if_false]
      rw [← hd]; exact hp
    have hnum : charrefNumber cfg (d :: ds) = some n := by
      unfold charrefNumber
      simp only [List.head?_cons, Option.some.injEq, h1, h2, if_false, hlen', hpd]
    have : ¬ n < 256 := by omega
    simp [handleCharref, hnum, this, chrOK, hmax]

/-- numeric references below 256 take the Windows-1252 detour (the code's deliberate compensation): where
    Windows-1252 defines the byte, the result is that Windows-1252 character -/
theorem charref_below_256 (cfg : ACfg) (name : PStr) (n c : Nat) (hnum : charrefNumber cfg name = some n)
    (hn : n < 256) (hc : cfg.cp1252 n = some c) : handleCharref cfg name = [c] := by
  simp [handleCharref, hnum, hn, hc]

/-- a reference that cannot be converted (out of range for `chr`, or not parseable) becomes U+FFFD; in
    particular the conversion never fails, whatever the digits and however many there are -/
theorem charref_out_of_range (cfg : ACfg) (name : PStr) (n : Nat) (hnum : charrefNumber cfg name = some n)
    (hn : 0x10FFFF < n) : handleCharref cfg name = [0xFFFD] := by
  have h1 : ¬ n < 256 := by omega
  have h2 : chrOK n = false := by simp [chrOK]; omega
  simp [handleCharref, hnum, h1, h2]

theorem charref_unparseable (cfg : ACfg) (name : PStr) (hnum : charrefNumber cfg name = none) :
    handleCharref cfg name = [0xFFFD] := by
  simp [handleCharref, hnum]

/-- a named reference becomes the character sequence the table gives; an unknown name stays literal `&name` -/
theorem entityref_denotes (cfg : ACfg) (name : PStr) :
    handleEntityref cfg name = match cfg.entity name with | some c => c | none => 38 :: name := rfl

/-! ### special strings keep content and class -/

theorem comment_events (cfg : ACfg) (st : ASt) (s : PStr) :
    astep cfg st (.comment s) = (st, [.endData none, .data s, .endData (some clsComment)], []) := rfl

theorem doctype_events (cfg : ACfg) (st : ASt) (s : PStr) :
    astep cfg st (.decl s) = (st, [.endData none, .data (s.drop 8), .endData (some clsDoctype)], []) := rfl

theorem cdata_events (cfg : ACfg) (st : ASt) (s : PStr) :
    astep cfg st (.unknownDecl (cdataPrefix ++ s)) = (st, [.endData none, .data s, .endData (some clsCData)], []) := by
  have : startsWithUpper cdataPrefix (cdataPrefix ++ s) = true := by
    simp [startsWithUpper, cdataPrefix, toUpperAscii]
  simp only [astep, this, if_true, special]
  simp [cdataPrefix]

theorem pi_events (cfg : ACfg) (st : ASt) (s : PStr) :
    astep cfg st (.pi s) = (st, [.endData none, .data s, .endData (some clsPI)], []) := rfl

/-- the string delimited by `endData(none) … endData(some cls)` keeps exactly its text and gets exactly that
    class, whatever is open, unless it consists of ASCII whitespace only outside whitespace-preserving elements
    (then C03's whitespace rule applies to it as to any other string) -/
theorem special_string_kept (bcfg : Cfg) (top : Frame) (rest : List Frame) (c : List (Name × Nat)) (pws : List Nat)
    (scs : List (Nat × Name)) (s : PStr) (cls : Cls) (hcls : cls ≠ 0)
    (hs : pws ≠ [] ∨ s.all (fun ch => bcfg.asciiSpaces.contains ch) = false) :
    (run bcfg ⟨top :: rest, c, pws, scs, []⟩ [.endData none, .data s, .endData (some cls)]).stack
      = { top with kids := top.kids ++ [Doc.text cls s] } :: rest := by
  have hflat : [s].flatten = s := by simp
  simp only [run, List.foldl, step, endData, List.isEmpty_nil, if_true, List.nil_append, List.isEmpty_cons,
    Bool.false_eq_true, if_false, hflat]
  have hc : stringContainer bcfg ⟨top :: rest, c, pws, scs, [s]⟩ (some cls) = cls := by
    simp only [stringContainer, Option.getD_some]
    split
    · simp [hcls]
    · rfl
  rw [hc]
  rcases hs with h | h
  · have : pws.isEmpty = false := by cases pws <;> simp_all
    simp [this]
  · cases hp : pws.isEmpty
    · simp
    · simp only [if_true, h, Bool.false_eq_true, if_false]

/-! ### duplicate attributes -/

/-- `on_duplicate_attribute='ignore'`: the first value of a repeated attribute survives -/
theorem dup_ignore_first (d : List (PStr × AVal)) (k : PStr) (v : Option PStr) (old : AVal)
    (h : getAttr d k = some old) : addAttr .ignore d k v = d := by
  simp [addAttr, h]

/-- default / `'replace'`: the last value wins; a missing value (`None`) is stored as the empty string -/
theorem dup_replace_last (d : List (PStr × AVal)) (k : PStr) (v : Option PStr) :
    getAttr (addAttr .replace d k v) k = some (.one (v.getD [])) := by
  unfold addAttr
  cases h : getAttr d k <;> simp [getAttr_setAttr]

/-- a callable policy sees every repeated value: the documentation's accumulating handler collects them in order -/
theorem dup_accumulate (d : List (PStr × AVal)) (k : PStr) (v : Option PStr) (o : PStr)
    (h : getAttr d k = some (.one o)) :
    getAttr (addAttr .accumulate d k v) k = some (.many [o, v.getD []]) := by
  simp [addAttr, h, getAttr_setAttr]

/-- an attribute seen for the first time is stored whatever the policy -/
theorem first_occurrence_stored (pol : DupPolicy) (d : List (PStr × AVal)) (k : PStr) (v : Option PStr)
    (h : getAttr d k = none) : getAttr (addAttr pol d k v) k = some (.one (v.getD [])) := by
  simp [addAttr, h, getAttr_setAttr]

/-! ### witness: before the repair `<br>a<br/>b` made the second `br` the parent of `b` -/
def wCfg : ACfg :=
  { isVoid := fun n => n == [98, 114], dup := .replace, storeLines := false, entity := fun _ => none,
    cp1252 := fun _ => none, origDecode := fun _ => none, maxDigits := 4300 }
def wB : Cfg := { preserve := fun _ => false, container := fun _ => none, asciiSpaces := [32, 10, 9, 12, 13], rootName := [91] }
def wDoc : List SEv := [.starttag [98, 114] [] 1 0, .data [97], .startendtag [98, 114] [] 1 5, .data [98]]

theorem old_startendtag_swallows :
    codeL (build wB (toEventsOld wCfg wDoc).1) =
      codeL [.elem [98, 114] none [], .text 0 [97], .elem [98, 114] none [.text 0 [98]]] := by decide

theorem repaired_startendtag_sibling :
    codeL (build wB (toEvents wCfg wDoc).1) =
      codeL [.elem [98, 114] none [], .text 0 [97], .elem [98, 114] none [], .text 0 [98]] := by decide

/-! non-vacuity of `charref_denotes_decimal`: `&#9731;` is the snowman -/
example : handleCharref wCfg (decDigits 4 9731) = [9731] :=
  charref_denotes_decimal wCfg 4 9731 (by decide) (by decide) (by decide) (by decide) (by decide)

/-! ## the whole-document theorem: the markup of a well-formed writer becomes the tree it describes

`Writer.WDoc` is the document a writer has in mind, `Writer.emitDoc iv c ds` the html.parser callback stream of its
markup under the writer's per-occurrence choices `c` (Model/Writer.lean: every void element spelt `<br>`, `<br/>`
or `<br></br>`; every text cut into arbitrarily many chunks, every character of it spelt literally, as a decimal or
hexadecimal reference with any number of leading zeros in either case, or as a named reference; every letter of
the keyword of a doctype/CDATA section in either case; start-tag positions whatever the in-tag whitespace makes them), and
`Writer.normalise` the tree the document describes. Hypotheses, all decidable and explicit:

 * `CfgOK bcfg` (C03): the `BeautifulSoup` object's own name is neither whitespace-preserving nor a string container;
 * `Representable`: no element is named like the `BeautifulSoup` object; a void element has no children;
 * `WellSpelt`: every reference the writer chose denotes the character it stands for (`numericOK`: a code point,
   and not one of the bytes 128–159 that bs4's Windows-1252 detour re-maps; a decimal digit string no longer than
   `sys.int_max_str_digits`; a name that is in `HTML_ENTITY_TO_CHARACTER` with exactly that character).

The harness (`harness/c04.py`, stream `writer`) ties both ends to the real code: the recorded callbacks of the
real tokenizer on the written text equal `emitDoc` for the choices the writer took, and the real parse equals
`normalise`; it also runs the real code at the excluded points. -/

section Whole
open BS.Writer

/-- **emit_build — html.parser documents become the tree their markup describes.** For every document, every
    assignment of the writer's choices and every adapter/builder configuration: feeding the callback stream of the
    written markup through `BeautifulSoupHTMLParser` (void handling via `already_closed_empty_element`, reference
    conversion, string classes) and the construction machine of C03 (the code-mirror `build`) yields exactly
    `normalise`: elements nested as written, void elements childless siblings of what follows, adjacent text merged
    with every reference replaced by its character, whitespace-only runs collapsed per C03's rule, text classes
    from the nearest string container, comments/CDATA/doctypes/declarations/PIs in their classes and in place —
    and `Tag.__init__` receives the attributes and positions of the start tags in document order. -/
theorem emit_build (bcfg : Cfg) (acfg : ACfg) (hc : CfgOK bcfg) (ds : List WDoc) (c : Choices)
    (hr : Representable bcfg acfg ds) (hs : WellSpelt acfg c.char ds) :
    adapterBuild bcfg acfg (emitDoc acfg.isVoid c ds) = (normalise bcfg ds, startInfos acfg c ds) := by
  simp only [adapterBuild, toEvents_emitDoc]
  rw [BS.Props.C03.build_refines bcfg hc, buildSpec_bev_normalise bcfg acfg c ds hr hs]

/-! the mixed sample document of the non-vacuity examples:
    `<!doctype html><p id=x k>a&amp;b<br>&#0099;<br/>&#X64;<br></br><!--note--></p><pre> \n </pre> \n ` -/
def xB : Cfg :=
  { preserve := fun n => n == [112, 114, 101], container := fun n => if n == [114, 116] then some 9 else none,
    asciiSpaces := [32, 10, 9, 12, 13], rootName := [91, 100, 111, 99, 117, 109, 101, 110, 116, 93] }
def xA : ACfg :=
  { isVoid := fun n => n == [98, 114], dup := .replace, storeLines := true,
    entity := fun n => if n == [97, 109, 112] then some [38] else none,
    cp1252 := fun n => if n < 128 || 160 ≤ n then some n else if n == 150 then some 8211 else none,
    origDecode := fun _ => none, maxDigits := 4300 }
def xDoc : List WDoc :=
  [ .special .doctype [104, 116, 109, 108],
    .elem [112] [([105, 100], some [120]), ([107], none)]
      [ .text [97, 38, 98], .elem [98, 114] [] [], .text [99], .elem [98, 114] [] [], .text [100], .elem [98, 114] [] [],
        .special .comment [110, 111, 116, 101] ],
    .elem [112, 114, 101] [] [ .text [32, 10, 32] ],
    .text [32, 10, 32] ]
/-- `<br>` at path [1,1], `<br/>` at [3,1], `<br></br>` at [5,1]; `&amp;` for the `&`; `&#0099;` for `c`; `&#X64;`
    for `d`; the `b` after `&amp;` starts a new chunk; lower-case `doctype` -/
def xC : Choices :=
  { void := fun p => if p == [1, 1] then .plain else if p == [3, 1] then .slash else .pair,
    pos := fun p => (1, 10 * p.length + p.headD 0),
    char := fun p i =>
      if p == [0, 1] && i == 1 then .named [97, 109, 112]
      else if p == [0, 1] && i == 2 then .lit true
      else if p == [2, 1] then .dec 2
      else if p == [4, 1] then .hex true false 0
      else .lit false,
    kwCase := fun _ _ => false }
/-- the other extreme: every void element `<br/>`, everything literal and in one chunk, `DocType` -/
def xC' : Choices := { xC with void := fun _ => .slash, char := fun _ _ => .lit false, kwCase := fun _ i => i % 3 == 0 }

def xTree : List Doc :=
  [ .text 5 [104, 116, 109, 108],
    .elem [112] none [ .text 0 [97, 38, 98], .elem [98, 114] none [], .text 0 [99], .elem [98, 114] none [], .text 0 [100],
      .elem [98, 114] none [], .text 1 [110, 111, 116, 101] ],
    .elem [112, 114, 101] none [ .text 0 [32, 10, 32] ],
    .text 0 [10] ]

example : CfgOK xB := by decide
example : Representable xB xA xDoc := by decide
example : WellSpelt xA xC.char xDoc := by decide
/-- the callbacks of the sample: all three void spellings, the entity between two data chunks, both numeric forms -/
example : (emitDoc xA.isVoid xC xDoc).length = 17 := by decide
example : codeL (normalise xB xDoc) = codeL xTree := by decide
example : codeL (adapterBuild xB xA (emitDoc xA.isVoid xC xDoc)).1 = codeL xTree := by decide
example : adapterBuild xB xA (emitDoc xA.isVoid xC xDoc) = (normalise xB xDoc, startInfos xA xC xDoc) :=
  emit_build xB xA (by decide) xDoc xC (by decide) (by decide)
/-- the excluded points are genuinely excluded: `&#150;` does not denote U+0096 (Windows-1252 detour) and a void
    element with a child is not what `<br>x</br>` builds -/
example : numericOK xA 150 = false ∧ handleCharref xA (decName 0 150) = [8211] := by decide
example : ¬ Representable xB xA [.elem [98, 114] [] [.text [120]]] := by decide

/-- **the spelling of void elements is irrelevant**: two assignments of the writer's choices that differ only in
    how void elements are spelt (`<br>`, `<br/>`, `<br></br>`, in any mixture) — and in the case of the
    doctype/CDATA keywords — give the same tree and the same attributes and positions -/
theorem void_spelling_irrelevant (bcfg : Cfg) (acfg : ACfg) (hc : CfgOK bcfg) (ds : List WDoc) (c1 c2 : Choices)
    (hchar : c1.char = c2.char) (hpos : c1.pos = c2.pos)
    (hr : Representable bcfg acfg ds) (hs : WellSpelt acfg c1.char ds) :
    adapterBuild bcfg acfg (emitDoc acfg.isVoid c1 ds) = adapterBuild bcfg acfg (emitDoc acfg.isVoid c2 ds) := by
  rw [emit_build bcfg acfg hc ds c1 hr hs, emit_build bcfg acfg hc ds c2 hr (hchar ▸ hs)]
  simp only [startInfos, infosL_congr acfg c1 c2 hpos]

example : adapterBuild xB xA (emitDoc xA.isVoid xC xDoc) =
    adapterBuild xB xA (emitDoc xA.isVoid { xC with void := fun _ => .slash } xDoc) :=
  void_spelling_irrelevant xB xA (by decide) xDoc xC _ rfl rfl (by decide) (by decide)

/-- **the spelling of references and the chunking of text are irrelevant**: any two assignments of choices whose
    references denote the characters they stand for — literal or decimal or hexadecimal or named, however many
    leading zeros, whichever case, wherever the text is cut into chunks — give the same tree (and, with the same
    start-tag positions, the same start infos); the void spellings may differ as well -/
theorem reference_spelling_irrelevant (bcfg : Cfg) (acfg : ACfg) (hc : CfgOK bcfg) (ds : List WDoc) (c1 c2 : Choices)
    (hr : Representable bcfg acfg ds) (hs1 : WellSpelt acfg c1.char ds) (hs2 : WellSpelt acfg c2.char ds) :
    (adapterBuild bcfg acfg (emitDoc acfg.isVoid c1 ds)).1 = (adapterBuild bcfg acfg (emitDoc acfg.isVoid c2 ds)).1 ∧
    (c1.pos = c2.pos →
      adapterBuild bcfg acfg (emitDoc acfg.isVoid c1 ds) = adapterBuild bcfg acfg (emitDoc acfg.isVoid c2 ds)) := by
  rw [emit_build bcfg acfg hc ds c1 hr hs1, emit_build bcfg acfg hc ds c2 hr hs2]
  refine ⟨rfl, fun hpos => ?_⟩
  simp only [startInfos, infosL_congr acfg c1 c2 hpos]

example : WellSpelt xA xC'.char xDoc := by decide
example : adapterBuild xB xA (emitDoc xA.isVoid xC xDoc) = adapterBuild xB xA (emitDoc xA.isVoid xC' xDoc) :=
  (reference_spelling_irrelevant xB xA (by decide) xDoc xC xC' (by decide) (by decide) (by decide)).2 rfl
-- the two callback streams really differ
example : (emitDoc xA.isVoid xC' xDoc).length = 14 := by decide

/-- **elements nest as their tags do**: forgetting every string, the built tree is the element skeleton of the
    document — same names, same nesting, same order; in particular every void element is childless and what
    follows it is its sibling -/
theorem nesting_preserved (bcfg : Cfg) (acfg : ACfg) (hc : CfgOK bcfg) (ds : List WDoc) (c : Choices)
    (hr : Representable bcfg acfg ds) (hs : WellSpelt acfg c.char ds) :
    skelL (adapterBuild bcfg acfg (emitDoc acfg.isVoid c ds)).1 = wskelL ds := by
  rw [emit_build bcfg acfg hc ds c hr hs]
  exact skel_normalise bcfg ds

example : codeL (skelL (adapterBuild xB xA (emitDoc xA.isVoid xC xDoc)).1) =
    codeL [.elem [112] none [.elem [98, 114] none [], .elem [98, 114] none [], .elem [98, 114] none []],
           .elem [112, 114, 101] none []] := by decide

/-- **attribute names and values keep their content and order**: the elements of the built tree, in document
    order, have the names of the document's tags, `Tag.__init__` is handed one attribute dictionary per element in
    that order, and — when no attribute name repeats within a tag — that dictionary is the written attribute list:
    same names, same values (a missing value as the empty string), same order, under every
    `on_duplicate_attribute` policy. (Repeated names: `dup_ignore_first`, `dup_replace_last`, `dup_accumulate`.) -/
theorem attributes_preserved (bcfg : Cfg) (acfg : ACfg) (hc : CfgOK bcfg) (ds : List WDoc) (c : Choices)
    (hr : Representable bcfg acfg ds) (hs : WellSpelt acfg c.char ds)
    (hn : ∀ t ∈ wtagsL ds, keysNodup (t.2.map (·.1)) = true) :
    namesL (adapterBuild bcfg acfg (emitDoc acfg.isVoid c ds)).1 = (wtagsL ds).map (·.1) ∧
    (adapterBuild bcfg acfg (emitDoc acfg.isVoid c ds)).2.map (·.attrs) = (wtagsL ds).map (fun t => plainAttrs t.2) := by
  rw [emit_build bcfg acfg hc ds c hr hs]
  refine ⟨names_normalise bcfg ds, ?_⟩
  simp only [startInfos, infosL_attrs bcfg acfg c ds [] 0 hr]
  exact List.map_congr_left (fun t ht => attrDict_nodup acfg.dup t.2 (hn t ht))

example : ((adapterBuild xB xA (emitDoc xA.isVoid xC xDoc)).2.map (·.attrs) ==
    [[([105, 100], .one [120]), ([107], .one [])], [], [], [], []]) = true := by
  rw [(attributes_preserved xB xA (by decide) xDoc xC (by decide) (by decide) (by decide)).2]; decide

/-- **comments, CDATA sections, doctypes, declarations and processing instructions keep their content and
    order**: the special strings of the built tree, in document order, are those of the document, each in its class
    (a declaration whose text starts with `CDATA[` IS a CDATA section) and with its content — after C03's whitespace
    rule, which `endData` applies to every string and which leaves anything but a run of ASCII spaces alone
    (`special_content_verbatim`). `ContainersApart`: no string container hands out one of the five special classes. -/
theorem special_strings_preserved (bcfg : Cfg) (acfg : ACfg) (hc : CfgOK bcfg) (hk : ContainersApart bcfg)
    (ds : List WDoc) (c : Choices) (hr : Representable bcfg acfg ds) (hs : WellSpelt acfg c.char ds) :
    specialsL (adapterBuild bcfg acfg (emitDoc acfg.isVoid c ds)).1 = wspecialsL bcfg [bcfg.rootName] ds := by
  rw [emit_build bcfg acfg hc ds c hr hs]
  exact specials_normalise bcfg hk ds

/-- … and that content is the written one verbatim, unless it consists of ASCII spaces only and no enclosing
    element preserves whitespace -/
theorem special_content_verbatim (bcfg : Cfg) (ctx : List Name) (k : Kind) (s : PStr)
    (h : ctx.any bcfg.preserve = true ∨ (specialText k s).2.all (fun ch => bcfg.asciiSpaces.contains ch) = false) :
    wspecials bcfg ctx (.special k s) = [((specialText k s).1, (specialText k s).2)] := by
  simp only [wspecials, wsRule_keep bcfg ctx _ h]

example : ContainersApart xB := by
  intro n c h
  simp only [xB] at h
  split at h
  · cases h; decide
  · cases h
example : specialsL (adapterBuild xB xA (emitDoc xA.isVoid xC xDoc)).1 =
    [(clsDoctype, [104, 116, 109, 108]), (clsComment, [110, 111, 116, 101])] := by decide

/-- **numeric references denote their characters in every spelling**: decimal with any number of leading zeros
    (up to `sys.int_max_str_digits` digits in all) and hexadecimal with `x` or `X`, any number of leading zeros and
    digits in either case, for every code point `numericOK` admits -/
theorem numeric_reference_denotes (cfg : ACfg) (n : Nat) (hok : numericOK cfg n = true) :
    (∀ z, (decName z n).length ≤ cfg.maxDigits → handleCharref cfg (decName z n) = [n]) ∧
    (∀ ux ud z, handleCharref cfg (hexName ux ud z n) = [n]) :=
  ⟨fun z hl => dec_denotes cfg z n hok hl, fun ux ud z => hex_denotes cfg ux ud z n hok⟩

example : handleCharref xA (hexName true true 3 9731) = [9731] ∧ hexName true true 3 9731 = [88, 48, 48, 48, 50, 54, 48, 51] :=
  ⟨(numeric_reference_denotes xA 9731 (by decide)).2 true true 3, by decide⟩

/-- the live Windows-1252 table (CPython's codec, generated) with no document encoding (`str` input) -/
def liveRefCfg : ACfg :=
  { xA with cp1252 := fun n => (BS.Gen.cp1252Table.find? (fun e => e.1 == n)).map (·.2), origDecode := fun _ => none }

/-- **which characters cannot be written as numeric references**, on the live table: exactly the 27 code points
    128–159 that Windows-1252 maps elsewhere (`&#150;` is an en dash, not U+0096); the five bytes it leaves undefined
    (129, 141, 143, 144, 157) and everything else up to U+10FFFF denote themselves -/
theorem numericOK_live (n : Nat) (hn : n ≤ 0x10FFFF) :
    numericOK liveRefCfg n = !(128 ≤ n && n ≤ 159 && !([129, 141, 143, 144, 157].contains n)) := by
  by_cases h : n < 256
  · have key : (List.range 256).all (fun n =>
        numericOK liveRefCfg n == !(128 ≤ n && n ≤ 159 && !([129, 141, 143, 144, 157].contains n))) = true := by
      decide +kernel
    have := (List.all_eq_true.mp key) n (List.mem_range.mpr h)
    simpa using this
  · have h1 : ¬ n ≤ 159 := by omega
    simp [numericOK, hn, h1]; omega

end Whole

/-! ## the written TEXT: parsing a well-formed written document yields the tree it describes

`emit_build` starts from the html.parser CALLBACKS of a written document. This section starts from its TEXT
(`Model/WriterText.lean: writeText`) and goes through the model of CPython's tokenizer (`Model/Tokenizer.lean`, tied
to the real `html.parser` by the `tokenizer-model` streams): the callbacks the tokenizer makes on the text are `emit`'s,
up to the cutting of character data into chunks, with every start tag at the line/column of its `<`. -/
section Written
open BS.Writer BS.WriterText

/-- **the tokenizer on a written document.** For a `Writable` document under any choices of the writer, and any
    `str.lower`/`html.unescape` that leave the writer's names alone and invert its attribute escaping (`ParamsOK`):
    `feed(writeText …); close()` does not raise, consumes the whole text, and makes exactly the callbacks `emit` lists —
    same callbacks, same order, same names, attributes, references, special strings — up to the cutting of character
    data into `data` chunks (`mergeData`), each start tag reported at the position `derivedPos` reads off the text
    (the 1-based line and 0-based column of the offset of its `<`). -/
theorem callbacks_of_written_document (P : BS.Tokenizer.Params) (hP : ParamsOK P) (iv : Name → Bool) (c : Choices)
    (ds : List WDoc) (hw : Writable iv c ds) :
    mergeData (BS.Tokenizer.callbacks (BS.Tokenizer.run P (writeText iv c ds))) =
        mergeData (emitDoc iv (withDerivedPos iv c ds) ds) ∧
      (BS.Tokenizer.run P (writeText iv c ds)).flag = .ok ∧ (BS.Tokenizer.run P (writeText iv c ds)).st.s = [] := by
  have hg := good_wtoksL P hP iv c ds [] 0 hw
  obtain ⟨h1, h2, h3⟩ := run_toks P (wtoksL iv c [] 0 ds) hg
  refine ⟨?_, h2, h3⟩
  have hm := callbacks_runToks (wtoksL iv c [] 0 ds) [] []
  have he := tokEvs_wtoksL iv c (derivedPos iv c ds) ds [] 0 [] (derivedPos_agrees iv c ds)
  simp only [BS.Tokenizer.callbacks, writeText, h1]
  rw [hm]
  simp only [List.append_nil, flushLit, List.isEmpty_nil, if_true, List.nil_append, he]
  rfl

/-- **parse_of_written_document — parsing a well-formed written document yields the tree it describes.** The text
    `writeText` of a document (`Writable`, `Representable`, references `WellSpelt`), tokenized as `feed(text); close()`
    does, the callbacks handed to `BeautifulSoupHTMLParser` and its events to the construction machine: the result is
    `normalise` of the document, and `Tag.__init__` receives, in document order, the attributes of the start tags and
    the line/column of their `<` in the text. `html.unescape` and `str.lower` are the only parameters. -/
theorem parse_of_written_document (bcfg : Cfg) (acfg : ACfg) (hc : CfgOK bcfg) (P : BS.Tokenizer.Params) (hP : ParamsOK P)
    (c : Choices) (ds : List WDoc) (hw : Writable acfg.isVoid c ds) (hr : Representable bcfg acfg ds)
    (hs : WellSpelt acfg c.char ds) :
    adapterBuild bcfg acfg (BS.Tokenizer.callbacks (BS.Tokenizer.run P (writeText acfg.isVoid c ds))) =
      (normalise bcfg ds, startInfos acfg (withDerivedPos acfg.isVoid c ds) ds) := by
  rw [adapterBuild_congr bcfg acfg hc _ _ (callbacks_of_written_document P hP acfg.isVoid c ds hw).1]
  exact emit_build bcfg acfg hc ds (withDerivedPos acfg.isVoid c ds) hr hs

/-- **the derived positions are the positions of the `<`.** Whenever `derivedPos` finds the start tag of the element at
    path `p` at offset `o` of the written text, the text has a `<` there and the position is the 1-based line / 0-based
    column of `o`. -/
theorem derived_positions_are_lt_offsets (iv : Name → Bool) (c : Choices) (ds : List WDoc) (p : Path) (o : Nat)
    (h : offsetOf p 0 (wtoksL iv c [] 0 ds) = some o) :
    (writeText iv c ds)[o]? = some 60 ∧ (withDerivedPos iv c ds).pos p = BS.SourcePos.lineCol (writeText iv c ds) o :=
  derived_offset_lt iv c ds p o h

/-! non-vacuity: the sample document of `emit_build`, written out and tokenized -/

/-- concrete parameters satisfying `ParamsOK`: ASCII lower-casing, and the inverse of the writer's attribute escaping -/
def xP : BS.Tokenizer.Params := { unescape := unescSimple, lower := BS.Tokenizer.asciiLower }
theorem xP_ok : ParamsOK xP := paramsOK_simple

example : Writable xA.isVoid xC xDoc := by decide
/-- under `xC'` the `&` of `a&b` is spelt literally: not writable -/
example : ¬ Writable xA.isVoid xC' xDoc := by decide
/-- the text of the sample under the first choices -/
example : writeText xA.isVoid xC xDoc =
    BS.ofS "<!doctype html><p id=\"x\" k>a&amp;b<br>&#0099;<br/>&#X64;<br></br><!--note--></p><pre> \n </pre> \n " := by decide
/-- positions read off the text: `<p` at offset 15, the first `<br` at 34, `<pre>` at 80 (still line 1) -/
example : (withDerivedPos xA.isVoid xC xDoc).pos [1] = (1, 15) ∧ (withDerivedPos xA.isVoid xC xDoc).pos [1, 1] = (1, 34) ∧
    (withDerivedPos xA.isVoid xC xDoc).pos [2] = (1, 80) := by decide
example : offsetOf [1, 1] 0 (wtoksL xA.isVoid xC [] 0 xDoc) = some 34 := by decide
/-- the model tokenizer on that text: 17 callbacks, no error, nothing left -/
example : (BS.Tokenizer.callbacks (BS.Tokenizer.run xP (writeText xA.isVoid xC xDoc))).length = 17 ∧
    (BS.Tokenizer.run xP (writeText xA.isVoid xC xDoc)).flag = .ok := by decide
example : mergeData (BS.Tokenizer.callbacks (BS.Tokenizer.run xP (writeText xA.isVoid xC xDoc))) =
    mergeData (emitDoc xA.isVoid (withDerivedPos xA.isVoid xC xDoc) xDoc) :=
  (callbacks_of_written_document xP xP_ok xA.isVoid xC xDoc (by decide)).1
example : adapterBuild xB xA (BS.Tokenizer.callbacks (BS.Tokenizer.run xP (writeText xA.isVoid xC xDoc))) =
    (normalise xB xDoc, startInfos xA (withDerivedPos xA.isVoid xC xDoc) xDoc) :=
  parse_of_written_document xB xA (by decide) xP xP_ok xC xDoc (by decide) (by decide) (by decide)
/-- the restrictions are genuine: a literal `<` in text, an element named `script`, a comment `a-- >b` are not writable -/
example : ¬ Writable xA.isVoid { xC with char := fun _ _ => .lit false } [.text [97, 60, 98]] := by decide
example : ¬ Writable xA.isVoid xC [.elem [115, 99, 114, 105, 112, 116] [] [.text [120]]] := by decide
example : ¬ Writable xA.isVoid xC [.special .comment [97, 45, 45, 32, 62, 98]] := by decide

/-! ### `<script>` / `<style>`: raw text through the tokenizer's CDATA mode

`Writable` excludes the two elements whose content html.parser reads in CDATA mode (`set_cdata_mode`, parser.py:123-125:
`interesting` becomes `</\s*name\s*>` with `re.I`; `parse_endtag` 407-416 only leaves the mode on the element's own name).
`WritableRaw` (`Model/WriterText.lean`) admits them with ONE text child written verbatim whose text respects `rawTextOK`. -/

/-- **raw_text_element_tokens — the tokenizer on a written raw-text element.** Anywhere in `feed` outside CDATA mode,
    whatever follows (`rest`): on `<name attrs>text</name>` with `name` = `script` or `style`, attribute names of the
    writer's class and `rawTextOK name text`, two turns of the `goahead` loop make exactly `handle_starttag(name, attrs)`
    at the position of the `<`, `handle_data(text)` — the whole text, verbatim, in one callback, none when it is empty —
    and `handle_endtag(name)`; CDATA mode is off again and the loop goes on with `rest`. -/
theorem raw_text_element_tokens (P : BS.Tokenizer.Params) (hP : ParamsOK P) (n : PStr) (a : List (PStr × Option PStr))
    (t rest : PStr) (pos : Nat × Nat) (f : Nat) (hcd : BS.Tokenizer.cdataContentElements.contains n = true)
    (ha : ∀ kv ∈ a, nameOK kv.1 = true) (ht : rawTextOK n t = true) :
    BS.Tokenizer.loop P false (f + 2) ⟨openText n a false ++ (t ++ (closeText n ++ rest)), pos, none⟩ =
      (let pos1 := BS.SourcePos.updatepos pos (openText n a false)
       let pos2 := BS.SourcePos.updatepos pos1 t
       let r := BS.Tokenizer.loop P false f ⟨rest, BS.SourcePos.updatepos pos2 (closeText n), none⟩
       ⟨⟨.st n a, openText n a false, pos⟩ :: (rawDataEv t pos1 ++ ⟨.et n, closeText n, pos2⟩ :: r.evs), r.st, r.flag⟩) :=
  loop_raw_element P hP n a t rest pos f hcd ha ht

/-- **the tokenizer on a written document with raw-text elements**: `callbacks_of_written_document` for `WritableRaw`. -/
theorem callbacks_of_written_document_raw (P : BS.Tokenizer.Params) (hP : ParamsOK P) (iv : Name → Bool) (c : Choices)
    (ds : List WDoc) (hw : WritableRaw iv c ds) :
    mergeData (BS.Tokenizer.callbacks (BS.Tokenizer.run P (writeText iv c ds))) =
        mergeData (emitDoc iv (withDerivedPos iv c ds) ds) ∧
      (BS.Tokenizer.run P (writeText iv c ds)).flag = .ok ∧ (BS.Tokenizer.run P (writeText iv c ds)).st.s = [] := by
  have hg := goodL_wtoksL P hP iv c ds [] 0 hw
  obtain ⟨h1, h2, h3⟩ := run_toksL P hP (wtoksL iv c [] 0 ds) hg
  refine ⟨?_, h2, h3⟩
  have hm := callbacks_runToks (wtoksL iv c [] 0 ds) [] []
  have he := tokEvs_wtoksL iv c (derivedPos iv c ds) ds [] 0 [] (derivedPos_agrees iv c ds)
  simp only [BS.Tokenizer.callbacks, writeText, h1]
  rw [hm]
  simp only [List.append_nil, flushLit, List.isEmpty_nil, if_true, List.nil_append, he]
  rfl

/-- **parse_of_written_document_raw — … also with `<script>` and `<style>`.** `parse_of_written_document` for
    `WritableRaw` documents: the text of a raw-text element, written verbatim, comes back as ONE string child of the
    element, of the class the builder's string-container rule gives the element (`normalise`: `Script` under `script`,
    `Stylesheet` under `style` for the HTML builders' `string_containers`, C03), `<`, `&` and tags inside it untouched
    (a text of ASCII whitespace only becomes one `\\n` or space, as everywhere outside `<pre>`: that is `normalise`). -/
theorem parse_of_written_document_raw (bcfg : Cfg) (acfg : ACfg) (hc : CfgOK bcfg) (P : BS.Tokenizer.Params) (hP : ParamsOK P)
    (c : Choices) (ds : List WDoc) (hw : WritableRaw acfg.isVoid c ds) (hr : Representable bcfg acfg ds)
    (hs : WellSpelt acfg c.char ds) :
    adapterBuild bcfg acfg (BS.Tokenizer.callbacks (BS.Tokenizer.run P (writeText acfg.isVoid c ds))) =
      (normalise bcfg ds, startInfos acfg (withDerivedPos acfg.isVoid c ds) ds) := by
  rw [adapterBuild_congr bcfg acfg hc _ _ (callbacks_of_written_document_raw P hP acfg.isVoid c ds hw).1]
  exact emit_build bcfg acfg hc ds (withDerivedPos acfg.isVoid c ds) hr hs

/-! non-vacuity: a document with a `<script>` (with `<`, `&&` and `"</p>"` in it) and a `<style>` next to ordinary elements -/

/-- `xB` with the string containers of the HTML builders for the two raw-text elements: `script` ↦ 6 (`Script`),
    `style` ↦ 7 (`Stylesheet`) -/
def xBR : Cfg :=
  { xB with container := fun n => if n == BS.ofS "script" then some 6 else if n == BS.ofS "style" then some 7 else none }
def xDocR : List WDoc :=
  [ .special .doctype (BS.ofS "html"),
    .elem (BS.ofS "p") []
      [ .text (BS.ofS "a&b"), .elem (BS.ofS "script") [] [ .text (BS.ofS "if (a < b && c) { x = \"</p>\"; }") ],
        .elem (BS.ofS "br") [] [] ],
    .elem (BS.ofS "style") [(BS.ofS "type", some (BS.ofS "text/css"))] [ .text (BS.ofS "p > a { color: red }\n") ],
    .text (BS.ofS "z") ]
/-- `&amp;` for the `&` of `a&b`; everything else literal -/
def xCR : Choices := { xC with char := fun p i => if p == [0, 1] && i == 1 then .named [97, 109, 112] else .lit false }

example : WritableRaw xA.isVoid xCR xDocR := by decide +kernel
example : ¬ Writable xA.isVoid xCR xDocR := by decide +kernel
example : writeText xA.isVoid xCR xDocR = BS.ofS
    "<!doctype html><p>a&amp;b<script>if (a < b && c) { x = \"</p>\"; }</script><br></br></p><style type=\"text/css\">p > a { color: red }\n</style>z" := by
  decide +kernel
/-- the model tokenizer on that text: the script text is one `data`, its `</p>` is not an end tag -/
example : (BS.Tokenizer.run xP (writeText xA.isVoid xCR xDocR)).evs.map (fun e => (e.tok, e.pos)) =
    [ (.dl (BS.ofS "doctype html"), (1, 0)), (.st (BS.ofS "p") [], (1, 15)), (.data [97], (1, 18)), (.er (BS.ofS "amp"), (1, 19)),
      (.data [98], (1, 24)), (.st (BS.ofS "script") [], (1, 25)), (.data (BS.ofS "if (a < b && c) { x = \"</p>\"; }"), (1, 33)),
      (.et (BS.ofS "script"), (1, 64)), (.st (BS.ofS "br") [], (1, 73)), (.et (BS.ofS "br"), (1, 77)), (.et (BS.ofS "p"), (1, 82)),
      (.st (BS.ofS "style") [(BS.ofS "type", some (BS.ofS "text/css"))], (1, 86)),
      (.data (BS.ofS "p > a { color: red }\n"), (1, 109)), (.et (BS.ofS "style"), (2, 0)), (.data [122], (2, 8)) ] := by decide +kernel
/-- the tree: the script text is one `Script` (6) string, the style text one `Stylesheet` (7) string -/
example : codeL (normalise xBR xDocR) = codeL
    [ .text 5 (BS.ofS "html"),
      .elem (BS.ofS "p") none
        [ .text 0 (BS.ofS "a&b"),
          .elem (BS.ofS "script") none [ .text 6 (BS.ofS "if (a < b && c) { x = \"</p>\"; }") ],
          .elem (BS.ofS "br") none [] ],
      .elem (BS.ofS "style") none [ .text 7 (BS.ofS "p > a { color: red }\n") ],
      .text 0 [122] ] := by decide +kernel
example : adapterBuild xBR xA (BS.Tokenizer.callbacks (BS.Tokenizer.run xP (writeText xA.isVoid xCR xDocR))) =
    (normalise xBR xDocR, startInfos xA (withDerivedPos xA.isVoid xCR xDocR) xDocR) :=
  parse_of_written_document_raw xBR xA (by decide) xP xP_ok xCR xDocR (by decide +kernel) (by decide +kernel) (by decide +kernel)
/-- `raw_text_element_tokens` at `<script>a<b</script>z`, fuel 2 + 2 -/
example : (BS.Tokenizer.loop xP false 4 ⟨BS.ofS "<script>a<b</script>z", (1, 0), none⟩).evs.map (·.tok) =
    [.st (BS.ofS "script") [], .data (BS.ofS "a<b"), .et (BS.ofS "script"), .data [122]] := by decide +kernel
/-- the condition is genuine: `</script`, `</ script`, `</SCRIPT`, `</ſcript` inside a script, a script text ending in
    `</`+whitespace, a reference spelling, two children — not writable; `</style` inside a script is fine -/
example : rawTextOK (BS.ofS "script") (BS.ofS "a</script>b") = false ∧ rawTextOK (BS.ofS "script") (BS.ofS "a</ script") = false ∧
    rawTextOK (BS.ofS "script") (BS.ofS "</SCRIPT") = false ∧ rawTextOK (BS.ofS "script") [60, 47, 383] = false ∧
    rawTextOK (BS.ofS "script") (BS.ofS "x</\n") = false ∧ rawTextOK (BS.ofS "script") (BS.ofS "a</tyle></p><!--&amp;</") = true ∧
    rawTextOK (BS.ofS "style") (BS.ofS "</script>") = false := by decide +kernel
example : ¬ WritableRaw xA.isVoid { xC with char := fun _ _ => .dec 0 } [.elem (BS.ofS "script") [] [.text [120]]] := by decide +kernel
example : ¬ WritableRaw xA.isVoid xCR [.elem (BS.ofS "script") [] [.text [120], .text [121]]] := by decide +kernel
/-- where the condition fails the conclusion fails: the model tokenizer ends the script at the inner `</script >` -/
example : (mergeData (BS.Tokenizer.callbacks (BS.Tokenizer.run xP
      (writeText xA.isVoid xCR [.elem (BS.ofS "script") [] [.text (BS.ofS "a</script >b")]])))).length = 5 ∧
    (mergeData (emitDoc xA.isVoid (withDerivedPos xA.isVoid xCR [.elem (BS.ofS "script") [] [.text (BS.ofS "a</script >b")]])
      [.elem (BS.ofS "script") [] [.text (BS.ofS "a</script >b")]])).length = 3 := by decide +kernel

end Written

end BS.Props.C04
