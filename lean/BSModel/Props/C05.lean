import BSModel.Proofs.Render
import BSModel.Proofs.Reparse
import BSModel.Proofs.ReparseIdem
import BSModel.Proofs.ReparseLaws
import BSModel.Proofs.ReparseRepr
import BSModel.Proofs.ReparseGrow
import BSModel.Gen.Render
import BSModel.Props.C09
import BSModel.Proofs.RenderEnt
import BSModel.Proofs.RenderWritten
import BSModel.Proofs.RenderWrittenNorm
import BSModel.Props.C04
/-! # C05 — serialising and re-parsing gives the same tree back

Property theorems only. `decodeImpl`/`eventStream`/`piece`/`formatTag`/`outputReady`/`substitute` mirror
`Tag.decode` (non-pretty), `Tag._event_stream`, `Tag._format_tag`, `output_ready` and `Formatter.substitute`
statement by statement (`Model/Render.lean`); `renderSpec` is the structural recursion. `step`/`build` mirror bs4's
side of a re-parse with html.parser, `emitR` is the event stream of the rendered text (the tokenizer is validated
per case by the harness, not modelled), `normaliseL` the documented normal form (`Model/Reparse.lean`).
The tables (`liveClsInfo`, `htmlRegistry`, `xmlRegistry`, `livePCfg`) are generated from the live objects on
every run. -/
namespace BS.Props.C05
open BS.Render BS.Gen.C05

/-- the formatter object a registry entry describes, given the function its code stands for -/
def mkFmt (g : Nat → Option (PStr → PStr)) (s : FmtSpec) : Fmt := ⟨g s.substKind, s.voidPrefix, s.cdataTags, s.emptyBool⟩

/-- the 'minimal' formatter of an HTML tree -/
def minimalHtml : Fmt := ⟨some substXml, [47], htmlCdataTags, false⟩
/-- the 'minimal' formatter of an XML tree -/
def minimalXml : Fmt := ⟨some substXml, [47], [], false⟩

def tg (name : String) (attrs : List (PStr × AVal) := []) (cbe : Bool := false) : TagInfo := ⟨ofS name, none, attrs, cbe, false⟩

/-- `<div class="a b" id='x"'><br/>a&lt;b<!--c--><script>1<2</script><p></p></div>` (the `br` can be empty) -/
def demo : Node :=
  .tag (tg "div" [(ofS "id", .str (ofS "x\"")), (ofS "class", .list [ofS "a", ofS "b"])])
    [ .tag (tg "br" [] true) [], .str .navigable (ofS "a<b"), .str .comment (ofS "c"),
      .tag (tg "script") [.str .script (ofS "1<2")], .tag (tg "p") [] ]

/-! ## 1. the stack machine over the element chain is the structural recursion -/

/-- **`_event_stream` is the structural recursion**, for every tree: the explicit tag stack over the pre-order chain
    of elements — popping and yielding END while the next element's parent is not the stack top, EMPTY for a
    childless tag that can be empty, START + push for any other tag, STRING for a string, and the final unwinding —
    yields exactly `specEvents`: per node `EMPTY`, or `START`, the children's events in order, `END`. Every start tag
    is closed exactly once, after its last descendant and before its next sibling. -/
theorem event_stream_eq_spec (n : Node) : eventStream (flatten none none 0 n) = specEvents none none 0 n :=
  eventStream_flatten n none none 0 (by simp)

example : (eventStream (flatten none none 0 demo)).map (fun e => (e.1, e.2.id)) =
    [(.start, 0), (.empty, 1), (.string, 2), (.string, 3), (.start, 4), (.string, 5), (.stop, 4), (.start, 6), (.stop, 6),
     (.stop, 0)] := by decide

/-- Refinement, for every tree, formatter and class table: `decode()` — the event stream above, each event formatted
    by `_format_tag`/`output_ready` and the pieces joined — produces exactly the text the obvious recursion over the
    tree produces. -/
theorem decode_eq_render (ci : SCls → ClsInfo) (f : Fmt) (n : Node) :
    decodeNode ci f n = renderSpec ci f none n := by
  simp only [decodeNode, decodeImpl, event_stream_eq_spec, pieces_specEvents]

/-- The start element may sit anywhere: with any parent identity outside its own block (`par`, numbered below the
    block) and any parent name, the loop over `self_and_descendants` renders the element alone — the parent is never
    consulted because the stack is empty when the first element arrives. -/
theorem decode_any_start (ci : SCls → ClsInfo) (f : Fmt) (n : Node) (par : Option Nat) (pname : Option PStr) (k : Nat)
    (hk : ∀ q, par = some q → q < k) :
    decodeImpl ci f (flatten par pname k n) = renderSpec ci f pname n := by
  simp only [decodeImpl, eventStream_flatten n par pname k hk, pieces_specEvents]

example : decodeImpl liveClsInfo minimalHtml (flatten (some 3) (some (ofS "script")) 7 (.tag (tg "b") [.str .navigable (ofS "<")])) =
    ofS "<b>&lt;</b>" := by decide

example : decodeNode liveClsInfo minimalHtml demo =
    ofS "<div class=\"a b\" id='x\"'><br/>a&lt;b<!--c--><script>1<2</script><p></p></div>" := by decide

/-- The same for `decode_contents()` (the loop runs over `descendants`, whose parent — the element itself — is
    never on the stack): the renderings of the children, concatenated. -/
theorem decode_contents_eq (ci : SCls → ClsInfo) (f : Fmt) (i : TagInfo) (kids : List Node) :
    decodeContents ci f (.tag i kids) = renderL ci f (some i.name) kids := by
  simp only [decodeContents, decodeImpl, flatten, List.tail_cons]
  rw [eventStream_flattenL kids (some 0) (some i.name) 1 (by intro q hq; cases hq; omega), pieces_specEventsL]

example : decodeContents liveClsInfo minimalHtml (.tag (tg "p") [.str .navigable (ofS "&"), .tag (tg "b") []]) =
    ofS "&amp;<b></b>" := by decide

/-! ## 2. an element with children is never rendered as an empty-element tag -/

/-- For every element with at least one child — whatever `can_be_empty_element` says, whatever the formatter's
    `void_element_close_prefix` is — `decode()` is: the open tag `<prefix:name attrs>` (no void slash), the
    renderings of the children, and the end tag `</prefix:name>`. -/
theorem never_empty_with_children (ci : SCls → ClsInfo) (f : Fmt) (i : TagInfo) (kids : List Node)
    (hk : kids ≠ []) (hh : i.hidden = false) :
    decodeNode ci f (.tag i kids) =
      (60 :: (prefixStr i ++ i.name ++ attrString f i.attrs ++ [62])) ++ renderL ci f (some i.name) kids ++
      (60 :: 47 :: (prefixStr i ++ i.name ++ [62])) := by
  rw [decode_eq_render]
  have : kids.isEmpty = false := by cases kids <;> simp_all
  simp [renderSpec, this, formatTag, hh]

/-- **For every element of every tree**: in the event stream of the whole tree an `EMPTY_ELEMENT` event — the only
    event whose piece carries the formatter's void prefix — is yielded only for an element with no contents whose
    `can_be_empty_element` is true; every other tag gets `START` and `END`, every string `STRING`. -/
theorem events_classified (t : Node) : ∀ e ∈ eventStream (flatten none none 0 t), evOK e = true := by
  rw [event_stream_eq_spec]
  exact specEvents_ok t none none 0

/-- … hence, whatever the depth: the piece `decode()` of the whole tree emits for a tag with at least one child is
    `_format_tag` *without* the void slash — `<prefix:name attrs>` for START, `</prefix:name>` for END. -/
theorem never_empty_everywhere (ci : SCls → ClsInfo) (f : Fmt) (t : Node) (e : Ev) (c : Item) (i : TagInfo) (nk : Nat)
    (he : (e, c) ∈ eventStream (flatten none none 0 t)) (hc : c.pl = .tag i nk) (hk : nk ≠ 0) :
    (e = .start ∨ e = .stop) ∧ piece ci f (e, c) = formatTag f i false (e == .start) := by
  have h := events_classified t (e, c) he
  have hnk : (nk == 0) = false := by simpa using hk
  cases e with
  | start => exact ⟨Or.inl rfl, by simp [piece, hc, Payload.isEmptyElement, hnk]⟩
  | stop => exact ⟨Or.inr rfl, by simp [piece, hc, Payload.isEmptyElement, hnk]; rfl⟩
  | empty => simp [evOK, hc, hnk] at h
  | string => simp [evOK, hc] at h

example : ∀ e ∈ eventStream (flatten none none 0 demo), evOK e = true := events_classified demo
/-- the `<script>` element of `demo` (item 4, one child): START and END pieces without a void slash -/
example : ((eventStream (flatten none none 0 demo)).map fun e => (e.1, e.2.id, e.2.pl.isEmptyElement)).contains (.start, 4, false) = true ∧
    piece liveClsInfo minimalHtml (Ev.stop, (⟨4, some 0, .tag (tg "script") 1⟩ : Item)) = ofS "</script>" := by decide

/-- the complementary case, for reference: a childless element is `<x/>` (with the formatter's prefix) exactly when
    `can_be_empty_element` is true, else `<x></x>` -/
theorem childless_forms (ci : SCls → ClsInfo) (f : Fmt) (i : TagInfo) (hh : i.hidden = false) :
    decodeNode ci f (.tag i []) =
      if i.cbe then 60 :: (prefixStr i ++ i.name ++ attrString f i.attrs ++ f.voidPrefix ++ [62])
      else (60 :: (prefixStr i ++ i.name ++ attrString f i.attrs ++ [62])) ++ (60 :: 47 :: (prefixStr i ++ i.name ++ [62])) := by
  rw [decode_eq_render]
  cases hc : i.cbe <;> simp [renderSpec, hc, formatTag, hh, renderL]

example : decodeNode liveClsInfo minimalHtml (.tag (tg "br" [] true) [.str .navigable (ofS "x")]) = ofS "<br>x</br>" := by
  decide
example : decodeNode liveClsInfo minimalHtml (.tag (tg "br" [] true) []) = ofS "<br/>" := by decide
example : decodeNode liveClsInfo minimalHtml (.tag (tg "br" [] false) []) = ofS "<br></br>" := by decide

/-! ## 3. text inside script/style is emitted verbatim -/

/-- A string whose parent's name is in the formatter's `cdata_containing_tags` is emitted unchanged (between the
    PREFIX and SUFFIX of its class) — for every substitution function. -/
theorem cdata_verbatim (ci : SCls → ClsInfo) (f : Fmt) (pn : PStr) (c : SCls) (s : PStr)
    (h : f.cdataTags.contains pn = true) :
    outputReady ci f (some pn) c s = (ci c).pre ++ s ++ (ci c).suf :=
  outputReady_cdata ci f pn c s h

/-- **For every cdata-containing element of every tree, with any children**: its contents are rendered as the
    concatenation of its children where every string child — whatever its class, whatever the substitution function —
    is emitted verbatim between its class' PREFIX and SUFFIX (element children render as usual). -/
theorem cdata_verbatim_children (ci : SCls → ClsInfo) (f : Fmt) (i : TagInfo) (kids : List Node)
    (h : f.cdataTags.contains i.name = true) :
    decodeContents ci f (.tag i kids) = kids.flatMap (rawKid ci f i.name) := by
  rw [decode_contents_eq, renderL_cdata ci f i.name h]

example : decodeContents liveClsInfo minimalHtml
    (.tag (tg "style") [.str .stylesheet (ofS "a>b{"), .str .navigable (ofS "&}"), .str .comment (ofS "<c>")]) =
    ofS "a>b{&}<!--<c>-->" := by decide

/-- every formatter of the live HTML registry (`None`, 'minimal', 'html', 'html5', 'html5-4.12') treats exactly
    `script` and `style` as cdata-containing; every XML one treats no tag so -/
theorem registry_cdata_tags :
    (∀ e ∈ htmlRegistry, e.2.cdataTags = [ofS "script", ofS "style"]) ∧ (∀ e ∈ xmlRegistry, e.2.cdataTags = []) := by
  decide

/-- On the live tables: under every formatter of the HTML registry — whatever function its substitution code
    stands for — `decode()` of a `<script>`/`<style>` element whose children are strings of a text class
    (NavigableString, Script, Stylesheet, …) is the open tag, the strings verbatim, the end tag. -/
theorem cdata_verbatim_live (g : Nat → Option (PStr → PStr)) (e : Option PStr × FmtSpec) (he : e ∈ htmlRegistry)
    (i : TagInfo) (hn : i.name = ofS "script" ∨ i.name = ofS "style") (c : SCls) (hc : isTextCls c = true) (s : PStr) :
    decodeNode liveClsInfo (mkFmt g e.2) (.tag i [.str c s]) =
      formatTag (mkFmt g e.2) i false true ++ s ++ formatTag (mkFmt g e.2) i false false := by
  rw [decode_eq_render]
  have hcd : (mkFmt g e.2).cdataTags.contains i.name = true := by
    have := registry_cdata_tags.1 e he
    simp only [mkFmt, this]
    rcases hn with hn | hn <;> rw [hn] <;> decide
  simp only [renderSpec, List.isEmpty_cons, Bool.false_and, Bool.false_eq_true, if_false, renderL, List.append_nil]
  rw [cdata_verbatim _ _ _ _ _ hcd]
  cases c <;> simp_all [isTextCls, liveClsInfo]

example : decodeNode liveClsInfo minimalHtml (.tag (tg "script") [.str .script (ofS "if (a<b && c) x='</p>'")]) =
    ofS "<script>if (a<b && c) x='</p>'</script>" := by decide
/-- outside script/style the same string is substituted -/
example : decodeNode liveClsInfo minimalHtml (.tag (tg "p") [.str .script (ofS "a<b")]) = ofS "<p>a&lt;b</p>" := by decide
/-- an XML formatter has no cdata-containing tags: the text of a `script` element *is* substituted there -/
example : decodeNode liveClsInfo minimalXml (.tag (tg "script") [.str .navigable (ofS "a<b")]) =
    ofS "<script>a&lt;b</script>" := by decide

/-- 'minimal' and 'html', in both registries, write the void form as `<x/>` (the form `emitR` reads back as a
    start-end event) and do not turn `""` attribute values into bare keys -/
theorem void_prefix_slash :
    ∀ e ∈ htmlRegistry ++ xmlRegistry, (e.1 = some (ofS "minimal") ∨ e.1 = some (ofS "html")) →
      e.2.voidPrefix = [47] ∧ e.2.emptyBool = false := by
  decide

/-! ## 4. the round trip, at the event level -/

/-- `Representable`: the explicit decidable predicate `representableL` (Model/Reparse.lean). It excludes: tag names
    outside `[a-z][-.a-z0-9:_]*` and attribute names outside `[a-z_:][-.a-z0-9:_]*` (the tokenizer lower-cases
    and delimits names), duplicate attribute keys, hidden elements below the root, elements whose name is void for
    the re-parsing builder but which have children, elements (or comments, …) inside script/style, `</` in
    what is written between `<script>`/`<style>` and its end tag (the concatenation of the strings), elements for which the writer's and the reader's notion of raw content differ (a prefixed
    `x:script`; `script`/`style` under an XML formatter), empty text strings, bare `PreformattedString`s, `--`/a
    trailing `-`/a leading `>` or `->` in comments, `]` or `>` in CDATA sections, `>` in processing instructions,
    declarations and doctypes. -/
abbrev Representable (p : PCfg) (f : Fmt) (ds : List Node) : Prop := representableL p f ds = true

instance (p : PCfg) (f : Fmt) (ds : List Node) : Decidable (Representable p f ds) := by
  unfold Representable; infer_instance

/-- Round trip for every representable forest, every re-parser configuration and every formatter: feeding the
    events of the rendered text to bs4's parser-side machine (start/end/start-end handling with the
    already-closed list of void elements, `endData` with the whitespace rule and the string container classes,
    `_popToTag`) builds exactly the normal form `normaliseL` — same elements in the same nesting, same attributes
    (sorted, `None` → `""`, multi-valued ones split), same text with adjacent runs merged and whitespace-only runs
    normalised once, same special strings (a newline text after a doctype; `<?…?>` strings come back as
    ProcessingInstruction) — and the already-closed list is empty again after every element, so the `<br>`/`<br/>`
    interplay of `already_closed_empty_element` is never triggered by rendered output. -/
theorem reparse_roundtrip (p : PCfg) (f : Fmt) (ds : List Node) (h : Representable p f ds) :
    build p (emitRL f ds) = normaliseL p f ds := by
  have hv := representableL_voidOkL p f ds h
  simp only [build]
  rw [run_forest p f ds _ [] [] hv]
  simp [flush_eq, closeAll, closeAllAux, normaliseL, ctxOf, rootFrame]

example : Representable livePCfg minimalHtml [demo] := by decide
example : normaliseL livePCfg minimalHtml [demo] =
    [.tag (tg "div" [(ofS "class", .list [ofS "a", ofS "b"]), (ofS "id", .str (ofS "x\""))])
      [ .tag (tg "br" [] true) [], .str .navigable (ofS "a<b"), .str .comment (ofS "c"),
        .tag (tg "script") [.str .script (ofS "1<2")], .tag (tg "p") [] ]] := by decide
/-- merging, whitespace rule, container class, doctype newline, `None` attribute, list split -/
example : normaliseL livePCfg minimalHtml
    [.str .doctype (ofS "html"), .str .navigable (ofS " "), .str .navigable (ofS "\t"),
     .tag (tg "p" [(ofS "class", .str (ofS " a  b ")), (ofS "k", .none)])
       [.str .navigable (ofS "a"), .str .navigable (ofS "b"), .tag (tg "rt") [.str .navigable (ofS "r")]],
     .str .xmlpi (ofS "x y")] =
    [.str .doctype (ofS "html"), .str .navigable (ofS "\n"),
     .tag (tg "p" [(ofS "class", .list [ofS "a", ofS "b"]), (ofS "k", .str [])])
       [.str .navigable (ofS "ab"), .tag (tg "rt") [.str .rubyText (ofS "r")]],
     .str .pi (ofS "x y?")] := by decide
/-- what `Representable` is needed for: a void element with a child is read back with the child as a sibling -/
example : build livePCfg (emitRL minimalHtml [.tag (tg "br" [] true) [.str .navigable (ofS "x")]]) =
    [.tag (tg "br" [] true) [], .str .navigable (ofS "x")] := by decide

/-- The theorem is for every builder configuration. With `empty_element_tags=set()` no name is void: a `br` with a child is
    representable and comes back with its child; with `empty_element_tags=None` every name is void (`PCfg.isVoid`), an
    element with a child is not representable and the parser returns the child as a sibling. -/
example : let p := { livePCfg with voidAll := false, voidTags := [] }
    Representable p minimalHtml [.tag (tg "br") [.str .navigable (ofS "x")]] ∧
    build p (emitRL minimalHtml [.tag (tg "br") [.str .navigable (ofS "x")]]) = [.tag (tg "br") [.str .navigable (ofS "x")]] := by
  decide
example : let p := { livePCfg with voidAll := true, voidTags := [] }
    ¬ Representable p minimalHtml [.tag (tg "p") [.str .navigable (ofS "x")]] ∧
    build p (emitRL minimalHtml [.tag (tg "p") [.str .navigable (ofS "x")]]) = [.tag (tg "p" [] true) [], .str .navigable (ofS "x")] := by
  decide

/-! ## 5. the second round trip -/

/-- **Refutation of unrestricted idempotence** (a genuine defect of the code, recorded as known finding
    `C05-doctype-newline-accumulates`): for the representable document `<!DOCTYPE html>x` the normal form is not
    a fixpoint — `Doctype.SUFFIX` adds a newline on every rendering, the parser keeps it as text, and a text that
    is not whitespace-only is never normalised back. -/
theorem doctype_text_not_fixpoint :
    ∃ ds, Representable livePCfg minimalHtml ds ∧ Representable livePCfg minimalHtml (normaliseL livePCfg minimalHtml ds) ∧
      normaliseL livePCfg minimalHtml (normaliseL livePCfg minimalHtml ds) ≠ normaliseL livePCfg minimalHtml ds :=
  ⟨[.str .doctype (ofS "html"), .str .navigable (ofS "x")], by decide, by decide, by decide⟩

/-- … whereas a doctype followed by whitespace or an element (the usual document head) is stable after one trip -/
example : let ds := [Node.str .doctype (ofS "html"), .tag (tg "p") []]
    normaliseL livePCfg minimalHtml (normaliseL livePCfg minimalHtml ds) = normaliseL livePCfg minimalHtml ds := by decide

/-- The second re-parse, for every representable forest whose normal form is representable again: it builds the
    normal form of the normal form. So the second round trip is a fixpoint exactly when `normaliseL` is idempotent
    at this forest — a decidable condition on executable definitions, evaluated by the driver on every case of the
    correspondence run (field `norm2`) next to the real second re-parse. -/
theorem second_roundtrip (p : PCfg) (f : Fmt) (ds : List Node) (h : Representable p f ds)
    (h2 : Representable p f (normaliseL p f ds)) :
    build p (emitRL f (build p (emitRL f ds))) = normaliseL p f (normaliseL p f ds) := by
  rw [reparse_roundtrip p f ds h, reparse_roundtrip p f _ h2]

theorem second_roundtrip_fixpoint_iff (p : PCfg) (f : Fmt) (ds : List Node) (h : Representable p f ds)
    (h2 : Representable p f (normaliseL p f ds)) :
    build p (emitRL f (build p (emitRL f ds))) = build p (emitRL f ds) ↔
      normaliseL p f (normaliseL p f ds) = normaliseL p f ds := by
  rw [second_roundtrip p f ds h h2, reparse_roundtrip p f ds h]

example : let ds := [demo]
    Representable livePCfg minimalHtml ds ∧ Representable livePCfg minimalHtml (normaliseL livePCfg minimalHtml ds) ∧
    normaliseL livePCfg minimalHtml (normaliseL livePCfg minimalHtml ds) = normaliseL livePCfg minimalHtml ds := by decide

/-- "whitespace-only runs normalise once": the whitespace rule of `endData` is idempotent, for every configuration -/
theorem wsRule_idem (p : PCfg) (pres : Bool) (s : PStr) : wsRule p pres (wsRule p pres s) = wsRule p pres s :=
  BS.Render.wsRule_idem p pres s

example : wsRule livePCfg false (ofS " \t\n ") = ofS "\n" ∧ wsRule livePCfg true (ofS " \t\n ") = ofS " \t\n " ∧
    wsRule livePCfg false [] = ofS " " := by decide

/-- "adjacent text runs merge": however the tokenizer chunks a run of character data (at `&`, at buffer
    boundaries), `endData` produces the same string object -/
theorem txt_chunking (p : PCfg) (ctx : Ctx) (b : List PStr) (x y : PStr) :
    txt p ctx (b ++ [x, y]) = txt p ctx (b ++ [x ++ y]) := by
  have hc : ∀ (b : List PStr), concatL (b ++ [x, y]) = concatL (b ++ [x ++ y]) := by
    intro b
    induction b with
    | nil => simp [concatL]
    | cons a b ih => simp [concatL, ih]
  cases b with
  | nil => simp [txt, concatL]
  | cons a b => simp only [List.cons_append, txt]; have := hc (a :: b); simp only [List.cons_append] at this; rw [this]

/-! ## 6. idempotence of the normal form -/

/-- `DoctypeStable`: no doctype of the forest is followed by text that is not ASCII whitespace, and none stands inside
    a preserve-whitespace element (`<pre>`, `<textarea>`) — exactly the inputs outside known finding
    `C05-doctype-newline-accumulates` (`normalise_idem_iff`). Explicit and decidable (`dstableL`, Proofs/ReparseIdem.lean). -/
abbrev DoctypeStable (p : PCfg) (ds : List Node) : Prop := dstableL p (ctxOf p [rootFrame]) false ds = true

/-- the hypotheses on the builder configuration: string containers are text classes, the newline is in ASCII_SPACES,
    the space is a `\\s` character — all true of the live configuration (`live_config_ok`) -/
abbrev ConfigOK (p : PCfg) : Prop :=
  contOK p = true ∧ p.asciiSpaces.contains 10 = true ∧ p.reSpace.contains 32 = true

theorem live_config_ok : ConfigOK livePCfg := by decide

/-- The attribute part, for **every** attribute list (duplicate keys, `None`, list values, any order), tag name and
    formatter: sorted by key, folded as a dict, `None` → `""`, multi-valued ones split — and doing it again changes
    nothing (`sortAttrs` leaves strictly sorted keys alone; distinct keys are not folded;
    `findall(" ".join(findall(v))) = findall(v)`). -/
theorem normAttrs_idem (p : PCfg) (h32 : p.reSpace.contains 32 = true) (f : Fmt) (nm : PStr) (a : List (PStr × AVal)) :
    normAttrs p f nm (normAttrs p f nm a) = normAttrs p f nm a :=
  BS.Render.normAttrs_idem p h32 f nm a

example : normAttrs livePCfg minimalHtml (ofS "a")
    [(ofS "rel", .str (ofS " x  y ")), (ofS "id", .none), (ofS "class", .list [ofS "p q", ofS "r"]), (ofS "id", .str (ofS "z"))] =
    [(ofS "class", .list [ofS "p", ofS "q", ofS "r"]), (ofS "id", .str []), (ofS "rel", .list [ofS "x", ofS "y"])] := by decide

/-- **A second round trip changes nothing.** For every forest — representable or not —, every formatter and every
    builder configuration satisfying `ConfigOK`: if the forest is `DoctypeStable`, the documented normal form is a
    fixpoint of the normalisation. Proof: the second normalisation is run in lockstep with the first (`reabsorbL`):
    the text node the first pass flushes is taken up unchanged by the second, special strings and elements are re-read
    as themselves (attributes by `normAttrs_idem`), and the newline a doctype leaves behind meets exactly the `"\n"`
    it produced the first time. Without `DoctypeStable` the statement is false (`doctype_text_not_fixpoint`): that
    hypothesis is the exact shape of known finding `C05-doctype-newline-accumulates`, not a gap of the proof. -/
theorem normalise_idem (p : PCfg) (f : Fmt) (hp : ConfigOK p) (ds : List Node) (hs : DoctypeStable p ds) :
    normaliseL p f (normaliseL p f ds) = normaliseL p f ds :=
  normaliseL_idem_all p f hp.1 hp.2.1 hp.2.2 ds hs

/-- **… and only then.** For every forest that is *not* `DoctypeStable` the second normalisation differs from the
    first: the total length of the character data grows by exactly the number of doctypes whose newline is not
    absorbed (`tlen_second`, the lockstep of `normalise_idem` run as a count), and an unstable forest has at least one
    (`grow_unstable`). -/
theorem normalise_not_idem (p : PCfg) (f : Fmt) (hp : ConfigOK p) (ds : List Node) (hs : ¬ DoctypeStable p ds) :
    normaliseL p f (normaliseL p f ds) ≠ normaliseL p f ds :=
  normaliseL_not_idem p f hp.1 hp.2.1 ds (by simpa using hs)

/-- **Complete characterisation of "a second round trip changes nothing"**: for every forest of the model, every
    formatter and every configuration satisfying `ConfigOK` (the live one does), the documented normal form is a
    fixpoint **iff** the forest is `DoctypeStable` — the explicit decidable predicate "no doctype is followed by visible
    text or stands inside `<pre>`/`<textarea>`". What lies outside is exactly known finding
    `C05-doctype-newline-accumulates`. -/
theorem normalise_idem_iff (p : PCfg) (f : Fmt) (hp : ConfigOK p) (ds : List Node) :
    normaliseL p f (normaliseL p f ds) = normaliseL p f ds ↔ DoctypeStable p ds := by
  constructor
  · intro h
    cases hd : dstableL p (ctxOf p [rootFrame]) false ds with
    | true => exact hd
    | false => exact absurd h (normaliseL_not_idem p f hp.1 hp.2.1 ds hd)
  · exact normalise_idem p f hp ds

/-- the length of the character data after the second normalisation, exactly -/
theorem second_normalisation_growth (p : PCfg) (f : Fmt) (hp : ConfigOK p) (ds : List Node) :
    tlenL (normaliseL p f (normaliseL p f ds)) = tlenL (normaliseL p f ds) + grow p (ctxOf p [rootFrame]) ds :=
  tlen_second p f hp.1 hp.2.1 ds

example : grow livePCfg (ctxOf livePCfg [rootFrame])
    [.str .doctype (ofS "html"), .str .navigable (ofS "x"), .tag (tg "pre") [.str .doctype (ofS "y")], .str .doctype (ofS "z")] = 2 := by
  decide

/-- in particular: every forest without a doctype, under the live configuration and any formatter -/
theorem normalise_idem_live_no_doctype (f : Fmt) (ds : List Node) (h : DoctypeStable livePCfg ds) :
    normaliseL livePCfg f (normaliseL livePCfg f ds) = normaliseL livePCfg f ds :=
  normalise_idem livePCfg f live_config_ok ds h

/-- doctype followed by whitespace and an element, text to merge, a `<pre>`, special strings, multi-valued attribute -/
def demo2 : List Node :=
  [.str .doctype (ofS "html"), .str .navigable (ofS " "), .str .navigable (ofS "\t"),
   .tag (tg "p" [(ofS "class", .str (ofS " a  b ")), (ofS "k", .none)])
     [.str .navigable (ofS "a"), .str .navigable (ofS "b"), .tag (tg "rt") [.str .navigable (ofS "r")],
      .tag (tg "pre") [.str .navigable (ofS " \n ")], .str .comment (ofS " "), .str .navigable (ofS " ")],
   .str .xmlpi (ofS "x y"), .str .declaration (ofS "if IE")]

example : DoctypeStable livePCfg demo2 ∧ Representable livePCfg minimalHtml demo2 := by decide
example : normaliseL livePCfg minimalHtml (normaliseL livePCfg minimalHtml demo2) = normaliseL livePCfg minimalHtml demo2 :=
  normalise_idem _ _ live_config_ok _ (by decide)
/-- the witness of the refutation is excluded by `DoctypeStable` -/
example : ¬ DoctypeStable livePCfg [.str .doctype (ofS "html"), .str .navigable (ofS "x")] := by decide

/-- **Parse-then-render is idempotent**, at the event level: for every representable, doctype-stable forest whose
    normal form is representable again, the second re-parse builds the same forest as the first. -/
theorem second_roundtrip_fixpoint (p : PCfg) (f : Fmt) (hp : ConfigOK p)
    (ds : List Node) (h : Representable p f ds) (h2 : Representable p f (normaliseL p f ds))
    (hs : DoctypeStable p ds) :
    build p (emitRL f (build p (emitRL f ds))) = build p (emitRL f ds) :=
  (second_roundtrip_fixpoint_iff p f ds h h2).mpr (normalise_idem p f hp ds hs)

example : Representable livePCfg minimalHtml (normaliseL livePCfg minimalHtml demo2) := by decide

/-- The normal form of a representable forest is representable again — for every configuration whose string
    containers are text classes and every formatter that agrees with the re-parser on the raw-content elements or has
    none (`CdataAgree`; true of every formatter of both live registries: `registry_cdata_agree`). -/
theorem representable_normal_form (p : PCfg) (f : Fmt) (hc : contOK p = true) (hcd : CdataAgree p f) (ds : List Node)
    (h : Representable p f ds) : Representable p f (normaliseL p f ds) :=
  representable_normalise p f hc hcd ds h

theorem registry_cdata_agree :
    ∀ x, (∀ e ∈ registryOf x, e.2.cdataTags = livePCfg.cdataElems ∨ e.2.cdataTags = []) ∧
      ((ctorDefaults x).cdataTags = livePCfg.cdataElems ∨ (ctorDefaults x).cdataTags = []) := by decide

/-- **Parse-then-render is idempotent** (event level), with no hypothesis about the intermediate tree: for every
    representable, doctype-stable forest the second re-parse builds the same forest as the first — hence its rendering,
    a function of the forest, is the same text. -/
theorem parse_render_idempotent (p : PCfg) (f : Fmt) (hp : ConfigOK p) (hcd : CdataAgree p f) (ds : List Node)
    (h : Representable p f ds) (hs : DoctypeStable p ds) :
    build p (emitRL f (build p (emitRL f ds))) = build p (emitRL f ds) :=
  second_roundtrip_fixpoint p f hp ds h (representable_normal_form p f hp.1 hcd ds h) hs

example : CdataAgree livePCfg minimalHtml ∧ CdataAgree livePCfg minimalXml := ⟨Or.inl (by decide), Or.inr rfl⟩
example : build livePCfg (emitRL minimalHtml (build livePCfg (emitRL minimalHtml demo2))) = build livePCfg (emitRL minimalHtml demo2) :=
  parse_render_idempotent _ _ live_config_ok (Or.inl (by decide)) _ (by decide) (by decide)

/-! ## 7. which formatter `decode` uses; the XML flavour -/

/-- the live environment of `formatter_for_name`: both registries, the constructor defaults for a callable, and the
    registered substitution functions (`substitute_xml` from this model, `substitute_html`/`substitute_html5` from
    C09's model over the generated entity tables) -/
def liveEnv : FmtEnv :=
  ⟨registryOf, ctorDefaults,
   fun k => if k = 0 then none else if k = 1 then some substXml
            else if k = 2 then some (BS.Entities.substHtml BS.Gen.C09.htmlTable)
            else some (BS.Entities.substHtml5 BS.Gen.C09.htmlTable)⟩

/-- `_is_xml` walks up the parent chain to the first `known_xml` that is not `None`; a root without one answers with
    its `is_xml` attribute (default False) -/
theorem isXml_eq_spec (r : Bool) (chain : List (Option Bool)) : isXmlImpl r chain = isXmlSpec r chain := by
  induction chain with
  | nil => rfl
  | cons a as ih =>
    cases a with
    | none => simpa [isXmlImpl, isXmlSpec, List.find?] using ih
    | some b => simp [isXmlImpl, isXmlSpec, List.find?]

example : isXmlImpl false [none, none, some true, some false] = true ∧ isXmlImpl true [none, none] = true ∧
    isXmlImpl true [some false, some true] = false := by decide

/-- Whole-registry facts, both flavours (`x` = `_is_xml`): 'minimal' is `substitute_xml`, 'html' is
    `substitute_html`, both write `<x/>` and keep `""` attribute values; HTML formatters treat script/style as
    cdata-containing, XML formatters no tag; 'html5' and 'html5-4.12' exist for HTML only. -/
theorem registry_lookup_live :
    (∀ x, lookupReg (registryOf x) (some (ofS "minimal")) = some ⟨1, [47], if x then [] else htmlCdataTags, false⟩) ∧
    (∀ x, lookupReg (registryOf x) (some (ofS "html")) = some ⟨2, [47], if x then [] else htmlCdataTags, false⟩) ∧
    (∀ x, lookupReg (registryOf x) none = some ⟨0, [47], if x then [] else htmlCdataTags, false⟩) ∧
    lookupReg (registryOf false) (some (ofS "html5")) = some ⟨3, [], htmlCdataTags, true⟩ ∧
    lookupReg (registryOf true) (some (ofS "html5")) = none ∧
    (∀ x, (ctorDefaults x).voidPrefix = [47] ∧ (ctorDefaults x).emptyBool = false ∧
          (ctorDefaults x).cdataTags = if x then [] else htmlCdataTags) := by decide

/-- A callable becomes the substitution function of a fresh formatter of the element's flavour, with that flavour's
    defaults. -/
theorem formatter_for_callable (x : Bool) (g : PStr → PStr) :
    ∃ f, formatterForName liveEnv x (.fn g) = .ok f ∧ f.voidPrefix = [47] ∧ f.emptyBool = false ∧
      f.cdataTags = (if x then [] else htmlCdataTags) ∧ ∃ g', f.subst = some g' ∧ ∀ s, g' s = g s := by
  cases x <;> exact ⟨_, rfl, rfl, rfl, rfl, g, rfl, fun _ => rfl⟩

/-- An unknown registry key — 'html5' on an XML-flavoured element, for one — is a `KeyError`, not a silent default. -/
theorem decode_keyerror (ci : SCls → ClsInfo) (r : Bool) (chain : List (Option Bool)) (k : Option PStr) (n : Node)
    (h : lookupReg (liveEnv.registry (isXmlImpl r chain)) k = none) :
    decodeTop ci liveEnv r chain (.name k) n = none := by
  simp [decodeTop, formatterForName, h]

example : decodeTop liveClsInfo liveEnv false [some true] (.name (some (ofS "html5"))) demo = none := by decide
example : decodeTop liveClsInfo liveEnv false [none, some true] (.name (some (ofS "minimal")))
    (.tag (tg "script" [] true) []) = some (ofS "<script/>") := by decide

/-- `str(el)` / `repr(el)` = `decode()` with the default key 'minimal': it exists in both registries, so `str()` never
    raises, whatever the flavour the parent chain decides -/
theorem str_never_keyerror (ci : SCls → ClsInfo) (r : Bool) (chain : List (Option Bool)) (n : Node) :
    (decodeTop ci liveEnv r chain (.name (some (ofS "minimal"))) n).isSome = true := by
  have := registry_lookup_live.1 (isXmlImpl r chain)
  simp only [decodeTop, formatterForName, liveEnv] at this ⊢
  rw [this]; rfl

/-- `decode(formatter=…)` end to end: the resolved formatter, then the structural rendering. -/
theorem decodeTop_eq (ci : SCls → ClsInfo) (e : FmtEnv) (r : Bool) (chain : List (Option Bool)) (a : FmtArg) (n : Node) :
    decodeTop ci e r chain a n =
      match formatterForName e (isXmlSpec r chain) a with
      | .ok f => some (renderSpec ci f none n)
      | .keyError => none := by
  simp only [decodeTop, isXml_eq_spec]
  cases formatterForName e (isXmlSpec r chain) a <;> simp [decode_eq_render]

/-- **XML flavour**: a formatter without cdata-containing tags — every formatter of the XML registry and every
    callable on an XML-flavoured element (`registry_lookup_live`, `registry_cdata_tags`) — substitutes every string of
    a text class wherever it stands, `script`/`style` included. -/
theorem xml_substitutes_everywhere (ci : SCls → ClsInfo) (f : Fmt) (g : PStr → PStr) (hf : f.subst = some g)
    (hc : f.cdataTags = []) (pn : Option PStr) (c : SCls) (s : PStr) (hp : (ci c).preformatted = false) :
    outputReady ci f pn c s = (ci c).pre ++ g s ++ (ci c).suf := by
  cases pn <;> simp [outputReady, substitute, hf, hc, hp]

example : decodeTop liveClsInfo liveEnv false [some true] (.name (some (ofS "minimal")))
    (.tag (tg "script") [.str .navigable (ofS "a<b")]) = some (ofS "<script>a&lt;b</script>") := by decide
example : outputReady liveClsInfo minimalXml (some (ofS "script")) .navigable (ofS "a<b") = [] ++ substXml (ofS "a<b") ++ [] :=
  xml_substitutes_everywhere liveClsInfo minimalXml substXml rfl rfl (some (ofS "script")) .navigable (ofS "a<b") rfl

/-! ## 8. the generated class table is the markup the re-parse model presupposes (whole table) -/

/-- For all 13 string classes: `PREFIX`, `SUFFIX` and the kind of `output_ready` of the live class are those `strKind`
    / `emitStr` are written for — a changed prefix or suffix breaks this obligation by name. -/
theorem class_table_live : ∀ c, liveClsInfo c = assumedMarkup c := by
  intro c; cases c <;> decide

/-! ## 9. the round trip through C09's readers: 'minimal' and 'html' at full strength -/

/-- this model's `substitute_xml` and `quoted_attribute_value` are C09's (over the live `CHARACTER_TO_XML_ENTITY`) -/
theorem subst_quote_are_c09 :
    (∀ s, substXml s = BS.Entities.substXml BS.Gen.C09.xmlTable s) ∧ (∀ v, quoteAttr v = BS.Entities.quoteAttr v) :=
  ⟨substXml_eq_c09, quoteAttr_eq_c09⟩

/-- C09's readers: `readText` = html.parser (convert_charrefs=False) + bs4's handle_entityref/handle_charref on tag-free
    character data; `readAttr` = quote stripping + `html.unescape` — over the generated entity tables -/
def c09Reader (late : Bool) : Reader :=
  ⟨BS.Reader.readText BS.Gen.C09.htmlTable late 0, BS.Reader.readAttr BS.Gen.C09.htmlTable⟩

/-- `substitute_xml` is undone by the readers, for every string (C09, over the live tables) -/
theorem minimal_reader_laws (late : Bool) (vp : PStr) (cd : List PStr) (eb : Bool) :
    ReaderLaws (c09Reader late) ⟨some substXml, vp, cd, eb⟩ :=
  ⟨substXml, rfl,
   fun s => by
    rw [substXml_eq_c09]
    exact BS.Props.C09.xml_text_roundtrip _ _ BS.Props.C09.xmlOK_live late s,
   fun v => by
    rw [substXml_eq_c09, quoteAttr_eq_c09]
    exact BS.Props.C09.xml_attr_roundtrip _ _ BS.Props.C09.xmlOK_live BS.Props.C09.tblOK_live v⟩

/-- `substitute_html` is undone by the readers, for every string (C09, over the live tables) -/
theorem html_reader_laws (late : Bool) (vp : PStr) (cd : List PStr) (eb : Bool) :
    ReaderLaws (c09Reader late) ⟨some (BS.Entities.substHtml BS.Gen.C09.htmlTable), vp, cd, eb⟩ :=
  ⟨_, rfl,
   fun s => BS.Props.C09.html_text_roundtrip _ BS.Props.C09.tblOK_live late s,
   fun v => by
    rw [quoteAttr_eq_c09]
    exact BS.Props.C09.html_attr_roundtrip _ BS.Props.C09.tblOK_live v⟩

/-- Round trip with the written text read back character by character: for every reader and formatter satisfying the
    reader laws, every configuration and every representable forest, the events the readers produce from what
    `output_ready` / `_format_tag` wrote are `emitR`, and the machine builds the normal form. -/
theorem reparse_roundtrip_rd (p : PCfg) (rd : Reader) (f : Fmt) (hl : ReaderLaws rd f) (ds : List Node)
    (h : Representable p f ds) :
    build p (emitRdL p rd f none false ds) = normaliseL p f ds := by
  rw [emitRdL_eq p rd f hl ds none rfl h]
  exact reparse_roundtrip p f ds h

/-- **'minimal' and 'html', HTML and XML flavour, unconditionally**: whichever of the four registered formatters
    `formatter_for_name` resolves to, the reader laws hold (C09's theorems over the live entity tables), hence for every
    representable forest the re-parse of the rendered text — substituted, quoted, read back through the models of the
    tokenizer's character-data and attribute-value handling — builds the normal form. -/
theorem reparse_roundtrip_registry (x late : Bool) (k : PStr) (hk : k = ofS "minimal" ∨ k = ofS "html") :
    ∃ f, formatterForName liveEnv x (.name (some k)) = .ok f ∧ ReaderLaws (c09Reader late) f ∧
      ∀ ds, Representable livePCfg f ds →
        build livePCfg (emitRdL livePCfg (c09Reader late) f none false ds) = normaliseL livePCfg f ds := by
  rcases hk with hk | hk <;> subst hk
  · refine ⟨⟨some substXml, [47], if x then [] else htmlCdataTags, false⟩, ?_, minimal_reader_laws late _ _ _, ?_⟩
    · have := registry_lookup_live.1 x
      simp only [formatterForName, liveEnv] at this ⊢
      rw [this]; rfl
    · intro ds h; exact reparse_roundtrip_rd _ _ _ (minimal_reader_laws late _ _ _) ds h
  · refine ⟨⟨some (BS.Entities.substHtml BS.Gen.C09.htmlTable), [47], if x then [] else htmlCdataTags, false⟩, ?_,
      html_reader_laws late _ _ _, ?_⟩
    · have := registry_lookup_live.2.1 x
      simp only [formatterForName, liveEnv] at this ⊢
      rw [this]; rfl
    · intro ds h; exact reparse_roundtrip_rd _ _ _ (html_reader_laws late _ _ _) ds h

/-- the written form really is read back: `a<b` under `<p>`, `1<2` raw under `<script>`, a value with both quotes -/
example : emitRdL livePCfg (c09Reader false) minimalHtml none false [demo] = emitRL minimalHtml [demo] :=
  emitRdL_eq _ _ _ (minimal_reader_laws false _ _ _) _ none rfl (by decide)

/-! ## 10. "the same elements, attributes, text and special strings": laws of the normal form

`normaliseL` is defined as what the parser-side machine absorbs; these theorems say what that is, for **every** forest
(no `Representable` needed). -/

/-- **Same elements**: the normal form has exactly the elements of the forest (under the name `prefix:name` a re-parse
    reads), in the same nesting and order. -/
theorem same_elements (p : PCfg) (f : Fmt) (ds : List Node) : skelL (normaliseL p f ds) = skelL ds :=
  skel_normalise p f ds

/-- **Same attributes**: for the attributes of a dict (distinct keys): the same keys, sorted; each value is the text it
    was written as (`None` → `""`, a list joined with spaces), split on whitespace again if the attribute is
    multi-valued for the tag. -/
theorem same_attributes (p : PCfg) (f : Fmt) (nm : PStr) (a : List (PStr × AVal)) (hn : keysNodup (a.map (·.1)) = true) :
    normAttrs p f nm a = (sortAttrs a).map (normVal p nm) :=
  normAttrs_spec p f nm a hn

example : keysNodup ([(ofS "id", AVal.none), (ofS "class", .list [ofS "a b", ofS "c"])].map (·.1)) = true := by decide

/-- **Same text**: every character of the character data that is not ASCII whitespace survives, in document order,
    across the whole forest — what the normalisation may change is whitespace only (whitespace-only runs collapse,
    a newline appears after a doctype), and which runs are one string (adjacent runs merge: `txt_chunking`). -/
theorem same_text (p : PCfg) (f : Fmt) (hp : contOK p = true ∧ p.asciiSpaces.contains 10 = true ∧ p.asciiSpaces.contains 32 = true)
    (ds : List Node) : inkL p (normaliseL p f ds) = inkL p ds :=
  ink_normalise p f hp.1 hp.2.1 hp.2.2 ds

example : contOK livePCfg = true ∧ livePCfg.asciiSpaces.contains 10 = true ∧ livePCfg.asciiSpaces.contains 32 = true := by decide
example : inkL livePCfg demo2 = ofS "abr" := by decide

/-- **Same special strings**: class by class (as a re-parse classifies them: comments, CDATA sections, processing
    instructions — `<?…?>` strings with their `?` —, doctypes), in document order, with their content; the content is
    changed only if it is whitespace-only (`wsRule_cases`), by the whitespace rule of its context, once (`wsRule_idem`). -/
theorem same_specials (p : PCfg) (f : Fmt) (hc : contOK p = true) (ds : List Node) :
    specL (normaliseL p f ds) = specCtxL p (ctxOf p [rootFrame]) ds :=
  spec_normalise p f hc ds

example : specL (normaliseL livePCfg minimalHtml demo2) =
    [(.doctype, ofS "html"), (.comment, ofS " "), (.pi, ofS "x y?"), (.pi, ofS "if IE?")] := by decide

/-- the whitespace rule changes a string only if it is whitespace-only, and then into `"\n"` or `" "` -/
theorem wsRule_only_whitespace (p : PCfg) (pres : Bool) (s : PStr) :
    wsRule p pres s = s ∨ (s.all (fun c => p.asciiSpaces.contains c) = true ∧ (wsRule p pres s = [10] ∨ wsRule p pres s = [32])) :=
  wsRule_cases p pres s


/-! ## 11. `output_ready` called directly; `Doctype.for_name_and_ids` -/

/-- `string.output_ready(None)`: PREFIX + the string as it stands + SUFFIX — no substitution at all, whatever the
    class and the parent. -/
theorem output_ready_none (ci : SCls → ClsInfo) (e : FmtEnv) (r : Bool) (ch : List (Option Bool)) (pn : Option PStr)
    (c : SCls) (s : PStr) : strOutputReady ci e r ch none pn c s = some ((ci c).pre ++ s ++ (ci c).suf) := rfl

/-- `string.output_ready(arg)` with an argument that resolves (by the string's own flavour, decided up its parent
    chain) to the formatter `f`: exactly what `decode()` emits for that string under `f`. -/
theorem output_ready_resolved (ci : SCls → ClsInfo) (e : FmtEnv) (r : Bool) (ch : List (Option Bool)) (a : FmtArg) (f : Fmt)
    (h : formatterForName e (isXmlSpec r ch) a = .ok f) (pn : Option PStr) (c : SCls) (s : PStr) :
    strOutputReady ci e r ch (some a) pn c s = some (outputReady ci f pn c s) := by
  simp only [strOutputReady, isXml_eq_spec, h, outputReady]

/-- an unknown registry key raises `KeyError` for every class — the preformatted ones included, although they ignore the
    formatter's result -/
theorem output_ready_keyerror (ci : SCls → ClsInfo) (e : FmtEnv) (r : Bool) (ch : List (Option Bool)) (k : Option PStr)
    (h : lookupReg (e.registry (isXmlImpl r ch)) k = none) (pn : Option PStr) (c : SCls) (s : PStr) :
    strOutputReady ci e r ch (some (.name k)) pn c s = none := by
  simp [strOutputReady, formatterForName, h]

example : strOutputReady liveClsInfo liveEnv false [none, some false] (some (.name (some (ofS "nosuch")))) none .comment (ofS "c") = none ∧
    strOutputReady liveClsInfo liveEnv false [none, some false] (some (.name (some (ofS "minimal")))) (some (ofS "p")) .navigable (ofS "a<") =
      some (ofS "a&lt;") ∧
    strOutputReady liveClsInfo liveEnv false [none] none (some (ofS "p")) .navigable (ofS "a<") = some (ofS "a<") := by decide

/-- A doctype made by `Doctype.for_name_and_ids` renders as `<!DOCTYPE ` + its string + `>\n` under every formatter
    (class table), and if neither the name nor the identifiers contain `>` it is representable: it comes back as the
    same doctype (`reparse_roundtrip`, `same_specials`). -/
theorem doctype_for_ids (f : Fmt) (pn : Option PStr) (name pub sys : Option PStr)
    (hn : 62 ∉ name.getD []) (hp : 62 ∉ pub.getD []) (hs : 62 ∉ sys.getD []) :
    outputReady liveClsInfo f pn .doctype (doctypeString name pub sys) =
        ofS "<!DOCTYPE " ++ doctypeString name pub sys ++ ofS ">\n" ∧
      okStr .doctype (doctypeString name pub sys) = true := by
  refine ⟨rfl, ?_⟩
  have h62 : 62 ∉ doctypeString name pub sys := by
    unfold doctypeString
    cases pub <;> cases sys <;> simp_all
  simpa [okStr] using h62

example : okStr .doctype (doctypeString (some (ofS "html")) none (some (ofS "x.dtd"))) = true :=
  (doctype_for_ids minimalHtml none (some (ofS "html")) none (some (ofS "x.dtd")) (by decide) (by decide) (by decide)).2

example : doctypeString (some (ofS "html")) (some (ofS "-//W3C//DTD HTML 4.01//EN")) (some (ofS "x.dtd")) =
    ofS "html PUBLIC \"-//W3C//DTD HTML 4.01//EN\" \"x.dtd\"" ∧
    doctypeString none none (some (ofS "x.dtd")) = ofS " SYSTEM \"x.dtd\"" ∧ doctypeString (some (ofS "html")) none none = ofS "html" := by
  decide


/-! ## 12. the rendered text through the tokenizer MODEL (C04's `parse_of_written_document`)

`reparse_roundtrip` is about `emitR`, the callback stream the tokenizer is *assumed* to produce for the rendered text
(compared with the real tokenizer per case). On the class `RenderWritable` the assumption is discharged: the rendered
text is literally a text C04's writer writes, and C04 proves what the code-mirror of CPython's tokenizer
(`Model/Tokenizer.lean`, tied to the real parser by equality of callback streams) makes of such a text. -/

/-- `RenderWritable`: decidable. `renderWritableL` (Model/RenderWritten.lean: no hidden element; void names written
    `<br/>`; no `<x/>` for other names; element names not cdata-containing for the formatter; attribute values without
    `<`, `>` and not "a `"` but no `'`"; no bare PreformattedString) together with C04's `Writable` (names
    `[a-z][-.:_a-z0-9]*`, no script/style, comments without `>` or without `-`, no `>` in CDATA/doctype/PI) and
    `Representable` (no element named `[document]`, void elements childless) on the written document `toWDocL f ds`. -/
abbrev RenderWritable (bcfg : BS.Builder.Cfg) (acfg : BS.Adapter.ACfg) (f : Fmt) (ds : List Node) : Prop :=
  renderWritableL acfg.isVoid f ds = true ∧
  BS.WriterText.Writable acfg.isVoid (BS.WriterMin.minimalChoices (toWDocL f ds)) (toWDocL f ds) ∧
  BS.Writer.Representable bcfg acfg (toWDocL f ds)

/-- **The rendering IS a written document.** For every formatter that substitutes with `substitute_xml`, writes `<x/>`
    and keeps `""` values ('minimal', both flavours: `minimal_is_minimal`), the class table of the live classes, and
    every forest in `renderWritableL`: `decode()`'s text equals, character for character, the text C04's writer writes
    for the document `toWDocL f ds` under the explicit choices `minimalChoices` — every void element `<br/>`; `&`, `<`,
    `>` as `&amp;`, `&lt;`, `&gt;` and every other character literally; `DOCTYPE`/`CDATA` in upper case; attributes in
    the renderer's (sorted) order, double-quoted with `&amp;`/`&quot;`. -/
theorem render_is_written (ci : SCls → ClsInfo) (hci : ∀ c, ci c = assumedMarkup c) (f : Fmt) (hf : IsMinimal f)
    (iv : PStr → Bool) (ds : List Node) (h : renderWritableL iv f ds = true) :
    renderL ci f none ds =
      BS.WriterText.writeText iv (BS.WriterMin.minimalChoices (toWDocL f ds)) (toWDocL f ds) := by
  rw [BS.WriterMin.writeText_minimal, renderL_eq_wrenderL ci hci f hf iv ds none rfl h]

theorem minimal_is_minimal : IsMinimal minimalHtml ∧ IsMinimal minimalXml := ⟨⟨rfl, rfl, rfl⟩, ⟨rfl, rfl, rfl⟩⟩

/-- **`reparse_roundtrip_tokenized`** — parse(render(t)) through the tokenizer model. For every builder and adapter
    configuration (`CfgOK`; the three references `&amp; &lt; &gt;` mean `& < >`: `EntOK`), every `str.lower` /
    `html.unescape` satisfying `ParamsOK`, and every `RenderWritable` forest: the rendered text, tokenized as
    `feed(text); close()` does (model of CPython's tokenizer), its callbacks handed to `BeautifulSoupHTMLParser` and the
    construction machine, gives the normal form of the written document, and `Tag.__init__` receives the attributes of
    the start tags in document order with the positions of their `<` in the rendered text. -/
theorem reparse_roundtrip_tokenized (bcfg : BS.Builder.Cfg) (acfg : BS.Adapter.ACfg) (hc : BS.Builder.CfgOK bcfg)
    (P : BS.Tokenizer.Params) (hP : BS.WriterText.ParamsOK P) (he : BS.WriterMin.EntOK acfg)
    (ci : SCls → ClsInfo) (hci : ∀ c, ci c = assumedMarkup c) (f : Fmt) (hf : IsMinimal f) (ds : List Node)
    (h : RenderWritable bcfg acfg f ds) :
    BS.Adapter.adapterBuild bcfg acfg (BS.Tokenizer.callbacks (BS.Tokenizer.run P (renderL ci f none ds))) =
      (BS.Writer.normalise bcfg (toWDocL f ds),
       BS.Writer.startInfos acfg (BS.WriterText.withDerivedPos acfg.isVoid (BS.WriterMin.minimalChoices (toWDocL f ds)) (toWDocL f ds))
         (toWDocL f ds)) := by
  rw [render_is_written ci hci f hf acfg.isVoid ds h.1]
  exact BS.Props.C04.parse_of_written_document bcfg acfg hc P hP _ _ h.2.1 h.2.2
    (BS.WriterMin.wellSpelt_minimal acfg he _)

/-- … and the tokenizer model makes of the rendered text exactly the callbacks of the written document, without error
    and consuming the whole text (up to the chunking of character data) — the link between the assumed stream and the
    modelled tokenizer. -/
theorem rendered_text_callbacks (P : BS.Tokenizer.Params) (hP : BS.WriterText.ParamsOK P) (iv : PStr → Bool)
    (ci : SCls → ClsInfo) (hci : ∀ c, ci c = assumedMarkup c) (f : Fmt) (hf : IsMinimal f) (ds : List Node)
    (h : renderWritableL iv f ds = true)
    (hw : BS.WriterText.Writable iv (BS.WriterMin.minimalChoices (toWDocL f ds)) (toWDocL f ds)) :
    BS.WriterText.mergeData (BS.Tokenizer.callbacks (BS.Tokenizer.run P (renderL ci f none ds))) =
        BS.WriterText.mergeData (BS.Writer.emitDoc iv
          (BS.WriterText.withDerivedPos iv (BS.WriterMin.minimalChoices (toWDocL f ds)) (toWDocL f ds)) (toWDocL f ds)) ∧
      (BS.Tokenizer.run P (renderL ci f none ds)).flag = .ok ∧ (BS.Tokenizer.run P (renderL ci f none ds)).st.s = [] := by
  rw [render_is_written ci hci f hf iv ds h]
  exact BS.Props.C04.callbacks_of_written_document P hP iv _ _ hw


/-- **C04's `normalise` of the written document is this model's `normaliseL`**, for every forest (no hypothesis): as
    trees of the builder model (`toDocL`: names, nesting, strings with their classes; attributes are reported by C04
    separately as `startInfos`), with the builder configuration read off `PCfg` (`bcfgOf`) and any numbering of the
    classes that agrees with the adapter's ids of the special ones. -/
theorem normalise_is_c04_normalise (p : PCfg) (f : Fmt) (clsId : SCls → BS.Builder.Cls) (hid : ClsIdOK clsId) (ds : List Node) :
    toDocL clsId (normaliseL p f ds) = BS.Writer.normalise (bcfgOf p clsId) (toWDocL f ds) :=
  normalise_bridge p f clsId hid ds

/-- **parse(render(t)) = the normal form of t, through the tokenizer model, in this model's vocabulary.** For every
    `PCfg` whose root name is neither whitespace-preserving nor a string container, every adapter configuration with
    `EntOK`, every `ParamsOK` parameters, the 'minimal' formatter and every `RenderWritable` forest: the tree built from
    the tokenizer model's callbacks on the rendered text is `normaliseL p f ds` — the same normal form
    `reparse_roundtrip` reaches from the assumed stream `emitR`, so `same_elements/_text/_specials`, `normalise_idem_iff`
    … apply to it. (Attributes: C04's `startInfos` of the written attributes `evAttrs`, from which `normAttrs` is
    computed by `Tag.__init__`'s multi-valued split — not restated here.) -/
theorem reparse_roundtrip_tokenized_normalise (p : PCfg) (clsId : SCls → BS.Builder.Cls) (hid : ClsIdOK clsId)
    (hroot : p.preserveWs.contains rootFrame.name = false ∧ lookupL p.containers rootFrame.name = none)
    (acfg : BS.Adapter.ACfg) (P : BS.Tokenizer.Params) (hP : BS.WriterText.ParamsOK P) (he : BS.WriterMin.EntOK acfg)
    (ci : SCls → ClsInfo) (hci : ∀ c, ci c = assumedMarkup c) (f : Fmt) (hf : IsMinimal f) (ds : List Node)
    (h : RenderWritable (bcfgOf p clsId) acfg f ds) :
    (BS.Adapter.adapterBuild (bcfgOf p clsId) acfg
        (BS.Tokenizer.callbacks (BS.Tokenizer.run P (renderL ci f none ds)))).1 =
      toDocL clsId (normaliseL p f ds) := by
  have hc : BS.Builder.CfgOK (bcfgOf p clsId) := ⟨by simpa [bcfgOf] using hroot.1, by simp [bcfgOf, hroot.2]⟩
  rw [reparse_roundtrip_tokenized (bcfgOf p clsId) acfg hc P hP he ci hci f hf ds h]
  exact (normalise_is_c04_normalise p f clsId hid ds).symm

/-- the live configuration and a class numbering satisfy the hypotheses -/
def liveClsId : SCls → BS.Builder.Cls
  | .navigable => 0 | .comment => 1 | .cdata => 2 | .pi => 3 | .declaration => 4 | .doctype => 5
  | .stylesheet => 6 | .script => 7 | .template => 8 | .rubyText => 9 | .rubyParen => 10 | .xmlpi => 11 | .preformatted => 12
example : ClsIdOK liveClsId ∧ livePCfg.preserveWs.contains rootFrame.name = false ∧
    lookupL livePCfg.containers rootFrame.name = none := ⟨⟨rfl, rfl, rfl, rfl, rfl⟩, by decide, by decide⟩

/-- non-vacuity on C04's sample configuration (`xB`, `xA`: `br` void, `pre` preserving) with the references added -/
def tkA : BS.Adapter.ACfg :=
  { BS.Props.C04.xA with entity := fun n => if n == [97, 109, 112] then some [38] else if n == [108, 116] then some [60]
                                            else if n == [103, 116] then some [62] else none }
def tkDemo : List Node :=
  [.str .doctype (ofS "html"),
   .tag (tg "p" [(ofS "id", .str (ofS "x&y")), (ofS "class", .list [ofS "a", ofS "b'\""]), (ofS "k", .none)])
     [.str .navigable (ofS "a<b & c>"), .tag (tg "br" [] true) [], .str .comment (ofS "note"), .tag (tg "b") [],
      .str .cdata (ofS "d"), .str .xmlpi (ofS "x y")],
   .tag (tg "pre") [.str .navigable (ofS " \n ")]]

theorem tkDemo_ok : RenderWritable BS.Props.C04.xB tkA minimalHtml tkDemo := by decide +kernel
example : renderL liveClsInfo minimalHtml none tkDemo =
    ofS "<!DOCTYPE html>\n<p class=\"a b'&quot;\" id=\"x&amp;y\" k>a&lt;b &amp; c&gt;<br/><!--note--><b></b><![CDATA[d]]><?x y?></p><pre> \n </pre>" := by
  decide +kernel
example : (BS.Adapter.adapterBuild BS.Props.C04.xB tkA
    (BS.Tokenizer.callbacks (BS.Tokenizer.run BS.Props.C04.xP (renderL liveClsInfo minimalHtml none tkDemo)))).1 =
    BS.Writer.normalise BS.Props.C04.xB (toWDocL minimalHtml tkDemo) :=
  congrArg Prod.fst (reparse_roundtrip_tokenized _ tkA (by decide) _ BS.Props.C04.xP_ok ⟨rfl, rfl, rfl⟩ liveClsInfo
    class_table_live minimalHtml minimal_is_minimal.1 tkDemo tkDemo_ok)
/-- outside the class: a value the renderer single-quotes, a `<` in a value, `<x/>` for a non-void name, script -/
example : renderWritableL tkA.isVoid minimalHtml [.tag (tg "p" [(ofS "t", .str (ofS "a\"b"))]) []] = false ∧
    renderWritableL tkA.isVoid minimalHtml [.tag (tg "p" [(ofS "t", .str (ofS "a<b"))]) []] = false ∧
    renderWritableL tkA.isVoid minimalHtml [.tag (tg "x" [] true) []] = false ∧
    renderWritableL tkA.isVoid minimalHtml [.tag (tg "script") [.str .script (ofS "x")]] = false := by decide


end BS.Props.C05
