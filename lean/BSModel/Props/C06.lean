import BSModel.Proofs.Construct
import BSModel.Proofs.Envelope
import BSModel.Gen.C06Exc
import BSModel.Proofs.EnvelopeTokenizer
import BSModel.Props.C03
/-! # C06 — any `str`/`bytes` input yields a tree or `ParserRejectedMarkup`, never another failure

Property theorems only. Claimed level: PARTIAL. The repository's own logic (pre-parse heuristics, numeric
character references, UnicodeDammit's two passes, the retry loop with `reset()`, the `AssertionError` wrapping) is
modelled with explicit exceptions and proved total; that CPython's `html.parser` tokenizer raises nothing but
`AssertionError`, and that the other handlers (C04's models) do not raise, are hypotheses of
`constructor_outcome` — the harness measures them on every generated input.

The full-strength statement that is NOT proved here:
  `∀ markup from_encoding exclude_encodings, BeautifulSoup(markup, "html.parser", …) ∈ {tree, ParserRejectedMarkup}`
for the real interpreter; what is missing is a model of `html.parser.HTMLParser.goahead`/`_markupbase` and of the
codecs (outside the repository). -/
/-! ## Clause → theorem

| clause of the property | theorem(s) | strength |
|---|---|---|
| "from any str or bytes value, with any from_encoding/exclude_encodings, … or raises ParserRejectedMarkup; never raises any other exception" | `envelope`, `envelope_live` (+ `live_covers_recorded`); necessity `covers_necessary_*`, `v4130_does_not_cover`; per layer `lookup_escapes`, `decode_escapes`, `generator_escapes`, `feed_converts`, `tokenizer_escapes`; `injection_table`, `mro_table` against the live code | all markups, all behaviours of the primitives within `Gen.C06.recorded` (the named residue), all clause variants; the encoding arguments act only through the primitives (`cands`, `spellings`, `lookup`, `decode`) |
| the pieces of that path inside the repository | `heuristics_total`, `heuristicsOld_error_iff`, `heuristics_agree_old`; `charref_total`, `charref_spec`, `charrefSpec_identity`, `cp1252_table`, `charref_envelope_live/_v4130/_spec`; `dammit_some_of_fallback`, `dammit_envelope_refines`, `dammitE_some_of_fallback`, `prepare_outcome`; `feed_outcome`, `constructor_outcome` | all inputs |
| "returns a well-linked tree that can be rendered, searched and copied" | NOT here: well-linked for every event sequence is C03 `parsed_document_well_linked` / `parse_actions_well_linked`; rendering/search/copy are total functions in C05/C08/C10/C11/C12's models; here the direct Python oracle on every constructed tree | oracle |
| "never leaves the object half-built" | `retry_ok_state`, `constructE_ok_state` (whenever the constructor returns: one complete accepted attempt, `finish` applied) | all strategy lists, all call paths |
| "when a builder rejects one candidate part-way and a later one succeeds, nothing from the rejected attempt remains" | `reset_absorbs`, `retry_first_accept`, `retry_by_index`, `retry_all_reject`, `retry_raise_propagates`, `machineE_wf`; for the live code `feed_touches_reassigned`, `header_and_reset_fields` (whole instrumented tables) | all k, all states a rejected attempt can leave, given the frame conditions (`Machine.WF`), which the tables check for the live objects |
| quantifier "lone surrogates, NULs, very long numeric references, every truncation" | `heuristics_total` (surrogates), `charref_total` (every name, any length), witnesses `*_fails_*`; truncations act only through the tokenizer primitive (`tokFeed`/`tokClose`) | model: all; tokenizer: recorded |
| quantifier "BOMs, invalid sequences, bogus or python-specific declared charsets, all constructor encoding arguments" | `envelope` over all `cands`/`lookup`/`decode` behaviours; `dammitE_some_of_fallback`; `original_encoding_is_codec` (the tree can be rendered in its own encoding: the name is a text codec), `withEmptyGuard_within` | all |
| quantifier "all patterns of k rejections followed by acceptance" | `retry_first_accept`, `retry_by_index` | all k |

Scope of "every call path": `BeautifulSoup.__init__` from the markup checks on (bs4/__init__.py:439-490). The lines before
only call `warnings.warn` for deprecated arguments and the builder registry (C20). -/
namespace BS.Props.C06
open BS.Construct

/-! ## the retry loop -/

/-- What a feed starts from is a function of the strategy and of the fields no attempt writes: `reset ∘ anything =
    reset`. `o` is the object after any number of earlier attempts (it agrees with the initial object `o0` outside the
    fields `R` that `reset()`/`initialize_soup` assign and the loop targets `H`). -/
theorem reset_absorbs {V : Type} (m : Machine V) (R H : List Field) (wf : m.WF R H) (o o0 : Obj V) (s : Strategy)
    (h : AgreeOff (R ++ H) o o0) :
    assignAll (m.fresh (assignAll (m.header s) o)) (assignAll (m.header s) o)
      = assignAll (m.fresh (assignAll (m.header s) o0)) (assignAll (m.header s) o0) :=
  fed_state_eq m R H wf o o0 s h

/-- After any number of rejected strategies the constructor's result is, field for field, the object a single clean
    attempt of the accepting strategy produces on the untouched initial object: nothing of a rejected attempt
    survives. -/
theorem retry_first_accept {V : Type} (m : Machine V) (R H : List Field) (wf : m.WF R H) (o0 : Obj V)
    (pre : List Strategy) (s : Strategy) (post : List Strategy)
    (hpre : ∀ r ∈ pre, (attempt m o0 r).2 = .reject) (hs : (attempt m o0 s).2 = .accept) :
    retry m o0 (pre ++ s :: post) = (assignAll m.finish (attempt m o0 s).1, .ok ()) := by
  obtain ⟨o', ho', hret⟩ := retry_skip_rejected m R H wf o0 pre (s :: post) hpre o0 (AgreeOff.refl _ _)
  rw [hret, retry, attempt_eq_of_agree m R H wf o' o0 s ho']
  generalize hx : attempt m o0 s = x at hs ⊢
  obtain ⟨x1, x2⟩ := x
  simp only at hs
  subst hs
  rfl

/-- every strategy rejected → `ParserRejectedMarkup` (bs4/__init__.py:480-485) -/
theorem retry_all_reject {V : Type} (m : Machine V) (R H : List Field) (wf : m.WF R H) (o0 : Obj V)
    (ss : List Strategy) (h : ∀ r ∈ ss, (attempt m o0 r).2 = .reject) :
    (retry m o0 ss).2 = .error .parserRejectedMarkup := by
  obtain ⟨o', _, hret⟩ := retry_skip_rejected m R H wf o0 ss [] h o0 (AgreeOff.refl _ _)
  rw [List.append_nil] at hret
  rw [hret]; rfl

/-- the model hides nothing: an attempt that ends in any other exception ends the constructor with that exception,
    whatever was rejected before -/
theorem retry_raise_propagates {V : Type} (m : Machine V) (R H : List Field) (wf : m.WF R H) (o0 : Obj V)
    (pre : List Strategy) (s : Strategy) (post : List Strategy) (e : Err)
    (hpre : ∀ r ∈ pre, (attempt m o0 r).2 = .reject) (hs : (attempt m o0 s).2 = .raise e) :
    (retry m o0 (pre ++ s :: post)).2 = .error e := by
  obtain ⟨o', ho', hret⟩ := retry_skip_rejected m R H wf o0 pre (s :: post) hpre o0 (AgreeOff.refl _ _)
  rw [hret, retry, attempt_eq_of_agree m R H wf o' o0 s ho']
  generalize hx : attempt m o0 s = x at hs ⊢
  obtain ⟨x1, x2⟩ := x
  simp only at hs
  subst hs
  rfl

/-- The exception class of the constructor is the outcome of the first clean attempt that does not reject
    (`retryIndex`/`retryResult` is what the driver executes for the fault-injection stream). -/
theorem retry_by_index {V : Type} (m : Machine V) (R H : List Field) (wf : m.WF R H) (o0 : Obj V)
    (ss : List Strategy) :
    (retry m o0 ss).2 = retryResult (retryIndex (ss.map fun s => (attempt m o0 s).2) 0) :=
  retry_by_index_aux m R H wf o0 ss o0 0 (AgreeOff.refl _ _)

/-- Against the live objects (instrumented on every run, `Gen.C06.ConstructTab`): every attribute of the soup or of its
    builder that a feed — clean, or poisoned and rejected part-way — assigns or mutates is re-assigned by `reset()`,
    `initialize_soup` or the loop header before the next attempt. This is `Machine.WF.feedFrame` for the real code. -/
theorem feed_touches_reassigned :
    ∀ f ∈ Gen.C06.feedTouches, f ∈ Gen.C06.resetAssigns ++ Gen.C06.attemptBuilderAssigns ++ Gen.C06.headerAssigns := by
  decide +kernel

/-- the loop header assigns exactly the four strategy fields, and `reset()` assigns the parser bookkeeping and the
    root's own linkage (so the table above is not vacuous) -/
theorem header_and_reset_fields :
    Gen.C06.headerAssigns = ["markup", "original_encoding", "declared_html_encoding", "contains_replacement_characters"]
    ∧ (∀ f ∈ ["contents", "attrs", "next_element", "next_sibling", "current_data", "currentTag", "tagStack",
              "open_tag_counter", "preserve_whitespace_tag_stack", "string_container_stack", "_most_recent_element",
              "hidden", "_namespaces"],
        f ∈ Gen.C06.resetAssigns)
    ∧ Gen.C06.feedTouches ≠ [] := by
  decide +kernel

/-! non-vacuity: a concrete machine satisfying `WF`, with a rejecting and an accepting strategy -/
def demo : Machine Nat where
  header s := [("markup", s.markup.length)]
  fresh _ := [("contents", 0)]
  feed o := if o "markup" == 0 then (o.set "contents" 7, .reject) else (o.set "contents" (o "markup"), .accept)
  finish := [("markup", 0)]

theorem demo_wf : demo.WF ["contents"] ["markup"] where
  headerKeys _ := rfl
  freshKeys _ := rfl
  freshFrame _ _ _ := rfl
  feedFrame o := by
    intro f hf
    have : f ≠ "contents" := fun h => hf (by simp [h])
    simp only [demo]
    split <;> simp [Obj.set, this]

example : (retry demo (fun _ => 99) [{ markup := [] }, { markup := [1, 2] }]).2 = .ok () := by decide
example : (retry demo (fun _ => 99) [{ markup := [] }, { markup := [1, 2] }]).1 "contents" = 2 := by decide
example : (retry demo (fun _ => 99) [{ markup := [] }, { markup := [1, 2] }]).1 "builder" = 99 := by decide
example : (retry demo (fun _ => 99) [{ markup := [] }, { markup := [] }]).2 = .error .parserRejectedMarkup := by decide

/-! ## the beginner heuristics -/

/-- repaired code: for every `str` (lone surrogates included) and every `bytes` the heuristics return -/
theorem heuristics_total (m : Markup) : ∃ w, heuristics m = .ok w := by
  unfold heuristics
  split
  · exact ⟨_, rfl⟩
  · split <;> exact ⟨_, rfl⟩

/-- the unrepaired code fails exactly on short, tag-less, newline-less, non-URL `str` markup holding a lone
    surrogate — and with `UnicodeEncodeError` -/
theorem heuristicsOld_error_iff (m : Markup) (e : Err) :
    heuristicsOld m = .error e ↔
      e = .unicodeEncodeError ∧ heuristicsGuard m = true ∧ markupIsUrl m = false ∧
        ∃ s, m = .str s ∧ ∃ c ∈ s, isSurrogate c = true := by
  by_cases hg : heuristicsGuard m = true
  · cases hu : markupIsUrl m with
    | true =>
      have hL : heuristicsOld m = .ok .url := by unfold heuristicsOld; simp [hg, hu]
      rw [hL]
      constructor
      · intro h; cases h
      · rintro ⟨_, _, h, _⟩; cases h
    | false =>
      cases m with
      | bytes b =>
        have hL : heuristicsOld (.bytes b) = .ok (if resemblesFilename b then .filename else .none) := by
          unfold heuristicsOld; simp [hg, hu]
        rw [hL]
        constructor
        · intro h; cases h
        · rintro ⟨_, _, _, s, hs, _⟩; cases hs
      | str s =>
        by_cases hsur : ∃ c ∈ s, isSurrogate c = true
        · obtain ⟨c, hc, hs⟩ := hsur
          have hL : heuristicsOld (.str s) = .error .unicodeEncodeError := by
            unfold heuristicsOld; simp [hg, hu, encodeUtf8Strict_error_of_surrogate s c hc hs]
          rw [hL]
          constructor
          · intro h
            injection h with h
            exact ⟨h.symm, hg, rfl, s, rfl, c, hc, hs⟩
          · rintro ⟨rfl, _⟩; rfl
        · have hno : ∀ c ∈ s, isSurrogate c = false := by
            intro c hc
            cases hh : isSurrogate c with
            | false => rfl
            | true => exact absurd ⟨c, hc, hh⟩ hsur
          have hL : heuristicsOld (.str s)
              = .ok (if resemblesFilename (encodeUtf8Replace s) then .filename else .none) := by
            unfold heuristicsOld; simp [hg, hu, encodeUtf8Strict_ok_of_noSurrogate s hno]
          rw [hL]
          constructor
          · intro h; cases h
          · rintro ⟨_, _, _, s', hs', hex⟩
            injection hs' with hs'
            subst hs'
            exact absurd hex hsur
  · have hL : heuristicsOld m = .ok .none := by unfold heuristicsOld; simp [hg]
    rw [hL]
    constructor
    · intro h; cases h
    · rintro ⟨_, h, _⟩; exact absurd h hg

/-- the repair changes nothing where the old code returned -/
theorem heuristics_agree_old (m : Markup) (w : Warning) (h : heuristicsOld m = .ok w) : heuristics m = .ok w := by
  unfold heuristicsOld at h
  unfold heuristics
  split
  · simp_all
  · rename_i hg
    simp only [hg] at h
    split
    · simp_all
    · rename_i hu
      simp only [hu] at h
      cases m with
      | bytes b => simpa using h
      | str s =>
        simp only at h ⊢
        by_cases hsur : ∃ c ∈ s, isSurrogate c = true
        · obtain ⟨c, hc, hs⟩ := hsur
          rw [encodeUtf8Strict_error_of_surrogate s c hc hs] at h
          cases h
        · have hno : ∀ c ∈ s, isSurrogate c = false := by
            intro c hc
            cases hh : isSurrogate c with
            | false => rfl
            | true => exact absurd ⟨c, hc, hh⟩ hsur
          rw [encodeUtf8Strict_ok_of_noSurrogate s hno] at h
          exact h

/-- witness on the unrepaired mirror: `BeautifulSoup("a\udfffb")` -/
theorem heuristicsOld_fails : heuristicsOld (.str [97, 0xDFFF, 98]) = .error .unicodeEncodeError := by decide

example : heuristics (.str [97, 0xDFFF, 98]) = .ok .none := by decide
-- (over whatever the live tables are: a release that recognises other schemes / extensions does not break the build)
example : Gen.C06.urlPrefixes.contains (BS.ofS "http:") = true → heuristics (.str (BS.ofS "http://example.com/a.html")) = .ok .url := by decide
example : Gen.C06.fileExtensions.contains (BS.ofS ".html") = true →
    heuristics (.bytes (BS.ofS "C:/docs/page.HTML")) = .ok .filename := by decide
example : heuristics (.str (BS.ofS "notes.txt?")) = .ok .none := by decide

/-! ## numeric character references -/

/-- repaired code: whatever the name (any length, any characters) and whatever the one-byte decoder of the
    document's encoding does (text, empty text, `UnicodeDecodeError`, another exception), `handle_charref` hands a
    non-empty text to `handle_data` -/
theorem charref_total (orig : Option (Nat → Dec1)) (name : PStr) :
    ∃ c cs, handleCharref orig name = .ok (c :: cs) := by
  unfold handleCharref
  exact charrefFrom_total orig _

/-- the unrepaired mirror fails only with the two exception classes the repairs catch -/
theorem handleCharrefOld_errors (orig : Option (Nat → Dec1)) (name : PStr) (e : Err)
    (h : handleCharrefOld orig name = .error e) : e = .valueError ∨ e = .unicodeError := by
  unfold handleCharrefOld at h
  split at h
  · rename_i e' he
    injection h with h
    subst h
    left
    unfold charrefNumber at he
    have hd : ∀ s, pyIntDec s = .error e' → e' = .valueError := by
      intro s hs; unfold pyIntDec at hs; split at hs
      · injection hs with hs; exact hs.symm
      · split at hs
        · injection hs with hs; exact hs.symm
        · cases hs
    have hx : ∀ s, pyIntHex s = .error e' → e' = .valueError := by
      intro s hs; unfold pyIntHex at hs; simp only at hs; split at hs
      · split at hs
        · injection hs with hs; exact hs.symm
        · cases hs
      · injection hs with hs; exact hs.symm
    split at he
    · exact hx _ he
    · exact hx _ he
    · exact hd _ he
  · right
    unfold charrefFrom at h
    split at h
    · have ht : ∀ d k data, tryDecode false d k data = .error e → e = .unicodeError := by
        intro d k data hh
        unfold tryDecode at hh
        split at hh
        · cases hh
        · split at hh
          · cases hh
          · cases hh
          · simp at hh; exact hh.symm
      split at h
      · rename_i e1 h1; injection h with h; subst h; exact ht _ _ _ h1
      · split at h
        · rename_i e2 h2; injection h with h; subst h; exact ht _ _ _ h2
        · cases h
    · cases h

/-- where the old code returned, the repaired code returns the same text -/
theorem charref_agree_old (orig : Option (Nat → Dec1)) (name : PStr) (r : PStr)
    (h : handleCharrefOld orig name = .ok r) : handleCharref orig name = .ok r := by
  unfold handleCharrefOld at h
  unfold handleCharref
  split at h
  · cases h
  · rename_i n hn
    rw [hn]
    simp only
    unfold charrefFrom at h ⊢
    have ht : ∀ d data x, tryDecode false d n data = .ok x → tryDecode true d n data = .ok x := by
      intro d data x hh
      unfold tryDecode at hh ⊢
      split
      · simpa using hh
      · rename_i f
        simp only at hh
        split <;> rename_i hf <;> simp only [hf] at hh
        · exact hh
        · exact hh
        · simp at hh
    split
    · rename_i hlt
      simp only [hlt, if_true] at h
      split at h
      · cases h
      · rename_i d1 h1
        rw [ht _ _ _ h1]
        simp only
        split at h
        · cases h
        · rename_i d2 h2
          rw [ht _ _ _ h2]
          exact h
    · rename_i hlt
      simpa [hlt] using h

/-- `str` input (no document encoding): the reference stands for `charrefSpec` of its number -/
theorem charref_spec (name : PStr) (n : Nat) (h : charrefNumber name = .ok n) :
    handleCharref none name = .ok (charrefSpec n) := by
  unfold handleCharref
  rw [h]
  simp only
  unfold charrefFrom charrefSpec
  by_cases hn : n < 256
  · have hle : n ≤ Gen.C06.maxUnicode := by
      have : (256 : Nat) ≤ Gen.C06.maxUnicode := by decide
      omega
    simp only [hn, if_true]
    cases hc : Gen.C06.cp1252Decode[n]? with
    | none => simp [tryDecode, cp1252, hc, charrefFinish, truthy, hle]
    | some v =>
      cases v with
      | none => simp [tryDecode, cp1252, hc, charrefFinish, truthy, hle]
      | some c => simp [tryDecode, cp1252, hc, charrefFinish, truthy]
  · simp only [hn, if_false]
    by_cases hle : n ≤ Gen.C06.maxUnicode
    · simp [charrefFinish, truthy, hle]
    · simp [charrefFinish, truthy, hle]

/-- table fact over the live codec: Windows-1252 differs from the identity only on 128–159, never yields U+0000
    for a non-zero byte, and is defined on all of ASCII and Latin-1's upper half -/
theorem cp1252_table :
    Gen.C06.cp1252Decode.length = 256 ∧
    ∀ n, n < 256 → (n < 128 ∨ 160 ≤ n) → Gen.C06.cp1252Decode[n]? = some (some n) := by
  refine ⟨by decide +kernel, ?_⟩
  have h : (List.range 256).all (fun n => !(n < 128 || 160 ≤ n) || Gen.C06.cp1252Decode[n]? == some (some n)) = true := by
    decide +kernel
  intro n hn hr
  have := List.all_eq_true.mp h n (List.mem_range.mpr hn)
  have hb : (decide (n < 128) || decide (160 ≤ n)) = true := by
    rcases hr with h1 | h1 <;> simp [h1]
  simpa [hb] using this

/-- so a reference to any code point outside 128–159 is that code point, and anything beyond U+10FFFF is U+FFFD -/
theorem charrefSpec_identity (n : Nat) (h : n < 128 ∨ 160 ≤ n) :
    charrefSpec n = if n ≤ Gen.C06.maxUnicode then [n] else [0xFFFD] := by
  unfold charrefSpec
  by_cases hn : n < 256
  · have hle : n ≤ Gen.C06.maxUnicode := by
      have : (256 : Nat) ≤ Gen.C06.maxUnicode := by decide
      omega
    simp [hn, cp1252_table.2 n hn h, hle]
  · simp [hn]

/-- witness on the unrepaired mirror: a decimal reference one digit longer than `sys.int_max_str_digits` -/
theorem handleCharrefOld_fails_long_decimal :
    handleCharrefOld none (List.replicate (Gen.C06.intMaxStrDigitsC06 + 1) 57) = .error .valueError := by
  decide +kernel

/-- witness on the unrepaired mirror: a document encoding whose one-byte decode raises something that is not a
    `UnicodeDecodeError` (CPython 3.12 `punycode` on `&#1;`) -/
theorem handleCharrefOld_fails_codec :
    handleCharrefOld (some fun _ => .otherError) [49] = .error .unicodeError := by decide

example : handleCharref none (List.replicate (Gen.C06.intMaxStrDigitsC06 + 1) 57) = .ok [0xFFFD] := by decide +kernel
example : handleCharref (some fun _ => .otherError) [49] = .ok [1] := by decide
example : handleCharref none (BS.ofS "x41") = .ok [65] := by decide
example : handleCharref none (BS.ofS "150") = .ok [0x2013] := by decide
example : handleCharref none (BS.ofS "129") = .ok [129] := by decide
example : handleCharref none (BS.ofS "0") = .ok [0] := by decide
example : handleCharref none (BS.ofS "xD800") = .ok [0xD800] := by decide
example : handleCharref none (BS.ofS "x110000") = .ok [0xFFFD] := by decide
example : handleCharref (some fun _ => .ok []) (BS.ofS "65") = .ok [65] := by decide
example : handleCharref (some fun n => .ok [n + 1000]) (BS.ofS "129") = .ok [1129] := by decide

/-! ## UnicodeDammit ends in text or `None`; `None` is `ParserRejectedMarkup` -/

/-- If some candidate other than the literal name `ascii` has a codec whose `errors="replace"` decoding succeeds
    (always the case for `utf-8`/`windows-1252` unless both are excluded), UnicodeDammit produces text. -/
theorem dammit_some_of_fallback (env : DammitEnv) (encs : List Nat)
    (h : ∃ e ∈ encs, env.isAscii e = false ∧ ∃ c t, env.codecOf e = some c ∧ env.decode c true = some t) :
    (dammit env encs).unicodeMarkup.isSome = true := by
  unfold dammit
  simp only
  by_cases ht : firstPassEnough (pass1 env encs {}).1 = true
  · simp only [ht, if_true]
    have hs : (pass1 env encs {}).1.isSome = true := by
      unfold firstPassEnough at ht
      split at ht
      · match hp : (pass1 env encs {}).1, ht with
        | some (c :: cs), _ => rfl
      · exact ht
    cases hx : (pass1 env encs {}).1 with
    | none => rw [hx] at hs; simp at hs
    | some t => simp
  · simp only [ht, Bool.false_eq_true, if_false]
    have hinv : TriedFailed env (pass1 env encs {}).2 := by
      intro c hc
      exact absurd hc (pass1_tried env encs {} (by intro c; simp) c)
    have := pass2_some env encs (pass1 env encs {}).1 (pass1 env encs {}).2 hinv h
    cases hx : (pass2 env encs (pass1 env encs {}).1 (pass1 env encs {}).2).1 with
    | none => rw [hx] at this; simp at this
    | some t => simp

/-- `prepare_markup` either yields exactly one strategy or raises `ParserRejectedMarkup` — nothing else -/
theorem prepare_outcome (dammitOf : Bytes → DammitResult) (declared : Bytes → Option Nat) (mk : Markup) :
    prepareMarkup dammitOf declared mk = .error .parserRejectedMarkup ∨
    ∃ s, prepareMarkup dammitOf declared mk = .ok [s] := by
  cases mk with
  | str s => exact Or.inr ⟨_, rfl⟩
  | bytes b =>
    unfold prepareMarkup
    simp only
    split
    · exact Or.inl rfl
    · exact Or.inr ⟨_, rfl⟩

/-- non-vacuity: a two-candidate environment where the strict pass fails and the replace pass succeeds, and one
    where everything is excluded -/
def envDemo : DammitEnv where
  codecOf e := some e
  decode c r := if c == 2 && r then some [120, 0xFFFD] else none
  isAscii e := e == 1

example : (dammit envDemo [1, 2]).unicodeMarkup = some [120, 0xFFFD] := by decide
example : (dammit envDemo [1, 2]).containsReplacement = true := by decide
example : (dammit envDemo [1, 2]).originalEncoding = some 2 := by decide
example : (dammit envDemo [1]).unicodeMarkup = none := by decide
example : prepareMarkup (fun _ => dammit envDemo []) (fun _ => none) (.bytes [1]) = .error .parserRejectedMarkup := by
  decide

/-! ## the constructor -/

/-- what `feed` turns into `ParserRejectedMarkup`: `AssertionError`, `ValueError` (and subclasses), or a
    `ParserRejectedMarkup` raised directly -/
def Wrapped (e : Err) : Prop := e = .assertionError ∨ e.isValueError = true ∨ e = .parserRejectedMarkup

/-- the measured hypothesis: CPython's tokenizer itself raises nothing but `AssertionError` (markup it gives up on)
    or `ValueError` (`html.unescape` of an attribute value with a decimal reference beyond `sys.int_max_str_digits`) -/
def TokenizerRaisesOnlyWrapped {V : Type} (p : Parser V) : Prop :=
  ∀ s, (p.tokenize s).2 = none ∨ ∃ e, (p.tokenize s).2 = some e ∧ Wrapped e

/-- the handlers other than `handle_charref` (C04's Builder/Adapter models) do not raise, or raise what `feed` wraps -/
def HandlersRaiseOnlyWrapped {V : Type} (p : Parser V) : Prop :=
  ∀ k o, (p.applyOther k o).2 = none ∨ ∃ e, (p.applyOther k o).2 = some e ∧ Wrapped e

theorem handleEvents_outcome {V : Type} (p : Parser V) (hh : HandlersRaiseOnlyWrapped p)
    (orig : Option (Nat → Dec1)) (evs : List Event) (o : Obj V) :
    (handleEvents p orig evs o).2 = none ∨ ∃ e, (handleEvents p orig evs o).2 = some e ∧ Wrapped e := by
  induction evs generalizing o with
  | nil => exact Or.inl rfl
  | cons ev evs ih =>
    cases ev with
    | charref n =>
      unfold handleEvents
      obtain ⟨c, cs, hc⟩ := charref_total orig n
      rw [hc]
      exact ih _
    | other k =>
      unfold handleEvents
      have := hh k o
      generalize p.applyOther k o = x at this ⊢
      obtain ⟨o', e⟩ := x
      cases e with
      | none => exact ih _
      | some e => simpa using this

/-- `_feed` under the constructor's `try`: accepted or rejected, never another exception -/
theorem feed_outcome {V : Type} (p : Parser V) (ht : TokenizerRaisesOnlyWrapped p)
    (hh : HandlersRaiseOnlyWrapped p) (o : Obj V) :
    (soupFeed p o).2 = .accept ∨ (soupFeed p o).2 = .reject := by
  have hp : (parserFeed p o).2 = none ∨ ∃ e, (parserFeed p o).2 = some e ∧ Wrapped e := by
    unfold parserFeed
    simp only
    have h1 := handleEvents_outcome p hh (p.origOf o) (p.tokenize (p.markupOf o)).1 o
    generalize handleEvents p (p.origOf o) (p.tokenize (p.markupOf o)).1 o = x at h1 ⊢
    obtain ⟨o', e⟩ := x
    cases e with
    | some e => simpa using h1
    | none => exact ht (p.markupOf o)
  unfold soupFeed builderFeed
  generalize parserFeed p o = x at hp ⊢
  obtain ⟨o', e⟩ := x
  simp only at hp
  rcases hp with rfl | ⟨e, rfl, hw⟩
  · left; rfl
  · right
    simp only
    rcases hw with rfl | hv | rfl
    · simp [feedOutcome]
    · simp [hv, feedOutcome]
    · simp [feedOutcome, Err.isValueError]

theorem retry_outcome {V : Type} (m : Machine V)
    (hf : ∀ o, (m.feed o).2 = .accept ∨ (m.feed o).2 = .reject) (o : Obj V) (ss : List Strategy) :
    (retry m o ss).2 = .ok () ∨ (retry m o ss).2 = .error .parserRejectedMarkup := by
  induction ss generalizing o with
  | nil => exact Or.inr rfl
  | cons s rest ih =>
    rw [retry]
    have h := hf (assignAll (m.fresh (assignAll (m.header s) o)) (assignAll (m.header s) o))
    have ha : attempt m o s = m.feed (assignAll (m.fresh (assignAll (m.header s) o)) (assignAll (m.header s) o)) := rfl
    rw [← ha] at h
    generalize attempt m o s = x at h ⊢
    obtain ⟨o', r⟩ := x
    simp only at h
    rcases h with rfl | rfl
    · exact Or.inl rfl
    · exact ih o'

/-- **C06 (partial).** With the repaired heuristics and charref conversion, for every `str` or `bytes` markup, every
    UnicodeDammit behaviour (`dammitOf`) and every initial object: IF the tokenizer raises nothing but
    `AssertionError`/`ValueError` and the other handlers raise at most what `feed` wraps, the constructor ends in a
    tree or in `ParserRejectedMarkup`. -/
theorem constructor_outcome {V : Type} (m : Machine V) (p : Parser V) (hm : m.feed = soupFeed p)
    (ht : TokenizerRaisesOnlyWrapped p) (hh : HandlersRaiseOnlyWrapped p)
    (dammitOf : Bytes → DammitResult) (declared : Bytes → Option Nat) (o0 : Obj V) (mk : Markup) :
    (construct m heuristics (prepareMarkup dammitOf declared) o0 mk).2 = .ok () ∨
    (construct m heuristics (prepareMarkup dammitOf declared) o0 mk).2 = .error .parserRejectedMarkup := by
  unfold construct
  obtain ⟨w, hw⟩ := heuristics_total mk
  rw [hw]
  simp only
  rcases prepare_outcome dammitOf declared mk with h | ⟨s, h⟩
  · rw [h]; exact Or.inr rfl
  · rw [h]
    simp only
    exact retry_outcome m (fun o => by rw [hm]; exact feed_outcome p ht hh o) o0 [s]

/-- the hypothesis is needed, and the model does not hide foreign exceptions: a tokenizer raising anything else
    makes the constructor raise exactly that -/
def crashing : Parser Unit where
  tokenize _ := ([.charref [54, 53]], some (.other 7))
  applyData _ o := o
  applyOther _ o := (o, none)
  endOfInput o := o
  markupOf _ := []
  origOf _ := none

def crashingMachine : Machine Unit := ⟨fun _ => [], fun _ => [], soupFeed crashing, []⟩

theorem foreign_exception_propagates :
    (construct crashingMachine heuristics (prepareMarkup (fun _ => ⟨none, none, false⟩) (fun _ => none))
      (fun _ => ()) (.str [60, 97, 62])).2 = .error (.other 7) := by decide

/-- and with the unrepaired heuristics the constructor itself raises `UnicodeEncodeError` before any parsing -/
theorem constructor_old_fails_on_surrogate {V : Type} (m : Machine V) (prep : Markup → Except Err (List Strategy))
    (o0 : Obj V) : (construct m heuristicsOld prep o0 (.str [97, 0xDFFF, 98])).2 = .error .unicodeEncodeError := by
  unfold construct
  rw [heuristicsOld_fails]

/-- The model mirrors the REPAIRED code. On the four inputs where the unrepaired mirrors fail (`heuristicsOld_fails`,
    `handleCharrefOld_fails_long_decimal`, `handleCharrefOld_fails_codec`,
    `constructor_old_fails_on_tokenizer_valueerror`) the live constructor of the working tree, run by the translator,
    ends in a tree or `ParserRejectedMarkup` — false of a tree without fixes/C06-*.diff. -/
theorem live_code_returns_on_witnesses :
    Gen.C06.liveWitnesses.length = 4 ∧ ∀ p ∈ Gen.C06.liveWitnesses, p.2 = true := by decide

/-- non-vacuity of `constructor_outcome`: a parser satisfying both hypotheses that rejects (tokenizer
    `AssertionError`) and one that accepts -/
def rejecting : Parser Unit := { crashing with tokenize := fun _ => ([], some .assertionError) }
def accepting : Parser Unit := { crashing with tokenize := fun _ => ([.charref [54, 53], .other 1], none) }
example : TokenizerRaisesOnlyWrapped rejecting := fun _ => Or.inr ⟨_, rfl, Or.inl rfl⟩
example : HandlersRaiseOnlyWrapped rejecting := fun _ _ => Or.inl rfl

/-- witness on the unrepaired mirror of `feed`: a tokenizer `ValueError` (`<a href="&#9…9;">` with more than
    `sys.int_max_str_digits` digits) leaves the constructor as `ValueError`; the repaired `feed` rejects instead -/
def valueErrorTokenizer : Parser Unit := { crashing with tokenize := fun _ => ([], some .valueError) }
theorem constructor_old_fails_on_tokenizer_valueerror :
    (construct ⟨fun _ => [], fun _ => [], soupFeedOld valueErrorTokenizer, []⟩ heuristics
      (prepareMarkup (fun _ => ⟨none, none, false⟩) (fun _ => none)) (fun _ => ()) (.str [60])).2
        = .error .valueError := by decide
example : (construct ⟨fun _ => [], fun _ => [], soupFeed valueErrorTokenizer, []⟩ heuristics
      (prepareMarkup (fun _ => ⟨none, none, false⟩) (fun _ => none)) (fun _ => ()) (.str [60])).2
        = .error .parserRejectedMarkup := by decide
example : (construct ⟨fun _ => [], fun _ => [], soupFeed rejecting, []⟩ heuristics
    (prepareMarkup (fun _ => ⟨none, none, false⟩) (fun _ => none)) (fun _ => ()) (.str [60])).2
      = .error .parserRejectedMarkup := by decide
example : (construct ⟨fun _ => [], fun _ => [], soupFeed accepting, []⟩ heuristics
    (prepareMarkup (fun _ => ⟨none, none, false⟩) (fun _ => none)) (fun _ => ()) (.str [60])).2 = .ok () := by decide

/-! ## the error-conversion envelope: every call path, every exception class

`Model/Envelope.lean` makes every operation below the constructor that can raise a *primitive* that may raise any
class (`Prims`), and every `try/except` of the repository a clause (`Code`). `Recorded` lists, per primitive, the
exact classes it has been observed to raise — the trusted residue, measured by the harness on every run. -/

/-- **No exception other than `ParserRejectedMarkup` escapes the constructor** — for every variant of the clauses
    `code`, every list of recorded kinds `r` the clauses cover (`Covers`, decidable), every behaviour `P` of the
    primitives within `r` (UnicodeDammit/EncodingDetector, codecs, `prepare_markup`'s generator, `reset`, the parser
    object, both tokenizer phases `feed`/`close`, every `handle_*` callback, `int()`/`chr()`/one-byte decodes, the
    end-of-input flush), every object frame, every initial object and every `str`/`bytes` markup. -/
theorem envelope {V : Type} (code : Code) (r : Recorded) (hcov : Covers code r = true) (P : Prims V)
    (hP : P.Within r) (F : Frame V) (o0 : Obj V) (mk : Markup) :
    (constructE code P F o0 mk).2 = .ok () ∨ (constructE code P F o0 mk).2 = .error .parserRejectedMarkup := by
  have hc := coversP_of_covers code r hcov
  unfold constructE construct
  cases hh : heuristicsE code P mk with
  | error e =>
    right
    simp only
    rw [heuristicsE_fine code r P hc hP mk e hh]
  | ok w =>
    simp only
    cases hp : prepareMarkupE code P mk with
    | error e =>
      right
      simp only
      rw [prepareMarkupE_fine code r P hc hP mk e hp]
    | ok ss =>
      simp only
      exact retry_outcome_prm (machineE code P F) (fun o => soupFeedE_outcome code r P hc hP o) o0 ss

/-- the clauses of the working tree cover everything CPython has been recorded to raise … -/
theorem live_covers_recorded : Covers Code.live Gen.C06.recorded = true := by decide

/-- … so for the repaired code the envelope holds outright, the residue being exactly `P.Within Gen.C06.recorded` -/
theorem envelope_live {V : Type} (P : Prims V) (hP : P.Within Gen.C06.recorded) (F : Frame V) (o0 : Obj V) (mk : Markup) :
    (constructE Code.live P F o0 mk).2 = .ok () ∨
    (constructE Code.live P F o0 mk).2 = .error .parserRejectedMarkup :=
  envelope Code.live _ live_covers_recorded P hP F o0 mk

/-- … whereas 4.13.0 as shipped does not cover them (three of the four C06 defects are holes in clauses; the fourth is
    the strict `encode`) -/
theorem v4130_does_not_cover : Covers Code.v4130 Gen.C06.recorded = false := by decide

/-- non-vacuity of `envelope_live`: the quiet behaviour, and the same with the tokenizer giving up in `close()`, are
    within the recorded kinds; one yields a tree, the other `ParserRejectedMarkup` -/
theorem quiet_within : Prims.quiet.Within Gen.C06.recorded := by
  refine ⟨?_, ?_, ?_, ?_, ?_, ?_, ?_, ?_, ?_, ?_, ?_, ?_, ?_, ?_, ?_, ?_, ?_, ?_⟩ <;>
    simp only [Prims.quiet, raisesOnly, raisesOnlyO]
  · intro w c h; cases h
  · intro x hx c h; simp at hx; rcases hx with rfl | rfl <;> cases h
  · intro s c h; cases h
  · intro c b e h; cases h
  · intro c h; cases h
  · intro c h; cases h
  · intro c h; cases h
  · intro c h; cases h
  · intro s c h; cases h
  · intro s c h; cases h
  · intro s c h
    unfold pyIntDec at h
    split at h
    · injection h with h; subst h; decide
    · split at h
      · injection h with h; subst h; decide
      · cases h
  · intro s c h
    unfold pyIntHex at h
    simp only at h
    split at h
    · split at h
      · injection h with h; subst h; decide
      · cases h
    · injection h with h; subst h; decide
  · intro e n c h; cases h
  · intro n c h
    cases hx : cp1252 n with
    | ok s => rw [hx] at h; cases h
    | decodeError => rw [hx] at h; injection h with h; subst h; decide
    | otherError => rw [hx] at h; injection h with h; subst h; decide
  · intro n c h
    split at h
    · cases h
    · injection h with h; subst h; decide
  · intro d o c h; cases h
  · intro k o c h; cases h
  · intro o c h; cases h

example : (constructE Code.live Prims.quiet Frame.unit (fun _ => ()) (.bytes [60, 112, 62])).2 = .ok () := by decide
example : predict Code.live .tokClose .assertionError = .prm := by decide
example : predict Code.v4130 .intOf .valueError = .escapes .valueError := by decide
example : predict Code.v4130 .tokFeed .valueError = .escapes .valueError := by decide
example : predict Code.v4130 .dec1 .unicodeError = .escapes .unicodeError := by decide

/-! ### the class hierarchy and the clauses, against the live code -/

/-- `Err.sup` is the `__mro__` of the live classes (builtins and bs4.exceptions), for every named class -/
theorem mro_table :
    (∀ row ∈ Gen.C06.excMro, row.1.sup = row.2) ∧ Err.named.all (fun e => Gen.C06.excMro.any (·.1 == e)) = true := by
  decide +kernel

/-- The whole primitive-level injection matrix of the LIVE constructor (translator: every one of the 16 primitives made
    to raise every named class and a representative of each open family, 528 runs) equals the model's prediction — the
    clauses, their nesting, what is outside every `try`, and PEP 479 at the two generator boundaries. (`hookedPoints` = the
    primitives the harness could hook in this tree: all 16 unless an import style changed; the evidence lists them.) -/
theorem injection_table :
    (∀ row ∈ Gen.C06.injections, predict Code.live row.1 row.2.1 = row.2.2) ∧
    Gen.C06.hookedPoints.all (fun pt => (Err.named ++ [Err.other 0, Err.otherBase 0]).all fun e =>
      Gen.C06.injections.any fun row => row.1 == pt && row.2.1 == e) = true := by
  decide +kernel

/-! ### tightness: what each layer lets through, for every class -/

/-- `_codec` absorbs exactly its clause; anything else leaves `find_codec` -/
theorem lookup_escapes {V : Type} (code : Code) (P : Prims V) (s : Nat) (c : Err) (h : P.lookup s = .error c) :
    tryLookup code P s = if catches code.codecLookup c then .ok false else .error c := by
  unfold tryLookup; rw [h]

/-- `_convert_from` absorbs exactly its clause around `str(...)`; anything else leaves it -/
theorem decode_escapes {V : Type} (code : Code) (P : Prims V) (st : DammitState) (e k : Nat) (b : Bool) (x : Err)
    (hf : findCodecE code P e = .ok (some k)) (ht : st.tried.contains (k, b) = false) (hd : P.decode k b = .error x)
    (hx : catches code.convertFrom x = false) : convertFromE code P st e b = .error x := by
  unfold convertFromE
  rw [hf]; simp only [ht, Bool.false_eq_true, if_false, hd, hx]

/-- whatever leaves UnicodeDammit or the `declared_html_encoding` property leaves the constructor (after PEP 479): the
    `for` header is outside every `try` -/
theorem generator_escapes {V : Type} (code : Code) (P : Prims V) (F : Frame V) (o0 : Obj V) (b : Bytes) (c : Err)
    (hb : b ≠ []) (hh : ∃ w, heuristicsE code P (.bytes b) = .ok w) (hd : dammitE code P = .error c) :
    (constructE code P F o0 (.bytes b)).2 = .error (pep479 c) := by
  obtain ⟨w, hw⟩ := hh
  unfold constructE construct
  rw [hw]
  simp only [prepareMarkupE]
  have : b.isEmpty = false := by cases b <;> simp_all
  simp [this, hd]

/-- `feed` converts exactly its clause -/
theorem feed_converts {V : Type} (code : Code) (o : Obj V) (e : Err) :
    wrapFeed code (o, some e) = if catches code.feed e then (o, some .parserRejectedMarkup) else (o, some e) := rfl

/-- a class raised by the tokenizer in `feed()` that neither `feed`'s clause nor the constructor's catches ends the
    attempt as itself -/
theorem tokenizer_escapes {V : Type} (code : Code) (P : Prims V) (o : Obj V) (e : Err)
    (hr : P.resetAll = .ok ()) (hn : P.newParser = .ok ())
    (hev : (handleEventsE code P (P.origOf o) (P.tokFeed (P.markupOf o)).1 o).2 = none)
    (ht : (P.tokFeed (P.markupOf o)).2 = some e) (h1 : catches code.feed e = false) (h2 : catches code.ctor e = false) :
    (soupFeedE code P o).2 = .raise e := by
  unfold soupFeedE builderFeedE runPhase
  rw [hr, hn]
  simp only
  generalize handleEventsE code P (P.origOf o) (P.tokFeed (P.markupOf o)).1 o = x at hev
  obtain ⟨o', e'⟩ := x
  simp only at hev
  subst hev
  simp only [ht, wrapFeed, h1, Bool.false_eq_true, if_false, h2]

/-- **`Covers` is necessary, not only sufficient** (main conjuncts). Tokenizer: for ANY clauses, a class that neither
    `feed`'s clause nor the constructor's accepts, raised by `goahead` on a behaviour that is otherwise silent (and within
    every list of recorded kinds, `silent_within`), leaves the constructor as itself. -/
theorem covers_necessary_tokenizer (code : Code) (c : Err) (h : okAtFeed code c = false) :
    (constructE code { Prims.silent with tokFeed := fun _ => ([], some c) } Frame.unit (fun _ => ()) (.str [60])).2
      = .error c := by
  unfold okAtFeed okAtCtor at h
  simp only [Bool.or_eq_false_iff] at h
  obtain ⟨h1, h2, h3⟩ := h
  simp [constructE, construct, heuristicsE, heuristics, heuristicsOld, heuristicsGuard, Markup.units, prepareMarkupE,
    retry, attempt, machineE, Frame.unit, assignAll, soupFeedE, builderFeedE, runPhase, handleEventsE, wrapFeed,
    Prims.silent, Prims.quiet, h1, h2]

/-- `str(bytes, codec, errors)`: what `_convert_from`'s clause does not absorb leaves through the generator -/
theorem covers_necessary_decode (code : Code) (c : Err) (h : catches code.convertFrom c = false) :
    (constructE code { Prims.silent with decode := fun _ _ => .error c } Frame.unit (fun _ => ()) (.bytes [60])).2
      = .error (pep479 c) := by
  simp [constructE, construct, heuristicsE, heuristics, heuristicsOld, heuristicsGuard, Markup.units, prepareMarkupE,
    dammitE, pass1E, convertFromE, findCodecE, findCodecGo, tryLookup,
    Prims.silent, Prims.quiet, h]

/-- `codecs.lookup`: what `_codec`'s clause does not absorb leaves `find_codec`, `_convert_from` (called outside its
    `try`), UnicodeDammit and the generator -/
theorem covers_necessary_lookup (code : Code) (c : Err) (h : catches code.codecLookup c = false) :
    (constructE code { Prims.silent with lookup := fun _ => .error c } Frame.unit (fun _ => ()) (.bytes [60])).2
      = .error (pep479 c) := by
  simp [constructE, construct, heuristicsE, heuristics, heuristicsOld, heuristicsGuard, Markup.units, prepareMarkupE,
    dammitE, pass1E, convertFromE, findCodecE, findCodecGo, tryLookup,
    Prims.silent, Prims.quiet, h]

/-- anything raised inside the candidate generator leaves the constructor (after PEP 479, applied once) -/
theorem covers_necessary_generator (code : Code) (c : Err) :
    (constructE code { Prims.silent with cands := [.error c] } Frame.unit (fun _ => ()) (.bytes [60])).2
      = .error (pep479 c) := by
  simp [constructE, construct, heuristicsE, heuristics, heuristicsOld, heuristicsGuard, Markup.units, prepareMarkupE,
    dammitE, pass1E, pep479_idem]

/-- with `close()` outside `feed`'s `try`, a class of the second tokenizer phase that the constructor's clause does not
    accept leaves -/
theorem covers_necessary_close (code : Code) (c : Err) (hg : code.closeGuarded = false) (h : okAtCtor code c = false) :
    (constructE code { Prims.silent with tokClose := fun _ => ([], some c) } Frame.unit (fun _ => ()) (.str [60])).2
      = .error c := by
  unfold okAtCtor at h
  simp only [Bool.or_eq_false_iff] at h
  obtain ⟨h2, h3⟩ := h
  simp [constructE, construct, heuristicsE, heuristics, heuristicsOld, heuristicsGuard, Markup.units, prepareMarkupE,
    retry, attempt, machineE, Frame.unit, assignAll, soupFeedE, builderFeedE, runPhase, handleEventsE, wrapFeed,
    Prims.silent, Prims.quiet, hg, h2]

/-- `int()`: what neither `handle_charref`'s clause nor `feed`'s nor the constructor's accepts leaves -/
theorem covers_necessary_int (code : Code) (c : Err) (hi : catches code.charrefInt c = false)
    (h : okAtFeed code c = false) :
    (constructE code { Prims.silent with tokFeed := fun _ => ([.charref [49]], none), intDec := fun _ => .error c }
      Frame.unit (fun _ => ()) (.str [60])).2 = .error c := by
  unfold okAtFeed okAtCtor at h
  simp only [Bool.or_eq_false_iff] at h
  obtain ⟨h1, h2, h3⟩ := h
  simp [constructE, construct, heuristicsE, heuristics, heuristicsOld, heuristicsGuard, Markup.units, prepareMarkupE,
    retry, attempt, machineE, Frame.unit, assignAll, soupFeedE, builderFeedE, runPhase, handleEventsE, wrapFeed,
    handleCharrefE, charrefNumberE, absorb,
    Prims.silent, Prims.quiet, hi, h1, h2]

example : okAtFeed Code.live .typeError = false := by decide
example : okAtFeed Code.v4130 .valueError = false := by decide
example : catches Code.live.convertFrom .keyboardInterrupt = false := by decide

/-- with `close()` outside the `try` (seeded change C06-r2m1) an `AssertionError` of the second phase escapes -/
theorem close_must_be_guarded :
    predict { Code.live with closeGuarded := false } .tokClose .assertionError = .escapes .assertionError := by decide

/-- with a narrower clause in `_convert_from` (seeded change C06-m2) a `ValueError` of `str()` escapes -/
theorem convert_clause_must_be_broad :
    predict { Code.live with convertFrom := [.unicodeError, .lookupError] } .decode .valueError = .escapes .valueError := by
  decide

/-! ### the earlier models are instances of the envelope model -/

/-- the repaired `handle_charref` of `Construct.lean` is the envelope model at CPython's concrete `int`/`chr`/codecs -/
theorem charref_envelope_live {V : Type} (P : Prims V) (f : Nat → Nat → Dec1) (hP : P.CharrefConcrete f)
    (orig : Option Nat) (name : PStr) :
    handleCharrefE Code.live P orig name = handleCharref (orig.map f) name := by
  unfold handleCharrefE handleCharref
  rw [charrefNumberE_concrete P f hP]
  have key := fun n => handleCharrefE_core P f hP Code.live true rfl rfl orig n
  cases hn : charrefNumber name with
  | error e =>
    have := charrefNumber_error name e hn
    subst this
    have h1 : absorb Code.live.charrefInt (Gen.C06.maxUnicode + 1) (Except.error Err.valueError : Except Err Nat)
        = .ok (Gen.C06.maxUnicode + 1) := by decide
    rw [h1]
    dsimp only
    exact key _
  | ok n =>
    have h1 : absorb Code.live.charrefInt (Gen.C06.maxUnicode + 1) (Except.ok n : Except Err Nat) = .ok n := rfl
    rw [h1]
    dsimp only
    exact key n

/-- … and the 4.13.0 one at the 4.13.0 clauses -/
theorem charref_envelope_v4130 {V : Type} (P : Prims V) (f : Nat → Nat → Dec1) (hP : P.CharrefConcrete f)
    (orig : Option Nat) (name : PStr) :
    handleCharrefE Code.v4130 P orig name = handleCharrefOld (orig.map f) name := by
  unfold handleCharrefE handleCharrefOld
  rw [charrefNumberE_concrete P f hP]
  have key := fun n => handleCharrefE_core P f hP Code.v4130 false rfl rfl orig n
  cases hn : charrefNumber name with
  | error e =>
    have h1 : absorb Code.v4130.charrefInt (Gen.C06.maxUnicode + 1) (Except.error e : Except Err Nat) = .error e := rfl
    rw [h1]
  | ok n =>
    have h1 : absorb Code.v4130.charrefInt (Gen.C06.maxUnicode + 1) (Except.ok n : Except Err Nat) = .ok n := rfl
    rw [h1]
    dsimp only
    exact key n

/-- so every fact about the concrete conversion holds of the envelope model at CPython's behaviour, e.g. `charref_spec`:
    for `str` input the reference stands for `charrefSpec` of its number -/
theorem charref_envelope_spec {V : Type} (P : Prims V) (f : Nat → Nat → Dec1) (hP : P.CharrefConcrete f) (name : PStr)
    (n : Nat) (h : charrefNumber name = .ok n) : handleCharrefE Code.live P none name = .ok (charrefSpec n) := by
  rw [charref_envelope_live P f hP none name]
  exact charref_spec name n h

example : Prims.quiet.CharrefConcrete (fun _ n => .ok [n]) := ⟨rfl, rfl, fun _ _ => rfl, fun _ => rfl, fun _ => rfl⟩
example : handleCharrefE Code.live Prims.quiet none (BS.ofS "150") = .ok [0x2013] := by decide

/-- When nothing on the UnicodeDammit path raises beyond what `_codec`'s and `_convert_from`'s clauses absorb, the
    exception-aware model computes exactly `dammit` of `Construct.lean` on the absorbed view of the primitives … -/
theorem dammit_envelope_refines {V : Type} (code : Code) (P : Prims V) (encs : List Nat)
    (hq : Prims.DammitQuiet code P encs) : dammitE code P = .ok (dammit (Prims.env code P) encs) :=
  dammitE_eq code P encs hq

/-- … hence `dammit_some_of_fallback` carries over: UnicodeDammit ends with text as soon as one candidate other than
    the literal `ascii` decodes with `errors="replace"`, whatever the other candidates' codecs raise -/
theorem dammitE_some_of_fallback {V : Type} (code : Code) (P : Prims V) (encs : List Nat)
    (hq : Prims.DammitQuiet code P encs)
    (h : ∃ e ∈ encs, P.isAscii e = false ∧ ∃ c t, findCodecE code P e = .ok (some c) ∧ P.decode c true = .ok t) :
    ∃ d, dammitE code P = .ok d ∧ d.unicodeMarkup.isSome = true := by
  refine ⟨_, dammitE_eq code P encs hq, ?_⟩
  apply dammit_some_of_fallback
  obtain ⟨e, he, ha, c, t, hf, hd⟩ := h
  exact ⟨e, he, ha, c, t, by simp [Prims.env, hf], by simp [Prims.env, hd]⟩

example : Prims.DammitQuiet Code.live Prims.quiet [1, 2] :=
  ⟨rfl, fun e => ⟨some e, rfl⟩, fun _ _ _ h => by simp [Prims.quiet] at h, rfl⟩

/-! ### `original_encoding` names the codec the document was read as -/

/-- **Repaired `_to_unicode`.** Whatever the candidates, the codecs and the clauses do: when UnicodeDammit ends with a
    result, its `original_encoding` is a name `"".encode(name)` accepts, i.e. a text codec — for data that is empty after
    the byte-order mark by the repair's own check, for any other data because CPython's `str(data, codec, errors)` looks
    the codec up (`hlook`, recorded). -/
theorem original_encoding_is_codec {V : Type} (code : Code) (P : Prims V) (enc : Nat → Except Err Unit) (empty : Bool)
    (hlook : empty = false → ∀ c b u, P.decode c b = .ok u → enc c = .ok ()) (d : DammitResult) (c : Nat)
    (h : dammitE code (P.withEmptyGuard enc empty) = .ok d) (hc : d.originalEncoding = some c) : enc c = .ok () := by
  unfold dammitE at h
  split at h
  · cases h
  · rename_i p1 h1
    have i1 : EncInv enc p1.2 :=
      pass1E_encInv code P enc empty hlook _ {} p1 (by intro c' hc'; cases hc') h1
    split at h
    · cases h
    · rename_i p2 h2
      have i2 : EncInv enc p2.2.2 := by
        split at h2
        · injection h2 with h2; subst h2; exact i1
        · exact pass2E_encInv code P enc empty hlook _ _ _ p2 i1 h2
      split at h
      · injection h with h; subst h; cases hc
      · injection h with h; subst h
        exact i2 c hc

/-- the repair keeps the primitives within the recorded kinds (`LookupError` is a recorded kind of the decode step), so
    `envelope_live` applies to the repaired code unchanged -/
theorem withEmptyGuard_within {V : Type} (P : Prims V) (r : Recorded) (hP : P.Within r) (enc : Nat → Except Err Unit)
    (empty : Bool) (henc : ∀ c x, enc c = .error x → x ∈ r.decode) : (P.withEmptyGuard enc empty).Within r :=
  { hP with
    decode := by
      intro c b x hx
      simp only [Prims.withEmptyGuard, guardedDecode] at hx
      split at hx
      · split at hx
        · rename_i x' he
          injection hx with hx; subst hx
          exact henc c x' he
        · exact hP.decode c b x hx
      · exact hP.decode c b x hx }

/-- a BOM-only document: every `str(b"", name, …)` "succeeds"; candidate 1 is a name that is no codec, candidate 2 the
    byte-order mark's own encoding -/
def bomOnly : Prims Unit := { Prims.silent with cands := [.ok 1, .ok 2], decode := fun _ _ => .ok [] }
def bomOnlyEnc : Nat → Except Err Unit := fun c => if c = 1 then .error .lookupError else .ok ()

/-- witness on the unrepaired form (`BeautifulSoup(b"\xef\xbb\xbf", "html.parser", from_encoding="nosuch")`): the bogus
    name becomes `original_encoding` … -/
theorem original_encoding_old_not_codec :
    (dammitE Code.live bomOnly).map (·.originalEncoding) = .ok (some 1) ∧ bomOnlyEnc 1 = .error .lookupError := by decide

/-- the model mirrors the REPAIRED `_to_unicode`: on BOM-only documents with names that are no text codec the live
    constructor (run by the translator) reports a codec — false of a tree without
    fixes/C06-empty-after-bom-bogus-encoding.diff -/
theorem live_original_encoding_is_codec :
    Gen.C06.liveOriginalEncodingIsCodec.length = 15 ∧ ∀ p ∈ Gen.C06.liveOriginalEncodingIsCodec, p.2 = true := by decide

/-- … and with the repair the bogus name is skipped and the byte-order mark's encoding is reported -/
theorem original_encoding_repaired_falls_through :
    (dammitE Code.live (bomOnly.withEmptyGuard bomOnlyEnc true)).map (·.originalEncoding) = .ok (some 2) := by decide

example : ∀ c b u, bomOnly.decode c b = .ok u → (fun _ : Nat => (Except.ok () : Except Err Unit)) c = .ok () :=
  fun _ _ _ _ => rfl
example : ∀ c x, bomOnlyEnc c = .error x → x ∈ Gen.C06.recorded.decode := by
  intro c x h
  unfold bomOnlyEnc at h
  split at h
  · injection h with h; subst h; decide
  · cases h

/-! ### the object when the constructor returns -/

/-- Whenever the constructor's loop returns normally, for ANY list of strategies: the list splits into rejected
    strategies, the accepted one and a rest never looked at, and the object is exactly a complete clean parse of the
    accepted strategy from the initial object (`endOfInput` run, `markup`/`builder.soup` cleared) — never half-built,
    nothing of the rejected attempts in it. -/
theorem retry_ok_state {V : Type} (m : Machine V) (R H : List Field) (wf : m.WF R H) (o0 : Obj V) (ss : List Strategy)
    (h : (retry m o0 ss).2 = .ok ()) :
    ∃ pre s post, ss = pre ++ s :: post ∧ (∀ r ∈ pre, (attempt m o0 r).2 = .reject) ∧
      (attempt m o0 s).2 = .accept ∧ retry m o0 ss = (assignAll m.finish (attempt m o0 s).1, .ok ()) := by
  -- find the first strategy whose clean attempt does not reject
  have key : ∀ (rest pre : List Strategy), ss = pre ++ rest → (∀ r ∈ pre, (attempt m o0 r).2 = .reject) →
      ∃ pre' s post, ss = pre' ++ s :: post ∧ (∀ r ∈ pre', (attempt m o0 r).2 = .reject) ∧
        (attempt m o0 s).2 = .accept := by
    intro rest
    induction rest with
    | nil =>
      intro pre hs hpre
      exfalso
      rw [List.append_nil] at hs
      subst hs
      have := retry_all_reject m R H wf o0 _ hpre
      rw [this] at h; cases h
    | cons s rest ih =>
      intro pre hs hpre
      cases hso : (attempt m o0 s).2 with
      | accept => exact ⟨pre, s, rest, hs, hpre, hso⟩
      | reject =>
        apply ih (pre ++ [s]) (by rw [hs]; simp)
        intro r hr
        simp only [List.mem_append, List.mem_singleton] at hr
        rcases hr with hr | rfl
        · exact hpre r hr
        · exact hso
      | raise e =>
        exfalso
        have := retry_raise_propagates m R H wf o0 pre s rest e hpre hso
        rw [← hs, h] at this; cases this
  obtain ⟨pre, s, post, hs, hpre, hacc⟩ := key ss [] rfl (by simp)
  exact ⟨pre, s, post, hs, hpre, hacc, by rw [hs]; exact retry_first_accept m R H wf o0 pre s post hpre hacc⟩

/-- **The object the constructor returns, on every call path.** In the envelope model (every primitive free to raise),
    whenever the constructor returns normally the object is exactly `finish` of one complete, accepted, clean attempt of
    a strategy `prepare_markup` yielded, run from the initial object; every strategy before it was rejected. The only
    assumptions are frames: the callbacks write only fields that `reset()`/the loop header re-assign
    (`feed_touches_reassigned` for the live code). -/
theorem constructE_ok_state {V : Type} (code : Code) (P : Prims V) (F : Frame V) (R H : List Field) (hF : F.WF R H)
    (hf : P.Frames (R ++ H)) (o0 : Obj V) (mk : Markup) (h : (constructE code P F o0 mk).2 = .ok ()) :
    ∃ ss pre s post, prepareMarkupE code P mk = .ok ss ∧ ss = pre ++ s :: post ∧
      (∀ r ∈ pre, (attempt (machineE code P F) o0 r).2 = .reject) ∧
      (attempt (machineE code P F) o0 s).2 = .accept ∧
      (constructE code P F o0 mk).1 = assignAll F.finish (attempt (machineE code P F) o0 s).1 := by
  unfold constructE construct at h ⊢
  cases hh : heuristicsE code P mk with
  | error e => simp [hh] at h
  | ok w =>
    simp only [hh] at h ⊢
    cases hp : prepareMarkupE code P mk with
    | error e => simp [hp] at h
    | ok ss =>
      simp only [hp] at h ⊢
      obtain ⟨pre, s, post, hs, hpre, hacc, hret⟩ :=
        retry_ok_state (machineE code P F) R H (machineE_wf code P F R H hF hf) o0 ss h
      exact ⟨ss, pre, s, post, rfl, hs, hpre, hacc, by rw [hret]; rfl⟩

/-- non-vacuity: the quiet behaviour over `Unit` satisfies the frames and returns normally -/
example : Prims.quiet.Frames [] :=
  ⟨fun _ _ => AgreeOff.refl _ _, fun _ _ => AgreeOff.refl _ _, fun _ => AgreeOff.refl _ _⟩
example : Frame.unit.WF [] [] := ⟨fun _ => rfl, fun _ => rfl, fun _ _ _ => rfl⟩

example : ∃ pre s post, [({ markup := [] } : Strategy), { markup := [1, 2] }] = pre ++ s :: post ∧
    (attempt demo (fun _ => 99) s).2 = .accept := ⟨[{ markup := [] }], { markup := [1, 2] }, [], rfl, by decide⟩

/-! ### further non-vacuity: concrete instances of the hypotheses of the theorems above -/

/-- a machine whose second strategy crashes with a foreign exception -/
def demoRaise : Machine Nat :=
  { demo with feed := fun o => if o "markup" == 0 then (o.set "contents" 7, .reject) else (o, .raise .keyError) }

theorem demoRaise_wf : demoRaise.WF ["contents"] ["markup"] where
  headerKeys _ := rfl
  freshKeys _ := rfl
  freshFrame _ _ _ := rfl
  feedFrame o := by
    intro f hf
    have : f ≠ "contents" := fun h => hf (by simp [h])
    simp only [demoRaise]
    split <;> simp [Obj.set, this]

example : (attempt demoRaise (fun _ => 99) { markup := [] }).2 = .reject := by decide
example : (attempt demoRaise (fun _ => 99) { markup := [1] }).2 = .raise .keyError := by decide
example : (retry demoRaise (fun _ => 99) [{ markup := [] }, { markup := [1] }, { markup := [] }]).2 = .error .keyError := by
  decide
example : retryIndex [.reject, .raise .keyError, .accept] 0 = some (1, .raise .keyError) := by decide

example : Gen.C06.fileExtensions.contains (BS.ofS ".txt") = true → heuristicsOld (.str (BS.ofS "notes.txt")) = .ok .filename := by decide
example : handleCharrefOld none (BS.ofS "65") = .ok [65] := by decide
example : charrefNumber (BS.ofS "150") = .ok 150 := by decide
example : charrefNumber (BS.ofS "x1F600") = .ok 0x1F600 := by decide
example : charrefSpec 0x1F600 = [0x1F600] := by decide
example : ∃ e ∈ [1, 2], envDemo.isAscii e = false ∧ ∃ c t, envDemo.codecOf e = some c ∧ envDemo.decode c true = some t :=
  ⟨2, by simp, by decide, 2, [120, 0xFFFD], by decide, by decide⟩

/-- the hypotheses of `tokenizer_escapes`, `decode_escapes`, `generator_escapes` at concrete behaviours -/
def tokTypeError : Prims Unit := { Prims.silent with tokFeed := fun _ => ([], some .typeError) }
example : tokTypeError.resetAll = .ok () ∧ tokTypeError.newParser = .ok () ∧
    (handleEventsE Code.live tokTypeError none (tokTypeError.tokFeed []).1 (fun _ => ())).2 = none ∧
    (tokTypeError.tokFeed []).2 = some .typeError ∧ catches Code.live.feed .typeError = false ∧
    catches Code.live.ctor .typeError = false := by decide
example : (soupFeedE Code.live tokTypeError (fun _ => ())).2 = .raise .typeError := by decide

def decodeInterrupt : Prims Unit := { Prims.silent with decode := fun _ _ => .error .keyboardInterrupt }
example : findCodecE Code.live decodeInterrupt 1 = .ok (some 1) ∧
    decodeInterrupt.decode 1 false = .error .keyboardInterrupt ∧
    catches Code.live.convertFrom .keyboardInterrupt = false := by decide
example : dammitE Code.live decodeInterrupt = .error .keyboardInterrupt := by decide
example : ∃ w, heuristicsE Code.live decodeInterrupt (.bytes [60]) = .ok w := ⟨.none, by decide⟩
example : (constructE Code.live decodeInterrupt Frame.unit (fun _ => ()) (.bytes [60])).2 = .error .keyboardInterrupt := by
  decide

/-- PEP 479 is visible: a `StopIteration` raised by `codecs.lookup` inside the generator reaches the caller as
    `RuntimeError` -/
example : (constructE Code.live { Prims.silent with lookup := fun _ => .error .stopIteration } Frame.unit (fun _ => ())
    (.bytes [60])).2 = .error .runtimeError := by decide

example : ∃ e ∈ [1, 2], Prims.quiet.isAscii e = false ∧ ∃ c t, findCodecE Code.live Prims.quiet e = .ok (some c) ∧
    Prims.quiet.decode c true = .ok t := ⟨1, by simp, rfl, 1, [120], rfl, rfl⟩

/-! ## the parse through the tokenizer MODEL (`Model/Tokenizer.lean`, tied to CPython's `html.parser` by `./check TK`)

`feedClose c text` = `parser.feed(text); parser.close()` under `HTMLParserTreeBuilder.feed`'s `try`, as the composition
tokenizer model → bs4's handlers (`Adapter.toEvents`) → construction machine (`Builder.build`), for EVERY text, every
behaviour of the tokenizer's two standard-library parameters (`html.unescape`, `str.lower`: total functions here — that the
real `html.unescape` can raise `ValueError` stays measured) and every handler/builder configuration. The tokenizer is no
longer a recorded stream or a hypothesis in these statements. -/
section TokenizerModel
open BS.EnvelopeTokenizer BS.Tokenizer

/-- **every text ends in exactly one of {a tree, ParserRejectedMarkup}.** The tokenizer model's only raise is the
    `AssertionError` of `parse_marked_section` (`Flag.err`), which `feed` converts; otherwise the handlers and the
    construction machine — total functions on every callback stream — deliver the finished document, which is `build` of
    the builder events of the text. The model's third outcome (a loop out of fuel) never occurs (`TK.fuel_suffices`). -/
theorem pipeline_outcome (c : PCfg) (text : PStr) :
    ((run c.tp text).flag = .ok ∧
      feedClose c text = .tree (Builder.build c.bcfg (eventsOf c text)) (Adapter.toEvents c.acfg (callbacks (run c.tp text))).2) ∨
    ((run c.tp text).flag = .err ∧ feedClose c text = .rejected) := by
  cases hf : (run c.tp text).flag with
  | ok => left; exact ⟨rfl, (feedClose_tree_iff c text _ _).2 ⟨hf, rfl, rfl⟩⟩
  | err => right; exact ⟨rfl, (feedClose_rejected_iff c text).2 hf⟩
  | stuck => exact absurd hf (run_not_stuck c.tp text)

/-- … and never in the model's `outOfFuel` -/
theorem pipeline_total (c : PCfg) (text : PStr) : feedClose c text ≠ .outOfFuel := feedClose_not_outOfFuel c text

/-- **the tree of every text is well linked and completely closed** (C03's theorems at the builder events of the text,
    whether or not the tokenizer then rejects it): the pointer heap the construction leaves is `Good` (all six link fields
    and the children lists describe one forest), only the BeautifulSoup object is left on the parser's tag stack, and the
    machine's own stacks and text buffer are empty. -/
theorem pipeline_tree_well_linked (c : PCfg) (hc : Builder.CfgOK c.bcfg) (text : PStr) :
    Heap.Good (ParseLink.prun ParseLink.PSt.init (ParseLink.actions c.bcfg (Builder.St.init c.bcfg) (eventsOf c text))).heap ∧
    (ParseLink.prun ParseLink.PSt.init (ParseLink.actions c.bcfg (Builder.St.init c.bcfg) (eventsOf c text))).stack = [0] ∧
    (let st := Builder.finish c.bcfg (Builder.run c.bcfg (Builder.St.init c.bcfg) (eventsOf c text))
     st.stack.length = 1 ∧ st.pws = [] ∧ st.scs = [] ∧ st.buf = []) :=
  ⟨C03.parsed_document_well_linked c.bcfg _, C03.parsed_everything_closed c.bcfg hc _, C03.all_closed c.bcfg hc _⟩

/-- **which texts are rejected — "only if".** A rejected text contains, at some index `i`, `<![` followed by what makes
    `parse_marked_section` raise (`RaisesAt`): a character that is no ASCII letter ("expected name token"), or a name
    `[a-zA-Z][-_.a-zA-Z0-9]*`, optional whitespace and at least one more character, the ASCII-lowered name being none of
    `temp cdata ignore include rcdata if else endif` ("unknown status keyword"). No closing `]>` is needed.
    (Stronger than `TK.error_only_from_marked_section`, which only finds `<![`.) -/
theorem rejected_only_if_marked_section (c : PCfg) (text : PStr) (h : feedClose c text = .rejected) :
    ∃ i, RaisesAt (text.drop i) :=
  run_err_raisesAt c.tp text ((feedClose_rejected_iff c text).1 h)

/-- contrapositive, in the form the harness uses: a text in which no `<![` is followed by a non-letter or by a complete
    unknown keyword is parsed to a tree -/
theorem accepted_if_no_raising_section (c : PCfg) (text : PStr) (h : ∀ i, ¬ RaisesAt (text.drop i)) :
    ∃ docs infos, feedClose c text = .tree docs infos := by
  rcases pipeline_outcome c text with ⟨_, h1⟩ | ⟨_, h2⟩
  · exact ⟨_, _, h1⟩
  · obtain ⟨i, hi⟩ := rejected_only_if_marked_section c text h2
    exact absurd hi (h i)

/-- **exactly which turn raises.** A turn of `goahead`'s loop (either phase) ends in the `AssertionError` if and only if
    the parser is in normal mode — not inside `<script>`/`<style>`, where only `</script>` is looked for — and the first
    `<` or `&` of the remaining buffer starts a suffix with `RaisesAt`. This is the "position the tokenizer reaches in
    markup-declaration context" of the characterisation; the run-level statement `rejected ↔ some turn of the run is such
    a turn` is the part NOT proved (it needs the list of turns of a run as an object; see `rejected_if_plain_prefix` for the
    converse on the first turn). -/
theorem turn_rejects_iff (P : Params) (end_ : Bool) (st : Tokenizer.St) :
    (Tokenizer.step P end_ st).2.2 = some .err ↔ st.cd = none ∧ RaisesAt (st.s.drop (spanLen isPlain st.s)) :=
  step_err_iff P end_ st

/-- **"if", where the offending section is the first markup of the text**: plain text (no `<`, no `&`) followed by a
    suffix with `RaisesAt` is rejected, whatever follows. -/
theorem rejected_if_plain_prefix (c : PCfg) (pre s : PStr) (hpre : ∀ x ∈ pre, isPlain x = true) (hs : RaisesAt s) :
    feedClose c (pre ++ s) = .rejected :=
  (feedClose_rejected_iff c _).2 (run_err_of_plain_prefix c.tp pre s hpre hs)

/-- `parse_marked_section` itself: it raises on a suffix beginning with `<![` exactly under `RaisesAt` -/
theorem marked_section_raises_iff (cd : Option PStr) (s : PStr) :
    (sw [60, 33, 91] s = true ∧ parseMarkedSection cd s = .err) ↔ RaisesAt s := raisesAt_iff cd s

/-- **nothing from a rejected attempt remains**: when the constructor's retry loop is offered the texts `rej`, each of
    which the tokenizer rejects part-way (after any number of callbacks), and then a text that parses, the document is the
    parse of that text alone — whatever state the object was in before and whatever is offered afterwards. (With
    `html.parser`, `prepare_markup` offers one text only; the list form is the builder-agnostic loop of
    `bs4/__init__.py:468-486`, composed with C03 `rejected_strategies_leave_no_trace`.) -/
theorem rejected_texts_leave_no_trace (c : PCfg) (st : Builder.St) (rej : List PStr)
    (hr : ∀ t ∈ rej, feedClose c t = .rejected) (text : PStr) (docs : List Builder.Doc) (infos : List Adapter.StartInfo)
    (ht : feedClose c text = .tree docs infos) (later : List Builder.Attempt) :
    Builder.parseLoop c.bcfg st (rej.map (attemptOf c) ++ attemptOf c text :: later) = some docs := by
  obtain ⟨hok, hdocs, _⟩ := (feedClose_tree_iff c text docs infos).1 ht
  have ha : attemptOf c text = ⟨eventsOf c text, false⟩ := by simp [attemptOf, hok]
  rw [ha, hdocs]
  apply C03.rejected_strategies_leave_no_trace
  intro a hmem
  obtain ⟨t, htm, rfl⟩ := List.mem_map.1 hmem
  simp [attemptOf, (feedClose_rejected_iff c t).1 (hr t htm)]

/-- every text offered is rejected: no document, the caller sees `ParserRejectedMarkup` -/
theorem all_texts_rejected_no_document (c : PCfg) (st : Builder.St) (rej : List PStr)
    (hr : ∀ t ∈ rej, feedClose c t = .rejected) : Builder.parseLoop c.bcfg st (rej.map (attemptOf c)) = none := by
  apply C03.all_rejected_no_document
  intro a hmem
  obtain ⟨t, htm, rfl⟩ := List.mem_map.1 hmem
  simp [attemptOf, (feedClose_rejected_iff c t).1 (hr t htm)]

/-- **the tokenizer hypothesis of the envelope, discharged for the model.** Both phases of the tokenizer model
    (`feed` = `goahead(0)`, `close` = `goahead(1)`) raise nothing but `AssertionError` … -/
theorem tokenizer_model_raises_only_assertion (tp : Params) (text : PStr) (e : Construct.Err) :
    ((tokFeedModel tp text).2 = some e → e = .assertionError) ∧ ((tokCloseModel tp text).2 = some e → e = .assertionError) :=
  tokModel_raises tp text e

/-- … they are the run cut in two (same callbacks in the same order; the run is rejected exactly when a phase raises) … -/
theorem tokenizer_phases_are_run (tp : Params) (text : PStr) :
    ((tokFeedModel tp text).2 = none →
        (tokFeedModel tp text).1 ++ (tokCloseModel tp text).1 = (run tp text).evs.filterMap toEvent ∧
        ((tokCloseModel tp text).2 = some .assertionError ↔ (run tp text).flag = .err)) ∧
    ((tokFeedModel tp text).2 ≠ none →
        (tokFeedModel tp text).1 = (run tp text).evs.filterMap toEvent ∧ (run tp text).flag = .err) :=
  phases_are_run tp text

/-- … so with the tokenizer model in the place of the two tokenizer primitives, **no exception other than
    `ParserRejectedMarkup` escapes the constructor** on any call path, for every `str`/`bytes` markup and every behaviour
    of the REMAINING primitives within the recorded kinds (`P`'s own `tokFeed`/`tokClose` are overwritten; the hypothesis
    about them is met by any quiet value). What stays in the residue for the tokenizer: `html.unescape` inside
    `parse_starttag` raising `ValueError` (a parameter of the model, total here). -/
theorem envelope_live_tokenizer_model {V : Type} (P : Prims V) (hP : P.Within Gen.C06.recorded) (tp : Params)
    (F : Frame V) (o0 : Obj V) (mk : Markup) :
    (constructE Code.live (withTokenizer P tp) F o0 mk).2 = .ok () ∨
    (constructE Code.live (withTokenizer P tp) F o0 mk).2 = .error .parserRejectedMarkup :=
  envelope_live _ (withTokenizer_within P _ hP tp (by decide)) F o0 mk

/-! non-vacuity -/
/-- the sample configuration: `html.unescape` = identity, `str.lower` on ASCII, `br` void, no entities -/
def cX : PCfg :=
  { tp := { unescape := id, lower := asciiLower },
    acfg := { isVoid := fun n => n == BS.ofS "br", dup := .replace, storeLines := true, entity := fun _ => none,
              cp1252 := fun _ => none, origDecode := fun _ => none, maxDigits := 4300 },
    bcfg := C03.cfgX }

example : Builder.CfgOK cX.bcfg := by decide
example : (run cX.tp (BS.ofS "<p>a<br>b</p>")).flag = .ok := by decide
example : Builder.build cX.bcfg (eventsOf cX (BS.ofS "<p>a<br>b")) =
    [.elem (BS.ofS "p") none [.text 0 [97], .elem (BS.ofS "br") none [], .text 0 [98]]] := by rfl
/-- unknown keyword, complete: rejected — after the callbacks for `<p>a` -/
example : (run cX.tp (BS.ofS "<p>a<![foo]>")).flag = .err ∧ (eventsOf cX (BS.ofS "<p>a<![foo]>")).length = 2 := by decide
example : RaisesAt (BS.ofS "<![foo]>") :=
  ⟨rfl, Or.inr ⟨102, [111, 111], [], 93, [62], rfl, by decide, by decide, by simp, by decide, by decide, by decide⟩⟩
example : RaisesAt (BS.ofS "<![ x") := ⟨rfl, Or.inl ⟨32, rfl, by decide⟩⟩
example : feedClose cX (BS.ofS "text <![foo]> more") = .rejected :=
  rejected_if_plain_prefix cX (BS.ofS "text ") (BS.ofS "<![foo]> more") (by decide)
    ⟨rfl, Or.inr ⟨102, [111, 111], [], 93, _, rfl, by decide, by decide, by simp, by decide, by decide, by decide⟩⟩
/-- known keywords (any case), unterminated sections, a keyword running to the end of input, `<![` inside a comment or
    inside `<script>`: not rejected -/
example : ∀ t ∈ ["<![CDATA[x]]>", "<![cdata[x", "<![IF x]>", "<![endif]>", "<![foo", "<![foo ", "<![", "<!--<![foo]>-->",
      "<script><![foo]></script>", "<![CDATA[<![foo]>]]>"], (run cX.tp (BS.ofS t)).flag = .ok := by decide
/-- … and the same sections where the tokenizer does reach them: rejected -/
example : ∀ t ∈ ["<![foo]>", "<![foo x", "<![1]>", "<![]>", "<![ if]>", "<![CDATAX[x]]>", "<![if-x]>", "<!--x--><![foo]>",
      "<script></script><![foo]>", "<![CDATA[x]]><![foo]>", "<a b='<![foo]>'><![foo]>"], (run cX.tp (BS.ofS t)).flag = .err := by
  decide
example : Builder.parseLoop cX.bcfg (Builder.St.init cX.bcfg)
      ([BS.ofS "<p>poison<![foo]>"].map (attemptOf cX) ++ attemptOf cX (BS.ofS "<b>x") :: []) =
    some (Builder.build cX.bcfg (eventsOf cX (BS.ofS "<b>x"))) :=
  rejected_texts_leave_no_trace cX _ [BS.ofS "<p>poison<![foo]>"]
    (by intro t ht; simp at ht; subst ht; exact (feedClose_rejected_iff _ _).2 (by decide)) (BS.ofS "<b>x") _ _
    ((feedClose_tree_iff _ _ _ _).2 ⟨by decide, rfl, rfl⟩) []
example : (constructE Code.live (withTokenizer Prims.quiet cX.tp) Frame.unit (fun _ => ()) (.str (BS.ofS "<p>"))).2 = .ok () := by
  decide
example : (tokFeedModel cX.tp (BS.ofS "<p>&#65;<![foo]>")).1.length = 2 ∧
    (tokFeedModel cX.tp (BS.ofS "<p>&#65;<![foo]>")).2 = some .assertionError := by decide

end TokenizerModel

end BS.Props.C06
