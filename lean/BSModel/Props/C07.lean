import BSModel.Proofs.EncodingIn
import BSModel.Gen.EncodingIn
/-! # C07 — encoding detection follows the documented precedence and decodes exactly

Property theorems only. `encodingsImpl`/`dammit`/`prepareMarkup` are the code-mirror of
`EncodingDetector.encodings`, `UnicodeDammit.__init__` and `HTMLParserTreeBuilder.prepare_markup`
(repaired code, see the model's header); `candidates`/`dammitSpec` are the documented meaning.
Every statement is for ALL inputs and ALL codec oracles `C` (what `codecs.lookup` knows and what
strict / replace decoding return are parameters). -/
namespace BS.Props.C07
open BS BS.EncodingIn

/-! ## the candidate list -/

/-- The generator with its mutable `tried` set, its lower-casing and its exclusion set yields exactly
    the documented list: known definite, BOM, user, declared, utf-8, windows-1252 — minus excluded,
    first occurrence (ignoring case) only. -/
theorem encodings_eq_candidates (known : List Name) (bom : Option Name) (user : List Name)
    (declared : Option Name) (excl : List Name) :
    encodingsImpl known bom user declared excl = candidates known bom user declared excl := by
  rw [encodingsImpl_eq_yieldAll, yieldAll_fst]
  simp [candidates]

example : encodingsImpl [ofS "Latin-1", ofS "utf-8"] (some utf16le) [ofS "LATIN-1", ofS "koi8-r"] (some (ofS "UTF-8"))
    [ofS "koi8-r"] = [ofS "Latin-1", ofS "utf-8", utf16le, ofS "windows-1252"] := by decide

/-- The generated last-ditch list is the documented one, in the documented order. -/
theorem fallback_is_utf8_then_windows1252 :
    Gen.fallbackEncodings = [utf8, ofS "windows-1252"] := by decide +kernel

/-- Candidates come from the sources, in source order (a sublist), and none is excluded. -/
theorem candidates_in_order (known : List Name) (bom : Option Name) (user : List Name)
    (declared : Option Name) (excl : List Name) :
    (candidates known bom user declared excl).Sublist (sources known bom user declared) ∧
    ∀ c ∈ candidates known bom user declared excl, excl.contains (lower c) = false := by
  constructor
  · exact (dedupLower_sublist _).trans List.filter_sublist
  · intro c hc
    have := mem_of_mem_dedupLower hc
    simpa using (List.mem_filter.mp this).2

/-- Each encoding is tried once: no two candidates are equal ignoring case. -/
theorem each_candidate_once (known : List Name) (bom : Option Name) (user : List Name)
    (declared : Option Name) (excl : List Name) :
    (candidates known bom user declared excl).Pairwise (fun a b => lower a ≠ lower b) :=
  dedupLower_pairwise _

/-- Nothing is lost: every source that is not excluded is represented (ignoring case) by a
    candidate, and the representative is the FIRST such source. -/
theorem candidates_complete (known : List Name) (bom : Option Name) (user : List Name)
    (declared : Option Name) (excl : List Name) :
    (∀ x ∈ sources known bom user declared, excl.contains (lower x) = false →
      ∃ c ∈ candidates known bom user declared excl, lower c = lower x) ∧
    (∀ pre x post, sources known bom user declared = pre ++ x :: post → excl.contains (lower x) = false →
      (∀ y ∈ pre, lower y ≠ lower x) → x ∈ candidates known bom user declared excl) := by
  constructor
  · intro x hx he
    exact dedupLower_complete _ x (List.mem_filter.mpr ⟨hx, by rw [he]; rfl⟩)
  · intro pre x post hs he hpre
    unfold candidates
    rw [hs, List.filter_append, List.filter_cons]
    simp only [he, Bool.not_false, if_true]
    exact dedupLower_first _ _ x (fun y hy => hpre y (List.mem_filter.mp hy).1)

example : candidates [ofS "A", ofS "a"] none [] none [] = [ofS "A", utf8, ofS "windows-1252"] := by
  rw [← encodings_eq_candidates]; decide

/-! ## the result of UnicodeDammit -/

/-- Refinement: for non-empty bytes, (unicode_markup, original_encoding,
    contains_replacement_characters) computed by the two loops with `tried_encodings` is the
    documented meaning over the documented candidate list and the BOM-stripped bytes. -/
theorem dammit_eq_spec (C : Codecs) (a : Args) (b : Bytes) (hb : b ≠ []) :
    ((dammit C a (.bytes b)).text, (dammit C a (.bytes b)).originalEncoding,
      (dammit C a (.bytes b)).containsReplacement) =
    dammitSpec C (stripBom b).1
      (candidates (a.known ++ a.override) (stripBom b).2 a.user (findDeclared (stripBom b).1 a.isHtml) (exclSet a)) := by
  have hne : b.isEmpty = false := by cases b <;> simp_all
  have h := (dammitBytes_spec C a (stripBom b).1 (stripBom b).2 (findDeclared (stripBom b).1 a.isHtml)).1
  simp only [detectorEncodings, encodings_eq_candidates] at h
  simpa [dammit, hne] using h

/-- what "decodes under candidate c" means: `find_codec` resolves the name, and the strict (or
    replace) decoder returns a string -/
theorem attempt_iff (C : Codecs) (data : Bytes) (rep : Bool) (c r : Name) (u : PStr) :
    attempt C data rep c = some (r, u) ↔
      findCodec C c = some r ∧ (if rep then C.decodeReplace r data else C.decodeStrict r data) = some u := by
  unfold attempt
  cases findCodec C c with
  | none => simp
  | some r' =>
    simp only [Option.some.injEq]
    split
    · rename_i u' hu
      simp only [Option.some.injEq, Prod.mk.injEq, hu]
      constructor
      · rintro ⟨rfl, rfl⟩; exact ⟨rfl, hu⟩
      · rintro ⟨rfl, h⟩; rw [hu] at h; exact ⟨rfl, Option.some.inj h⟩
    · rename_i hu
      constructor
      · intro h; cases h
      · rintro ⟨rfl, h⟩; rw [hu] at h; cases h

/-- The encoding used is the first candidate, in the documented order, under which the bytes decode
    without error; the text is exactly that decoding of the BOM-stripped bytes; original_encoding is
    the codec name the candidate resolves to; no replacement is flagged. -/
theorem dammit_first_clean (C : Codecs) (a : Args) (b : Bytes) (hb : b ≠ [])
    (pre post : List Name) (c r : Name) (u : PStr)
    (hc : candidates (a.known ++ a.override) (stripBom b).2 a.user (findDeclared (stripBom b).1 a.isHtml) (exclSet a)
      = pre ++ c :: post)
    (hpre : ∀ x ∈ pre, ∀ r', findCodec C x = some r' → C.decodeStrict r' (stripBom b).1 = none)
    (hr : findCodec C c = some r) (hu : C.decodeStrict r (stripBom b).1 = some u) :
    (dammit C a (.bytes b)).text = some u ∧ (dammit C a (.bytes b)).originalEncoding = some r ∧
    (dammit C a (.bytes b)).containsReplacement = false := by
  have h := dammit_eq_spec C a b hb
  rw [hc] at h
  have hf : (pre ++ c :: post).findSome? (attempt C (stripBom b).1 false) = some (r, u) := by
    rw [List.findSome?_append]
    have h1 : pre.findSome? (attempt C (stripBom b).1 false) = none := by
      rw [List.findSome?_eq_none_iff]
      intro x hx
      cases hx' : attempt C (stripBom b).1 false x with
      | none => rfl
      | some ru =>
        obtain ⟨r', u'⟩ := ru
        have := (attempt_iff C _ false x r' u').mp hx'
        have h2 := hpre x hx r' this.1
        simp only [Bool.false_eq_true, if_false] at this
        rw [h2] at this
        cases this.2
    rw [h1]
    have h2 : attempt C (stripBom b).1 false c = some (r, u) := (attempt_iff C _ false c r u).mpr ⟨hr, by simpa using hu⟩
    simp [h2]
  simp only [dammitSpec, hf] at h
  simp only [Prod.mk.injEq] at h
  exact h

/-- contains_replacement_characters is true exactly when no candidate decodes cleanly and some
    candidate other than "ascii" decodes with replacement characters. -/
theorem replacement_iff (C : Codecs) (a : Args) (b : Bytes) (hb : b ≠ []) :
    (dammit C a (.bytes b)).containsReplacement = true ↔
      (∀ c ∈ candidates (a.known ++ a.override) (stripBom b).2 a.user (findDeclared (stripBom b).1 a.isHtml) (exclSet a),
          attempt C (stripBom b).1 false c = none) ∧
      (∃ c ∈ candidates (a.known ++ a.override) (stripBom b).2 a.user (findDeclared (stripBom b).1 a.isHtml) (exclSet a),
          c ≠ ascii ∧ (attempt C (stripBom b).1 true c).isSome) := by
  have h := dammit_eq_spec C a b hb
  generalize candidates (a.known ++ a.override) (stripBom b).2 a.user (findDeclared (stripBom b).1 a.isHtml) (exclSet a) = cands at h
  unfold dammitSpec at h
  cases hf : cands.findSome? (attempt C (stripBom b).1 false) with
  | some ru =>
    obtain ⟨r, u⟩ := ru
    simp only [hf, Prod.mk.injEq] at h
    obtain ⟨c, hc, hcu⟩ := List.exists_of_findSome?_eq_some hf
    rw [h.2.2]
    constructor
    · intro hh; cases hh
    · rintro ⟨hall, _⟩
      rw [hall c hc] at hcu; cases hcu
  | none =>
    simp only [hf, Prod.mk.injEq] at h
    have hall := List.findSome?_eq_none_iff.mp hf
    cases hg : (cands.filter (· != ascii)).findSome? (attempt C (stripBom b).1 true) with
    | some ru =>
      obtain ⟨r, u⟩ := ru
      simp only [hg, Prod.mk.injEq] at h
      obtain ⟨c, hc, hcu⟩ := List.exists_of_findSome?_eq_some hg
      rw [h.2.2]
      simp only [true_iff]
      refine ⟨hall, c, (List.mem_filter.mp hc).1, ?_, by simp [hcu]⟩
      simpa using (List.mem_filter.mp hc).2
    | none =>
      simp only [hg, Prod.mk.injEq] at h
      rw [h.2.2]
      have hnone := List.findSome?_eq_none_iff.mp hg
      constructor
      · intro hh; cases hh
      · rintro ⟨_, c, hc, hne, hs⟩
        have := hnone c (List.mem_filter.mpr ⟨hc, by simpa using hne⟩)
        rw [this] at hs; cases hs

/-- When nothing decodes even with replacement (e.g. everything is excluded) there is no text and no
    original_encoding — the case `prepare_markup` turns into ParserRejectedMarkup. -/
theorem no_text_iff (C : Codecs) (a : Args) (b : Bytes) (hb : b ≠ []) :
    (dammit C a (.bytes b)).text = none ↔
      (∀ c ∈ candidates (a.known ++ a.override) (stripBom b).2 a.user (findDeclared (stripBom b).1 a.isHtml) (exclSet a),
          attempt C (stripBom b).1 false c = none ∧ (c ≠ ascii → attempt C (stripBom b).1 true c = none)) := by
  have h := dammit_eq_spec C a b hb
  generalize candidates (a.known ++ a.override) (stripBom b).2 a.user (findDeclared (stripBom b).1 a.isHtml) (exclSet a) = cands at h
  unfold dammitSpec at h
  cases hf : cands.findSome? (attempt C (stripBom b).1 false) with
  | some ru =>
    obtain ⟨r, u⟩ := ru
    simp only [hf, Prod.mk.injEq] at h
    obtain ⟨c, hc, hcu⟩ := List.exists_of_findSome?_eq_some hf
    rw [h.1]
    constructor
    · intro hh; cases hh
    · intro hall
      rw [(hall c hc).1] at hcu; cases hcu
  | none =>
    simp only [hf, Prod.mk.injEq] at h
    have hall := List.findSome?_eq_none_iff.mp hf
    cases hg : (cands.filter (· != ascii)).findSome? (attempt C (stripBom b).1 true) with
    | some ru =>
      obtain ⟨r, u⟩ := ru
      simp only [hg, Prod.mk.injEq] at h
      obtain ⟨c, hc, hcu⟩ := List.exists_of_findSome?_eq_some hg
      rw [h.1]
      constructor
      · intro hh; cases hh
      · intro hall2
        have hne : c ≠ ascii := by simpa using (List.mem_filter.mp hc).2
        rw [(hall2 c (List.mem_filter.mp hc).1).2 hne] at hcu; cases hcu
    | none =>
      simp only [hg, Prod.mk.injEq] at h
      rw [h.1]
      have hnone := List.findSome?_eq_none_iff.mp hg
      simp only [true_iff]
      intro c hc
      exact ⟨hall c hc, fun hne => hnone c (List.mem_filter.mpr ⟨hc, by simpa using hne⟩)⟩

/-- Each (codec, error mode) pair is attempted at most once: `tried_encodings` has no repeats. -/
theorem each_tried_once (C : Codecs) (a : Args) (m : Markup) : (dammit C a m).tried.Nodup := by
  cases m with
  | str s => simp [dammit]
  | bytes b =>
    unfold dammit
    dsimp only
    split
    · exact List.nodup_nil
    · exact (dammitBytes_spec C a _ _ _).2

/-- str input is passed through untouched, original_encoding None, nothing flagged — whatever the
    arguments and codecs. -/
theorem str_passthrough (C : Codecs) (a : Args) (s : PStr) :
    (dammit C a (.str s)).text = some s ∧ (dammit C a (.str s)).originalEncoding = none ∧
    (dammit C a (.str s)).containsReplacement = false ∧ (dammit C a (.str s)).declaredHtml = none ∧
    ∀ fromEnc excl, prepareMarkup C (.str s) fromEnc excl = .ok s none none false := by
  simp [dammit, prepareMarkup]

/-- The empty byte string gives the empty text (repaired: the unrepaired code gives `"b''"`). -/
theorem empty_bytes (C : Codecs) (a : Args) :
    (dammit C a (.bytes [])).text = some [] ∧ (dammit C a (.bytes [])).originalEncoding = none ∧
    (dammit C a (.bytes [])).containsReplacement = false := by
  simp [dammit]

/-! ## byte-order marks -/

/-- Each of the five byte-order marks is recognised and stripped (for the UTF-16 marks: when the
    following code unit exists and is not 00 00, which is how the code tells them from UTF-32LE). -/
theorem bom_spec (p : Bytes) :
    stripBom ([0xef, 0xbb, 0xbf] ++ p) = (p, some utf8) ∧
    stripBom ([0x00, 0x00, 0xfe, 0xff] ++ p) = (p, some utf32be) ∧
    stripBom ([0xff, 0xfe, 0x00, 0x00] ++ p) = (p, some utf32le) ∧
    (∀ x y, (x, y) ≠ (0, 0) → stripBom ([0xfe, 0xff, x, y] ++ p) = (x :: y :: p, some utf16be)) ∧
    (∀ x y, (x, y) ≠ (0, 0) → stripBom ([0xff, 0xfe, x, y] ++ p) = (x :: y :: p, some utf16le)) := by
  refine ⟨by simp [stripBom], by simp [stripBom], by simp [stripBom], ?_, ?_⟩
  · intro x y h
    have : ¬(x = 0 ∧ y = 0) := fun ⟨a, b⟩ => h (by rw [a, b])
    simp [stripBom, this]
  · intro x y h
    have : ¬(x = 0 ∧ y = 0) := fun ⟨a, b⟩ => h (by rw [a, b])
    simp [stripBom, this]

/-- Whatever `stripBom` does, what is decoded is a suffix of the input, and a name is sniffed only if
    bytes were removed. -/
theorem bom_stripped_suffix (b : Bytes) :
    (∃ k, (stripBom b).1 = b.drop k ∧ ((stripBom b).2 = none → k = 0)) := by
  unfold stripBom
  split
  · exact ⟨2, rfl, fun h => by cases h⟩
  · split
    · exact ⟨2, rfl, fun h => by cases h⟩
    · split
      · exact ⟨3, rfl, fun h => by cases h⟩
      · split
        · exact ⟨4, rfl, fun h => by cases h⟩
        · split
          · exact ⟨4, rfl, fun h => by cases h⟩
          · exact ⟨0, rfl, fun _ => rfl⟩

/-- The model's BOM function agrees with the real `strip_byte_order_mark` on every generated probe
    (all BOM-like prefixes x short payloads, computed from the live code). -/
theorem bom_probes_agree : Gen.bomProbes.all (fun t => stripBom t.1 == (t.2.1, t.2.2)) = true := by
  decide +kernel

/-- With no known-definite encoding, the BOM's encoding is the first candidate (unless excluded). -/
theorem bom_first_candidate (n : Name) (user : List Name) (declared : Option Name) (excl : List Name)
    (h : excl.contains (lower n) = false) :
    ∃ rest, candidates [] (some n) user declared excl = n :: rest := by
  unfold candidates sources
  simp only [List.nil_append, Option.toList_some, List.cons_append, List.filter_cons, h, Bool.not_false, if_true,
    dedupLower_cons]
  exact ⟨_, rfl⟩

example : stripBom [0xff, 0xfe, 0x61, 0x00] = ([0x61, 0x00], some utf16le) := by decide
example : stripBom [0xff, 0xfe, 0x00, 0x00, 0x61, 0, 0, 0] = ([0x61, 0, 0, 0], some utf32le) := by decide

/-! ## UTF-8 by default, and what the constructor adds -/

/-- Bytes that are valid UTF-8, with no contrary indication (no known/override/user encodings, no BOM,
    no declaration, utf-8 not excluded), are decoded as UTF-8. -/
theorem utf8_default (C : Codecs) (a : Args) (b : Bytes) (u : PStr) (hb : b ≠ [])
    (hk : a.known = []) (ho : a.override = []) (hu : a.user = [])
    (hbom : stripBom b = (b, none)) (hdecl : findDeclared b a.isHtml = none)
    (hx : (exclSet a).contains utf8 = false)
    (hex : C.codecExists utf8 = true) (hdec : C.decodeStrict utf8 b = some u) :
    (dammit C a (.bytes b)).text = some u ∧ (dammit C a (.bytes b)).originalEncoding = some utf8 ∧
    (dammit C a (.bytes b)).containsReplacement = false := by
  have hfc : findCodec C utf8 = some utf8 := by
    have h1 : aliasOf utf8 = utf8 := by decide +kernel
    have h2 : lower utf8 = utf8 := by decide
    have h3 : utf8.isEmpty = false := by decide
    simp only [findCodec, codec, h1, h3, hex, h2, Bool.false_eq_true, if_false, if_true]
  have hl : lower utf8 = utf8 := by decide
  have hcands : ∃ rest, candidates (a.known ++ a.override) (stripBom b).2 a.user (findDeclared (stripBom b).1 a.isHtml) (exclSet a)
      = [] ++ utf8 :: rest := by
    rw [hbom]
    simp only [hk, ho, hu, hdecl, candidates, sources, fallback_is_utf8_then_windows1252, List.append_nil, Option.toList_none,
      List.nil_append, List.filter_cons, hl, hx, Bool.not_false, if_true, dedupLower_cons]
    exact ⟨_, rfl⟩
  obtain ⟨rest, hc⟩ := hcands
  refine dammit_first_clean C a b hb [] rest utf8 utf8 u hc (fun x hx => by cases hx) hfc ?_
  rw [hbom]; exact hdec

/-- `BeautifulSoup(bytes, from_encoding=e)`: `e` is the first candidate (known definite), so if the
    bytes decode under it that is the text and `original_encoding` its codec name. -/
theorem from_encoding_first (C : Codecs) (b : Bytes) (e r : Name) (u : PStr) (excl : List Name) (hb : b ≠ [])
    (he : e ≠ []) (hx : (excl.map lower).contains (lower e) = false)
    (hr : findCodec C e = some r) (hu : C.decodeStrict r (stripBom b).1 = some u) :
    ∃ d, prepareMarkup C (.bytes b) (some e) excl = .ok u (some r) d false := by
  have hne : e.isEmpty = false := by cases e <;> simp_all
  let a : Args := { known := [e], user := [], exclude := excl, isHtml := true }
  have hc : ∃ rest, candidates (a.known ++ a.override) (stripBom b).2 a.user (findDeclared (stripBom b).1 a.isHtml) (exclSet a)
      = [] ++ e :: rest := by
    simp only [a, candidates, sources, exclSet, List.append_nil, List.cons_append, List.nil_append, List.filter_cons, hx,
      Bool.not_false, if_true, dedupLower_cons]
    exact ⟨_, rfl⟩
  obtain ⟨rest, hc⟩ := hc
  obtain ⟨h1, h2, h3⟩ := dammit_first_clean C a b hb [] rest e r u hc (fun x hx => by cases hx) hr hu
  refine ⟨(dammit C a (.bytes b)).declaredHtml, ?_⟩
  simp only [prepareMarkup, knownOfFromEncoding, hne, Bool.false_eq_true, if_false]
  show (match (dammit C a (.bytes b)).text with
    | none => Prepared.rejected
    | some t => Prepared.ok t (dammit C a (.bytes b)).originalEncoding (dammit C a (.bytes b)).declaredHtml
        (dammit C a (.bytes b)).containsReplacement) = _
  rw [h1, h2, h3]

/-- The constructor rejects the markup (ParserRejectedMarkup) exactly when UnicodeDammit has no text. -/
theorem prepare_rejected_iff (C : Codecs) (b : Bytes) (fromEnc : Option Name) (excl : List Name) :
    prepareMarkup C (.bytes b) fromEnc excl = .rejected ↔
      (dammit C { known := knownOfFromEncoding fromEnc, user := [], exclude := excl, isHtml := true } (.bytes b)).text = none := by
  unfold prepareMarkup
  dsimp only
  split
  · rename_i h; exact ⟨fun _ => h, fun _ => rfl⟩
  · rename_i t h
    constructor
    · intro h'; cases h'
    · intro h'; rw [h] at h'; cases h'

/-- Rejection really happens: exclude the two last-ditch encodings and give nothing else. -/
example : prepareMarkup ⟨fun _ => true, fun _ _ => some [], fun _ _ => some []⟩ (.bytes [65]) none
    [ofS "UTF-8", ofS "windows-1252"] = .rejected := by decide

/-! ## the declared encoding -/

/-- declared_html_encoding reports what the BOM-stripped document declares, independently of which
    candidate won and of the codecs (repaired behaviour; the unrepaired property returns `None`
    unless the generator got as far as the declaration step); `None` for XML. -/
theorem declared_reported (C : Codecs) (a : Args) (b : Bytes) :
    (dammit C a (.bytes b)).declaredHtml =
      if a.isHtml then findDeclared (stripBom b).1 true else none := by
  have hb : ∀ data bom declared, (dammitBytes C a data bom declared).declaredHtml = if a.isHtml then declared else none := by
    intro data bom declared
    unfold dammitBytes
    dsimp only
    split
    · rfl
    · split <;> rfl
  unfold dammit
  dsimp only
  split
  · cases h : a.isHtml <;> rfl
  · rw [hb]
    cases h : a.isHtml <;> rfl

end BS.Props.C07
