import BSModel.Proofs.EncodingIn
import BSModel.Proofs.EncodingDecl
import BSModel.Proofs.EncodingRx
import BSModel.Proofs.Detwingle
import BSModel.Gen.EncodingIn
/-! # C07 — encoding detection follows the documented precedence and decodes exactly

Property theorems only. `encodingsImpl`/`dammit`/`prepareMarkup` are the code-mirror of
`EncodingDetector.encodings`, `UnicodeDammit.__init__` and `HTMLParserTreeBuilder.prepare_markup`
(repaired code, see the model's header); `candidates`/`dammitSpec` are the documented meaning.
Every statement is for ALL inputs and ALL codec oracles `C` (what `codecs.lookup` knows and what
strict / replace decoding return are parameters). -/
namespace BS.Props.C07
open BS BS.EncodingIn

/-! ## the candidate list -/

/-- The generator with its mutable `tried` set, its lower-casing and its exclusion set yields exactly
    the documented list: known definite, BOM, user, declared, utf-8, windows-1252 — minus excluded,
    first occurrence (ignoring case) only. -/
theorem encodings_eq_candidates (known : List Name) (bom : Option Name) (user : List Name)
    (declared chardet : Option Name) (excl : List Name) :
    encodingsImpl known bom user declared chardet excl = candidates known bom user declared chardet excl := by
  rw [encodingsImpl_eq_yieldAll, yieldAll_fst]
  simp [candidates]

example : encodingsImpl [ofS "Latin-1", ofS "utf-8"] (some utf16le) [ofS "LATIN-1", ofS "koi8-r"] (some (ofS "UTF-8"))
    (some (ofS "Big5")) [ofS "koi8-r"] = [ofS "Latin-1", ofS "utf-8", utf16le, ofS "Big5", ofS "windows-1252"] := by decide

/-- The generated last-ditch list is the documented one, in the documented order. -/
theorem fallback_is_utf8_then_windows1252 :
    Gen.fallbackEncodings = [utf8, ofS "windows-1252"] := by decide +kernel

/-- Candidates come from the sources, in source order (a sublist), and none is excluded. -/
theorem candidates_in_order (known : List Name) (bom : Option Name) (user : List Name)
    (declared chardet : Option Name) (excl : List Name) :
    (candidates known bom user declared chardet excl).Sublist (sources known bom user declared chardet) ∧
    ∀ c ∈ candidates known bom user declared chardet excl, excl.contains (lower c) = false := by
  constructor
  · exact (dedupLower_sublist _).trans List.filter_sublist
  · intro c hc
    have := mem_of_mem_dedupLower hc
    simpa using (List.mem_filter.mp this).2

/-- Each encoding is tried once: no two candidates are equal ignoring case. -/
theorem each_candidate_once (known : List Name) (bom : Option Name) (user : List Name)
    (declared chardet : Option Name) (excl : List Name) :
    (candidates known bom user declared chardet excl).Pairwise (fun a b => lower a ≠ lower b) :=
  dedupLower_pairwise _

/-- Nothing is lost: every source that is not excluded is represented (ignoring case) by a
    candidate, and the representative is the FIRST such source. -/
theorem candidates_complete (known : List Name) (bom : Option Name) (user : List Name)
    (declared chardet : Option Name) (excl : List Name) :
    (∀ x ∈ sources known bom user declared chardet, excl.contains (lower x) = false →
      ∃ c ∈ candidates known bom user declared chardet excl, lower c = lower x) ∧
    (∀ pre x post, sources known bom user declared chardet = pre ++ x :: post → excl.contains (lower x) = false →
      (∀ y ∈ pre, lower y ≠ lower x) → x ∈ candidates known bom user declared chardet excl) := by
  constructor
  · intro x hx he
    exact dedupLower_complete _ x (List.mem_filter.mpr ⟨hx, by rw [he]; rfl⟩)
  · intro pre x post hs he hpre
    unfold candidates
    rw [hs, List.filter_append, List.filter_cons]
    simp only [he, Bool.not_false, if_true]
    exact dedupLower_first _ _ x (fun y hy => hpre y (List.mem_filter.mp hy).1)

example : candidates [ofS "A", ofS "a"] none [] none none [] = [ofS "A", utf8, ofS "windows-1252"] := by
  rw [← encodings_eq_candidates]; decide

/-! ## the result of UnicodeDammit -/

/-- Refinement: for non-empty bytes, (unicode_markup, original_encoding,
    contains_replacement_characters) computed by the two loops with `tried_encodings` is the
    documented meaning over the documented candidate list and the BOM-stripped bytes. -/
theorem dammit_eq_spec (C : Codecs) (a : Args) (b : Bytes) (hb : b ≠ []) :
    ((dammit C a (.bytes b)).text, (dammit C a (.bytes b)).originalEncoding,
      (dammit C a (.bytes b)).containsReplacement) =
    dammitSpec C (stripBom b).1
      (candidatesOf C a b) := by
  have hne : b.isEmpty = false := by cases b <;> simp_all
  have h := (dammitBytes_spec C a (stripBom b).1 (stripBom b).2 (findDeclared (stripBom b).1 a.isHtml)).1
  simp only [detectorEncodings, encodings_eq_candidates] at h
  simpa [dammit, hne, candidatesOf] using h

/-- what "decodes under candidate c" means: `find_codec` resolves the name, and the strict (or
    replace) decoder returns a string -/
theorem attempt_iff (C : Codecs) (data : Bytes) (rep : Bool) (c r : Name) (u : PStr) :
    attempt C data rep c = some (r, u) ↔
      findCodec C c = some r ∧ (if rep then C.decodeReplace r data else C.decodeStrict r data) = some u := by
  unfold attempt
  cases findCodec C c with
  | none => simp
  | some r' =>
    simp only [Option.some.injEq]
    split
    · rename_i u' hu
      simp only [Option.some.injEq, Prod.mk.injEq, hu]
      constructor
      · rintro ⟨rfl, rfl⟩; exact ⟨rfl, hu⟩
      · rintro ⟨rfl, h⟩; rw [hu] at h; exact ⟨rfl, Option.some.inj h⟩
    · rename_i hu
      constructor
      · intro h; cases h
      · rintro ⟨rfl, h⟩; rw [hu] at h; cases h

/-- The encoding used is the first candidate, in the documented order, under which the bytes decode
    without error; the text is exactly that decoding of the BOM-stripped bytes; original_encoding is
    the codec name the candidate resolves to; no replacement is flagged. -/
theorem dammit_first_clean (C : Codecs) (a : Args) (b : Bytes) (hb : b ≠ [])
    (pre post : List Name) (c r : Name) (u : PStr)
    (hc : candidatesOf C a b
      = pre ++ c :: post)
    (hpre : ∀ x ∈ pre, ∀ r', findCodec C x = some r' → C.decodeStrict r' (stripBom b).1 = none)
    (hr : findCodec C c = some r) (hu : C.decodeStrict r (stripBom b).1 = some u) :
    (dammit C a (.bytes b)).text = some u ∧ (dammit C a (.bytes b)).originalEncoding = some r ∧
    (dammit C a (.bytes b)).containsReplacement = false := by
  have h := dammit_eq_spec C a b hb
  rw [hc] at h
  have hf : (pre ++ c :: post).findSome? (attempt C (stripBom b).1 false) = some (r, u) := by
    rw [List.findSome?_append]
    have h1 : pre.findSome? (attempt C (stripBom b).1 false) = none := by
      rw [List.findSome?_eq_none_iff]
      intro x hx
      cases hx' : attempt C (stripBom b).1 false x with
      | none => rfl
      | some ru =>
        obtain ⟨r', u'⟩ := ru
        have := (attempt_iff C _ false x r' u').mp hx'
        have h2 := hpre x hx r' this.1
        simp only [Bool.false_eq_true, if_false] at this
        rw [h2] at this
        cases this.2
    rw [h1]
    have h2 : attempt C (stripBom b).1 false c = some (r, u) := (attempt_iff C _ false c r u).mpr ⟨hr, by simpa using hu⟩
    simp [h2]
  simp only [dammitSpec, hf] at h
  simp only [Prod.mk.injEq] at h
  exact h

/-- contains_replacement_characters is true exactly when no candidate decodes cleanly and some
    candidate other than "ascii" decodes with replacement characters. -/
theorem replacement_iff (C : Codecs) (a : Args) (b : Bytes) (hb : b ≠ []) :
    (dammit C a (.bytes b)).containsReplacement = true ↔
      (∀ c ∈ candidatesOf C a b,
          attempt C (stripBom b).1 false c = none) ∧
      (∃ c ∈ candidatesOf C a b,
          c ≠ ascii ∧ (attempt C (stripBom b).1 true c).isSome) := by
  have h := dammit_eq_spec C a b hb
  generalize candidatesOf C a b = cands at h
  unfold dammitSpec at h
  cases hf : cands.findSome? (attempt C (stripBom b).1 false) with
  | some ru =>
    obtain ⟨r, u⟩ := ru
    simp only [hf, Prod.mk.injEq] at h
    obtain ⟨c, hc, hcu⟩ := List.exists_of_findSome?_eq_some hf
    rw [h.2.2]
    constructor
    · intro hh; cases hh
    · rintro ⟨hall, _⟩
      rw [hall c hc] at hcu; cases hcu
  | none =>
    simp only [hf, Prod.mk.injEq] at h
    have hall := List.findSome?_eq_none_iff.mp hf
    cases hg : (cands.filter (· != ascii)).findSome? (attempt C (stripBom b).1 true) with
    | some ru =>
      obtain ⟨r, u⟩ := ru
      simp only [hg, Prod.mk.injEq] at h
      obtain ⟨c, hc, hcu⟩ := List.exists_of_findSome?_eq_some hg
      rw [h.2.2]
      simp only [true_iff]
      refine ⟨hall, c, (List.mem_filter.mp hc).1, ?_, by simp [hcu]⟩
      simpa using (List.mem_filter.mp hc).2
    | none =>
      simp only [hg, Prod.mk.injEq] at h
      rw [h.2.2]
      have hnone := List.findSome?_eq_none_iff.mp hg
      constructor
      · intro hh; cases hh
      · rintro ⟨_, c, hc, hne, hs⟩
        have := hnone c (List.mem_filter.mpr ⟨hc, by simpa using hne⟩)
        rw [this] at hs; cases hs

/-- When nothing decodes even with replacement (e.g. everything is excluded) there is no text and no
    original_encoding — the case `prepare_markup` turns into ParserRejectedMarkup. -/
theorem no_text_iff (C : Codecs) (a : Args) (b : Bytes) (hb : b ≠ []) :
    (dammit C a (.bytes b)).text = none ↔
      (∀ c ∈ candidatesOf C a b,
          attempt C (stripBom b).1 false c = none ∧ (c ≠ ascii → attempt C (stripBom b).1 true c = none)) := by
  have h := dammit_eq_spec C a b hb
  generalize candidatesOf C a b = cands at h
  unfold dammitSpec at h
  cases hf : cands.findSome? (attempt C (stripBom b).1 false) with
  | some ru =>
    obtain ⟨r, u⟩ := ru
    simp only [hf, Prod.mk.injEq] at h
    obtain ⟨c, hc, hcu⟩ := List.exists_of_findSome?_eq_some hf
    rw [h.1]
    constructor
    · intro hh; cases hh
    · intro hall
      rw [(hall c hc).1] at hcu; cases hcu
  | none =>
    simp only [hf, Prod.mk.injEq] at h
    have hall := List.findSome?_eq_none_iff.mp hf
    cases hg : (cands.filter (· != ascii)).findSome? (attempt C (stripBom b).1 true) with
    | some ru =>
      obtain ⟨r, u⟩ := ru
      simp only [hg, Prod.mk.injEq] at h
      obtain ⟨c, hc, hcu⟩ := List.exists_of_findSome?_eq_some hg
      rw [h.1]
      constructor
      · intro hh; cases hh
      · intro hall2
        have hne : c ≠ ascii := by simpa using (List.mem_filter.mp hc).2
        rw [(hall2 c (List.mem_filter.mp hc).1).2 hne] at hcu; cases hcu
    | none =>
      simp only [hg, Prod.mk.injEq] at h
      rw [h.1]
      have hnone := List.findSome?_eq_none_iff.mp hg
      simp only [true_iff]
      intro c hc
      exact ⟨hall c hc, fun hne => hnone c (List.mem_filter.mpr ⟨hc, by simpa using hne⟩)⟩

/-- Each (codec, error mode) pair is attempted at most once: `tried_encodings` has no repeats. -/
theorem each_tried_once (C : Codecs) (a : Args) (m : Markup) : (dammit C a m).tried.Nodup := by
  cases m with
  | str s => simp [dammit]
  | bytes b =>
    unfold dammit
    dsimp only
    split
    · exact List.nodup_nil
    · exact (dammitBytes_spec C a _ _ _).2

/-- str input is passed through untouched, original_encoding None, nothing flagged — whatever the
    arguments and codecs. -/
theorem str_passthrough (C : Codecs) (a : Args) (s : PStr) :
    (dammit C a (.str s)).text = some s ∧ (dammit C a (.str s)).originalEncoding = none ∧
    (dammit C a (.str s)).containsReplacement = false ∧ (dammit C a (.str s)).declaredHtml = none ∧
    ∀ fromEnc excl, prepareMarkup C (.str s) fromEnc excl = .ok s none none false := by
  simp [dammit, prepareMarkup, prepareMarkupFull]

/-- The empty byte string gives the empty text (repaired: the unrepaired code gives `"b''"`). -/
theorem empty_bytes (C : Codecs) (a : Args) :
    (dammit C a (.bytes [])).text = some [] ∧ (dammit C a (.bytes [])).originalEncoding = none ∧
    (dammit C a (.bytes [])).containsReplacement = false := by
  simp [dammit]

/-! ## byte-order marks -/

/-- Each of the five byte-order marks is recognised and stripped, for EVERY payload `p` — including
    the empty one and a single byte (repaired). The only proviso is the one that tells UTF-16 from
    UTF-32LE: a UTF-16 mark is not followed by the two bytes 00 00. -/
theorem bom_spec (p : Bytes) :
    stripBom ([0xef, 0xbb, 0xbf] ++ p) = (p, some utf8) ∧
    stripBom ([0x00, 0x00, 0xfe, 0xff] ++ p) = (p, some utf32be) ∧
    stripBom ([0xff, 0xfe, 0x00, 0x00] ++ p) = (p, some utf32le) ∧
    (p.take 2 ≠ [0, 0] → stripBom ([0xfe, 0xff] ++ p) = (p, some utf16be)) ∧
    (p.take 2 ≠ [0, 0] → stripBom ([0xff, 0xfe] ++ p) = (p, some utf16le)) := by
  refine ⟨by simp [stripBom], by simp [stripBom], by simp [stripBom], ?_, ?_⟩
  · intro h
    simp [stripBom, h]
  · intro h
    simp [stripBom, h]

/-- An empty UTF-16 document that consists of its byte-order mark alone is the empty text under
    UTF-16 (the mark is stripped and its encoding sniffed). -/
theorem bom_only_utf16 :
    stripBom [0xff, 0xfe] = ([], some utf16le) ∧ stripBom [0xfe, 0xff] = ([], some utf16be) ∧
    ∀ x, stripBom [0xff, 0xfe, x] = ([x], some utf16le) ∧ stripBom [0xfe, 0xff, x] = ([x], some utf16be) := by
  refine ⟨by decide, by decide, fun x => ?_⟩
  have h := bom_spec [x]
  exact ⟨h.2.2.2.2 (by simp), h.2.2.2.1 (by simp)⟩

/-- Witness of the repaired defect: with the old `len(data) >= 4` test the same inputs kept their
    mark and no encoding was sniffed (so they fell through to windows-1252, "ÿþ"); on four or more
    bytes the old and the repaired function agree. -/
theorem old_length_test_missed_short_utf16 :
    stripBomOld [0xff, 0xfe] = ([0xff, 0xfe], none) ∧ stripBomOld [0xfe, 0xff] = ([0xfe, 0xff], none) ∧
    (∀ x, stripBomOld [0xff, 0xfe, x] = ([0xff, 0xfe, x], none)) ∧
    ∀ b : Bytes, 4 ≤ b.length → stripBomOld b = stripBom b := by
  refine ⟨by decide, by decide, ?_, ?_⟩
  · intro x
    simp [stripBomOld]
  · intro b hb
    simp [stripBomOld, stripBom, hb]

/-- Whatever `stripBom` does, what is decoded is a suffix of the input, and a name is sniffed only if
    bytes were removed. -/
theorem bom_stripped_suffix (b : Bytes) :
    (∃ k, (stripBom b).1 = b.drop k ∧ ((stripBom b).2 = none → k = 0)) := by
  unfold stripBom
  split
  · exact ⟨2, rfl, fun h => by cases h⟩
  · split
    · exact ⟨2, rfl, fun h => by cases h⟩
    · split
      · exact ⟨3, rfl, fun h => by cases h⟩
      · split
        · exact ⟨4, rfl, fun h => by cases h⟩
        · split
          · exact ⟨4, rfl, fun h => by cases h⟩
          · exact ⟨0, rfl, fun _ => rfl⟩

/-- The model's BOM function agrees with the real `strip_byte_order_mark` on every generated probe
    (all BOM-like prefixes x short payloads, computed from the live code). -/
theorem bom_probes_agree : Gen.bomProbes.all (fun t => stripBom t.1 == (t.2.1, t.2.2)) = true := by
  decide +kernel

/-- With no known-definite encoding, the BOM's encoding is the first candidate (unless excluded). -/
theorem bom_first_candidate (n : Name) (user : List Name) (declared chardet : Option Name) (excl : List Name)
    (h : excl.contains (lower n) = false) :
    ∃ rest, candidates [] (some n) user declared chardet excl = n :: rest := by
  unfold candidates sources
  simp only [List.nil_append, Option.toList_some, List.cons_append, List.filter_cons, h, Bool.not_false, if_true,
    dedupLower_cons]
  exact ⟨_, rfl⟩

example : stripBom [0xff, 0xfe, 0x61, 0x00] = ([0x61, 0x00], some utf16le) := by decide
example : stripBom [0xff, 0xfe] = ([], some utf16le) := by decide
example : stripBom [0xff, 0xfe, 0x00, 0x00, 0x61, 0, 0, 0] = ([0x61, 0, 0, 0], some utf32le) := by decide

/-! ## UTF-8 by default, and what the constructor adds -/

/-- Bytes that are valid UTF-8, with no contrary indication (no known/override/user encodings, no BOM,
    no declaration, no guess from a chardet-like library, utf-8 not excluded), are decoded as UTF-8. -/
theorem utf8_default (C : Codecs) (a : Args) (b : Bytes) (u : PStr) (hb : b ≠ [])
    (hk : a.known = []) (ho : a.override = []) (hu : a.user = [])
    (hbom : stripBom b = (b, none)) (hdecl : findDeclared b a.isHtml = none) (hch : C.chardet b = none)
    (hx : (exclSet a).contains utf8 = false)
    (hex : C.codecExists utf8 = true) (hdec : C.decodeStrict utf8 b = some u) :
    (dammit C a (.bytes b)).text = some u ∧ (dammit C a (.bytes b)).originalEncoding = some utf8 ∧
    (dammit C a (.bytes b)).containsReplacement = false := by
  have hfc : findCodec C utf8 = some utf8 := by
    have h1 : aliasOf utf8 = utf8 := by decide +kernel
    have h2 : lower utf8 = utf8 := by decide
    have h3 : utf8.isEmpty = false := by decide
    simp only [findCodec, codec, h1, h3, hex, h2, Bool.false_eq_true, if_false, if_true]
  have hl : lower utf8 = utf8 := by decide
  have hcands : ∃ rest, candidatesOf C a b
      = [] ++ utf8 :: rest := by
    unfold candidatesOf
    rw [hbom]
    simp only [hk, ho, hu, hdecl, hch, candidates, sources, fallback_is_utf8_then_windows1252, List.append_nil, Option.toList_none,
      List.nil_append, List.filter_cons, hl, hx, Bool.not_false, if_true, dedupLower_cons]
    exact ⟨_, rfl⟩
  obtain ⟨rest, hc⟩ := hcands
  refine dammit_first_clean C a b hb [] rest utf8 utf8 u hc (fun x hx => by cases hx) hfc ?_
  rw [hbom]; exact hdec

/-- `BeautifulSoup(bytes, from_encoding=e)`: `e` is the first candidate (known definite), so if the
    bytes decode under it that is the text and `original_encoding` its codec name. -/
theorem from_encoding_first (C : Codecs) (b : Bytes) (e r : Name) (u : PStr) (excl : List Name) (hb : b ≠ [])
    (he : e ≠ []) (hx : (excl.map lower).contains (lower e) = false)
    (hr : findCodec C e = some r) (hu : C.decodeStrict r (stripBom b).1 = some u) :
    ∃ d, prepareMarkup C (.bytes b) (some e) excl = .ok u (some r) d false := by
  have hne : e.isEmpty = false := by cases e <;> simp_all
  let a : Args := { known := [e], user := [], exclude := excl, isHtml := true }
  have hc : ∃ rest, candidatesOf C a b
      = [] ++ e :: rest := by
    simp only [a, candidatesOf, candidates, sources, exclSet, List.append_nil, List.cons_append, List.nil_append, List.filter_cons, hx,
      Bool.not_false, if_true, dedupLower_cons]
    exact ⟨_, rfl⟩
  obtain ⟨rest, hc⟩ := hc
  obtain ⟨h1, h2, h3⟩ := dammit_first_clean C a b hb [] rest e r u hc (fun x hx => by cases hx) hr hu
  refine ⟨(dammit C a (.bytes b)).declaredHtml, ?_⟩
  simp only [prepareMarkup, prepareMarkupFull, knownOfFromEncoding, hne, Bool.false_eq_true, if_false]
  show (match (dammit C a (.bytes b)).text with
    | none => Prepared.rejected
    | some t => Prepared.ok t (dammit C a (.bytes b)).originalEncoding (dammit C a (.bytes b)).declaredHtml
        (dammit C a (.bytes b)).containsReplacement) = _
  rw [h1, h2, h3]

/-- The constructor rejects the markup (ParserRejectedMarkup) exactly when UnicodeDammit has no text. -/
theorem prepare_rejected_iff (C : Codecs) (b : Bytes) (fromEnc : Option Name) (excl : List Name) :
    prepareMarkup C (.bytes b) fromEnc excl = .rejected ↔
      (dammit C { known := knownOfFromEncoding fromEnc, user := [], exclude := excl, isHtml := true } (.bytes b)).text = none := by
  unfold prepareMarkup prepareMarkupFull
  dsimp only [knownOfFromEncoding]
  split
  · rename_i h; exact ⟨fun _ => h, fun _ => rfl⟩
  · rename_i t h
    constructor
    · intro h'; cases h'
    · intro h'; rw [h] at h'; cases h'

/-- Rejection really happens: exclude the two last-ditch encodings and give nothing else. -/
example : prepareMarkup ⟨fun _ => true, fun _ _ => some [], fun _ _ => some [], fun _ => none⟩ (.bytes [65]) none
    [ofS "UTF-8", ofS "windows-1252"] = .rejected := by decide

/-- The deprecated `fromEncoding=` keyword means exactly what `from_encoding=` means, also when an empty
    `from_encoding` is given next to it. (Giving BOTH with a non-empty `from_encoding` is outside the
    model: the `or` short-circuits, the deprecated keyword stays among the builder's keyword arguments
    and the TreeBuilder constructor raises TypeError.) -/
theorem deprecated_fromEncoding_alias (C : Codecs) (m : Markup) (e : Name) (excl : List Name) :
    constructorPrepare C m none (some e) excl = constructorPrepare C m (some e) none excl ∧
    constructorPrepare C m (some []) (some e) excl = constructorPrepare C m (some e) none excl := by
  cases he : e.isEmpty <;> simp [constructorPrepare, effectiveFromEncoding, he, prepareMarkup, prepareMarkupFull, knownOfFromEncoding]

/-- FILE-LIKE INPUT. Handing the constructor a file-like object (binary or text file handle, BytesIO,
    StringIO, anything with `read`) gives exactly what handing it the content gives: in particular
    `from_encoding` / `fromEncoding` is honoured for bytes that arrive through a file handle (the
    "Unicode markup" test looks at the argument before it is read, and a handle is not a str), and is
    still ignored for text. -/
theorem file_like_same_as_direct (C : Codecs) (m : Markup) (fe old : Option Name) (excl : List Name) :
    constructorPrepareArg C (.fileLike m) fe old excl = constructorPrepareArg C (.direct m) fe old excl ∧
    constructorPrepareArg C (.direct m) fe old excl = constructorPrepare C m fe old excl := by
  cases m with
  | str s => simp [constructorPrepareArg, constructorPrepare, MarkupArg.content, prepareMarkup, prepareMarkupFull]
  | bytes b => simp [constructorPrepareArg, constructorPrepare, MarkupArg.content]

/-- … so for bytes behind a file handle `from_encoding` is still the first candidate. -/
theorem from_encoding_first_file_like (C : Codecs) (b : Bytes) (e r : Name) (u : PStr) (excl : List Name) (hb : b ≠ [])
    (he : e ≠ []) (hx : (excl.map lower).contains (lower e) = false)
    (hr : findCodec C e = some r) (hu : C.decodeStrict r (stripBom b).1 = some u) :
    ∃ d, constructorPrepareArg C (.fileLike (.bytes b)) (some e) none excl = .ok u (some r) d false := by
  have hne : e.isEmpty = false := by cases e <;> simp_all
  obtain ⟨d, hd⟩ := from_encoding_first C b e r u excl hb he hx hr hu
  exact ⟨d, by rw [(file_like_same_as_direct C _ _ _ _).1, (file_like_same_as_direct C _ _ _ _).2]; simpa [constructorPrepare, effectiveFromEncoding, hne] using hd⟩

/-! ## the declared encoding -/

/-- declared_html_encoding reports what the BOM-stripped document declares, independently of which
    candidate won and of the codecs (repaired behaviour; the unrepaired property returns `None`
    unless the generator got as far as the declaration step); `None` for XML. -/
theorem declared_reported (C : Codecs) (a : Args) (b : Bytes) :
    (dammit C a (.bytes b)).declaredHtml =
      if a.isHtml then findDeclared (stripBom b).1 true else none := by
  have hb : ∀ data bom declared, (dammitBytes C a data bom declared).declaredHtml = if a.isHtml then declared else none := by
    intro data bom declared
    unfold dammitBytes
    dsimp only
    split
    · rfl
    · split <;> rfl
  unfold dammit
  dsimp only
  split
  · cases h : a.isHtml <;> rfl
  · rw [hb]
    cases h : a.isHtml <;> rfl

/-! ### the declaration regexes

`Rx.findDeclaredRx` is the code-mirror of `find_declared_encoding`: Python's `re` search (module
`Model/EncodingRx.lean`: backtracking matcher for the fragment of the regex language the two patterns
use) over the patterns GENERATED from the live `xml_encoding` / `html_meta` sources, with the two
`endpos` windows. `findDeclared` (used by `dammit`) is the hand-written matcher. They are equal on
every input (`declared_regex_refinement`), so every statement below holds of the regex mirror.
What remains outside Lean: that `Rx.search` is what CPython's `re` computes on this fragment — tied
by the `rx` correspondence stream (random patterns of the fragment, bytes and str, versus `re`). -/

/-- REFINEMENT. `find_declared_encoding` as a regex search over the generated patterns (bytes
    flavour) is the hand-written matcher used by the model of UnicodeDammit — for EVERY byte string. -/
theorem declared_regex_refinement (markup : Bytes) (isHtml : Bool) :
    Rx.findDeclaredRx false markup isHtml false = findDeclared markup isHtml :=
  Rx.findDeclaredRx_eq markup isHtml

/-- The generated pattern data (from `re._parser` on the live sources) is what the proofs are about:
    `^\s*<\?.*encoding=['"](.*?)['"].*\?>` and `<\s*meta[^>]+charset\s*=\s*["']?([^>]*?)[ /;'">]`. -/
theorem patterns_are_the_live_ones :
    (Gen.c07XmlAnchored = true ∧ Gen.c07XmlAtoms = Rx.xmlAtomsH) ∧
    (Gen.c07HtmlAnchored = false ∧ Gen.c07HtmlAtoms = Rx.htmlAtomsH) :=
  ⟨Rx.gen_xml_eq, Rx.gen_html_eq⟩

/-- How the two flavours differ on ASCII (whole generated tables, kernel-decided): the str `\s` is the
    bytes `\s` plus the four separators U+001C..U+001F; the case folding of the patterns' literals is
    the same (the str flavour's extra matches — `ſ` for `s`, `ı`/`İ` for `i` — are all non-ASCII). -/
theorem str_flavor_vs_bytes_flavor_on_ascii :
    (List.range 128).all (fun x => Rx.strFlavor.space x == (Rx.bytesFlavor.space x || (28 ≤ x && x ≤ 31))) = true ∧
    (Gen.c07CiTable.all fun e => (List.range 128).all fun x =>
      Rx.strFlavor.ci e.1 x == Rx.bytesFlavor.ci e.1 x) = true := by
  constructor <;> decide +kernel

/-- The result does not depend on anything after the search window: two documents of the same length
    that agree on the first `max(2048, len/20)` characters declare the same encoding — both flavours. -/
theorem declared_window_independent (isStr : Bool) (m1 m2 : List Nat) (isHtml : Bool)
    (hlen : m1.length = m2.length)
    (hw : m1.take (max 2048 (m1.length / 20)) = m2.take (max 2048 (m1.length / 20))) :
    Rx.findDeclaredRx isStr m1 isHtml false = Rx.findDeclaredRx isStr m2 isHtml false := by
  have h1024 : m1.take 1024 = m2.take 1024 := by
    have h1 : m1.take 1024 = (m1.take (max 2048 (m1.length / 20))).take 1024 := by
      rw [List.take_take]; congr 1; omega
    have h2 : m2.take 1024 = (m2.take (max 2048 (m1.length / 20))).take 1024 := by
      rw [List.take_take]; congr 1; omega
    rw [h1, h2, hw]
  unfold Rx.findDeclaredRx Rx.search
  simp only [Bool.false_eq_true, if_false, h1024, ← hlen, hw]

/-- … in particular for the matcher inside `dammit`. -/
theorem declared_window_independent_bytes (m1 m2 : Bytes) (isHtml : Bool) (hlen : m1.length = m2.length)
    (hw : m1.take (max 2048 (m1.length / 20)) = m2.take (max 2048 (m1.length / 20))) :
    findDeclared m1 isHtml = findDeclared m2 isHtml := by
  rw [← declared_regex_refinement, ← declared_regex_refinement]
  exact declared_window_independent false m1 m2 isHtml hlen hw

example : findDeclared (ofS "<meta charset=x>" ++ List.replicate 3000 120 ++ ofS "<meta charset=a>") true
    = findDeclared (ofS "<meta charset=x>" ++ List.replicate 3000 120 ++ ofS "<meta charset=b>") true := by
  apply declared_window_independent_bytes
  · decide +kernel
  · decide +kernel

/-- Nothing is found when the markers are absent: no `<?` at the start (after white space) of the
    first 1024 bytes — or no `encoding=` there — and no `<`+`meta` — or no `charset` — in the HTML window. -/
theorem nothing_declared_without_markers (markup : Bytes) (isHtml : Bool)
    (hxml : (∀ rest, (markup.take 1024).dropWhile isSpace ≠ 60 :: 63 :: rest) ∨
            containsCI litEncodingEq (markup.take 1024) = false)
    (hhtml : hasMetaOpen (markup.take (max 2048 (markup.length / 20))) = false ∨
             containsCI litCharset (markup.take (max 2048 (markup.length / 20))) = false) :
    findDeclared markup isHtml = none ∧ Rx.findDeclaredRx false markup isHtml false = none := by
  have hx : xmlMatch markup = none := by
    unfold xmlMatch
    rcases hxml with h | h
    · split
      · rename_i rest heq; exact absurd heq (h rest)
      · rfl
    · split
      · rename_i rest heq
        apply lastEncoding_none_of_no_encoding
        have h1 := containsCI_dropWhile litEncodingEq _ isSpace h
        rw [heq] at h1
        have h2 : containsCI litEncodingEq rest = false := by
          simp only [containsCI, Bool.or_eq_false_iff] at h1; exact h1.2.2
        -- the line is a prefix of `rest`
        clear heq h1 h
        induction rest with
        | nil => simpa using h2
        | cons c t ih =>
          simp only [containsCI, Bool.or_eq_false_iff] at h2
          simp only [List.takeWhile_cons]
          split
          · simp only [containsCI, Bool.or_eq_false_iff]
            refine ⟨?_, ih h2.2⟩
            have := Rx.startsCI_line litEncodingEq (by decide) (c :: t)
            unfold Rx.line at this
            simp only [List.takeWhile_cons] at this
            rename_i hc
            simp only [hc, if_true] at this
            rw [this]; exact h2.1
          · rfl
      · rfl
  have hh : htmlSearch (markup.take (max 2048 (markup.length / 20))) = none := by
    rcases hhtml with h | h
    · exact htmlSearch_none_of_no_meta _ h
    · exact htmlSearch_none_of_no_charset _ h
  have : findDeclared markup isHtml = none := by
    unfold findDeclared
    simp only [hx, hh]
    cases isHtml <;> rfl
  exact ⟨this, by rw [declared_regex_refinement]; exact this⟩

example : findDeclared (ofS "<html><head><title>charset and meta, but no tag</title></head>") true = none :=
  (nothing_declared_without_markers _ true (Or.inr (by decide)) (Or.inl (by decide))).1

/-- Both flavours, both `search_entire_document` settings: a text without any `<` declares nothing
    (in the str flavour too only `<` itself matches the literal `<` — decided over the generated
    case-folding table). -/
theorem nothing_declared_without_lt (isStr : Bool) (markup : List Nat) (isHtml entire : Bool)
    (h : ∀ x ∈ markup, x ≠ 60) : Rx.findDeclaredRx isStr markup isHtml entire = none :=
  Rx.findDeclaredRx_none_of_no_lt isStr markup isHtml entire h

example : Rx.findDeclaredRx true (ofS "charset=utf-8 encoding='x' ?> meta") true true = none :=
  nothing_declared_without_lt _ _ _ _ (by decide)

/-- THE XML DECLARATION WINS. When the XML-declaration pattern matches (within its 1024 bytes), its group
    decides — whatever `<meta>` tags the document also carries, for HTML and XML alike (an empty name
    means "nothing declared", and the `<meta>` is still not consulted). The `<meta>` pattern is
    consulted only when the XML pattern does not match, and only for HTML. Stated for the regex mirror
    (`Rx.search` over the generated patterns), hence by `declared_regex_refinement` for the model's matcher. -/
theorem xml_declaration_wins (markup : Bytes) (isHtml : Bool) :
    (∀ g, Rx.search Rx.bytesFlavor Rx.xmlPattern markup 1024 = some g →
      Rx.findDeclaredRx false markup isHtml false = if g.isEmpty then none else some (lower (asciiReplace g))) ∧
    (Rx.search Rx.bytesFlavor Rx.xmlPattern markup 1024 = none →
      Rx.findDeclaredRx false markup isHtml false =
        if isHtml then
          match Rx.search Rx.bytesFlavor Rx.htmlPattern markup (max 2048 (markup.length / 20)) with
          | some g => if g.isEmpty then none else some (lower (asciiReplace g))
          | none => none
        else none) := by
  constructor
  · intro g hg
    simp [Rx.findDeclaredRx, hg]
  · intro hn
    cases isHtml
    · simp [Rx.findDeclaredRx, hn]
    · simp only [Rx.findDeclaredRx, hn, Bool.false_eq_true, if_false, if_true]
      cases Rx.search Rx.bytesFlavor Rx.htmlPattern markup (max 2048 (markup.length / 20)) <;> rfl

-- an XHTML page whose XML declaration and <meta> disagree: the XML declaration is reported, in both modes
example : findDeclared (ofS "<?xml version=\"1.0\" encoding=\"iso-8859-2\"?>\n<html><head><meta charset=\"iso-8859-1\"></head>") true
      = some (ofS "iso-8859-2") ∧
    findDeclared (ofS "<html><head><meta charset=\"iso-8859-1\"></head><?xml version=\"1.0\" encoding=\"iso-8859-2\"?>") true
      = some (ofS "iso-8859-1") ∧
    findDeclared (ofS "<html><head><meta charset=\"iso-8859-1\"></head><?xml version=\"1.0\" encoding=\"iso-8859-2\"?>") false
      = none := by decide +kernel

/-! #### well-formed declarations inside the window are found -/

/-- `<?xml … encoding="NAME" …?>` at the start (after optional white space) and within the first
    1024 bytes: NAME is quote-free, the rest of the line (`after`: e.g. `?>`, ` standalone="yes"?>`,
    `?><html lang="en">`) contains `?>` and no further `encoding=`, and the line ends with the input or
    a newline. The declared encoding is NAME lower-cased — for XML and HTML documents alike, by the
    hand-written matcher AND by the regex mirror. -/
theorem declared_of_wellformed_xml (ws pre name after tail : Bytes) (q1 q2 : Nat) (isHtml : Bool)
    (hws : ∀ c ∈ ws, isSpace c = true) (hpre : ∀ c ∈ pre, c ≠ 10)
    (hq1 : isQuote q1 = true) (hq2 : isQuote q2 = true) (hne : name ≠ [])
    (hn : ∀ c ∈ name, isQuote c = false ∧ c ≠ 10)
    (ha : ∀ c ∈ after, c ≠ 10) (hqm : containsQmGt after = true)
    (hno : containsCI litEncodingEq (name ++ q2 :: after) = false)
    (ht : tail = [] ∨ ∃ r, tail = 10 :: r)
    (hlen : (ws ++ 60 :: 63 :: (pre ++ (litEncodingEq ++ q1 :: (name ++ q2 :: after)))).length ≤ 1024) :
    findDeclared (ws ++ 60 :: 63 :: (pre ++ (litEncodingEq ++ q1 :: (name ++ q2 :: after))) ++ tail) isHtml
      = some (lower (asciiReplace name)) ∧
    Rx.findDeclaredRx false (ws ++ 60 :: 63 :: (pre ++ (litEncodingEq ++ q1 :: (name ++ q2 :: after))) ++ tail) isHtml false
      = some (lower (asciiReplace name)) := by
  have hne' : name.isEmpty = false := by cases name <;> simp_all
  have h : findDeclared (ws ++ 60 :: 63 :: (pre ++ (litEncodingEq ++ q1 :: (name ++ q2 :: after))) ++ tail) isHtml
      = some (lower (asciiReplace name)) := by
    unfold findDeclared
    rw [xmlMatch_decl_gen ws pre name after tail q1 q2 hws hpre hq1 hq2 hn ha hqm hno ht hlen]
    simp [hne']
  exact ⟨h, by rw [declared_regex_refinement]; exact h⟩

example : findDeclared (ofS "<?xml version=\"1.0\" encoding=\"KOI8-R\"?>\n<a/>") false = some (ofS "koi8-r") := by decide

/-- `<meta … charset=NAME…>`: covers `<meta charset="NAME">`, unquoted, `/>`-closed,
    `<meta http-equiv=… content="text/html; charset=NAME">`, and further attributes after the value
    (`<meta charset="NAME" id="x">`). Hypotheses: no XML declaration in front; every earlier `<` opens
    something that is visibly not `<meta`; the tag (through its `>`) lies within the first 2048 bytes;
    NAME has no closing-class character and no white space; what follows the value up to `>` starts
    with a closing-class character and does not contain `charset` again. -/
theorem declared_of_wellformed_meta (pre mid qs name close rest : Bytes) (m0 : Nat)
    (hxml : xmlMatch (pre ++ 60 :: (litMeta ++ m0 :: (mid ++ (litCharset ++ 61 :: (qs ++ (name ++ (close ++ [62])))))) ++ rest) = none)
    (hpre : tagsNotMeta pre = true)
    (hm0 : m0 ≠ 62) (hmid : ∀ c ∈ mid, c ≠ 62)
    (hqs : qs = [] ∨ ∃ q, qs = [q] ∧ isQuote q = true) (hne : name ≠ [])
    (hn : ∀ c ∈ name, isTerm c = false ∧ isSpace c = false)
    (hclose : ∀ c ∈ close, c ≠ 62)
    (hno : containsCI litCharset (qs ++ name ++ close) = false)
    (hterm : close = [] ∨ ∃ t r, close = t :: r ∧ isTerm t = true)
    (hlen : (pre ++ 60 :: (litMeta ++ m0 :: (mid ++ (litCharset ++ 61 :: (qs ++ (name ++ (close ++ [62]))))))).length ≤ 2048) :
    findDeclared (pre ++ 60 :: (litMeta ++ m0 :: (mid ++ (litCharset ++ 61 :: (qs ++ (name ++ (close ++ [62])))))) ++ rest) true
      = some (lower (asciiReplace name)) ∧
    Rx.findDeclaredRx false (pre ++ 60 :: (litMeta ++ m0 :: (mid ++ (litCharset ++ 61 :: (qs ++ (name ++ (close ++ [62])))))) ++ rest) true false
      = some (lower (asciiReplace name)) := by
  have hne' : name.isEmpty = false := by cases name <;> simp_all
  have h : findDeclared (pre ++ 60 :: (litMeta ++ m0 :: (mid ++ (litCharset ++ 61 :: (qs ++ (name ++ (close ++ [62])))))) ++ rest) true
      = some (lower (asciiReplace name)) := by
    unfold findDeclared
    rw [hxml]
    simp only [if_true]
    have hle : (pre ++ 60 :: (litMeta ++ m0 :: (mid ++ (litCharset ++ 61 :: (qs ++ (name ++ (close ++ [62]))))))).length
        ≤ max 2048 ((pre ++ 60 :: (litMeta ++ m0 :: (mid ++ (litCharset ++ 61 :: (qs ++ (name ++ (close ++ [62])))))) ++ rest).length / 20) :=
      Nat.le_trans hlen (Nat.le_max_left _ _)
    rw [take_append_le _ _ _ hle]
    generalize rest.take _ = rest'
    have hre : pre ++ 60 :: (litMeta ++ m0 :: (mid ++ (litCharset ++ 61 :: (qs ++ (name ++ (close ++ [62])))))) ++ rest'
        = pre ++ 60 :: (litMeta ++ m0 :: (mid ++ (litCharset ++ 61 :: (qs ++ (name ++ (close ++ 62 :: rest')))))) := by
      simp [List.append_assoc]
    rw [hre, htmlSearch_skip pre _ hpre, htmlSearch]
    simp only [beq_self_eq_true, if_true]
    rw [metaAt_decl_gen m0 mid qs name close rest' hm0 hmid hqs hne hn hclose hno hterm]
    simp [hne']
  exact ⟨h, by rw [declared_regex_refinement]; exact h⟩

example : findDeclared (ofS "<html><head><meta http-equiv=\"Content-Type\" content=\"text/html; charset=Shift_JIS\"></head>") true
    = some (ofS "shift_jis") := by decide
example : findDeclared (ofS "<html><head><meta charset='x-sjis' /></head>") true = some (ofS "x-sjis") := by decide
/-- in an XML document a `<meta>` declaration is not looked at -/
example : findDeclared (ofS "<html><head><meta charset='x-sjis' /></head>") false = none := by decide

/-- so declared_html_encoding reports a well-formed `<meta>` declaration whatever the arguments,
    whatever encoding wins and whatever the codecs do (false of the unrepaired code) -/
theorem declared_html_encoding_of_meta (C : Codecs) (a : Args) (doc name : Bytes) (ha : a.isHtml = true)
    (hbom : stripBom doc = (doc, none)) (hd : findDeclared doc true = some (lower (asciiReplace name))) :
    (dammit C a (.bytes doc)).declaredHtml = some (lower (asciiReplace name)) := by
  rw [declared_reported, ha, hbom]
  simpa using hd

/-- utf-8 and ascii exist and decode (strictly) exactly the 7-bit strings -/
def toy : Codecs where
  codecExists n := n == utf8 || n == ascii
  decodeStrict n b := if (n == utf8 || n == ascii) && b.all (· < 128) then some b else none
  decodeReplace n b := if n == utf8 || n == ascii then some (b.map fun c => if c < 128 then c else 0xFFFD) else none

/-! ## find_codec -/

/-- Over the whole generated alias table: no key and no target is empty, and every entry is lower-case. -/
theorem alias_table_well_formed :
    Gen.charsetAliases.all (fun kv => !kv.1.isEmpty && !kv.2.isEmpty && lower kv.1 == kv.1 && lower kv.2 == kv.2) = true := by
  decide +kernel

/-- `find_codec` spelled out: the first of (alias, dashes removed, dashes as underscores) that is a
    non-empty name `codecs.lookup` knows — else the name itself; always lower-cased. -/
theorem findCodec_spec (C : Codecs) (c : Name) (hc : c ≠ []) :
    findCodec C c = some (lower (([aliasOf c, replaceDash [] c, replaceDash [95] c].find?
      (fun v => !v.isEmpty && C.codecExists v)).getD c)) := by
  have hne : c.isEmpty = false := by cases c <;> simp_all
  have hcodec : ∀ v, codec C v = if (!v.isEmpty && C.codecExists v) = true then some v else none := by
    intro v
    unfold codec
    cases v.isEmpty <;> cases C.codecExists v <;> rfl
  unfold findCodec
  simp only [hcodec, List.find?_cons, List.find?_nil, hne, Bool.false_eq_true, if_false]
  by_cases h1 : (!(aliasOf c).isEmpty && C.codecExists (aliasOf c)) = true
  · simp only [h1, if_true, Option.getD_some]
  · simp only [h1, Bool.false_eq_true, if_false]
    by_cases h2 : (!(replaceDash [] c).isEmpty && C.codecExists (replaceDash [] c)) = true
    · simp only [h2, if_true, Option.getD_some]
    · simp only [h2, Bool.false_eq_true, if_false]
      by_cases h3 : (!(replaceDash [95] c).isEmpty && C.codecExists (replaceDash [95] c)) = true
      · simp only [h3, if_true, Option.getD_some]
      · simp only [h3, Bool.false_eq_true, if_false, Option.getD_none, lower_idem]

/-- Only the empty name has no codec name; every answer is lower-case (so `original_encoding` is). -/
theorem findCodec_none_iff_empty (C : Codecs) (c : Name) :
    (findCodec C c = none ↔ c = []) ∧ ∀ r, findCodec C c = some r → lower r = r := by
  constructor
  · constructor
    · intro h
      cases c with
      | nil => rfl
      | cons x t => rw [findCodec_spec C (x :: t) (by simp)] at h; cases h
    · intro h
      subst h
      have : aliasOf [] = [] := by decide +kernel
      simp [findCodec, codec, this]
  · intro r h
    cases c with
    | nil =>
      have : aliasOf [] = [] := by decide +kernel
      simp [findCodec, codec, this] at h
    | cons x t =>
      rw [findCodec_spec C (x :: t) (by simp)] at h
      cases h
      exact lower_idem _

example : findCodec toy (ofS "UTF-8") = some utf8 ∧ findCodec toy (ofS "u-t-f-8") = some (ofS "u-t-f-8") ∧
    findCodec ⟨fun n => n == ofS "utf8", fun _ _ => none, fun _ _ => none, fun _ => none⟩ (ofS "UTF-8") = some (ofS "utf-8") ∧
    findCodec ⟨fun n => n == ofS "utf8", fun _ _ => none, fun _ _ => none, fun _ => none⟩ (ofS "ut-f8") = some (ofS "utf8") := by decide +kernel

/-! ## EncodingDetector on a str -/

/-- `EncodingDetector(str, …).encodings` is the documented list with no BOM step and no chardet step,
    the declaration being looked for by the str flavour of the patterns. -/
theorem encodings_str_eq_candidates (a : Args) (s : PStr) :
    Rx.detectorEncodingsStr a s =
      candidates (a.known ++ a.override) none a.user (Rx.findDeclaredRx true s a.isHtml) none (exclSet a) := by
  unfold Rx.detectorEncodingsStr detectorEncodings
  exact encodings_eq_candidates _ _ _ _ _ _

example : Rx.detectorEncodingsStr { isHtml := true } (ofS "<meta char" ++ [0x17F] ++ ofS "et=KOI8-R>") = [ofS "koi8-r", utf8, windows1252] := by
  decide +kernel

/-! ## documents that are empty after their byte-order mark -/

/-- A BOM-only document (`stripBom b = ([], some n)`) with one known-definite name `x` that is not a text
    encoding accepting the empty input (unknown name, `hex`, `undefined`, …): `x` is skipped and the BOM's own
    encoding names the result — exactly as for a document with content. (Instance of `dammit_first_clean`;
    false of the unrepaired `_to_unicode`, see the witness below.) -/
theorem bom_only_skips_what_is_not_a_codec (C : Codecs) (a : Args) (b : Bytes) (x n r : Name) (hb : b ≠ [])
    (hbom : stripBom b = ([], some n)) (hk : a.known = [x]) (ho : a.override = [])
    (hxn : lower x ≠ lower n) (hex : (exclSet a).contains (lower x) = false) (hen : (exclSet a).contains (lower n) = false)
    (hbad : ∀ r', findCodec C x = some r' → C.decodeStrict r' [] = none)
    (hr : findCodec C n = some r) (hok : C.decodeStrict r [] = some []) :
    (dammit C a (.bytes b)).text = some [] ∧ (dammit C a (.bytes b)).originalEncoding = some r ∧
    (dammit C a (.bytes b)).containsReplacement = false := by
  have hc : ∃ rest, candidatesOf C a b = [x] ++ n :: rest := by
    unfold candidatesOf candidates sources
    rw [hbom]
    have hnx : (lower n != lower x) = true := by simpa using Ne.symm hxn
    simp only [hk, ho, List.append_nil, List.cons_append, List.nil_append, Option.toList_some, List.filter_cons, hex, hen,
      Bool.not_false, if_true, dedupLower_cons, hnx]
    exact ⟨_, rfl⟩
  obtain ⟨rest, hc⟩ := hc
  have h := dammit_first_clean C a b hb [x] rest n r [] hc
    (fun y hy r' hr' => by
      simp only [List.mem_singleton] at hy
      subst hy
      rw [hbom]; exact hbad r' hr')
    hr (by rw [hbom]; exact hok)
  exact h

/-- WITNESS of the repaired defect: under the oracle the unrepaired code effectively saw (CPython's
    empty-input fast path), the bogus name wins and becomes `original_encoding`; under the real oracle the
    BOM's encoding does. -/
theorem old_empty_remainder_took_any_name :
    (dammit (withEmptyFastPath toy) { known := [ofS "nosuch"] } (.bytes [0xef, 0xbb, 0xbf])).originalEncoding = some (ofS "nosuch") ∧
    (dammit toy { known := [ofS "nosuch"] } (.bytes [0xef, 0xbb, 0xbf])).originalEncoding = some utf8 ∧
    (dammit (withEmptyFastPath toy) { known := [ofS "hex"], exclude := [utf8, windows1252] } (.bytes [0xff, 0xfe, 0, 0])).originalEncoding
      = some (ofS "hex") := by decide +kernel

example : True := by
  have := bom_only_skips_what_is_not_a_codec toy { known := [ofS "nosuch"] } [0xef, 0xbb, 0xbf] (ofS "nosuch") utf8 utf8 (by decide)
    (by decide) rfl rfl (by decide) (by decide) (by decide) (by decide) (by decide) (by decide)
  trivial

/-! ## UnicodeDammit always produces text (for lawful codecs), and where the result comes from -/

/-- Over the WHOLE generated alias table: no key is (a spelling of) one of the two last-ditch names,
    so those are never redirected. -/
theorem alias_keys_are_not_the_fallbacks :
    Gen.charsetAliases.all (fun kv => lower kv.1 != utf8 && lower kv.1 != windows1252) = true := by
  decide +kernel

/-- Any spelling (case) of utf-8 / windows-1252 resolves to the lower-case name, given that
    `codecs.lookup` ignores case and knows the two. -/
theorem fallback_resolves (C : Codecs) (L : Lawful C) (c : Name) (h : lower c = utf8 ∨ lower c = windows1252) :
    findCodec C c = some (lower c) := by
  have hal : aliasOf c = c := by
    unfold aliasOf
    cases hl : Gen.charsetAliases.lookup c with
    | none => rfl
    | some v =>
      have hm := lookup_some_mem _ _ _ hl
      have := List.all_eq_true.mp alias_keys_are_not_the_fallbacks _ hm
      simp only [Bool.and_eq_true, bne_iff_ne, ne_eq] at this
      rcases h with h | h
      · exact absurd h this.1
      · exact absurd h this.2
  have hne : c.isEmpty = false := by
    cases c with
    | nil => rcases h with h | h <;> cases h
    | cons x t => rfl
  have hex : C.codecExists c = true := by
    rw [L.lookup_ignores_case]
    rcases h with h | h
    · rw [h]; exact L.utf8_exists
    · rw [h]; exact L.cp1252_exists
  simp only [findCodec, codec, hal, hne, hex, Bool.false_eq_true, if_false, if_true]

/-- TOTALITY. For lawful codecs, a non-empty byte string always gets a text unless BOTH last-ditch
    encodings are excluded: whatever the arguments, the BOM, the declaration, the chardet guess. -/
theorem dammit_total (C : Codecs) (L : Lawful C) (a : Args) (b : Bytes) (hb : b ≠ [])
    (hx : (exclSet a).contains utf8 = false ∨ (exclSet a).contains windows1252 = false) :
    (dammit C a (.bytes b)).text.isSome = true := by
  cases ht : (dammit C a (.bytes b)).text with
  | some t => rfl
  | none =>
    exfalso
    have hall := (no_text_iff C a b hb).mp ht
    have key : ∀ n : Name, (n = utf8 ∨ n = windows1252) → lower n = n → (exclSet a).contains n = false →
        (∀ d, (C.decodeReplace n d).isSome = true) → False := by
      intro n hn hln hxn htot
      have hsrc : n ∈ sources (a.known ++ a.override) (stripBom b).2 a.user (findDeclared (stripBom b).1 a.isHtml)
          (C.chardet (stripBom b).1) := by
        unfold sources
        rw [fallback_is_utf8_then_windows1252]
        apply List.mem_append_right
        rcases hn with rfl | rfl
        · exact List.mem_cons_self
        · exact List.mem_cons_of_mem _ List.mem_cons_self
      obtain ⟨c, hc, hlc⟩ := (candidates_complete _ _ _ _ _ _).1 n hsrc (by rw [hln]; exact hxn)
      rw [hln] at hlc
      have hres : findCodec C c = some n := by
        have := fallback_resolves C L c (by rcases hn with rfl | rfl; exact Or.inl hlc; exact Or.inr hlc)
        rw [hlc] at this; exact this
      have hasc : c ≠ ascii := by
        intro h; subst h
        rcases hn with rfl | rfl <;> revert hlc <;> decide
      have h2 := (hall c hc).2 hasc
      obtain ⟨u, hu⟩ := Option.isSome_iff_exists.mp (htot (stripBom b).1)
      have : attempt C (stripBom b).1 true c = some (n, u) := (attempt_iff C _ true c n u).mpr ⟨hres, by simpa using hu⟩
      rw [this] at h2; cases h2
    rcases hx with hx | hx
    · exact key utf8 (Or.inl rfl) (by decide) hx L.utf8_replace_total
    · exact key windows1252 (Or.inr rfl) (by decide) hx L.cp1252_replace_total

/-- … hence `prepare_markup` (and the BeautifulSoup constructor) never raises ParserRejectedMarkup for
    lawful codecs unless both last-ditch encodings are excluded. -/
theorem prepare_never_rejects (C : Codecs) (L : Lawful C) (m : Markup) (fromEnc docDecl : Option Name) (excl : List Name)
    (hx : (excl.map lower).contains utf8 = false ∨ (excl.map lower).contains windows1252 = false) :
    prepareMarkupFull C m fromEnc docDecl excl ≠ .rejected := by
  cases m with
  | str s => simp [prepareMarkupFull]
  | bytes b =>
    unfold prepareMarkupFull
    dsimp only
    by_cases hb : b = []
    · subst hb
      have : (dammit C { known := knownOfFromEncoding fromEnc, user := knownOfFromEncoding docDecl, exclude := excl, isHtml := true }
          (.bytes [])).text = some [] := (empty_bytes C _).1
      rw [this]; simp
    · have := dammit_total C L { known := knownOfFromEncoding fromEnc, user := knownOfFromEncoding docDecl, exclude := excl, isHtml := true }
        b hb hx
      obtain ⟨t, ht⟩ := Option.isSome_iff_exists.mp this
      rw [ht]; simp

/-- a lawful toy: utf-8, windows-1252 and ascii in any case; strict decoding accepts 7-bit strings only -/
def toyLawful : Codecs where
  codecExists n := lower n == utf8 || lower n == windows1252 || lower n == ascii
  decodeStrict n b := if (n == utf8 || n == windows1252 || n == ascii) && b.all (· < 128) then some b else none
  decodeReplace n b := if n == utf8 || n == windows1252 || n == ascii then some (b.map fun c => if c < 128 then c else 0xFFFD) else none

theorem toyLawful_is_lawful : Lawful toyLawful where
  lookup_ignores_case n := by simp [toyLawful, lower_idem]
  utf8_exists := by decide
  cp1252_exists := by decide
  utf8_replace_total d := by simp [toyLawful]
  cp1252_replace_total d := by simp [toyLawful, windows1252, utf8]

/-- "No contrary indication", at full strength: if EVERY indication that is present — known definite,
    override and user encodings, the BOM, the declaration, the chardet guess — names UTF-8 (in any
    spelling of case), utf-8 is not excluded and the codecs are lawful, then bytes that are valid UTF-8
    are decoded as UTF-8, `original_encoding == "utf-8"`, no replacement flagged. (`utf8_default` is the
    case where there is no indication at all, and needs no codec laws beyond utf-8 existing.) -/
theorem utf8_when_every_indication_is_utf8 (C : Codecs) (L : Lawful C) (a : Args) (b : Bytes) (u : PStr) (hb : b ≠ [])
    (hall : ∀ x ∈ (a.known ++ a.override) ++ (stripBom b).2.toList ++ a.user ++
        (findDeclared (stripBom b).1 a.isHtml).toList ++ (C.chardet (stripBom b).1).toList, lower x = utf8)
    (hx : (exclSet a).contains utf8 = false)
    (hdec : C.decodeStrict utf8 (stripBom b).1 = some u) :
    (dammit C a (.bytes b)).text = some u ∧ (dammit C a (.bytes b)).originalEncoding = some utf8 ∧
    (dammit C a (.bytes b)).containsReplacement = false := by
  -- the first candidate is a spelling of utf-8
  have hfirst : ∃ c rest, candidatesOf C a b = [] ++ c :: rest ∧ lower c = utf8 := by
    unfold candidatesOf candidates sources
    rw [fallback_is_utf8_then_windows1252]
    generalize (a.known ++ a.override) ++ (stripBom b).2.toList ++ a.user ++
        (findDeclared (stripBom b).1 a.isHtml).toList ++ (C.chardet (stripBom b).1).toList = ind at hall
    cases ind with
    | nil =>
      have hl : lower utf8 = utf8 := by decide
      simp only [List.nil_append, List.filter_cons, hl, hx, Bool.not_false, if_true, dedupLower_cons]
      exact ⟨utf8, _, rfl, hl⟩
    | cons x t =>
      have hlx := hall x List.mem_cons_self
      simp only [List.cons_append, List.nil_append, List.filter_cons, hlx, hx, Bool.not_false, if_true, dedupLower_cons]
      exact ⟨x, _, rfl, hlx⟩
  obtain ⟨c, rest, hc, hlc⟩ := hfirst
  have hres : findCodec C c = some utf8 := by
    have := fallback_resolves C L c (Or.inl hlc)
    rw [hlc] at this; exact this
  exact dammit_first_clean C a b hb [] rest c utf8 u hc (fun x hx => by cases hx) hres hdec

-- a UTF-8 BOM, `known_definite_encodings=["UTF-8"]` and a `<meta charset=utf-8>` are no contrary indication
example : True := by
  have := utf8_when_every_indication_is_utf8 toyLawful toyLawful_is_lawful { known := [ofS "UTF-8"], isHtml := true }
    ([0xef, 0xbb, 0xbf] ++ ofS "<meta charset=utf-8>") (ofS "<meta charset=utf-8>") (by decide) (by decide +kernel) (by decide) (by decide +kernel)
  trivial

/-- "VALID UTF-8" MADE CONCRETE. `BS.Detwingle.decodeUtf8` is the strict UTF-8 decoder of Unicode Table 3-7
    (model of property C19, proved there to accept exactly the encodings of lists of scalar values, and
    compared there with CPython's). If the codec oracle's strict utf-8 decoding is that decoder, then for
    EVERY text `s` of Unicode scalar values: when what remains after BOM stripping is the UTF-8 encoding
    of `s` and every present indication says UTF-8, UnicodeDammit returns `s` itself, as utf-8, unflagged. -/
theorem valid_utf8_text_is_recovered (C : Codecs) (L : Lawful C) (a : Args) (b : Bytes) (s : PStr) (hb : b ≠ [])
    (hdecoder : ∀ d, C.decodeStrict utf8 d = Detwingle.decodeUtf8 d)
    (hs : ∀ c ∈ s, Detwingle.IsScalar c) (henc : (stripBom b).1 = Detwingle.utf8 s)
    (hall : ∀ x ∈ (a.known ++ a.override) ++ (stripBom b).2.toList ++ a.user ++
        (findDeclared (stripBom b).1 a.isHtml).toList ++ (C.chardet (stripBom b).1).toList, lower x = utf8)
    (hx : (exclSet a).contains utf8 = false) :
    (dammit C a (.bytes b)).text = some s ∧ (dammit C a (.bytes b)).originalEncoding = some utf8 ∧
    (dammit C a (.bytes b)).containsReplacement = false :=
  utf8_when_every_indication_is_utf8 C L a b s hb hall hx (by rw [hdecoder, henc]; exact Detwingle.decodeUtf8_utf8 s hs)

/-- a lawful oracle whose strict utf-8 decoding is the Table 3-7 decoder -/
def toyUtf8 : Codecs where
  codecExists n := lower n == utf8 || lower n == windows1252
  decodeStrict n b := if n == utf8 then Detwingle.decodeUtf8 b else none
  decodeReplace n b := if n == utf8 || n == windows1252 then some (b.map fun c => if c < 128 then c else 0xFFFD) else none

theorem toyUtf8_is_lawful : Lawful toyUtf8 where
  lookup_ignores_case n := by simp [toyUtf8, lower_idem]
  utf8_exists := by decide
  cp1252_exists := by decide
  utf8_replace_total d := by simp [toyUtf8]
  cp1252_replace_total d := by simp [toyUtf8, windows1252, utf8]

-- "é€😀" behind a UTF-8 BOM, known_definite_encodings=["UTF-8"]
example : True := by
  have := valid_utf8_text_is_recovered toyUtf8 toyUtf8_is_lawful { known := [ofS "UTF-8"] }
    ([0xef, 0xbb, 0xbf] ++ Detwingle.utf8 [0xE9, 0x20AC, 0x1F600]) [0xE9, 0x20AC, 0x1F600] (by decide +kernel) (fun _ => rfl)
    (by decide) (by decide +kernel) (by decide +kernel) (by decide)
  trivial

/-- WHICH ENCODING WINS in the replace pass: when no candidate decodes cleanly, the first candidate other
    than "ascii" that decodes with replacement gives the text and `original_encoding`, flag set. -/
theorem dammit_replace_winner (C : Codecs) (a : Args) (b : Bytes) (hb : b ≠ [])
    (pre post : List Name) (c r : Name) (u : PStr)
    (hstrict : ∀ x ∈ candidatesOf C a b, attempt C (stripBom b).1 false x = none)
    (hc : (candidatesOf C a b).filter (· != ascii) = pre ++ c :: post)
    (hpre : ∀ x ∈ pre, attempt C (stripBom b).1 true x = none)
    (hcu : attempt C (stripBom b).1 true c = some (r, u)) :
    (dammit C a (.bytes b)).text = some u ∧ (dammit C a (.bytes b)).originalEncoding = some r ∧
    (dammit C a (.bytes b)).containsReplacement = true := by
  have h := dammit_eq_spec C a b hb
  have h1 : (candidatesOf C a b).findSome? (attempt C (stripBom b).1 false) = none :=
    List.findSome?_eq_none_iff.mpr hstrict
  have h2 : ((candidatesOf C a b).filter (· != ascii)).findSome? (attempt C (stripBom b).1 true) = some (r, u) := by
    rw [hc, List.findSome?_append, List.findSome?_eq_none_iff.mpr hpre]
    simp [hcu]
  simp only [dammitSpec, h1, h2, Prod.mk.injEq] at h
  exact h

/-- The result never comes from outside the candidate list: whenever there is a text, it is the strict
    or (flag set) the replace decoding of the BOM-stripped bytes under some candidate, and
    `original_encoding` is the codec name that candidate resolves to. -/
theorem result_comes_from_a_candidate (C : Codecs) (a : Args) (b : Bytes) (hb : b ≠ []) (u : PStr)
    (ht : (dammit C a (.bytes b)).text = some u) :
    ∃ c ∈ candidatesOf C a b, ∃ r, findCodec C c = some r ∧ (dammit C a (.bytes b)).originalEncoding = some r ∧
      (if (dammit C a (.bytes b)).containsReplacement then C.decodeReplace r (stripBom b).1 else C.decodeStrict r (stripBom b).1) = some u := by
  have h := dammit_eq_spec C a b hb
  unfold dammitSpec at h
  cases hf : (candidatesOf C a b).findSome? (attempt C (stripBom b).1 false) with
  | some ru =>
    obtain ⟨r, u'⟩ := ru
    simp only [hf, Prod.mk.injEq] at h
    obtain ⟨c, hc, hcu⟩ := List.exists_of_findSome?_eq_some hf
    have := (attempt_iff C _ false c r u').mp hcu
    rw [ht] at h
    have hu : u = u' := Option.some.inj h.1
    subst hu
    exact ⟨c, hc, r, this.1, h.2.1, by rw [h.2.2]; simpa using this.2⟩
  | none =>
    simp only [hf] at h
    cases hg : ((candidatesOf C a b).filter (· != ascii)).findSome? (attempt C (stripBom b).1 true) with
    | some ru =>
      obtain ⟨r, u'⟩ := ru
      simp only [hg, Prod.mk.injEq] at h
      obtain ⟨c, hc, hcu⟩ := List.exists_of_findSome?_eq_some hg
      have := (attempt_iff C _ true c r u').mp hcu
      rw [ht] at h
      have hu : u = u' := Option.some.inj h.1
      subst hu
      exact ⟨c, (List.mem_filter.mp hc).1, r, this.1, h.2.1, by rw [h.2.2]; simpa using this.2⟩
    | none =>
      simp only [hg, Prod.mk.injEq] at h
      rw [ht] at h; cases h.1

/-! ## non-vacuity: a toy codec oracle and instances of the hypotheses above -/



-- clean: first candidate wins, no flag
example : ((dammit toy {} (.bytes [65])).text, (dammit toy {} (.bytes [65])).originalEncoding,
    (dammit toy {} (.bytes [65])).containsReplacement) = (some [65], some utf8, false) := by decide
-- nothing decodes strictly, utf-8 decodes with replacement: flag set (both sides of `replacement_iff` true)
example : ((dammit toy {} (.bytes [200])).text, (dammit toy {} (.bytes [200])).originalEncoding,
    (dammit toy {} (.bytes [200])).containsReplacement) = (some [0xFFFD], some utf8, true) := by decide
-- only "ascii" is left and it is skipped in the replace pass: no text (`no_text_iff`), no flag
example : ((dammit toy { known := [ascii], exclude := [utf8, ofS "Windows-1252"] } (.bytes [200])).text,
    (dammit toy { known := [ascii], exclude := [utf8, ofS "Windows-1252"] } (.bytes [200])).containsReplacement)
    = (none, false) := by decide
-- a BOM-only document is the empty text, cleanly (false of the unrepaired code)
example : ((dammit toy {} (.bytes [0xef, 0xbb, 0xbf])).text, (dammit toy {} (.bytes [0xef, 0xbb, 0xbf])).containsReplacement)
    = (some [], false) := by decide
-- the hypotheses of `dammit_first_clean` / `utf8_default` / `from_encoding_first` are satisfiable
example : True := by
  have := utf8_default toy {} [65] [65] (by decide) rfl rfl rfl (by decide) (by decide) rfl (by decide) (by decide) (by decide)
  have := from_encoding_first toy [65] (ofS "ASCII") ascii [65] [] (by decide) (by decide) (by decide) (by decide) (by decide)
  trivial
-- … and those of the two declaration theorems (realistic declarations with further attributes / pseudo-attributes)
example : True := by
  -- <html><head><meta charset="utf-8" id="m"></head>
  have := declared_of_wellformed_meta (ofS "<html><head>") [] [34] (ofS "utf-8") (ofS "\" id=\"m\"") (ofS "</head>") 32
    (by decide) (by decide) (by decide) (by decide) (Or.inr ⟨34, rfl, by decide⟩) (by decide) (by decide) (by decide) (by decide)
    (Or.inr ⟨34, _, rfl, by decide⟩) (by decide)
  -- <!DOCTYPE html>\n<head><title>t</title><meta http-equiv="Content-Type" content="text/html; charset=KOI8-R"></head>
  have := declared_of_wellformed_meta (ofS "<!DOCTYPE html>\n<head><title>t</title>") (ofS "http-equiv=\"Content-Type\" content=\"text/html; ")
    [] (ofS "KOI8-R") [34] (ofS "</head>") 32
    (by decide) (by decide) (by decide) (by decide) (Or.inl rfl) (by decide) (by decide) (by decide) (by decide)
    (Or.inr ⟨34, [], rfl, by decide⟩) (by decide)
  -- \n <?xml version="1.0" encoding="Big5" standalone="yes"?><a lang="en">\n<b/>
  have := declared_of_wellformed_xml [10, 32] (ofS "xml version=\"1.0\" ") (ofS "Big5") (ofS " standalone=\"yes\"?><a lang=\"en\">") (ofS "\n<b/>") 34 34 false
    (by decide) (by decide) (by decide) (by decide) (by decide) (by decide) (by decide) (by decide) (by decide) (Or.inr ⟨_, rfl⟩) (by decide)
  trivial

-- the hypotheses of `dammit_total` / `prepare_never_rejects` / `dammit_replace_winner` are satisfiable, and the
-- conclusion is not trivial: the text exists although nothing decodes strictly and utf-8 is excluded
example : (dammit toyLawful { exclude := [ofS "UTF-8"] } (.bytes [200])).text = some [0xFFFD] ∧
    (dammit toyLawful { exclude := [ofS "UTF-8"] } (.bytes [200])).originalEncoding = some windows1252 := by decide
example : True := by
  have := dammit_total toyLawful toyLawful_is_lawful { exclude := [ofS "UTF-8"] } [200] (by decide) (Or.inr (by decide))
  have := prepare_never_rejects toyLawful toyLawful_is_lawful (.bytes [200]) (some ascii) none [ofS "UTF-8"] (Or.inr (by decide))
  have := dammit_replace_winner toyLawful { known := [ascii] } [200] (by decide) [] [windows1252] utf8 utf8 [0xFFFD]
    (by rw [candidatesOf, ← encodings_eq_candidates]; decide) (by rw [candidatesOf, ← encodings_eq_candidates]; decide) (by decide) (by decide)
  have := result_comes_from_a_candidate toyLawful {} [65] (by decide) [65] (by decide)
  trivial

-- remaining hypotheses, instantiated on non-trivial data
example : True := by
  have := bom_first_candidate utf16le [ofS "koi8-r"] (some (ofS "big5")) none [ofS "utf-8"] (by decide)
  have := fallback_resolves toyLawful toyLawful_is_lawful (ofS "Windows-1252") (Or.inr (by decide))
  have := findCodec_spec toy (ofS "x-sjis") (by decide)
  have := (candidates_complete [ofS "A", ofS "b"] none [ofS "a"] none none [ofS "b"]).2 [ofS "A", ofS "b"] (ofS "a")
    [utf8, ofS "windows-1252"] (by decide)
  have := declared_html_encoding_of_meta toy { isHtml := true, known := [utf8] } (ofS "<meta charset=koi8-r>x") (ofS "koi8-r") rfl
    (by decide) (by decide)
  trivial
-- `candidates_complete` (second part) really needs "no earlier occurrence ignoring case": here `a` is represented by `A`
example : ofS "a" ∉ encodingsImpl [ofS "A", ofS "b"] none [ofS "a"] none none [ofS "b"] := by decide

example : True := by
  have := from_encoding_first_file_like toy [65] (ofS "ASCII") ascii [65] [] (by decide) (by decide) (by decide) (by decide) (by decide)
  trivial

end BS.Props.C07
