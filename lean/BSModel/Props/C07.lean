import BSModel.Model.EncodingIn
namespace BS.Props.C07
open BS.EncodingIn
theorem placeholder : stripBom [] = ([], none) := by decide
end BS.Props.C07
