import BSModel.Proofs.EncodingOut
import BSModel.Proofs.EncodingOutUtf
import BSModel.Proofs.EncodingOutSub
import BSModel.Proofs.EncodingOutTree
import BSModel.Proofs.EncodingOutDetect
/-! # C08 — output in any target encoding is valid, lossless and self-describing

Property theorems only. `pyEncode`/`encodeWith` is `str.encode(codec, errors)`, `encodeImpl`/`prettifyImpl`/`encodeContentsImpl`
mirror `Tag.encode`/`prettify(encoding)`/`encode_contents` (bs4/element.py), `substituteCharset`/`substituteContent`/
`setUpSubstitutions`/`attrValue` the charset machinery, `readText`/`readAttr` the part of html.parser + bs4 /
`html.unescape` that reads back what the writer wrote (Model/EncodingOut.lean). A codec is an arbitrary record; its laws
(`AsciiOK`, `RoundTrip`, `AsciiCompat`) are hypotheses of the theorems and are *tested* on the characters of every case by
the harness. The tables (`PYTHON_SPECIFIC_ENCODINGS`, the live `CHARSET_RE`'s shape, windows-1252, `html.unescape`'s two
tables, single-byte decode tables) are generated from the live objects on every run. -/
namespace BS.Props.C08
open BS BS.EncodingOut BS.Gen.EncodingOut

/-- a small document: `<p title="☃é">a&☃<br/></p>` (U+2603 SNOWMAN, U+00E9) -/
def demo : Node :=
  .tag (ofS "p") [(ofS "title", .plain [0x2603, 0xE9])] [.text [97, 38, 0x2603], .tag (ofS "br") [] []]

/-- `<meta charset="utf8">` and `<meta http-equiv="Content-Type" content="text/html; charset=utf8">` as parsed -/
def metaCharset : Node := .tag (ofS "meta") (setUpSubstitutions (ofS "meta") [(ofS "charset", .plain (ofS "utf8"))]) []
def metaContent : Node :=
  .tag (ofS "meta") (setUpSubstitutions (ofS "meta")
    [(ofS "http-equiv", .plain (ofS "Content-Type")), (ofS "content", .plain (ofS "text/html; charset=utf8"))]) []

/-! ## 1. rendering to bytes always succeeds -/

/-- `s.encode(C, "xmlcharrefreplace")` returns bytes for every string — lone surrogates and all — as soon as the codec
    can write ASCII (so that it can write `&#…;`): the bytes are the strict encoding of the replaced string. -/
theorem encodeWith_total (C : Codec) (h : C.AsciiOK) (s : PStr) :
    encodeWith C s = .bytes (C.enc (xmlcharrefreplace C s)) := by
  show pyEncode C .xmlcharrefreplace s = _
  rw [pyEncode_nonstrict C h _ (by decide), handled_xcr]

/-- All three entry points return bytes, whatever the tree, the indentation and the target encoding
    (`Tag.encode`: element.py `u.encode(encoding, errors)` with the default `errors="xmlcharrefreplace"`;
    `prettify(encoding)` → `encode(indent_level=0)`; `encode_contents` → `contents.encode(encoding, "xmlcharrefreplace")`,
    the repaired last line — 4.13.0 omitted the handler, see `encode_contents_strict_raises`). -/
theorem encode_total (C : Codec) (h : C.AsciiOK) (name : PStr) (indent : Option Nat) (t : Node) :
    (∃ b, encodeImpl name C indent t = .bytes b) ∧ (∃ b, prettifyImpl name C t = .bytes b)
      ∧ (∃ b, encodeContentsImpl name C indent t = .bytes b) :=
  ⟨⟨_, encodeWith_total C h _⟩, ⟨_, encodeWith_total C h _⟩, ⟨_, encodeWith_total C h _⟩⟩

example : encodeImpl (ofS "ascii") asciiCodec none demo
    = .bytes (ofS "<p title=\"&#9731;&#233;\">a&amp;&#9731;<br/></p>") := by decide +kernel
example : prettifyImpl (ofS "latin-1") latin1Codec demo
    = .bytes (ofS "<p title=\"&#9731;" ++ [0xE9] ++ ofS "\">\n a&amp;&#9731;\n <br/>\n</p>\n") := by decide +kernel
example : encodeContentsImpl (ofS "ascii") asciiCodec none demo = .bytes (ofS "a&amp;&#9731;<br/>") := by decide +kernel
example : asciiCodec.AsciiOK := by
  intro c hc
  have : (List.range 128).all (fun c => asciiCodec.canEnc c) = true := by decide
  exact List.all_eq_true.mp this c (List.mem_range.mpr hc)

/-- With the `strict` handler (what `encode_contents` used in 4.13.0 by passing no handler) the call raises exactly when
    the rendering holds a character the codec cannot encode — so "always succeeds" needs the handler. -/
theorem strict_raises_iff (C : Codec) (s : PStr) :
    (∃ p c, pyEncode C .strict s = .unicodeEncodeError p c) ↔ ∃ c ∈ s, C.canEnc c = false := by
  constructor
  · intro ⟨p, c, h⟩
    cases hb : firstBad C 0 s with
    | none => simp [pyEncode, hb] at h
    | some pc =>
      clear h
      suffices ∀ (s : PStr) (i : Nat) pc, firstBad C i s = some pc → ∃ c ∈ s, C.canEnc c = false from this s 0 pc hb
      intro s
      induction s with
      | nil => intro i pc h; simp [firstBad] at h
      | cons d ds ih =>
        intro i pc h
        cases hd : C.canEnc d
        · exact ⟨d, by simp, hd⟩
        · simp only [firstBad, hd, if_true] at h
          obtain ⟨c, hc, hce⟩ := ih (i + 1) pc h
          exact ⟨c, by simp [hc], hce⟩
  · intro h
    obtain ⟨p, c, hb, _⟩ := firstBad_some C s 0 h
    exact ⟨p, c, by simp [pyEncode, hb]⟩

/-- the 4.13.0 behaviour, concretely: `encode_contents(encoding="ascii")` on a tree with a snowman raises -/
theorem encode_contents_strict_raises :
    encodeContentsWith .strict (ofS "ascii") asciiCodec none demo = .unicodeEncodeError 6 0x2603 := by decide

/-! ## 2. the bytes decode in the target encoding -/

/-- For a codec with the round-trip law the bytes decode, and they decode to the replaced string: every encodable
    character as itself, every other one as `&#N;`. -/
theorem bytes_decode (C : Codec) (h : C.AsciiOK) (hr : C.RoundTrip) (s : PStr) (b : Bytes)
    (hb : encodeWith C s = .bytes b) : C.dec b = some (xmlcharrefreplace C s) := by
  rw [encodeWith_total C h s] at hb
  cases hb
  exact hr _ (xcr_encodable C h s)

/-- … for the three entry points: the decoded output is the rendering (made with `eventual_encoding` = the target's
    name) with the unencodable characters replaced. -/
theorem entry_points_decode (C : Codec) (h : C.AsciiOK) (hr : C.RoundTrip) (name : PStr) (indent : Option Nat) (t : Node) :
    (∀ b, encodeImpl name C indent t = .bytes b → C.dec b = some (xmlcharrefreplace C (decodeImpl indent (some name) t)))
    ∧ (∀ b, prettifyImpl name C t = .bytes b → C.dec b = some (xmlcharrefreplace C (decodeImpl (some 0) (some name) t)))
    ∧ (∀ b, encodeContentsImpl name C indent t = .bytes b →
        C.dec b = some (xmlcharrefreplace C (decodeContentsImpl indent (some name) t))) :=
  ⟨fun b hb => bytes_decode C h hr _ b hb, fun b hb => bytes_decode C h hr _ b hb, fun b hb => bytes_decode C h hr _ b hb⟩

/-- every generated single-byte decode table gives a codec with the round-trip law (so the hypotheses are satisfiable,
    by real charsets: these are CPython's tables) -/
theorem table_codecs_lawful (tbl : List Nat) : (tableCodec tbl).RoundTrip := tableCodec_roundTrip tbl

example : asciiCodec.dec (ofS "<p title=\"&#9731;&#233;\">a&amp;&#9731;<br/></p>")
    = some (xmlcharrefreplace asciiCodec (decodeImpl none (some (ofS "ascii")) demo)) := by decide +kernel
example : xmlcharrefreplace latin1Codec [0x2603, 0xE9, 0x1F600, 0xD800] = ofS "&#9731;" ++ [0xE9] ++ ofS "&#128512;&#55296;" := by
  decide

/-- encodable text is not touched at all -/
theorem encodable_untouched (C : Codec) (s : PStr) (h : C.Encodable s) : xmlcharrefreplace C s = s :=
  xcr_encodable_id C s h

/-! ## 2b. the `errors=` argument, and the fallback for every code point and every class of codec -/

/-- `Tag.encode(encoding, errors=h)` hands `h` to `str.encode`. Every handler but `strict` always returns bytes: the strict
    encoding of the rendering in which each unencodable code point is replaced by what the handler dictates (nothing,
    `?`, `&#N;`, `\xhh`/`\uhhhh`/`\Uhhhhhhhh`). -/
theorem encode_errors_total (C : Codec) (hA : C.AsciiOK) (h : Handler) (hs : h ≠ .strict) (name : PStr) (indent : Option Nat)
    (t : Node) :
    encodeImpl name C indent t h = .bytes (C.enc (handled C h (decodeImpl indent (some name) t))) :=
  pyEncode_nonstrict C hA h hs _

/-- … and the bytes decode to that handled string -/
theorem bytes_decode_errors (C : Codec) (hA : C.AsciiOK) (hr : C.RoundTrip) (h : Handler) (hs : h ≠ .strict) (s : PStr) (b : Bytes)
    (hb : pyEncode C h s = .bytes b) : C.dec b = some (handled C h s) := by
  rw [pyEncode_nonstrict C hA h hs s] at hb
  cases hb
  exact hr _ (handled_encodable C hA h s)

/-- when every character is encodable the handler is never consulted: all five give the strict encoding -/
theorem handlers_agree_on_encodable (C : Codec) (s : PStr) (hs : C.Encodable s) (h : Handler) :
    pyEncode C h s = .bytes (C.enc s) := by
  cases h <;> simp only [pyEncode, firstBad_none C _ 0 hs, handled_encodable_id C _ s hs]

/-- only `xmlcharrefreplace` — bs4's default — writes something a reader turns back into the character: the other
    handlers lose it (`ignore`), flatten it (`replace`) or leave an escape no HTML reader undoes (`backslashreplace`) -/
theorem other_handlers_lose :
    readText (fun _ => none) (handled asciiCodec .xmlcharrefreplace (substituteXml [97, 0x2603])) = [97, 0x2603]
    ∧ readText (fun _ => none) (handled asciiCodec .ignore (substituteXml [97, 0x2603])) = [97]
    ∧ readText (fun _ => none) (handled asciiCodec .replace (substituteXml [97, 0x2603])) = [97, 63]
    ∧ readText (fun _ => none) (handled asciiCodec .backslashreplace (substituteXml [97, 0x2603, 0xE9, 0x1F600]))
        = ofS "a\\u2603\\xe9\\U0001f600" := by decide

example : encodeImpl (ofS "ascii") asciiCodec none demo .replace = .bytes (ofS "<p title=\"??\">a&amp;?<br/></p>") := by decide +kernel
example : encodeImpl (ofS "ascii") asciiCodec none demo .strict = .unicodeEncodeError 10 0x2603 := by decide +kernel

/-- **The fallback, for every code point and every codec.** What stands for `c` in the output is `c` itself when the codec
    can encode it, and otherwise `&#` + the decimal digits of `c` + `;` — pure ASCII, at most ten characters for a code
    point of the Unicode range, and the digits read back as `c`. -/
theorem fallback_every_code_point (C : Codec) (c : Nat) :
    (C.canEnc c = true → xcrChar C c = [c])
    ∧ (C.canEnc c = false → xcrChar C c = [38, 35] ++ toDec c ++ [59] ∧ (∀ d ∈ xcrChar C c, d < 128)
        ∧ ofDec (toDec c) = c ∧ (∀ d ∈ toDec c, isDigit d = true) ∧ toDec c ≠ []
        ∧ (c < 0x110000 → (xcrChar C c).length ≤ 10)) := by
  refine ⟨fun h => by simp [xcrChar, h], fun h => ?_⟩
  have e : xcrChar C c = [38, 35] ++ toDec c ++ [59] := by simp [xcrChar, h, charref]
  refine ⟨e, ?_, ofDec_toDec c, toDec_digits c, toDec_ne_nil c, ?_⟩
  · intro d hd; rw [e] at hd; exact charref_lt128 c d (by simpa [charref] using hd)
  · intro hc
    have := toDec_length_le c hc
    rw [e]; simp; omega

/-- class 1, single-byte charsets (any decode table): a code point is written as a reference exactly when it is not in the
    table; class 2, the UTFs: exactly the lone surrogates are (they are not characters; everything else passes). -/
theorem fallback_by_codec_class (tbl : List Nat) (c : Nat) :
    ((tableCodec tbl).canEnc c = true ↔ (c < 0x110000 ∧ c ∈ tbl))
    ∧ (utf8Codec.canEnc c = true ↔ (c < 0x110000 ∧ ¬ (0xD800 ≤ c ∧ c ≤ 0xDFFF)))
    ∧ utf8Codec.canEnc = utf16Codec.canEnc ∧ utf8Codec.canEnc = utf32Codec.canEnc
    ∧ utf8Codec.canEnc = utf16leCodec.canEnc ∧ utf8Codec.canEnc = utf16beCodec.canEnc
    ∧ utf8Codec.canEnc = utf32leCodec.canEnc ∧ utf8Codec.canEnc = utf32beCodec.canEnc := by
  refine ⟨?_, ?_, rfl, rfl, rfl, rfl, rfl, rfl⟩
  · simp only [tableCodec, undef, Bool.and_eq_true, List.contains_iff_mem]
    constructor
    · intro h; exact ⟨of_decide_eq_true h.1, h.2⟩
    · intro h; exact ⟨decide_eq_true h.1, h.2⟩
  · simp [utf8Codec, isScalar, isSurr]; omega

/-- a document of characters (no lone surrogate) goes to any UTF without a single reference -/
theorem utf_needs_no_references (s : PStr) (h : ∀ c ∈ s, isScalar c = true) :
    xmlcharrefreplace utf8Codec s = s ∧ xmlcharrefreplace utf16Codec s = s ∧ xmlcharrefreplace utf32Codec s = s :=
  ⟨xcr_encodable_id _ s h, xcr_encodable_id _ s h, xcr_encodable_id _ s h⟩

example : xmlcharrefreplace utf8Codec [97, 0xD800, 0x1F600] = ofS "a&#55296;" ++ [0x1F600] := by decide
example : utf8Codec.enc [0x24, 0xE9, 0x20AC, 0x1F600] = [0x24, 0xC3, 0xA9, 0xE2, 0x82, 0xAC, 0xF0, 0x9F, 0x98, 0x80] := by decide
example : utf16Codec.enc [0x41, 0x1F600] = [0xFF, 0xFE, 0x41, 0, 0x3D, 0xD8, 0x00, 0xDE] := by decide

/-- The codec laws the theorems assume are satisfied by real codecs: all seven UTFs (CPython's byte layouts, compared byte
    for byte by the harness) obey the round-trip law and can write ASCII; UTF-8 is ASCII-compatible. -/
theorem utf_codecs_lawful :
    utf8Codec.RoundTrip ∧ utf16Codec.RoundTrip ∧ utf16leCodec.RoundTrip ∧ utf16beCodec.RoundTrip
    ∧ utf32Codec.RoundTrip ∧ utf32leCodec.RoundTrip ∧ utf32beCodec.RoundTrip
    ∧ utf8Codec.AsciiOK ∧ utf16Codec.AsciiOK ∧ utf32Codec.AsciiOK ∧ utf8Codec.AsciiCompat :=
  ⟨utf8_roundTrip, utf16_roundTrip, utf16le_roundTrip, utf16be_roundTrip, utf32_roundTrip, utf32le_roundTrip, utf32be_roundTrip,
   utf8_asciiOK, fun c hc => utf_asciiOK c hc, fun c hc => utf_asciiOK c hc, utf8_asciiCompat⟩

/-- … and by every generated single-byte table (the whole `sbCodecs` table, not a sample): each can write ASCII — cp500
    (EBCDIC) included — and each except cp500 writes ASCII as itself, hence is ASCII-compatible. -/
theorem sb_tables_ascii :
    sbCodecs.all (fun p => tableAsciiOK p.2) = true
    ∧ sbCodecs.all (fun p => tableAsciiAt p.2 || p.1 == ofS "cp500") = true
    ∧ tableAsciiAt sb_cp500 = false := by
  refine ⟨?_, ?_, ?_⟩ <;> decide +kernel

theorem sb_table_codec_laws (nm : PStr) (tbl : List Nat) (h : (nm, tbl) ∈ sbCodecs) :
    (tableCodec tbl).RoundTrip ∧ (tableCodec tbl).AsciiOK ∧ (nm ≠ ofS "cp500" → (tableCodec tbl).AsciiCompat) := by
  refine ⟨tableCodec_roundTrip tbl, tableCodec_asciiOK tbl ?_, fun hn => tableCodec_asciiCompat tbl ?_⟩
  · exact List.all_eq_true.mp sb_tables_ascii.1 (nm, tbl) h
  · have := List.all_eq_true.mp sb_tables_ascii.2.1 (nm, tbl) h
    simp only [Bool.or_eq_true, beq_iff_eq] at this
    rcases this with h1 | h1
    · exact h1
    · exact absurd h1 hn

example : (ofS "koi8-r", sb_koi8_r) ∈ sbCodecs := by simp [sbCodecs, ofS]

/-! ## 3. losslessness: re-reading the decoded bytes recovers text and attribute values -/

/-- table fact over the generated windows-1252 table: outside 0x80–0x9F, byte `n` of windows-1252 is U+`n` (so bs4's
    `handle_charref` compensation only ever bites on C1 numbers) -/
theorem cp1252_identity_outside_c1 :
    (List.range 256).all (fun n => isC1 n || cp1252Decode.getD n undef == n) = true := cp1252_table

/-- table fact over the generated `html.unescape` tables: every number it rewrites or drops is below 160 or a noncharacter -/
theorem unescape_tables_shape :
    invalidCharrefs.all (fun kv => kv.1 < 160) = true ∧ invalidCodepoints.all (fun c => c < 160 || isNonchar c) = true :=
  unescape_tables

/-- **Text is recovered.** For every codec that can write ASCII, every `original_encoding` of the re-parse and every text
    without an unencodable C1 control: entity-substituting, replacing the unencodable characters, and reading the result
    as html.parser + bs4 do gives the text back — encodable characters pass, the others come back from `&#N;`, and
    `&`, `<`, `>` and literal `&#…;` sequences in the text survive the double escaping. -/
theorem lossless_text (C : Codec) (h : C.AsciiOK) (orig : Nat → Option Nat) (s : PStr) (hs : CharrefSafeText C s = true) :
    readText orig (xmlcharrefreplace C (substituteXml s)) = s := by
  rw [written_text C h, readText, read_written C h]
  apply flatMap_self
  intro c hc
  have := List.all_eq_true.mp hs c hc
  cases hce : C.canEnc c
  · simp only [hce, Bool.false_or, Bool.and_eq_true, Bool.not_eq_true', decide_eq_true_eq] at this
    simp [textCharref_safe orig c this.1 this.2]
  · simp

/-- **Attribute values are recovered**, whichever of the three quoting forms `quoted_attribute_value` picks, for values
    without an unencodable C1 control, noncharacter or surrogate. -/
theorem lossless_attr (C : Codec) (h : C.AsciiOK) (v : PStr) (hs : CharrefSafeAttr C v = true) :
    readAttr (xmlcharrefreplace C (quotedAttributeValue (substituteXml v))) = v := by
  have main : ∀ q, readCharrefs attrCharref (v.flatMap (wChar C q)) = v := by
    intro q
    rw [read_written C h]
    apply flatMap_self
    intro c hc
    have := List.all_eq_true.mp hs c hc
    cases hce : C.canEnc c
    · simp only [hce, Bool.false_or, Bool.and_eq_true, Bool.not_eq_true', decide_eq_true_eq] at this
      obtain ⟨⟨⟨h1, h2⟩, h3⟩, h4⟩ := this
      have h0 : 160 ≤ c := by
        have : ¬ c < 128 := fun hlt => by rw [h c hlt] at hce; cases hce
        simp only [isC1, Bool.and_eq_false_iff, decide_eq_false_iff_not] at h1
        omega
      simp [attrCharref_safe c h0 h2 h3 h4]
    · simp
  unfold quotedAttributeValue
  split
  · split
    · rw [xcr_quoted C h 34 (by omega), readAttr_quoted, written_quot C h, main]
    · rw [xcr_quoted C h 39 (by omega), readAttr_quoted, written_text C h, main]
  · rw [xcr_quoted C h 34 (by omega), readAttr_quoted, written_text C h, main]

example : readText (fun _ => none) (xmlcharrefreplace asciiCodec (substituteXml (ofS "a<&#65;" ++ [0x2603, 0xA0, 0x10FFFF])))
    = ofS "a<&#65;" ++ [0x2603, 0xA0, 0x10FFFF] := by decide
example : CharrefSafeText asciiCodec (ofS "a<&#65;" ++ [0x2603, 0xA0, 0x10FFFF]) = true := by decide
example : readAttr (xmlcharrefreplace latin1Codec (quotedAttributeValue (substituteXml (ofS "say \"it's\" &" ++ [0x2603]))))
    = ofS "say \"it's\" &" ++ [0x2603] := by decide
example : CharrefSafeAttr latin1Codec (ofS "say \"it's\" &" ++ [0x2603]) = true := by decide

/-- The default ("minimal") formatter's entity substitution IS `EntitySubstitution.substitute_xml` (generated from the live
    registry): every `&` of the tree is escaped, which is what `lossless_text` / `lossless_attr` rest on. -/
theorem minimal_formatter_is_substitute_xml :
    minimalFormatterIsSubstituteXml = true ∧ minimalFormatterSubstitution = ofS "substitute_xml" := by decide

/-- Why every `&` must be escaped: text that merely SPELLS a reference — `&#233;`, `&#xE9;` is left literal by this reader
    model, `&amp;`, `&lt;` — would, written as it stands, be read as the reference (it cannot be told from real
    `xmlcharrefreplace` output); escaped by `substituteXml` it comes back verbatim, next to characters the target cannot
    encode, in text and in attribute values. -/
theorem lookalike_references :
    readText (fun _ => none) (xmlcharrefreplace asciiCodec (ofS "write &#233; to get " ++ [0xE9])) = ofS "write " ++ [0xE9] ++ ofS " to get " ++ [0xE9]
    ∧ readText (fun _ => none) (xmlcharrefreplace asciiCodec (substituteXml (ofS "write &#233; to get " ++ [0xE9])))
        = ofS "write &#233; to get " ++ [0xE9]
    ∧ readText (fun _ => none) (ofS "&amp;lt;") = ofS "&lt;"
    ∧ readAttr (xmlcharrefreplace asciiCodec (quotedAttributeValue (substituteXml (ofS "x=a&b;y=&amp;" ++ [0x2603] ++ ofS "&#9731;\"'"))))
        = ofS "x=a&b;y=&amp;" ++ [0x2603] ++ ofS "&#9731;\"'" := by decide

/-- Without the hypothesis the statement fails (known finding `C08-c1-controls-via-charref`): U+0080 written for a target
    that cannot carry it becomes `&#128;`, which bs4's `handle_charref` (and `html.unescape`) read as windows-1252 `€`. -/
theorem lossless_text_needs_safe :
    readText (fun _ => none) (xmlcharrefreplace asciiCodec (substituteXml [0x80])) = [0x20AC]
      ∧ readAttr (xmlcharrefreplace asciiCodec (quotedAttributeValue (substituteXml [0x80]))) = [0x20AC]
      ∧ CharrefSafeText asciiCodec [0x80] = false := by decide

/-- … and (known finding `C08-noncharacters-in-attributes`) `html.unescape` drops references to noncharacters, so
    U+FDD0 and U+FFFE vanish from an attribute value — while they survive in text. -/
theorem lossless_attr_needs_safe :
    readAttr (xmlcharrefreplace asciiCodec (quotedAttributeValue (substituteXml [97, 0xFDD0, 0xFFFE, 98]))) = [97, 98]
      ∧ readText (fun _ => none) (xmlcharrefreplace asciiCodec (substituteXml [97, 0xFDD0, 0xFFFE, 98])) = [97, 0xFDD0, 0xFFFE, 98]
      ∧ CharrefSafeAttr asciiCodec [97, 0xFDD0, 0xFFFE, 98] = false := by decide

/-! ## 4. the declared charset names the encoding used — or is left alone -/

/-- HTML5 style. A `<meta>` with a `charset` attribute (with a value: `charset is not None`) — whatever else it carries, an
    HTML4-style declaration included — gets the placeholder at parse time, and rendering with `eventual_encoding = e` writes
    `e` there (the empty string for a Python-specific `e`), whatever the old value was. -/
theorem meta_rewritten_charset (attrs : List (PStr × AttrVal)) (old : AttrVal) (e : PStr)
    (h : lookupAttr (ofS "charset") attrs = some old) (hv : old ≠ .novalue) :
    (lookupAttr (ofS "charset") (setUpSubstitutions (ofS "meta") attrs)).map (attrValue (some e))
      = some (if isPythonSpecific e then [] else e) := by
  have hne : ofS "charset" ≠ ofS "content" := by decide
  simp [setUpSubstitutions, lookup_subContentStep _ hne, subCharsetStep_some attrs old h hv, lookup_setAttr, attrValue,
    substituteCharset]

/-- … and with `eventual_encoding = None` (`decode()` to str for a str destination) the old value is written back. -/
theorem meta_untouched_charset (attrs : List (PStr × AttrVal)) (old : AttrVal)
    (h : lookupAttr (ofS "charset") attrs = some old) (hv : old ≠ .novalue) :
    (lookupAttr (ofS "charset") (setUpSubstitutions (ofS "meta") attrs)).map (attrValue none) = some old.str := by
  have hne : ofS "charset" ≠ ofS "content" := by decide
  simp [setUpSubstitutions, lookup_subContentStep _ hne, subCharsetStep_some attrs old h hv, lookup_setAttr, attrValue]

/-- `eventual_encoding = None` leaves *every* attribute value as parsed: placeholders render as their original text. -/
theorem meta_untouched (v : AttrVal) : attrValue none v = v.str := by
  cases v <;> rfl

/-- … at the level of whole trees, for every entry point that renders with `eventual_encoding=None` and every
    indentation: the rendering is exactly that of the tree in which no placeholder was ever installed (`plainN` turns every
    placeholder back into a plain string) — nothing anywhere in the document is rewritten. -/
theorem decode_without_encoding_ignores_placeholders (indent : Option Nat) (t : Node) :
    decodeImpl indent none (plainN t) = decodeImpl indent none t
    ∧ decodeContentsImpl indent none (plainN t) = decodeContentsImpl indent none t := by
  constructor
  · cases indent with
    | none => exact decodeNode_none_plain [] t
    | some l => exact prettyNode_none_plain [] l t
  · cases t with
    | text s => rfl
    | tag n as ks =>
      cases indent with
      | none => simp only [plainN, decodeContentsImpl]; exact decodeKids_none_plain n ks
      | some l => simp only [plainN, decodeContentsImpl]; exact prettyKids_none_plain n l ks

example : decodeImpl none none (.tag (ofS "head") [] [metaCharset, metaContent])
    = ofS "<head><meta charset=\"utf8\"/><meta content=\"text/html; charset=utf8\" http-equiv=\"Content-Type\"/></head>" := by
  decide

/-- `str(tag)`, `tag.decode()`, `tag.prettify()` and `decode_contents()` are NOT "no target encoding": their
    `eventual_encoding` defaults to `DEFAULT_OUTPUT_ENCODING`, so a declared charset is rewritten to `utf-8` in the str they
    return (the generated constant is `utf-8` and is not Python-specific). Only an explicit `eventual_encoding=None` leaves
    the declaration alone. -/
theorem str_rendering_names_default (attrs : List (PStr × AttrVal)) (old : AttrVal)
    (h : lookupAttr (ofS "charset") attrs = some old) (hv : old ≠ .novalue) :
    (lookupAttr (ofS "charset") (setUpSubstitutions (ofS "meta") attrs)).map (attrValue (some defaultOutputEncoding))
      = some (ofS "utf-8") := by
  rw [meta_rewritten_charset attrs old _ h hv]
  decide

example : strImpl metaCharset = ofS "<meta charset=\"utf-8\"/>" := by decide
example : prettifyStrImpl (.tag (ofS "head") [] [metaContent])
    = ofS "<head>\n <meta content=\"text/html; charset=utf-8\" http-equiv=\"Content-Type\"/>\n</head>\n" := by decide

/-- `tag.encode()` with its defaults is UTF-8 of `str(tag)`, with no reference at all, for every tree of characters -/
theorem encode_default_is_utf8 (t : Node) (h : ∀ c ∈ strImpl t, isScalar c = true) :
    encodeImpl defaultOutputEncoding utf8Codec none t = .bytes (utf8Enc (strImpl t)) := by
  show pyEncode utf8Codec .xmlcharrefreplace (strImpl t) = _
  rw [handlers_agree_on_encodable utf8Codec _ h]
  rfl

/-! ### encoding touches the values only -/

/-- **The markup skeleton is never touched.** For a tree whose tag and attribute names are ASCII, the decoded output of
    `encode` is the rendering in which `xmlcharrefreplace` has been applied to each text piece and to each quoted attribute
    value separately (`decodeNodeX`) — `<`, names, `=`, quotes, `>` stand exactly where the str rendering has them. Together
    with `lossless_text` / `lossless_attr`, which read each such piece back, this is the document-level form of
    losslessness on the writer's side (re-assembling a tree from the pieces is the parser's business: C09/C15). -/
theorem encoding_touches_values_only (C : Codec) (hA : C.AsciiOK) (hr : C.RoundTrip) (name : PStr) (t : Node)
    (hn : asciiNames t = true) (b : Bytes) (hb : encodeImpl name C none t = .bytes b) :
    C.dec b = some (decodeNodeX C (some name) [] t) := by
  have := (entry_points_decode C hA hr name none t).1 b hb
  rw [this]
  congr 1
  exact xcr_decodeNode C hA (some name) [] t hn

example : ∀ c ∈ strImpl demo, isScalar c = true := by decide
example : asciiNames demo = true := by decide
example : decodeNodeX asciiCodec (some (ofS "ascii")) [] demo = ofS "<p title=\"&#9731;&#233;\">a&amp;&#9731;<br/></p>" := by
  decide +kernel

/-- HTML4 style: `content` (with a value) becomes a placeholder whenever `http-equiv` — a string, or any element of a list
    value (`get_attribute_list`) — is `content-type` in any letter case, whether or not the same tag also has a `charset`
    attribute (the repaired `if … if …`; 4.13.0's `elif` skipped this branch then, see `meta_both_styles_old_stale`). -/
theorem meta_content_placeholder (attrs : List (PStr × AttrVal)) (ct he : AttrVal)
    (h1 : lookupAttr (ofS "content") attrs = some ct) (hv : ct ≠ .novalue)
    (h2 : lookupAttr (ofS "http-equiv") attrs = some he) (h3 : isContentType he = true) :
    lookupAttr (ofS "content") (setUpSubstitutions (ofS "meta") attrs) = some (.contentMeta ct.str) := by
  have hc : ofS "content" ≠ ofS "charset" := by decide
  have hh : ofS "http-equiv" ≠ ofS "charset" := by decide
  have := subContentStep_some (subCharsetStep attrs) ct he (by rw [lookup_subCharsetStep _ hc]; exact h1) hv
    (by rw [lookup_subCharsetStep _ hh]; exact h2) h3
  simp [setUpSubstitutions, this, lookup_setAttr]

example : isContentType (.plain (ofS "Content-TYPE")) = true := by decide
example : isContentType (.list [ofS "refresh", ofS "CONTENT-type"]) = true := by decide
example : isContentType (.plain (ofS "content-type ")) = false := by decide

/-- A single `<meta>` carrying both declaration styles gets both placeholders, so both are rewritten on output and no
    stale `charset=` is left for a reader's regex to pick up. -/
theorem meta_both_styles (attrs : List (PStr × AttrVal)) (cs ct he : AttrVal) (e : PStr)
    (h0 : lookupAttr (ofS "charset") attrs = some cs) (hv0 : cs ≠ .novalue)
    (h1 : lookupAttr (ofS "content") attrs = some ct) (hv1 : ct ≠ .novalue)
    (h2 : lookupAttr (ofS "http-equiv") attrs = some he) (h3 : isContentType he = true) :
    (lookupAttr (ofS "charset") (setUpSubstitutions (ofS "meta") attrs)).map (attrValue (some e)) = some (substituteCharset e)
    ∧ (lookupAttr (ofS "content") (setUpSubstitutions (ofS "meta") attrs)).map (attrValue (some e))
        = some (substituteContent e ct.str) := by
  refine ⟨?_, ?_⟩
  · rw [meta_rewritten_charset attrs cs e h0 hv0]; rfl
  · rw [meta_content_placeholder attrs ct he h1 hv1 h2 h3]; rfl

/-- **A declaration made through the API is a declaration.** `soup.new_tag("meta", attrs=…, **kw)` — the `attrs`
    dictionary (the only way to pass `http-equiv`), keywords, or both, under any builder configuration — yields the same
    placeholders as parsing the tag: whenever the merged attributes hold a `charset` value, rendering with
    `eventual_encoding = e` writes `e`; an entry of `attrs` wins over a keyword of the same name, and a key that `attrs` does
    not mention keeps its keyword value. -/
theorem new_tag_meta_rewritten (kw attrs : List (PStr × AttrVal)) (old : AttrVal) (e : PStr)
    (h : lookupAttr (ofS "charset") (mergeAttrs kw attrs) = some old) (hv : old ≠ .novalue) :
    (lookupAttr (ofS "charset") (newTagAttrs (ofS "meta") kw attrs)).map (attrValue (some e))
      = some (if isPythonSpecific e then [] else e) :=
  meta_rewritten_charset (mergeAttrs kw attrs) old e h hv

theorem new_tag_content_placeholder (kw attrs : List (PStr × AttrVal)) (ct he : AttrVal)
    (h1 : lookupAttr (ofS "content") (mergeAttrs kw attrs) = some ct) (hv : ct ≠ .novalue)
    (h2 : lookupAttr (ofS "http-equiv") (mergeAttrs kw attrs) = some he) (h3 : isContentType he = true) :
    lookupAttr (ofS "content") (newTagAttrs (ofS "meta") kw attrs) = some (.contentMeta ct.str) :=
  meta_content_placeholder (mergeAttrs kw attrs) ct he h1 hv h2 h3

theorem new_tag_attrs_win (k : PStr) (v : AttrVal) (kw attrs : List (PStr × AttrVal)) :
    lookupAttr k (mergeAttrs kw (attrs ++ [(k, v)])) = some v
    ∧ ((∀ a ∈ attrs, a.1 ≠ k) → lookupAttr k (mergeAttrs kw attrs) = lookupAttr k kw) :=
  ⟨lookup_mergeAttrs_last k v kw attrs, lookup_mergeAttrs_absent k attrs kw⟩

example : decodeNode (some (ofS "koi8-r")) [] (.tag (ofS "meta") (newTagAttrs (ofS "meta") [(ofS "content", .plain (ofS "x"))]
    [(ofS "http-equiv", .plain (ofS "Content-Type")), (ofS "content", .plain (ofS "text/html; charset=utf-8"))]) [])
    = ofS "<meta content=\"text/html; charset=koi8-r\" http-equiv=\"Content-Type\"/>" := by decide
example : decodeNode (some (ofS "koi8-r")) [] (.tag (ofS "meta") (newTagAttrs (ofS "meta") [(ofS "charset", .plain (ofS "utf8"))] []) [])
    = ofS "<meta charset=\"koi8-r\"/>" := by decide

/-- **Known finding `C08-meta-item-assignment`, as a theorem about the code mirror.** A declaration written by item
    assignment — `m = soup.new_tag('meta'); m['charset'] = 'utf8'`, or assigning again over the placeholder of a parsed
    `<meta>`, with the same text or another — is NOT a placeholder: whatever the attributes were before, the value found
    afterwards is the plain string, and rendering for any target `e` writes that string back unchanged. -/
theorem item_assigned_not_placeholder (k v : PStr) (attrs : List (PStr × AttrVal)) (e : PStr) :
    lookupAttr k (setItem k v attrs) = some (.plain v)
    ∧ (lookupAttr k (setItem k v attrs)).map (attrValue (some e)) = some v := by
  simp [setItem, lookup_setAttr, attrValue]

/-- decided witnesses: the rendered declaration keeps the stale name — on a fresh `<meta>`, over a parsed HTML5 placeholder
    (same text re-assigned), and over a parsed HTML4 placeholder — while the untouched parsed tag is rewritten -/
theorem item_assigned_declaration_stale :
    decodeNode (some (ofS "koi8-r")) [] (.tag (ofS "meta") (setItem (ofS "charset") (ofS "utf8") (newTagAttrs (ofS "meta") [] [])) [])
      = ofS "<meta charset=\"utf8\"/>"
    ∧ decodeNode (some (ofS "koi8-r")) [] (.tag (ofS "meta")
        (setItem (ofS "charset") (ofS "utf8") (setUpSubstitutions (ofS "meta") [(ofS "charset", .plain (ofS "utf8"))])) [])
      = ofS "<meta charset=\"utf8\"/>"
    ∧ decodeNode (some (ofS "koi8-r")) [] (.tag (ofS "meta") (setItem (ofS "content") (ofS "text/html; charset=utf8")
        (setUpSubstitutions (ofS "meta") [(ofS "http-equiv", .plain (ofS "Content-Type")),
          (ofS "content", .plain (ofS "text/html; charset=utf8"))])) [])
      = ofS "<meta content=\"text/html; charset=utf8\" http-equiv=\"Content-Type\"/>"
    ∧ decodeNode (some (ofS "koi8-r")) [] metaCharset = ofS "<meta charset=\"koi8-r\"/>" := by decide

/-- `<meta charset="utf-8" content="text/html; charset=utf-8" http-equiv="content-type">` -/
def metaBothAttrs : List (PStr × AttrVal) :=
  [(ofS "charset", .plain (ofS "utf-8")), (ofS "content", .plain (ofS "text/html; charset=utf-8")),
   (ofS "http-equiv", .plain (ofS "content-type"))]

/-- The 4.13.0 mirror on that tag: encoding to `gbk` leaves `charset=utf-8` inside `content` (which dammit's greedy
    `<meta[^>]+charset=` then prefers on re-parse); the repaired code rewrites both. -/
theorem meta_both_styles_old_stale :
    decodeNode (some (ofS "gbk")) [] (.tag (ofS "meta") (setUpSubstitutionsOld (ofS "meta") metaBothAttrs) [])
      = ofS "<meta charset=\"gbk\" content=\"text/html; charset=utf-8\" http-equiv=\"content-type\"/>"
    ∧ decodeNode (some (ofS "gbk")) [] (.tag (ofS "meta") (setUpSubstitutions (ofS "meta") metaBothAttrs) [])
      = ofS "<meta charset=\"gbk\" content=\"text/html; charset=gbk\" http-equiv=\"content-type\"/>" := by decide

/-- where at most one style is present the repair changes nothing -/
theorem setUp_old_agrees (name : PStr) (attrs : List (PStr × AttrVal))
    (h : lookupAttr (ofS "charset") attrs = none ∨ lookupAttr (ofS "content") attrs = none
      ∨ lookupAttr (ofS "http-equiv") attrs = none) :
    setUpSubstitutionsOld name attrs = setUpSubstitutions name attrs := by
  unfold setUpSubstitutionsOld setUpSubstitutions
  split
  · rfl
  · have hc : ofS "content" ≠ ofS "charset" := by decide
    have hh : ofS "http-equiv" ≠ ofS "charset" := by decide
    cases hcs : lookupAttr (ofS "charset") attrs with
    | none => simp [subCharsetStep_none attrs hcs]
    | some cs =>
      simp only
      rcases h with h | h | h
      · rw [hcs] at h; cases h
      · rw [subContentStep_no_content _ (by rw [lookup_subCharsetStep _ hc]; exact h)]
      · rw [subContentStep_no_equiv _ (by rw [lookup_subCharsetStep _ hh]; exact h)]

/-- nothing but `<meta>` is touched -/
theorem non_meta_untouched (name : PStr) (attrs : List (PStr × AttrVal)) (h : name ≠ ofS "meta") :
    setUpSubstitutions name attrs = attrs := by
  simp [setUpSubstitutions, h]

example : decodeNode (some (ofS "koi8-r")) [] metaCharset = ofS "<meta charset=\"koi8-r\"/>" := by decide
example : decodeNode (some (ofS "idna")) [] metaCharset = ofS "<meta charset=\"\"/>" := by decide
example : decodeNode none [] metaCharset = ofS "<meta charset=\"utf8\"/>" := by decide
example : decodeNode (some (ofS "koi8-r")) [] metaContent
    = ofS "<meta content=\"text/html; charset=koi8-r\" http-equiv=\"Content-Type\"/>" := by decide
example : decodeNode (some (ofS "punycode")) [] metaContent
    = ofS "<meta content=\"text/html\" http-equiv=\"Content-Type\"/>" := by decide
example : decodeNode none [] metaContent
    = ofS "<meta content=\"text/html; charset=utf8\" http-equiv=\"Content-Type\"/>" := by decide

/-- The live `CHARSET_RE` is one of the spellings this model knows, and it is the tolerant one: case-insensitive, with
    optional whitespace around `=` — what dammit's detector accepts on the way in. (Generated from the live pattern and
    flags; false of 4.13.0's `((^|;)\s*charset=)([^;]*)`, under which `CHARSET=x` and `charset = x` are detected on input
    but not rewritten on output.) -/
theorem charset_re_tolerant :
    charsetReKnown = true ∧ charsetReSpaceTolerant = true ∧ charsetReIgnoreCase = true ∧ charsetReMultiline = true := by
  decide

/-- Declarations in the spellings the detector accepts are rewritten (computed through the model of `CHARSET_RE.sub`
    with the generated shape of the live pattern): upper case, spaces around `=`, no space after `;`, a further
    parameter, the declaration on its own line (`re.M`), at the very start; and removed for Python-specific encodings. -/
theorem content_rewritten_spellings :
    substituteContent (ofS "koi8-r") (ofS "text/html; charset=utf8") = ofS "text/html; charset=koi8-r"
    ∧ substituteContent (ofS "koi8-r") (ofS "text/html; CHARSET=utf8") = ofS "text/html; CHARSET=koi8-r"
    ∧ substituteContent (ofS "koi8-r") (ofS "text/html;charset = utf8; x=y") = ofS "text/html;charset = koi8-r; x=y"
    ∧ substituteContent (ofS "koi8-r") (ofS "text/html;\n Charset=utf8") = ofS "text/html;\n Charset=koi8-r"
    ∧ substituteContent (ofS "koi8-r") (ofS "a\ncharset=x;b") = ofS "a\ncharset=koi8-r;b"
    ∧ substituteContent (ofS "koi8-r") (ofS "charset=x") = ofS "charset=koi8-r"
    ∧ substituteContent (ofS "idna") (ofS "text/html; ChArSeT = utf8; x=y") = ofS "text/html; x=y"
    ∧ substituteContent (ofS "koi8-r") (ofS "text/html; xcharset=utf8") = ofS "text/html; xcharset=utf8" := by
  decide

/-! ### the general shape `PARAMS; charset=OLD; MORE` -/

/-- **HTML4 style, general shape.** For every content value of the form

      `pre ; ws₀ KEY ws₁ = ws₂ old rest`

    where `pre` is *quiet* (any text, earlier `;`-parameters and line breaks included, in which no line start and no `;`
    is followed — after optional white space — by a letter the pattern accepts for `c`; decidable, `quietGo`), `KEY` spells
    `charset` in any letter case the live pattern accepts, `ws₀ ws₁ ws₂` are any white space (`ws₁ ws₂` empty unless the live
    pattern is the tolerant one), `old` is any value without `;` and `rest` is empty or begins the next `;`-parameter:
    rendering for a target name `e` — any name — gives the same text with exactly `old` replaced by `e`, and goes on
    rewriting `rest` the same way (so a second declaration further on is rewritten too); for a Python-specific `e` the
    whole parameter, from its `;`, is removed. The only declarations not of this shape are those that open a line
    without a `;` (the `^` alternative of the pattern): they are covered by `content_rewritten_spellings` (decided
    instances) and `meta_rewritten_content_verbatim`. -/
theorem meta_rewritten_content (pre w0 L w1 w2 old rest e : PStr)
    (hq : quietGo true pre = true) (h0 : AllWs w0) (hL : SpellsKey L) (h1 : AllWs w1) (h2 : AllWs w2)
    (htol : charsetReSpaceTolerant = true ∨ (w1 = [] ∧ w2 = []))
    (hold : ∀ c ∈ old, c ≠ 59) (hws : old.dropWhile isReSpace = old) (hr : rest = [] ∨ ∃ m, rest = 59 :: m) :
    substituteContent e (pre ++ 59 :: (w0 ++ (L ++ (w1 ++ (61 :: (w2 ++ (old ++ rest)))))))
      = if isPythonSpecific e then
          pre ++ subGo (fun _ => []) 0 (endBol (endBol true pre) (59 :: (w0 ++ (L ++ (w1 ++ (61 :: (w2 ++ old))))))) rest
        else
          pre ++ 59 :: (w0 ++ (L ++ (w1 ++ (61 :: (w2 ++ e)))))
            ++ subGo (fun g1 => g1 ++ e) 0 (endBol (endBol true pre) (59 :: (w0 ++ (L ++ (w1 ++ (61 :: (w2 ++ old))))))) rest := by
  unfold substituteContent charsetReSub
  split
  · rw [subGo_general _ pre w0 L w1 w2 old rest true hq h0 hL h1 h2 htol hold hws hr]; simp
  · rw [subGo_general _ pre w0 L w1 w2 old rest true hq h0 hL h1 h2 htol hold hws hr]; simp

/-- the closed form when the declaration is the last parameter -/
theorem meta_rewritten_content_last (pre w0 L w1 w2 old e : PStr)
    (hq : quietGo true pre = true) (h0 : AllWs w0) (hL : SpellsKey L) (h1 : AllWs w1) (h2 : AllWs w2)
    (htol : charsetReSpaceTolerant = true ∨ (w1 = [] ∧ w2 = []))
    (hold : ∀ c ∈ old, c ≠ 59) (hws : old.dropWhile isReSpace = old) :
    substituteContent e (pre ++ 59 :: (w0 ++ (L ++ (w1 ++ (61 :: (w2 ++ old))))))
      = if isPythonSpecific e then pre else pre ++ 59 :: (w0 ++ (L ++ (w1 ++ (61 :: (w2 ++ e))))) := by
  have := meta_rewritten_content pre w0 L w1 w2 old [] e hq h0 hL h1 h2 htol hold hws (Or.inl rfl)
  simp only [List.append_nil] at this
  rw [this]
  split <;> simp [subGo]

-- the hypotheses are satisfiable, by the spellings the input side reads: earlier parameters, upper case, spaces, a value
-- with regex metacharacters, a following parameter
example : quietGo true (ofS "text/html; x=y;\n q") = true := by decide
example : quietGo true (ofS "application/xhtml+xml") = true := by decide
example : quietGo true (ofS "a; charset=x") = false := by decide
example : AllWs (ofS " \t") := by unfold AllWs; decide
example : SpellsKey (ofS "ChArSeT") := by unfold SpellsKey; decide
example : SpellsKey (ofS "charset") := by unfold SpellsKey; decide
example : substituteContent (ofS "866") (ofS "text/html; x=y" ++ 59 :: (ofS " " ++ (ofS "CHARSET" ++ (ofS " " ++ (61 :: (ofS " " ++ (ofS "\\g<1>" ++ ofS "; z=1")))))))
    = ofS "text/html; x=y; CHARSET = 866; z=1" := by decide

/-- **The rewrite is literal, for ANY name.** Whenever `CHARSET_RE` finds a declaration in the original `content` value,
    the value rendered for a target name `e` — any code points whatsoever: leading digits (`866`, `1252`), backslashes,
    `\g<1>`, `$1`, `%s` — contains `e` verbatim (a callback, not a regex template, does the replacement), and no code path
    can raise. (`meta_rewritten_content` above also quantifies over every `e`, and every old value.) -/
theorem meta_rewritten_content_verbatim (e orig : PStr) (hp : isPythonSpecific e = false)
    (hs : charsetReSearch true orig = true) : e <:+: substituteContent e orig := by
  unfold substituteContent charsetReSub
  simp only [hp, Bool.false_eq_true, if_false]
  exact subGo_contains e orig true hs

/-- … and a Python-specific target only ever removes text -/
theorem meta_python_specific_only_removes (e orig : PStr) (hp : isPythonSpecific e = true) :
    (substituteContent e orig).length ≤ orig.length := by
  unfold substituteContent charsetReSub
  simp only [hp, if_true]
  exact subGo_empty_length orig 0 true

example : substituteContent (ofS "866") (ofS "text/html; charset=utf8") = ofS "text/html; charset=866" := by decide
example : substituteContent (ofS "437") (ofS "text/html\\1; x=\\2;charset=\\g<1>; y=$1") = ofS "text/html\\1; x=\\2;charset=437; y=$1" := by
  decide
example : substituteContent (ofS "latin\\1") (ofS "text/html; charset=utf8") = ofS "text/html; charset=latin\\1" := by decide
example : substituteContent (ofS "\\g<1>$1%s{0}") (ofS "a; charset=\\1") = ofS "a; charset=\\g<1>$1%s{0}" := by decide
example : charsetReSearch true (ofS "text/html; charset=utf8") = true := by decide

example : substituteContent (ofS "big5") (ofS "text/html" ++ ofS "; charset=" ++ ofS "utf8") = ofS "text/html; charset=big5" := by
  decide

/-- the XML declaration `BeautifulSoup.decode` writes names the target encoding, names nothing for a Python-specific one
    or for `None` -/
theorem xml_declaration (e : PStr) :
    xmlDeclaration (some e) = (if isPythonSpecific e then ofS "<?xml version=\"1.0\"?>\n"
      else ofS "<?xml version=\"1.0\" encoding=\"" ++ e ++ ofS "\"?>\n")
    ∧ xmlDeclaration none = ofS "<?xml version=\"1.0\"?>\n" := by
  constructor
  · cases h : isPythonSpecific e <;> simp [xmlDeclaration, h, ofS]
  · decide

/-- the names the Python documentation lists as Python-specific encodings (both spellings), as the property states them -/
def documentedPythonSpecific : List PStr :=
  [ofS "idna", ofS "mbcs", ofS "oem", ofS "palmos", ofS "punycode", ofS "raw_unicode_escape", ofS "undefined",
   ofS "unicode_escape", ofS "raw-unicode-escape", ofS "unicode-escape", ofS "string-escape", ofS "string_escape"]

/-- the WHOLE generated `PYTHON_SPECIFIC_ENCODINGS` table is exactly that list (each way), so `isPythonSpecific` is
    membership in the documented list; real codec names — and other letter cases of the listed ones — are not in it -/
theorem python_specific_table :
    documentedPythonSpecific.all isPythonSpecific = true
    ∧ pythonSpecificEncodings.all (fun e => documentedPythonSpecific.contains e) = true
    ∧ [ofS "utf-8", ofS "ascii", ofS "latin-1", ofS "utf-16", ofS "koi8-r", ofS "IDNA", []].all (fun e => !isPythonSpecific e) = true := by
  decide

theorem isPythonSpecific_iff (e : PStr) : isPythonSpecific e = true ↔ e ∈ documentedPythonSpecific := by
  constructor
  · intro h
    have hm : e ∈ pythonSpecificEncodings := List.contains_iff_mem.mp h
    have := List.all_eq_true.mp python_specific_table.2.1 e hm
    exact List.contains_iff_mem.mp this
  · intro h
    exact List.all_eq_true.mp python_specific_table.1 e h

/-! ## 5. re-detection: the output of an ASCII-compatible codec carries a declaration a reader finds -/

/-- The same fact for the simpler reader `findDeclared` that takes the *first* `charset\s*=\s*["']?value` anywhere in the
    bytes (no `<meta` context): any ASCII text `pre` in which the word `charset` does not occur (`quietDecl`, decidable), then
    the HTML5 declaration as the renderer writes it for `e`. (`redetect_charset` / `redetect_content` below are the statements
    against dammit's own regex.) -/
theorem redetect_charset_first_match (C : Codec) (hc : C.AsciiCompat) (pre e rest : PStr) (hpre : ∀ c ∈ pre, c < 128)
    (hq : quietDecl pre = true) (he : NameLike e) (hrest : C.Encodable rest) :
    findDeclared (C.enc (pre ++ ofS "charset=\"" ++ e ++ [34] ++ rest)) = some e := by
  have hasc : ∀ c ∈ pre ++ ofS "charset=\"" ++ e ++ [34], c < 128 := by
    intro c hc
    simp only [List.mem_append] at hc
    rcases hc with ((hc | hc) | hc) | hc
    · exact hpre c hc
    · revert c; decide
    · exact (he c hc).1
    · simp at hc; omega
  rw [hc _ rest hasc hrest]
  have e1 : pre ++ ofS "charset=\"" ++ e ++ [34] ++ C.enc rest = pre ++ (ofS "charset=" ++ (34 :: (e ++ 34 :: C.enc rest))) := by
    simp [ofS]
  rw [e1, findDeclared_quiet pre _ hq, findDeclared_key_quoted e _ he]

/-- the same for the HTML4 declaration (`… charset=e"`, non-empty name): `pre` is then everything up to the key, e.g.
    `<html><head><meta content="text/html; ` -/
theorem redetect_content_first_match (C : Codec) (hc : C.AsciiCompat) (pre e rest : PStr) (hpre : ∀ c ∈ pre, c < 128)
    (hq : quietDecl pre = true) (he : NameLike e) (hne : e ≠ []) (hrest : C.Encodable rest) :
    findDeclared (C.enc (pre ++ ofS "charset=" ++ e ++ [34] ++ rest)) = some e := by
  have hasc : ∀ c ∈ pre ++ ofS "charset=" ++ e ++ [34], c < 128 := by
    intro c hc
    simp only [List.mem_append] at hc
    rcases hc with ((hc | hc) | hc) | hc
    · exact hpre c hc
    · revert c; decide
    · exact (he c hc).1
    · simp at hc; omega
  rw [hc _ rest hasc hrest]
  obtain ⟨c, cs, rfl⟩ : ∃ c cs, e = c :: cs := by
    cases e with
    | nil => exact absurd rfl hne
    | cons c cs => exact ⟨c, cs, rfl⟩
  have e1 : pre ++ ofS "charset=" ++ (c :: cs) ++ [34] ++ C.enc rest = pre ++ (ofS "charset=" ++ (c :: cs ++ 34 :: C.enc rest)) := by
    simp [ofS]
  rw [e1, findDeclared_quiet pre _ hq, findDeclared_key_bare c cs _ he]

/-- **Re-detection against the input side's own model (full for the HTML5 declaration).** `BS.EncodingIn.htmlSearch` is
    C07's model of dammit's `html_meta` regex — leftmost `<\s*meta`, greedy `[^>]+`, the LAST `charset\s*=\s*["']?…` of that
    tag. For every ASCII-compatible codec, every ASCII text `pre` before the tag in which that regex finds nothing (whatever
    follows: `hq`), every tag `<meta A charset="e" B>` as `_format_tag` writes it (`A`: earlier attributes, any ASCII without
    `>`; `B`: ASCII without `=` and `>`, e.g. the `/` of a void element), every name `e` a declaration can carry, and
    everything after the tag: the regex, run on the bytes `encode` produced, returns `e`. -/
theorem redetect_charset (C : Codec) (hc : C.AsciiCompat) (pre A e B rest : PStr)
    (hpre : ∀ c ∈ pre, c < 128) (hq : ∀ X, EncodingIn.htmlSearch (pre ++ X) = EncodingIn.htmlSearch X)
    (hA : ∀ c ∈ A, c < 128 ∧ c ≠ 62) (he : DetName e) (hB : ∀ c ∈ B, c < 128 ∧ c ≠ 61 ∧ c ≠ 62) (hrest : C.Encodable rest) :
    EncodingIn.htmlSearch (C.enc ((pre ++ (ofS "<meta " ++ (A ++ (ofS "charset=\"" ++ (e ++ 34 :: (B ++ [62])))))) ++ rest)) = some e := by
  have hasc : ∀ c ∈ pre ++ (ofS "<meta " ++ (A ++ (ofS "charset=\"" ++ (e ++ 34 :: (B ++ [62]))))), c < 128 := by
    intro c hc
    simp only [List.mem_append, List.mem_cons, List.mem_singleton, List.not_mem_nil, or_false] at hc
    rcases hc with hc | hc | hc | hc | hc | rfl | hc | rfl
    · exact hpre c hc
    · revert c; decide
    · exact (hA c hc).1
    · revert c; decide
    · exact (he c hc).1
    · omega
    · exact (hB c hc).1
    · omega
  rw [hc _ rest hasc hrest]
  have e1 : (pre ++ (ofS "<meta " ++ (A ++ (ofS "charset=\"" ++ (e ++ 34 :: (B ++ [62])))))) ++ C.enc rest
      = pre ++ (ofS "<meta " ++ (A ++ (ofS "charset=\"" ++ (e ++ 34 :: (B ++ 62 :: C.enc rest))))) := by simp
  rw [e1, hq]
  exact htmlSearch_meta A e B _ (fun c h => (hA c h).2) he (fun c h => ⟨(hB c h).2.1, (hB c h).2.2⟩)

/-- … and for the HTML4 declaration: `<meta A charset=e" B>` where `A` is everything of the tag up to the key (e.g.
    `content="text/html; `), `e` is non-empty, and `B` is the rest of the tag in which the regex finds nothing more
    (`hB`, e.g. ` http-equiv="Content-Type"/`). -/
theorem redetect_content (C : Codec) (hc : C.AsciiCompat) (pre A : PStr) (c : Nat) (cs B rest : PStr)
    (hpre : ∀ x ∈ pre, x < 128) (hq : ∀ X, EncodingIn.htmlSearch (pre ++ X) = EncodingIn.htmlSearch X)
    (hA : ∀ x ∈ A, x < 128 ∧ x ≠ 62) (he : DetName (c :: cs)) (hBa : ∀ x ∈ B, x < 128)
    (hB : ∀ X, EncodingIn.lastCharset (B ++ 62 :: X) = none) (hrest : C.Encodable rest) :
    EncodingIn.htmlSearch (C.enc ((pre ++ (ofS "<meta " ++ (A ++ (ofS "charset=" ++ (c :: cs ++ 34 :: (B ++ [62])))))) ++ rest))
      = some (c :: cs) := by
  have hasc : ∀ x ∈ pre ++ (ofS "<meta " ++ (A ++ (ofS "charset=" ++ (c :: cs ++ 34 :: (B ++ [62]))))), x < 128 := by
    intro x hx
    simp only [List.mem_append, List.mem_cons, List.mem_singleton, List.not_mem_nil, or_false] at hx
    rcases hx with hx | hx | hx | hx | hx | rfl | hx | rfl
    · exact hpre x hx
    · revert x; decide
    · exact (hA x hx).1
    · revert x; decide
    · rcases hx with rfl | hx
      · exact (he _ (by simp)).1
      · exact (he x (by simp [hx])).1
    · omega
    · exact hBa x hx
    · omega
  rw [hc _ rest hasc hrest]
  have e1 : (pre ++ (ofS "<meta " ++ (A ++ (ofS "charset=" ++ (c :: cs ++ 34 :: (B ++ [62])))))) ++ C.enc rest
      = pre ++ (ofS "<meta " ++ (A ++ (ofS "charset=" ++ (c :: cs ++ 34 :: (B ++ 62 :: C.enc rest))))) := by simp
  rw [e1, hq]
  exact htmlSearch_meta_bare A c cs B _ (fun x h => (hA x h).2) he (hB _)

example : ∀ X, EncodingIn.lastCharset (ofS " http-equiv=\"Content-Type\"/" ++ 62 :: X) = none := by intro X; rfl
example : EncodingIn.htmlSearch (latin1Codec.enc (decodeNode (some (ofS "latin-1")) []
    (.tag (ofS "head") [] [.tag (ofS "title") [] [.text [0xE9]], metaContent, .tag (ofS "p") [] [.text [0x2603]]])))
    = some (ofS "latin-1") := by decide +kernel

-- the hypotheses are satisfiable: a real document head before the tag, a real codec, a real name
example : ∀ X, EncodingIn.htmlSearch (ofS "<html><head><title>t</title>" ++ X) = EncodingIn.htmlSearch X := by intro X; rfl
example : DetName (ofS "iso-8859-15") := by unfold DetName; decide
example : EncodingIn.htmlSearch (utf8Codec.enc (decodeNode (some (ofS "utf-8")) []
    (.tag (ofS "html") [] [.tag (ofS "head") [] [.tag (ofS "title") [] [.text [0x2603]], metaCharset], .text [0x1F600]])))
    = some (ofS "utf-8") := by decide +kernel
-- with both declaration styles in one tag the regex takes the one in `content` — which the repaired code has rewritten too
example : EncodingIn.htmlSearch (latin1Codec.enc (decodeNode (some (ofS "latin-1")) []
    (.tag (ofS "meta") (setUpSubstitutions (ofS "meta") metaBothAttrs) []))) = some (ofS "latin-1") := by decide +kernel

/-- **BOM-carrying output.** `utf-32` output is always recognised by its mark, `utf-16` output whenever the rendering does
    not begin with U+0000 (a rendering begins with `<` or text) — the "(and those written with a byte-order mark)" clause. -/
theorem redetect_bom (s : PStr) (c : Nat) (cs : PStr) (h0 : c ≠ 0) (hc : c < 0x10000) :
    sniffBom (utf32Codec.enc s) = some .utf32le ∧ sniffBom (utf16Codec.enc (c :: cs)) = some .utf16le :=
  ⟨sniff_utf32 s, sniff_utf16 c cs h0 hc⟩

/-- without that proviso it fails: a `utf-16` document that begins with U+0000 carries `FF FE 00 00`, the UTF-32-LE mark -/
theorem redetect_bom_needs_nonzero_start : sniffBom (utf16Codec.enc [0, 60]) = some .utf32le := by decide

example : utf8Codec.AsciiCompat ∧ (tableCodec sb_koi8_r).AsciiCompat :=
  ⟨utf8_asciiCompat, (sb_table_codec_laws (ofS "koi8-r") sb_koi8_r (by simp [sbCodecs, ofS])).2.2 (by decide)⟩
example : quietDecl (ofS "<html><head><title>chars et al</title><meta a=\"c\" ") = true := by decide
example : quietDecl (ofS "<meta content=\"text/html; x=CHARSET; ") = false := by decide
example : findDeclared (utf8Codec.enc (ofS "<html><head><meta " ++ ofS "charset=\"" ++ ofS "utf-8" ++ [34] ++ [0x2603, 0x1F600])) = some (ofS "utf-8") := by
  decide
example : findDeclared (asciiCodec.enc (decodeNode (some (ofS "ascii")) [] metaCharset)) = some (ofS "ascii") := by decide
example : findDeclared (latin1Codec.enc (decodeNode (some (ofS "latin-1")) [] metaContent)) = some (ofS "latin-1") := by decide
example : NameLike (ofS "iso-8859-15") := by unfold NameLike; decide

end BS.Props.C08
