import BSModel.Proofs.Entities
import BSModel.Proofs.Html5
import BSModel.Proofs.Html5Fix
import BSModel.Proofs.Html5Agree
import BSModel.Proofs.Html5End
import BSModel.Proofs.EntitiesPopulate
import BSModel.Gen.EntitiesSource
import BSModel.Model.EntitiesGlue
import BSModel.Proofs.EntitiesTokenizer
import BSModel.Gen.Entities
import BSModel.Gen.EntitiesFormatters
/-! # C09 — entity substitution and attribute quoting are reversible for every string

`T : Tbl` is the data of `EntitySubstitution` (the alternatives parsed back from the two compiled patterns, the three
dictionaries) and of the readers; `X` is `CHARACTER_TO_XML_ENTITY`. Every theorem is for **all** strings (lists of
code points, lone surrogates and out-of-range values included) and for **every** table satisfying the decidable
well-formedness predicates `TblOK` / `XmlOK`; `tblOK_live` / `xmlOK_live` discharge these for the tables generated
from the working tree by kernel evaluation, so one changed entry breaks a named obligation.

Readers: `readText T late 0` = html.parser (convert_charrefs=False) + bs4's handle_entityref/handle_charref on tag-free
text; `readAttr T` = quote stripping + `html.unescape`. Both are validated against the real parser by the check. -/
namespace BS.Props.C09
open BS.Entities BS.Reader

/-! ## table obligations (re-proved from the live tables on every run) -/

/-- The live tables are well-formed: every alternative of both compiled regexes has a name in
    `CHARACTER_TO_HTML_ENTITY`; the name is `[A-Za-z][A-Za-z0-9]*`, at most 31 long; `HTML_ENTITY_TO_CHARACTER[name]` and
    `html5[name;]` are exactly the matched text; alternatives are mutually exclusive (look-ahead classes cover every
    longer alternative); `&` (ampersand pattern), `<`, `>` are always caught; `html5["quot;"] = '"'`. -/
theorem tblOK_live : TblOK BS.Gen.C09.htmlTable = true := by decide +kernel

/-- `CHARACTER_TO_XML_ENTITY` has `&`, `<`, `>` with names both readers map back. -/
theorem xmlOK_live : XmlOK BS.Gen.C09.xmlTable BS.Gen.C09.htmlTable = true := by decide +kernel

/-- The two generated patterns consist only of the particle shapes the model knows (re-assembling the parsed particles
    gives the pattern text back), and the three hand-written patterns have the text and flags the model mirrors. -/
theorem patterns_as_modelled : BS.Gen.C09.patternShapeOk = true ∧ BS.Gen.C09.fixedPatternsAsModelled = true := by decide

/-- The registries name the functions the property is about: `minimal` ↦ substitute_xml, `html` ↦ substitute_html,
    `html5` ↦ substitute_html5, `None` ↦ no substitution. -/
theorem registry_live :
    (findFormatter BS.Gen.C09.htmlRegistry true (ofS "minimal")).map (·.fn) = some 1 ∧
    (findFormatter BS.Gen.C09.htmlRegistry true (ofS "html")).map (·.fn) = some 2 ∧
    (findFormatter BS.Gen.C09.htmlRegistry true (ofS "html5")).map (·.fn) = some 3 ∧
    (findFormatter BS.Gen.C09.htmlRegistry false []).map (·.fn) = some 0 ∧
    (findFormatter BS.Gen.C09.xmlRegistry true (ofS "minimal")).map (·.fn) = some 1 ∧
    (findFormatter BS.Gen.C09.xmlRegistry true (ofS "html")).map (·.fn) = some 2 ∧
    (findFormatter BS.Gen.C09.xmlRegistry false []).map (·.fn) = some 0 := by decide

example : substHtml BS.Gen.C09.htmlTable [60, 233, 38, 8807, 824] =
    ofS "&lt;&eacute;&amp;&ngeqq;" := by decide +kernel
example : substXml BS.Gen.C09.xmlTable (ofS "a<b>&c") = ofS "a&lt;b&gt;&amp;c" := by decide +kernel

/-! ## substitute_xml ('minimal') -/

/-- `substitute_xml` never raises `KeyError`. -/
theorem xml_no_keyerror (X : List (Nat × PStr)) (T : Tbl) (h : XmlOK X T = true) (s : PStr) :
    xmlKeyError X s = none := xmlKeyError_none h s

/-- No raw `<` or `>` in the output of `substitute_xml`. -/
theorem xml_no_raw_brackets (X : List (Nat × PStr)) (T : Tbl) (h : XmlOK X T = true) (s : PStr) :
    60 ∉ substXml X s ∧ 62 ∉ substXml X s :=
  html_no_raw_gen T xmlParticles (xmlRep X) (repOK_xml h) xml_covers.2.1 xml_covers.2.2 s

/-- Every `&` in the output of `substitute_xml` is followed by `name;` for a name known to the reader. -/
theorem xml_amp_only_as_reference (X : List (Nat × PStr)) (T : Tbl) (h : XmlOK X T = true) (s pre post : PStr)
    (hs : substXml X s = pre ++ 38 :: post) :
    ∃ n rest, post = n ++ 59 :: rest ∧ isName n = true ∧ (T.toChar.get n).isSome = true :=
  toks_amp (toks_gen T xmlParticles (xmlRep X) (repOK_xml h) xml_covers.1 s) pre post hs

/-- Reading the output of `substitute_xml` back as element text yields the original string. -/
theorem xml_text_roundtrip (X : List (Nat × PStr)) (T : Tbl) (h : XmlOK X T = true) (late : Bool) (s : PStr) :
    readText T late 0 (substXml X s) = s :=
  html_text_roundtrip_gen T late xmlParticles (xmlRep X) (repOK_xml h) xml_covers.1 s

example : readText BS.Gen.C09.htmlTable false 0 (substXml BS.Gen.C09.xmlTable (ofS "&lt;<&#60;")) = ofS "&lt;<&#60;" :=
  xml_text_roundtrip _ _ xmlOK_live _ _

/-! ## substitute_html ('html') -/

/-- No raw `<` or `>` in the output of `substitute_html`. -/
theorem html_no_raw_brackets (T : Tbl) (h : TblOK T = true) (s : PStr) :
    60 ∉ substHtml T s ∧ 62 ∉ substHtml T s :=
  let ⟨h1, _, h60, h62, _⟩ := tblOK_amp h
  html_no_raw_gen T T.particlesAmp (htmlRep T) h1 h60 h62 s

/-- Every `&` in the output of `substitute_html` is followed by `name;` for a name known to the reader: there is no
    ampersand a parser could read differently. -/
theorem html_amp_only_as_reference (T : Tbl) (h : TblOK T = true) (s pre post : PStr)
    (hs : substHtml T s = pre ++ 38 :: post) :
    ∃ n rest, post = n ++ 59 :: rest ∧ isName n = true ∧ (T.toChar.get n).isSome = true :=
  let ⟨h1, _, _, _, h38⟩ := tblOK_amp h
  toks_amp (toks_gen T T.particlesAmp (htmlRep T) h1 h38 s) pre post hs

/-- Reading the output of `substitute_html` back as element text yields the original string — multi-code-point
    entities, look-alike references (`&lt;` in the input) and all. -/
theorem html_text_roundtrip (T : Tbl) (h : TblOK T = true) (late : Bool) (s : PStr) :
    readText T late 0 (substHtml T s) = s :=
  let ⟨h1, _, _, _, h38⟩ := tblOK_amp h
  html_text_roundtrip_gen T late T.particlesAmp (htmlRep T) h1 h38 s

example : readText BS.Gen.C09.htmlTable false 0 (substHtml BS.Gen.C09.htmlTable [8807, 824, 38, 108, 116, 59, 8807]) =
    [8807, 824, 38, 108, 116, 59, 8807] := html_text_roundtrip _ tblOK_live _ _

/-! ## quoted_attribute_value -/

/-- The result is always `q body q` with `q` one of the two quote characters and **no** `q` inside `body`. -/
theorem quote_wellformed (v : PStr) :
    ∃ q body, quoteAttr v = q :: body ++ [q] ∧ (q = 34 ∨ q = 39) ∧ q ∉ body :=
  ⟨quoteChar v, quoteBody v, quoteAttr_eq v, quoteChar_cases v, quoteChar_not_mem_body v⟩

/-- Which quote and which body: double quotes unless the value has `"` and no `'`; when it has both, every `"`
    becomes `&quot;`. -/
theorem quote_choice (v : PStr) :
    quoteAttr v =
      if 34 ∈ v ∧ 39 ∈ v then 34 :: replaceDq v ++ [34]
      else if 34 ∈ v then 39 :: v ++ [39]
      else 34 :: v ++ [34] := by
  unfold quoteAttr
  by_cases h1 : 34 ∈ v <;> by_cases h2 : 39 ∈ v <;> simp [h1, h2]

example : quoteAttr (ofS "a\"b'c") = ofS "\"a&quot;b'c\"" := by decide
example : quoteAttr (ofS "a\"b") = ofS "'a\"b'" := by decide

/-- A quoted value is read as one attribute value: the unescaped body. -/
theorem quote_read (T : Tbl) (v : PStr) : readAttr T (quoteAttr v) = some (unescape T 0 (quoteBody v)) :=
  readAttr_quoteAttr T v

/-- Substituted with `substitute_xml`, quoted, and read back as an attribute value: the original string. -/
theorem xml_attr_roundtrip (X : List (Nat × PStr)) (T : Tbl) (hx : XmlOK X T = true) (h : TblOK T = true) (s : PStr) :
    readAttr T (quoteAttr (substXml X s)) = some s := by
  have := html_attr_roundtrip_gen T xmlParticles (xmlRep X) (repOK_xml hx) xml_covers.1 (tblOK_quot h) s
  rw [quote_read]
  unfold quoteBody substXml
  split <;> simp [this.1, this.2]

/-- Substituted with `substitute_html`, quoted, and read back as an attribute value: the original string. -/
theorem html_attr_roundtrip (T : Tbl) (h : TblOK T = true) (s : PStr) :
    readAttr T (quoteAttr (substHtml T s)) = some s := by
  obtain ⟨h1, _, _, _, h38⟩ := tblOK_amp h
  have := html_attr_roundtrip_gen T T.particlesAmp (htmlRep T) h1 h38 (tblOK_quot h) s
  rw [quote_read]
  unfold quoteBody substHtml substHtmlWith
  split <;> simp [this.1, this.2]

example : readAttr BS.Gen.C09.htmlTable (quoteAttr (substHtml BS.Gen.C09.htmlTable (ofS "a\"b'<c&quot;"))) =
    some (ofS "a\"b'<c&quot;") := html_attr_roundtrip _ tblOK_live _

/-! ## the order of the alternation does not matter -/

/-- At every position at most one alternative of a well-formed table matches. -/
theorem alternatives_exclusive (T : Tbl) (h : TblOK T = true) : Excl T.particlesAmp ∧ Excl T.particles :=
  ⟨(tblOK_amp h).2.1, (tblOK_plain h).2.1⟩

/-- Any reordering of the alternation of `CHARACTER_TO_HTML_ENTITY_WITH_AMPERSAND_RE` (it is joined from a `set`, so
    its order depends on the hash seed) gives the same `substitute_html`. -/
theorem order_irrelevant (T : Tbl) (h : TblOK T = true) (ps' : List Particle) (hp : ps'.Perm T.particlesAmp)
    (s : PStr) : substHtmlWith T ps' s = substHtml T s :=
  reSub_congr (firstMatch_of_same_members (tblOK_amp h).2.1 (fun _ => hp.mem_iff)) _ 0 s

/-- The same for `CHARACTER_TO_HTML_ENTITY_RE` and `substitute_html5`. -/
theorem order_irrelevant_html5 (T : Tbl) (h : TblOK T = true) (ps' : List Particle) (hp : ps'.Perm T.particles)
    (s : PStr) : substHtml5With T ps' s = substHtml5 T s :=
  reSub_congr (firstMatch_of_same_members (tblOK_plain h).2.1 (fun _ => hp.mem_iff)) _ 0 _

example : substHtmlWith BS.Gen.C09.htmlTable BS.Gen.C09.htmlTable.particlesAmp.reverse [8807, 824] =
    substHtml BS.Gen.C09.htmlTable [8807, 824] :=
  order_irrelevant _ tblOK_live _ (List.reverse_perm _) _

/-! ## substitute_html5 ('html5')

`substHtml5` is the **repaired** function (fixes/C09-html5-ampersand.diff): its first pass visits every `&` and escapes it
exactly when a parser would read it as the start of a character reference — `#` follows; or `(#\d+|#x[0-9a-fA-F]+|\w+);`;
or a name `[a-zA-Z][-.a-zA-Z0-9]*` that is followed by `;`, or is a known entity name, or begins with one of the names
that need no semicolon. For it the clause "the 'html5' substitution never changes the string a parser reads back" is
proved at full strength, for text and for attribute values. `substHtml5Old` is 4.13.0 as shipped; the clause is false of
it (four decided refutations), and `html5_old_roundtrip_partial` says how far it does hold. -/

/-- The live tables satisfy what the repaired html5 round trip needs beyond `TblOK`: no alternative contains `&` or starts
    with `&`, `;`, `"` or a code point that can occur in an entity name; both readers know `amp` and `quot`; every
    alternative of `SEMICOLON_OPTIONAL_ENTITY_RE` is a well-formed name; and **every** key of `html.entities.html5`
    (checked over the whole dictionary) is `name;` for a well-formed name or one of those alternatives. -/
theorem html5FixOK_live : Html5FixOK BS.Gen.C09.htmlTable = true := by decide +kernel

/-- No raw `<` or `>` in the output of `substitute_html5`. -/
theorem html5_no_raw_brackets (T : Tbl) (h : TblOK T = true) (s : PStr) :
    60 ∉ substHtml5 T s ∧ 62 ∉ substHtml5 T s :=
  let ⟨h1, _, h60, h62⟩ := tblOK_plain h
  html_no_raw_gen T T.particles (htmlRep T) h1 h60 h62 _

/-- **Every** string written with `substitute_html5` is read back, as element text, as the original. -/
theorem html5_text_roundtrip (T : Tbl) (h : TblOK T = true) (h5 : Html5FixOK T = true) (late : Bool) (s : PStr) :
    readText T late 0 (substHtml5 T s) = s :=
  let ⟨hk, _, hamp, _⟩ := html5FixOK_spec h5
  fix_text_roundtrip_gen T late T.particles (htmlRep T) (tblOK_plain h).1 hk hamp s

/-- **Every** string written with `substitute_html5`, quoted, is read back as an attribute value as the original —
    including the both-quotes case (`"` ↦ `&quot;`). -/
theorem html5_attr_roundtrip (T : Tbl) (h : TblOK T = true) (h5 : Html5FixOK T = true) (s : PStr) :
    readAttr T (quoteAttr (substHtml5 T s)) = some s := by
  obtain ⟨hk, h34, _, hampu, hq1, hleg, hall⟩ := html5FixOK_spec h5
  have hR := (tblOK_plain h).1
  rw [quote_read]
  unfold quoteBody
  split
  · unfold substHtml5 substHtml5With
    rw [replaceDq_reSub hR h34,
      fix_attr_roundtrip_gen T _ _ (repOK_quot hR h34 hq1 (tblOK_quot h)) (keysOK_quot hk) hampu hleg hall s]
  · unfold substHtml5 substHtml5With
    rw [fix_attr_roundtrip_gen T _ _ hR hk hampu hleg hall s]

example : readText BS.Gen.C09.htmlTable false 0 (substHtml5 BS.Gen.C09.htmlTable (ofS "&lt x &#65 &a-b; &#x &foo bar")) =
    ofS "&lt x &#65 &a-b; &#x &foo bar" := html5_text_roundtrip _ tblOK_live html5FixOK_live _ _
example : readAttr BS.Gen.C09.htmlTable (quoteAttr (substHtml5 BS.Gen.C09.htmlTable (ofS "&ltx \"'&notit;"))) =
    some (ofS "&ltx \"'&notit;") := html5_attr_roundtrip _ tblOK_live html5FixOK_live _
/-- what the repair writes for the four shapes, and what it still leaves alone -/
example : substHtml5 BS.Gen.C09.htmlTable (ofS "&lt x") = ofS "&amp;lt x" ∧
    substHtml5 BS.Gen.C09.htmlTable (ofS "&#65 x") = ofS "&amp;#65 x" ∧
    substHtml5 BS.Gen.C09.htmlTable (ofS "&a-b;") = ofS "&amp;a-b;" ∧
    substHtml5 BS.Gen.C09.htmlTable (ofS "&#x") = ofS "&amp;#x" ∧
    substHtml5 BS.Gen.C09.htmlTable (ofS "&lol & &y=2&1") = ofS "&lol & &y=2&1" := by
  decide +kernel

/-! ### reading contexts

`readText` reads text that is **followed by a tag** (element text before its end tag or before a child; top-level text before
any later markup): the reader every theorem above is about, and the one proved equal to the tokenizer (`…_tokenized`).
`readTextEnd` reads text that is **the last thing of the document** (top-level text with nothing after it, or text in an
element that is never closed), where html.parser treats an unterminated reference specially at `close()`. It is a reader
model compared with the real parser on every generated case; its equality with `Tokenizer.run` on a bare text is NOT
proved (stated only). The theorems below cover this second context, for all strings; attribute values always sit inside a
tag and have the one context. `substHtml5Mid` is the function after the first repair (/repo 3ee7146), which does not
round-trip in the second context; `substHtml5` includes the end-of-document repair
(fixes/C09-html5-ampersand-eof.diff: an `&` is also escaped when its name runs to the end of the string and is a single
letter or has a known entity name before its last `-`/`.`). -/

/-- `minimal`, text at the very end of the document. -/
theorem xml_text_roundtrip_end (X : List (Nat × PStr)) (T : Tbl) (h : XmlOK X T = true) (late : Bool) (s : PStr) :
    readTextEnd T late 0 (substXml X s) = s :=
  html_text_roundtrip_end_gen T late xmlParticles (xmlRep X) (repOK_xml h) xml_covers.1 s

/-- `html`, text at the very end of the document. -/
theorem html_text_roundtrip_end (T : Tbl) (h : TblOK T = true) (late : Bool) (s : PStr) :
    readTextEnd T late 0 (substHtml T s) = s :=
  let ⟨h1, _, _, _, h38⟩ := tblOK_amp h
  html_text_roundtrip_end_gen T late T.particlesAmp (htmlRep T) h1 h38 s

/-- `html5`, text at the very end of the document: **every** string reads back as the original there too. -/
theorem html5_text_roundtrip_end (T : Tbl) (h : TblOK T = true) (h5 : Html5FixOK T = true) (late : Bool) (s : PStr) :
    readTextEnd T late 0 (substHtml5 T s) = s :=
  let ⟨hk, _, hamp, _⟩ := html5FixOK_spec h5
  fix_text_roundtrip_end_gen T late T.particles (htmlRep T) (tblOK_plain h).1 hk hamp s

example : readTextEnd BS.Gen.C09.htmlTable false 0 (substHtml5 BS.Gen.C09.htmlTable (ofS "x &Lt-x &y &a-b &Lt-x")) =
    ofS "x &Lt-x &y &a-b &Lt-x" := html5_text_roundtrip_end _ tblOK_live html5FixOK_live _ _

/-- Refutation for the first repair alone (finding `C09-html5-eof-entity-prefix`): at the very end of the document
    `&Lt-x` is written unchanged and read back as `≪-x`, and `x&a` is read back as `xa`; inside an element both are fine;
    the extended repair escapes both. -/
theorem html5_mid_not_reversible_at_end :
    substHtml5Mid BS.Gen.C09.htmlTable (ofS "&Lt-x") = ofS "&Lt-x" ∧
    readTextEnd BS.Gen.C09.htmlTable false 0 (substHtml5Mid BS.Gen.C09.htmlTable (ofS "&Lt-x")) = [8810] ++ ofS "-x" ∧
    readTextEnd BS.Gen.C09.htmlTable false 0 (substHtml5Mid BS.Gen.C09.htmlTable (ofS "x&a")) = ofS "xa" ∧
    readText BS.Gen.C09.htmlTable false 0 (substHtml5Mid BS.Gen.C09.htmlTable (ofS "&Lt-x")) = ofS "&Lt-x" ∧
    substHtml5 BS.Gen.C09.htmlTable (ofS "&Lt-x") = ofS "&amp;Lt-x" ∧
    substHtml5 BS.Gen.C09.htmlTable (ofS "x&a") = ofS "x&amp;a" := by
  decide +kernel

/-! ### 4.13.0 as shipped (`substHtml5Old`) -/

/-- What the partial round trip of the old function needs of the tables. -/
theorem html5OK_live : Html5OK BS.Gen.C09.htmlTable = true := by decide +kernel

/-- FULL STATEMENT (false, see the refutations): `∀ s, readText T late 0 (substHtml5Old T s) = s`.
    Proved: for every string whose ampersands are either escaped by the old first pass or followed by something other
    than an ASCII letter or `#`. Missing for an exact domain: a bare `&` before an *unknown* name without `;`
    (`&foo bar`) also round-trips as text. -/
theorem html5_old_roundtrip_partial (T : Tbl) (h : TblOK T = true) (h5 : Html5OK T = true) (late : Bool) (s : PStr)
    (hs : noBareRefStart T s = true) : readText T late 0 (substHtml5Old T s) = s :=
  html5_text_roundtrip_gen T late (tblOK_plain h).1 h5 s hs

example : readText BS.Gen.C09.htmlTable false 0 (substHtml5Old BS.Gen.C09.htmlTable (ofS "&lt;<& &&#60;a&;")) = ofS "&lt;<& &&#60;a&;" :=
  html5_old_roundtrip_partial _ tblOK_live html5OK_live _ _ (by decide +kernel)

/-- The old function computes the same output as the repaired one — hence round-trips as text **and** as attribute
    value — on every string where, at each `&`, "an entity body follows" (all the old first pass looked at) coincides
    with the repaired decision; i.e. no `&` is followed by `#` without a complete numeric reference, by a name with `-`/`.`
    and `;`, by a known name without `;`, or by a semicolon-optional name as a prefix. -/
theorem html5_old_eq_fixed (T : Tbl) (h5 : Html5OK T = true) (s : PStr) (hs : ampsAgree T s = true) :
    substHtml5Old T s = substHtml5 T s :=
  let ⟨hw, hd, _, _⟩ := html5OK_spec h5
  old_eq_fixed_of_agree hw hd s hs

/-- `a`, `m`, `p` are word characters for `re` and `;` is not (needed for the converse below). -/
theorem agreeOK_live : AgreeOK BS.Gen.C09.htmlTable = true := by decide +kernel

/-- **Exactly** where the repair changes nothing: the outputs of 4.13.0's function and of the repaired one coincide if and
    only if both take the same decision at every ampersand. (So the repair touches precisely the strings with an `&` before
    `#` without a complete numeric reference, before a name with `-`/`.` and `;`, before a known name without `;`, or before a
    semicolon-optional name as a prefix.) -/
theorem html5_old_eq_fixed_iff (T : Tbl) (h : TblOK T = true) (h5 : Html5OK T = true) (hf : Html5FixOK T = true)
    (ha : AgreeOK T = true) (s : PStr) : substHtml5Old T s = substHtml5 T s ↔ ampsAgree T s = true := by
  constructor
  · intro heq
    obtain ⟨hw, hd, _, _⟩ := html5OK_spec h5
    unfold substHtml5Old substHtml5 substHtml5With at heq
    rw [escapeEntities_eq_spec hw hd] at heq
    exact agree_of_old_eq_fixed (tblOK_plain h).1 (html5FixOK_spec hf).1 ha s heq
  · exact html5_old_eq_fixed T h5 s

theorem html5_old_roundtrip_of_agree (T : Tbl) (h : TblOK T = true) (h5 : Html5OK T = true) (hf : Html5FixOK T = true)
    (late : Bool) (s : PStr) (hs : ampsAgree T s = true) :
    readText T late 0 (substHtml5Old T s) = s ∧ readAttr T (quoteAttr (substHtml5Old T s)) = some s := by
  rw [html5_old_eq_fixed T h5 s hs]
  exact ⟨html5_text_roundtrip T h hf late s, html5_attr_roundtrip T h hf s⟩

example : ampsAgree BS.Gen.C09.htmlTable (ofS "a &foo b &amp; & &1 <") = true ∧
    ampsAgree BS.Gen.C09.htmlTable (ofS "&lt x") = false := by decide +kernel

/-- Refutation 1 (finding `C09-html5-bare-legacy-ref`): the old function writes `&lt x` unchanged and it is read back as
    `< x`, both as text and as an attribute value. -/
theorem html5_old_not_reversible_legacy_ref :
    substHtml5Old BS.Gen.C09.htmlTable (ofS "&lt x") = ofS "&lt x" ∧
    readText BS.Gen.C09.htmlTable false 0 (substHtml5Old BS.Gen.C09.htmlTable (ofS "&lt x")) = ofS "< x" ∧
    readAttr BS.Gen.C09.htmlTable (quoteAttr (substHtml5Old BS.Gen.C09.htmlTable (ofS "&lt x"))) = some (ofS "< x") := by
  decide +kernel

/-- Refutation 2 (`C09-html5-bare-numeric-ref`): `&#65 x` is read back as `A x`. -/
theorem html5_old_not_reversible_numeric_ref :
    readText BS.Gen.C09.htmlTable false 0 (substHtml5Old BS.Gen.C09.htmlTable (ofS "&#65 x")) = ofS "A x" ∧
    readAttr BS.Gen.C09.htmlTable (quoteAttr (substHtml5Old BS.Gen.C09.htmlTable (ofS "&#65 x"))) = some (ofS "A x") := by
  decide +kernel

/-- Refutation 3 (`C09-html5-unknown-ref-semicolon-dropped`): `&a-b;` is read back, as text, as `&a-b`. -/
theorem html5_old_not_reversible_semicolon_dropped :
    readText BS.Gen.C09.htmlTable false 0 (substHtml5Old BS.Gen.C09.htmlTable (ofS "&a-b;")) = ofS "&a-b" := by
  decide +kernel

/-- Refutation 4 (`C09-html5-amp-hash-runaway`): after `&#x` the tokenizer takes the rest of the document for text. -/
theorem html5_old_not_reversible_runaway :
    readText BS.Gen.C09.htmlTable false 0 (substHtml5Old BS.Gen.C09.htmlTable (ofS "&#x")) = ofS "&#x" ++ [RUNAWAY] := by
  decide +kernel

/-! ## `_populate_class_variables`: what the construction of the regexes guarantees for ANY html5 table

`populateParticles items` / `populateParticlesAmp items` mirror dammit.py:139-231 (`items = sorted(html5.items())`). The
correspondence compares them — and `unicodeToName`, `nameToUnicode`, `legacyNames` — with what the real function computes,
exactly, on the live tables and on synthetic html5 tables. The facts below hold by construction; the name round trip
(`HTML_ENTITY_TO_CHARACTER[CHARACTER_TO_HTML_ENTITY[k]] = k`) does not (it depends on html5 and codepoint2name agreeing) and
stays the decided table obligation `tblOK_live`. -/

/-- The live `html.entities.html5`: every character sequence is non-empty, those that enter the regex have at most two code
    points, none of them starts with `&`. -/
theorem itemsOK_live : itemsOK BS.Gen.C09.html5Items = true ∧ itemsNoAmpHead BS.Gen.C09.html5Items = true := by
  decide +kernel

/-- The dictionary the readers use and the item list the construction starts from are the same data. -/
theorem html5_dict_is_items_live : Dict.toList BS.Gen.C09.htmlTable.html5 = BS.Gen.C09.html5Items := by decide +kernel

/-- Look-ahead makes the alternatives mutually exclusive — for every well-formed table, not only the shipped one. -/
theorem populate_alternatives_exclusive (items : Items) (hok : itemsOK items = true)
    (hamp : itemsNoAmpHead items = true) : Excl (populateParticles items) ∧ Excl (populateParticlesAmp items) :=
  ⟨populate_exclusive hok, populateAmp_exclusive hok (itemsNoAmpHead_spec hamp)⟩

/-- Hence the order in which the `set` of particles is joined never matters. -/
theorem populate_order_irrelevant_any_table (items : Items) (hok : itemsOK items = true)
    (hamp : itemsNoAmpHead items = true) (ps' : List Particle) (hp : ps'.Perm (populateParticlesAmp items))
    (rep : PStr → PStr) (s : PStr) : reSub ps' rep 0 s = reSub (populateParticlesAmp items) rep 0 s :=
  populate_order_irrelevant hok (itemsNoAmpHead_spec hamp) ps' hp rep s

/-- `<`, `>` and every non-ASCII character html5 names are always caught by some alternative. -/
theorem populate_catches_named_characters (items : Items) (hok : itemsOK items = true) (c : Nat)
    (hc : ∃ it ∈ items, it.2 = [c] ∧ inRegex [c] = true ∧ c ≠ 38) : coversChar (populateParticles items) c = true :=
  populate_covers hok hc

/-- Every alternative has a name in `unicode_to_name` (so the `&amp;…;` fallback of `_substitute_html_entity` is dead code). -/
theorem populate_alternatives_named (items : Items) (cp2name : List (Nat × PStr)) (p : Particle)
    (hp : p ∈ populateParticles items) : (unicodeToName items cp2name p.key).isSome = true :=
  populate_keys_named cp2name hp

example : coversChar (populateParticles BS.Gen.C09.html5Items) 60 = true :=
  populate_catches_named_characters _ itemsOK_live.1 60 ⟨(ofS "LT", [60]), by decide +kernel, rfl, by decide, by decide⟩
example : populateParticlesAmp [(ofS "lt;", [60]), (ofS "nvlt;", [60, 8402]), (ofS "fjlig;", ofS "fj"), (ofS "amp", [38])] =
    [⟨[60], [8402]⟩, ⟨[60, 8402], []⟩, ⟨[38], []⟩] := by decide

/-! ## the registered formatters -/

/-- The only strings `Formatter.substitute` leaves alone are those whose parent is one of the formatter's
    `cdata_containing_tags`; the shipped configuration names exactly `script` and `style` for HTML and nothing for XML:
    `HTML_DEFAULTS`, a `Formatter` built with the option left at `None` (both languages), and every registered formatter. -/
theorem cdata_defaults_live :
    BS.Gen.C09.htmlDefaultCdata = [ofS "script", ofS "style"] ∧
    BS.Gen.C09.htmlFormatterCdata = [ofS "script", ofS "style"] ∧ BS.Gen.C09.xmlFormatterCdata = [] ∧
    BS.Gen.C09.htmlRegistry.all (fun e => e.cdata == [ofS "script", ofS "style"]) = true ∧
    BS.Gen.C09.xmlRegistry.all (fun e => e.cdata == []) = true := by decide

/-- A string whose parent is one of the configured `cdata_containing_tags` is returned untouched. -/
theorem substitute_exempt (X : List (Nat × PStr)) (T : Tbl) (e : RegEntry) (t s : PStr) (h : t ∈ e.cdata) :
    formatterSubstitute T X e (some t) s = s := by
  unfold formatterSubstitute
  split
  · rfl
  · simp [h]

example : ∃ e ∈ BS.Gen.C09.htmlRegistry, e.fn = 2 ∧ ofS "script" ∈ e.cdata ∧ ofS "SCRIPT" ∉ e.cdata ∧
    ofS "textarea" ∉ e.cdata := by decide

/-- Any other parent makes no difference: the string is treated like a plain `str` (an attribute value), i.e. the
    formatter's function is applied. -/
theorem substitute_not_exempt (X : List (Nat × PStr)) (T : Tbl) (e : RegEntry) (t s : PStr) (h : t ∉ e.cdata) :
    formatterSubstitute T X e (some t) s = formatterSubstitute T X e none s := by
  unfold formatterSubstitute
  split
  · rfl
  · simp [h]

/-- `cdata_containing_tags`: an explicit value is what the formatter uses — whatever it is; `None` means the HTML
    defaults for HTML and no tag for XML. -/
theorem cdata_option (d : List PStr) (xml : Bool) (fn : Nat) (v : List PStr) :
    (mkFormatter d xml fn (some v)).cdata = v ∧ (mkFormatter d false fn none).cdata = d ∧
      (mkFormatter d true fn none).cdata = [] := ⟨rfl, rfl, rfl⟩

/-- With an explicitly empty `cdata_containing_tags` every string is substituted, `<script>`/`<style>` content included. -/
theorem empty_cdata_substitutes_everything (X : List (Nat × PStr)) (T : Tbl) (d : List PStr) (xml : Bool) (fn : Nat)
    (p : Option PStr) (s : PStr) :
    formatterSubstitute T X (mkFormatter d xml fn (some [])) p s =
      formatterSubstitute T X (mkFormatter d xml fn (some [])) none s := by
  cases p with
  | none => rfl
  | some t => exact substitute_not_exempt X T _ t s (by simp [mkFormatter, defaultCdata])

example : formatterSubstitute BS.Gen.C09.htmlTable BS.Gen.C09.xmlTable
    (mkFormatter BS.Gen.C09.htmlDefaultCdata false 1 (some [])) (some (ofS "script")) (ofS "a<b") = ofS "a&lt;b" := by
  decide +kernel
example : formatterSubstitute BS.Gen.C09.htmlTable BS.Gen.C09.xmlTable
    (mkFormatter BS.Gen.C09.htmlDefaultCdata false 1 none) (some (ofS "script")) (ofS "a<b") = ofS "a<b" := by
  decide +kernel
example : formatterSubstitute BS.Gen.C09.htmlTable BS.Gen.C09.xmlTable
    (mkFormatter BS.Gen.C09.htmlDefaultCdata false 1 none) (some (ofS "textarea")) (ofS "a<b") = ofS "a&lt;b" := by
  decide +kernel

/-- `Formatter.substitute` / `attribute_value` of a formatter whose function is `substitute_xml` (code 1),
    `substitute_html` (code 2) or `substitute_html5` (code 3), for a plain `str` and for a string under **any** parent that is
    not one of the formatter's `cdata_containing_tags`: the text read back is the original. -/
theorem formatter_text_roundtrip (X : List (Nat × PStr)) (T : Tbl) (hx : XmlOK X T = true) (h : TblOK T = true)
    (h5 : Html5FixOK T = true) (e : RegEntry) (he : e.fn = 1 ∨ e.fn = 2 ∨ e.fn = 3) (p : Option PStr)
    (hp : ∀ t, p = some t → t ∉ e.cdata) (late : Bool) (s : PStr) :
    readText T late 0 (formatterSubstitute T X e p s) = s := by
  have base : readText T late 0 (formatterSubstitute T X e none s) = s := by
    rcases he with he | he | he <;> simp only [formatterSubstitute, he, applyFn] <;> simp
    · exact xml_text_roundtrip X T hx late s
    · exact html_text_roundtrip T h late s
    · exact html5_text_roundtrip T h h5 late s
  cases p with
  | none => exact base
  | some t => rw [substitute_not_exempt X T e t s (hp t rfl)]; exact base

/-- The same for attribute values: substituted by the formatter, quoted, read back. -/
theorem formatter_attr_roundtrip (X : List (Nat × PStr)) (T : Tbl) (hx : XmlOK X T = true) (h : TblOK T = true)
    (h5 : Html5FixOK T = true) (e : RegEntry) (he : e.fn = 1 ∨ e.fn = 2 ∨ e.fn = 3) (s : PStr) :
    readAttr T (quoteAttr (formatterSubstitute T X e none s)) = some s := by
  rcases he with he | he | he <;> simp only [formatterSubstitute, he, applyFn] <;> simp
  · exact xml_attr_roundtrip X T hx h s
  · exact html_attr_roundtrip T h s
  · exact html5_attr_roundtrip T h h5 s

example : ∃ e ∈ BS.Gen.C09.htmlRegistry, e.fn = 3 ∧ ofS "textarea" ∉ e.cdata := by decide

/-! ## from `decode(formatter=…)` to the substitution (`format_string`, `formatter_for_name`, `_format_tag`) -/

/-- Whatever way the formatter is named — a `Formatter` object, a registry key, a function — a string under a parent that is
    not one of the resulting formatter's `cdata_containing_tags` is written so that it reads back as the original, provided
    the function is one of the three substitutions. -/
theorem formatString_text_roundtrip (X : List (Nat × PStr)) (T : Tbl) (hx : XmlOK X T = true) (h : TblOK T = true)
    (h5 : Html5FixOK T = true) (hreg xreg : List RegEntry) (d : List PStr) (isXml : Bool) (arg : FormatterArg)
    (e : RegEntry) (hf : formatterForName hreg xreg d isXml arg = some e) (he : e.fn = 1 ∨ e.fn = 2 ∨ e.fn = 3)
    (p : Option PStr) (hp : ∀ t, p = some t → t ∉ e.cdata) (late : Bool) (s : PStr) :
    (formatString T X hreg xreg d isXml arg p s).map (readText T late 0) = some s := by
  simp only [formatString, hf, Option.map_some]
  rw [formatter_text_roundtrip X T hx h h5 e he p hp late s]

/-- A function passed as `formatter` gets the default options of its class: `script`/`style` exempt in an HTML tree,
    nothing exempt in an XML tree. -/
theorem formatterForName_callable (hreg xreg : List RegEntry) (d : List PStr) (isXml : Bool) (fn : Nat) :
    ∃ e, formatterForName hreg xreg d isXml (.callable fn) = some e ∧ e.fn = fn ∧
      e.cdata = if isXml then [] else d := by
  refine ⟨_, rfl, rfl, ?_⟩
  cases isXml <;> rfl

/-- A user-built `Formatter(language, …)` with the option left at `None`: nothing is exempt exactly when the language has
    the code points of `"xml"` — whatever object carries them; `None`, `""` and every other string give the HTML defaults. -/
theorem language_decides_by_value (d : List PStr) (language : Option PStr) (fn : Nat) :
    (mkFormatterLang d language fn none).cdata = if language = some (ofS "xml") then [] else d := by
  unfold mkFormatterLang mkFormatter defaultCdata formatterLanguage
  match language with
  | none => simp [ofS]
  | some [] => simp [ofS]
  | some (c :: t) =>
    by_cases h : c :: t = [120, 109, 108]
    · simp [h, ofS]
    · have : (c :: t == [120, 109, 108]) = false := by simpa using h
      simp only [this, Bool.false_eq_true, ↓reduceIte]
      have : ¬ (some (c :: t) = some (ofS "xml")) := by
        intro e; apply h; have := Option.some.inj e; rw [this]; decide
      simp [this]

example : (mkFormatterLang BS.Gen.C09.htmlDefaultCdata (some (ofS "xml")) 1 none).cdata = [] ∧
    (mkFormatterLang BS.Gen.C09.htmlDefaultCdata (some (ofS "XML")) 1 none).cdata = [ofS "script", ofS "style"] ∧
    (mkFormatterLang BS.Gen.C09.htmlDefaultCdata (some []) 1 none).cdata = [ofS "script", ofS "style"] := by decide

/-- The defaults are the CLASS's: an instance of a subclass that overrides `HTML_DEFAULTS` at class level (`d` = its table)
    exempts exactly `d` when the option is left at `None` — `set()` there means nothing is exempt, `<script>` included. -/
theorem class_defaults_consulted (X : List (Nat × PStr)) (T : Tbl) (d : List PStr) (fn : Nat) (t s : PStr) :
    (mkFormatter d false fn none).cdata = d ∧
    (t ∉ d → formatterSubstitute T X (mkFormatter d false fn none) (some t) s =
      formatterSubstitute T X (mkFormatter d false fn none) none s) :=
  ⟨rfl, fun h => substitute_not_exempt X T _ t s h⟩

example : formatterSubstitute BS.Gen.C09.htmlTable BS.Gen.C09.xmlTable (mkFormatter [] false 1 none) (some (ofS "script"))
    (ofS "a<b") = ofS "a&lt;b" := by decide +kernel

/-- The shipped registries: every named formatter is one of the three substitutions, with the documented exemptions. -/
theorem named_formatters_live :
    ([ofS "minimal", ofS "html", ofS "html5", ofS "html5-4.12"].all fun nm =>
      (findFormatter BS.Gen.C09.htmlRegistry true nm).any fun e =>
        (e.fn == 1 || e.fn == 2 || e.fn == 3) && e.cdata == [ofS "script", ofS "style"]) = true ∧
    ([ofS "minimal", ofS "html"].all fun nm =>
      (findFormatter BS.Gen.C09.xmlRegistry true nm).any fun e => (e.fn == 1 || e.fn == 2) && e.cdata == []) = true := by
  decide

example : (formatString BS.Gen.C09.htmlTable BS.Gen.C09.xmlTable BS.Gen.C09.htmlRegistry BS.Gen.C09.xmlRegistry
    BS.Gen.C09.htmlDefaultCdata true (.key true (ofS "minimal")) (some (ofS "script")) (ofS "a<b")) = some (ofS "a&lt;b") := by
  decide +kernel

/-- An attribute value goes through the substitution wherever the string object that carries it hangs; 4.13.0 left a
    string object taken from a `<script>` raw (finding `C09-attribute-value-in-cdata-string`), which a parser reads back
    differently: `&amp;` written as `&amp;` comes back as `&`. -/
theorem attribute_value_ignores_parent (X : List (Nat × PStr)) (T : Tbl) (hx : XmlOK X T = true) (h : TblOK T = true)
    (h5 : Html5FixOK T = true) (e : RegEntry) (he : e.fn = 1 ∨ e.fn = 2 ∨ e.fn = 3) (s : PStr) :
    readAttr T (quoteAttr (attributeValue T X e s)) = some s :=
  formatter_attr_roundtrip X T hx h h5 e he s

theorem attribute_value_old_not_reversible :
    (findFormatter BS.Gen.C09.htmlRegistry true (ofS "minimal")).map (fun e =>
      readAttr BS.Gen.C09.htmlTable (quoteAttr (attributeValueOld BS.Gen.C09.htmlTable BS.Gen.C09.xmlTable e
        (some (ofS "script")) (ofS "&amp;")))) = some (some (ofS "&")) := by decide +kernel

/-- `key="value"`: a list-valued attribute is joined with single spaces, substituted, quoted; what is read back from the quoted
    part is the joined value. `None` renders the bare key. -/
theorem formatAttribute_roundtrip (X : List (Nat × PStr)) (T : Tbl) (hx : XmlOK X T = true) (h : TblOK T = true)
    (h5 : Html5FixOK T = true) (e : RegEntry) (he : e.fn = 1 ∨ e.fn = 2 ∨ e.fn = 3) (key : PStr) (v : AttrVal) :
    match v.text with
    | none => formatAttribute T X e key v = key
    | some s => ∃ q, formatAttribute T X e key v = key ++ 61 :: q ∧ readAttr T q = some s := by
  cases hv : v.text with
  | none => simp [formatAttribute, hv]
  | some s =>
    simp only
    exact ⟨_, by simp [formatAttribute, hv], formatter_attr_roundtrip X T hx h h5 e he s⟩

example : (AttrVal.list [ofS "a", ofS "b c"]).text = some (ofS "a b c") := by decide

/-- A `<meta>` value with its charset rewritten for the output encoding is an attribute value like any other: what is read
    back from the quoted part is the rewritten text. -/
theorem charset_value_goes_through_formatter (X : List (Nat × PStr)) (T : Tbl) (hx : XmlOK X T = true)
    (h : TblOK T = true) (h5 : Html5FixOK T = true) (e : RegEntry) (he : e.fn = 1 ∨ e.fn = 2 ∨ e.fn = 3)
    (key rewritten : PStr) :
    ∃ q, formatAttribute T X e key (.charset rewritten) = key ++ 61 :: q ∧ readAttr T q = some rewritten :=
  formatAttribute_roundtrip X T hx h h5 e he key (.charset rewritten)

/-! ## the readers are the tokenizer

`BS.Tokenizer` (Model/Tokenizer.lean) mirrors CPython's `html.parser` statement by statement and is tied to the real parser
by exact equality of callback streams (`./check TK`, C04, C18). Below, the C09 reader models are **proved equal** to that
tokenizer composed with bs4's handlers (`BS.Adapter.handleEntityref`; `handle_data` appends) on everything the three
substitutions write, and the round trips are re-stated through `Tokenizer.run`. `P` = the tokenizer's parameters
(`html.unescape`, `str.lower`), `cfg` = the adapter's; hypotheses: bs4's handler consults the same table as the reader
(`cfg.entity = T.toChar.get`), `P.lower` leaves the (lower-case) element name alone, and — for attribute values —
`P.unescape` is the reader's model of `html.unescape` (compared with the real `html.unescape` on every generated case).

GENERAL STATEMENT, not proved: for every `s` without `<` and every closing suffix without `;`,
`textOf cfg (callbacks of Tokenizer.run on <name>s</name>) = readText T false 0 s` up to the runaway marker — it needs
in addition the numeric-reference paths (`charRef` = `charrefMatch`, `handleCharref` = `charRef` below 4300 digits), the
`feed`/`close` hand-over at a `&#` bail (`late`) and the final flush. None of these is reachable from a substituted text. -/

open BS.Tokenizer BS.C09Tok in
/-- **The text reader is the tokenizer** on written texts: for `o` of the shapes the substitutions write (`Img`), the
    tokenizer run on `<name>o</name>` yields the start tag, then only data / entity-reference callbacks whose handling by
    bs4 concatenates to exactly `readText T late 0 o`, then the end tag; no error, nothing left unconsumed. -/
theorem reader_text_is_tokenizer_on_substituted (P : Params) (cfg : BS.Adapter.ACfg) (T : Tbl)
    (hcfg : cfg.entity = T.toChar.get) (late : Bool) (name : PStr) (hn : NameOK name) (hl : P.lower name = name)
    (hcd : cdataContentElements.contains name = false) (o : PStr) (himg : Img T o) :
    ∃ E ev1 ev2, (run P (writeStartTag0 name ++ o ++ writeEndTag name)).evs = ev1 :: (E ++ [ev2]) ∧
      ev1.tok = .st name [] ∧ ev2.tok = .et name ∧ (∀ ev ∈ E, ∃ d, ev.tok = .data d ∨ ev.tok = .er d) ∧
      textOf cfg E = readText T late 0 o ∧
      (run P (writeStartTag0 name ++ o ++ writeEndTag name)).flag = .ok ∧
      (run P (writeStartTag0 name ++ o ++ writeEndTag name)).st.s = [] :=
  run_written P cfg T hcfg late name hn hl hcd o himg

/-- what bs4 accumulates as text from the whole callback stream of `<name>o</name>` -/
def readThroughTokenizer (P : BS.Tokenizer.Params) (cfg : BS.Adapter.ACfg) (name o : PStr) : PStr :=
  BS.C09Tok.textOf cfg (BS.Tokenizer.run P (BS.Tokenizer.writeStartTag0 name ++ o ++ BS.Tokenizer.writeEndTag name)).evs

open BS.Tokenizer BS.C09Tok in
theorem readThroughTokenizer_eq (P : Params) (cfg : BS.Adapter.ACfg) (T : Tbl) (hcfg : cfg.entity = T.toChar.get)
    (late : Bool) (name : PStr) (hn : NameOK name) (hl : P.lower name = name)
    (hcd : cdataContentElements.contains name = false) (o : PStr) (himg : Img T o) :
    readThroughTokenizer P cfg name o = readText T late 0 o := by
  obtain ⟨E, ev1, ev2, hev, h1, h2, _, htx, _, _⟩ := run_written P cfg T hcfg late name hn hl hcd o himg
  unfold readThroughTokenizer
  rw [hev]
  have : textOf cfg (ev1 :: (E ++ [ev2])) = textOf cfg E := by
    have e1 : textOf cfg [ev1] = [] := by simp [textOf, toSEv, h1, handled]
    have e2 : textOf cfg [ev2] = [] := by simp [textOf, toSEv, h2, handled]
    have : ev1 :: (E ++ [ev2]) = [ev1] ++ E ++ [ev2] := by simp
    rw [this, textOf_append, textOf_append, e1, e2]; simp
  rw [this, htx]

open BS.Tokenizer BS.C09Tok in
/-- `minimal`: written with `substitute_xml`, read back through the tokenizer and bs4's handlers: the original. -/
theorem xml_text_roundtrip_tokenized (P : Params) (cfg : BS.Adapter.ACfg) (X : List (Nat × PStr)) (T : Tbl)
    (hx : XmlOK X T = true) (hcfg : cfg.entity = T.toChar.get) (name : PStr) (hn : NameOK name)
    (hl : P.lower name = name) (hcd : cdataContentElements.contains name = false) (s : PStr) :
    readThroughTokenizer P cfg name (substXml X s) = s := by
  unfold substXml
  rw [readThroughTokenizer_eq P cfg T hcfg false name hn hl hcd _
    (img_reSub T xmlParticles (xmlRep X) (repOK_xml hx) xml_covers.1 xml_covers.2.1 s)]
  exact xml_text_roundtrip X T hx false s

open BS.Tokenizer BS.C09Tok in
/-- `html`: the same for `substitute_html`. -/
theorem html_text_roundtrip_tokenized (P : Params) (cfg : BS.Adapter.ACfg) (T : Tbl) (h : TblOK T = true)
    (hcfg : cfg.entity = T.toChar.get) (name : PStr) (hn : NameOK name) (hl : P.lower name = name)
    (hcd : cdataContentElements.contains name = false) (s : PStr) :
    readThroughTokenizer P cfg name (substHtml T s) = s := by
  obtain ⟨h1, _, h60, _, h38⟩ := tblOK_amp h
  unfold substHtml substHtmlWith
  rw [readThroughTokenizer_eq P cfg T hcfg false name hn hl hcd _ (img_reSub T T.particlesAmp (htmlRep T) h1 h38 h60 s)]
  exact html_text_roundtrip T h false s

open BS.Tokenizer BS.C09Tok in
/-- `html5` (repaired): the same for `substitute_html5`. -/
theorem html5_text_roundtrip_tokenized (P : Params) (cfg : BS.Adapter.ACfg) (T : Tbl) (h : TblOK T = true)
    (h5 : Html5FixOK T = true) (hcfg : cfg.entity = T.toChar.get) (name : PStr) (hn : NameOK name)
    (hl : P.lower name = name) (hcd : cdataContentElements.contains name = false) (s : PStr) :
    readThroughTokenizer P cfg name (substHtml5 T s) = s := by
  obtain ⟨h1, _, h60, _⟩ := tblOK_plain h
  unfold substHtml5 substHtml5With
  rw [readThroughTokenizer_eq P cfg T hcfg false name hn hl hcd _
    (img_html5 T T.particles (htmlRep T) h1 (html5FixOK_spec h5).1 h60 s)]
  exact html5_text_roundtrip T h h5 false s

example : BS.Tokenizer.NameOK (ofS "pre") ∧ BS.Tokenizer.cdataContentElements.contains (ofS "pre") = false :=
  ⟨⟨112, ofS "re", rfl, by decide, by decide⟩, by decide⟩

open BS.Tokenizer BS.C09Tok in
/-- **The attribute reader is the tokenizer's `attrValue`** on what `quoted_attribute_value` writes, given that
    `P.unescape` is the reader's model of `html.unescape`; and in the tag source the value is found where the reader
    assumes it: after `=`, from the opening quote to the first matching quote (`valueGroup`). -/
theorem reader_attr_is_tokenizer (P : Params) (T : Tbl) (hP : ∀ x, P.unescape x = unescape T 0 x) (v rest : PStr) :
    attrValue P (some (quoteAttr v)) = readAttr T (quoteAttr v) ∧
      valueGroup (61 :: (quoteAttr v ++ 62 :: rest)) = some (1, (quoteAttr v).length) :=
  ⟨attrValue_quoteAttr P T hP v, valueGroup_quoteAttr v rest⟩

open BS.Tokenizer BS.C09Tok in
/-- the attribute round trips through the tokenizer's `attrValue`, for the three substitutions -/
theorem attr_roundtrip_tokenized (P : Params) (X : List (Nat × PStr)) (T : Tbl) (hx : XmlOK X T = true)
    (h : TblOK T = true) (h5 : Html5FixOK T = true) (hP : ∀ x, P.unescape x = unescape T 0 x) (s : PStr) :
    attrValue P (some (quoteAttr (substXml X s))) = some s ∧ attrValue P (some (quoteAttr (substHtml T s))) = some s ∧
      attrValue P (some (quoteAttr (substHtml5 T s))) = some s := by
  refine ⟨?_, ?_, ?_⟩
  · rw [attrValue_quoteAttr P T hP]; exact xml_attr_roundtrip X T hx h s
  · rw [attrValue_quoteAttr P T hP]; exact html_attr_roundtrip T h s
  · rw [attrValue_quoteAttr P T hP]; exact html5_attr_roundtrip T h h5 s

end BS.Props.C09
