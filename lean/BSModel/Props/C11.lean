import BSModel.Proofs.DepthEvents
import BSModel.Gen.C11Tables
/-! # C11 — working with a tree never recurses on its depth            (PARTIAL: interpreter stack measured)

Property theorems only. **These are theorems about an accounting of the code's call graph** (`Model/Depth.lean`: a
loop costs the deepest of its iterations, a call costs one frame plus its callee, a structural `==`/`!=` between tags
costs `eqDepth`), not about CPython: that the accounting matches the interpreter is *measured* by `harness/c11.py`
(growth of the `sys.setprofile` call depth between nesting depths d and 2d, and absence of `RecursionError` beyond
the recursion limit, for every operation on every shape family; the measured growth is compared with the growth this
accounting computes for the same tree).

Two groups:

* `depth_bounded_*` — for ALL trees, receivers (`Loc`: subtree + its ancestors' builder flags + its siblings), queries,
  argument lists and tokenizer event sequences, the accounting of every listed operation in its repaired form is at
  most an explicit constant: structural induction shows that no term depending on the nesting is ever added. Each is
  stated for every `Cfg` that has the flags the operation depends on set (so it holds for `repaired` in particular).
* `*_unbounded` — the unrepaired forms are NOT bounded: explicit families on which the accounting grows linearly
  (a chain with trailing text / a trailing sibling at every level for `_event_stream`'s `!=`; a pure chain for the
  `.string` getter, `find_all(name, string=…)` and `smooth`; builder-less ancestors for `_is_xml`; any linked
  document for pickling). These are the defects the measurement re-finds on the unrepaired code. -/
namespace BS.Props.C11
open BS.Depth

/-! ## 1. parsing -/

/-- `BeautifulSoup(markup, "html.parser")`: for every tokenizer event sequence (balanced or not), every choice of
    whitespace-preserving and string-container names and **whatever a structural recursion in `popTag`'s `==` would
    cost** (`deep`), provided `pushTag` pushes every whitespace-preserving tag (as it does), the accounting of the
    parse is at most 14: `preserve_whitespace_tag_stack` and
    `string_container_stack` are always the tag stack filtered by name (`Inv`), so the popped tag is either the very
    object on top of a side stack or has a different name — `Tag.__eq__` returns from one of its first two exits. -/
theorem depth_bounded_parse (nm : Names) (h0 : nm.outermostOnly = false) (hE : nm.scElif = false) (deep : Nat) (evs : List Ev) :
    parseDepth nm deep evs ≤ 14 := by
  have := feedDepth_le nm h0 hE deep evs
  simp only [parseDepth, call]; omega

/-- nested `<pre>` inside `<pre>` with text after each: both side-stack comparisons are exercised -/
def preNames : Names := { isPre := fun n => n == 6, isSc := fun n => n == 7 }
example : parseDepth preNames 1000000 [.open 6 false, .open 6 false, .open 1 false, .close 1, .text, .close 6, .text, .close 6] = 14 := by
  decide
example : parseDepth preNames 1000000 [.open 6 false, .open 7 false, .open 3 true, .close 6] ≤ 14 := depth_bounded_parse _ rfl rfl _ _

/-- The bound DEPENDS on `pushTag` pushing every whitespace-preserving tag: with the (tree-preserving) policy "only
    the outermost one is pushed", an inner `<pre>` is popped while the outer `<pre>` is on top of the side stack — two
    different objects with the same name — and `popTag`'s `==` goes into its structural branch: the accounting is
    then at least whatever that recursion costs. (The harness checks the invariant `Inv` on the running parser, and
    measures nested whitespace-preserving / string-container tags around deep look-alike content.) -/
theorem parse_unbounded_if_only_outermost_pushed (deep : Nat) :
    deep ≤ parseDepth { isPre := fun n => n == 6, isSc := fun _ => false, outermostOnly := true } deep
      [.open 6 false, .open 6 false, .close 6] := by
  simp [parseDepth, feedDepth, run, step, pushTag, popToTag, popTo, popTag, popEqCost, popEqPops, popAll, initState,
    endDataDepth, loop0, loopMax, call, cTokenizer, cTagInit]
  omega

/-! ## 2. `_event_stream`: the loop with its tag stack is the recursive skeleton, and what it compares is known -/

/-- **Refinement of the anchor.** The statement-by-statement mirror of `_event_stream` (element.py:2480-2504: a `for`
    over `self_and_descendants` in document order, the `while tag_stack and c.parent <cmp> tag_stack[-1]` pop loop, the
    START/EMPTY/STRING cases, the final flush) yields, for EVERY tree and both variants of the test, exactly the
    recursive skeleton: START, the children's events in order, END — EMPTY for an empty-element tag, STRING for a
    string. (Identities are positions in document order; the correspondence runs the real generator on random bushy
    trees against both sides.) -/
theorem event_stream_refines_skeleton (cfg : Cfg) (t : Node) : (eventStreamImpl cfg t).1 = evSpecN 0 t :=
  eventStreamImpl_events cfg t

/-- The deepest comparison the loop makes is the recursive characterisation `evCmp` that the accountings of decode,
    deepcopy and pickle are built on: when the child after `k` arrives, `c.parent` is compared with every tag `k`
    left open on the stack (its right spine, deepest first: different objects) and then with itself. -/
theorem event_stream_deepest_comparison (cfg : Cfg) (t : Node) : (eventStreamImpl cfg t).2 = evCmp cfg t :=
  eventStreamImpl_cost cfg t

/-- The same for the form in which the receiver itself is not iterated over (`decode_contents`, `__deepcopy__`, and
    any hidden receiver — the BeautifulSoup object, which `_self_and` leaves out): the receiver is never on the stack. -/
theorem event_stream_contents_refines (cfg : Cfg) (t : Node) :
    (eventStreamContentsImpl cfg t).1 = evSpecL 1 (kidsOf t) ∧ (eventStreamContentsImpl cfg t).2 = evCmpContents cfg t :=
  eventStreamContentsImpl_spec cfg t

/-- With the identity test the loop makes no call at all, whatever the tree. -/
theorem event_stream_identity_makes_no_call (cfg : Cfg) (h : cfg.neIdentity = true) (t : Node) :
    (eventStreamImpl cfg t).2 = 0 ∧ (eventStreamContentsImpl cfg t).2 = 0 := by
  rw [eventStreamImpl_cost, (eventStreamContentsImpl_spec cfg t).2, evCmp_id cfg h]
  exact ⟨rfl, by simp [evCmpContents, evKidsTop_id cfg h]⟩

/-- Two structurally equal trees have the same size: on the pairs `_event_stream` compares (an element's parent and a
    tag still open below it — one properly contains the other) the structural `!=` and `is not` give the same
    answer, so both variants yield the same events; they differ only in what the test costs. -/
theorem structural_equality_forces_equal_size (a b : Node) (h : beqN a b = true) : sizeN a = sizeN b :=
  beqN_sizeN a b h

example : beqN (chainWithTrailingText 3) (chainWithTrailingText 3) = true ∧ beqN (chainWithTrailingText 3) (chainWithTrailingText 2) = false := by
  decide

/-- `<a>t<b><br/></b><p>x</p></a>`: a void tag, a tag left open when its sibling arrives -/
def demoTree : Node :=
  .tag 1 0 true false [.str 2, .tag 2 0 true false [.tag 3 0 true true []], .tag 5 0 true false [.str 1]]
example : (eventStreamImpl unrepaired demoTree).1 =
    [.start 0, .string 1, .start 2, .empty 3, .end 2, .start 4, .string 5, .end 4, .end 0] := by decide
example : (eventStreamImpl unrepaired demoTree).2 = 2 ∧ (eventStreamImpl repaired demoTree).2 = 0 := by decide
example : (eventStreamContentsImpl repaired demoTree).1 =
    [.string 1, .start 2, .empty 3, .end 2, .start 4, .string 5, .end 4] := by decide

example : (eventStreamImpl repaired (chainWithTrailingSibling 4)).2 = 0 := (event_stream_identity_makes_no_call repaired rfl _).1
example : (eventStreamImpl unrepaired (chainWithTrailingSibling 4)).2 = 8 := by decide

/-! ## 2b. rendering -/

/-- `Tag.decode` with the identity test in `_event_stream` and the loop form of `_is_xml`: at most 6, for every tree,
    every receiver in it and every ancestor context. -/
theorem depth_bounded_decode (cfg : Cfg) (h1 : cfg.neIdentity = true) (h2 : cfg.isXmlLoop = true) (l : Loc) :
    decodeDepth cfg l ≤ 6 := by
  have h := loopMax_le (selfAndDescs l) renderPiece 5 (fun x _ => renderPiece_le x)
  simp only [decodeDepth, formatterForNameDepth, isXmlDepth_loop cfg h2, eventStreamDepth_id cfg h1, call]
  omega

example : decodeDepth repaired (atTop (chainWithTrailingText 3)) = 6 := by decide
example : decodeDepth repaired ⟨List.replicate 5 false, [], .tag 1 0 false false [.str 1]⟩ = 6 := by decide

/-- `encode`, `prettify` (both forms), `str`/`repr`, `hash`, `decode_contents`, `encode_contents`,
    `BeautifulSoup.decode`: a fixed number of frames on top of `decode`. -/
theorem depth_bounded_render (cfg : Cfg) (h1 : cfg.neIdentity = true) (h2 : cfg.isXmlLoop = true) (l : Loc) :
    encodeDepth cfg l ≤ 7 ∧ prettifyDepth cfg l ≤ 8 ∧ strDepth cfg l ≤ 7 ∧ hashDepth cfg l ≤ 8 ∧
    decodeContentsDepth cfg l ≤ 7 ∧ encodeContentsDepth cfg l ≤ 8 ∧ docDecodeDepth cfg l ≤ 7 := by
  have := depth_bounded_decode cfg h1 h2 l
  have hb : decodeBodyDepth cfg l ≤ 6 := by
    have h := loopMax_le (descs l.anc l.node) renderPiece 5 (fun x _ => renderPiece_le x)
    simp only [decodeBodyDepth, formatterForNameDepth, isXmlDepth_loop cfg h2, eventStreamContentsDepth_id cfg h1, call]
    omega
  simp only [encodeDepth, prettifyDepth, strDepth, hashDepth, decodeContentsDepth, encodeContentsDepth, docDecodeDepth, call]
  omega

example : hashDepth repaired (atTop (chainWithTrailingSibling 4)) = 8 := by decide

/-! ## 3. copying -/

/-- `__deepcopy__` (of a tag or of a whole document): the event stream plus, per element, a `copy_self` (which asks
    `_is_xml` of THAT element) and an `append` to a detached clone: at most 16. -/
theorem depth_bounded_deepcopy (cfg : Cfg) (h1 : cfg.neIdentity = true) (h2 : cfg.isXmlLoop = true) (isDoc : Bool) (l : Loc) :
    deepcopyDepth cfg isDoc l ≤ 16 := by
  have ha := copySelfDepth_le cfg h2 isDoc l
  have hb := loopMax_le (descs l.anc l.node) (deepcopyPiece cfg) 15 (fun d _ => deepcopyPiece_le cfg h2 d)
  simp only [deepcopyDepth, eventStreamContentsDepth_id cfg h1, call]
  omega

/-- `copy.copy(x)` → `__copy__` → `__deepcopy__` -/
theorem depth_bounded_copy (cfg : Cfg) (h1 : cfg.neIdentity = true) (h2 : cfg.isXmlLoop = true) (isDoc : Bool) (l : Loc) :
    copyDepth cfg isDoc l ≤ 18 := by
  have := depth_bounded_deepcopy cfg h1 h2 isDoc l
  simp only [copyDepth, call]; omega

example : deepcopyDepth repaired false (atTop (chainWithTrailingText 3)) = 7 := by decide
example : copyDepth repaired true (atTop (chainWithTrailingText 2)) = 17 := by decide

/-! ## 4. pickling a document -/

/-- After a parse — for EVERY event sequence (balanced or not, tags left open at the end of input included) and EVERY
    pair of builder tables (a name may be whitespace-preserving AND a string container, or neither) — no parser
    attribute of the document object references a tree object: `tagStack` is back to the document itself and both
    side stacks are empty. (`popTag` tests the two side stacks independently; `_feed` closes everything.) -/
theorem after_parse_no_tree_object (nm : Names) (h0 : nm.outermostOnly = false) (hE : nm.scElif = false) (deep : Nat)
    (evs : List Ev) : leftover (feedState nm deep evs) = [] :=
  feedState_clean nm h0 hE deep evs

/-- a name (12) that is in both tables, closed and left open -/
def bothNames : Names := { isPre := fun n => n == 12 || n == 6, isSc := fun n => n == 12 || n == 7 }
/-- the same tables with the `elif` form of `popTag` -/
def bothNamesElif : Names := { isPre := fun n => n == 12 || n == 6, isSc := fun n => n == 12 || n == 7, scElif := true }
example : leftover (feedState bothNames 5 [.open 2 false, .open 12 false, .text, .close 12, .open 12 false, .text]) = [] := by decide
example : (run bothNames 5 initState [.open 2 false, .open 12 false, .text]).1.sc.length = 1 := by decide

/-- Hence the state `__getstate__` hands to pickle contains no tree object, linked root or not: the parser stacks are
    empty and the root's links are dropped. -/
theorem pickled_state_has_no_tree_object (cfg : Cfg) (h3 : cfg.dropLinks = true) (nm : Names) (h0 : nm.outermostOnly = false)
    (hE : nm.scElif = false) (deep : Nat) (evs : List Ev) (rootLinked : Bool) :
    stateRefs cfg rootLinked (feedState nm deep evs) = 0 := by
  have h := congrArg List.length (feedState_clean nm h0 hE deep evs)
  simp only [leftover, List.length_append, List.length_nil] at h
  have hs : (feedState nm deep evs).stack.length = 0 := by omega
  have hp : (feedState nm deep evs).pre.length = 0 := by omega
  have hc : (feedState nm deep evs).sc.length = 0 := by omega
  rw [stateRefs_eq, hs, hp, hc]; simp [h3]

example : stateRefs repaired true (feedState bothNames 3 [.open 12 false, .open 6 false, .text]) = 0 :=
  pickled_state_has_no_tree_object repaired rfl bothNames rfl rfl 3 _ true
example : stateRefs unrepaired true (feedState bothNames 3 [.open 12 false, .open 6 false, .text]) = 1 := by decide

/-- Field by field: the mirror of `__getstate__` (copy of `__dict__`, `contents := []`, `markup := decode()`, the four
    links := None, `_most_recent_element` deleted) applied to the `__dict__` of a parsed (and then arbitrarily edited,
    linked or not) document returns a dict in which NO field holds a tree object. -/
theorem getstate_fields_hold_no_tree_object (cfg : Cfg) (h3 : cfg.dropLinks = true) (nm : Names) (h0 : nm.outermostOnly = false)
    (hE : nm.scElif = false) (deep : Nat) (evs : List Ev) (hasKids rootLinked mostRecent : Bool) :
    ∀ f ∈ getstateImpl cfg (soupDict (feedState nm deep evs) hasKids rootLinked mostRecent), ∀ k, f.val ≠ .tree k := by
  have h := congrArg List.length (feedState_clean nm h0 hE deep evs)
  simp only [leftover, List.length_append, List.length_nil] at h
  have hs : (feedState nm deep evs).stack.length = 0 := by omega
  have hp : (feedState nm deep evs).pre.length = 0 := by omega
  have hc : (feedState nm deep evs).sc.length = 0 := by omega
  intro f hf k
  simp only [getstateImpl, soupDict, h3, hs, hp, hc, Val.ofRefs] at hf
  cases hasKids <;> cases rootLinked <;> cases mostRecent <;> simp at hf <;>
    (rcases hf with hf | hf | hf | hf | hf | hf | hf | hf | hf | hf | hf | hf | hf | hf <;> subst hf <;> simp)

example : getstateImpl repaired (soupDict (feedState bothNames 9 [.open 12 false, .text, .close 12, .open 2 false]) true true true) ≠ [] := by
  decide
/-- before `__getstate__` the same dict does hold tree objects (`contents`, `next_element`, `_most_recent_element`) -/
example : dictRefs (soupDict (feedState bothNames 9 [.open 12 false, .text, .close 12]) true true true) = 3 := by decide

/-- `pickle.dumps(soup)` / `pickle.loads` of a parsed document (parsed from ANY event sequence under ANY tables, then
    edited into any tree `l`, root linked or not): `__getstate__` renders, the pickler sees only flat values,
    `__setstate__` re-parses: at most 15. -/
theorem depth_bounded_pickle (cfg : Cfg) (h1 : cfg.neIdentity = true) (h2 : cfg.isXmlLoop = true) (h3 : cfg.dropLinks = true)
    (nm : Names) (h0 : nm.outermostOnly = false) (hE : nm.scElif = false) (deep : Nat) (evs : List Ev) (rootLinked : Bool) (l : Loc) :
    pickleDepth cfg nm deep rootLinked (feedState nm deep evs) l ≤ 15 := by
  have ha := (depth_bounded_render cfg h1 h2 l).2.2.2.2.2.2
  have hb := feedDepth_le nm h0 hE deep (toEventsL (kidsOf l.node))
  simp only [pickleDepth, picklerWalk, pickled_state_has_no_tree_object cfg h3 nm h0 hE deep evs rootLinked, ↓reduceIte, call]
  omega

example : pickleDepth repaired bothNames 1000 true (feedState bothNames 1000 [.open 12 false, .text, .close 12, .open 2 false])
    (atTop (chainWithTrailingText 3)) ≤ 15 := depth_bounded_pickle _ rfl rfl rfl _ rfl rfl _ _ _ _

/-- The bound DEPENDS on `popTag` testing the two side stacks independently: with `elif` (pop the string-container
    stack only when the whitespace stack was not popped) a tag that is in both tables stays on
    `string_container_stack` after the parse, `__getstate__` hands it to pickle, and the pickler walks the whole
    document from it — whatever the document's shape. (The harness parses under such tables and inspects the real
    `__getstate__()` for tree objects.) -/
theorem pickle_unbounded_if_container_pop_is_elif (cfg : Cfg) (deep : Nat) (rootLinked : Bool) (l : Loc) :
    sizeN l.node ≤ pickleDepth cfg bothNamesElif deep rootLinked
      (feedState bothNamesElif deep [.open 12 false, .text, .close 12]) l := by
  have hl : (feedState bothNamesElif deep [.open 12 false, .text, .close 12]).sc.length = 1 := by
    simp [feedState, run, step, pushTag, popToTag, popTo, popTag, popEqPops, closeAll, initState, bothNamesElif]
  have h : stateRefs cfg rootLinked (feedState bothNamesElif deep [.open 12 false, .text, .close 12]) ≠ 0 := by
    rw [stateRefs_eq, hl]; omega
  simp only [pickleDepth, picklerWalk, h, ↓reduceIte, call]
  omega

example : 6 ≤ pickleDepth repaired bothNamesElif 0 false
    (feedState bothNamesElif 0 [.open 12 false, .text, .close 12]) (atTop (chainWithTrailingText 5)) :=
  Nat.le_trans (sizeN_chainTT 5) (pickle_unbounded_if_container_pop_is_elif repaired 0 false (atTop (chainWithTrailingText 5)))

/-! ## 5. text extraction and `.string` -/

/-- `get_text` / `.text` / `.strings` / `.stripped_strings` / `_all_strings`: a generator over a pointer loop -/
theorem depth_bounded_get_text (l : Loc) : allStringsDepth l ≤ 3 ∧ getTextDepth l ≤ 5 := by
  simp only [getTextDepth, allStringsDepth, descGenDepth_eq, loop0_eq, call]; omega

/-- the `.string` getter in loop form -/
theorem depth_bounded_string (cfg : Cfg) (h : cfg.stringLoop = true) (t : Node) : stringDepth cfg t ≤ 1 := by
  rw [stringDepth_loop cfg h]; exact Nat.le_refl 1

/-- Element classes: `Node.tag` is ANY instance of `Tag` (the library class or a user subclass installed with
    `element_classes`), and the getter treats them alike (`isinstance(child, Tag)`: the loop goes on in the same frame)
    — one frame whatever the classes. The bound DEPENDS on that: a getter that stays in the loop only for the exact
    class `Tag` and asks a subclass child for ITS `.string` makes one call per level of a chain of subclass tags.
    (The harness builds every shape also from user subclasses of BeautifulSoup/Tag/NavigableString/Comment, and from a
    mix of library classes and subclasses.) -/
theorem string_getter_ignores_element_classes (t : Node) (n : Nat) :
    stringPoly (fun _ => false) t = 1 ∧ stringPoly (fun _ => true) (pureChain n) = n + 1 :=
  ⟨stringPoly_loop t, stringPoly_pureChain n⟩

example : stringPoly (fun _ => false) (pureChain 30) = 1 ∧ stringPoly (fun _ => true) (pureChain 30) = 31 := by decide
/-- every other level a subclass: one frame per two levels -/
example : stringPoly (fun t => sizeN t % 2 == 0) (pureChain 9) = 6 := by decide

example : getTextDepth (atTop (pureChain 7)) = 5 := by decide
example : stringDepth repaired (pureChain 7) = 1 := by decide

/-! ## 6. searching -/

/-- every `find_all` (any combination of a name, an attribute and a `string=` criterion — the latter reads
    `Tag.string` of every tag that got that far), and `find` / `tag(...)` / `tag.name` on top of it -/
theorem depth_bounded_find_all (cfg : Cfg) (h : cfg.stringLoop = true) (q : Query) (l : Loc) :
    findAllDepth cfg q l ≤ 10 ∧ findDepth cfg q l ≤ 11 ∧ getattrFindDepth cfg q l ≤ 12 := by
  have := searchDepth_le cfg h q (descGenDepth l) (by rw [descGenDepth_eq]; exact Nat.le_refl 2) ((descs l.anc l.node).map (·.node))
  simp only [getattrFindDepth, findDepth, findAllDepth, call]; omega

/-- The `.string` getter is the ONLY tree-dependent call in matching, and it is made exactly for the elements that
    pass every earlier exit of `matches_tag` (`reachesString`; the correspondence counts the real reads of the
    property): for any other element the cost of matching does not depend on the variant of the getter at all, for
    those it is the getter's. -/
theorem matching_reads_string_only_where_reached (cfg : Cfg) (q : Query) (t : Node) :
    (reachesString q t = false → matchesTagDepth cfg q t ≤ 5) ∧
    (reachesString q t = true → matchesTagDepth cfg q t = call (max (call cRuleMatch) (max (stringDepth cfg t) (call cRuleMatch)))) := by
  cases t with
  | str v => simp [reachesString, matchesTagDepth]
  | tag n a kx v ks =>
    simp only [reachesString, matchesTagDepth, call, cRuleMatch]
    constructor
    · intro h
      repeat' split
      all_goals first | omega | simp_all
    · intro h
      repeat' split
      all_goals first | rfl | simp_all

example : stringReads ⟨some 1, false, false, none, true⟩ demoTree = [] ∧
    stringReads ⟨none, true, true, none, true⟩ demoTree = [2, 3, 4] ∧
    stringReads ⟨some 5, false, false, none, true⟩ demoTree = [4] := by decide

/-- the other axes (`find_parents`, `find_all_next`, `find_all_previous`, `find_next_siblings`,
    `find_previous_siblings`, singular forms): for ANY list of visited elements -/
theorem depth_bounded_find_axis (cfg : Cfg) (h : cfg.stringLoop = true) (q : Query) (vis : List Node) :
    findAxisDepth cfg q vis ≤ 11 := by
  have := searchDepth_le cfg h q (call (loop0 vis)) (by simp [loop0_eq, call]) vis
  simp only [findAxisDepth, call] at this ⊢; omega

example : findAllDepth repaired ⟨some 1, false, false, none, true⟩ (atTop (pureChain 6)) = 10 := by decide
example : findAxisDepth repaired ⟨none, true, true, some 0, true⟩ [pureChain 4, pureChain 3, .str 1] ≤ 11 := depth_bounded_find_axis _ rfl _ _

/-! ## 7. editing

    `ts` is what one "are these two elements the same object?" test costs (`index`, `replace_with`, `insert_before`/
    `insert_after`, `_insert`); the code uses `is` — `idTest`, a `FreeTest`. -/

/-- `index`, `extract`, `decompose`, `clear` (both forms) -/
theorem depth_bounded_remove (ts : Test) (hT : FreeTest ts) (l : Loc) (dec : Bool) :
    indexDepth ts l.sibs l.node ≤ 1 ∧ extractDepth ts l ≤ 2 ∧ decomposeDepth ts l ≤ 3 ∧ clearDepth ts l dec ≤ 4 := by
  have h := loopMax_le (kidLocs l) (fun k => if dec then decomposeDepth ts k else extractDepth ts k) 3
    (fun k _ => by simp only [decomposeDepth_eq ts hT, extractDepth_eq ts hT]; split <;> omega)
  simp only [indexDepth_eq ts hT, extractDepth_eq ts hT, decomposeDepth_eq ts hT, clearDepth, call] at h ⊢
  omega

/-- `insert` (any number of arguments, also a BeautifulSoup object), `append`, `extend` -/
theorem depth_bounded_insert (ts : Test) (hT : FreeTest ts) (l : Loc) (args : List Loc) (a : Loc) (isDoc : Bool) :
    insertDepth ts l args isDoc ≤ 7 ∧ appendDepth ts l a isDoc ≤ 8 ∧ extendDepth ts l args ≤ 9 := by
  have h := loopMax_le args (fun a => appendDepth ts l a false) 8 (fun a _ => appendDepth_le ts hT l a false)
  refine ⟨insertDepth_le ts hT l args isDoc, appendDepth_le ts hT l a isDoc, ?_⟩
  simp only [extendDepth, call]; omega

/-- `replace_with`, `wrap`, `unwrap`, `insert_before` / `insert_after`, the `string` setter -/
theorem depth_bounded_replace (ts : Test) (hT : FreeTest ts) (parent l wrapper : Loc) (args : List Loc) :
    replaceWithDepth ts parent l args ≤ 8 ∧ wrapDepth ts parent l wrapper ≤ 9 ∧ unwrapDepth ts parent l ≤ 8 ∧
    insertBesideDepth ts parent l args ≤ 8 ∧ stringSetDepth ts l ≤ 9 := by
  have h1 := replaceWithDepth_le ts hT parent l args
  have h2 := replaceWithDepth_le ts hT parent l [wrapper]
  have h3 := appendDepth_le ts hT wrapper l false
  have h4 := loopMax_le (kidsOf l.node) (fun k => insertDepth ts parent [⟨parent.anc, [], k⟩] false) 7
    (fun k _ => insertDepth_le ts hT parent _ false)
  have h5 := loopMax_le args (fun a => max (extractDepth ts a) (max (indexDepth ts l.sibs l.node) (insertDepth ts parent [a] false))) 7
    (fun a _ => by have := insertDepth_le ts hT parent [a] false; simp only [extractDepth_eq ts hT, indexDepth_eq ts hT]; omega)
  have h6 := (depth_bounded_remove ts hT l false).2.2.2
  have h7 := appendDepth_le ts hT l ⟨[], [], .str 0⟩ false
  have h8 : loopMax args (fun a => ts a.node l.node) = 0 := loopMax_zero _ _ (fun a _ => hT _ _)
  simp only [wrapDepth, unwrapDepth, insertBesideDepth, stringSetDepth, indexDepth_eq ts hT, extractDepth_eq ts hT, call, cStrNew, h8] at h5 ⊢
  omega

example : insertDepth idTest (atTop (pureChain 3)) [atTop (pureChain 9), ⟨[], [], .str 1⟩] true = 7 := by decide
example : wrapDepth idTest (atTop (pureChain 2)) (atTop (pureChain 5)) (atTop (pureChain 5)) ≤ 9 :=
  (depth_bounded_replace idTest idTest_free _ _ _ []).2.1
example : clearDepth idTest (atTop (chainWithTrailingText 4)) true = 4 := by decide

/-- The bounds DEPEND on the tests being identity tests: written with `==`, `replace_with`'s "replacing an element
    with itself is a no-op" test walks the element and an equal (or nearly equal) copy of it in lock-step — two
    frames per level — and so does `index` when an earlier sibling looks like the element searched for. (The harness
    exercises every editing call with near copies of the receiver as arguments and as siblings.) -/
theorem editing_with_equality_tests_unbounded (n : Nat) (parent : Loc) (anc anc' : List Bool) (sibs sibs' rest : List Node) :
    2 * n + 1 ≤ replaceWithDepth eqTest parent ⟨anc, sibs, pureChain n⟩ [⟨anc', sibs', pureChain n⟩] ∧
    2 * n + 1 ≤ indexDepth eqTest (pureChain n :: rest) (pureChain n) := by
  have h := eqDepth_pureChain_self n
  constructor
  · simp only [replaceWithDepth, List.take, loopMax, eqTest, call]; omega
  · simp only [indexDepth, loopMax, eqTest, call]; omega

example : replaceWithDepth eqTest (atTop (pureChain 1)) (atTop (pureChain 20)) [atTop (pureChain 20)] = 46 := by decide
example : replaceWithDepth idTest (atTop (pureChain 1)) (atTop (pureChain 20)) [atTop (pureChain 20)] = 6 := by decide

/-- `smooth` iterating over the descendants -/
theorem depth_bounded_smooth (cfg : Cfg) (h : cfg.smoothLoop = true) (l : Loc) : smoothDepth cfg l ≤ 10 := by
  have h1 := loopMax_le ((selfAndDescs l).filter (fun d => isTag d.node)) (fun d => call (smoothWork d)) 9
    (fun d _ => by have := smoothWork_le d; simp only [call]; omega)
  simp only [smoothDepth, h, ↓reduceIte, descGenDepth_eq, call] at h1 ⊢
  omega

example : extractDepth idTest (atTop (chainWithTrailingText 9)) = 2 := by decide
example : smoothDepth repaired (atTop (pureChain 5)) ≤ 10 := depth_bounded_smooth _ rfl _
example : smoothDepth repaired (atTop (pureChain 2)) = 8 := by decide

/-! ## 8. the unrepaired forms are unbounded (witness families) -/

/-- `_event_stream` with `!=`: on a chain of n+1 tags with a trailing text at every level, when the trailing text of
    the outermost level arrives, `c.parent != tag_stack[-1]` compares two levels that agree in name, attributes and
    number of children all the way down: two frames (`__ne__`, `__eq__`) per level. -/
theorem decodeOld_unbounded_trailing_text (cfg : Cfg) (h : cfg.neIdentity = false) (n : Nat) :
    2 * n ≤ decodeDepth cfg (atTop (chainWithTrailingText n)) := by
  cases n with
  | zero => exact Nat.zero_le _
  | succ n =>
    have := evCmp_chainTT cfg h n
    simp only [decodeDepth, eventStreamDepth, atTop, call]
    omega

/-- the same with a trailing sibling tag at every level -/
theorem decodeOld_unbounded_trailing_sibling (cfg : Cfg) (h : cfg.neIdentity = false) (n : Nat) :
    2 * n ≤ decodeDepth cfg (atTop (chainWithTrailingSibling n)) := by
  cases n with
  | zero => exact Nat.zero_le _
  | succ n =>
    have := evCmp_chainTS cfg h n
    simp only [decodeDepth, eventStreamDepth, atTop, call]
    omega

/-- `__deepcopy__` (hence `copy.copy`) and pickling (through `__getstate__` → `decode`) inherit it -/
theorem deepcopyOld_pickleOld_unbounded (cfg : Cfg) (h : cfg.neIdentity = false) (nm : Names) (deep : Nat) (lk isDoc : Bool)
    (ps : PState) (n : Nat) :
    2 * n ≤ deepcopyDepth cfg isDoc (atTop (chainWithTrailingText n)) ∧
    2 * n ≤ pickleDepth cfg nm deep lk ps (atTop (chainWithTrailingText n)) := by
  cases n with
  | zero => exact ⟨Nat.zero_le _, Nat.zero_le _⟩
  | succ n =>
    have := evCmpContents_chainTT cfg h n
    simp only [deepcopyDepth, pickleDepth, docDecodeDepth, decodeBodyDepth, eventStreamContentsDepth, atTop, call]
    omega

example : decodeDepth unrepaired (atTop (chainWithTrailingText 5)) = 12 := by decide
example : decodeDepth unrepaired (atTop (chainWithTrailingText 10)) = 22 := by decide

/-- the recursive `.string` getter on a pure chain: one frame per level, exactly -/
theorem stringOld_unbounded (cfg : Cfg) (h : cfg.stringLoop = false) (n : Nat) :
    stringDepth cfg (pureChain n) = n + 1 := by
  simp [stringDepth, h, stringRec_pureChain]

/-- `find_all(name, string=…)` reads `.string` of every tag with that name -/
theorem findAllStringOld_unbounded (cfg : Cfg) (h : cfg.stringLoop = false) (n : Nat) :
    n ≤ findAllDepth cfg ⟨some 1, false, false, none, true⟩ (atTop (pureChain n)) := by
  cases n with
  | zero => exact Nat.zero_le _
  | succ n =>
    have hm : pureChain n ∈ (descs (atTop (pureChain (n + 1))).anc (atTop (pureChain (n + 1))).node).map (·.node) := by
      simp [atTop, pureChain, descs, descsL]
    have h1 := le_loopMax _ (matchDepth cfg ⟨some 1, false, false, none, true⟩) _ hm
    have h2 : n + 1 ≤ matchDepth cfg ⟨some 1, false, false, none, true⟩ (pureChain n) := by
      have hs := stringOld_unbounded cfg h n
      cases n with
      | zero => simp [pureChain, matchDepth, call]
      | succ m =>
        have e : pureChain (m + 1) = .tag 1 0 true false [pureChain m] := rfl
        rw [e] at hs ⊢
        simp only [matchDepth, matchesTagDepth, call, hs]
        simp
        omega
    simp only [findAllDepth, searchDepth, call]
    omega

/-- the recursive `smooth` -/
theorem smoothOld_unbounded (cfg : Cfg) (h : cfg.smoothLoop = false) (n : Nat) :
    n + 1 ≤ smoothDepth cfg (atTop (pureChain n)) := by
  simp only [smoothDepth, h, Bool.false_eq_true, ↓reduceIte, atTop]
  exact smoothRec_ge_pureChain [] n

/-- the recursive `_is_xml`: rendering or copying a tag that sits below n tags made without a builder
    (`Tag(name=…)`: `known_xml is None`) walks up all of them, one frame each -/
theorem isXmlOld_unbounded (cfg : Cfg) (h : cfg.isXmlLoop = false) (n : Nat) (sibs : List Node) (t : Node) (ht : kxOf t = false) :
    n ≤ decodeDepth cfg ⟨List.replicate n false, sibs, t⟩ ∧ n ≤ deepcopyDepth cfg false ⟨List.replicate n false, sibs, t⟩ := by
  have := isXmlRec_replicate n
  simp only [decodeDepth, deepcopyDepth, copySelfDepth, formatterForNameDepth, isXmlDepth, h, ht, Bool.false_eq_true, ↓reduceIte, call]
  omega

/-- pickling a document whose root is linked into the element chain (after `soup.insert(0, …)`, or a copy) with the
    links left in the state dict: the pickler nests at least once per element of the document, whatever its shape -/
theorem pickleLinkedOld_unbounded (cfg : Cfg) (h : cfg.dropLinks = false) (nm : Names) (deep : Nat) (ps : PState) (l : Loc) :
    sizeN l.node ≤ pickleDepth cfg nm deep true ps l := by
  have : stateRefs cfg true ps ≠ 0 := by rw [stateRefs_eq]; simp [h]
  simp only [pickleDepth, picklerWalk, this, ↓reduceIte, call]
  omega

example : stringDepth unrepaired (pureChain 9) = 10 := by decide
example : 40 ≤ findAllDepth unrepaired ⟨some 1, false, false, none, true⟩ (atTop (pureChain 40)) := findAllStringOld_unbounded _ rfl _
example : 8 ≤ decodeDepth unrepaired ⟨List.replicate 8 false, [], .tag 1 0 false false []⟩ := (isXmlOld_unbounded _ rfl 8 [] _ rfl).1
example : 4 ≤ pickleDepth unrepaired preNames 0 true initState (atTop (chainWithTrailingText 3)) :=
  Nat.le_trans (sizeN_chainTT 3) (pickleLinkedOld_unbounded unrepaired rfl preNames 0 initState (atTop (chainWithTrailingText 3)))

/-- `!=` stops at its first exit when adjacent levels differ in name: alternating names are bounded even in the
    unrepaired accounting (why the suite's single shape never showed the defect). -/
theorem eqDepth_differs_is_one (n n' a a' : Nat) (kx kx' v v' : Bool) (ks ks' : List Node)
    (h : n ≠ n' ∨ a ≠ a' ∨ ks.length ≠ ks'.length) : eqDepth (.tag n a kx v ks) (.tag n' a' kx' v' ks') = 1 := by
  simp [eqDepth, h]

example : eqDepth (.tag 1 0 true false [.tag 2 0 true false [], .str 2]) (.tag 2 0 true false [.tag 1 0 true false [], .str 2]) = 1 := by decide

/-! ## 9. the shipped tables and the interpreter's limit (generated on every run from the live objects) -/

/-- the tables of the live `HTMLParserTreeBuilder()` -/
def shippedNames : Names := { isPre := BS.Gen.c11PreserveCodes.contains, isSc := BS.Gen.c11ContainerCodes.contains }

/-- With the shipped tables no name is both whitespace-preserving and a string container (over the WHOLE generated
    tables) — which is why a coupling of the two pops in `popTag` is invisible in the default configuration, and why
    the harness also parses under configurations where the tables overlap. The theorems above do not need this. -/
theorem shipped_tables_disjoint : ∀ c ∈ BS.Gen.c11PreserveCodes, c ∉ BS.Gen.c11ContainerCodes := by decide

/-- frames the caller may already have on the stack when it calls into bs4 -/
def callerFrames : Nat := 100

/-- Every bound proved above (the largest is 18) leaves room below the live `sys.getrecursionlimit()` even when the
    caller is already 100 frames deep: an operation whose accounting is bounded by one of these constants cannot
    raise RecursionError, however deep the document. -/
theorem bounded_depth_is_below_the_recursion_limit (d : Nat) (h : d ≤ 18) : d + callerFrames < BS.Gen.c11RecursionLimit := by
  have : 18 + callerFrames < BS.Gen.c11RecursionLimit := by decide
  omega

/-- e.g. parsing under the shipped tables, rendering, copying and pickling, each for every input -/
theorem handled_beyond_the_recursion_limit (cfg : Cfg) (h1 : cfg.neIdentity = true) (h2 : cfg.isXmlLoop = true) (h3 : cfg.dropLinks = true)
    (deep : Nat) (evs : List Ev) (isDoc lk : Bool) (l : Loc) :
    parseDepth shippedNames deep evs + callerFrames < BS.Gen.c11RecursionLimit ∧
    decodeDepth cfg l + callerFrames < BS.Gen.c11RecursionLimit ∧
    copyDepth cfg isDoc l + callerFrames < BS.Gen.c11RecursionLimit ∧
    pickleDepth cfg shippedNames deep lk (feedState shippedNames deep evs) l + callerFrames < BS.Gen.c11RecursionLimit := by
  refine ⟨bounded_depth_is_below_the_recursion_limit _ ?_, bounded_depth_is_below_the_recursion_limit _ ?_,
    bounded_depth_is_below_the_recursion_limit _ ?_, bounded_depth_is_below_the_recursion_limit _ ?_⟩
  · have := depth_bounded_parse shippedNames rfl rfl deep evs; omega
  · have := depth_bounded_decode cfg h1 h2 l; omega
  · exact depth_bounded_copy cfg h1 h2 isDoc l
  · have := depth_bounded_pickle cfg h1 h2 h3 shippedNames rfl rfl deep evs lk l; omega

example : parseDepth shippedNames 7 [.open 6 false, .open 9 false, .open 12 false, .text, .close 6] = 14 := by decide
example : copyDepth repaired true (atTop (chainWithTrailingText 40)) + callerFrames < BS.Gen.c11RecursionLimit :=
  (handled_beyond_the_recursion_limit repaired rfl rfl rfl 0 [] true false _).2.2.1

end BS.Props.C11
