import BSModel.Model.Copy
import BSModel.Proofs.Copy
import BSModel.Proofs.CopyEq
import BSModel.Proofs.CopyEdit
import BSModel.Proofs.CopyCanon
import BSModel.Gen.Copy
/-! C12 — copies are equal, detached and independent; equality is structural; a copy hashes like its original.

    Model: `BSModel/Model/Copy.lean` (trees with object identities). `copyImpl` mirrors `Tag.__deepcopy__`/`copy_self`/
    `NavigableString.__deepcopy__`, `eqImpl` mirrors `Tag.__eq__`. Pickling is not modelled: a pickled `BeautifulSoup`
    is `decode()` + re-parse (`__getstate__/__setstate__`), checked on real documents by the harness only. -/
namespace BS.Props.C12
open BS BS.Copy

/-! ### examples used for non-vacuity -/

private def st0 : Settings := ⟨none, some 900, some 901, some 902, false, some 1, some 0, none, none⟩
private def dB : TagData := ⟨ofS "b", none, none, [], { st0 with canBeEmpty := some true }, some 7, 0, 0⟩
private def dP : TagData :=
  ⟨ofS "p", some (ofS "x"), none, [(ofS "class", none, .list 2 0 [ofS "a", ofS "b"]), (ofS "id", none, .str 0 (ofS "i"))], st0, some 7, 0, 5⟩
/-- `<x:p class="a b" id="i">t<b/><!--c--></x:p>` with object ids 1..5 (the class list is object 2) -/
private def exP : Node := .tag 1 dP [.str 3 0 (ofS "t"), .tag 4 dB [], .str 5 5 (ofS "c")]

/-! ### the copying loop is the pre-order recursion -/

/-- **Refinement.** The loop of `Tag.__deepcopy__` (event stream, tag stack, `append`) run on the event stream of a tree
    never underflows its stack, ends with the root clone alone on it, and returns exactly the tree the structural recursion
    `copySpec` builds (same nodes, same fresh identities, same allocator state) — for every element, every context
    (`inh` = the parent's `_is_xml`) and every allocator state. -/
theorem copy_refines (inh : Option Bool) (next : Nat) (t : Node) :
    copyImpl inh next t = some (copySpec inh next t) := copyImpl_eq_spec inh next t

/-- the same for `BeautifulSoup.__deepcopy__` (root clone = a new empty `BeautifulSoup` on the same builder) -/
theorem copy_soup_refines (fresh : TagData) (inh : Option Bool) (next i : Nat) (d : TagData) (ks : List Node) :
    copySoupImpl fresh inh next (.tag i d ks) =
      some (.tag next fresh (copySpecL (isXml inh d) (next + 1) ks).1, (copySpecL (isXml inh d) (next + 1) ks).2) :=
  copySoupImpl_eq_spec fresh inh next i d ks

private theorem copyImpl_some {inh : Option Bool} {next : Nat} {t c : Node} {n' : Nat}
    (h : copyImpl inh next t = some (c, n')) : c = (copySpec inh next t).1 ∧ n' = (copySpec inh next t).2 := by
  rw [copy_refines] at h
  have := Option.some.inj h
  exact ⟨(congrArg Prod.fst this).symm, (congrArg Prod.snd this).symm⟩

example : (copyImpl none 10 exP).map (fun r => (ids r.1, r.2)) = some ([10, 11, 12, 13, 14], 15) := by decide +kernel
example : ∃ c n', copyImpl none 10 exP = some (c, n') := ⟨_, _, copy_refines none 10 exP⟩
/-- an unbalanced stream does underflow: the `none` result is reachable, the theorem is not vacuous -/
example : run ⟨0, [⟨0, dB, []⟩]⟩ [.stop] = none := by decide +kernel

/-! ### what a copy keeps -/

/-- **A copy has the shape of its original**: erasing object identities (and reading `known_xml` through `_is_xml`), the
    copy — standing alone, with no parent to inherit from (`none`), or put back in the original's context — is the original:
    every tag's name, prefix, namespace, attributes in order with their values and value-list classes, every string's
    class and text, every setting (`can_be_empty_element`, `cdata_list_attributes`, `preserve_whitespace_tags`,
    `interesting_string_types`, `hidden`, `sourceline`, `sourcepos`, `_namespaces`, `_is_xml`) and the nesting. Hence any
    function of the shape — `decode` under any formatter, `prettify`, `get_text` — gives the same result on both. -/
theorem copy_same_shape (inh : Option Bool) (next : Nat) (t c : Node) (n' : Nat) (hs : SettledN t)
    (h : copyImpl inh next t = some (c, n')) : shape none c = shape inh t ∧ shape inh c = shape inh t := by
  obtain ⟨rfl, rfl⟩ := copyImpl_some h
  exact ⟨shape_copySpec t inh none next hs (fun _ => rfl), shape_copySpec t inh inh next hs (fun h => h)⟩

/-- for a `BeautifulSoup`, provided the object still has the data its builder gives a new one (`fresh`): the root data of
    the copy comes from the builder, not from the original -/
theorem copy_soup_same_shape (fresh : TagData) (inh : Option Bool) (next i : Nat) (d : TagData) (ks : List Node) (c : Node) (n' : Nat)
    (hpristine : shapeData fresh (isXml inh fresh) = shapeData d (isXml inh d)) (hx : isXml inh fresh = isXml inh d)
    (hs : SettledL ks) (h : copySoupImpl fresh inh next (.tag i d ks) = some (c, n')) : shape inh c = shape inh (.tag i d ks) := by
  rw [copy_soup_refines] at h
  have := Option.some.inj h
  have hc : c = .tag next fresh (copySpecL (isXml inh d) (next + 1) ks).1 := (congrArg Prod.fst this).symm
  subst hc
  simp only [shape]
  rw [hpristine, hx, shapeL_copySpecL _ _ _ hs]

/-- the statement has content: a tree that differs in one string class has another shape -/
example : shape none exP ≠ shape none (.tag 1 dP [.str 3 1 (ofS "t"), .tag 4 dB [], .str 5 5 (ofS "c")]) := by
  simp [shape, shapeL, exP]

/-- what is *not* kept (recorded quirk, nothing in `==`/`hash`/`decode` reads it): `parser_class` becomes `None`,
    `attribute_value_list_class` is the stock one, and `known_xml` holds the resolved `_is_xml`; the class of the `attrs`
    dict **is** kept (since the repair of `copy_self`) -/
example (next : Nat) (d : TagData) (xml : Option Bool) :
    (copySelf next d xml).2.1.parserClass = none ∧ (copySelf next d xml).2.1.avlCls = 0 ∧
    (copySelf next d xml).2.1.dictCls = d.dictCls ∧
    (copySelf next d xml).2.1.st.knownXml = xml := by simp [copySelf]

/-! ### attribute values that are not strings: the repaired `copy_self`, and what bs4 4.13.0 did -/

/-- the hypothesis `SettledN` of the theorems above is what the public API guarantees: a plain `AttributeDict` (what
    html.parser gives every parsed tag) stores anything unchanged … -/
theorem settled_of_plain_dict (cls : Nat) (l : Attrs) (h1 : cls ≠ 1) (h2 : cls ≠ 2) : Settled cls l :=
  settled_plain cls l h1 h2

/-- … whatever the class, strings (of any class) and lists are stored unchanged … -/
theorem settled_of_str_list (cls : Nat) (l : Attrs) (h : ∀ e ∈ l, (∃ c s, e.2.2 = .str c s) ∨ (∃ i c xs, e.2.2 = .list i c xs)) :
    Settled cls l := by
  intro e he
  rcases h e he with ⟨c, s, hv⟩ | ⟨i, c, xs, hv⟩
  · rw [hv]; exact coerce_str ..
  · rw [hv]; exact coerce_list ..

/-- … and what `d[key] = value` stored is stored unchanged when set again (`__setitem__` is idempotent) — except for the
    one value an `HTMLAttributeDict` produces itself and then refuses: `True` under a `NamespacedAttribute` key whose
    `name` is `None` becomes `None` -/
theorem setitem_idempotent (cls : Nat) (k : PStr) (m : KMeta) (v v' : AVal) (h : coerce cls k m v = some v')
    (hne : ¬ (cls = 1 ∧ v' = .none)) : coerce cls k m v' = some v' := by
  by_cases hc : cls = 1
  · subst hc
    have hne' : v' ≠ .none := fun e => hne ⟨rfl, e⟩
    have h' : coerceHtml k m v = some v' := by simpa [coerce] using h
    have goal : coerceHtml k m v' = some v' := by
      cases v with
      | bool b =>
        cases b with
        | false => simp [coerceHtml] at h'
        | true =>
          simp only [coerceHtml, Option.some.injEq] at h'
          subst h'
          cases m with
          | none => rfl
          | some nk =>
            obtain ⟨p, nm, ns⟩ := nk
            cases nm with
            | none => exact absurd rfl hne'
            | some x => rfl
      | none => simp [coerceHtml] at h'
      | int n => simp only [coerceHtml, Option.some.injEq] at h'; subst h'; rfl
      | str c s => simp only [coerceHtml, Option.some.injEq] at h'; subst h'; rfl
      | list i c xs => simp only [coerceHtml, Option.some.injEq] at h'; subst h'; rfl
    simpa [coerce] using goal
  · by_cases hc2 : cls = 2
    · subst hc2
      have h' : coerceXml v = some v' := by simpa [coerce] using h
      have goal : coerceXml v' = some v' := by
        cases v <;> simp only [coerceXml, Option.some.injEq] at h' <;> subst h' <;> rfl
      simpa [coerce] using goal
    · simp only [coerce, hc, hc2, ↓reduceIte, Option.some.injEq] at h ⊢

/-- the exception is real -/
example : coerce 1 (ofS "xml") (some ⟨some (ofS "xml"), none, none⟩) (.bool true) = some .none ∧
    coerce 1 (ofS "xml") (some ⟨some (ofS "xml"), none, none⟩) .none = none := by decide +kernel

private def dA (cls : Nat) (v : AVal) : TagData :=
  ⟨ofS "a", none, none, [(ofS "id", none, .str 0 (ofS "1")), (ofS "k", none, v)], st0, some 0, cls, 0⟩

/-- **What bs4 4.13.0 did** (defect `C12-copy-coerces-nonstring-attr`, repaired): `copy_self` kept the
    `HTMLAttributeDict` made by `Tag.__init__`, so the values of a parsed tag's plain dict were processed on the way:
    for `soup.a["k"] = 2` the copy holds `"2"` and is **not equal** to its original; for `True` it holds `"k"`; for
    `None` and `False` the attribute is gone (and `<a k>` renders as `<a>`). -/
theorem old_copy_self_coerces :
    dictEq (dA 0 (.int 2)).attrs (copySelfOld 10 (dA 0 (.int 2)) (some false)).2.1.attrs = false ∧
    (copySelfOld 10 (dA 0 (.int 2)) (some false)).2.1.attrs = (dA 1 (.str 0 (ofS "2"))).attrs ∧
    (copySelfOld 10 (dA 0 (.bool true)) (some false)).2.1.attrs = (dA 1 (.str 0 (ofS "k"))).attrs ∧
    (copySelfOld 10 (dA 0 .none) (some false)).2.1.attrs = [(ofS "id", none, .str 0 (ofS "1"))] ∧
    (copySelfOld 10 (dA 0 (.bool false)) (some false)).2.1.attrs = [(ofS "id", none, .str 0 (ofS "1"))] := by
  decide +kernel

/-- the repaired `copy_self` keeps every value (and the dict class) of such a tag -/
theorem new_copy_self_keeps (v : AVal) (hv : v.isList = false) (next : Nat) (xml : Option Bool) :
    (copySelf next (dA 0 v) xml).2.1.attrs = (dA 0 v).attrs ∧ (copySelf next (dA 0 v) xml).2.1.dictCls = 0 := by
  cases v <;> simp_all [copySelf, copyAttrs, dA, coerce, pushEntry, AVal.isList]

/-- old and new agree whenever the original's dict already is of the class `Tag.__init__` would choose (every tag made
    without a builder): the repair changes nothing there -/
theorem old_new_agree (next : Nat) (d : TagData) (xml : Option Bool)
    (h : d.dictCls = if xml == some true then 2 else 1) : copySelfOld next d xml = copySelf next d xml := by
  simp only [copySelfOld, copySelf, h]

/-! ### a copy is made of new objects only -/

/-- **Freshness.** The object identities of a copy (tags with their `attrs`/`contents`, strings, attribute value lists)
    are exactly the next unused ones, each used once, in pre-order; the allocator ends right after them. -/
theorem copy_ids_exact (inh : Option Bool) (next : Nat) (t c : Node) (n' : Nat) (h : copyImpl inh next t = some (c, n')) :
    ids c = List.range' next (n' - next) ∧ next < n' := by
  obtain ⟨rfl, rfl⟩ := copyImpl_some h
  obtain ⟨h1, h2⟩ := ids_copySpec t inh next
  have hpos : 0 < (ids (copySpec inh next t).1).length := by
    cases t <;> simp [copySpec, ids]
  constructor
  · have : (copySpec inh next t).2 - next = (ids (copySpec inh next t).1).length := by omega
    rw [this]; exact h1
  · omega

/-- every identity of the copy is at or above the allocator's value at call time, and no object occurs twice in it
    (no two tags of the copy share a value list, no node is reachable twice) -/
theorem copy_fresh (inh : Option Bool) (next : Nat) (t c : Node) (n' : Nat) (h : copyImpl inh next t = some (c, n')) :
    (∀ x ∈ ids c, next ≤ x ∧ x < n') ∧ (ids c).Nodup := by
  obtain ⟨h1, _⟩ := copy_ids_exact inh next t c n' h
  rw [h1]
  refine ⟨?_, List.nodup_range' 1⟩
  intro x hx
  obtain ⟨i, hi, rfl⟩ := List.mem_range'.mp hx
  omega

/-- hence the copy shares no object with anything that existed when it was made: not with the original, not with the
    tree the original lives in, not with any other tree -/
theorem copy_disjoint (inh : Option Bool) (next : Nat) (t c : Node) (n' : Nat) (h : copyImpl inh next t = some (c, n'))
    (world : List Node) (hw : ∀ x ∈ idsL world, x < next) : ∀ x ∈ ids c, x ∉ idsL world := by
  intro x hx hxw
  have := ((copy_fresh inh next t c n' h).1 x hx).1
  have := hw x hxw
  omega

/-- **Detached.** The copy is a root: its root object is none of the objects of any existing tree, so it is in no
    `contents` list (no parent, no siblings) — and the loop left nothing open (`copy_refines`). -/
theorem copy_detached (inh : Option Bool) (next : Nat) (t c : Node) (n' : Nat) (h : copyImpl inh next t = some (c, n'))
    (world : List Node) (hw : ∀ x ∈ idsL world, x < next) : c.id ∉ idsL world :=
  copy_disjoint inh next t c n' h world hw c.id (id_mem_ids c)

example : ∀ x ∈ ids exP, x < 10 := by decide +kernel

/-! ### independence -/

/-- **Frame lemma.** An in-place mutation (attribute write or delete, change of a value list, rename, insertion into /
    clearing of `contents`, removal or replacement of a node) leaves unchanged every tree that does not contain the
    mutated object. -/
theorem edit_frame (e : Edit) (t : Node) (h : e.target ∉ ids t) : applyEdit e t = t := applyEdit_frame t e h

/-- **Independence, both directions**: editing any object of the copy leaves the original (and every tree that existed
    when the copy was made) unchanged; editing any object of the original leaves the copy unchanged. -/
theorem copy_independent (inh : Option Bool) (next : Nat) (t c : Node) (n' : Nat) (h : copyImpl inh next t = some (c, n'))
    (hw : ∀ x ∈ ids t, x < next) (e : Edit) :
    (e.target ∈ ids c → applyEdit e t = t) ∧ (e.target ∈ ids t → applyEdit e c = c) := by
  have hf := (copy_fresh inh next t c n' h).1
  constructor
  · intro hc
    apply edit_frame
    intro ht
    have := hw _ ht
    have := (hf _ hc).1
    omega
  · intro ht
    apply edit_frame
    intro hc
    have := hw _ ht
    have := (hf _ hc).1
    omega

/-- the lemma has content: a clone that kept the original's value list (a *shallow* copy of `attrs`) is changed by
    `original["class"].append("z")` … -/
example : (match applyEdit (.listAppend 2 (ofS "z")) (.tag 10 dP []) with | .tag _ d _ => d.attrs | _ => []) =
    [(ofS "class", none, .list 2 0 [ofS "a", ofS "b", ofS "z"]), (ofS "id", none, .str 0 (ofS "i"))] := by decide +kernel
/-- … the real copy is not -/
example : ∀ c n', copyImpl none 10 exP = some (c, n') → applyEdit (.listAppend 2 (ofS "z")) c = c := by
  intro c n' h
  exact (copy_independent none 10 exP c n' h (by decide +kernel) (.listAppend 2 (ofS "z"))).2 (by decide +kernel)

/-! ### `==` is the structural relation -/

/-- **`==` decides the structural relation** of the property: for trees whose attribute dicts are dicts,
    `a == b` iff their identity-free, attribute-order-free normal forms coincide -/
theorem eq_iff_structural (a b : Node) (ha : DictOK a) (hb : DictOK b) : eqImpl a b = true ↔ EqSpec a b :=
  eqImpl_iff a b ha hb

theorem canonL_eq_iff : ∀ (ks ls : List Node),
    canonL ks = canonL ls ↔ ks.length = ls.length ∧ ∀ p ∈ ks.zip ls, EqSpec p.1 p.2
  | [], [] => by simp [canonL]
  | [], _ :: _ => by simp [canonL]
  | _ :: _, [] => by simp [canonL]
  | k :: ks, l :: ls => by
    simp only [canonL, List.cons.injEq, canonL_eq_iff ks ls, List.length_cons, List.zip_cons_cons, List.mem_cons,
      EqSpec]
    constructor
    · rintro ⟨h1, h2, h3⟩
      refine ⟨by omega, ?_⟩
      rintro p (rfl | hp)
      · exact h1
      · exact h3 p hp
    · rintro ⟨h1, h2⟩
      exact ⟨h2 (k, l) (Or.inl rfl), by omega, fun p hp => h2 p (Or.inr hp)⟩

/-- the structural relation, unfolded as the property words it: same name, same attributes whatever their order
    (the same finite map from keys to values; a value list equals a value list with the same items, of any list class),
    as many children, pairwise related; strings by their text (the class is not looked at); a tag never equals a string -/
theorem eqSpec_tag (i j : Nat) (a b : TagData) (ks ls : List Node) :
    EqSpec (.tag i a ks) (.tag j b ls) ↔
      a.name = b.name ∧ (∀ k, attrMap a.attrs k = attrMap b.attrs k) ∧ ks.length = ls.length ∧
        ∀ p ∈ ks.zip ls, EqSpec p.1 p.2 := by
  simp only [EqSpec, canon, Canon.tag.injEq]
  rw [canonL_eq_iff]
  simp only [EqSpec]
  constructor
  · rintro ⟨h1, h2, h3⟩; exact ⟨h1, fun k => congrFun h2 k, h3⟩
  · rintro ⟨h1, h2, h3⟩; exact ⟨h1, funext h2, h3⟩

theorem eqSpec_str (i j c d : Nat) (v w : PStr) : EqSpec (.str i c v) (.str j d w) ↔ v = w := by
  simp [EqSpec, canon]

theorem eqSpec_tag_str (i j c : Nat) (a : TagData) (ks : List Node) (v : PStr) :
    ¬ EqSpec (.tag i a ks) (.str j c v) ∧ ¬ EqSpec (.str j c v) (.tag i a ks) := by
  simp [EqSpec, canon]

/-- `==` is reflexive (also without the `is` shortcut), symmetric and transitive on trees -/
theorem eq_refl (a : Node) (ha : DictOK a) : eqImpl a a = true := (eq_iff_structural a a ha ha).mpr rfl

theorem eq_symm (a b : Node) (ha : DictOK a) (hb : DictOK b) : eqImpl a b = eqImpl b a := by
  have h1 := eq_iff_structural a b ha hb
  have h2 := eq_iff_structural b a hb ha
  cases h : eqImpl a b with
  | true => exact (h2.mpr (h1.mp h).symm).symm
  | false =>
    cases h' : eqImpl b a with
    | false => rfl
    | true => rw [h1.mpr (h2.mp h').symm] at h; cases h

theorem eq_trans (a b c : Node) (ha : DictOK a) (hb : DictOK b) (hc : DictOK c)
    (h1 : eqImpl a b = true) (h2 : eqImpl b c = true) : eqImpl a c = true :=
  (eq_iff_structural a c ha hc).mpr (((eq_iff_structural a b ha hb).mp h1).trans ((eq_iff_structural b c hb hc).mp h2))

/-- `!=` is the negation of `==` -/
theorem ne_iff_not_eq (a b : Node) : neImpl a b = true ↔ eqImpl a b = false := by simp [neImpl]

/-- the result of `==` does not depend on object identities, on where the operands live, on string or list classes, on
    prefix/namespace or on any setting: only on the normal forms -/
theorem eq_depends_on_canon_only (a a' b b' : Node) (ha : DictOK a) (ha' : DictOK a') (hb : DictOK b) (hb' : DictOK b')
    (h1 : canon a = canon a') (h2 : canon b = canon b') : eqImpl a b = eqImpl a' b' := by
  have e1 := eq_iff_structural a b ha hb
  have e2 := eq_iff_structural a' b' ha' hb'
  simp only [EqSpec, h1, h2] at e1
  cases h : eqImpl a' b' with
  | true => exact e1.mpr (e2.mp h)
  | false =>
    cases h' : eqImpl a b with
    | false => rfl
    | true => rw [e2.mpr (e1.mp h')] at h; cases h

/-- equal trees have the same number of nodes -/
theorem eq_same_size (a b : Node) (ha : DictOK a) (hb : DictOK b) (h : eqImpl a b = true) : sizeN a = sizeN b := by
  have := (eq_iff_structural a b ha hb).mp h
  rw [← csize_canon a, ← csize_canon b, this]

/-- hence `==` never identifies a tag with something below it: the structural test `c.parent != tag_stack[-1]` of
    `_event_stream` (the stack holds the open ancestors of the previous element, `c.parent` is one of them) pops exactly
    when the identity test would — copies of trees with repeated identical sub-structure have the right shape (the harness
    enumerates all small ones) -/
theorem eq_never_confuses_ancestor_and_descendant (a x : Node) (ha : DictOK a) (hx : DictOK x) (h : Below a x) :
    eqImpl a x = false ∧ eqImpl x a = false := by
  have hs := below_size h
  constructor
  · cases he : eqImpl a x with
    | false => rfl
    | true => have := eq_same_size a x ha hx he; omega
  · cases he : eqImpl x a with
    | false => rfl
    | true => have := eq_same_size x a hx ha he; omega

example : Below exP (.tag 4 dB []) := .kid (by simp)

/-- **Attribute order is irrelevant**: permuting the attributes of a tag gives an equal tag -/
theorem attr_order_irrelevant (i j : Nat) (d : TagData) (attrs' : Attrs) (ks : List Node)
    (hd : DictOK (.tag i d ks)) (hp : d.attrs.Perm attrs') :
    eqImpl (.tag i d ks) (.tag j { d with attrs := attrs' } ks) = true := by
  have hd' : DictOK (.tag j { d with attrs := attrs' } ks) := by
    simp only [DictOK] at hd ⊢
    exact ⟨perm_keys_nodup hp hd.1, hd.2⟩
  rw [eq_iff_structural _ _ hd hd']
  simp only [EqSpec, canon]
  rw [attrMap_perm hp (by simpa [DictOK] using hd.1)]

private def exQ : Node :=
  .tag 21 { dP with attrs := [(ofS "id", some ⟨none, some (ofS "id"), none⟩, .str 2 (ofS "i")), (ofS "class", none, .list 22 9 [ofS "a", ofS "b"])], pfx := none }
    [.str 23 5 (ofS "t"), .tag 24 { dB with st := st0 } [], .str 25 0 (ofS "c")]

/-- other order, other list class, other key and value classes, other prefix, other string classes, other settings: still `==` -/
example : eqImpl exP exQ = true ∧ eqImpl exQ exP = true := by decide +kernel
example : DictOK exP ∧ DictOK exQ := by
  simp only [DictOK, DictOKL, exP, exQ, dP, dB]
  decide +kernel
/-- one attribute value changed / one child missing / a string against a tag: not `==` -/
example : eqImpl exP (.tag 1 { dP with attrs := [(ofS "class", none, .list 2 0 [ofS "a"]), (ofS "id", none, .str 0 (ofS "i"))] }
    [.str 3 0 (ofS "t"), .tag 4 dB [], .str 5 5 (ofS "c")]) = false := by decide +kernel
example : eqImpl exP (.tag 1 dP [.str 3 0 (ofS "t"), .tag 4 dB []]) = false := by decide +kernel
example : eqImpl (.str 3 0 (ofS "b")) (.tag 4 dB []) = false := by decide +kernel
/-- a list value never equals the string it renders as -/
example : valEq (.list 2 0 [ofS "a"]) (.str 0 (ofS "a")) = false := by decide +kernel
/-- numbers compare as numbers (`True == 1`), never with their text -/
example : valEq (.bool true) (.int 1) = true ∧ valEq (.int 2) (.str 0 (ofS "2")) = false ∧ valEq .none .none = true := by
  decide +kernel

/-! ### a copy equals its original and hashes like it -/

/-- **A copy compares equal to its original** (`original == copy` and `copy == original`) -/
theorem copy_eq (inh : Option Bool) (next : Nat) (t c : Node) (n' : Nat) (hd : DictOK t) (hs : SettledN t)
    (h : copyImpl inh next t = some (c, n')) : eqImpl t c = true ∧ eqImpl c t = true := by
  obtain ⟨rfl, rfl⟩ := copyImpl_some h
  have hd' := dictOK_copySpec t inh next hs hd
  have hc := canon_copySpec t inh next hs
  exact ⟨(eq_iff_structural _ _ hd hd').mpr hc.symm, (eq_iff_structural _ _ hd' hd).mpr hc⟩

/-- and to whatever the original compares equal to -/
theorem copy_eq_class (inh : Option Bool) (next : Nat) (t c u : Node) (n' : Nat) (hd : DictOK t) (hs : SettledN t)
    (hu : DictOK u) (h : copyImpl inh next t = some (c, n')) : eqImpl c u = eqImpl t u := by
  obtain ⟨rfl, rfl⟩ := copyImpl_some h
  exact eq_depends_on_canon_only _ _ _ _ (dictOK_copySpec t inh next hs hd) hd hu hu (canon_copySpec t inh next hs) rfl

/-- **A copy hashes like its original**: `hash(tag)` is `hash(tag.decode())`; for every renderer that reads the tree
    through its shape (no object identities; `known_xml` only through `_is_xml`) and every string hash -/
theorem copy_hash (render : Shape → PStr) (hsh : PStr → Nat) (inh : Option Bool) (next : Nat) (t c : Node) (n' : Nat)
    (hs : SettledN t) (h : copyImpl inh next t = some (c, n')) : hashImpl render hsh none c = hashImpl render hsh inh t := by
  simp only [hashImpl, (copy_same_shape inh next t c n' hs h).1]

/-- what does **not** hold (and the property does not claim): `==` looks at less than `decode` does, so equal tags may
    hash differently — here `<a><!--x--></a> == <a>x</a>` (strings compare by text, whatever their class) -/
theorem hash_is_not_a_function_of_eq :
    ∃ (a b : Node) (render : Shape → PStr) (hsh : PStr → Nat),
      eqImpl a b = true ∧ hashImpl render hsh none a ≠ hashImpl render hsh none b := by
  refine ⟨.tag 1 dB [.str 2 5 (ofS "x")], .tag 3 dB [.str 4 0 (ofS "x")],
    (fun s => match s with | .tag _ [.str c _] => [c] | _ => []), (fun s => s.headD 0), by decide +kernel, ?_⟩
  simp [hashImpl, shape, shapeL]

/-! ### the model's reading of `copy_self`, pinned to the live source -/

/-- `Tag.copy_self` passes, for **every** parameter of `Tag.__init__` other than `parent`/`previous`, either `None`
    (`parser`, `builder`) or the tag's own value — exactly the arguments `copySelf` models; then rebuilds `attrs` in a dict
    of the original's class (the repair) and re-sets `can_be_empty_element` and `hidden`. Generated from the running source
    with `inspect`/`ast`; the whole tables are compared. -/
theorem copy_self_source :
    BS.Gen.Copy.copySelfArgs =
      [(ofS "attrs", ofS "self.attrs"), (ofS "builder", ofS "None"),
       (ofS "can_be_empty_element", ofS "self.can_be_empty_element"),
       (ofS "cdata_list_attributes", ofS "self.cdata_list_attributes"),
       (ofS "interesting_string_types", ofS "self.interesting_string_types"), (ofS "is_xml", ofS "self._is_xml"),
       (ofS "name", ofS "self.name"), (ofS "namespace", ofS "self.namespace"), (ofS "namespaces", ofS "self._namespaces"),
       (ofS "parser", ofS "None"), (ofS "prefix", ofS "self.prefix"),
       (ofS "preserve_whitespace_tags", ofS "self.preserve_whitespace_tags"),
       (ofS "sourceline", ofS "self.sourceline"), (ofS "sourcepos", ofS "self.sourcepos")] ∧
    BS.Gen.Copy.copySelfSetattrs = [ofS "can_be_empty_element", ofS "hidden"] ∧
    BS.Gen.Copy.copySelfAfter =
      [ofS "clone.attrs = self.attrs.__class__()",
       ofS "for key, value in self.attrs.items():\n    if isinstance(value, list):\n        value = value.__class__(value)\n    clone.attrs[key] = value",
       ofS "for attr in ('can_be_empty_element', 'hidden'):\n    setattr(clone, attr, getattr(self, attr))"] := by
  decide +kernel

/-- no parameter of `Tag.__init__` is forgotten by `copy_self` ("Any new arguments here need to be mirrored in
    Tag.copy_self", element.py:1638) -/
theorem copy_self_forwards_every_param :
    BS.Gen.Copy.tagInitParams.all (fun p =>
      (BS.Gen.Copy.copySelfArgs.map Prod.fst).contains p || p == ofS "parent" || p == ofS "previous") = true := by
  decide +kernel

/-- `BeautifulSoup.copy_self`: a new, empty object on the same builder; `original_encoding` carried over -/
theorem soup_copy_self_source :
    BS.Gen.Copy.soupCopySelfArgs = [ofS "''", ofS "None", ofS "self.builder"] ∧
    BS.Gen.Copy.soupCopySelfAssigns = [(ofS "original_encoding", ofS "self.original_encoding")] ∧
    BS.Gen.Copy.rootTagName = ofS "[document]" := by decide +kernel

end BS.Props.C12
