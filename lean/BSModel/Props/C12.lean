import BSModel.Model.Copy
import BSModel.Proofs.Copy
import BSModel.Proofs.CopyEq
import BSModel.Proofs.CopyEdit
import BSModel.Proofs.CopyCanon
import BSModel.Proofs.CopyHash
import BSModel.Proofs.CopySettle
import BSModel.Gen.Copy
/-! C12 — copies are equal, detached and independent; equality is structural; a copy hashes like its original.

    Model: `BSModel/Model/Copy.lean` (trees with object identities). `copyImpl` mirrors `Tag.__deepcopy__`/`copy_self`/
    `NavigableString.__deepcopy__`, `eqImpl` mirrors `Tag.__eq__`. Pickling is not modelled: a pickled `BeautifulSoup`
    is `decode()` + re-parse (`__getstate__/__setstate__`), checked on real documents by the harness only. -/
namespace BS.Props.C12
open BS BS.Copy

/-! ### examples used for non-vacuity -/

private def st0 : Settings := ⟨none, some 900, some 901, some 902, false, some 1, some 0, none, none⟩
private def dB : TagData := ⟨ofS "b", none, none, [], { st0 with canBeEmpty := some true }, some 7, 0, 0⟩
private def dP : TagData :=
  ⟨ofS "p", some (ofS "x"), none, [(ofS "class", none, .list 2 0 [ofS "a", ofS "b"]), (ofS "id", none, .str 0 (ofS "i"))], st0, some 7, 0, 5⟩
/-- `<x:p class="a b" id="i">t<b/><!--c--></x:p>` with object ids 1..5 (the class list is object 2) -/
private def exP : Node := .tag 1 dP [.str 3 0 (ofS "t"), .tag 4 dB [], .str 5 5 (ofS "c")]

/-! ### the copying loop is the pre-order recursion -/

/-- **Refinement.** The loop of `Tag.__deepcopy__` (event stream, tag stack, `append`) run on the event stream of a tree
    never underflows its stack, ends with the root clone alone on it, and returns exactly the tree the structural recursion
    `copySpec` builds (same nodes, same fresh identities, same allocator state) — for every element, every context
    (`inh` = the parent's `_is_xml`) and every allocator state. -/
theorem copy_refines (inh : Option Bool) (next : Nat) (t : Node) :
    copyImpl inh next t = some (copySpec inh next t) := copyImpl_eq_spec inh next t

/-- the same for `BeautifulSoup.__deepcopy__` (root clone = a new empty `BeautifulSoup` on the same builder) -/
theorem copy_soup_refines (fresh : TagData) (inh : Option Bool) (next i : Nat) (d : TagData) (ks : List Node) :
    copySoupImpl fresh inh next (.tag i d ks) =
      some (.tag next fresh (copySpecL (isXml inh d) (next + 1) ks).1, (copySpecL (isXml inh d) (next + 1) ks).2) :=
  copySoupImpl_eq_spec fresh inh next i d ks

private theorem copyImpl_some {inh : Option Bool} {next : Nat} {t c : Node} {n' : Nat}
    (h : copyImpl inh next t = some (c, n')) : c = (copySpec inh next t).1 ∧ n' = (copySpec inh next t).2 := by
  rw [copy_refines] at h
  have := Option.some.inj h
  exact ⟨(congrArg Prod.fst this).symm, (congrArg Prod.snd this).symm⟩

example : (copyImpl none 10 exP).map (fun r => (ids r.1, r.2)) = some ([10, 11, 12, 13, 14], 15) := by decide +kernel
example : ∃ c n', copyImpl none 10 exP = some (c, n') := ⟨_, _, copy_refines none 10 exP⟩
/-- an unbalanced stream does underflow: the `none` result is reachable, the theorem is not vacuous -/
example : run ⟨0, [⟨0, dB, []⟩]⟩ [.stop] = none := by decide +kernel

/-! ### what a copy keeps -/

/-- **A copy has the shape of its original**: erasing object identities (and reading `known_xml` through `_is_xml`), the
    copy — standing alone, with no parent to inherit from (`none`), or put back in the original's context — is the original:
    every tag's name, prefix, namespace, attributes in order with their values and value-list classes, every string's
    class and text, every setting (`can_be_empty_element`, `cdata_list_attributes`, `preserve_whitespace_tags`,
    `interesting_string_types`, `hidden`, `sourceline`, `sourcepos`, `_namespaces`, `_is_xml`) and the nesting. Hence any
    function of the shape — `decode` under any formatter, `prettify`, `get_text` — gives the same result on both. -/
theorem copy_same_shape (inh : Option Bool) (next : Nat) (t c : Node) (n' : Nat) (hs : SettledN t)
    (h : copyImpl inh next t = some (c, n')) : shape none c = shape inh t ∧ shape inh c = shape inh t := by
  obtain ⟨rfl, rfl⟩ := copyImpl_some h
  exact ⟨shape_copySpec t inh none next hs (fun _ => rfl), shape_copySpec t inh inh next hs (fun h => h)⟩

/-- **The same without any hypothesis**: for *every* tree, the copy has the shape of the original with each attribute
    dict re-processed by its own class (`settle`) — which is the original itself whenever its dicts were filled through
    their own `__setitem__` (`settle_of_settled`), and in general says exactly what the copy of a tampered-with
    `HTML/XMLAttributeDict` looks like (compared with the real code by the `setitem` stream) -/
theorem copy_shape_general (inh : Option Bool) (next : Nat) (t c : Node) (n' : Nat)
    (h : copyImpl inh next t = some (c, n')) : shape none c = shape inh (settle t) ∧ shape inh c = shape inh (settle t) := by
  obtain ⟨rfl, rfl⟩ := copyImpl_some h
  exact ⟨shape_copySpec_general t inh none next (fun _ => rfl), shape_copySpec_general t inh inh next (fun h => h)⟩

theorem settle_id (t : Node) (hs : SettledN t) : settle t = t := settle_of_settled t hs

/-- **A copy renders identically** — under `decode` with any formatter, `prettify`, `get_text`, …: every observation that
    reads the tree through its shape gives the same result on the copy (as a root) and on the original (in its context) -/
theorem copy_renders_identically {α : Type} (observe : Shape → α) (inh : Option Bool) (next : Nat) (t c : Node) (n' : Nat)
    (hs : SettledN t) (h : copyImpl inh next t = some (c, n')) : observe (shape none c) = observe (shape inh t) := by
  rw [(copy_same_shape inh next t c n' hs h).1]

/-- `tag.copy_self()` on its own (the public first step): the clone has no contents and the data `copySelf` gives it; the
    full copy has the same root data -/
theorem copy_root_is_copy_self (inh : Option Bool) (next i : Nat) (d : TagData) (ks : List Node) :
    ∃ ks', (copySpec inh next (.tag i d ks)).1 = .tag next (copySelf next d (isXml inh d)).2.1 ks' ∧ ks'.length = ks.length := by
  refine ⟨(copySpecL (isXml inh d) (copySelf next d (isXml inh d)).2.2 ks).1, by simp [copySpec, copySelf], ?_⟩
  generalize (copySelf next d (isXml inh d)).2.2 = n
  generalize isXml inh d = x
  induction ks generalizing n with
  | nil => simp [copySpecL]
  | cons k r ih => simp [copySpecL, ih]

/-- for a `BeautifulSoup`, provided the object still has the data its builder gives a new one (`fresh`): the root data of
    the copy comes from the builder, not from the original -/
theorem copy_soup_same_shape (fresh : TagData) (inh : Option Bool) (next i : Nat) (d : TagData) (ks : List Node) (c : Node) (n' : Nat)
    (hpristine : shapeData fresh (isXml inh fresh) = shapeData d (isXml inh d)) (hx : isXml inh fresh = isXml inh d)
    (hs : SettledL ks) (h : copySoupImpl fresh inh next (.tag i d ks) = some (c, n')) : shape inh c = shape inh (.tag i d ks) := by
  rw [copy_soup_refines] at h
  have := Option.some.inj h
  have hc : c = .tag next fresh (copySpecL (isXml inh d) (next + 1) ks).1 := (congrArg Prod.fst this).symm
  subst hc
  simp only [shape]
  rw [hpristine, hx, shapeL_copySpecL _ _ _ hs]

/-- the hypotheses are satisfiable by a non-trivial tree (attributes of every kind in a plain dict, a list value, a
    `NamespacedAttribute` key, children) -/
private def exN : Node :=
  .tag 1 { dP with attrs := dP.attrs ++ [(ofS "n", none, .int 2), (ofS "t", none, .bool true), (ofS "z", none, .none),
      (ofS "xlink:href", some ⟨some (ofS "xlink"), some (ofS "href"), none⟩, .str 1 (ofS "u"))] }
    [.str 9 0 (ofS "t"), .tag 10 dB []]
example : SettledN exN ∧ DictOK exN ∧ SettledN exP ∧ DictOK exP :=
  ⟨settledN_of_plain _ (by decide +kernel), dictOK_of_b _ (by decide +kernel),
   settledN_of_plain _ (by decide +kernel), dictOK_of_b _ (by decide +kernel)⟩
example : ∃ c n', copyImpl (some false) 20 exN = some (c, n') ∧ shape none c = shape (some false) exN :=
  ⟨_, _, copy_refines _ _ _, shape_copySpec exN (some false) none 20 (settledN_of_plain _ (by decide +kernel))
    (fun h => by cases h)⟩
/-- the statement has content: a tree that differs in one string class has another shape -/
example : shape none exP ≠ shape none (.tag 1 dP [.str 3 1 (ofS "t"), .tag 4 dB [], .str 5 5 (ofS "c")]) := by
  simp [shape, shapeL, exP]

/-- what is *not* kept (recorded quirk, nothing in `==`/`hash`/`decode` reads it): `parser_class` becomes `None`,
    `attribute_value_list_class` is the stock one, and `known_xml` holds the resolved `_is_xml`; the class of the `attrs`
    dict **is** kept (since the repair of `copy_self`) -/
example (next : Nat) (d : TagData) (xml : Option Bool) :
    (copySelf next d xml).2.1.parserClass = none ∧ (copySelf next d xml).2.1.avlCls = 0 ∧
    (copySelf next d xml).2.1.dictCls = d.dictCls ∧
    (copySelf next d xml).2.1.st.knownXml = xml := by simp [copySelf]

/-! ### attribute values that are not strings: the repaired `copy_self`, and what bs4 4.13.0 did -/

/-- the hypothesis `SettledN` of the theorems above is what the public API guarantees: a plain `AttributeDict` (what
    html.parser gives every parsed tag) stores anything unchanged … -/
theorem settled_of_plain_dict (cls : Nat) (l : Attrs) (h1 : cls ≠ 1) (h2 : cls ≠ 2) : Settled cls l :=
  settled_plain cls l h1 h2

/-- … whatever the class, strings (of any class) and lists are stored unchanged … -/
theorem settled_of_str_list (cls : Nat) (l : Attrs) (h : ∀ e ∈ l, (∃ c s, e.2.2 = .str c s) ∨ (∃ i c xs, e.2.2 = .list i c xs)) :
    Settled cls l := by
  intro e he
  rcases h e he with ⟨c, s, hv⟩ | ⟨i, c, xs, hv⟩
  · rw [hv]; exact coerce_str ..
  · rw [hv]; exact coerce_list ..

/-- a dict of a processing class is settled as well when it was filled through its own `__setitem__`: strings and lists -/
example : Settled 1 dP.attrs := settled_of_str_list 1 _ (by
  intro e he
  simp only [dP, List.mem_cons, List.not_mem_nil, or_false] at he
  rcases he with rfl | rfl
  · exact Or.inr ⟨_, _, _, rfl⟩
  · exact Or.inl ⟨_, _, rfl⟩)

/-- … and what `d[key] = value` stored is stored unchanged when set again (`__setitem__` is idempotent) — except for the
    one value an `HTMLAttributeDict` produces itself and then refuses: `True` under a `NamespacedAttribute` key whose
    `name` is `None` becomes `None` -/
theorem setitem_idempotent (cls : Nat) (k : PStr) (m : KMeta) (v v' : AVal) (h : coerce cls k m v = some v')
    (hne : ¬ (cls = 1 ∧ v' = .none)) : coerce cls k m v' = some v' := by
  by_cases hc : cls = 1
  · subst hc
    have hne' : v' ≠ .none := fun e => hne ⟨rfl, e⟩
    have h' : coerceHtml k m v = some v' := by simpa [coerce] using h
    have goal : coerceHtml k m v' = some v' := by
      cases v with
      | bool b =>
        cases b with
        | false => simp [coerceHtml] at h'
        | true =>
          simp only [coerceHtml, Option.some.injEq] at h'
          subst h'
          cases m with
          | none => rfl
          | some nk =>
            obtain ⟨p, nm, ns⟩ := nk
            cases nm with
            | none => exact absurd rfl hne'
            | some x => rfl
      | none => simp [coerceHtml] at h'
      | int n => simp only [coerceHtml, Option.some.injEq] at h'; subst h'; rfl
      | str c s => simp only [coerceHtml, Option.some.injEq] at h'; subst h'; rfl
      | list i c xs => simp only [coerceHtml, Option.some.injEq] at h'; subst h'; rfl
    simpa [coerce] using goal
  · by_cases hc2 : cls = 2
    · subst hc2
      have h' : coerceXml v = some v' := by simpa [coerce] using h
      have goal : coerceXml v' = some v' := by
        cases v <;> simp only [coerceXml, Option.some.injEq] at h' <;> subst h' <;> rfl
      simpa [coerce] using goal
    · simp only [coerce, hc, hc2, ↓reduceIte, Option.some.injEq] at h ⊢

/-- the exception is real -/
example : coerce 1 (ofS "xml") (some ⟨some (ofS "xml"), none, none⟩) (.bool true) = some .none ∧
    coerce 1 (ofS "xml") (some ⟨some (ofS "xml"), none, none⟩) .none = none := by decide +kernel

private def dA (cls : Nat) (v : AVal) : TagData :=
  ⟨ofS "a", none, none, [(ofS "id", none, .str 0 (ofS "1")), (ofS "k", none, v)], st0, some 0, cls, 0⟩

/-- **What bs4 4.13.0 did** (defect `C12-copy-coerces-nonstring-attr`, repaired): `copy_self` kept the
    `HTMLAttributeDict` made by `Tag.__init__`, so the values of a parsed tag's plain dict were processed on the way:
    for `soup.a["k"] = 2` the copy holds `"2"` and is **not equal** to its original; for `True` it holds `"k"`; for
    `None` and `False` the attribute is gone (and `<a k>` renders as `<a>`). -/
theorem old_copy_self_coerces :
    dictEq (dA 0 (.int 2)).attrs (copySelfOld 10 (dA 0 (.int 2)) (some false)).2.1.attrs = false ∧
    (copySelfOld 10 (dA 0 (.int 2)) (some false)).2.1.attrs = (dA 1 (.str 0 (ofS "2"))).attrs ∧
    (copySelfOld 10 (dA 0 (.bool true)) (some false)).2.1.attrs = (dA 1 (.str 0 (ofS "k"))).attrs ∧
    (copySelfOld 10 (dA 0 .none) (some false)).2.1.attrs = [(ofS "id", none, .str 0 (ofS "1"))] ∧
    (copySelfOld 10 (dA 0 (.bool false)) (some false)).2.1.attrs = [(ofS "id", none, .str 0 (ofS "1"))] := by
  decide +kernel

/-- the repaired `copy_self` keeps every value (and the dict class) of such a tag -/
theorem new_copy_self_keeps (v : AVal) (hv : v.isList = false) (next : Nat) (xml : Option Bool) :
    (copySelf next (dA 0 v) xml).2.1.attrs = (dA 0 v).attrs ∧ (copySelf next (dA 0 v) xml).2.1.dictCls = 0 := by
  cases v <;> simp_all [copySelf, copyAttrs, dA, coerce, pushEntry, AVal.isList]

/-- old and new agree whenever the original's dict already is of the class `Tag.__init__` would choose (every tag made
    without a builder): the repair changes nothing there -/
theorem old_new_agree (next : Nat) (d : TagData) (xml : Option Bool)
    (h : d.dictCls = if xml == some true then 2 else 1) : copySelfOld next d xml = copySelf next d xml := by
  simp only [copySelfOld, copySelf, h]

/-! ### a copy is made of new objects only -/

/-- **Freshness.** The object identities of a copy (tags with their `attrs`/`contents`, strings, attribute value lists)
    are exactly the next unused ones, each used once, in pre-order; the allocator ends right after them. -/
theorem copy_ids_exact (inh : Option Bool) (next : Nat) (t c : Node) (n' : Nat) (h : copyImpl inh next t = some (c, n')) :
    ids c = List.range' next (n' - next) ∧ next < n' := by
  obtain ⟨rfl, rfl⟩ := copyImpl_some h
  obtain ⟨h1, h2⟩ := ids_copySpec t inh next
  have hpos : 0 < (ids (copySpec inh next t).1).length := by
    cases t <;> simp [copySpec, ids]
  constructor
  · have : (copySpec inh next t).2 - next = (ids (copySpec inh next t).1).length := by omega
    rw [this]; exact h1
  · omega

/-- every identity of the copy is at or above the allocator's value at call time, and no object occurs twice in it
    (no two tags of the copy share a value list, no node is reachable twice) -/
theorem copy_fresh (inh : Option Bool) (next : Nat) (t c : Node) (n' : Nat) (h : copyImpl inh next t = some (c, n')) :
    (∀ x ∈ ids c, next ≤ x ∧ x < n') ∧ (ids c).Nodup := by
  obtain ⟨h1, _⟩ := copy_ids_exact inh next t c n' h
  rw [h1]
  refine ⟨?_, List.nodup_range' 1⟩
  intro x hx
  obtain ⟨i, hi, rfl⟩ := List.mem_range'.mp hx
  omega

/-- hence the copy shares no object with anything that existed when it was made: not with the original, not with the
    tree the original lives in, not with any other tree -/
theorem copy_disjoint (inh : Option Bool) (next : Nat) (t c : Node) (n' : Nat) (h : copyImpl inh next t = some (c, n'))
    (world : List Node) (hw : ∀ x ∈ idsL world, x < next) : ∀ x ∈ ids c, x ∉ idsL world := by
  intro x hx hxw
  have := ((copy_fresh inh next t c n' h).1 x hx).1
  have := hw x hxw
  omega

/-- **Several copies in one run** (`copy.deepcopy([p, soup])`, an object referring to a tag and to its document, two
    `deepcopy(x, memo)` calls sharing a memo): `__deepcopy__` does not consult the memo, so each element is copied on its own,
    whatever their relation (one inside the other, the same twice) — the second copy is the recursion on its own original and
    re-uses no object of the first -/
theorem copy_run_two (inh1 inh2 : Option Bool) (next : Nat) (t1 t2 c1 c2 : Node) (n1 n2 : Nat)
    (h1 : copyImpl inh1 next t1 = some (c1, n1)) (h2 : copyImpl inh2 n1 t2 = some (c2, n2)) :
    c1 = (copySpec inh1 next t1).1 ∧ c2 = (copySpec inh2 n1 t2).1 ∧ ∀ x ∈ ids c1, x ∉ ids c2 := by
  refine ⟨(copyImpl_some h1).1, (copyImpl_some h2).1, ?_⟩
  intro x hx hx2
  have a := ((copy_fresh inh1 next t1 c1 n1 h1).1 x hx).2
  have b := ((copy_fresh inh2 n1 t2 c2 n2 h2).1 x hx2).1
  omega

/-- non-vacuity: a tag and then the tree it lives in -/
example : ∃ c1 n1 c2 n2, copyImpl none 10 (.tag 4 dB []) = some (c1, n1) ∧ copyImpl none n1 exP = some (c2, n2) :=
  ⟨_, _, _, _, copy_refines _ _ _, copy_refines _ _ _⟩

/-- **Detached.** The copy is a root: its root object is none of the objects of any existing tree, so it is in no
    `contents` list (no parent, no siblings) — and the loop left nothing open (`copy_refines`). -/
theorem copy_detached (inh : Option Bool) (next : Nat) (t c : Node) (n' : Nat) (h : copyImpl inh next t = some (c, n'))
    (world : List Node) (hw : ∀ x ∈ idsL world, x < next) : c.id ∉ idsL world :=
  copy_disjoint inh next t c n' h world hw c.id (id_mem_ids c)

example : ∀ x ∈ ids exP, x < 10 := by decide +kernel

/-! ### independence -/

/-- **Frame lemma.** An in-place mutation (attribute write or delete, change of a value list, rename, insertion into /
    clearing of `contents`, removal or replacement of a node) leaves unchanged every tree that does not contain the
    mutated object. -/
theorem edit_frame (e : Edit) (t : Node) (h : e.target ∉ ids t) : applyEdit e t = t := applyEdit_frame t e h

/-- **Independence, both directions**: editing any object of the copy leaves the original (and every tree that existed
    when the copy was made) unchanged; editing any object of the original leaves the copy unchanged. -/
theorem copy_independent (inh : Option Bool) (next : Nat) (t c : Node) (n' : Nat) (h : copyImpl inh next t = some (c, n'))
    (hw : ∀ x ∈ ids t, x < next) (e : Edit) :
    (e.target ∈ ids c → applyEdit e t = t) ∧ (e.target ∈ ids t → applyEdit e c = c) := by
  have hf := (copy_fresh inh next t c n' h).1
  constructor
  · intro hc
    apply edit_frame
    intro ht
    have := hw _ ht
    have := (hf _ hc).1
    omega
  · intro ht
    apply edit_frame
    intro hc
    have := hw _ ht
    have := (hf _ hc).1
    omega

/-- … and the same for any **history** of mutations (`.string = …`, `smooth()`, `wrap`, `unwrap`, `insert_before`, `extend`
    … are sequences of the primitive ones on objects of the edited tree or on new objects): as long as no mutated object
    belongs to `t`, `t` is unchanged -/
theorem edits_frame (es : List Edit) (t : Node) (h : ∀ e ∈ es, e.target ∉ ids t) : applyEdits es t = t := by
  induction es with
  | nil => rfl
  | cons e r ih =>
    simp only [applyEdits]
    rw [edit_frame e t (h e (List.mem_cons_self ..))]
    exact ih (fun x hx => h x (List.mem_cons_of_mem _ hx))

/-- independence under whole edit histories of the copy: every mutated object is one of the copy or was created after the
    copy was made (identity ≥ `next`) — the original does not change -/
theorem copy_independent_history (inh : Option Bool) (next : Nat) (t c : Node) (n' : Nat)
    (_h : copyImpl inh next t = some (c, n')) (hw : ∀ x ∈ ids t, x < next) (es : List Edit) (hes : ∀ e ∈ es, next ≤ e.target) :
    applyEdits es t = t := by
  apply edits_frame
  intro e he ht
  have := hw _ ht
  have := hes e he
  omega

/-- the lemma has content: a clone that kept the original's value list (a *shallow* copy of `attrs`) is changed by
    `original["class"].append("z")` … -/
example : (match applyEdit (.listAppend 2 (ofS "z")) (.tag 10 dP []) with | .tag _ d _ => d.attrs | _ => []) =
    [(ofS "class", none, .list 2 0 [ofS "a", ofS "b", ofS "z"]), (ofS "id", none, .str 0 (ofS "i"))] := by decide +kernel
/-- … the real copy is not -/
example : ∀ c n', copyImpl none 10 exP = some (c, n') → applyEdit (.listAppend 2 (ofS "z")) c = c := by
  intro c n' h
  exact (copy_independent none 10 exP c n' h (by decide +kernel) (.listAppend 2 (ofS "z"))).2 (by decide +kernel)

/-! ### `==` is the structural relation -/

/-- **`==` decides the structural relation** of the property: for trees whose attribute dicts are dicts,
    `a == b` iff their identity-free, attribute-order-free normal forms coincide -/
theorem eq_iff_structural (a b : Node) (ha : DictOK a) (hb : DictOK b) : eqImpl a b = true ↔ EqSpec a b :=
  eqImpl_iff a b ha hb

theorem canonL_eq_iff : ∀ (ks ls : List Node),
    canonL ks = canonL ls ↔ ks.length = ls.length ∧ ∀ p ∈ ks.zip ls, EqSpec p.1 p.2
  | [], [] => by simp [canonL]
  | [], _ :: _ => by simp [canonL]
  | _ :: _, [] => by simp [canonL]
  | k :: ks, l :: ls => by
    simp only [canonL, List.cons.injEq, canonL_eq_iff ks ls, List.length_cons, List.zip_cons_cons, List.mem_cons,
      EqSpec]
    constructor
    · rintro ⟨h1, h2, h3⟩
      refine ⟨by omega, ?_⟩
      rintro p (rfl | hp)
      · exact h1
      · exact h3 p hp
    · rintro ⟨h1, h2⟩
      exact ⟨h2 (k, l) (Or.inl rfl), by omega, fun p hp => h2 p (Or.inr hp)⟩

/-- the structural relation, unfolded as the property words it: same name, same attributes whatever their order
    (the same finite map from keys to values; a value list equals a value list with the same items, of any list class),
    as many children, pairwise related; strings by their text (the class is not looked at); a tag never equals a string -/
theorem eqSpec_tag (i j : Nat) (a b : TagData) (ks ls : List Node) :
    EqSpec (.tag i a ks) (.tag j b ls) ↔
      a.name = b.name ∧ (∀ k, attrMap a.attrs k = attrMap b.attrs k) ∧ ks.length = ls.length ∧
        ∀ p ∈ ks.zip ls, EqSpec p.1 p.2 := by
  simp only [EqSpec, canon, Canon.tag.injEq]
  rw [canonL_eq_iff]
  simp only [EqSpec]
  constructor
  · rintro ⟨h1, h2, h3⟩; exact ⟨h1, fun k => congrFun h2 k, h3⟩
  · rintro ⟨h1, h2, h3⟩; exact ⟨h1, funext h2, h3⟩

theorem eqSpec_str (i j c d : Nat) (v w : PStr) : EqSpec (.str i c v) (.str j d w) ↔ v = w := by
  simp [EqSpec, canon]

theorem eqSpec_tag_str (i j c : Nat) (a : TagData) (ks : List Node) (v : PStr) :
    ¬ EqSpec (.tag i a ks) (.str j c v) ∧ ¬ EqSpec (.str j c v) (.tag i a ks) := by
  simp [EqSpec, canon]

/-- `==` is reflexive (also without the `is` shortcut), symmetric and transitive on trees -/
theorem eq_refl (a : Node) (ha : DictOK a) : eqImpl a a = true := (eq_iff_structural a a ha ha).mpr rfl

theorem eq_symm (a b : Node) (ha : DictOK a) (hb : DictOK b) : eqImpl a b = eqImpl b a := by
  have h1 := eq_iff_structural a b ha hb
  have h2 := eq_iff_structural b a hb ha
  cases h : eqImpl a b with
  | true => exact (h2.mpr (h1.mp h).symm).symm
  | false =>
    cases h' : eqImpl b a with
    | false => rfl
    | true => rw [h1.mpr (h2.mp h').symm] at h; cases h

theorem eq_trans (a b c : Node) (ha : DictOK a) (hb : DictOK b) (hc : DictOK c)
    (h1 : eqImpl a b = true) (h2 : eqImpl b c = true) : eqImpl a c = true :=
  (eq_iff_structural a c ha hc).mpr (((eq_iff_structural a b ha hb).mp h1).trans ((eq_iff_structural b c hb hc).mp h2))

/-- `!=` is the negation of `==` -/
theorem ne_iff_not_eq (a b : Node) : neImpl a b = true ↔ eqImpl a b = false := by simp [neImpl]

/-- the result of `==` does not depend on object identities, on where the operands live, on string or list classes, on
    prefix/namespace or on any setting: only on the normal forms -/
theorem eq_depends_on_canon_only (a a' b b' : Node) (ha : DictOK a) (ha' : DictOK a') (hb : DictOK b) (hb' : DictOK b')
    (h1 : canon a = canon a') (h2 : canon b = canon b') : eqImpl a b = eqImpl a' b' := by
  have e1 := eq_iff_structural a b ha hb
  have e2 := eq_iff_structural a' b' ha' hb'
  simp only [EqSpec, h1, h2] at e1
  cases h : eqImpl a' b' with
  | true => exact e1.mpr (e2.mp h)
  | false =>
    cases h' : eqImpl a b with
    | false => rfl
    | true => rw [e2.mpr (e1.mp h')] at h; cases h

/-- equal trees have the same number of nodes -/
theorem eq_same_size (a b : Node) (ha : DictOK a) (hb : DictOK b) (h : eqImpl a b = true) : sizeN a = sizeN b := by
  have := (eq_iff_structural a b ha hb).mp h
  rw [← csize_canon a, ← csize_canon b, this]

/-- hence `==` never identifies a tag with something below it: the structural test `c.parent != tag_stack[-1]` of
    `_event_stream` (the stack holds the open ancestors of the previous element, `c.parent` is one of them) pops exactly
    when the identity test would — copies of trees with repeated identical sub-structure have the right shape (the harness
    enumerates all small ones) -/
theorem eq_never_confuses_ancestor_and_descendant (a x : Node) (ha : DictOK a) (hx : DictOK x) (h : Below a x) :
    eqImpl a x = false ∧ eqImpl x a = false := by
  have hs := below_size h
  constructor
  · cases he : eqImpl a x with
    | false => rfl
    | true => have := eq_same_size a x ha hx he; omega
  · cases he : eqImpl x a with
    | false => rfl
    | true => have := eq_same_size x a hx ha he; omega

example : Below exP (.tag 4 dB []) := .kid (by simp)

/-- **A missing attribute is not an attribute whose value is `None`** — nor any other value: two tags whose attribute maps
    differ at one key are not equal, from either side, whatever else agrees (the same number of attributes, the same other
    attributes, name, children). `tag["disabled"] = None` (`<input disabled>`) makes the map `some none` at that key, a tag
    without it `none`. -/
theorem eq_false_of_attr_differs (i j : Nat) (a b : TagData) (ks ls : List Node) (k : PStr)
    (ha : DictOK (.tag i a ks)) (hb : DictOK (.tag j b ls)) (h : attrMap a.attrs k ≠ attrMap b.attrs k) :
    eqImpl (.tag i a ks) (.tag j b ls) = false ∧ eqImpl (.tag j b ls) (.tag i a ks) = false := by
  constructor
  · cases he : eqImpl (.tag i a ks) (.tag j b ls) with
    | false => rfl
    | true =>
      have := ((eqSpec_tag i j a b ks ls).mp ((eq_iff_structural _ _ ha hb).mp he)).2.1 k
      exact absurd this h
  · cases he : eqImpl (.tag j b ls) (.tag i a ks) with
    | false => rfl
    | true =>
      have := ((eqSpec_tag j i b a ls ks).mp ((eq_iff_structural _ _ hb ha).mp he)).2.1 k
      exact absurd this.symm h

/-- `<input disabled name="q">` against `<input name="q" readonly>` and `<input name="q" title="x">`: as many attributes,
    exactly the value-less one renamed / replaced — not equal, in both directions -/
example :
    let base : TagData := { dB with attrs := [(ofS "disabled", none, .none), (ofS "name", none, .str 0 (ofS "q"))] }
    let ren : TagData := { dB with attrs := [(ofS "readonly", none, .none), (ofS "name", none, .str 0 (ofS "q"))] }
    let rep : TagData := { dB with attrs := [(ofS "name", none, .str 0 (ofS "q")), (ofS "title", none, .str 0 (ofS "x"))] }
    eqImpl (.tag 1 base []) (.tag 2 ren []) = false ∧ eqImpl (.tag 2 ren []) (.tag 1 base []) = false ∧
    eqImpl (.tag 1 base []) (.tag 3 rep []) = false ∧ eqImpl (.tag 3 rep []) (.tag 1 base []) = false ∧
    attrMap base.attrs (ofS "disabled") = some .none ∧ attrMap rep.attrs (ofS "disabled") = none := by decide +kernel

/-- in particular `==` does not look at the XML namespace, the prefix, any setting or any container class of a tag: changing
    them changes no comparison (an SVG `<a>` equals an HTML `<a>` with the same name, attributes and children) -/
theorem eq_ignores_namespace_prefix_settings (i j : Nat) (d : TagData) (ns' pfx' : Option PStr) (st' : Settings)
    (pc : Option Nat) (dc ac : Nat) (ks : List Node) (u : Node) (hd : DictOK (.tag i d ks)) (hu : DictOK u) :
    eqImpl (.tag j { d with ns := ns', pfx := pfx', st := st', parserClass := pc, dictCls := dc, avlCls := ac } ks) u =
      eqImpl (.tag i d ks) u ∧
    eqImpl u (.tag j { d with ns := ns', pfx := pfx', st := st', parserClass := pc, dictCls := dc, avlCls := ac } ks) =
      eqImpl u (.tag i d ks) := by
  have hd' : DictOK (.tag j { d with ns := ns', pfx := pfx', st := st', parserClass := pc, dictCls := dc, avlCls := ac } ks) := by
    simpa [DictOK] using hd
  exact ⟨eq_depends_on_canon_only _ _ _ _ hd' hd hu hu rfl rfl, eq_depends_on_canon_only _ _ _ _ hu hu hd' hd rfl rfl⟩

example : eqImpl exP (.tag 1 { dP with ns := some (ofS "http://www.w3.org/2000/svg"), pfx := none } [.str 3 0 (ofS "t"), .tag 4 dB [],
    .str 5 5 (ofS "c")]) = true := by decide +kernel

/-- **Attribute order is irrelevant**: permuting the attributes of a tag gives an equal tag -/
theorem attr_order_irrelevant (i j : Nat) (d : TagData) (attrs' : Attrs) (ks : List Node)
    (hd : DictOK (.tag i d ks)) (hp : d.attrs.Perm attrs') :
    eqImpl (.tag i d ks) (.tag j { d with attrs := attrs' } ks) = true := by
  have hd' : DictOK (.tag j { d with attrs := attrs' } ks) := by
    simp only [DictOK] at hd ⊢
    exact ⟨perm_keys_nodup hp hd.1, hd.2⟩
  rw [eq_iff_structural _ _ hd hd']
  simp only [EqSpec, canon]
  rw [attrMap_perm hp (by simpa [DictOK] using hd.1)]

private def exQ : Node :=
  .tag 21 { dP with attrs := [(ofS "id", some ⟨none, some (ofS "id"), none⟩, .str 2 (ofS "i")), (ofS "class", none, .list 22 9 [ofS "a", ofS "b"])], pfx := none }
    [.str 23 5 (ofS "t"), .tag 24 { dB with st := st0 } [], .str 25 0 (ofS "c")]

/-- other order, other list class, other key and value classes, other prefix, other string classes, other settings: still `==` -/
example : eqImpl exP exQ = true ∧ eqImpl exQ exP = true := by decide +kernel
example : DictOK exP ∧ DictOK exQ := by
  simp only [DictOK, DictOKL, exP, exQ, dP, dB]
  decide +kernel
/-- one attribute value changed / one child missing / a string against a tag: not `==` -/
example : eqImpl exP (.tag 1 { dP with attrs := [(ofS "class", none, .list 2 0 [ofS "a"]), (ofS "id", none, .str 0 (ofS "i"))] }
    [.str 3 0 (ofS "t"), .tag 4 dB [], .str 5 5 (ofS "c")]) = false := by decide +kernel
example : eqImpl exP (.tag 1 dP [.str 3 0 (ofS "t"), .tag 4 dB []]) = false := by decide +kernel
example : eqImpl (.str 3 0 (ofS "b")) (.tag 4 dB []) = false := by decide +kernel
/-- a list value never equals the string it renders as -/
example : valEq (.list 2 0 [ofS "a"]) (.str 0 (ofS "a")) = false := by decide +kernel
/-- numbers compare as numbers (`True == 1`), never with their text -/
example : valEq (.bool true) (.int 1) = true ∧ valEq (.int 2) (.str 0 (ofS "2")) = false ∧ valEq .none .none = true := by
  decide +kernel

/-! ### a copy equals its original and hashes like it -/

/-- **A copy compares equal to its original** (`original == copy` and `copy == original`) -/
theorem copy_eq (inh : Option Bool) (next : Nat) (t c : Node) (n' : Nat) (hd : DictOK t) (hs : SettledN t)
    (h : copyImpl inh next t = some (c, n')) : eqImpl t c = true ∧ eqImpl c t = true := by
  obtain ⟨rfl, rfl⟩ := copyImpl_some h
  have hd' := dictOK_copySpec t inh next hs hd
  have hc := canon_copySpec t inh next hs
  exact ⟨(eq_iff_structural _ _ hd hd').mpr hc.symm, (eq_iff_structural _ _ hd' hd).mpr hc⟩

/-- and to whatever the original compares equal to -/
theorem copy_eq_class (inh : Option Bool) (next : Nat) (t c u : Node) (n' : Nat) (hd : DictOK t) (hs : SettledN t)
    (hu : DictOK u) (h : copyImpl inh next t = some (c, n')) : eqImpl c u = eqImpl t u := by
  obtain ⟨rfl, rfl⟩ := copyImpl_some h
  exact eq_depends_on_canon_only _ _ _ _ (dictOK_copySpec t inh next hs hd) hd hu hu (canon_copySpec t inh next hs) rfl

/-- **A copy hashes like its original**: `hash(tag)` is `hash(tag.decode())`; for every renderer that reads the tree
    through its shape (no object identities; `known_xml` only through `_is_xml`; attributes as a map) and every string hash -/
theorem copy_hash (render : RShape → PStr) (hsh : PStr → Nat) (inh : Option Bool) (next : Nat) (t c : Node) (n' : Nat)
    (hs : SettledN t) (h : copyImpl inh next t = some (c, n')) : hashImpl render hsh none c = hashImpl render hsh inh t := by
  simp only [hashImpl, (copy_same_shape inh next t c n' hs h).1]

/-- `==`, `hash` and the dict invariant are functions of the shape: whatever has the shape of a tree — its copy, a twin
    parsed from the same markup, the unpickled re-parse — is equal to it and hashes like it -/
theorem same_shape_eq_and_hash (render : RShape → PStr) (hsh : PStr → Nat) (i j : Option Bool) (a b : Node) (ha : DictOK a)
    (h : shape i a = shape j b) :
    eqImpl a b = true ∧ eqImpl b a = true ∧ hashImpl render hsh i a = hashImpl render hsh j b := by
  have hb := dictOK_of_shape a b i j h ha
  have hc := canon_of_shape a b i j h
  exact ⟨(eq_iff_structural a b ha hb).mpr hc, (eq_iff_structural b a hb ha).mpr hc.symm, by simp only [hashImpl, h]⟩

/-- **A copy equals (and hashes like) its original, for every tree**: with the original's dicts re-processed where they
    were tampered with; `copy_eq`/`copy_hash` below are the case `settle t = t` -/
theorem copy_eq_general (render : RShape → PStr) (hsh : PStr → Nat) (inh : Option Bool) (next : Nat) (t c : Node) (n' : Nat)
    (hd : DictOK t) (h : copyImpl inh next t = some (c, n')) :
    eqImpl (settle t) c = true ∧ eqImpl c (settle t) = true ∧
      hashImpl render hsh none c = hashImpl render hsh inh (settle t) := by
  have hsh' := (copy_shape_general inh next t c n' h).1
  obtain ⟨e1, e2, e3⟩ := same_shape_eq_and_hash render hsh inh none (settle t) c (dictOK_settle t hd) hsh'.symm
  exact ⟨e1, e2, e3.symm⟩

/-- non-vacuity: a tampered-with `HTMLAttributeDict` (`None` and an `int` put in behind its back) — the copy drops the one
    and turns the other into its text, exactly as `settle` says -/
example : (settleAttrs 1 (dA 1 .none).attrs) = [(ofS "id", none, .str 0 (ofS "1"))] ∧
    settleAttrs 1 (dA 1 (.int 7)).attrs = (dA 1 (.str 0 (ofS "7"))).attrs ∧
    (copySelf 5 (dA 1 (.int 7)) none).2.1.attrs = (dA 1 (.str 0 (ofS "7"))).attrs := by
  decide +kernel

/-- **`==` and `hash` agree on attribute order**: permuting the attribute dict changes neither (`==`:
    `attr_order_irrelevant`) -/
theorem hash_attr_order_irrelevant (render : RShape → PStr) (hsh : PStr → Nat) (inh : Option Bool) (i j : Nat) (d : TagData)
    (attrs' : Attrs) (ks : List Node) (hd : (d.attrs.map Prod.fst).Nodup) (hp : d.attrs.Perm attrs') :
    hashImpl render hsh inh (.tag i d ks) = hashImpl render hsh inh (.tag j { d with attrs := attrs' } ks) := by
  have hl : ∀ k, (eraseAttrs d.attrs).lookup k = (eraseAttrs attrs').lookup k := by
    intro k
    rw [eraseAttrs_lookup, eraseAttrs_lookup, perm_lookup hp hd k]
  simp only [hashImpl, shape, rshapeOf, shapeData, isXml]
  have : (fun k => (eraseAttrs d.attrs).lookup k) = fun k => (eraseAttrs attrs').lookup k := funext hl
  rw [this]

/-- **When `==` implies equal hashes.** Two equal trees hash alike as soon as they also agree in what `==` does not look
    at (`decor`: string classes, prefixes, namespaces, settings, kinds of keys, kinds and classes of values) — for every
    renderer and string hash. In particular whenever one is a copy of the other, or they were parsed from the same
    markup by equally configured builders. -/
theorem eq_hash_consistent (render : RShape → PStr) (hsh : PStr → Nat) (inh inh' : Option Bool) (a b : Node)
    (ha : DictOK a) (hb : DictOK b) (he : eqImpl a b = true) (hdec : decor inh a = decor inh' b) :
    hashImpl render hsh inh a = hashImpl render hsh inh' b := by
  have hc := (eq_iff_structural a b ha hb).mp he
  simp only [hashImpl, rshape_of_canon_decor a b inh inh' hc hdec]

/-- what does **not** hold (and the property does not claim): `==` looks at less than `decode` does, so equal tags whose
    `decor` differs may hash differently — here `<a><!--x--></a> == <a>x</a>` (strings compare by text, whatever their
    class) -/
theorem hash_is_not_a_function_of_eq :
    ∃ (a b : Node) (render : RShape → PStr) (hsh : PStr → Nat),
      eqImpl a b = true ∧ hashImpl render hsh none a ≠ hashImpl render hsh none b := by
  refine ⟨.tag 1 dB [.str 2 5 (ofS "x")], .tag 3 dB [.str 4 0 (ofS "x")],
    (fun s => match s with | .tag _ _ [.str c _] => [c] | _ => []), (fun s => s.headD 0), by decide +kernel, ?_⟩
  simp [hashImpl, shape, shapeL, rshapeOf, rshapeOfL]

/-- non-vacuity of `eq_hash_consistent`: two different objects (other identities, other attribute order) that are equal and
    agree in `decor` -/
example : ∃ a b : Node, DictOK a ∧ DictOK b ∧ eqImpl a b = true ∧ decor none a = decor none b ∧ ids a ≠ ids b :=
  ⟨exP, .tag 31 { dP with attrs := dP.attrs.reverse |>.map fun e => match e with
      | (k, m, .list _ c xs) => (k, m, .list 32 c xs) | e => e } [.str 33 0 (ofS "t"), .tag 34 dB [], .str 35 5 (ofS "c")],
    dictOK_of_b _ (by decide +kernel),
    dictOK_of_b _ (by decide +kernel),
    by decide +kernel,
    by
      simp only [decor, decorL, exP, Decor.tag.injEq, List.cons.injEq, and_true, true_and]
      refine ⟨by decide +kernel, ?_, by decide +kernel⟩
      funext k
      simp only [dP, List.reverse_cons, List.reverse_nil, List.nil_append, List.cons_append, List.map_cons, List.map_nil,
        List.lookup_cons, List.lookup_nil]
      by_cases h1 : k = ofS "class"
      · subst h1; decide +kernel
      · by_cases h2 : k = ofS "id"
        · subst h2; decide +kernel
        · have e1 : (k == ofS "class") = false := by simpa using h1
          have e2 : (k == ofS "id") = false := by simpa using h2
          simp [e1, e2],
    by decide +kernel⟩

/-! ### the `BeautifulSoup` object -/

/-- **What a copy of a `BeautifulSoup` object keeps**: the builder (the very same object is reused), `original_encoding`,
    and `is_xml` (it is the builder's); **what it does not**: `parse_only` and `element_classes` (the copy is not parsed
    from anything), and — although `original_encoding` is carried over — `declared_html_encoding` and
    `contains_replacement_characters`, which come from preparing the empty markup. Recorded behaviour of
    `BeautifulSoup.copy_self`, compared with the real objects on every run. -/
theorem soup_copy_info (s : SoupInfo) :
    (soupCopySelf s).builder = s.builder ∧ (soupCopySelf s).builderIsXml = s.builderIsXml ∧
    (soupCopySelf s).originalEncoding = s.originalEncoding ∧ (s.isXml = s.builderIsXml → (soupCopySelf s).isXml = s.isXml) ∧
    (soupCopySelf s).parseOnly = none ∧ (soupCopySelf s).elementClasses = none ∧
    (soupCopySelf s).declaredHtmlEncoding = none ∧ (soupCopySelf s).containsReplacementCharacters = false := by
  refine ⟨rfl, rfl, rfl, fun h => h.symm, rfl, rfl, rfl, rfl⟩

/-- copying a copy changes nothing more; a document parsed from a `str` without options is copied field by field -/
theorem soup_copy_idempotent (s : SoupInfo) : soupCopySelf (soupCopySelf s) = soupCopySelf s := rfl

theorem soup_copy_exact (s : SoupInfo) (h1 : s.isXml = s.builderIsXml) (h2 : s.parseOnly = none) (h3 : s.elementClasses = none)
    (h4 : s.declaredHtmlEncoding = none) (h5 : s.containsReplacementCharacters = false) : soupCopySelf s = s := by
  cases s
  simp_all [soupCopySelf]

/-- pickling keeps every document-level field (the whole `__dict__` travels), with new builder / strainer / mapping objects -/
theorem soup_pickle_info (fresh : Nat) (s : SoupInfo) :
    (soupPickle fresh s).isXml = s.isXml ∧ (soupPickle fresh s).originalEncoding = s.originalEncoding ∧
    (soupPickle fresh s).declaredHtmlEncoding = s.declaredHtmlEncoding ∧
    (soupPickle fresh s).containsReplacementCharacters = s.containsReplacementCharacters ∧
    ((soupPickle fresh s).parseOnly.isSome = s.parseOnly.isSome) ∧ (soupPickle fresh s).builder = fresh := by
  refine ⟨rfl, rfl, rfl, rfl, ?_, rfl⟩
  cases h : s.parseOnly <;> simp [soupPickle, h]

example : soupCopySelf ⟨5, false, false, some 7, some 8, some (ofS "latin-1"), some (ofS "latin-1"), true⟩ =
    ⟨5, false, false, none, none, some (ofS "latin-1"), none, false⟩ := by decide +kernel

/-! ### further non-vacuity: concrete instances of the hypotheses above -/

/-- `attr_order_irrelevant` / `hash_attr_order_irrelevant`: a real permutation of a two-entry dict -/
example : dP.attrs.Perm dP.attrs.reverse ∧ (dP.attrs.map Prod.fst).Nodup ∧ dP.attrs ≠ dP.attrs.reverse :=
  ⟨(List.reverse_perm _).symm, nodup_of_b _ (by decide +kernel), by decide +kernel⟩
example : eqImpl exP (.tag 77 { dP with attrs := dP.attrs.reverse } [.str 3 0 (ofS "t"), .tag 4 dB [], .str 5 5 (ofS "c")]) = true :=
  attr_order_irrelevant 1 77 dP _ _ (dictOK_of_b _ (by decide +kernel)) (List.reverse_perm _).symm
/-- `setitem_idempotent`: `True` under a plain key in an `HTMLAttributeDict` becomes the key, which is stored unchanged -/
example : coerce 1 (ofS "k") none (.bool true) = some (.str 0 (ofS "k")) ∧ ¬ (1 = 1 ∧ AVal.str 0 (ofS "k") = .none) := by
  decide +kernel
/-- `old_new_agree`: a tag made without a builder holds an `HTMLAttributeDict` -/
example : (dA 1 (.str 0 (ofS "v"))).dictCls = (if (some false : Option Bool) == some true then 2 else 1) := by decide +kernel
/-- `soup_copy_exact`: a document parsed from a `str` without options -/
example : soupCopySelf ⟨5, false, false, none, none, none, none, false⟩ = ⟨5, false, false, none, none, none, none, false⟩ :=
  soup_copy_exact _ rfl rfl rfl rfl rfl
/-- `copy_soup_same_shape`: a pristine root (`fresh` = its own data) over two children -/
example : ∃ c n', copySoupImpl dB none 10 (.tag 1 dB [.str 2 0 (ofS "t"), .tag 3 dP []]) = some (c, n') ∧
    shape none c = shape none (.tag 1 dB [.str 2 0 (ofS "t"), .tag 3 dP []]) :=
  ⟨_, _, copy_soup_refines dB none 10 1 dB _, copy_soup_same_shape dB none 10 1 dB _ _ _ rfl rfl
    (settledL_of_plain _ (by decide +kernel)) (copy_soup_refines dB none 10 1 dB _)⟩
/-- `copy_independent_history`: a history on objects of the copy (ids 10..14) and on a later one (99) -/
example : applyEdits [.setName 10 (ofS "q"), .listAppend 11 (ofS "z"), .insertKid 10 0 (.str 99 0 (ofS "n")), .clear 13,
    .setAttr 99 (ofS "k") none (.int 1)] exP = exP :=
  copy_independent_history none 10 exP _ _ (copy_refines none 10 exP) (by decide +kernel) _ (by decide +kernel)
/-- `same_shape_eq_and_hash` / `copy_eq_general`: the copy of the tree with all kinds of attribute -/
example : ∃ c n', copyImpl none 20 exN = some (c, n') ∧ eqImpl exN c = true := by
  refine ⟨_, _, copy_refines none 20 exN, ?_⟩
  have hs : SettledN exN := settledN_of_plain _ (by decide +kernel)
  exact (copy_eq none 20 exN _ _ (dictOK_of_b _ (by decide +kernel)) hs (copy_refines none 20 exN)).1

/-! ### pickling a document -/

/-- **Every generation is the re-parse of the current tree**: whatever happened to a document before — parsed, unpickled
    (so that it still holds the markup it was rebuilt from), edited, unpickled and edited again … — its pickle round trip
    is `feed (decode tree)` of the tree *as it is when it is pickled*; the left-over `markup` plays no role. With C05's
    `feed ∘ decode = normalise` this is "equal to the original up to the re-parse normalisations", for all histories. -/
theorem pickle_generation {T : Type} (decode : T → PStr) (feed : PStr → T) (d : PDoc T) (h : List (PStep T)) :
    (pickleRoundTrip decode feed (pRun decode feed d h)).tree = feed (decode (pRun decode feed d h).tree) := rfl

/-- in particular: unpickle, edit, pickle again — the second generation contains the edit -/
theorem pickle_edit_pickle {T : Type} (decode : T → PStr) (feed : PStr → T) (d : PDoc T) (f : T → T) :
    (pRun decode feed d [.pickle, .edit f, .pickle]).tree = feed (decode (f (feed (decode d.tree)))) := rfl

/-- what the seeded `__getstate__` (re-using a left-over `markup`) would do instead: the second generation is the first
    one again, the edit is lost. (Strings as documents, `feed = decode = id`, edit = append a character.) -/
example : getStateStale (T := PStr) id (⟨ofS "ab", none⟩ : PDoc PStr) = ofS "ab" ∧
    getStateStale (T := PStr) id { (pickleRoundTrip id id (⟨ofS "ab", none⟩ : PDoc PStr)) with tree := ofS "abc" } = ofS "ab" ∧
    getState (T := PStr) id { (pickleRoundTrip id id (⟨ofS "ab", none⟩ : PDoc PStr)) with tree := ofS "abc" } = ofS "abc" := by
  decide +kernel

/-! ### the model's reading of `copy_self` / `__getstate__` / `__setstate__`, pinned to observed behaviour

    The four theorems below compare tables generated by `translate/parts_c12.py` with what `Model/Copy.lean` assumes. The tables
    are **not** source text: the translator builds probe objects in the running bs4 (spy subclasses of `Tag` / `BeautifulSoup`
    recording the bound arguments of `__init__`, `decode`, `reset`, `_feed`; one distinct sentinel value per parameter, told apart by
    identity), calls the method and writes down what it saw. Renaming locals, reordering independent statements, extracting a
    helper, unrolling a loop leave every table unchanged; a change of behaviour on the probes changes one. What they assume: the
    probes are representative (two probe tags with complementary flags inside a small tree, attribute values of every kind in a
    `dict` subclass; four probe documents); everything beyond the probes is the harness's business. -/

private def yes (names : List String) : List (PStr × Bool) := names.map fun n => (ofS n, true)
private def kinds (l : List (String × String)) : List (PStr × PStr) := l.map fun p => (ofS p.1, ofS p.2)
/-- a parameter that was not passed got its default, `None` for every parameter of `Tag.__init__` -/
private def noneLike (l : List (PStr × PStr)) : List (PStr × PStr) :=
  l.map fun p => (p.1, if p.2 == ofS "absent" then ofS "none" else p.2)

/-- the model's reading of `__getstate__`/`__setstate__` (`getState` = `decode` of the *current* tree, `setState` = `feed`
    of the stored markup, which `.markup` keeps; `soupPickle`: the whole `__dict__` travels), **observed on probe documents**:
    `__getstate__` calls `self.decode` exactly once, with `eventual_encoding=None` (no target encoding: `<meta>` declarations are
    left as they are, f08ffee) and nothing else but defaults; `state["markup"]` *is* the object that call returned — also when a
    non-empty `.markup` was left over, also for an empty tree; `contents` is a new empty list, the four links are `None`,
    `_most_recent_element` is gone, no tree object but the document itself is reachable from the state; the builder is replaced by
    its class exactly when it is not picklable (`None` stays `None`); every other key of `__dict__` travels as the identical
    object; the document is untouched. `__setstate__` calls `reset()` then `_feed()`, once each, whatever the builder entry: a class
    is instantiated, `None` gives an `HTMLParserTreeBuilder`, an instance — even a falsy one — is kept, `builder.soup` is the new
    object, the other fields are kept, the tree is the parse of `state["markup"]`. Pinned to behaviour, not to source text. -/
theorem pickle_observed :
    BS.Gen.Copy.getstateDecodeCalls = 1 ∧
    BS.Gen.Copy.getstateDecode = kinds [("indent_level", "default"), ("eventual_encoding", "none"), ("formatter", "default"),
      ("iterator", "default"), ("kwargs", "default")] ∧
    BS.Gen.Copy.getstateFacts = yes ["builder_none_kept", "contents_empty", "empty_tree_gives_empty_markup", "links_none_or_absent",
      "markup_is_current_tree_not_leftover", "markup_is_what_decode_returned", "most_recent_element_absent",
      "no_tree_object_reachable", "object_untouched", "other_keys_kept_identical", "picklable_builder_kept", "state_is_new_dict",
      "unpicklable_builder_replaced_by_class"] ∧
    BS.Gen.Copy.setstateCalls = [ofS "reset", ofS "_feed"] ∧
    BS.Gen.Copy.setstateFacts = yes ["builder_class_instantiated", "builder_instance_kept", "builder_none_gives_htmlparser",
      "builder_soup_is_the_object", "falsy_builder_object_kept", "markup_attribute_keeps_state_markup", "other_fields_kept",
      "same_calls_for_every_builder_form", "tree_is_parse_of_state_markup"] := by decide +kernel

/-- `Tag.copy_self` as `copySelf` models it, **observed on probe tags** (a spy subclass of `Tag`, one sentinel per parameter of
    `Tag.__init__`, `hidden`/`can_be_empty_element`/`parser_class` set after construction, `known_xml` only on the parent, an
    attribute dict of a user class holding a list of a user class, a plain `list`, a `str` subclass, an int, a float, `True`,
    `None`): the one constructor call receives `None` (or nothing) for `parser`, `builder`, `attrs`, `parent`, `previous` and the
    tag's own value for everything else (`is_xml` = the resolved `_is_xml`); the clone holds the same objects in the attributes of
    those parameters, `parser_class = None`, no builder; its `attrs` is a new dict of the original's class with the keys in order,
    every list value a new list of its own class with the same items, every other value the identical object (nothing is
    re-processed — the repair, cd929ef; an empty dict of a user class stays one); `can_be_empty_element` and `hidden` are carried
    whatever their value; no parent, no contents, no links; the original is untouched. Pinned to behaviour, not to source text. -/
theorem copy_self_observed :
    noneLike BS.Gen.Copy.copySelfCtor = kinds
      [("parser", "none"), ("builder", "none"), ("name", "own"), ("namespace", "own"), ("prefix", "own"), ("attrs", "none"),
       ("parent", "none"), ("previous", "none"), ("is_xml", "own"), ("sourceline", "own"), ("sourcepos", "own"),
       ("can_be_empty_element", "own"), ("cdata_list_attributes", "own"), ("preserve_whitespace_tags", "own"),
       ("interesting_string_types", "own"), ("namespaces", "own")] ∧
    BS.Gen.Copy.copySelfClone = kinds
      [("parser", "none"), ("builder", "noattr"), ("name", "same"), ("namespace", "same"), ("prefix", "same"), ("attrs", "rebuilt"),
       ("parent", "none"), ("previous", "none"), ("is_xml", "same"), ("sourceline", "same"), ("sourcepos", "same"),
       ("can_be_empty_element", "same"), ("cdata_list_attributes", "same"), ("preserve_whitespace_tags", "same"),
       ("interesting_string_types", "same"), ("namespaces", "same")] ∧
    BS.Gen.Copy.copySelfFacts = yes ["attrs_fresh_object", "attrs_keys_in_order", "attrs_same_class", "can_be_empty_element_carried",
      "can_be_empty_element_none_carried", "clone_is_new_object_of_same_class", "empty_attrs_same_class_fresh", "hidden_carried",
      "hidden_false_carried", "list_values_fresh", "list_values_same_class_same_items", "no_contents", "no_links", "no_parent",
      "one_constructor_call", "original_untouched", "other_values_identical"] := by
  decide +kernel

/-- no parameter of `Tag.__init__` is forgotten by `copy_self` ("Any new arguments here need to be mirrored in
    Tag.copy_self", element.py:1638): **every** parameter of the live signature — whatever it is called, also one added later —
    is either handed the original's own value and found unchanged on the clone, or is one of `parser`/`builder`/`attrs`/
    `parent`/`previous`, which get `None` or nothing. Observed on the probe tags, not read from source text. -/
theorem copy_self_forwards_every_param :
    BS.Gen.Copy.copySelfCtor.map Prod.fst = BS.Gen.Copy.tagInitParams ∧
    BS.Gen.Copy.copySelfClone.map Prod.fst = BS.Gen.Copy.tagInitParams ∧
    BS.Gen.Copy.tagInitParams.all (fun p =>
      (BS.Gen.Copy.copySelfCtor.lookup p == some (ofS "own") && BS.Gen.Copy.copySelfClone.lookup p == some (ofS "same")) ||
      ([ofS "parser", ofS "builder", ofS "attrs", ofS "parent", ofS "previous"].contains p &&
        (BS.Gen.Copy.copySelfCtor.lookup p == some (ofS "none") || BS.Gen.Copy.copySelfCtor.lookup p == some (ofS "absent")))) = true := by
  decide +kernel

/-- `BeautifulSoup.copy_self` as `soupCopySelf` / `copySoupImpl` model it, **observed on a probe document** (a spy subclass of
    `BeautifulSoup` on a builder object of its own, `original_encoding` set to a sentinel): one constructor call with empty
    markup, no features, the original's very builder object and nothing else; the clone is a new empty object of the same class
    with the root name, hidden, on that same builder, attached to nothing; `original_encoding` is carried over; the original is
    untouched. Pinned to behaviour, not to source text. -/
theorem soup_copy_self_observed :
    noneLike BS.Gen.Copy.soupCopySelfCtor = kinds [("markup", "empty"), ("features", "none"), ("builder", "own"),
      ("parse_only", "none"), ("from_encoding", "none"), ("exclude_encodings", "none"), ("element_classes", "none"),
      ("kwargs", "none")] ∧
    BS.Gen.Copy.soupCopySelfFacts = yes ["clone_has_root_name", "clone_is_empty", "clone_is_new_object_of_same_class",
      "no_parent_no_siblings", "one_constructor_call", "original_encoding_carried", "original_untouched", "same_builder_object"] ∧
    BS.Gen.Copy.rootTagName = ofS "[document]" := by decide +kernel

end BS.Props.C12
