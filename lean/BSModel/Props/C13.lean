import BSModel.Proofs.Text
import BSModel.Proofs.TextHeap
import BSModel.Proofs.TextIter
import BSModel.Props.C01
import BSModel.Props.C03
import BSModel.Gen.Text
/-! # C13 — text extraction returns exactly the interesting strings, in document order

Property theorems only. `allStringsImpl`, `getTextImpl`, `stringsImpl`, `strippedStringsImpl`, `textImpl`, `stringProp`,
`interestingFor`, `stringContainer` mirror `bs4/element.py` and `bs4/__init__.py` statement by statement
(`Model/Text.lean`); `textOf`/`textOfL` is the recursive evaluator, `joinSpec`/`List.intercalate` the meaning of
`separator.join`, `SoleChain`/`Occurs` the relations the statement talks about. The tables (`c13MainContentStringTypes`,
`c13HtmlStringContainers`, `pyWhitespace`) are generated from the live objects on every run. -/
namespace BS.Props.C13
open BS.Text

abbrev main := BS.Gen.c13MainContentStringTypes
abbrev containers := BS.Gen.c13HtmlStringContainers

/-- the pieces after the class test: as they are, or each one trimmed and the empty ones dropped -/
def pieces (strp : Bool) (l : List PStr) : List PStr :=
  if strp then (l.map strip).filter (fun s => !s.isEmpty) else l

/-- "ordinary text and CDATA" -/
def isMain (c : StrClass) : Bool := c == .navigableString || c == .cData

/-- A concrete mixed tree:
    `<div>" a "<!--c--><script>s1</script><p><![CDATA[x]]>"  "<b>"y "</b></p><template>t<i>u</i></template><?pi?></div>`
    with an extra Script string moved under `<p>` by hand. Tag names are code points; all tags carry the
    `interesting_string_types` a default html.parser build gives them. -/
def demo : Node :=
  .tag (ofS "div") (interestingFor main containers (ofS "div"))
    [ .str .navigableString (ofS " a "),
      .str .comment (ofS "c"),
      .tag (ofS "script") (interestingFor main containers (ofS "script")) [.str .script (ofS "s1")],
      .tag (ofS "p") (interestingFor main containers (ofS "p"))
        [ .str .cData (ofS "x"), .str .navigableString (ofS "  "), .str .script (ofS "moved"),
          .tag (ofS "b") (interestingFor main containers (ofS "b")) [.str .navigableString (ofS "y ")] ],
      .tag (ofS "template") (interestingFor main containers (ofS "template"))
        [ .str .templateString (ofS "t"), .tag (ofS "i") (interestingFor main containers (ofS "i")) [.str .templateString (ofS "u")] ],
      .str .processingInstruction (ofS "pi") ]

/-! ## 1. the chain walk with its filter is the recursive evaluator -/

/-- Document order: the worklist walk over `descendants` lists the nodes below an element in pre-order. -/
theorem walk_is_preorder (l : List Node) : walk l = preL l := walk_eq_pre l

/-- Refinement, for every tree, every `types` argument and every `interesting_string_types` of the receiver: what
    `Tag._all_strings` yields (walk over the descendants, exact-class filter, optional strip) is what the recursive
    evaluator yields for the resolved class selection — the selected strings, all of them, in document order. -/
theorem allStrings_eq_spec (mn : List StrClass) (strp : Bool) (types : TypesArg) (nm : PStr) (i : Interesting)
    (kids : List Node) :
    allStringsImpl mn strp types (.tag nm i kids) = pieces strp (textOfL (resolveTag mn i types).keeps kids) := by
  simp only [allStringsImpl, walk_eq_pre, filterMap_preL, pieces]
  cases strp
  · simp [filterMap_piece_false]
  · simp [filterMap_piece_true]

example : allStringsImpl main false .dflt demo = [ofS " a ", ofS "x", ofS "  ", ofS "y "] := by
  rw [demo, allStrings_eq_spec]; decide
example : allStringsImpl main true .dflt demo = [ofS "a", ofS "x", ofS "y"] := by
  rw [demo, allStrings_eq_spec]; decide

/-- The same on a string receiver (`NavigableString._all_strings`): the string itself if its class is selected
    (default: the main content classes, whatever its parent), trimmed under `strip`, and — a quirk of this branch,
    with or without `strip` — nothing at all when the result is empty. -/
theorem allStrings_str_eq_spec (mn : List StrClass) (strp : Bool) (types : TypesArg) (c : StrClass) (v : PStr) :
    allStringsImpl mn strp types (.str c v) =
      ((textOf (resolveStr mn types).keeps (.str c v)).map (fun s => if strp then strip s else s)).filter
        (fun s => !s.isEmpty) := by
  simp only [allStringsImpl, textOf]
  cases h : (resolveStr mn types).keeps c
  · simp
  · cases strp
    · cases v <;> simp
    · cases hs : strip v <;> simp [hs]

example : allStringsImpl main true .dflt (.str .navigableString (ofS " k ")) = [ofS "k"] := by decide
example : allStringsImpl main false .dflt (.str .comment (ofS "k")) = [] := by decide
example : allStringsImpl main false .dflt (.str .navigableString []) = [] := by decide

/-- Document order and "exactly the selected classes", separated: there is one fixed sequence of the string nodes
    beneath an element (`strNodesL`, independent of every argument); each extraction is that sequence filtered by class —
    nothing reordered, nothing selected dropped, nothing else added. -/
theorem allStrings_filter_of_document_order (mn : List StrClass) (types : TypesArg) (nm : PStr) (i : Interesting)
    (kids : List Node) :
    allStringsImpl mn false types (.tag nm i kids) =
      ((strNodesL kids).filter (fun p => (resolveTag mn i types).keeps p.1)).map (·.2) := by
  rw [allStrings_eq_spec, textOfL_eq_filter]; rfl

example : (match demo with | .tag _ _ ks => (strNodesL ks).map (·.1) | _ => []) =
    [.navigableString, .comment, .script, .cData, .navigableString, .script, .navigableString, .templateString,
     .templateString, .processingInstruction] := by decide

/-- Law of the evaluator: the text of a sequence of siblings is the concatenation of their texts (so the text of
    an element is the concatenation, child by child, of the texts of its children). -/
theorem spec_append (sel : StrClass → Bool) (a b : List Node) :
    textOfL sel (a ++ b) = textOfL sel a ++ textOfL sel b := textOfL_append sel a b

/-! ## 2. the default selection -/

/-- Table fact: `Tag.MAIN_CONTENT_STRING_TYPES` is exactly {NavigableString, CData}. -/
theorem main_types_table (c : StrClass) : main.contains c = isMain c := by
  cases c <;> simp [main, BS.Gen.c13MainContentStringTypes, isMain]

/-- Table fact: the default string containers of the HTML builders are script, style, template, rt, rp with their
    own classes, and no container class is a main content class. -/
theorem containers_table :
    containers.lookup (ofS "script") = some .script ∧ containers.lookup (ofS "style") = some .stylesheet ∧
    containers.lookup (ofS "template") = some .templateString ∧ containers.lookup (ofS "rt") = some .rubyTextString ∧
    containers.lookup (ofS "rp") = some .rubyParenthesisString ∧ containers.length = 5 ∧
    (containers.all fun p => !main.contains p.2) = true ∧ BS.Gen.c13BaseStringContainers = [] := by
  decide +kernel

/-- Ordinary element (its name is not a string container of the builder that made it), default arguments:
    exactly the NavigableString and CData strings beneath it, in document order. -/
theorem default_types_ordinary (strp : Bool) (cont : List (PStr × StrClass)) (nm : PStr) (kids : List Node)
    (h : cont.lookup nm = none) :
    allStringsImpl main strp .dflt (.tag nm (interestingFor main cont nm) kids) = pieces strp (textOfL isMain kids) := by
  rw [allStrings_eq_spec]
  simp only [interestingFor, h, resolveTag]
  rw [textOfL_congr _ isMain (fun c => by simp only [Types.keeps]; exact main_types_table c)]

/-- Container element (script/style/template/rt/rp by default, or whatever `string_containers` says): exactly the
    strings of its own special class. -/
theorem default_types_container (strp : Bool) (cont : List (PStr × StrClass)) (nm : PStr) (c : StrClass)
    (kids : List Node) (h : cont.lookup nm = some c) :
    allStringsImpl main strp .dflt (.tag nm (interestingFor main cont nm) kids) =
      pieces strp (textOfL (fun d => d == c) kids) := by
  rw [allStrings_eq_spec]
  simp only [interestingFor, h, resolveTag]
  rw [textOfL_congr _ (fun d => d == c) (fun d => by first | rfl | (simp only [Types.keeps, List.contains_cons, List.contains_nil, Bool.or_false]))]

/-- A tag made without a builder and without `interesting_string_types` (`None`) counts the main content classes. -/
theorem default_types_none (strp : Bool) (nm : PStr) (kids : List Node) :
    allStringsImpl main strp .dflt (.tag nm .none kids) = pieces strp (textOfL isMain kids) := by
  rw [allStrings_eq_spec]
  simp only [resolveTag]
  rw [textOfL_congr _ isMain (fun c => by simp only [Types.keeps]; exact main_types_table c)]

example : containers.lookup (ofS "div") = none := by decide
example : containers.lookup (ofS "template") = some .templateString := by decide
example : allStringsImpl main true .dflt (.tag (ofS "template") (interestingFor main containers (ofS "template"))
    [.str .templateString (ofS " t "), .tag (ofS "b") (.many main) [.str .templateString (ofS "u"), .str .comment (ofS "c")]]) =
    [ofS "t", ofS "u"] := by
  rw [default_types_container true containers (ofS "template") .templateString _ (by decide)]; decide
example : allStringsImpl main false .dflt (.tag (ofS "script") (interestingFor main containers (ofS "script"))
    [.str .script (ofS "s"), .str .comment (ofS "c"), .str .navigableString (ofS "n")]) = [ofS "s"] := by
  rw [allStrings_eq_spec]; decide
example : (match demo with | .tag _ _ ks => textOfL isMain ks | _ => []) = [ofS " a ", ofS "x", ofS "  ", ofS "y "] := by
  decide

/-! ## 3. seen from outside, special strings never appear -/

/-- From an ordinary element, whatever the nesting: the default extraction is the extraction of *every* string
    (`types=None`) of the tree from which all strings of another class than NavigableString/CData — comments,
    doctypes, declarations, processing instructions, Script, Stylesheet, TemplateString, ruby strings, user
    subclasses — have been deleted. -/
theorem outside_never_sees_special (strp : Bool) (cont : List (PStr × StrClass)) (nm : PStr) (kids : List Node)
    (h : cont.lookup nm = none) :
    allStringsImpl main strp .dflt (.tag nm (interestingFor main cont nm) kids) =
      allStringsImpl main strp .none (.tag nm (interestingFor main cont nm) (pruneL isMain kids)) := by
  rw [default_types_ordinary strp cont nm kids h, allStrings_eq_spec]
  simp only [resolveTag]
  rw [textOfL_pruneL]
  rw [textOfL_congr (fun c => isMain c && Types.all.keeps c) isMain (fun c => by simp [Types.keeps])]

/-- Membership form: a piece is yielded (no strip) iff it is the value of a NavigableString or CData node beneath the
    element. -/
theorem outside_mem (cont : List (PStr × StrClass)) (nm : PStr) (kids : List Node) (p : PStr)
    (h : cont.lookup nm = none) :
    p ∈ allStringsImpl main false .dflt (.tag nm (interestingFor main cont nm) kids) ↔
      ∃ c, OccursL kids c p ∧ (c = .navigableString ∨ c = .cData) := by
  rw [default_types_ordinary false cont nm kids h]
  simp only [pieces, Bool.false_eq_true, if_false]
  rw [mem_textOfL]
  simp [isMain]

/-- A subtree holding only special strings contributes nothing, however deep they sit. -/
theorem only_special_yields_nothing (strp : Bool) (cont : List (PStr × StrClass)) (nm : PStr) (kids : List Node)
    (h : cont.lookup nm = none) (hs : ∀ c v, OccursL kids c v → c ≠ .navigableString ∧ c ≠ .cData) :
    allStringsImpl main strp .dflt (.tag nm (interestingFor main cont nm) kids) = [] := by
  rw [default_types_ordinary strp cont nm kids h]
  have : textOfL isMain kids = [] := by
    apply List.eq_nil_iff_forall_not_mem.mpr
    intro p hp
    obtain ⟨c, ho, hc⟩ := (mem_textOfL isMain kids p).mp hp
    have := hs c p ho
    simp [isMain] at hc
    rcases hc with rfl | rfl
    · exact this.1 rfl
    · exact this.2 rfl
  simp [this, pieces]

example : allStringsImpl main false .dflt (.tag (ofS "div") (interestingFor main containers (ofS "div"))
    [.tag (ofS "script") (.many [.script]) [.str .script (ofS "s")], .str .comment (ofS "c"), .str .doctype (ofS "html")]) = [] := by
  rw [allStrings_eq_spec]; decide
/-- the hypothesis of `only_special_yields_nothing` on a concrete nested forest -/
example : ∀ c v, OccursL [.tag (ofS "script") (.many [.script]) [.str .script (ofS "s")], .str .comment (ofS "c")] c v →
    c ≠ .navigableString ∧ c ≠ .cData := by
  intro c v h
  cases h with
  | head h => cases h with
    | inTag h => cases h with
      | head h => cases h; decide
      | tail h => cases h
  | tail h => cases h with
    | head h => cases h; decide
    | tail h => cases h
example : pruneL isMain [.str .comment (ofS "c"), .tag (ofS "p") .none [.str .script (ofS "s"), .str .cData (ofS "x")]]
    = [.tag (ofS "p") .none [.str .cData (ofS "x")]] := by
  simp [pruneL, prune, isMain]

/-! ## 4. an explicit `types` argument -/

/-- A collection of classes selects exactly the strings whose class is a member — by *exact* class, independently of
    the receiver's own `interesting_string_types` and of the main content classes. -/
theorem types_arg_exact (mn : List StrClass) (strp : Bool) (cs : List StrClass) (nm : PStr) (i : Interesting)
    (kids : List Node) :
    allStringsImpl mn strp (.many cs) (.tag nm i kids) = pieces strp (textOfL (fun c => cs.contains c) kids) := by
  rw [allStrings_eq_spec]
  simp only [resolveTag]
  rw [textOfL_congr _ (fun c => cs.contains c) (fun c => by simp [Types.keeps])]

/-- A single class selects exactly the strings of that class. -/
theorem types_arg_one (mn : List StrClass) (strp : Bool) (c : StrClass) (nm : PStr) (i : Interesting)
    (kids : List Node) :
    allStringsImpl mn strp (.one c) (.tag nm i kids) = pieces strp (textOfL (fun d => d == c) kids) := by
  rw [allStrings_eq_spec]
  simp only [resolveTag]
  rw [textOfL_congr _ (fun d => d == c) (fun d => by first | rfl | (simp only [Types.keeps, List.contains_cons, List.contains_nil, Bool.or_false]))]

/-- `types=None` selects every string. -/
theorem types_arg_none (mn : List StrClass) (strp : Bool) (nm : PStr) (i : Interesting) (kids : List Node) :
    allStringsImpl mn strp .none (.tag nm i kids) = pieces strp (textOfL (fun _ => true) kids) := by
  rw [allStrings_eq_spec]
  simp only [resolveTag]
  rw [textOfL_congr _ (fun _ => true) (fun d => by first | rfl | (simp only [Types.keeps, List.contains_cons, List.contains_nil, Bool.or_false]))]

/-- Membership form of `types_arg_exact`. -/
theorem types_arg_mem (mn : List StrClass) (cs : List StrClass) (nm : PStr) (i : Interesting) (kids : List Node)
    (p : PStr) :
    p ∈ allStringsImpl mn false (.many cs) (.tag nm i kids) ↔ ∃ c, OccursL kids c p ∧ c ∈ cs := by
  rw [types_arg_exact]
  simp only [pieces, Bool.false_eq_true, if_false]
  rw [mem_textOfL]
  simp

example : allStringsImpl main false (.many [.comment, .script]) demo = [ofS "c", ofS "s1", ofS "moved"] := by
  rw [demo, types_arg_exact]; decide
example : allStringsImpl main false (.one .templateString) demo = [ofS "t", ofS "u"] := by
  rw [demo, types_arg_one]; decide
example : allStringsImpl main false (.many [.comment]) (.tag [] .none [.str (.other 0) (ofS "subclass of Comment")]) = [] := by
  rw [types_arg_exact]; decide

/-! ## 5. separator -/

/-- `get_text(sep, strip, types)` is the pieces of `_all_strings(strip, types)` with `sep` between consecutive ones. -/
theorem getText_join (mn : List StrClass) (sep : PStr) (strp : Bool) (types : TypesArg) (n : Node) :
    getTextImpl mn sep strp types n = List.intercalate sep (allStringsImpl mn strp types n) := by
  rw [getTextImpl, joinImpl_eq_joinSpec, joinSpec_eq_intercalate]

/-- Length accounting: every piece once, the separator between consecutive pieces only. -/
theorem getText_length (mn : List StrClass) (sep : PStr) (strp : Bool) (types : TypesArg) (n : Node) :
    (getTextImpl mn sep strp types n).length =
      (allStringsImpl mn strp types n).flatten.length + ((allStringsImpl mn strp types n).length - 1) * sep.length := by
  rw [getTextImpl, joinImpl_eq_joinSpec]
  cases allStringsImpl mn strp types n with
  | nil => simp [joinSpec]
  | cons p ps =>
    rw [joinSpec_cons, List.length_append, length_flatten_sep]
    simp only [List.flatten_cons, List.length_append, List.length_cons, Nat.add_sub_cancel]
    omega

/-- `.text` is the plain concatenation of `.strings`. -/
theorem text_concat (mn : List StrClass) (n : Node) : textImpl mn n = (stringsImpl mn n).flatten := by
  rw [textImpl, getTextImpl, joinImpl_eq_joinSpec, stringsImpl]
  cases allStringsImpl mn false .dflt n with
  | nil => simp [joinSpec]
  | cons p ps => rw [joinSpec_cons]; simp

example : getTextImpl main (ofS "|") true .dflt demo = ofS "a|x|y" := by
  rw [getText_join, demo, allStrings_eq_spec]; decide
example : getTextImpl main (ofS "--") false (.one .comment) demo = ofS "c" := by
  rw [getText_join, demo, allStrings_eq_spec]; decide

/-! ## 6. strip -/

/-- `str.strip()`: the string minus a whitespace prefix and a whitespace suffix, with no whitespace left at either
    end (whitespace = the generated `isspace` table). -/
theorem strip_spec (s : PStr) :
    (∃ a b, s = a ++ strip s ++ b ∧ (∀ c ∈ a, isSpace c = true) ∧ (∀ c ∈ b, isSpace c = true)) ∧
    (∀ c, (strip s).head? = some c → isSpace c = false) ∧ (∀ c, (strip s).getLast? = some c → isSpace c = false) :=
  ⟨strip_decomp s, strip_head s, strip_last s⟩

/-- With `strip=True`: the sequence is the unstripped sequence with every piece trimmed and the empty results
    dropped; every yielded piece is non-empty and has no leading or trailing whitespace. Holds for element and string
    receivers alike. -/
theorem strip_drops_empties (mn : List StrClass) (types : TypesArg) (nm : PStr) (i : Interesting) (kids : List Node) :
    allStringsImpl mn true types (.tag nm i kids) =
      ((allStringsImpl mn false types (.tag nm i kids)).map strip).filter (fun s => !s.isEmpty) ∧
    ∀ p ∈ allStringsImpl mn true types (.tag nm i kids),
      p ≠ [] ∧ (∀ c, p.head? = some c → isSpace c = false) ∧ (∀ c, p.getLast? = some c → isSpace c = false) := by
  rw [allStrings_eq_spec, allStrings_eq_spec]
  simp only [pieces, if_true, Bool.false_eq_true, if_false, true_and]
  intro p hp
  obtain ⟨hm, hne⟩ := List.mem_filter.mp hp
  obtain ⟨s, _, rfl⟩ := List.mem_map.mp hm
  refine ⟨?_, strip_head s, strip_last s⟩
  intro h; simp [h] at hne

/-- the same for a string receiver -/
theorem strip_drops_empties_str (mn : List StrClass) (types : TypesArg) (c : StrClass) (v : PStr) :
    ∀ p ∈ allStringsImpl mn true types (.str c v),
      p = strip v ∧ p ≠ [] ∧ (∀ c, p.head? = some c → isSpace c = false) ∧ (∀ c, p.getLast? = some c → isSpace c = false) := by
  intro p hp
  rw [allStrings_str_eq_spec] at hp
  obtain ⟨hm, hne⟩ := List.mem_filter.mp hp
  obtain ⟨s, hs, rfl⟩ := List.mem_map.mp hm
  simp only [if_true]
  have : s = v := by
    simp only [textOf] at hs
    split at hs <;> simp_all
  subst this
  refine ⟨rfl, ?_, strip_head s, strip_last s⟩
  intro h; simp [h] at hne

/-- Already-trimmed strings come through unchanged. -/
theorem strip_fixed_point (s : PStr) (hh : ∀ c, s.head? = some c → isSpace c = false)
    (hl : ∀ c, s.getLast? = some c → isSpace c = false) : strip s = s := strip_fixed s hh hl

example : strip (ofS "a b") = ofS "a b" := strip_fixed_point _ (by decide) (by decide)
example : strip (ofS " \t a b\n") = ofS "a b" := by decide
example : strip [0x3000, 0xA0, 120, 0x200B, 0x2028] = [120, 0x200B] := by decide
example : strippedStringsImpl main demo = [ofS "a", ofS "x", ofS "y"] := by
  rw [strippedStringsImpl, demo, allStrings_eq_spec]; decide
example : ofS "a" ∈ allStringsImpl main true .dflt demo := by
  rw [demo, allStrings_eq_spec]; decide

/-- Whole-table facts about the generated `isspace` table: strictly increasing (so duplicate-free), every entry a
    code point, and below 128 exactly TAB, LF, VT, FF, CR, FS, GS, RS, US and SPACE. -/
theorem whitespace_table :
    BS.Gen.pyWhitespace.Pairwise (· < ·) ∧ (BS.Gen.pyWhitespace.all (· < 0x110000)) = true ∧
    ((List.range 128).all fun c => isSpace c == [9, 10, 11, 12, 13, 28, 29, 30, 31, 32].contains c) = true := by
  refine ⟨by decide +kernel, by decide +kernel, by decide +kernel⟩

/-! ## 7. `.string` -/

/-- `.string` is the string reached through a chain of only children — any class of string counts — and `None` when
    there is no such chain (no child, several children, or the chain ends in an empty tag). -/
theorem string_sole_chain (n : Node) (c : StrClass) (v : PStr) :
    stringProp n = some (c, v) ↔ SoleChain n c v :=
  ⟨stringProp_sound n c v, stringProp_complete n c v⟩

/-- There is at most one such string. -/
theorem sole_chain_unique (n : Node) (c c' : StrClass) (v v' : PStr) (h : SoleChain n c v) (h' : SoleChain n c' v') :
    c = c' ∧ v = v' := by
  have a := stringProp_complete n c v h
  have b := stringProp_complete n c' v' h'
  rw [a] at b
  simpa using b

/-- `None` exactly when no chain of only children ends in a string. -/
theorem string_none_iff (n : Node) : stringProp n = none ↔ ¬ ∃ c v, SoleChain n c v := by
  constructor
  · rintro h ⟨c, v, hc⟩
    rw [stringProp_complete n c v hc] at h; cases h
  · intro h
    cases hs : stringProp n with
    | none => rfl
    | some cv => exact absurd ⟨cv.1, cv.2, stringProp_sound n cv.1 cv.2 hs⟩ h

example : stringProp (.tag (ofS "a") .none [.tag (ofS "b") .none [.str .comment (ofS "c")]]) = some (.comment, ofS "c") := by
  decide
example : SoleChain (.tag (ofS "a") .none [.tag (ofS "b") .none [.str .comment (ofS "c")]]) .comment (ofS "c") :=
  .down (.down (.here _ _))
example : stringProp demo = none := by decide
example : stringProp (.tag (ofS "a") .none [.tag (ofS "b") .none []]) = none := by decide

/-! ## 8. the class parsed text gets -/

/-- `BeautifulSoup.string_container` without `element_classes` overrides: plain data gets the class of the innermost
    open string-container element if there is one, else NavigableString; data the builder already classified
    (Comment, CData, Doctype, …) keeps its class. -/
theorem string_container_rule (cont : List (PStr × StrClass)) :
    (∀ nm c, cont.lookup nm = some c → stringContainer [] cont (some nm) none = c) ∧
    (∀ nm, cont.lookup nm = none → stringContainer [] cont (some nm) none = .navigableString) ∧
    (stringContainer [] cont none none = .navigableString) ∧
    (∀ top b, b ≠ .navigableString → stringContainer [] cont top (some b) = b) := by
  refine ⟨?_, ?_, ?_, ?_⟩
  · intro nm c h; simp [stringContainer, h]
  · intro nm h; simp [stringContainer, h]
  · simp [stringContainer]
  · intro top b hb; cases top <;> simp [stringContainer, hb]

/-- Hence, with the default tables: text parsed inside script/style/template/rt/rp is invisible from every ordinary
    element (it is visible from the container itself by `default_types_container`). -/
theorem parsed_container_text_invisible (nm : PStr) (c : StrClass) (v : PStr) (h : containers.lookup nm = some c) :
    textOf isMain (.str (stringContainer [] containers (some nm) none) v) = [] := by
  have hc := (string_container_rule containers).1 nm c h
  rw [hc]
  have hall : (containers.all fun p => !main.contains p.2) = true := containers_table.2.2.2.2.2.2.1
  have hm : (nm, c) ∈ containers := by
    clear hc hall
    generalize containers = l at h
    induction l with
    | nil => simp [List.lookup] at h
    | cons a l ih =>
      obtain ⟨k, d⟩ := a
      simp only [List.lookup] at h
      split at h
      · rename_i heq
        have : nm = k := by simpa using heq
        simp_all
      · exact List.mem_cons_of_mem _ (ih h)
  have := List.all_eq_true.mp hall (nm, c) hm
  simp only [Bool.not_eq_true', main_types_table] at this
  simp [textOf, this]

example : stringContainer [] containers (some (ofS "script")) none = .script := by decide
example : stringContainer [] containers (some (ofS "script")) (some .comment) = .comment := by decide
/-- the recorded quirk (outside the property's quantifier): `element_classes={NavigableString: Sub}` turns every
    parsed string into a `Sub`, which the exact-class test then hides from ordinary elements -/
example : stringContainer [(.navigableString, .other 0)] containers none none = .other 0 ∧
    textOf isMain (.str (.other 0) (ofS "x")) = [] := by decide

/-! ## 9. on the pointer heap: parsed and edited trees

`allStringsHeap`/`getTextHeap`/`stringPropHeap` (Model/TextHeap.lean) run `_all_strings`, `get_text` and `.string`
on the pointer heap of Model/Heap.lean: over `Tag.descendants` — the `next_element` chase bounded by
`_last_descendant()` — exactly as the Python does. C01 proves that parsing and every finite history of editing calls
keep the heap consistent (`Good`); on a consistent heap the chase is the pre-order of the children lists
(Proofs/HeapIter.lean). Hence nothing about the linkage is assumed any more: sections 1–7 hold for the tree
`toNode h L h.cap x` read off the children lists. -/
section heap
open BS.Heap

/-- On every consistent heap, for every receiver, labelling and argument: the pointer-chasing `_all_strings` never
    fails and yields what the tree-level code-mirror yields on the tree read off `contents`. -/
theorem heap_allStrings_eq_tree {h : Heap} (hg : Good h) (mn : List StrClass) (L : Labels) (strp : Bool)
    (types : TypesArg) (x : Nat) :
    allStringsHeap mn h L strp types x = .ok (allStringsImpl mn strp types (toNode h L h.cap x)) := by
  obtain ⟨w, hwf⟩ := hg
  exact allStringsHeap_eq_tree hwf mn L strp types x

/-- … hence it is the recursive evaluator over the children's trees (element receiver). -/
theorem heap_allStrings_eq_spec {h : Heap} (hg : Good h) (mn : List StrClass) (L : Labels) (strp : Bool)
    (types : TypesArg) (x : Nat) (hx : (h.kind x).isTag = true) :
    allStringsHeap mn h L strp types x =
      .ok (pieces strp (textOfL (resolveTag mn (L.interesting x) types).keeps ((h.kids x).map (toNode h L h.cap)))) := by
  rw [heap_allStrings_eq_tree hg]
  obtain ⟨w, hwf⟩ := hg
  rw [toNode_unfold hwf L x hx, allStrings_eq_spec]

/-- Document order on the heap itself: the pieces are the values of the string nodes of the selected classes among
    `docOrder h x` (C01's pre-order of the subtree) after `x`, in that order. -/
theorem heap_allStrings_document_order {h : Heap} (hg : Good h) (mn : List StrClass) (L : Labels)
    (types : TypesArg) (x : Nat) (hx : (h.kind x).isTag = true) :
    allStringsHeap mn h L false types x =
      .ok ((((docOrder h x).tail).filter
        (fun e => !(h.kind e).isTag && (resolveTag mn (L.interesting x) types).keeps (L.cls e))).map h.val) := by
  obtain ⟨w, hwf⟩ := hg
  unfold allStringsHeap
  simp only [hx, if_true, descendants_eq hwf x, docOrder]
  congr 1
  generalize (pre h.kids h.cap x).tail = ds
  induction ds with
  | nil => rfl
  | cons e es ih =>
    simp only [List.filterMap_cons, List.filter_cons, ih]
    by_cases he : (h.kind e).isTag = true
    · simp [shallow, he, tagKeep]
    · cases hk : (resolveTag mn (L.interesting x) types).keeps (L.cls e) <;> simp [shallow, he, tagKeep, hk]

/-- `get_text` on the heap: never fails, and is the separator-joined pieces of the tree-level evaluator. -/
theorem heap_getText {h : Heap} (hg : Good h) (mn : List StrClass) (L : Labels) (sep : PStr) (strp : Bool)
    (types : TypesArg) (x : Nat) :
    getTextHeap mn h L sep strp types x =
      .ok (List.intercalate sep (allStringsImpl mn strp types (toNode h L h.cap x))) := by
  unfold getTextHeap
  rw [heap_allStrings_eq_tree hg]
  show Except.ok (joinImpl sep _) = _
  rw [joinImpl_eq_joinSpec, joinSpec_eq_intercalate]

/-- **Parse any document, edit it by any finite history of editing calls (all fourteen kinds, any arguments within
    C01's quantifier): text extraction on the resulting pointer structure is the recursive evaluator on its
    children lists** — for every receiver, every class labelling, every `interesting_string_types`, every argument. -/
theorem parsed_then_edited_text :
    ∀ (acts : List BS.ParseLink.Act) (ops : List Op) (h' : Heap),
      run (BS.ParseLink.prun BS.ParseLink.PSt.init acts).heap ops = .ok h' → (∀ op ∈ ops, op.kindsOK) →
      ∀ (mn : List StrClass) (L : Labels) (sep : PStr) (strp : Bool) (types : TypesArg) (x : Nat),
        allStringsHeap mn h' L strp types x = .ok (allStringsImpl mn strp types (toNode h' L h'.cap x)) ∧
        getTextHeap mn h' L sep strp types x =
          .ok (List.intercalate sep (allStringsImpl mn strp types (toNode h' L h'.cap x))) := by
  intro acts ops h' hr hk mn L sep strp types x
  have hg : Good h' := (BS.Props.C01.parsed_then_edited_consistent acts ops h' hr hk).1
  exact ⟨heap_allStrings_eq_tree hg mn L strp types x, heap_getText hg mn L sep strp types x⟩

/-- the same from freshly constructed objects (API-built trees) -/
theorem built_then_edited_text :
    ∀ (kinds : List Kind) (ops : List Op) (h' : Heap),
      run (Heap.init kinds) ops = .ok h' → (∀ op ∈ ops, op.kindsOK) →
      ∀ (mn : List StrClass) (L : Labels) (strp : Bool) (types : TypesArg) (x : Nat),
        allStringsHeap mn h' L strp types x = .ok (allStringsImpl mn strp types (toNode h' L h'.cap x)) := by
  intro kinds ops h' hr hk mn L strp types x
  have hg : Good h' := (BS.Props.C01.history_consistent ops _ h' (BS.Props.C01.init_consistent kinds) hk hr).1
  exact heap_allStrings_eq_tree hg mn L strp types x

/-- The abstraction is the tree of the children lists: a tag's tree is the tag over its children's trees, a string's
    tree is the string; the fuel `h.cap` is enough everywhere. -/
theorem toNode_is_the_tree {h : Heap} (hg : Good h) (L : Labels) (x : Nat) :
    ((h.kind x).isTag = true →
      toNode h L h.cap x = .tag (L.name x) (L.interesting x) ((h.kids x).map (toNode h L h.cap))) ∧
    ((h.kind x).isTag = false → toNode h L h.cap x = .str (L.cls x) (h.val x)) := by
  obtain ⟨w, hwf⟩ := hg
  exact ⟨toNode_unfold hwf L x, toNode_str L h.cap x⟩

/-- `.string` on the heap (the loop over `contents`) returns the string *object* at the end of the chain of only
    children, and `None` when there is none; the loop bound is never reached. -/
theorem heap_string_sole_chain {h : Heap} (hg : Good h) (x s : Nat) :
    stringPropHeap h h.cap x = some s ↔ HeapSoleChain h x s := by
  obtain ⟨w, hwf⟩ := hg
  constructor
  · exact stringPropHeap_sound h h.cap x s
  · intro hc
    have := hwf.size_cap x
    exact stringPropHeap_complete hwf hc h.cap (by omega)

/-- … and it is the tree-level `.string` of the abstracted tree (class and value of that object). -/
theorem heap_string_eq_tree (h : Heap) (L : Labels) (x : Nat) :
    stringProp (toNode h L h.cap x) = (stringPropHeap h h.cap x).map (fun s => (L.cls s, h.val s)) :=
  stringProp_toNode h L h.cap x

/-- a labelling for the examples: node 4 is a Comment, node 5 a Script string, every other string plain; tag 3
    counts Comments only, the other tags are ordinary -/
def demoLabels : Labels :=
  { cls := fun i => if i = 4 then .comment else if i = 5 then .script else .navigableString,
    interesting := fun i => if i = 3 then .many [.comment] else .many main,
    name := fun i => [i] }

/-- non-vacuity: `<t1>2<t3><!--4--></t3></t1>5` built by the API under the BeautifulSoup object 0, then edited: `5`
    moved into `t1`, a plain string `7` inserted at the front of `t1` (the library allocates node 6 for it), `2`
    extracted and appended to `t3` — and the text extracted through the pointers of the result -/
def demoHeap : Except Err Heap :=
  run (Heap.init [.soup, .tag, .str, .tag, .pre, .str])
    [.append 0 (.node 1), .append 1 (.node 2), .append 1 (.node 3), .append 3 (.node 4), .append 0 (.node 5),
     .append 1 (.node 5), .insert 1 0 [.plain [7]], .extract 2, .append 3 (.node 2)]

example : (demoHeap.toOption.map fun h => (h.kids 0, h.kids 1, h.kids 3)) = some ([1], [6, 3, 5], [4, 2]) := by
  decide +kernel
example : (demoHeap.toOption.bind fun h => (allStringsHeap main h demoLabels false .dflt 0).toOption) =
    some [[7], [2]] := by decide +kernel
example : (demoHeap.toOption.bind fun h => (allStringsHeap main h demoLabels false .dflt 3).toOption) = some [[4]] := by
  decide +kernel
example : (demoHeap.toOption.bind fun h => (allStringsHeap main h demoLabels false .none 0).toOption) =
    some [[7], [4], [2], [5]] := by decide +kernel
example : (demoHeap.toOption.bind fun h => (getTextHeap main h demoLabels (ofS "|") false .none 1).toOption) =
    some [7, 124, 4, 124, 2, 124, 5] := by decide +kernel
example : (demoHeap.toOption.map fun h => stringPropHeap h h.cap 0) = some none := by decide +kernel
example : (run (Heap.init [.soup, .tag, .tag, .str]) [.append 0 (.node 1), .append 1 (.node 2), .append 2 (.node 3)]).toOption.map
    (fun h => stringPropHeap h h.cap 0) = some (some 3) := by decide +kernel
example : ∀ op ∈ ([.append 1 (.node 5), .insert 1 0 [.plain [7]], .extract 2, .setString 3 .pre [9]] : List Op), op.kindsOK := by
  intro op h
  simp only [List.mem_cons, List.mem_nil_iff, or_false] at h
  rcases h with rfl | rfl | rfl | rfl <;> simp [Op.kindsOK]
/-- the demo heap is consistent (hypothesis `Good` of the heap theorems), by C01's history theorem -/
example : ∀ h, demoHeap = .ok h → Good h := fun h hh =>
  (BS.Props.C01.history_consistent _ _ h (BS.Props.C01.init_consistent _)
    (by intro op hop
        simp only [List.mem_cons, List.mem_nil_iff, or_false] at hop
        rcases hop with rfl | rfl | rfl | rfl | rfl | rfl | rfl | rfl | rfl <;> simp [Op.kindsOK]) hh).1
/-- a parsed start (`<a>x<b>y</b></a>z`) edited by a history: the hypothesis of `parsed_then_edited_text` is satisfiable -/
example : (run (BS.ParseLink.prun BS.ParseLink.PSt.init [.newTag, .newStr, .newTag, .newStr, .pop, .pop, .newStr]).heap
    [.append 1 (.node 5), .insert 1 0 [.plain [7]], .extract 2, .append 3 (.node 2)]).toOption.map
    (fun h => (h.kids 1, h.kids 3)) = some ([6, 3, 5], [4, 2]) := by decide +kernel

end heap

/-! ## 10. configuration: the builder's `string_containers`, builder-less tags, `new_tag`, copies, nesting -/

/-- `TreeBuilder.__init__`: an omitted `string_containers` means the class default, a dictionary — the empty one
    included — replaces it entirely, `None` is stored as `None`. -/
theorem config_option (dflt l : List (PStr × StrClass)) :
    builderStringContainers dflt .useDefault = some dflt ∧ builderStringContainers dflt (.dict l) = some l ∧
    builderStringContainers dflt .none = none := ⟨rfl, rfl, rfl⟩

/-- `Tag.__init__`, every case: with a builder the `interesting_string_types` argument is ignored and the builder's
    table decides (own class for a container name, main content classes otherwise — `new_tag` and the parser go
    through the same call); without a builder the argument is kept as given; a builder configured with
    `string_containers=None` makes every tag construction raise `TypeError` (recorded, not a documented value). -/
theorem tag_init_cases (mn : List StrClass) (cont : List (PStr × StrClass)) (nm : PStr) (p : Interesting) :
    tagInitInteresting mn (some (some cont)) nm p = .ok (interestingFor mn cont nm) ∧
    newTagInteresting mn (some cont) nm = .ok (interestingFor mn cont nm) ∧
    tagInitInteresting mn none nm p = .ok p ∧
    copySelfInteresting mn nm p = .ok p ∧
    tagInitInteresting mn (some none) nm p = .typeError ∧ newTagInteresting mn none nm = .typeError :=
  ⟨rfl, rfl, rfl, rfl, rfl, rfl⟩

/-- `string_containers={}` (and the plain `TreeBuilder`, whose default table is empty): no element is a container, not
    even script/style/template — every element counts NavigableString and CData, and plain parsed text is a
    NavigableString wherever it stands. -/
theorem empty_config_all_ordinary (dflt : List (PStr × StrClass)) (nm : PStr) (p : Interesting)
    (openNames : List PStr) (strp : Bool) (kids : List Node) :
    tagInitInteresting main (some (builderStringContainers dflt (.dict []))) nm p = .ok (.many main) ∧
    stringContainer [] [] (containerStackTop [] openNames) none = .navigableString ∧
    allStringsImpl main strp .dflt (.tag nm (interestingFor main [] nm) kids) = pieces strp (textOfL isMain kids) := by
  refine ⟨rfl, ?_, default_types_ordinary strp [] nm kids rfl⟩
  have : containerStackTop [] openNames = none := containerStackTop_none [] openNames (fun _ _ => rfl)
  rw [this]; rfl

example : tagInitInteresting main (some (builderStringContainers containers (.dict []))) (ofS "script") .none =
    .ok (.many [.navigableString, .cData]) := by decide
example : tagInitInteresting main (some (builderStringContainers containers .useDefault)) (ofS "script") (.one .comment) =
    .ok (.many [.script]) := by decide
example : tagInitInteresting main none (ofS "script") .none = .ok .none := by decide
example : tagInitInteresting main (some (builderStringContainers containers .none)) (ofS "p") .none = .typeError := by decide

/-- A builder-less tag made without `interesting_string_types` counts the main content classes, whatever its name
    (a bare `Tag(name="script")` is *not* a string container). -/
theorem builderless_tag_counts_main (strp : Bool) (nm : PStr) (kids : List Node) :
    ∃ i, tagInitInteresting main none nm .none = .ok i ∧
      allStringsImpl main strp .dflt (.tag nm i kids) = pieces strp (textOfL isMain kids) :=
  ⟨.none, rfl, default_types_none strp nm kids⟩

/-- Copies (`copy.copy`, `copy.deepcopy`, `copy_self` on every tag, `type(s)(s)` on every string) keep every tag's
    `interesting_string_types` and every string's class: every extraction on the copy equals the one on the original. -/
theorem copy_same_text (mn : List StrClass) (sep : PStr) (strp : Bool) (types : TypesArg) (n : Node) :
    copyNode mn n = n ∧
    allStringsImpl mn strp types (copyNode mn n) = allStringsImpl mn strp types n ∧
    getTextImpl mn sep strp types (copyNode mn n) = getTextImpl mn sep strp types n ∧
    stringProp (copyNode mn n) = stringProp n := by
  rw [copyNode_id]; exact ⟨rfl, rfl, rfl, rfl⟩

/-- Copying a whole BeautifulSoup object is different at the root only: `BeautifulSoup.copy_self` builds a new root
    from the same builder, so the root counts what the builder's table says for its name again, whatever had been
    assigned to the original root by hand (recorded behaviour; every element below goes through `Tag.copy_self`). -/
theorem soup_copy_root_from_builder (mn : List StrClass) (cont : List (PStr × StrClass)) (root : PStr) (orig : Interesting) :
    soupCopySelfInteresting mn (some cont) root orig = .ok (interestingFor mn cont root) := rfl

example : copyNode main demo = demo := (copy_same_text main [] false .dflt demo).1

/-- Nested containers: plain text gets the class of the **innermost** open container element (whatever other
    containers are open further out), and NavigableString when none is open. -/
theorem nested_containers_innermost (cont : List (PStr × StrClass)) (pre : List PStr) (nm : PStr) (post : List PStr)
    (c : StrClass) (hpre : ∀ g ∈ pre, cont.lookup g = none) (hnm : cont.lookup nm = some c) :
    stringContainer [] cont (containerStackTop cont (pre ++ nm :: post)) none = c := by
  rw [containerStackTop_split cont pre nm post c hpre hnm]
  simp [stringContainer, hnm]

theorem no_container_open (cont : List (PStr × StrClass)) (names : List PStr)
    (h : ∀ g ∈ names, cont.lookup g = none) :
    stringContainer [] cont (containerStackTop cont names) none = .navigableString := by
  rw [containerStackTop_none cont names h]; rfl

example : stringContainer [] containers (containerStackTop containers [ofS "b", ofS "p"]) none = .navigableString :=
  no_container_open containers _ (by decide)
example : stringContainer [] containers (containerStackTop containers [ofS "b", ofS "rt", ofS "p", ofS "template", ofS "div"])
    none = .rubyTextString := by decide
example : (∀ g ∈ [ofS "b"], containers.lookup g = none) ∧ containers.lookup (ofS "rt") = some .rubyTextString := by decide

/-! ### the parser: C03's machine with this configuration

`BS.Builder` (Model/Builder.lean, property C03) mirrors `pushTag`/`popTag`/`_popToTag`/`endData`/`string_container`
for **every** event list, with string classes as numbers (`0` = NavigableString) and an abstract
`cfg.container`. `StrClass.code` is that numbering; the theorem below instantiates C03's machine with a
`string_containers` table and identifies the class it gives to pending text with `stringContainer` on the innermost
open container. With C03's `endData_is_flush`/`build_refines` this holds in every state the parser can reach. -/
section parser
open BS.Builder

theorem classFor_eq_stringContainer (cont : List (PStr × StrClass)) (preserve : Name → Bool) (ascii : List Nat)
    (root : Name) (stack : List Frame) :
    classFor (builderCfg cont preserve ascii root) stack none =
      (Text.stringContainer [] cont (containerStackTop cont (stack.map (·.name))) none).code := by
  simp only [classFor, containerStackTop, builderCfg]
  induction stack with
  | nil => simp [Text.stringContainer, StrClass.code]
  | cons f fs ih =>
    simp only [List.map_cons, List.find?]
    cases hl : cont.lookup f.name with
    | none => simpa [hl] using ih
    | some c => simp [hl, Text.stringContainer]

/-- **Parsed text gets the class of the innermost open string-container element**: one flush of pending plain text, in
    any parser state (any open elements `top :: rest`, any pending chunks), appends exactly one string whose class is
    `stringContainer` of the innermost open container (else NavigableString). -/
theorem parsed_text_class (cont : List (PStr × StrClass)) (preserve : Name → Bool) (ascii : List Nat) (root : Name)
    (top : Frame) (rest : List Frame) (b : List PStr) (hb : b ≠ []) :
    ∃ s, sFlush (builderCfg cont preserve ascii root) ⟨top :: rest, b⟩ none =
      ⟨{ top with kids := top.kids ++
          [Doc.text (Text.stringContainer [] cont (containerStackTop cont ((top :: rest).map (·.name))) none).code s] } :: rest, []⟩ := by
  rw [← classFor_eq_stringContainer cont preserve ascii root (top :: rest)]
  cases b with
  | nil => exact absurd rfl hb
  | cons x xs => exact ⟨_, rfl⟩

/-- **Never the contents of script/style/template (rt, rp) seen from outside**, with the default tables: plain text
    flushed while the innermost open container is one of the five default container elements becomes a string that no
    ordinary element's extraction yields and that the container's own extraction yields — wherever in the tree it
    later sits. -/
theorem container_contents_invisible (preserve : Name → Bool) (ascii : List Nat) (root : Name)
    (top : Frame) (rest : List Frame) (b : List PStr) (hb : b ≠ []) (pre : List Name) (nm : Name) (post : List Name)
    (c : StrClass) (hsplit : (top :: rest).map (·.name) = pre ++ nm :: post)
    (hpre : ∀ g ∈ pre, containers.lookup g = none) (hnm : containers.lookup nm = some c) :
    ∃ s, sFlush (builderCfg containers preserve ascii root) ⟨top :: rest, b⟩ none =
        ⟨{ top with kids := top.kids ++ [Doc.text c.code s] } :: rest, []⟩ ∧
      textOf isMain (.str (StrClass.ofCode c.code) s) = [] ∧
      textOf (fun d => d == c) (.str (StrClass.ofCode c.code) s) = [s] := by
  obtain ⟨s, hs⟩ := parsed_text_class containers preserve ascii root top rest b hb
  rw [hsplit, nested_containers_innermost containers pre nm post c hpre hnm] at hs
  refine ⟨s, hs, ?_, ?_⟩
  · rw [ofCode_code]
    have hall : (containers.all fun p => !main.contains p.2) = true := containers_table.2.2.2.2.2.2.1
    have := List.all_eq_true.mp hall (nm, c) (lookup_mem nm c containers hnm)
    simp only [Bool.not_eq_true', main_types_table] at this
    simp [textOf, this]
  · rw [ofCode_code]; simp [textOf]

example : (∀ g ∈ [ofS "b"], containers.lookup g = none) ∧ containers.lookup (ofS "script") = some .script ∧
    (([⟨ofS "b", none, []⟩, ⟨ofS "script", none, []⟩, ⟨[0], none, []⟩] : List Frame).map (·.name)) =
      [ofS "b"] ++ ofS "script" :: [[0]] := by decide

end parser

/-! ## 11. the arguments at full strength -/

/-- `strip` is tested by `if strip:` — only its truth value matters: `0`, `None`, `""` behave as `False`; any other
    integer and any non-empty string as `True`. -/
theorem strip_truthiness (mn : List StrClass) (a b : PyArg) (types : TypesArg) (n : Node) (h : a.truthy = b.truthy) :
    allStringsArg mn a types n = allStringsArg mn b types n := by
  simp only [allStringsArg, h]

theorem strip_falsy_truthy (mn : List StrClass) (types : TypesArg) (n : Node) (k : Int) (hk : k ≠ 0) (s : PStr)
    (hs : s ≠ []) :
    allStringsArg mn (.int 0) types n = allStringsImpl mn false types n ∧
    allStringsArg mn .none types n = allStringsImpl mn false types n ∧
    allStringsArg mn (.str []) types n = allStringsImpl mn false types n ∧
    allStringsArg mn (.int k) types n = allStringsImpl mn true types n ∧
    allStringsArg mn (.str s) types n = allStringsImpl mn true types n := by
  refine ⟨rfl, rfl, rfl, ?_, ?_⟩
  · have : (k != 0) = true := by simpa using hk
    simp only [allStringsArg, PyArg.truthy, this]
  · cases s with
    | nil => exact absurd rfl hs
    | cons x xs => rfl

example : PyArg.truthy (.int 2) = PyArg.truthy (.str (ofS "yes")) := by decide

/-- `strip()` is *the* trim: however a string is cut into whitespace, a middle without leading or trailing whitespace,
    and whitespace, the middle is `strip` of it (with `strip_spec`: existence and uniqueness). -/
theorem strip_unique_trim (s a m b : PStr) (hs : s = a ++ m ++ b) (ha : ∀ c ∈ a, isSpace c = true)
    (hb : ∀ c ∈ b, isSpace c = true) (hh : ∀ c, m.head? = some c → isSpace c = false)
    (hl : ∀ c, m.getLast? = some c → isSpace c = false) : strip s = m :=
  strip_unique s a m b hs ha hb hh hl

example : strip ([32, 0x3000] ++ ofS "a b" ++ [10]) = ofS "a b" :=
  strip_unique_trim _ [32, 0x3000] (ofS "a b") [10] rfl (by decide) (by decide) (by decide) (by decide)

/-- A string asked for its own text: by default it counts only if it is a NavigableString or CData, *whatever its
    parent* — a Script string inside `<script>` has empty `.text` (recorded behaviour of `NavigableString._all_strings`). -/
theorem str_receiver_default (strp : Bool) (c : StrClass) (v : PStr) :
    allStringsImpl main strp .dflt (.str c v) =
      if isMain c then ([if strp then strip v else v].filter (fun s => !s.isEmpty)) else [] := by
  rw [allStrings_str_eq_spec]
  simp only [resolveStr, textOf, Types.keeps, main_types_table]
  by_cases h : isMain c = true
  · simp [h]
  · simp [h]

/-- … and an explicit `types` selects a string receiver by exact class as well. -/
theorem types_arg_str (mn : List StrClass) (strp : Bool) (cs : List StrClass) (c : StrClass) (v : PStr) :
    allStringsImpl mn strp (.many cs) (.str c v) =
      if cs.contains c then ([if strp then strip v else v].filter (fun s => !s.isEmpty)) else [] := by
  rw [allStrings_str_eq_spec]
  simp only [resolveStr, textOf, Types.keeps]
  by_cases h : c ∈ cs
  · simp [h]
  · simp [h]

example : allStringsImpl main false .dflt (.str .script (ofS "s")) = [] := by decide
example : allStringsImpl main false (.many [.script]) (.str .script (ofS "s")) = [ofS "s"] := by decide

/-- A one-shot iterator (generator) as `types` — not the documented tuple: `in` consumes it, so the loop yields only a
    *sublist* of what the same classes passed as a tuple select, depending on the order of the strings. -/
theorem iter_types_sublist (mn : List StrClass) (strp : Bool) (cs : List StrClass) (nm : PStr) (i : Interesting)
    (kids : List Node) :
    (allStringsIterImpl strp cs (.tag nm i kids)).Sublist (allStringsImpl mn strp (.many cs) (.tag nm i kids)) := by
  simp only [allStringsIterImpl, allStringsImpl, resolveTag]
  exact iterWalk_sublist strp cs (walk kids) cs (fun _ h => h)

/-- the sublist can be proper: `types=iter([Comment, NavigableString])` on "a", <!--c--> finds "a" only after skipping
    `Comment`, which is then gone -/
example : allStringsIterImpl false [.comment, .navigableString]
      (.tag [] .none [.str .navigableString (ofS "a"), .str .comment (ofS "c")]) = [ofS "a"] ∧
    allStringsImpl main false (.many [.comment, .navigableString])
      (.tag [] .none [.str .navigableString (ofS "a"), .str .comment (ofS "c")]) = [ofS "a", ofS "c"] := by
  constructor
  · simp [allStringsIterImpl, walk_eq_pre, preL, preN, iterWalk, iterIn, tagKeep, Types.keeps]
  · rw [types_arg_exact]; decide

/-! ## 12. a `Tag` (or `BeautifulSoup`) subclass with its own `MAIN_CONTENT_STRING_TYPES`; pickling -/

/-- An element whose class overrides `MAIN_CONTENT_STRING_TYPES` with `cm` (installed through
    `element_classes={Tag: Sub}`, or a `BeautifulSoup` subclass): built with a builder under an ordinary name, or
    builder-less with `interesting_string_types=None`, it counts exactly the classes in `cm` — whatever the stock
    classes count; a container name still gives the container's own class. -/
theorem subclass_main (mn cm : List StrClass) (strp : Bool) (cont : List (PStr × StrClass)) (nm : PStr) (kids : List Node) :
    (cont.lookup nm = none →
      allStringsImpl mn strp .dflt (.tag nm (interestingFor cm cont nm) kids) =
        pieces strp (textOfL (fun c => cm.contains c) kids)) ∧
    allStringsImpl mn strp .dflt (.tag nm (Interesting.ofClass cm .none) kids) =
      pieces strp (textOfL (fun c => cm.contains c) kids) ∧
    (∀ c, cont.lookup nm = some c →
      allStringsImpl mn strp .dflt (.tag nm (interestingFor cm cont nm) kids) = pieces strp (textOfL (fun d => d == c) kids)) := by
  refine ⟨?_, ?_, ?_⟩
  · intro h
    rw [allStrings_eq_spec]
    simp only [interestingFor, h, resolveTag]
    rfl
  · rw [allStrings_eq_spec]
    simp only [Interesting.ofClass, resolveTag]
    rfl
  · intro c h
    rw [allStrings_eq_spec]
    simp only [interestingFor, h, resolveTag]
    rw [textOfL_congr _ (fun d => d == c) (fun d => by first | rfl | (simp only [Types.keeps, List.contains_cons, List.contains_nil, Bool.or_false]))]

/-- the subclass's set is what `Tag.__init__` stores for parsed tags and `new_tag` (the `main` argument of the mirror is
    `self.MAIN_CONTENT_STRING_TYPES`, not `Tag.MAIN_CONTENT_STRING_TYPES`) -/
example : tagInitInteresting [.navigableString, .cData, .comment] (some (some containers)) (ofS "div") .none =
    .ok (.many [.navigableString, .cData, .comment]) := by decide
example : allStringsImpl main false .dflt (.tag (ofS "div") (interestingFor [.navigableString, .cData, .comment] containers (ofS "div"))
    [.str .navigableString (ofS "a"), .str .comment (ofS "b"), .str .script (ofS "s")]) = [ofS "a", ofS "b"] := by
  rw [allStrings_eq_spec]; decide
example : allStringsImpl main false .dflt (.tag (ofS "x") (Interesting.ofClass [.comment] .none)
    [.str .navigableString (ofS "a"), .str .comment (ofS "b")]) = [ofS "b"] := by
  rw [allStrings_eq_spec]; decide

/-- Pickling: a picklable builder (html.parser) travels with the document, configuration included, so the re-parse on
    unpickling and `new_tag` afterwards follow the same `string_containers`; for a builder that is not picklable only
    its class is kept and the class defaults apply (recorded). -/
theorem pickle_keeps_config (dflt : List (PStr × StrClass)) (sc : Option (List (PStr × StrClass))) (mn : List StrClass)
    (nm : PStr) :
    pickledStringContainers true dflt sc = sc ∧
    newTagInteresting mn (pickledStringContainers true dflt sc) nm = newTagInteresting mn sc nm ∧
    pickledStringContainers false dflt sc = some dflt := ⟨rfl, rfl, rfl⟩

/-- Pickling with a builder *object* of any truth value: a picklable builder keeps its table whatever its truth value
    (`__setstate__` asks `is None` since ca31e7d), so the re-parse on unpickling and `new_tag` afterwards follow the same
    `string_containers` as before the round trip. -/
theorem unpickle_keeps_builder_object (dflt htmlDflt : List (PStr × StrClass)) (b : BuilderObj) (mn : List StrClass) (nm : PStr) :
    pickledStringContainersObj true dflt htmlDflt b = b.sc ∧
    newTagInteresting mn (pickledStringContainersObj true dflt htmlDflt b) nm = newTagInteresting mn b.sc nm := ⟨rfl, rfl⟩

/-- the code before the repair (`elif not self.builder`) swapped a FALSY builder for a default `HTMLParserTreeBuilder`:
    the configuration survived exactly when the object was truthy or its table was the HTML default anyway -/
theorem unpickle_builder_truth_value_old (dflt htmlDflt : List (PStr × StrClass)) (sc : Option (List (PStr × StrClass))) :
    pickledStringContainersObjOld true dflt htmlDflt ⟨sc, true⟩ = sc ∧
    pickledStringContainersObjOld true dflt htmlDflt ⟨sc, false⟩ = some htmlDflt := ⟨rfl, rfl⟩

/-- witness of the repaired finding `C13-unpickle-falsy-builder`: under the old code a falsy builder configured with
    `string_containers={}` came back from a pickle round trip with the default table — `<script>` a string container
    again; under the repaired code it does not -/
theorem unpickle_falsy_builder_witness :
    pickledStringContainersObjOld true containers containers ⟨some [], false⟩ ≠ some [] ∧
    newTagInteresting main (pickledStringContainersObjOld true containers containers ⟨some [], false⟩) (ofS "script") =
      .ok (.many [.script]) ∧
    pickledStringContainersObj true containers containers ⟨some [], false⟩ = some [] ∧
    newTagInteresting main (some []) (ofS "script") = .ok (.many main) := by decide

/-- A builder object that happens to be falsy (`__len__() == 0`, `__bool__() == False`) is still a builder: tags made with
    it get what its `string_containers` says, exactly like a truthy one; only `None` means "no builder". -/
theorem falsy_builder_is_a_builder (mn : List StrClass) (sc : Option (List (PStr × StrClass))) (t : Bool) (nm : PStr)
    (p : Interesting) :
    tagInitInterestingObj mn (some ⟨sc, t⟩) nm p = tagInitInterestingObj mn (some ⟨sc, true⟩) nm p ∧
    tagInitInterestingObj mn (some ⟨sc, t⟩) nm p = tagInitInteresting mn (some sc) nm p ∧
    tagInitInterestingObj mn none nm p = .ok p := ⟨rfl, rfl, rfl⟩

example : tagInitInterestingObj main (some ⟨some containers, false⟩) (ofS "script") .none = .ok (.many [.script]) := by decide

section retry
open BS.Builder
/-- **Rejected parse attempts leave nothing behind.** `BeautifulSoup.__init__` tries the candidates of
    `prepare_markup()` in turn, calling `reset()` before each: however many candidates were rejected after sending
    events — with whatever string-container (and whitespace-preserving) elements still open — the document is the one
    built from the accepted candidate alone, so its strings have the classes `parsed_text_class` gives them (C03's
    `rejected_strategies_leave_no_trace`, instantiated with a `string_containers` table). -/
theorem rejected_attempts_leave_no_container_open (cont : List (PStr × StrClass)) (preserve : Name → Bool)
    (ascii : List Nat) (root : Name) (st : St) (rej : List Attempt) (hr : ∀ a ∈ rej, a.rejected = true) (evs : List Ev)
    (later : List Attempt) :
    parseLoop (builderCfg cont preserve ascii root) st (rej ++ ⟨evs, false⟩ :: later) =
      some (build (builderCfg cont preserve ascii root) evs) :=
  BS.Props.C03.rejected_strategies_leave_no_trace _ st rej hr evs later

/-- non-vacuity: a first candidate abandoned inside an open `<template>` (name `[2]` here), then the accepted one: the
    text `x` of the accepted document is a plain string (class 0), exactly as without the rejected attempt -/
example : parseLoop (builderCfg [([2], .templateString)] (fun _ => false) [32] [0]) (St.init (builderCfg [([2], .templateString)] (fun _ => false) [32] [0]))
    [⟨[.start [2] none, .data [120]], true⟩, ⟨[.start [3] none, .data [120]], false⟩] =
    some [.elem [3] none [.text 0 [120]]] := by rfl
end retry

/-! ## 13. the consumer edits the string it was just handed (histories of (yield, edit) steps)

`stringsIterEditFrom` (Model/TextHeap.lean) is `for s in tag._all_strings(False, types): <edit>` on the pointer heap:
the generator `Tag.descendants` reads `successor = current.next_element` **before** `yield current`. -/
section iteration
open BS.Heap

/-- **Extracting the string just handed out does not end or derail the iteration.** On a consistent heap, whatever
    subset of the strings the consumer extracts as it receives them, the iteration hands out exactly the interesting
    strings that were beneath the element when it started, in document order (the ids behind `allStringsHeap`). -/
theorem iteration_survives_extract {h : Heap} (hg : Good h) (mn : List StrClass) (L : Labels) (types : TypesArg) (x : Nat)
    (edit : Heap → Nat → Nat → Option Op) (hedit : ∀ hh k c, edit hh k c = none ∨ edit hh k c = some (.extract c))
    (l : List Nat) (h' : Heap) (hr : stringsIterEditFrom mn L types edit h.cap h x = .ok (l, h')) :
    ∃ ds, descendants h x = .ok ds ∧ l = ds.filter (heapKeeps mn L types x h) := by
  obtain ⟨w, hwf⟩ := hg
  unfold stringsIterEditFrom at hr
  cases hs : genStart h x with
  | error e => simp only [hs] at hr; cases hr
  | ok o =>
    cases o with
    | none =>
      simp only [hs] at hr; cases hr
      exact ⟨[], (genStart_descendants h x).2 hs, rfl⟩
    | some st =>
      simp only [hs] at hr
      refine ⟨genList h h.cap st, (genStart_descendants h x).1 st hs, ?_⟩
      have hinv : IterInv h st := by
        refine ⟨⟨w, hwf⟩, ?_⟩
        intro a ha
        unfold genStart at hs
        cases hk : (h.kids x).head? with
        | none => simp [hk] at hs
        | some first =>
          simp only [hk] at hs
          cases hl : lastDescendant h x true with
          | error e => simp [hl] at hs
          | ok last =>
            simp only [hl, Except.ok.injEq, Option.some.injEq] at hs
            subst hs
            simp only [Option.some.injEq] at ha
            subst ha
            have hm : first ∈ h.kids x := List.mem_of_mem_head? hk
            rw [hwf.kid_parent x first hm]; simp
      exact stringsIterEdit_eq (heapKeeps mn L types x) edit IterInv iterInv_next
        (fun hh st0 c st' k op h1 hI hgn hk he hstep => by
          rcases hedit hh k c with hn | hx
          · rw [hn] at he; cases he
          · rw [hx] at he; cases he
            exact extract_frame mn L types x hh st0 c st' h1 hI hgn hk hstep)
        h.cap h st 0 l h' hinv hr

/-- For *any* editing calls: if each edit, made while the generator is suspended, has the frame property (`EditFrame`:
    the remaining walk and the filter's verdicts are unchanged), the interleaved iteration hands out what the undisturbed
    one does. Full statement (not proved): every call of C01's alphabet applied to the string just handed out
    (`replace_with`, `insert_before/after`, `wrap`, `decompose`, …) has the frame property on a consistent heap. Proved
    for `extract` (`iteration_survives_extract`); missing for the others is the analogue of `extract_ne_after` for the
    paste witness of `Tag._insert` (they are `extract` + `_insert` of other nodes). The correspondence streams
    `heap-iter` and `tree-iter` run all of them against the real code. -/
theorem iteration_survives_framed_edits_partial (keep : Heap → Nat → Bool) (edit : Heap → Nat → Nat → Option Op)
    (Inv : Heap → GenSt → Prop) (hnext : ∀ h st c st', Inv h st → genNext h st = some (c, st') → Inv h st')
    (hedit : ∀ h st c st' k op h1, Inv h st → genNext h st = some (c, st') → keep h c = true → edit h k c = some op →
      step h op = .ok h1 → Inv h1 st' ∧ EditFrame keep h h1 st')
    (f : Nat) (h : Heap) (st : GenSt) (k : Nat) (l : List Nat) (h' : Heap) (hI : Inv h st)
    (hr : stringsIterEdit keep edit f h st k = .ok (l, h')) : l = (genList h f st).filter (keep h) :=
  stringsIterEdit_eq keep edit Inv hnext hedit f h st k l h' hI hr

/-- the undisturbed generator is `Tag.descendants` -/
theorem generator_is_descendants (h : Heap) (x : Nat) (st : GenSt) (hs : genStart h x = .ok (some st)) :
    descendants h x = .ok (genList h h.cap st) := (genStart_descendants h x).1 st hs

/-- non-vacuity: on the demo heap every string of the document is extracted as it is handed out; all four are handed
    out, in document order, and the document ends up without strings -/
example : (demoHeap.toOption.bind fun h =>
    (stringsIterEditFrom main demoLabels .none (fun _ _ c => some (.extract c)) h.cap h 0).toOption.map
      (fun r => (r.1, r.2.kids 1, r.2.kids 3))) = some ([6, 4, 2, 5], [3], []) := by decide +kernel
/-- … and replacing each by a new plain string (the library allocates nodes 7..10) hands out the same four -/
example : (demoHeap.toOption.bind fun h =>
    (stringsIterEditFrom main demoLabels .none (fun _ k c => some (.replaceWith c [.plain [100 + k]])) h.cap h 0).toOption.map
      (fun r => (r.1, r.2.kids 1, r.2.kids 3))) = some ([6, 4, 2, 5], [7, 3, 10], [8, 9]) := by decide +kernel
/-- reading the successor only AFTER the consumer had the element (the seeded change) ends the iteration at once: the
    extracted string has no `next_element` any more -/
example : (demoHeap.toOption.bind fun h => (extract h 6).toOption.map (fun h1 => (h.ne 6, h1.ne 6))) =
    some (some 3, none) := by decide +kernel

end iteration

end BS.Props.C13
